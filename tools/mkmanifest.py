#!/usr/bin/env python3
"""Regenerates /verif/MANIFEST.json from the table below (claimed checks) and properties.jsonl."""
import json, subprocess
props = [json.loads(l) for l in open('/verif/properties.jsonl')]
TECH = "explicit TLA+ spec checked by TLC + conformance (TLC-generated scenarios replayed into the real code; recorded traces validated by a Trace_* spec)"
claimed = {
 "C01": dict(design="5 (C01)", text="TLC checks the laws of the region algebra on spec/BoolOps.tla and generates pairs of lattice paths (all degenerate placements: shared vertices, collinear overlaps, vertical edges, spikes, coincident contours; 1-2 contours, 3-6 vertices) with the exact three-valued expected cells of And/Or/Xor/Not/DivideBy; every pair is executed on the real operations under 2-3 affine embeddings (lattice symmetries, translation, 1e-3/1e4 scaling, Pythagorean rotation, shear) and judged by an independent winding oracle at the spec's sample points, plus inclusion-exclusion of the real result areas; panics and non-termination are violations. Further sources with spec-computed expectations: register programs (P op1 Q1) op2 Q2; curved operands (spec/CurvedOps.tla, exact winding by dyadic subdivision); multi-contour scenes, band, plate and island scenes recorded from the real operations and judged by spec/Trace_BoolOps.tla; sub-grid jitter embeddings (coinciding vertices moved apart by less than the 1e-8 snap grid); the Paths entry points.",
   note="Trusted: TLC, harness/internal/oracle (winding by crossing number), latgeo embeddings. Operands are lattice polygons, closed chains of cubic Beziers and their affine images. Rare sweep-line robustness failures of the unchanged library in the 'degenerate'/'overlap' feature classes are listed as known findings by (deviation kind, feature class) signature; failures in general position or of a new kind are reported."),
 "C02": dict(design="5 (C02)", text="TLC checks SettleLaws on spec/BoolOps.tla and generates lattice paths (exhaustive 4-point contours and pairs of 3-point contours on the 3x3 lattice; random self-intersecting 5-6-gons, two contours, open sub-paths) with the exact expected winding (0/1/free) of Settle under the four fill rules; the real Settle output must have exactly that winding at every sample (hence equal NonZero/EvenOdd/Positive readings), be closed, free of proper crossings, leave the receiver unchanged, and a second Settle must keep cells, canonical form and area. Further sources: curved contours (spec/CurvedOps.tla), contours mixing lines, rotated elliptical arcs, quadratic and cubic Beziers with the exact windings of spec/Query.tla, a fixed-seed family of contours sharing an edge crossed by thin triangles (spec/Scenes.tla; the failures of the unchanged tree in it are known findings per input), and the Paths.Settle entry point.",
   note="Trusted: TLC, winding oracle, proper-crossing test with tolerance 1e-7 x embedding scale. Inputs are lattice polygons, lattice curve paths and their affine images."),
 "C15": dict(design="5 (C15)", text="TLC model-checks the Context/Canvas machine (spec/Context.tla: invariants OrderOK, FitPost, StackDepth; action properties LayersStable, PushPopRestores), enumerates call histories exhaustively (broad alphabet depth 3, narrow stack/z-order/canvas alphabets depth 5-7) and by simulation (depth 10-14) with the exact expected RenderTo event list, and replays each into the real Context/Canvas; in the other direction long random call traces recorded from the real objects are validated event by event by spec/Trace_Context.tla.",
   note="Trusted: TLC, the recording renderer and the abstraction of styles/matrices in harness/internal/props/c15; matrices restricted to the integer lattice (rotations by multiples of 90 degrees); text/image content not inspected, only their placement."),
 "C20": dict(design="5 (C20)", text="TLC model-checks the pool life-cycle (spec/Pools.tla: Exclusive, NoStaleRead, Balanced, PooledGarbage) and the font-name counter (spec/PoolsCounter.tla: UniqueNames), with negative controls (buggy variants must violate). The stale-state adversary of the model is realised by verif hooks: TLC-generated operations are executed on clean pools, on pools poisoned with adversarial objects (3 patterns) and after preceding calls and must give bit-identical results; TLC-generated interleavings are imposed on two goroutines at pool-operation granularity through a blocking hook and each result must equal its solo result; recorded pool Get/Put events are validated by spec/Trace_Pools.tla; mixed concurrent workloads (geometry, text layout on a shared font, font loading incl. fonts without name records, rasterization) run in a -race build and are compared with their solo results.",
   note="Trusted: TLC, the Go race detector, hooks in /repo (build tag verif). Instruction-level schedules are outside TLA+: the spec contributes the pool life-cycle, the stale-state adversary and interleavings at pool-operation granularity."),
}
PENDING = set(open('/verif/tools/pending.txt').read().split()) if __import__('os').path.exists('/verif/tools/pending.txt') else set()
import os
extra = '/verif/tools/claimed_extra.json'
if os.path.exists(extra):
    claimed.update(json.load(open(extra)))
man = {
 "version": 1,
 "setup_cmd": "cd /verif/harness && GOFLAGS=-mod=mod GOPROXY=off go build -tags verif -o /verif/bin/vcheck ./cmd/vcheck && GOFLAGS=-mod=mod GOPROXY=off go build -race -tags verif -o /verif/bin/vrace ./cmd/vrace && /verif/bin/vcheck --sany",
 "hooks": {"guard": "verif", "enable": "go build -tags verif (done by /verif/check for every check)",
           "baseline_off_cmd": "cd /repo && go test -json -vet=off -count=1 -timeout 25m ./...",
           "source_commits": subprocess.run("git -C /repo log --format=%H --grep='^verif hooks'", shell=True, capture_output=True, text=True).stdout.split(),
           "add_only": True},
 "engines": [{"name": "vcheck", "path": "/verif/harness/cmd/vcheck", "serves_properties": sorted(claimed),
              "kind_free_text": "Go harness: runs TLC on /verif/spec (model checking, scenario generation, trace validation) and replays scenarios into the real library built from /repo's working tree with -tags verif"}],
 "checks": [], "not_applicable": [],
 "notes": "See DESIGN.md. Every check = TLC model check of a spec module + TLC-generated scenarios replayed into the real code and/or traces recorded from the real code validated by a Trace_* spec. Known findings: known_findings.json and known_findings.d/*.json.",
}
for k in PENDING:
    claimed.pop(k, None)
man["engines"][0]["serves_properties"] = sorted(claimed)
for p in props:
    i = p['id']
    if i in claimed:
        c = claimed[i]
        man["checks"].append({"property_id": i, "quick_cmd": f"./check {i} quick", "thorough_cmd": f"./check {i} thorough",
            "evidence_file": f"/verif/evidence/{i}.json", "replay_cmd_template": f"./check {i} --replay {{path}}", "engine": "vcheck",
            "level_claimed": {"category": "model_checking", "text": c["text"], "design_ref": c["design"]},
            "level_note": c["note"], "technique": c.get("technique", TECH)})
    else:
        man["not_applicable"].append({"property_id": i, "reason": "check not yet built/green in this session (planned with the same technique, see DESIGN.md section 5); not claimed until its machinery is committed and passes on the unchanged tree"})
json.dump(man, open('/verif/MANIFEST.json', 'w'), indent=1)
print("claimed:", sorted(claimed))
