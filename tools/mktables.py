#!/usr/bin/env python3
"""Regenerates the generated tables of DESIGN.md (between <!-- GEN:x --> markers) from /repo's git log,
known_findings*.json and seeded/*/meta.json."""
import json, glob, subprocess, re, os
def sh(c): return subprocess.run(c, shell=True, capture_output=True, text=True).stdout
fixes = [l.split(' ', 1) for l in sh("git -C /repo log --reverse --format='%h %s' --grep='^fix:'").strip().splitlines()]
t13 = ["| commit | repair (one `fix:` commit each, existing tests unchanged) |", "|---|---|"]
for h, s in fixes:
    t13.append(f"| {h} | {s[5:].strip()} |")
known = []
for f in ['/verif/known_findings.json'] + sorted(glob.glob('/verif/known_findings.d/*.json')):
    for k in json.load(open(f)).get('findings', []):
        if k.get('status') == 'known':
            known.append(k)
t13k = ["| property | finding (name / signature) | what fails |", "|---|---|---|"]
for k in sorted(known, key=lambda k: k['property']):
    name = k.get('name') or k['signature']
    d = k['description'].replace('|', '\\|')
    t13k.append(f"| {k['property']} | `{name[:70]}` | {d[:330]} |")
t14 = ["| seeded change | property | what it needs to manifest | caught by the registered quick check? |", "|---|---|---|---|"]
for m in sorted(glob.glob('/verif/seeded/*/meta.json')):
    j = json.load(open(m)); n = os.path.basename(os.path.dirname(m))
    needs = re.sub(r'\s+', ' ', j.get('what_it_needs_to_manifest', ''))[:260].replace('|', '\\|')
    res = ("yes — " + "; ".join(j.get('violation_classes', [])[:2])) if j.get('caught') else "NO (see note)"
    if j.get('note'): res += " — " + j['note'][:200]
    t14.append(f"| {n} | {j['property']} | {needs} | {res[:420]} |")
s = open('/verif/DESIGN.md').read()
for tag, rows in (('fixes', t13), ('known', t13k), ('seeded', t14)):
    a, b = f"<!-- GEN:{tag} -->", f"<!-- /GEN:{tag} -->"
    if a in s:
        s = s[:s.index(a) + len(a)] + "\n" + "\n".join(rows) + "\n" + s[s.index(b):]
open('/verif/DESIGN.md', 'w').write(s)
print(len(fixes), "fixes,", len(known), "known,", len(t14) - 2, "seeded")
