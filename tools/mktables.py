#!/usr/bin/env python3
"""Regenerates the generated tables of DESIGN.md (between <!-- GEN:x --> markers) from /repo's git log,
known_findings*.json and seeded/*/meta.json."""
import json, glob, subprocess, re, os
def sh(c): return subprocess.run(c, shell=True, capture_output=True, text=True).stdout
fixes = [l.split(' ', 1) for l in sh("git -C /repo log --reverse --format='%h %s' --grep='^fix:'").strip().splitlines()]
t13 = ["| commit | repair (one `fix:` commit each, existing tests unchanged) |", "|---|---|"]
for h, s in fixes:
    t13.append(f"| {h} | {s[5:].strip()} |")
known = []
for f in ['/verif/known_findings.json'] + sorted(glob.glob('/verif/known_findings.d/*.json')):
    for k in json.load(open(f)).get('findings', []):
        if k.get('status') == 'known':
            known.append(k)
t13k = ["| property | finding (name / signature) | what fails |", "|---|---|---|"]
for k in sorted(known, key=lambda k: k['property']):
    name = k.get('name') or k['signature']
    d = k['description'].replace('|', '\\|')
    t13k.append(f"| {k['property']} | `{name[:70]}` | {d[:330]} |")
t14 = ["| seeded change | property | what it needs to manifest | caught by the registered quick check? |", "|---|---|---|---|"]
for m in sorted(glob.glob('/verif/seeded/*/meta.json')):
    j = json.load(open(m)); n = os.path.basename(os.path.dirname(m))
    needs = re.sub(r'\s+', ' ', j.get('what_it_needs_to_manifest', ''))
    needs = re.sub(r'^#+ *What it needs( in order)? to manifest *', '', needs, flags=re.I)[:260].replace('|', '\\|')
    res = ("yes — " + "; ".join(j.get('violation_classes', [])[:2])) if j.get('caught') else ("not by this property's check; caught by " + j['caught_by_other'] if j.get('caught_by_other') else "NO (see note)")
    if j.get('caught') and j.get('missed_before_strengthening'): res = "yes, after strengthening (missed by the check as first built) — " + res[6:]
    if j.get('note'): res += " — " + j['note'][:200]
    t14.append(f"| {n} | {j['property']} | {needs} | {res[:420]} |")
man = json.load(open('/verif/MANIFEST.json'))
t11 = ["| property | spec modules | last evidence (tier, TLC states, scenarios replayed / traces validated, distinct non-trivial, known-finding classes hit) | seeded changes caught |", "|---|---|---|---|"]
mods = {"C01": "Lattice, BoolOps, Trace_BoolOps, CurvedOps", "C02": "Lattice, BoolOps, CurvedOps, Scenes, LatCurves/Query", "C03": "Curves, Trace_Curves", "C04": "Stroke, StrokeCurves, Trace_StrokeCurves",
        "C05": "Dash, Trace_Dash", "C06": "LatCurves, CurveGen, Query", "C07": "Mat, LatCurves, Transform, Trace_Transform", "C08": "LatCurves, Bounds", "C09": "LatCurves, Measure", "C10": "Builder, Trace_Builder",
        "C11": "PathText", "C12": "GState, Trace_GState", "C13": "PDFDoc, Trace_PDFDoc", "C14": "GState, Raster", "C15": "Mat, Context, Trace_Context",
        "C16": "KnuthPlass, Layout, Trace_Layout", "C17": "KnuthPlass, Trace_KnuthPlass", "C18": "FontEmbed, Trace_FontEmbed", "C19": "SVGDoc",
        "C20": "Pools, PoolsCounter, Trace_Pools, BoolOps"}
seeded = {}
for m in glob.glob('/verif/seeded/*/meta.json'):
    j = json.load(open(m)); seeded.setdefault(j['property'], []).append(bool(j.get('caught')))
for c in man['checks']:
    i = c['property_id']; ev = ''
    try:
        e = json.load(open(f'/verif/evidence/{i}.json')); cv = e['coverage']
        ev = f"{e['tier']}: {cv.get('states', 0):,} states, {cv.get('traces_validated_against_impl', 0):,} replayed/validated, {cv.get('distinct_nontrivial', 0):,} non-trivial, {len(cv.get('known_finding_hits', {}))} known classes, {e['wall_s']:.0f} s"
    except Exception as x:
        ev = '(no evidence file yet)'
    sd = seeded.get(i, [])
    t11.append(f"| {i} | {mods.get(i, '')} | {ev} | {sum(sd)}/{len(sd)} |" if sd else f"| {i} | {mods.get(i, '')} | {ev} | – |")
for na in man.get('not_applicable', []):
    t11.append(f"| {na['property_id']} | {mods.get(na['property_id'], '')} | not claimed: {na['reason'][:120]} | – |")
rounds = {}
for m in sorted(glob.glob('/verif/seeded/*/meta.json')):
    j = json.load(open(m)); n = os.path.basename(os.path.dirname(m)).split('-', 1)[1]
    r = 1 if n.startswith('m') else int(n[1])
    d = rounds.setdefault(r, {'n': 0, 'first': 0, 'after': 0, 'missed': []})
    d['n'] += 1
    if j.get('caught') and not j.get('missed_before_strengthening') and 'MISSED' not in (j.get('note') or ''): d['first'] += 1
    elif j.get('caught'): d['after'] += 1
    elif j.get('caught_by_other'): d.setdefault('other', []).append(os.path.basename(os.path.dirname(m)) + ' by ' + j['caught_by_other'])
    else: d['missed'].append(os.path.basename(os.path.dirname(m)))
t14s = ["| round | seeded changes | caught by the check as it stood | caught after strengthening | caught by another property's check | still missed |", "|---|---|---|---|---|---|"]
for r in sorted(rounds):
    d = rounds[r]
    t14s.append(f"| {r} | {d['n']} | {d['first']} | {d['after']} | {', '.join(d.get('other', [])) or '0'} | {len(d['missed'])} {('(' + ', '.join(d['missed']) + ')') if d['missed'] else ''} |")
s = open('/verif/DESIGN.md').read()
for tag, rows in (('status', t11), ('fixes', t13), ('known', t13k), ('seeded', t14), ('seedsummary', t14s)):
    a, b = f"<!-- GEN:{tag} -->", f"<!-- /GEN:{tag} -->"
    if a in s:
        s = s[:s.index(a) + len(a)] + "\n" + "\n".join(rows) + "\n" + s[s.index(b):]
open('/verif/DESIGN.md', 'w').write(s)
print(len(fixes), "fixes,", len(known), "known,", len(t14) - 2, "seeded")
