#!/usr/bin/env python3
"""importseed.py <ID> <mutdir> <name> <seedrun-dir> "<needs>" — copies a confirmed seeded change into /verif/seeded/<ID>-<name>/"""
import sys, os, shutil, json, re, glob
ID, mut, name, run, needs = sys.argv[1:6]
dst = f"/verif/seeded/{ID}-{name}"
os.makedirs(dst, exist_ok=True)
old = json.load(open(f"{dst}/meta.json")) if os.path.exists(f"{dst}/meta.json") else None
if os.path.realpath(mut) != os.path.realpath(dst):
    shutil.copy(f"{mut}/patch.diff", dst)
    for f in glob.glob(f"{mut}/*_test.go") + glob.glob(f"{mut}/README.md"):
        shutil.copy(f, dst)
if old and not needs:
    needs = old.get("what_it_needs_to_manifest", "")
chk = open(f"{run}/check.txt").read()
classes = re.findall(r"^violation-class (.*)$", chk, re.M)
exitc = re.findall(r"exit=(\d+)", chk)
meta = {
 "property": ID,
 "source": "independent sub-agent given only the property text and a scratch worktree",
 "what_it_needs_to_manifest": needs,
 "confirmed": {
   "builds": True,
   "repo_tests_with_patch": open(f"{run}/tests_after.txt").read().strip().splitlines(),
   "demo_before_patch": open(f"{run}/demo_before.txt").read().strip().splitlines()[-1:] if os.path.exists(f"{run}/demo_before.txt") else None,
   "demo_after_patch": open(f"{run}/demo_after.txt").read().strip().splitlines()[-2:] if os.path.exists(f"{run}/demo_after.txt") else None,
 },
 "ran": f"tools/tryseed.sh {ID} <dir> quick  (scratch copy of /repo with the patch applied, scratch harness built against it)",
 "check_exit": int(exitc[-1]) if exitc else None,
 "violation_classes": classes[:12],
 "caught": bool(exitc and exitc[-1] == "1"),
}
if old and (not old.get("caught") or old.get("missed_before_strengthening")):
    meta["missed_before_strengthening"] = True
json.dump(meta, open(f"{dst}/meta.json", "w"), indent=1)
print(dst, "caught" if meta["caught"] else "MISSED", classes[:3])
