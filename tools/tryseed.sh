#!/bin/bash
# tryseed.sh <ID> <dir-with-patch.diff[,demo_test.go]> [tier] — runs check <ID> against a scratch copy of /repo with the
# patch applied (never touches /repo), plus the demonstration and the repository's tests with and without the patch.
# Output: a summary; files under $OUT (default /tmp/seedrun-<ID>-<name>).
set -u
ID=$1; DIR=$2; TIER=${3:-quick}
NAME=$(basename "$DIR")
W=$(mktemp -d /tmp/seedrun-$ID-$NAME-XXXX)
export GOFLAGS=-mod=mod GOPROXY=off
rsync -a --exclude .git /repo/ $W/repo/
cp -r /verif/harness $W/h && sed -i "s#=> /repo#=> $W/repo#" $W/h/go.mod
DEMO=$(ls $DIR/*_test.go 2>/dev/null | head -1)
DEMODIR=.
RUN=.
if [ -n "$DEMO" ]; then
  RUN="^($(grep -o -E '^func (Test[A-Za-z0-9_]*)' "$DEMO" | sed 's/func //' | paste -sd'|'))\$"
  d=$(grep -o -m1 -E 'renderers/[a-z]+|text/|tests/[a-z]+' "$DEMO" | head -1); [ -n "$d" ] && [ -d "$W/repo/$d" ] && grep -q -E "^package (pdf|ps|svg|text|rasterizer)" "$DEMO" && DEMODIR=$d
  cp "$DEMO" $W/repo/$DEMODIR/zz_demo_test.go
  ( cd $W/repo/$DEMODIR && go test -vet=off -count=1 -run "$RUN" . 2>&1 | tail -3 ) > $W/demo_before.txt 2>&1
  rm -f $W/repo/$DEMODIR/zz_demo_test.go
fi
if ! ( cd $W/repo && git apply --unsafe-paths -p1 --directory= "$DIR/patch.diff" 2>$W/apply.err || patch -p1 -s < "$DIR/patch.diff" ); then echo "PATCH DOES NOT APPLY"; cat $W/apply.err; exit 3; fi
( cd $W/repo && go build ./ ./renderers/... ./text/... ) > $W/build.txt 2>&1 || { echo "DOES NOT BUILD"; tail -5 $W/build.txt; exit 3; }
( cd $W/repo && go test -vet=off -count=1 . ./text/... ./renderers/pdf/... ./renderers/ps/... ./renderers/svg/... ./tests/... 2>&1 | grep -E "^--- FAIL|^FAIL|^ok" ) > $W/tests_after.txt
if [ -n "$DEMO" ]; then
  cp "$DEMO" $W/repo/$DEMODIR/zz_demo_test.go
  ( cd $W/repo/$DEMODIR && go test -vet=off -count=1 -run "$RUN" . 2>&1 | tail -3 ) > $W/demo_after.txt 2>&1
  rm -f $W/repo/$DEMODIR/zz_demo_test.go
fi
( cd $W/h && go build -tags verif -o $W/vcheck ./cmd/vcheck ) > $W/hbuild.txt 2>&1 || { echo "HARNESS DOES NOT BUILD"; tail $W/hbuild.txt; exit 3; }
if [ "$ID" = "C20" ]; then ( cd $W/h && go build -race -tags verif -o $W/vrace ./cmd/vrace ); export VERIF_VRACE=$W/vrace; fi
mkdir -p $W/out
( cd /verif && VERIF_OUT=$W/out timeout 1800 $W/vcheck $ID $TIER > $W/check.txt 2>&1; echo "exit=$?" >> $W/check.txt )
echo "== $ID $NAME ($TIER) dir=$W"
echo "-- repo tests with patch (only TestRichText may fail):"; grep -E "FAIL" $W/tests_after.txt | head -5
[ -n "$DEMO" ] && { echo "-- demo before patch:"; tail -2 $W/demo_before.txt; echo "-- demo after patch:"; tail -2 $W/demo_after.txt; }
echo "-- check:"; grep -E "^VIOLATION|signature=|^violation-class|^KNOWN|exit=|MACHINERY" $W/check.txt | cut -c1-260 | sort -r | head -16
rm -rf $W/repo $W/h $W/vcheck
