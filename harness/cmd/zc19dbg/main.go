package main

import (
	"fmt"

	"github.com/tdewolff/canvas"
	"verif/harness/internal/oracle"
)

func main() {
	for _, d := range []string{"M 2 3 v -2 Q 0 2 6 5 q -2 -2 -1 -1 T 3 4 Z", "M0 0L4 0L4 1z"} {
		p, _ := canvas.ParseSVGPath(d)
		cs, _ := oracle.FlattenData(p.Data(), 96)
		for _, st := range []oracle.StrokeStyle{{HW: 0.5, Cap: "round", Join: "miter", Limit: 4}, {HW: 0.5, Cap: "round", Join: "miter", Limit: 10}, {HW: 0.5, Cap: "butt", Join: "round", Limit: 10}} {
			for y := -1.5; y <= 6; y += 0.5 {
				for x := -6.0; x <= 8; x += 0.25 {
					if oracle.InStroke(cs, st, oracle.Pt{X: x, Y: y}) {
						fmt.Print("#")
					} else {
						fmt.Print(".")
					}
				}
				fmt.Println()
			}
			fmt.Println()
		}
	}
}
