package main

import (
	"bufio"
	"fmt"
	"os"
	"strings"

	"github.com/tdewolff/canvas"
	"verif/harness/internal/rec"
)

func main() {
	sc := bufio.NewScanner(os.Stdin)
	sc.Buffer(make([]byte, 1<<20), 1<<20)
	for sc.Scan() {
		doc := sc.Text()
		if strings.TrimSpace(doc) == "" {
			continue
		}
		fmt.Println("DOC:", doc)
		func() {
			defer func() {
				if r := recover(); r != nil {
					fmt.Println("  PANIC:", r)
				}
			}()
			c, err := canvas.ParseSVG(strings.NewReader(doc))
			if err != nil {
				fmt.Println("  ERR:", err)
			}
			if c == nil {
				return
			}
			fmt.Printf("  size %.6g x %.6g\n", c.W, c.H)
			r := rec.New(c.W, c.H)
			c.RenderTo(r)
			for _, e := range r.Events {
				if e.Kind != "path" {
					fmt.Println("  ", e.Kind)
					continue
				}
				p := e.Path.Copy().Transform(e.M)
				fmt.Printf("   path %s  [local %s m=%v] fill=%v stroke=%v w=%g join=%#v cap=%T rule=%v\n", p.String(), e.Path.String(), e.M, e.Style.Fill.Color, e.Style.Stroke.Color, e.Style.StrokeWidth, e.Style.StrokeJoiner, e.Style.StrokeCapper, e.Style.FillRule)
			}
		}()
	}
}
