// vrace is built with -race. It runs the C20 workloads concurrently on independent inputs and compares every
// result with the result of the same job run alone. usage: vrace <mode> <seed> <jobs> <goroutines>
// modes: mixed (geometry+text+font+raster), geometry, text, nameless (LoadFont of fonts without a name record)
package main

import (
	"encoding/json"
	"fmt"
	"os"
	"strconv"
	"sync"

	"github.com/tdewolff/canvas"

	"verif/harness/internal/workload"
)

type out struct {
	Mode       string   `json:"mode"`
	Jobs       int      `json:"jobs"`
	Goroutines int      `json:"goroutines"`
	Mismatches []string `json:"mismatches"`
	Distinct   int      `json:"distinct_results"`
}

func main() {
	mode := os.Args[1]
	seed, _ := strconv.ParseInt(os.Args[2], 10, 64)
	n, _ := strconv.Atoi(os.Args[3])
	g, _ := strconv.Atoi(os.Args[4])
	o := out{Mode: mode, Jobs: n, Goroutines: g, Mismatches: []string{}}
	if mode == "nameless" {
		b := workload.NamelessFont()
		if b == nil {
			fmt.Println(`{"mode":"nameless","error":"cannot build nameless font"}`)
			os.Exit(3)
		}
		names := make([]string, n)
		var wg sync.WaitGroup
		for i := 0; i < n; i++ {
			wg.Add(1)
			go func(i int) {
				defer wg.Done()
				f, err := canvas.LoadFont(b, 0, canvas.FontRegular)
				if err != nil {
					names[i] = "err:" + err.Error()
					return
				}
				names[i] = f.Name()
			}(i)
		}
		wg.Wait()
		seen := map[string]int{}
		for _, s := range names {
			seen[s]++
		}
		o.Distinct = len(seen)
		for s, k := range seen {
			if k > 1 {
				o.Mismatches = append(o.Mismatches, fmt.Sprintf("name %q given to %d fonts", s, k))
			}
		}
		b2, _ := json.Marshal(o)
		fmt.Println(string(b2))
		return
	}
	if mode == "sysfont" {
		// first use of the lazily built system font list from n goroutines at once, while one goroutine (re)builds the
		// list through CacheSystemFonts from a directory with one font: every lookup returns either answer of the solo run
		dir, err := os.MkdirTemp("", "vrace-fonts-")
		if err != nil {
			fmt.Println(`{"mode":"sysfont","error":"tmp dir"}`)
			os.Exit(3)
		}
		defer os.RemoveAll(dir)
		if b, err := os.ReadFile("/repo/resources/DejaVuSerif.ttf"); err == nil {
			os.WriteFile(dir+"/DejaVuSerif.ttf", b, 0o644)
		}
		res := make([]string, n)
		var wg sync.WaitGroup
		for i := 0; i < n; i++ {
			wg.Add(1)
			go func(i int) {
				defer wg.Done()
				if i == n/2 {
					if err := canvas.CacheSystemFonts(dir+"/cache.bin", []string{dir}); err != nil {
						res[i] = "cache-err:" + err.Error()
						return
					}
				}
				f, ok := canvas.FindSystemFont("DejaVu Serif", canvas.FontRegular)
				res[i] = fmt.Sprint(ok, " ", f)
			}(i)
		}
		wg.Wait()
		seen := map[string]bool{}
		for _, r := range res {
			seen[r] = true
			if len(r) > 9 && r[:9] == "cache-err" {
				o.Mismatches = append(o.Mismatches, r)
			}
		}
		o.Distinct = len(seen)
		// after the cache was installed every lookup must find the font of that directory
		if f, ok := canvas.FindSystemFont("DejaVu Serif", canvas.FontRegular); !ok || f != dir+"/DejaVuSerif.ttf" {
			o.Mismatches = append(o.Mismatches, fmt.Sprintf("after CacheSystemFonts the lookup returns %q %v", f, ok))
		}
		b2, _ := json.Marshal(o)
		fmt.Println(string(b2))
		return
	}
	kinds := map[string]string{"mixed": "gtfrs", "geometry": "g", "text": "t", "backends": "s"}[mode]
	jobs := workload.Jobs(seed, n, kinds)
	solo := make([]string, len(jobs))
	for i, j := range jobs {
		solo[i] = workload.Safe(j)
	}
	conc := make([]string, len(jobs))
	ch := make(chan int)
	var wg sync.WaitGroup
	for w := 0; w < g; w++ {
		wg.Add(1)
		go func() {
			defer wg.Done()
			for i := range ch {
				conc[i] = workload.Safe(jobs[i])
			}
		}()
	}
	for i := range jobs {
		ch <- i
	}
	close(ch)
	wg.Wait()
	seen := map[string]bool{}
	for i := range jobs {
		seen[solo[i]] = true
		if solo[i] != conc[i] {
			o.Mismatches = append(o.Mismatches, fmt.Sprintf("%s: solo %.120q concurrent %.120q", jobs[i].Name, solo[i], conc[i]))
		}
	}
	o.Distinct = len(seen)
	if m := workload.SharedIntact(); m != "" {
		o.Mismatches = append(o.Mismatches, m)
	}
	b, _ := json.Marshal(o)
	fmt.Println(string(b))
}
