package main

import (
	"fmt"

	"github.com/tdewolff/canvas"
)

func main() {
	pts := [][2]float64{{1, 0}, {1, 2}, {4, 4}}
	p := &canvas.Path{}
	for i, v := range pts {
		x, y := 0.8*v[0]-0.6*v[1], 0.6*v[0]+0.8*v[1]
		if i == 0 {
			p.MoveTo(x, y)
		} else {
			p.LineTo(x, y)
		}
	}
	p.Close()
	fmt.Println("p", p, "ccw", p.CCW())
	fmt.Println("offset+", p.Offset(0.25, 0.01))
	fmt.Println("offset-", p.Offset(-0.25, 0.01))
	fmt.Println("stroke", p.Stroke(0.5, canvas.ButtCap, canvas.BevelJoin, 0.01))
	canvas.FastStroke = true
	fmt.Println("fast offset+", p.Offset(0.25, 0.01))
	fmt.Println("fast stroke", p.Stroke(0.5, canvas.ButtCap, canvas.BevelJoin, 0.01))
	canvas.FastStroke = false
	r := p.Reverse()
	fmt.Println("rev ccw", r.CCW(), "stroke", r.Stroke(0.5, canvas.ButtCap, canvas.BevelJoin, 0.01))
	q := canvas.MustParseSVGPath("M1 0L1 2L4 4z")
	fmt.Println("id ccw", q.CCW(), q.Stroke(0.5, canvas.ButtCap, canvas.BevelJoin, 0.01))
}
