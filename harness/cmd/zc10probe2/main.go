package main

import (
	"bufio"
	"encoding/json"
	"fmt"
	"math"
	"os"

	"verif/harness/internal/props/c10"
)

func main() {
	f, _ := os.Open(os.Args[1])
	sc := bufio.NewScanner(f)
	sc.Buffer(make([]byte, 1<<20), 1<<20)
	n := 0
	for sc.Scan() {
		var l c10.Line
		if json.Unmarshal(sc.Bytes(), &l) != nil || l.Hdr {
			continue
		}
		for _, e := range c10.Embs {
			p, _ := c10.Build(l.Hist, e)
			for _, q := range p.Split() {
				L := q.Length()
				if math.IsInf(L, 0) || L > 1e7*math.Hypot(e.A, e.C) {
					n++
					if n < 6 {
						fmt.Printf("emb=%s len=%v sub=%v hist=%s\n", e.Name, L, q, string(mustJSON(l.Hist)))
					}
				}
			}
		}
	}
	fmt.Println("bad lengths:", n)
}
func mustJSON(v any) []byte { b, _ := json.Marshal(v); return b }
