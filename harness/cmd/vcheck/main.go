// vcheck runs one property check: vcheck <ID> [quick|thorough] | vcheck <ID> --replay <file> | vcheck --sany
package main

import (
	"fmt"
	"os"
	"sort"
	"strings"
	"verif/harness/internal/props/c06"
	"verif/harness/internal/props/c07"
	"verif/harness/internal/props/c08"
	"verif/harness/internal/props/c09"
	"verif/harness/internal/props/c10"
	"verif/harness/internal/props/c11"
	"verif/harness/internal/props/c12"
	"verif/harness/internal/props/c14"
	"verif/harness/internal/props/c19"

	"verif/harness/internal/core"
	"verif/harness/internal/props/c01"
	"verif/harness/internal/props/c02"
	"verif/harness/internal/props/c03"
	"verif/harness/internal/props/c04"
	"verif/harness/internal/props/c05"
	"verif/harness/internal/props/c13"
	"verif/harness/internal/props/c15"
	"verif/harness/internal/props/c16"
	"verif/harness/internal/props/c17"
	"verif/harness/internal/props/c18"
	"verif/harness/internal/props/c20"
	"verif/harness/internal/props/x01"
	"verif/harness/internal/props/x02"
	"verif/harness/internal/props/x03"
	"verif/harness/internal/tlc"
)

var drivers = map[string]core.Driver{
	"C11": c11.Driver{},
	"C10": c10.Driver{},
	"C19": c19.Driver{},
	"C14": c14.Driver{},
	"C12": c12.Driver{},
	"C09": c09.Driver{},
	"C08": c08.Driver{},
	"C07": c07.Driver{},
	"C06": c06.Driver{},
	"C01": c01.Driver{},
	"C02": c02.Driver{},
	"C03": c03.Driver{},
	"C04": c04.Driver{},
	"C05": c05.Driver{},
	"C13": c13.Driver{},
	"C15": c15.Driver{},
	"C16": c16.Driver{},
	"C17": c17.Driver{},
	"C18": c18.Driver{},
	"C20": c20.Driver{},
	"X03": x03.Driver{}, // extension: the algebra of canvas.Rect (spec/RectAlg.tla)
	"X02": x02.Driver{}, // extension: FontFamily.Face decision table (spec/FontMatch.tla)
	"X01": x01.Driver{}, // extension beyond the listed properties (evidence in evidence_ext/)
}

func main() {
	if len(os.Args) < 2 {
		fmt.Fprintln(os.Stderr, "usage: vcheck <ID> [quick|thorough] | vcheck <ID> --replay <file> | vcheck --sany | vcheck --list")
		os.Exit(2)
	}
	switch os.Args[1] {
	case "--list":
		ids := []string{}
		for id := range drivers {
			ids = append(ids, id)
		}
		sort.Strings(ids)
		fmt.Println(strings.Join(ids, " "))
		return
	case "--sany":
		ents, _ := os.ReadDir(core.VerifDir + "/spec")
		bad := 0
		for _, e := range ents {
			if strings.HasSuffix(e.Name(), ".tla") {
				if err := tlc.Sany(core.VerifDir+"/spec", strings.TrimSuffix(e.Name(), ".tla")); err != nil {
					fmt.Fprintln(os.Stderr, err)
					bad++
				}
			}
		}
		if bad > 0 {
			os.Exit(2)
		}
		fmt.Println("sany: all modules parse")
		return
	}
	d, ok := drivers[os.Args[1]]
	if !ok {
		fmt.Fprintln(os.Stderr, "unknown property", os.Args[1])
		os.Exit(2)
	}
	tier := os.Getenv("VERIF_TIER")
	if tier == "" {
		tier = "quick"
	}
	for i := 2; i < len(os.Args); i++ {
		switch os.Args[i] {
		case "quick", "thorough":
			tier = os.Args[i]
		case "--replay":
			if i+1 >= len(os.Args) {
				os.Exit(2)
			}
			os.Exit(core.RunReplay(d, os.Args[i+1]))
		}
	}
	c := core.NewCtx(d, tier)
	if err := d.Run(c); err != nil {
		c.Broken(err.Error())
	}
	os.Exit(c.Finish())
}
