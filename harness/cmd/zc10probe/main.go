// scratch probe (deleted afterwards): per-op time/alloc of the derived operations
package main

import (
	"bufio"
	"encoding/json"
	"fmt"
	"io"
	"log"
	"os"
	"runtime"
	"sort"
	"time"

	"verif/harness/internal/props/c10"
)

func main() {
	log.SetOutput(io.Discard)
	f, _ := os.Open(os.Args[1])
	sc := bufio.NewScanner(f)
	sc.Buffer(make([]byte, 1<<20), 1<<20)
	type agg struct {
		n     int
		t     time.Duration
		alloc uint64
		maxT  time.Duration
		maxA  uint64
		worst string
	}
	stats := map[string]*agg{}
	sigs := map[string]int{}
	ex := map[string]string{}
	n := 0
	for sc.Scan() {
		var l c10.Line
		if json.Unmarshal(sc.Bytes(), &l) != nil || l.Hdr {
			continue
		}
		n++
		for _, en := range os.Args[2:] {
			e, ok := c10.EmbByName(en)
			if !ok {
				panic(en)
			}
			p, err := c10.Build(l.Hist, e)
			if err != nil {
				panic(err)
			}
			data := append([]float64(nil), p.Data()...)
			for _, r := range c10.ProbeOps(data, e, l.F, 3*time.Second) {
				a := stats[r.Name]
				if a == nil {
					a = &agg{}
					stats[r.Name] = a
				}
				a.n++
				a.t += r.T
				a.alloc += r.Alloc
				if r.T > a.maxT {
					a.maxT = r.T
					a.worst = fmt.Sprintf("%s %v", en, p)
				}
				if r.Alloc > a.maxA {
					a.maxA = r.Alloc
				}
				if r.Detail == "timeout" {
					fmt.Printf("TIMEOUT %s emb=%s hist=%v path=%v len=%v\n", r.Name, en, l.Hist, p, p.Length())
					os.Exit(3)
				}
				if r.Sig != "" {
					sigs[r.Sig]++
					if _, ok := ex[r.Sig]; !ok {
						ex[r.Sig] = fmt.Sprintf("%s %v :: %s", en, p, r.Detail)
					}
				}
			}
		}
		if n%500 == 0 {
			var m runtime.MemStats
			runtime.ReadMemStats(&m)
			fmt.Fprintf(os.Stderr, "%d heap=%dMB goroutines=%d\n", n, m.HeapAlloc>>20, runtime.NumGoroutine())
		}
	}
	names := []string{}
	for k := range stats {
		names = append(names, k)
	}
	sort.Slice(names, func(i, j int) bool { return stats[names[i]].t > stats[names[j]].t })
	for _, k := range names {
		a := stats[k]
		fmt.Printf("%-28s n=%d avg=%v max=%v avgalloc=%dKB maxalloc=%dKB worst=%s\n", k, a.n, a.t/time.Duration(a.n), a.maxT, a.alloc/uint64(a.n)>>10, a.maxA>>10, a.worst)
	}
	ss := []string{}
	for k := range sigs {
		ss = append(ss, k)
	}
	sort.Strings(ss)
	for _, k := range ss {
		fmt.Printf("SIG %6d %s\n      e.g. %.300s\n", sigs[k], k, ex[k])
	}
}
