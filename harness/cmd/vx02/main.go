package main

import (
	"os"

	"verif/harness/internal/core"
	"verif/harness/internal/props/x02"
)

func main() {
	d := x02.Driver{}
	tier := "quick"
	for i, a := range os.Args[1:] {
		if a == "thorough" {
			tier = a
		}
		if a == "--replay" {
			os.Exit(core.RunReplay(d, os.Args[i+2]))
		}
	}
	c := core.NewCtx(d, tier)
	if err := d.Run(c); err != nil {
		c.Broken(err.Error())
	}
	os.Exit(c.Finish())
}
