package main

import (
	"fmt"
	"os"
	"sort"

	"github.com/tdewolff/canvas"
	"github.com/tdewolff/font"
)

func main() {
	for _, file := range []string{"/repo/resources/DejaVuSerif.ttf", "/repo/resources/EBGaramond12-Regular.otf", "/repo/resources/Dynalight-Regular.otf"} {
		b, _ := os.ReadFile(file)
		s, err := font.ParseFont(b, 0)
		if err != nil {
			fmt.Println(file, err)
			continue
		}
		fam := canvas.NewFontFamily("x")
		if err := fam.LoadFont(b, 0, canvas.FontRegular); err != nil {
			fmt.Println(file, "canvas:", err)
			continue
		}
		face := fam.Face(12, canvas.Black)
		dw := s.GlyphAdvance(0)
		fmt.Println(file, "ttf", s.IsTrueType, "cff", s.IsCFF, "upm", s.Head.UnitsPerEm, "notdef adv", dw, "glyphs", s.NumGlyphs())
		groups := map[uint16][]rune{}
		seen := map[uint16]bool{}
		for r := rune(0x21); r < 0x180; r++ {
			if r >= 0x7f && r < 0xa1 {
				continue
			}
			gs := face.Glyphs(string(r))
			if len(gs) != 1 || gs[0].ID == 0 || seen[gs[0].ID] {
				continue
			}
			seen[gs[0].ID] = true
			a := s.GlyphAdvance(gs[0].ID)
			groups[a] = append(groups[a], r)
		}
		type kv struct {
			a  uint16
			rs []rune
		}
		var l []kv
		for a, rs := range groups {
			l = append(l, kv{a, rs})
		}
		sort.Slice(l, func(i, j int) bool { return len(l[i].rs) > len(l[j].rs) })
		for _, e := range l[:4] {
			fmt.Printf("  adv %d: %d chars %q\n", e.a, len(e.rs), string(e.rs))
		}
		fmt.Printf("  DW class: %q; space adv %d\n", string(groups[dw]), s.GlyphAdvance(s.GlyphIndex(' ')))
		sub := fam.Face(12, canvas.Black, canvas.FontRegular, canvas.FontSubscript)
		fmt.Println("  subscript: size", sub.Size, "mmPerEm", sub.MmPerEm, "size/upm", sub.Size/float64(s.Head.UnitsPerEm), "fauxbold", sub.FauxBold, "off", sub.XOffset, sub.YOffset)
	}
}
