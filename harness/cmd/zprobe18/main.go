package main

import (
	"bytes"
	"fmt"
	"os"

	"github.com/tdewolff/canvas"
	"github.com/tdewolff/canvas/renderers/pdf"
	"github.com/tdewolff/font"
	"verif/harness/internal/oracle"
)

func main() {
	b, _ := os.ReadFile("/repo/resources/EBGaramond12-Regular.otf")
	fnt, err := canvas.LoadFont(b, 0, canvas.FontRegular)
	if err != nil {
		panic(err)
	}
	face := fnt.Face(12, canvas.Black)
	for _, subset := range []bool{true, false} {
		var buf bytes.Buffer
		p := pdf.New(&buf, 100, 80, &pdf.Options{Compress: false, SubsetFonts: subset, ImageEncoding: canvas.Lossless})
		p.RenderText(canvas.NewTextLine(face, "a A", canvas.Left), canvas.Identity.Translate(5, 50))
		p.Close()
		f := oracle.ParsePDF(buf.Bytes())
		for _, o := range f.Objects {
			if o.IsStream && o.Dict.Get("Subtype") != nil {
				s, err := font.ParseEmbeddedSFNT(o.Decoded, 0)
				fmt.Println("subset", subset, "len", len(o.Decoded), "err", err)
				if err == nil {
					fmt.Println(" glyphs", s.NumGlyphs(), s.IsCFF, s.Hmtx != nil)
				}
				s2, err2 := font.ParseSFNT(o.Decoded, 0)
				fmt.Println(" ParseSFNT err", err2, s2 != nil)
			}
		}
	}
	str := "a A"
	p, adv, err := face.ToPath(str)
	fmt.Println("ToPath adv", adv, adv/face.MmPerEm, err, "tw", face.TextWidth(str)/face.MmPerEm)
	for _, g := range face.Glyphs(str) {
		fmt.Println(" g", g.ID, g.XAdvance, g.XOffset)
	}
	segs, _ := oracle.Decode(p.Data())
	subs := 0
	for _, s := range segs {
		if s.Sub+1 > subs {
			subs = s.Sub + 1
		}
	}
	fmt.Println("subpaths", subs)
}
