package main

import (
	"encoding/json"
	"fmt"
	"os"

	"verif/harness/internal/latgeo"
	"verif/harness/internal/props/c10"
)

func main() {
	var h []c10.Call
	json.Unmarshal([]byte(os.Args[1]), &h)
	e, _ := c10.EmbByName(os.Args[2])
	p, err := c10.Build(h, e)
	fmt.Println(p, err, p.Data())
	ok, msg := latgeo.Try(func() { fmt.Println("CCW", p.CCW()) })
	fmt.Println(ok, msg)
	ok, msg = latgeo.Try(func() { fmt.Println("XMonotone", p.XMonotone()) })
	fmt.Println(ok, msg)
	ok, msg = latgeo.Try(func() { fmt.Println("Flatten", p.Flatten(0.01).Len()) })
	fmt.Println(ok, msg)
}
