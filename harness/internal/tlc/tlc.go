// Package tlc runs the TLC model checker on a module of /verif/spec in a scratch
// directory and returns the scenario lines it printed and its own state counters.
package tlc

import (
	"bufio"
	"bytes"
	"context"
	"fmt"
	"io"
	"os"
	"os/exec"
	"path/filepath"
	"regexp"
	"strconv"
	"strings"
	"time"
)

// Opts describes one TLC run.
type Opts struct {
	SpecDir  string            // directory holding the *.tla modules (copied to scratch)
	Module   string            // root module name (without .tla)
	Config   string            // text of the .cfg file
	Files    map[string][]byte // extra files placed next to the modules (traces, generated modules)
	Workers  int               // default 8
	Timeout  time.Duration     // default 10 min
	Simulate string            // e.g. "num=1000" -> -simulate num=1000 ; empty = BFS
	Depth    int               // -depth for simulation
	Seed     int64             // -seed (0 = none)
	Coverage bool              // -coverage 1
	DFS      bool              // use the StateDeque queue (depth-first), for branching trace specs
	HeapGB   int               // -Xmx ; default 8
	OnLine   func(payload []byte) // called for every "@@" line (payload after the prefix); if nil lines are collected
	KeepDir  bool
}

// Result of one TLC run.
type Result struct {
	Lines      [][]byte // "@@" payloads when OnLine == nil
	NLines     int64
	Generated  int64 // states generated (TLC's own counter) = transitions explored + initial states
	Distinct   int64 // distinct states found
	Depth      int
	ExitCode   int
	OK         bool   // TLC finished with "No error has been found" (or simulation ended normally)
	Violated   string // name of the violated invariant/property/postcondition if any
	ErrText    string // the error section of TLC's output, trimmed
	Tail       string // last lines of raw output (diagnostics)
	ZeroCover  []string // with Coverage: action/expression lines whose count is 0
	ActionHits map[string]int64
	Wall       time.Duration
	Dir        string
}

var reStates = regexp.MustCompile(`(\d+) states generated, (\d+) distinct states found`)
var reSim = regexp.MustCompile(`^The number of states generated: (\d+)`)
var reDepth = regexp.MustCompile(`The depth of the complete state graph search is (\d+)`)
var reInv = regexp.MustCompile(`Invariant (\S+) is violated`)
var reProp = regexp.MustCompile(`(?:Action property|Temporal property|property) (\S+) (?:is|was) violated`)
var reAct = regexp.MustCompile(`^<(\w+) line \d+, col \d+ to line \d+, col \d+ of module (\w+)>: (\d+):(\d+)`)

// Run executes TLC. An error is returned only when TLC could not be run at all
// (missing binary, timeout, parse errors are reported in Result with OK=false).
func Run(o Opts) (*Result, error) {
	if o.Workers == 0 {
		o.Workers = 8
	}
	if o.Timeout == 0 {
		o.Timeout = 30 * time.Minute // generous: a timeout is a broken run (exit 2), and loaded machines run TLC 3-4x slower
	}
	if o.HeapGB == 0 {
		o.HeapGB = 8
	}
	dir, err := os.MkdirTemp("", "vtlc-")
	if err != nil {
		return nil, err
	}
	res := &Result{Dir: dir, ActionHits: map[string]int64{}}
	if !o.KeepDir {
		defer os.RemoveAll(dir)
	}
	ents, err := os.ReadDir(o.SpecDir)
	if err != nil {
		return nil, err
	}
	for _, e := range ents {
		if strings.HasSuffix(e.Name(), ".tla") {
			b, err := os.ReadFile(filepath.Join(o.SpecDir, e.Name()))
			if err != nil {
				return nil, err
			}
			if err := os.WriteFile(filepath.Join(dir, e.Name()), b, 0o644); err != nil {
				return nil, err
			}
		}
	}
	for n, b := range o.Files {
		if err := os.WriteFile(filepath.Join(dir, n), b, 0o644); err != nil {
			return nil, err
		}
	}
	cfg := o.Module + "_run.cfg"
	if err := os.WriteFile(filepath.Join(dir, cfg), []byte(o.Config), 0o644); err != nil {
		return nil, err
	}
	args := []string{"-XX:+UseParallelGC", fmt.Sprintf("-Xmx%dg", o.HeapGB), "-Xss256m", "-Djava.io.tmpdir=" + dir}
	if o.DFS {
		args = append(args, "-Dtlc2.tool.queue.IStateQueue=StateDeque")
	}
	args = append(args, "-cp", "/opt/veriftools/tla/tla2tools.jar:/opt/veriftools/tla/CommunityModules-deps.jar", "tlc2.TLC",
		"-workers", strconv.Itoa(o.Workers), "-metadir", filepath.Join(dir, "meta"), "-config", cfg, "-noGenerateSpecTE")
	if o.Simulate != "" {
		args = append(args, "-simulate", o.Simulate)
		if o.Depth > 0 {
			args = append(args, "-depth", strconv.Itoa(o.Depth))
		}
	}
	if o.Seed != 0 {
		args = append(args, "-seed", strconv.FormatInt(o.Seed, 10))
	}
	if o.Coverage {
		args = append(args, "-coverage", "1")
	}
	args = append(args, o.Module+".tla")
	ctx, cancel := context.WithTimeout(context.Background(), o.Timeout)
	defer cancel()
	cmd := exec.CommandContext(ctx, "java", args...)
	cmd.Dir = dir
	cmd.Env = append(os.Environ(), "JAVA_TOOL_OPTIONS=")
	stdout, err := cmd.StdoutPipe()
	if err != nil {
		return nil, err
	}
	cmd.Stderr = cmd.Stdout
	start := time.Now()
	if err := cmd.Start(); err != nil {
		return nil, err
	}
	var tail []string
	var errBuf bytes.Buffer
	inErr := false
	rd := bufio.NewReaderSize(stdout, 1<<20)
	for {
		line, err := rd.ReadBytes('\n')
		if len(line) > 0 {
			line = bytes.TrimRight(line, "\r\n")
			if bytes.HasPrefix(line, []byte(`"@@`)) {
				s, uerr := strconv.Unquote(string(line))
				if uerr != nil {
					// TLC escapes only \" and \\ ; fall back to a manual unescape
					s = manualUnquote(string(line))
				}
				p := []byte(s[2:])
				res.NLines++
				if o.OnLine != nil {
					o.OnLine(p)
				} else {
					res.Lines = append(res.Lines, p)
				}
			} else {
				s := string(line)
				if m := reStates.FindStringSubmatch(s); m != nil {
					res.Generated, _ = strconv.ParseInt(m[1], 10, 64)
					res.Distinct, _ = strconv.ParseInt(m[2], 10, 64)
				}
				if m := reSim.FindStringSubmatch(s); m != nil {
					res.Generated, _ = strconv.ParseInt(m[1], 10, 64)
					res.Distinct = res.Generated
				}
				if m := reDepth.FindStringSubmatch(s); m != nil {
					res.Depth, _ = strconv.Atoi(m[1])
				}
				if m := reInv.FindStringSubmatch(s); m != nil {
					res.Violated = m[1]
				}
				if m := reProp.FindStringSubmatch(s); m != nil && res.Violated == "" {
					res.Violated = m[1]
				}
				if strings.Contains(s, "Model checking completed. No error has been found.") {
					res.OK = true
				}
				if strings.HasPrefix(s, "Error:") {
					inErr = true
				}
				if inErr && errBuf.Len() < 6000 {
					errBuf.WriteString(s)
					errBuf.WriteByte('\n')
				}
				if o.Coverage {
					if m := reAct.FindStringSubmatch(s); m != nil {
						n, _ := strconv.ParseInt(m[4], 10, 64)
						res.ActionHits[m[1]] += n
					} else if strings.HasSuffix(s, ": 0") && strings.Contains(s, "line ") {
						res.ZeroCover = append(res.ZeroCover, strings.TrimSpace(s))
					}
				}
				tail = append(tail, s)
				if len(tail) > 60 {
					tail = tail[len(tail)-60:]
				}
			}
		}
		if err != nil {
			if err != io.EOF {
				return nil, err
			}
			break
		}
	}
	werr := cmd.Wait()
	res.Wall = time.Since(start)
	res.Tail = strings.Join(tail, "\n")
	res.ErrText = strings.TrimSpace(errBuf.String())
	if ctx.Err() != nil {
		return res, fmt.Errorf("tlc %s: timeout after %v", o.Module, o.Timeout)
	}
	if werr != nil {
		if ee, ok := werr.(*exec.ExitError); ok {
			res.ExitCode = ee.ExitCode()
		} else {
			return res, werr
		}
	}
	if o.Simulate != "" && res.ExitCode == 0 && res.ErrText == "" {
		res.OK = true
	}
	if res.ErrText != "" {
		res.OK = false
	}
	return res, nil
}

func manualUnquote(s string) string {
	s = strings.TrimPrefix(s, `"`)
	s = strings.TrimSuffix(s, `"`)
	var b strings.Builder
	for i := 0; i < len(s); i++ {
		if s[i] == '\\' && i+1 < len(s) {
			i++
			switch s[i] {
			case 'n':
				b.WriteByte('\n')
			case 't':
				b.WriteByte('\t')
			default:
				b.WriteByte(s[i])
			}
			continue
		}
		b.WriteByte(s[i])
	}
	return b.String()
}

// Sany syntax-checks a module (used by setup).
func Sany(specDir, module string) error {
	cmd := exec.Command("java", "-cp", "/opt/veriftools/tla/tla2tools.jar:/opt/veriftools/tla/CommunityModules-deps.jar", "tla2sany.SANY", module+".tla")
	cmd.Dir = specDir
	out, err := cmd.CombinedOutput()
	if err != nil || bytes.Contains(out, []byte("*** Errors")) || bytes.Contains(out, []byte("Fatal errors")) {
		return fmt.Errorf("sany %s: %v\n%s", module, err, out)
	}
	return nil
}
