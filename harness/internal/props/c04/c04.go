// Package c04: Stroke and Offset realise distance offsets of the path (spec/Stroke.tla).
//
// spec -> code: TLC enumerates lattice polylines (open/closed) and half widths; for every sample point of a grid around
// the path the specification computes the facts of the C04 statement (in a slab, within hw-Tol of a vertex/end, inside
// the square cap, farther than hw+Tol, within the join allowance, ...) with exact integer arithmetic and, in the header
// line, the table that maps facts to the three-valued class (in / out / free) per capper and joiner. The harness strokes
// the real path with every capper x joiner under similarity embeddings and evaluates NonZero membership of the returned
// outline at the non-free samples with the independent winding oracle.
package c04

import (
	"encoding/json"
	"fmt"
	"math"
	"os"
	"strings"
	"sync"
	"sync/atomic"
	"time"

	"github.com/tdewolff/canvas"

	"verif/harness/internal/core"
	"verif/harness/internal/latgeo"
	"verif/harness/internal/oracle"
	"verif/harness/internal/tlc"
)

type Driver struct{}

func (Driver) ID() string { return "C04" }

// Header is the first line Stroke.tla prints: constants and the class tables computed by the specification.
type Header struct {
	Hdr      bool      `json:"hdr"`
	S        int       `json:"S"`
	Tol      int       `json:"tol"`
	Step     int       `json:"step"`
	Limit    int       `json:"limit"`
	Caps     []string  `json:"caps"`
	Joins    []string  `json:"joins"`
	Table    [][][]int `json:"table"`    // [cap][join][facts] -> 0 out, 1 in, 2 free
	OffTable [][]int   `json:"offtable"` // [shrink, grow][facts]
}

// Scenario is the self-contained replay unit: one polyline, one half width, one embedding, all cappers and joiners.
type Scenario struct {
	What   string          `json:"what"` // "stroke" | "offset"
	Pts    [][2]int        `json:"pts"`
	Closed bool            `json:"closed"`
	HW     int             `json:"hw"`
	F      map[string]bool `json:"f"`
	Short  []int           `json:"short"` // 1-based indices of interior vertices with a short leg at an inner bend (spec ShortBends)
	GX     int             `json:"gx"`
	GY     int             `json:"gy"`
	NX     int             `json:"nx"`
	NY     int             `json:"ny"`
	Facts  []int           `json:"facts"`
	Emb    latgeo.Emb      `json:"emb"`
	H      *Header         `json:"h,omitempty"`
	Only   string          `json:"only,omitempty"` // replay: restrict to one "cap/join" (or "+"/"-" for offset)
	// Explicit: a closed polyline is written with an explicit last segment back to the start point followed by a
	// zero-length Close (M a L b L c L a z, as raw path data: the builder would fold the last LineTo into the Close).
	// The expected classification is the same as for the implicit closing edge.
	Explicit bool `json:"explicit,omitempty"`
}

func (s *Scenario) svg() string {
	var b strings.Builder
	for i, v := range s.Pts {
		if i == 0 {
			fmt.Fprintf(&b, "M%d %d", v[0], v[1])
		} else {
			fmt.Fprintf(&b, "L%d %d", v[0], v[1])
		}
	}
	if s.Closed && s.Explicit {
		fmt.Fprintf(&b, "L%d %d", s.Pts[0][0], s.Pts[0][1])
	}
	if s.Closed {
		b.WriteString("z")
	}
	return b.String()
}

var cappers = map[string]canvas.Capper{"butt": canvas.ButtCap, "round": canvas.RoundCap, "square": canvas.SquareCap}
var joiners = map[string]canvas.Joiner{"bevel": canvas.BevelJoin, "round": canvas.RoundJoin, "miter": canvas.MiterJoin,
	"miterclip": canvas.MiterClipJoin, "arcs": canvas.ArcsJoin, "arcsclip": canvas.ArcsClipJoin}

func build(s *Scenario) *canvas.Path {
	if s.Closed && s.Explicit {
		var d []float64
		x0, y0 := s.Emb.Map(float64(s.Pts[0][0]), float64(s.Pts[0][1]))
		for i, v := range s.Pts {
			x, y := s.Emb.Map(float64(v[0]), float64(v[1]))
			cmd := canvas.LineToCmd
			if i == 0 {
				cmd = canvas.MoveToCmd
			}
			d = append(d, cmd, x, y, cmd)
		}
		d = append(d, canvas.LineToCmd, x0, y0, canvas.LineToCmd, canvas.CloseCmd, x0, y0, canvas.CloseCmd)
		return canvas.NewPathFromData(d)
	}
	p := &canvas.Path{}
	for i, v := range s.Pts {
		x, y := s.Emb.Map(float64(v[0]), float64(v[1]))
		if i == 0 {
			p.MoveTo(x, y)
		} else {
			p.LineTo(x, y)
		}
	}
	if s.Closed {
		p.Close()
	}
	return p
}

// asBuilt: the builder must have kept the polyline (vertices on the same positions after dropping vertices that lie
// between collinear neighbours in the same direction). Otherwise the scenario is about the builder (C10), not the stroker.
func asBuilt(p *canvas.Path, s *Scenario) bool {
	segs, err := oracle.Decode(p.Data())
	if err != nil {
		return false
	}
	var got []oracle.Pt
	closed := false
	for _, g := range segs {
		switch g.Cmd {
		case oracle.CmdMove, oracle.CmdLine:
			got = append(got, g.End)
		case oracle.CmdClose:
			closed = true
		default:
			return false
		}
	}
	if closed != s.Closed {
		return false
	}
	if s.Closed && s.Explicit && len(got) >= 2 && got[len(got)-1] == got[0] {
		got = got[:len(got)-1] // the explicit last vertex is the start point again
	}
	var want []oracle.Pt
	for _, v := range s.Pts {
		x, y := s.Emb.Map(float64(v[0]), float64(v[1]))
		want = append(want, oracle.Pt{X: x, Y: y})
	}
	simp := func(ps []oracle.Pt) []oracle.Pt {
		out := []oracle.Pt{}
		n := len(ps)
		for i, q := range ps {
			if i > 0 && i < n-1 {
				a, b := q.Sub(ps[i-1]), ps[i+1].Sub(q)
				if math.Abs(a.Cross(b)) <= 1e-9*a.Len()*b.Len() && a.Dot(b) > 0 {
					continue
				}
			}
			out = append(out, q)
		}
		return out
	}
	g, w := simp(got), simp(want)
	if len(g) != len(w) {
		return false
	}
	scale := math.Sqrt(math.Abs(s.Emb.Det()))
	for i := range g {
		if g[i].Sub(w[i]).Len() > 1e-9*scale {
			return false
		}
	}
	return true
}

func (s *Scenario) samplePt(k int) oracle.Pt {
	i, j := k%s.NX, k/s.NX
	x, y := s.Emb.Map(float64(s.GX+s.H.Step*i)/float64(s.H.S), float64(s.GY+s.H.Step*j)/float64(s.H.S))
	return oracle.Pt{X: x, Y: y}
}

// nearShortBend: sample k lies within 2 hw + Tol of an interior vertex that the specification flagged (ShortBends).
func (s *Scenario) nearShortBend(k int) bool {
	i, j := k%s.NX, k/s.NX
	x, y := float64(s.GX+s.H.Step*i), float64(s.GY+s.H.Step*j)
	for _, v := range s.Short {
		if v < 1 || v > len(s.Pts) {
			continue
		}
		dx, dy := x-float64(s.Pts[v-1][0]*s.H.S), y-float64(s.Pts[v-1][1]*s.H.S)
		if math.Hypot(dx, dy) <= float64(2*s.HW+s.H.Tol) {
			return true
		}
	}
	return false
}

// startXTie: after the embedding another vertex has the same x as the start point up to rounding (the situation in which
// Path.CCW's search for the right-most point ends on the Close command).
func (s *Scenario) startXTie() bool {
	x0, _ := s.Emb.Map(float64(s.Pts[0][0]), float64(s.Pts[0][1]))
	scale := math.Sqrt(math.Abs(s.Emb.Det()))
	for _, v := range s.Pts[1:] {
		x, _ := s.Emb.Map(float64(v[0]), float64(v[1]))
		if v != s.Pts[0] && math.Abs(x-x0) <= 1e-9*scale {
			return true
		}
	}
	return false
}

func (s *Scenario) tag() string {
	t := "open"
	if s.Closed {
		t = "closed"
	}
	switch {
	case s.F["csi"]:
		t += "+selfintersecting"
	case s.F["selfint"]:
		t += "+selfintersecting"
	}
	if s.F["rev"] {
		t += "+reversal"
	}
	return t
}

type skipT struct{ builder int64 }

var skipped skipT

// exec strokes (or offsets) the embedded path in every style and compares membership with the class table.
func exec(s *Scenario, guard bool) (ms []core.Mismatch, onlys []string) {
	p := build(s)
	if !asBuilt(p, s) {
		atomic.AddInt64(&skipped.builder, 1)
		return nil, nil
	}
	scale := math.Sqrt(math.Abs(s.Emb.Det()))
	hw := float64(s.HW) / float64(s.H.S) * scale
	// Stroke and Offset choose the settling rule by Path.CCW(): on a simple closed contour it must agree with the exact
	// sign of the area the specification computed. A wrong answer is reported as the root cause (its consequences for
	// the outline are not reported separately).
	if s.Closed && !s.F["selfint"] && !s.F["zeroarea"] {
		want := s.F["ccw"] != (s.Emb.Det() < 0)
		var got bool
		if ok, m := latgeo.Try(func() { got = build(s).CCW() }); !ok {
			return []core.Mismatch{{Signature: "panic-ccw:" + latgeo.PanicClass(m), Detail: fmt.Sprintf("%s emb=%s: CCW() panics: %v", s.svg(), s.Emb.Name, m)}}, []string{""}
		} else if got != want {
			sig := "wrong-ccw"
			if s.startXTie() {
				sig += "+start-x-tie"
			}
			return []core.Mismatch{{Signature: sig, Detail: fmt.Sprintf("%s emb=%s: simple closed contour with exact signed area*2 of sign ccw=%v, Path.CCW() = %v (path %s)", s.svg(), s.Emb.Name, want, got, p)}}, []string{""}
		}
	}
	pts := make([]oracle.Pt, len(s.Facts))
	for k := range pts {
		pts[k] = s.samplePt(k)
	}
	run := func(name string, f func() *canvas.Path, class func(fact int) int, sigtag, only string) {
		n0 := len(ms)
		defer func() {
			for len(onlys) < len(ms) {
				onlys = append(onlys, only)
			}
			_ = n0
		}()
		var r *canvas.Path
		var kind string
		var msg any
		if guard {
			kind, msg = latgeo.Guard(20*time.Second, func() { r = f() })
		} else if ok, m := latgeo.Try(func() { r = f() }); !ok {
			kind, msg = "panic", m
		}
		where := fmt.Sprintf("%s hw=%d/%d %s emb=%s", s.svg(), s.HW, s.H.S, name, s.Emb.Name)
		if s.Closed && s.Explicit {
			where += " (raw data, zero-length Close)"
		}
		if kind != "" {
			ms = append(ms, core.Mismatch{Signature: kind + "-" + s.What + ":" + latgeo.PanicClass(msg) + "+" + s.tag(), Detail: fmt.Sprintf("%s: %v", where, msg)})
			return
		}
		cs, err := oracle.FlattenData(r.Data(), 64)
		if err != nil {
			ms = append(ms, core.Mismatch{Signature: "result-undecodable", Detail: where + ": " + err.Error()})
			return
		}
		nin, nout := 0, 0
		firstIn, firstOut := -1, -1
		nearShort := true // every uncovered sample lies within hw+Tol of an inner-bend vertex with a short leg
		for k, f := range s.Facts {
			c := class(f)
			if c == 2 {
				continue
			}
			filled := oracle.Winding(cs, pts[k]) != 0
			if c == 1 && !filled {
				if nin++; firstIn < 0 {
					firstIn = k
				}
				if !s.nearShortBend(k) {
					nearShort = false
				}
			} else if c == 0 && filled {
				if nout++; firstOut < 0 {
					firstOut = k
				}
			}
		}
		lat := func(k int) string {
			i, j := k%s.NX, k/s.NX
			return fmt.Sprintf("(%.3f,%.3f)", float64(s.GX+s.H.Step*i)/float64(s.H.S), float64(s.GY+s.H.Step*j)/float64(s.H.S))
		}
		if nin > 0 {
			sig := "in-uncovered:" + sigtag + "+" + s.tag()
			switch {
			case s.What == "stroke" && s.F["csi"]:
				sig = "in-uncovered+closed-selfintersecting"
			case s.What == "stroke" && s.F["shortbend"] && nearShort:
				sig = "in-uncovered+shortbend:near-vertex"
			case s.What == "stroke" && !s.Closed && s.F["retrace"]:
				sig = "in-uncovered+open-retrace"
			}
			ms = append(ms, core.Mismatch{Signature: sig, Detail: fmt.Sprintf("%s: %d samples that must be covered are not, e.g. lattice point %s (facts %d); result=%s", where, nin, lat(firstIn), s.Facts[firstIn], trunc(r.String(), 300))})
		}
		if nout > 0 {
			ms = append(ms, core.Mismatch{Signature: "out-covered:" + sigtag + "+" + s.tag(), Detail: fmt.Sprintf("%s: %d samples that must not be covered are, e.g. lattice point %s (facts %d); result=%s", where, nout, lat(firstOut), s.Facts[firstOut], trunc(r.String(), 300))})
		}
	}
	if s.What == "offset" {
		ccw := s.F["ccw"] != (s.Emb.Det() < 0)
		for _, sign := range []string{"+", "-"} {
			d := hw
			if sign == "-" {
				d = -hw
			}
			grow := 0
			if (d > 0) == ccw {
				grow = 1
			}
			o := "cw"
			if ccw {
				o = "ccw"
			}
			if s.Only == "" || s.Only == sign {
				run("Offset("+sign+")", func() *canvas.Path {
					fastMu.RLock()
					defer fastMu.RUnlock()
					return build(s).Offset(d, 0.01*scale)
				},
					func(f int) int { return s.H.OffTable[grow][f] }, "offset"+sign+o, sign)
			}
			// history of two calls: offsetting by d/2 twice is offsetting by d (dilation and erosion by discs compose), and
			// the second call sees the orientation the first one returned ("expands CCW, contracts CW contours")
			// (only in the growing direction: eroding in two steps past the inradius of a small contour leaves an inverted
			// contour on the unchanged library, see notes/C04.md round 6)
			if grow == 1 && (s.Only == "" || s.Only == sign+"2") {
				// observable of the history: the first call returned more than one contour (growing a non-convex contour can
				// enclose a hole); the second call then shrinks that hole, see known finding "+intermediate-hole"
				tag := "offset-twice" + sign + o
				latgeo.Try(func() {
					fastMu.RLock()
					defer fastMu.RUnlock()
					if segs, err := oracle.Decode(build(s).Offset(d/2, 0.01*scale).Data()); err == nil {
						n := 0
						for _, g := range segs {
							if g.Cmd == oracle.CmdMove {
								n++
							}
						}
						if n > 1 {
							tag += "+intermediate-hole"
						}
					}
				})
				run("Offset("+sign+"/2) twice", func() *canvas.Path {
					fastMu.RLock()
					defer fastMu.RUnlock()
					return build(s).Offset(d/2, 0.01*scale).Offset(d/2, 0.01*scale)
				},
					func(f int) int { return s.H.OffTable[grow][f] }, tag, sign+"2")
			}
		}
		return
	}
	for ci, cap := range s.H.Caps {
		if s.Closed && ci > 0 {
			break // closed paths have no caps
		}
		for ji, join := range s.H.Joins {
			name := cap + "/" + join
			if s.Closed {
				name = "-/" + join
			}
			if s.Only != "" && s.Only != name {
				continue
			}
			tab := s.H.Table[ci][ji]
			if s.Closed && s.Explicit {
				cap = "square" // a closed sub-path has no caps, whatever capper is passed
			}
			run(name, func() *canvas.Path {
				fastMu.RLock()
				defer fastMu.RUnlock()
				return build(s).Stroke(2*hw, cappers[cap], joiners[join], 0.01*scale)
			},
				func(f int) int { return tab[f] }, name, name)
		}
	}
	// two closed sub-paths of opposite orientation in one path: the polyline and, 60 lattice units to the right, the same
	// polyline traced the other way round; both strokes must satisfy the classes (Stroke decides per sub-path)
	if s.Closed && !s.Explicit && !s.F["selfint"] && !s.F["zeroarea"] && !s.F["shortbend"] && (s.Only == "" || strings.HasPrefix(s.Only, "twin")) {
		const shift = 60
		twin := func() *canvas.Path {
			p := build(s)
			n := len(s.Pts)
			for i := 0; i < n; i++ {
				v := s.Pts[(n-i)%n]
				x, y := s.Emb.Map(float64(v[0]+shift), float64(v[1]))
				if i == 0 {
					p.MoveTo(x, y)
				} else {
					p.LineTo(x, y)
				}
			}
			p.Close()
			fastMu.RLock()
			defer fastMu.RUnlock()
			return p.Stroke(2*hw, canvas.ButtCap, canvas.BevelJoin, 0.01*scale)
		}
		tab := s.H.Table[0][0] // butt / bevel
		orig := pts
		if s.Only == "" || s.Only == "twin#1" {
			run("twin/-/bevel (first sub-path)", twin, func(f int) int { return tab[f] }, "twin/-/bevel", "twin#1")
		}
		if s.Only == "" || s.Only == "twin#2" {
			shifted := make([]oracle.Pt, len(orig))
			dx, dy := s.Emb.Map(shift, 0)
			ox, oy := s.Emb.Map(0, 0)
			for k := range orig {
				shifted[k] = oracle.Pt{X: orig[k].X + dx - ox, Y: orig[k].Y + dy - oy}
			}
			pts = shifted
			run("twin/-/bevel (second, reversed sub-path)", twin, func(f int) int { return tab[f] }, "twin/-/bevel", "twin#2")
			pts = orig
		}
	}
	// canvas.FastStroke = true skips the settling; its documentation promises the same region under the NonZero rule
	// for the trivial cases ("overlapping strokes may not be a problem when using the NonZero winding order", inner
	// bends of two line segments are repaired). Demanded for simple closed polylines of either orientation without
	// short legs at bends, with the same classes as the settled stroke.
	if s.Closed && !s.Explicit && !s.F["selfint"] && !s.F["zeroarea"] && !s.F["shortbend"] {
		for ji, join := range s.H.Joins {
			if join != "bevel" && join != "round" {
				continue
			}
			name := "fast/-/" + join
			if s.Only != "" && s.Only != name {
				continue
			}
			tab := s.H.Table[0][ji]
			run(name, func() *canvas.Path {
				fastMu.Lock()
				defer func() { canvas.FastStroke = false; fastMu.Unlock() }()
				canvas.FastStroke = true
				return build(s).Stroke(2*hw, canvas.ButtCap, joiners[join], 0.01*scale)
			}, func(f int) int { return tab[f] }, name, name)
		}
	}
	return
}

func trunc(s string, n int) string {
	if len(s) > n {
		return s[:n] + "..."
	}
	return s
}

func (Driver) Replay(c *core.Ctx, raw json.RawMessage) []core.Mismatch {
	var peek struct {
		What string `json:"what"`
	}
	if json.Unmarshal(raw, &peek) == nil && peek.What == "curve" {
		var cs CurveScenario
		if err := json.Unmarshal(raw, &cs); err != nil {
			return []core.Mismatch{{Signature: "machinery", Detail: err.Error()}}
		}
		return replayCurve(c, &cs)
	}
	var s Scenario
	if err := json.Unmarshal(raw, &s); err != nil || s.H == nil {
		return []core.Mismatch{{Signature: "machinery", Detail: fmt.Sprint("bad scenario: ", err)}}
	}
	ms, _ := exec(&s, true)
	return ms
}

func set(v []int) string {
	s := make([]string, len(v))
	for i, x := range v {
		s[i] = fmt.Sprint(x)
	}
	return "{" + strings.Join(s, ",") + "}"
}

func cfg(n, k, num int, what string, hws []int, check bool) string {
	s := fmt.Sprintf("SPECIFICATION Spec\nCONSTANTS N = %d\n K = %d\n Num = %d\n What = \"%s\"\n HWs = %s\n Check = %s\nCHECK_DEADLOCK FALSE\n",
		n, k, num, what, set(hws), strings.ToUpper(fmt.Sprint(check)))
	if check {
		s += "INVARIANTS ClassLaws OffLaws\n"
	}
	return s
}

// Settle flattens the arcs of round joins/caps with the package-level canvas.Tolerance (0.01 mm) whatever tolerance is
// passed to Stroke; the smallest embedding keeps the classification tolerance (1/12 unit) above it.
var quarter = latgeo.Emb{Name: "scale0.25", A: 0.25, D: 0.25}

var embList = []latgeo.Emb{latgeo.Symmetries[1], latgeo.Symmetries[4], latgeo.Translate, quarter, latgeo.Huge, latgeo.Pyth, latgeo.Rot17, latgeo.Symmetries[6], latgeo.Symmetries[2]}

func embsFor(h uint32, thorough bool) []latgeo.Emb {
	out := []latgeo.Emb{latgeo.Identity, embList[int(h)%len(embList)]}
	if thorough {
		out = append(out, embList[int(h/7+4)%len(embList)])
	}
	return out
}

func hash(s string) uint32 {
	h := uint32(2166136261)
	for i := 0; i < len(s); i++ {
		h = (h ^ uint32(s[i])) * 16777619
	}
	return h >> 1
}

type runner struct {
	c       *core.Ctx
	n       int64
	nontriv int64
	seen    sync.Map
	cur     [16]atomic.Pointer[stamp]
}
type stamp struct {
	t time.Time
	s *Scenario
}

func (r *runner) runGen(what string, o tlc.Opts) {
	c := r.c
	var hdr *Header
	ch := make(chan []byte, 4096)
	o.OnLine = func(p []byte) {
		if hdr == nil {
			var h Header
			if json.Unmarshal(p, &h) == nil && h.Hdr {
				hdr = &h
				return
			}
		}
		ch <- append([]byte(nil), p...)
	}
	done := make(chan struct{})
	var wid int32
	go func() {
		core.Parallel(10, ch, func(p []byte) {
			me := int(atomic.AddInt32(&wid, 1)) % 16
			var l Scenario
			if err := json.Unmarshal(p, &l); err != nil {
				c.Broken("bad scenario line: " + err.Error())
				return
			}
			if hdr == nil {
				c.Broken("scenario before header")
				return
			}
			l.What, l.H = what, hdr
			k := atomic.AddInt64(&r.n, 1)
			// non-trivial: at least one sample that must be covered and one that must not (for butt/bevel resp. grow)
			in, out := false, false
			for _, f := range l.Facts {
				cl := 2
				if what == "stroke" {
					cl = hdr.Table[0][0][f]
				} else {
					cl = hdr.OffTable[1][f]
				}
				in = in || cl == 1
				out = out || cl == 0
			}
			if in && out {
				key := fmt.Sprintf("%s|%s|%d", what, l.svg(), l.HW)
				if _, dup := r.seen.LoadOrStore(key, true); !dup {
					atomic.AddInt64(&r.nontriv, 1)
				}
			}
			if l.F["csi"] {
				c.AddExtra("masked_region_closed_selfintersecting_scenarios", 1)
			}
			if l.F["shortbend"] {
				c.AddExtra("masked_region_shortbend_scenarios", 1)
			}
			if k%1500 == 2 {
				c.Sample(map[string]any{"what": what, "path": l.svg(), "half_width_scaled": l.HW, "scale": hdr.S, "grid": []int{l.GX, l.GY, l.NX, l.NY}, "facts_head": l.Facts[:min(len(l.Facts), 40)]})
			}
			hh := hash(l.svg() + fmt.Sprint(l.HW))
			type run struct {
				e        latgeo.Emb
				explicit bool
			}
			var runs []run
			for i, e := range embsFor(hh, c.Thorough()) {
				// closed polylines: identity in both forms, the other embeddings alternate
				if l.Closed && i == 0 {
					runs = append(runs, run{e, false}, run{e, true})
				} else {
					runs = append(runs, run{e, l.Closed && (int(hh)+i)%2 == 0})
				}
			}
			for _, rn := range runs {
				s := l
				s.Emb, s.Explicit = rn.e, rn.explicit
				r.cur[me].Store(&stamp{time.Now(), &s})
				ms, onlys := exec(&s, false)
				r.cur[me].Store(nil)
				nc := int64(18)
				if what == "offset" {
					nc = 2
				} else if s.Closed {
					nc = 6
				}
				c.Count(nc, 0, 1)
				// one replay scenario per failing style
				for i, m := range ms {
					t := s
					t.Only = onlys[i]
					c.Report(&t, []core.Mismatch{m})
				}
			}
		})
		close(done)
	}()
	c.TLC(o, true)
	close(ch)
	<-done
}

func (d Driver) Run(c *core.Ctx) error {
	c.Rule = "scenario = lattice polyline (2..K vertices on the (N+1)x(N+1) lattice, open or closed, incl. collinear reversals, repeated and crossing edges) x half width (1/4, 1/2, 1, 3/2 lattice units) printed by spec/Stroke.tla with the exact facts of every sample of a grid (step 1/3 lattice unit) around the path; each is stroked by the real Path.Stroke with 3 cappers x 6 joiners (closed paths: 6 joiners; closed polylines in two forms with the same expectation: implicit closing edge through the builder, and raw data M a L b L c L a z with an explicit last segment and a zero-length Close), resp. offset by +-hw with Path.Offset (closed simple contours), under 2-3 similarity embeddings; curved part (spec/StrokeCurves.tla): lattice cubics/quads incl. two-inflection serpentines, curve/line corners and 2:1 ellipse arcs (rotated by the 3-4-5 angle or not) stroked with round cap + round join, grid samples near the boundary of the neighbourhood classified exactly by spec/Trace_StrokeCurves.tla; evaluations = real Stroke/Offset calls; non-trivial = distinct (polyline, half width) with at least one sample that must be covered and one that must not"
	c.Assumptions = []string{
		"classification tolerance Tol = 1/12 lattice unit on both sides of distance hw (covers snap rounding and the oracle's 64-chord flattening of arcs: < 5e-4 hw)",
		"join allowance is a disc around the vertex: limit*hw (+Tol) for miter/arcs, (limit+1)*hw for the clip variants (calibrated, DESIGN section 5 C04), none for bevel/round; square caps: hw*sqrt(2) around the end",
		"scenarios whose polyline the path builder changes (collinear reversal merged: C10 finding) are skipped and counted (skipped_builder_changed)",
		"Bezier and arc strokes: only round cap + round join, by the weak classification (way-points, chord gap) of spec/StrokeCurves.tla"}
	r := &runner{c: c}
	stop := make(chan struct{})
	go func() { // watchdog
		for {
			select {
			case <-stop:
				return
			case <-time.After(3 * time.Second):
			}
			for i := range r.cur {
				if st := r.cur[i].Load(); st != nil && time.Since(st.t) > 90*time.Second {
					ms, _ := exec(st.s, true)
					c.Report(st.s, ms)
					if len(ms) == 0 {
						c.Broken("worker stuck for 90 s but the scenario terminates under replay")
					}
					os.Exit(c.Finish())
				}
			}
		}
	}()
	defer close(stop)
	hws := []int{3, 6, 12, 18}
	var wg sync.WaitGroup
	stage := func(f func()) {
		wg.Add(1)
		go func() { defer wg.Done(); f() }()
	}
	// 1. model level
	stage(func() {
		c.TLC(tlc.Opts{Module: "Stroke", Config: cfg(2, 3, c.Pick(0, 0), "stroke", []int{3, 12}, true), Workers: 4, Coverage: c.Thorough(), Timeout: 20 * time.Minute}, true)
	})
	stage(func() {
		c.TLC(tlc.Opts{Module: "Stroke", Config: cfg(2, c.Pick(3, 4), c.Pick(0, 300), "offset", []int{3, 6}, true), Seed: c.Seed, Workers: 2, Timeout: 20 * time.Minute}, true)
	})
	// 2. spec -> code
	if c.Thorough() {
		stage(func() {
			r.runGen("stroke", tlc.Opts{Module: "Stroke", Config: cfg(3, 4, 1500, "stroke", hws, false), Seed: c.Seed, Workers: 6, Timeout: 30 * time.Minute})
		})
		stage(func() {
			r.runGen("stroke", tlc.Opts{Module: "Stroke", Config: cfg(5, 6, 500, "stroke", hws, false), Seed: c.Seed + 1, Workers: 6, Timeout: 30 * time.Minute})
		})
		stage(func() {
			r.runGen("offset", tlc.Opts{Module: "Stroke", Config: cfg(4, 6, 3000, "offset", hws, false), Seed: c.Seed + 2, Workers: 4, Timeout: 30 * time.Minute})
		})
	} else {
		stage(func() {
			r.runGen("stroke", tlc.Opts{Module: "Stroke", Config: cfg(3, 4, 90, "stroke", hws, false), Seed: c.Seed, Workers: 6})
		})
		stage(func() {
			r.runGen("offset", tlc.Opts{Module: "Stroke", Config: cfg(3, 5, 400, "offset", hws, false), Seed: c.Seed + 2, Workers: 4})
		})
	}
	// 3. curved paths (round cap, round join): spec/StrokeCurves.tla
	stage(func() { runCurves(c) })
	wg.Wait()
	c.Count(0, r.nontriv, 0)
	c.SetExtra("tlc_scenarios", r.n)
	c.SetExtra("skipped_builder_changed", atomic.LoadInt64(&skipped.builder))
	return nil
}
