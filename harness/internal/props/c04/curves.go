package c04

// Curved paths (spec/StrokeCurves.tla, spec/Trace_StrokeCurves.tla): Beziers, elliptical arcs and curve/line corners
// stroked with RoundCap and RoundJoin, for which the stroked region is exactly the w/2-neighbourhood of the path.
// spec -> code: TLC enumerates the paths; the harness strokes each under similarity embeddings, picks grid points near
// the boundary of the neighbourhood and evaluates NonZero membership of the returned outline with the winding oracle.
// code -> spec: Trace_StrokeCurves.tla classifies every logged sample exactly (in / out / free) from the way-points,
// gaps and radii it computes and rejects covered "out" samples and uncovered "in" samples.

import (
	"bytes"
	"encoding/json"
	"fmt"
	"math"
	"math/rand"
	"strings"
	"sync"
	"sync/atomic"
	"time"

	"github.com/tdewolff/canvas"

	"verif/harness/internal/core"
	"verif/harness/internal/latgeo"
	"verif/harness/internal/oracle"
	"verif/harness/internal/tlc"
)

type CurveCv struct {
	Type string   `json:"type"`
	Pts  [][2]int `json:"pts"`
	Pre  []int    `json:"pre"`
	Post []int    `json:"post"`
	A    int      `json:"a"`
	N    int      `json:"n"`
	CCW  bool     `json:"ccw"`
	Rot  bool     `json:"rot"`
	// Closed: a "bez" whose last control point is its first, closed by z (one-segment loop)
	Closed bool `json:"closed"`
	HW     int  `json:"hw"` // rcorner: half width (also at the top level of the scenario)
}

type curveGeom struct {
	S     [2]int `json:"s"`
	E     [2]int `json:"e"`
	Rx    int    `json:"rx"`
	Ry    int    `json:"ry"`
	Rot   bool   `json:"rot"`
	Large bool   `json:"large"`
	Sweep bool   `json:"sweep"`
}

// CurveScenario is the replay unit of the curved part (What = "curve").
type CurveScenario struct {
	What string          `json:"what"`
	Cv   CurveCv         `json:"cv"`
	F    map[string]bool `json:"f"`
	G    *curveGeom      `json:"g,omitempty"`
	HW   int             `json:"hw"` // half width in lattice units
	Emb  latgeo.Emb      `json:"emb"`
	Seed int64           `json:"seed"` // of the sample selection
}

type curveEvent struct {
	Cv      json.RawMessage `json:"cv"`
	HW      int             `json:"hw"`
	Samples [][3]int        `json:"samples"`
}

func (s *CurveScenario) q() int {
	if s.Cv.Type == "arc" {
		return 4
	}
	return 32
}

func (s *CurveScenario) describe() string {
	var b strings.Builder
	bez := func(c [][2]int) {
		if len(c) == 3 {
			fmt.Fprintf(&b, "Q%d %d %d %d", c[1][0], c[1][1], c[2][0], c[2][1])
		} else {
			fmt.Fprintf(&b, "C%d %d %d %d %d %d", c[1][0], c[1][1], c[2][0], c[2][1], c[3][0], c[3][1])
		}
	}
	switch s.Cv.Type {
	case "bez", "corner":
		if len(s.Cv.Pre) == 2 {
			fmt.Fprintf(&b, "M%d %dL%d %d", s.Cv.Pre[0], s.Cv.Pre[1], s.Cv.Pts[0][0], s.Cv.Pts[0][1])
		} else {
			fmt.Fprintf(&b, "M%d %d", s.Cv.Pts[0][0], s.Cv.Pts[0][1])
		}
		bez(s.Cv.Pts)
		if len(s.Cv.Post) == 2 {
			fmt.Fprintf(&b, "L%d %d", s.Cv.Post[0], s.Cv.Post[1])
		}
		if s.Cv.Closed {
			b.WriteString("z")
		}
	case "rcorner":
		y, sw := 1, 1
		if !s.Cv.CCW {
			y, sw = -1, 0
		}
		fmt.Fprintf(&b, "M-25 0L0 0A10 10 0 0 %d 10 %dL10 %d", sw, 10*y, 40*y)
	case "arc":
		g := s.G
		rot := "0"
		if g.Rot {
			rot = "atan(4/3)"
		}
		fmt.Fprintf(&b, "M%d %dA%d %d %s %v %v %d %d", g.S[0], g.S[1], g.Rx, g.Ry, rot, g.Large, g.Sweep, g.E[0], g.E[1])
	}
	return fmt.Sprintf("%s .Stroke(%d, RoundCap, RoundJoin) emb=%s", b.String(), 2*s.HW, s.Emb.Name)
}

func (s *CurveScenario) build() *canvas.Path {
	e := s.Emb
	m := func(x, y int) (float64, float64) { return e.Map(float64(x), float64(y)) }
	scale := math.Sqrt(math.Abs(e.Det()))
	p := &canvas.Path{}
	switch s.Cv.Type {
	case "bez", "corner":
		c := s.Cv.Pts
		if len(s.Cv.Pre) == 2 {
			p.MoveTo(m(s.Cv.Pre[0], s.Cv.Pre[1]))
			p.LineTo(m(c[0][0], c[0][1]))
		} else {
			p.MoveTo(m(c[0][0], c[0][1]))
		}
		x1, y1 := m(c[1][0], c[1][1])
		x2, y2 := m(c[2][0], c[2][1])
		if len(c) == 3 {
			p.QuadTo(x1, y1, x2, y2)
		} else {
			x3, y3 := m(c[3][0], c[3][1])
			p.CubeTo(x1, y1, x2, y2, x3, y3)
		}
		if len(s.Cv.Post) == 2 {
			p.LineTo(m(s.Cv.Post[0], s.Cv.Post[1]))
		}
		if s.Cv.Closed {
			p.Close()
		}
	case "rcorner":
		y, sweep := 1, true
		if !s.Cv.CCW {
			y, sweep = -1, false
		}
		if e.Det() < 0 {
			sweep = !sweep
		}
		p.MoveTo(m(-25, 0))
		p.LineTo(m(0, 0))
		x, yy := m(10, 10*y)
		p.ArcTo(10*scale, 10*scale, 0, false, sweep, x, yy)
		p.LineTo(m(10, 40*y))
	case "arc":
		g := s.G
		p.MoveTo(m(g.S[0], g.S[1]))
		x, y := m(g.E[0], g.E[1])
		rot := 0.0
		if g.Rot {
			rot = math.Atan2(4, 3) * 180 / math.Pi
		}
		sweep := g.Sweep
		if e.Det() < 0 {
			sweep, rot = !sweep, -rot
		}
		p.ArcTo(float64(g.Rx)*scale, float64(g.Ry)*scale, rot+math.Atan2(e.C, e.A)*180/math.Pi, g.Large, sweep, x, y)
	}
	return p
}

// observeCurve strokes the path and logs samples (grid points in the lattice frame) with their membership.
func observeCurve(s *CurveScenario, guard bool) (ev curveEvent, kind string, msg any) {
	scale := math.Sqrt(math.Abs(s.Emb.Det()))
	var r *canvas.Path
	p := s.build()
	call := func() {
		fastMu.RLock()
		defer fastMu.RUnlock()
		r = p.Stroke(2*float64(s.HW)*scale, canvas.RoundCap, canvas.RoundJoin, 0.01*scale)
	}
	if guard {
		kind, msg = latgeo.Guard(20*time.Second, call)
	} else if ok, m := latgeo.Try(call); !ok {
		kind, msg = "panic", m
	}
	if kind != "" {
		return
	}
	out, err := oracle.FlattenData(r.Data(), 64)
	if err != nil {
		return ev, "undecodable", err.Error()
	}
	// sample selection (not trusted: the specification classifies whatever is logged): grid points whose distance to a
	// fine flattening of the INPUT path is close to the half width, plus a few anywhere in the bounding box
	in, err := oracle.FlattenData(s.buildLattice().Data(), 512)
	if err != nil {
		return ev, "undecodable", err.Error()
	}
	q := float64(s.q())
	hw := float64(s.HW)
	band := 0.45 // lattice units around the boundary in which most samples are taken
	nWant := 260
	if s.Cv.Type == "arc" {
		band, nWant = 12, 200
	} else if s.F["twoinfl"] {
		nWant = 420
	} else if s.Cv.Type == "rcorner" {
		band = 0.9
	}
	rng := rand.New(rand.NewSource(s.Seed))
	var pts []oracle.Pt
	for _, c := range in {
		pts = append(pts, c.Pts...)
	}
	seen := map[[2]int]bool{}
	cvj := s.Cv // empty sequences, not null, for the specification
	if cvj.Pts == nil {
		cvj.Pts = [][2]int{}
	}
	if cvj.Pre == nil {
		cvj.Pre = []int{}
	}
	if cvj.Post == nil {
		cvj.Post = []int{}
	}
	cj, _ := json.Marshal(cvj)
	ev = curveEvent{Cv: cj, HW: s.HW, Samples: [][3]int{}}
	addSample := func(lx, ly float64) {
		gx, gy := int(math.Round(lx*q)), int(math.Round(ly*q))
		if seen[[2]int{gx, gy}] {
			return
		}
		seen[[2]int{gx, gy}] = true
		x, y := s.Emb.Map(float64(gx)/q, float64(gy)/q)
		f := 0
		if oracle.Winding(out, oracle.Pt{X: x, Y: y}) != 0 {
			f = 1
		}
		ev.Samples = append(ev.Samples, [3]int{gx, gy, f})
	}
	// rings around the junctions (line/curve corners, the closing corner of a one-segment loop, the ends of the rounded
	// corner), where the joins are; the rounded corner also gets a coarse grid over the whole corner region
	var js [][2]int
	switch {
	case s.Cv.Type == "corner":
		if len(s.Cv.Pre) == 2 {
			js = append(js, s.Cv.Pts[0])
		}
		if len(s.Cv.Post) == 2 {
			js = append(js, s.Cv.Pts[len(s.Cv.Pts)-1])
		}
	case s.Cv.Type == "bez" && s.Cv.Closed:
		js = append(js, s.Cv.Pts[0])
	case s.Cv.Type == "rcorner":
		y := 10
		if !s.Cv.CCW {
			y = -10
		}
		js = append(js, [2]int{0, 0}, [2]int{10, y})
		for gx := -hw - 2; gx <= 12+hw; gx += 2 {
			for gy := -hw - 2; gy <= 12+hw; gy += 2 {
				addSample(gx, gy*float64(y)/10)
			}
		}
	}
	for _, j := range js {
		for _, rr := range []float64{hw - 0.25, hw - 0.7, hw * 0.6, hw + 0.25} {
			for k := 0; k < 40; k++ {
				a := 2 * math.Pi * float64(k) / 40
				addSample(float64(j[0])+rr*math.Cos(a), float64(j[1])+rr*math.Sin(a))
			}
		}
	}
	nWant += len(ev.Samples)
	for tries := 0; len(ev.Samples) < nWant && tries < 40*nWant; tries++ {
		base := pts[rng.Intn(len(pts))]
		ang := rng.Float64() * 2 * math.Pi
		rad := hw + (rng.Float64()*2-1)*band
		if tries%9 == 0 {
			rad = rng.Float64() * 2.5 * hw // anywhere: deep inside / far outside
		}
		gx, gy := int(math.Round((base.X+rad*math.Cos(ang))*q)), int(math.Round((base.Y+rad*math.Sin(ang))*q))
		if seen[[2]int{gx, gy}] {
			continue
		}
		lp := oracle.Pt{X: float64(gx) / q, Y: float64(gy) / q}
		d := oracle.Dist(in, lp, false)
		if tries%9 != 0 && math.Abs(d-hw) > band {
			continue
		}
		seen[[2]int{gx, gy}] = true
		x, y := s.Emb.Map(lp.X, lp.Y)
		f := 0
		if oracle.Winding(out, oracle.Pt{X: x, Y: y}) != 0 {
			f = 1
		}
		ev.Samples = append(ev.Samples, [3]int{gx, gy, f})
	}
	return
}

// buildLattice: the path in the lattice frame (identity embedding), for the sample selection only.
func (s *CurveScenario) buildLattice() *canvas.Path {
	t := *s
	t.Emb = latgeo.Identity
	return t.build()
}

type curveVerdict struct {
	L         int    `json:"l"`
	N         int    `json:"n"`
	K         int    `json:"k"`
	S         [3]int `json:"s"`
	Uncovered int    `json:"uncovered"`
	Deep      int    `json:"deep"` // uncovered samples that are still "in" with the radius reduced by 15 % of the half width
	Rin       int    `json:"rin"`
	Rout      int    `json:"rout"`
	Q         int    `json:"q"`
}

func judgeCurves(c *core.Ctx, evs []curveEvent, workers int) ([]curveVerdict, bool) {
	if len(evs) == 0 {
		return nil, true
	}
	var buf bytes.Buffer
	enc := json.NewEncoder(&buf)
	for i := range evs {
		enc.Encode(evs[i])
	}
	cfg := "SPECIFICATION TSpec\nCONSTANTS Fam = \"arc\"\n Num = 0\nCHECK_DEADLOCK FALSE\n"
	res := c.TLC(tlc.Opts{Module: "Trace_StrokeCurves", Workers: workers, Files: map[string][]byte{"trace_strokecurves.ndjson": buf.Bytes()}, Config: cfg, Timeout: 30 * time.Minute}, true)
	if !res.OK {
		return nil, false
	}
	if res.Distinct != 2*int64(len(evs)) {
		c.Broken(fmt.Sprintf("Trace_StrokeCurves judged %d states for %d events", res.Distinct, len(evs)))
		return nil, false
	}
	var vs []curveVerdict
	for _, p := range res.Lines {
		var v curveVerdict
		if err := json.Unmarshal(p, &v); err != nil {
			c.Broken("bad verdict line: " + err.Error())
			return nil, false
		}
		vs = append(vs, v)
	}
	return vs, true
}

func curveTag(s *CurveScenario) string {
	t := s.Cv.Type
	if s.Cv.Type == "bez" && s.Cv.Closed {
		t = "loop"
	}
	if s.Cv.Type == "rcorner" {
		return fmt.Sprintf("rcorner+hw%d", s.HW)
	}
	if s.Cv.Type == "arc" {
		if s.F["nearhalf"] {
			t += "+near-half-turn"
		}
		return t
	}
	if s.F["twoinfl"] {
		t += "+two-inflections"
	}
	if s.F["fold"] {
		t += "+fold"
	}
	return t
}

func curveMismatches(s *CurveScenario, v curveVerdict) []core.Mismatch {
	det := fmt.Sprintf("%s: %d of the logged samples contradict the exact classification (%d must be covered and are not, %d must not be covered and are); e.g. grid point (%.4f,%.4f) filled=%d; radii in < %d, out > %d (1/%d units)",
		s.describe(), v.N, v.Uncovered, v.N-v.Uncovered, float64(v.S[0])/float64(v.Q), float64(v.S[1])/float64(v.Q), v.S[2], v.Rin, v.Rout, v.Q)
	var ms []core.Mismatch
	if v.Uncovered > 0 {
		sig := "curve-in-uncovered:" + curveTag(s)
		if s.Cv.Type == "arc" && v.Deep == 0 {
			sig = "curve-in-uncovered-shallow:" + curveTag(s) // only within 15 % of the half width of the boundary
		}
		ms = append(ms, core.Mismatch{Signature: sig, Detail: det})
	}
	if v.N-v.Uncovered > 0 {
		ms = append(ms, core.Mismatch{Signature: "curve-out-covered:" + curveTag(s), Detail: det})
	}
	return ms
}

func replayCurve(c *core.Ctx, s *CurveScenario) []core.Mismatch {
	ev, kind, msg := observeCurve(s, true)
	if kind != "" {
		return []core.Mismatch{{Signature: kind + "-stroke-curve:" + latgeo.PanicClass(msg) + "+" + curveTag(s), Detail: fmt.Sprintf("%s: %v", s.describe(), msg)}}
	}
	vs, ok := judgeCurves(c, []curveEvent{ev}, 1)
	if !ok {
		return []core.Mismatch{{Signature: "machinery", Detail: "Trace_StrokeCurves could not judge the call"}}
	}
	var ms []core.Mismatch
	for _, v := range vs {
		ms = append(ms, curveMismatches(s, v)...)
	}
	return ms
}

// canvas.FastStroke is a package variable: calls that set it hold the write lock, every other Stroke/Offset call of
// this driver the read lock.
var fastMu sync.RWMutex

var curveEmbs = []latgeo.Emb{latgeo.Symmetries[1], latgeo.Translate, latgeo.Pyth, latgeo.Rot17, latgeo.Symmetries[4], latgeo.Symmetries[2]}

// runCurves: the curved stage of the C04 check.
func runCurves(c *core.Ctx) {
	type item struct {
		s  *CurveScenario
		ev curveEvent
	}
	var mu sync.Mutex
	var items []item
	var nScen, nCalls int64
	collect := func(fam string, num int, seed int64) {
		ch := make(chan []byte, 1024)
		o := tlc.Opts{Module: "StrokeCurves", Seed: seed, Workers: 2,
			Config: fmt.Sprintf("SPECIFICATION Spec\nCONSTANTS Fam = \"%s\"\n Num = %d\nINVARIANT Laws\nCHECK_DEADLOCK FALSE\n", fam, num)}
		o.OnLine = func(p []byte) { ch <- append([]byte(nil), p...) }
		done := make(chan struct{})
		go func() {
			core.Parallel(6, ch, func(p []byte) {
				var base CurveScenario
				if err := json.Unmarshal(p, &base); err != nil {
					c.Broken("bad curve scenario line: " + err.Error())
					return
				}
				base.What = "curve"
				if base.HW <= 0 {
					c.Broken("curve scenario without half width")
					return
				}
				k := atomic.AddInt64(&nScen, 1)
				h := hash(string(p))
				if k%60 == 1 {
					c.Sample(map[string]any{"what": "curve", "scenario": json.RawMessage(p)})
				}
				embs := []latgeo.Emb{latgeo.Identity, curveEmbs[int(h)%len(curveEmbs)]}
				if !c.Thorough() && base.Cv.Type == "arc" && h%2 == 0 {
					embs = embs[:1]
				}
				for i, e := range embs {
					s := base
					s.Emb, s.Seed = e, int64(h)+int64(i)
					atomic.AddInt64(&nCalls, 1)
					ev, kind, msg := observeCurve(&s, false)
					if kind != "" {
						c.Report(&s, []core.Mismatch{{Signature: kind + "-stroke-curve:" + latgeo.PanicClass(msg) + "+" + curveTag(&s), Detail: fmt.Sprintf("%s: %v", s.describe(), msg)}})
						continue
					}
					mu.Lock()
					items = append(items, item{&s, ev})
					mu.Unlock()
				}
			})
			close(done)
		}()
		c.TLC(o, true)
		close(ch)
		<-done
	}
	var wg sync.WaitGroup
	for _, f := range []struct {
		fam string
		num int
	}{{"cubic2", c.Pick(300, 3000)}, {"cubic", c.Pick(250, 2500)}, {"corner", 0}, {"loop", 0}, {"rcorner", 0}, {"arc", c.Pick(60, 600)}} {
		wg.Add(1)
		go func() { defer wg.Done(); collect(f.fam, f.num, c.Seed) }()
	}
	wg.Wait()
	c.Count(nCalls, 0, 0)
	c.SetExtra("curve_scenarios", nScen)
	evs := make([]curveEvent, len(items))
	var nSamples int64
	for i := range items {
		evs[i] = items[i].ev
		nSamples += int64(len(items[i].ev.Samples))
	}
	c.SetExtra("curve_samples_classified", nSamples)
	vs, ok := judgeCurves(c, evs, 8)
	if !ok {
		return
	}
	wrong := map[int]bool{}
	for _, v := range vs {
		it := items[v.L-1]
		wrong[v.L] = true
		c.Report(it.s, curveMismatches(it.s, v))
	}
	seen := map[string]bool{}
	var nontriv int64
	for i, it := range items {
		if wrong[i+1] {
			continue
		}
		c.Count(0, 0, 1)
		key := string(it.ev.Cv)
		if !seen[key] && len(it.ev.Samples) >= 50 {
			seen[key] = true
			nontriv++
		}
	}
	c.Count(0, nontriv, 0)
}
