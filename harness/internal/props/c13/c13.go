// Package c13: every PDF produced is a structurally valid PDF file (spec/PDFDoc.tla, spec/Trace_PDFDoc.tla).
//
// spec -> code: TLC enumerates document programs (pages x elements x options x metadata classes); each is
// executed on the real renderers/pdf writer through a counting io.Writer.
// code -> spec: the produced bytes are parsed by the independent reader (oracle/pdfread.go) into one record;
// the trace (NEW, CALL.., CLOSE with the record) is validated by Trace_PDFDoc.tla, which drives the protocol
// machine of PDFDoc.tla and evaluates the validity predicates - the property - in TLA+ on the record together
// with the request.  Go code here only executes, projects and ships integers/strings; no validity rule is
// decided in Go.
package c13

import (
	"bufio"
	"bytes"
	"encoding/json"
	"fmt"
	"image"
	"image/color"
	"io"
	"os"
	"regexp"
	"sort"
	"strings"
	"sync"
	"sync/atomic"
	"time"

	"github.com/tdewolff/canvas"
	"github.com/tdewolff/canvas/renderers/pdf"

	"verif/harness/internal/core"
	"verif/harness/internal/oracle"
	"verif/harness/internal/tlc"
)

type Driver struct{}

func (Driver) ID() string { return "C13" }

// ---- scenario (as printed by PDFDoc!Scenario) -------------------------------------------------------

type Call struct {
	K string `json:"k"`
	A int    `json:"a"`
	B int    `json:"b"`
	C int    `json:"c"`
	D int    `json:"d"`
}

type Opts struct {
	Compress bool `json:"compress"`
	Subset   bool `json:"subset"`
}

type Scenario struct {
	Opts   Opts              `json:"opts"`
	Prog   []Call            `json:"prog"`
	Info   map[string]string `json:"info"`
	InfoAt int               `json:"infoAt"`
	Req    map[string][]int  `json:"req"` // code points per field, fixed by the spec
	NPages int               `json:"npages"`
	NObj   int               `json:"nobj"`
}

func (s *Scenario) key() string {
	b, _ := json.Marshal([]any{s.Opts, s.Prog, s.Info, s.InfoAt})
	return string(b)
}

// ---- assets (per worker: fonts are mutated by subsetting, so they are never shared between goroutines) ---

type assets struct {
	many string
	fam  [4]*canvas.FontFamily // 1: TrueType, 2: CFF, 3: standard Helvetica (Type1, not embedded)
	imgs [4]image.Image
}

const (
	FontTTF = "/repo/resources/DejaVuSerif.ttf"
	FontCFF = "/repo/resources/EBGaramond12-Regular.otf"
)

func newAssets() (*assets, error) {
	a := &assets{}
	for i, f := range []struct{ name, file string }{{"dejavu", FontTTF}, {"garamond", FontCFF}, {"helvetica", FontTTF}} {
		fam := canvas.NewFontFamily(f.name)
		if err := fam.LoadFontFile(f.file, canvas.FontRegular); err != nil {
			return nil, err
		}
		a.fam[i+1] = fam
	}
	op := image.NewRGBA(image.Rect(0, 0, 2, 3))
	for i := range op.Pix {
		op.Pix[i] = 255
	}
	op.Pix[0], op.Pix[1] = 10, 200
	a.imgs[1] = op
	al := image.NewNRGBA(image.Rect(0, 0, 2, 2))
	for i := range al.Pix {
		al.Pix[i] = byte(40 * (i + 1))
	}
	a.imgs[2] = al
	al2 := image.NewNRGBA(image.Rect(0, 0, 3, 1))
	for i := range al2.Pix {
		al2.Pix[i] = byte(255 - 17*i)
	}
	a.imgs[3] = al2
	return a, nil
}

// manyGlyphs returns a string whose characters map to exactly n distinct glyphs of the face's font (Latin, Latin-1,
// Latin Extended-A, Greek, Cyrillic in code point order), so that the subsetter hands out the codes 1..n.
func (a *assets) manyGlyphs(face *canvas.FontFace, n int) string {
	if a.many != "" {
		return a.many
	}
	seen := map[uint16]bool{0: true}
	var sb strings.Builder
	add := func(lo, hi rune) {
		for r := lo; r <= hi && len(seen) <= n; r++ {
			if r == 0xad {
				continue
			}
			if g := face.Font.GlyphIndex(r); !seen[g] {
				seen[g] = true
				sb.WriteRune(r)
			}
		}
	}
	add(0x21, 0x7e)
	add(0xa1, 0xff)
	add(0x100, 0x17f)
	add(0x391, 0x3c9)
	add(0x410, 0x44f)
	a.many = sb.String()
	return a.many
}

var assetPool = sync.Pool{}

func getAssets() (*assets, error) {
	if a, ok := assetPool.Get().(*assets); ok && a != nil {
		return a, nil
	}
	return newAssets()
}

// strings 3..8 (standard font only): unbalanced and balanced parentheses and a backslash inside a shown literal string
// strings 10, 11 (embedded fonts): glyph coverage - no character / only the first character is covered by the font
var texts = map[int]string{1: "AVfi ab", 2: "Tofu fi", 3: "a(b", 4: "a)b", 5: "a\\b", 6: "(x)", 7: "1) item :-(", 8: "[0, 1)", 10: "\u4e2d\u6587", 11: "A\u4e2d"}
var uris = map[int]string{1: "http://example.com/a", 2: "http://x.y/(a)\\b)"}

func cpString(cps []int) string {
	var sb strings.Builder
	for _, c := range cps {
		sb.WriteRune(rune(c))
	}
	return sb.String()
}

// ---- execution on the real writer -------------------------------------------------------------------

type result struct {
	data  []byte
	marks []int // bytes written after New, after every call, after Close
	want  []int // bytes the layout asks to show in the standard (WinAnsi) font, in drawing order
	where string
}

func triangle(closed bool) *canvas.Path {
	p := &canvas.Path{}
	p.MoveTo(0, 0)
	p.LineTo(40, 0)
	p.LineTo(40, 30)
	if closed {
		p.Close()
	}
	return p
}

func execute(s *Scenario, a *assets) (res *result, ms []core.Mismatch) {
	res = &result{}
	var buf bytes.Buffer
	defer func() {
		if r := recover(); r != nil {
			ms = append(ms, core.Mismatch{Signature: panicSig(r), Detail: fmt.Sprintf("panic in %s: %v", res.where, r)})
		}
	}()
	res.where = "New"
	opts := pdf.Options{Compress: s.Opts.Compress, SubsetFonts: s.Opts.Subset, ImageEncoding: canvas.Lossless}
	p := pdf.New(&buf, 100, 80, &opts)
	setInfo := func() {
		p.SetInfo(cpString(s.Req["title"]), cpString(s.Req["subject"]), cpString(s.Req["keywords"]), cpString(s.Req["author"]), cpString(s.Req["creator"]))
		p.SetLang(cpString(s.Req["lang"]))
	}
	if s.InfoAt == 0 {
		setInfo()
	}
	res.marks = append(res.marks, buf.Len())
	page := 1
	farX, farY := 0.0, 0.0
	for i, c := range s.Prog {
		res.where = c.K
		m := canvas.Identity.Translate(farX+float64(3+4*i), farY+float64(2+3*i))
		switch c.K {
		case "view":
			// huge, non-integral coordinates from here on (numbers beyond the 32-bit range must still be PDF numbers)
			if c.A == 1 {
				farX, farY = 3000000000.5, 3000000000.5
			} else {
				farX, farY = -3000000000.25, -3000000000.25
			}
		case "skip":
		case "path":
			st := canvas.DefaultStyle
			st.StrokeWidth = 2
			switch c.A {
			case 0:
				st.Fill = canvas.Paint{}
			case 1:
				st.Fill = canvas.Paint{Color: canvas.Red}
			case 2:
				st.Fill = canvas.Paint{Color: color.RGBA{128, 0, 0, 128}}
			case 3:
				g := canvas.NewLinearGradient(canvas.Point{X: 0, Y: 0}, canvas.Point{X: 40, Y: 30})
				g.Add(0, canvas.Red)
				g.Add(1, canvas.Blue)
				st.Fill = canvas.Paint{Gradient: g}
			case 4:
				g := canvas.NewRadialGradient(canvas.Point{X: 20, Y: 10}, 0, canvas.Point{X: 20, Y: 10}, 20)
				g.Add(0, canvas.Red)
				g.Add(1, canvas.Blue)
				st.Fill = canvas.Paint{Gradient: g}
			case 5:
				g := canvas.NewLinearGradient(canvas.Point{X: 0, Y: 0}, canvas.Point{X: 40, Y: 0})
				g.Add(0, canvas.Red)
				g.Add(0.5, canvas.Green)
				g.Add(1, canvas.Blue)
				st.Fill = canvas.Paint{Gradient: g}
			}
			switch c.B {
			case 0:
				st.Stroke = canvas.Paint{}
			case 1:
				st.Stroke = canvas.Paint{Color: canvas.Blue}
			case 2:
				st.Stroke = canvas.Paint{Color: color.RGBA{0, 0, 128, 128}}
			}
			st.FillRule = canvas.FillRule(c.C)
			p.RenderPath(triangle(c.D == 1), st, m)
		case "image":
			if c.B == 1 {
				p.SetImageEncoding(canvas.Lossy)
			} else {
				p.SetImageEncoding(canvas.Lossless)
			}
			if c.C == 1 {
				p.RenderImage(a.imgs[c.A], m.Scale(0, 1)) // singular: the transformed image has no width
			} else {
				p.RenderImage(a.imgs[c.A], m)
			}
		case "text":
			face := a.fam[c.A].Face(12, canvas.Black)
			str := texts[c.B]
			if c.B == 9 {
				str = a.manyGlyphs(face, 296)
			}
			if c.B == 10 || c.B == 11 {
				// the dimension is real only if the font lacks U+4E2D / U+6587 (and has "A")
				for _, r := range str {
					if (face.Font.GlyphIndex(r) == 0) != (r >= 0x4e00) {
						ms = append(ms, core.Mismatch{Signature: "machinery", Detail: fmt.Sprintf("coverage of U+%04X by font %d is not what string %d assumes", r, c.A, c.B)})
						return
					}
				}
			}
			var t *canvas.Text
			if c.C == 1 {
				rt := canvas.NewRichText(face)
				rt.SetWritingMode(canvas.VerticalRL)
				rt.SetTextOrientation(canvas.Upright)
				rt.WriteString(str)
				t = rt.ToText(0, 0, canvas.Left, canvas.Top, 0, 0)
			} else {
				t = canvas.NewTextLine(face, str, canvas.Left)
			}
			if c.A == 3 {
				// what the layout hands to the writer for a standard font: the characters of the laid-out glyphs
				t.WalkSpans(func(x, y float64, span canvas.TextSpan) {
					for _, g := range span.Glyphs {
						if g.Text < 128 {
							res.want = append(res.want, int(g.Text))
						} else {
							res.want = append(res.want, -1)
						}
					}
				})
			}
			p.RenderText(t, m.Translate(0, 40))
		case "link":
			p.AddLink(uris[c.A], canvas.Rect{X0: farX + 1, Y0: farY + 1, X1: farX + 20, Y1: farY + 8})
		case "newpage":
			page++
			if farX != 0 {
				p.NewPage(800000000.5, float64(50+5*page))
			} else {
				p.NewPage(float64(60+10*page), float64(50+5*page))
			}
		default:
			ms = append(ms, core.Mismatch{Signature: "machinery", Detail: "unknown call " + c.K})
			return
		}
		res.marks = append(res.marks, buf.Len())
	}
	res.where = "Close"
	if s.InfoAt != 0 {
		setInfo()
	}
	if err := p.Close(); err != nil {
		ms = append(ms, core.Mismatch{Signature: "close-error", Detail: err.Error()})
	}
	res.marks = append(res.marks, buf.Len())
	res.data = buf.Bytes()
	return
}

var reDigits = regexp.MustCompile(`[0-9]+`)

// panicSig: the signature of a panic is its message (numbers abstracted), so that different panics stay different findings.
func panicSig(r any) string {
	m := reDigits.ReplaceAllString(fmt.Sprint(r), "N")
	if len(m) > 60 {
		m = m[:60]
	}
	return "panic:" + m
}

// executeGuarded adds the non-termination watchdog.
func executeGuarded(s *Scenario) (*result, []core.Mismatch) {
	type out struct {
		r  *result
		ms []core.Mismatch
	}
	ch := make(chan out, 1)
	go func() {
		a, err := getAssets()
		if err != nil {
			ch <- out{nil, []core.Mismatch{{Signature: "machinery", Detail: err.Error()}}}
			return
		}
		r, ms := execute(s, a)
		assetPool.Put(a)
		ch <- out{r, ms}
	}()
	select {
	case o := <-ch:
		return o.r, o.ms
	case <-time.After(60 * time.Second):
		return nil, []core.Mismatch{{Signature: "timeout-document", Detail: "document program did not finish within 60 s"}}
	}
}

// ---- projection of the parsed file onto the record of PDFDoc.tla (part B) -----------------------------

type objRec struct {
	N    int    `json:"n"`
	G    int    `json:"g"`
	Off  int    `json:"off"`
	Kind string `json:"kind"`
	St   int    `json:"st"`
	Len  int    `json:"len"`
	Act  int    `json:"act"`
	Dec  string `json:"dec"`
	Seol bool   `json:"seol"`
	Refs []int  `json:"refs"`
	Dup  bool   `json:"dup"`
}
type xrefRec struct {
	N   int `json:"n"`
	Off int `json:"off"`
	Gen int `json:"gen"`
	Use int `json:"use"`
}
type resRec struct {
	Font []string `json:"font"`
	Xobj []string `json:"xobj"`
	Gs   []string `json:"gs"`
	Pat  []string `json:"pat"`
	Sh   []string `json:"sh"`
	Cs   []string `json:"cs"`
}
type useRec struct {
	Op   string `json:"op"`
	Name string `json:"name"`
}
type opRec struct {
	Op string `json:"op"`
	N  int    `json:"n"`
}
type pageRec struct {
	N      int      `json:"n"`
	Res    resRec   `json:"res"`
	Uses   []useRec `json:"uses"`
	Ops    []opRec  `json:"ops"`
	Seq    []string `json:"seq"`
	Ok     bool     `json:"ok"`
	Annots int      `json:"annots"`
	Shown  []int    `json:"shown"` // decoded bytes of the string operands of TJ / Tj while a simple Type1 font is selected
}
type DocRec struct {
	Header    bool      `json:"header"`
	EOF       bool      `json:"eof"`
	StartXref int       `json:"startxref"`
	XrefAt    int       `json:"xrefat"`
	XrefOK    bool      `json:"xrefok"`
	BodyErr   int       `json:"bodyerr"`
	Sub       [][]int   `json:"sub"`
	Xref      []xrefRec `json:"xref"`
	Size      int       `json:"size"`
	Root      int       `json:"root"`
	Info      int       `json:"info"`
	Objs      []objRec  `json:"objs"`
	Cat       struct {
		Kind  string `json:"kind"`
		Pages int    `json:"pages"`
		Lang  []int  `json:"lang"`
	} `json:"cat"`
	Tree struct {
		Count     int   `json:"count"`
		Leaves    []int `json:"leaves"`
		BadParent int   `json:"badparent"`
		BadKid    int   `json:"badkid"`
		Cyclic    bool  `json:"cyclic"`
	} `json:"tree"`
	Pages []pageRec `json:"pages"`
	Infod struct {
		Title    []int `json:"title"`
		Subject  []int `json:"subject"`
		Keywords []int `json:"keywords"`
		Author   []int `json:"author"`
		Creator  []int `json:"creator"`
	} `json:"infod"`
}

func kindOf(o *oracle.PDFObject) string {
	if o.Dict != nil {
		if n, ok := o.Dict.Get("Type").(oracle.PDFName); ok {
			return string(n)
		}
		if o.IsStream {
			return "stream"
		}
		return "dict"
	}
	return "other"
}

func refNum(v oracle.PDFValue) int {
	if r, ok := v.(oracle.PDFRef); ok && r.Gen == 0 {
		return r.Num
	}
	return -1
}

func textBytes(v oracle.PDFValue, f *oracle.PDFFile) []int {
	if v == nil {
		return []int{-1}
	}
	x, _, ok := f.Resolve(v)
	if !ok {
		return []int{-2}
	}
	s, isStr := x.(oracle.PDFString)
	if !isStr {
		return []int{-2}
	}
	out := make([]int, len(s.B))
	for i, b := range s.B {
		out[i] = int(b)
	}
	return out
}

func dictNames(f *oracle.PDFFile, res *oracle.PDFDict, cat string) []string {
	out := []string{}
	if res == nil {
		return out
	}
	d := f.ResolveDict(res.Get(cat))
	if d == nil {
		return out
	}
	out = append(out, d.Keys...)
	sort.Strings(out)
	return out
}

var structural = map[string]bool{"q": true, "Q": true, "BT": true, "ET": true}

// Project builds the record the TLA+ predicates are evaluated on. It reports, it does not judge.
func Project(data []byte) (*DocRec, *oracle.PDFFile) {
	f := oracle.ParsePDF(data)
	d := &DocRec{Header: f.HeaderOK, EOF: f.EOFOK, StartXref: f.StartXref, XrefAt: f.XrefAt, XrefOK: f.XrefOK, BodyErr: len(f.BodyErrors),
		Size: -1, Root: -1, Info: -1, Sub: [][]int{}, Xref: []xrefRec{}, Objs: []objRec{}, Pages: []pageRec{}}
	for i := range f.XrefFirst {
		d.Sub = append(d.Sub, []int{f.XrefFirst[i], f.XrefCount[i]})
	}
	for _, e := range f.Xref {
		u := 0
		if e.InUse {
			u = 1
		}
		d.Xref = append(d.Xref, xrefRec{e.Num, e.Off, e.Gen, u})
	}
	if f.Trailer != nil {
		if n, ok := f.Trailer.Get("Size").(oracle.PDFNum); ok && n.IsInt {
			d.Size = int(n.I)
		}
		d.Root = refNum(f.Trailer.Get("Root"))
		if f.Trailer.Get("Info") != nil {
			d.Info = refNum(f.Trailer.Get("Info"))
			if d.Info == -1 {
				d.Info = -2
			}
		}
	}
	for _, o := range f.Objects {
		r := objRec{N: o.Num, G: o.Gen, Off: o.Offset, Kind: kindOf(o), Len: -1, Act: -1, Seol: true, Refs: []int{}, Dup: o.Dict != nil && len(o.Dict.Dup) > 0}
		if o.IsStream {
			r.St, r.Len, r.Act, r.Dec, r.Seol = 1, o.DeclLen, o.ActualLen, o.Decode, o.StreamEOL
		}
		seen := map[int]bool{}
		for _, ref := range oracle.PDFRefs(o.Value) {
			n := ref.Num
			if ref.Gen != 0 {
				n = -1
			}
			if !seen[n] {
				seen[n] = true
				r.Refs = append(r.Refs, n)
			}
		}
		d.Objs = append(d.Objs, r)
	}
	// catalog
	d.Cat.Kind, d.Cat.Pages, d.Cat.Lang = "missing", -1, []int{-1}
	var cat *oracle.PDFDict
	if f.Trailer != nil {
		cat = f.ResolveDict(f.Trailer.Get("Root"))
	}
	if cat != nil {
		d.Cat.Kind = "dict"
		if n, ok := cat.Get("Type").(oracle.PDFName); ok {
			d.Cat.Kind = string(n)
		}
		d.Cat.Pages = refNum(cat.Get("Pages"))
		d.Cat.Lang = textBytes(cat.Get("Lang"), f)
	}
	// info dictionary
	var info *oracle.PDFDict
	if f.Trailer != nil {
		info = f.ResolveDict(f.Trailer.Get("Info"))
	}
	get := func(k string) []int {
		if info == nil {
			return []int{-1}
		}
		return textBytes(info.Get(k), f)
	}
	d.Infod.Title, d.Infod.Subject, d.Infod.Keywords, d.Infod.Author, d.Infod.Creator = get("Title"), get("Subject"), get("Keywords"), get("Author"), get("Creator")

	// page tree
	d.Tree.Count, d.Tree.Leaves = -1, []int{}
	type leaf struct {
		num     int
		dict    *oracle.PDFDict
		parents []*oracle.PDFDict
	}
	var leaves []leaf
	visited := map[int]bool{}
	var walk func(ref oracle.PDFValue, parents []*oracle.PDFDict, parentNum int, root bool)
	walk = func(ref oracle.PDFValue, parents []*oracle.PDFDict, parentNum int, root bool) {
		num := refNum(ref)
		node := f.ResolveDict(ref)
		if node == nil || num < 0 {
			d.Tree.BadKid++
			return
		}
		if visited[num] {
			d.Tree.Cyclic = true
			return
		}
		visited[num] = true
		if !root && refNum(node.Get("Parent")) != parentNum {
			d.Tree.BadParent++
		}
		switch ty, _ := node.Get("Type").(oracle.PDFName); ty {
		case "Pages":
			if root {
				if n, ok := node.Get("Count").(oracle.PDFNum); ok && n.IsInt {
					d.Tree.Count = int(n.I)
				}
			}
			kids, _, _ := f.Resolve(node.Get("Kids"))
			arr, ok := kids.(oracle.PDFArray)
			if !ok {
				d.Tree.BadKid++
				return
			}
			for _, k := range arr {
				walk(k, append(parents[:len(parents):len(parents)], node), num, false)
			}
		case "Page":
			leaves = append(leaves, leaf{num, node, parents})
			d.Tree.Leaves = append(d.Tree.Leaves, num)
		default:
			d.Tree.BadKid++
		}
	}
	if cat != nil && cat.Get("Pages") != nil {
		walk(cat.Get("Pages"), nil, -1, true)
	}
	for _, lf := range leaves {
		pr := pageRec{N: lf.num, Uses: []useRec{}, Ops: []opRec{}, Seq: []string{}, Ok: true, Shown: []int{}}
		// resources: own or inherited
		resV := lf.dict.Get("Resources")
		for i := len(lf.parents) - 1; resV == nil && i >= 0; i-- {
			resV = lf.parents[i].Get("Resources")
		}
		res := f.ResolveDict(resV)
		pr.Res = resRec{dictNames(f, res, "Font"), dictNames(f, res, "XObject"), dictNames(f, res, "ExtGState"), dictNames(f, res, "Pattern"), dictNames(f, res, "Shading"), dictNames(f, res, "ColorSpace")}
		if an, _, ok := f.Resolve(lf.dict.Get("Annots")); ok {
			if arr, isArr := an.(oracle.PDFArray); isArr {
				pr.Annots = len(arr)
			}
		}
		// contents: a stream or an array of streams
		var content []byte
		addStream := func(v oracle.PDFValue) {
			_, o, ok := f.Resolve(v)
			if !ok || o == nil || !o.IsStream || o.Decode != "ok" {
				pr.Ok = false
				return
			}
			content = append(content, o.Decoded...)
			content = append(content, '\n')
		}
		switch cv := lf.dict.Get("Contents").(type) {
		case nil:
		case oracle.PDFArray:
			for _, x := range cv {
				addStream(x)
			}
		case oracle.PDFRef:
			if x, _, ok := f.Resolve(cv); ok {
				if arr, isArr := x.(oracle.PDFArray); isArr {
					for _, y := range arr {
						addStream(y)
					}
				} else {
					addStream(cv)
				}
			} else {
				pr.Ok = false
			}
		default:
			pr.Ok = false
		}
		simpleFont := false
		fontDict := f.ResolveDict(func() oracle.PDFValue {
			if res == nil {
				return nil
			}
			return res.Get("Font")
		}())
		seenOp := map[opRec]bool{}
		seenUse := map[useRec]bool{}
		last := ""
		for _, op := range oracle.ParseContent(content) {
			if c0 := op.Op[0]; c0 == '+' || c0 == '-' || c0 == '.' || (c0 >= '0' && c0 <= '9') {
				// a token that starts like a number but is not one (7.3.3), e.g. two decimal points
				op.Op = "malformed-number"
			}
			if strings.HasPrefix(op.Op, "?") {
				pr.Ok = false
				continue
			}
			or := opRec{op.Op, len(op.Args)}
			if !seenOp[or] {
				seenOp[or] = true
				pr.Ops = append(pr.Ops, or)
			}
			if structural[op.Op] || op.Op != last {
				pr.Seq = append(pr.Seq, op.Op)
			}
			last = op.Op
			switch op.Op {
			case "Tf":
				simpleFont = false
				if len(op.Args) == 2 && fontDict != nil {
					if n, ok := op.Args[0].(oracle.PDFName); ok {
						if fd := f.ResolveDict(fontDict.Get(string(n))); fd != nil {
							st, _ := fd.Get("Subtype").(oracle.PDFName)
							simpleFont = st == "Type1"
						}
					}
				}
			case "TJ", "Tj":
				if simpleFont && len(op.Args) == 1 {
					items, isArr := op.Args[0].(oracle.PDFArray)
					if !isArr {
						items = oracle.PDFArray{op.Args[0]}
					}
					for _, it := range items {
						if str, ok := it.(oracle.PDFString); ok {
							for _, b := range str.B {
								pr.Shown = append(pr.Shown, int(b))
							}
						}
					}
				}
			}
			// name operands that refer to resources (the category is decided by the spec from the operator)
			var name oracle.PDFValue
			switch op.Op {
			case "Tf", "Do", "gs", "sh", "cs", "CS":
				if len(op.Args) > 0 {
					name = op.Args[0]
				}
			case "scn", "SCN":
				if len(op.Args) > 0 {
					name = op.Args[len(op.Args)-1]
				}
			}
			if n, ok := name.(oracle.PDFName); ok {
				u := useRec{op.Op, string(n)}
				if !seenUse[u] {
					seenUse[u] = true
					pr.Uses = append(pr.Uses, u)
				}
			}
		}
		d.Pages = append(d.Pages, pr)
	}
	return d, f
}

// ---- trace events -----------------------------------------------------------------------------------

type defRec struct {
	N    int    `json:"n"`
	Kind string `json:"kind"`
}
type event struct {
	Op     string            `json:"op"`
	ID     int               `json:"id"`
	Opts   *Opts             `json:"opts,omitempty"`
	Prog   *[]Call           `json:"prog,omitempty"`
	Info   map[string]string `json:"info,omitempty"`
	InfoAt *int              `json:"infoAt,omitempty"`
	Defs   *[]defRec         `json:"defs,omitempty"`
	Doc    *DocRec           `json:"doc,omitempty"`
	Want   *[]int            `json:"want,omitempty"`
}

// traceOf turns one executed document into its events.
func traceOf(id int, s *Scenario, r *result) ([]byte, *DocRec) {
	doc, f := Project(r.data)
	var buf bytes.Buffer
	enc := json.NewEncoder(&buf)
	prog := s.Prog
	if prog == nil {
		prog = []Call{}
	}
	at := s.InfoAt
	enc.Encode(event{Op: "NEW", ID: id, Opts: &s.Opts, Prog: &prog, Info: s.Info, InfoAt: &at})
	// objects whose first byte lies in (marks[i], marks[i+1]] were written by call i
	for i := 0; i+1 < len(r.marks); i++ {
		defs := []defRec{}
		for _, o := range f.Objects {
			if o.Offset >= r.marks[i] && o.Offset < r.marks[i+1] {
				defs = append(defs, defRec{o.Num, kindOf(o)})
			}
		}
		ev := event{Op: "CALL", ID: id, Defs: &defs}
		if i+2 == len(r.marks) {
			want := r.want
			if want == nil {
				want = []int{}
			}
			ev.Op, ev.Doc, ev.Want = "CLOSE", doc, &want
		}
		enc.Encode(ev)
	}
	return buf.Bytes(), doc
}

func traceCfg() string {
	return "SPECIFICATION TSpec\nCONSTANTS L = 1\n Gen = \"trace\"\n Alpha = \"small\"\n NRand = 0\nPOSTCONDITION TraceAccepted\nCHECK_DEADLOCK FALSE\n"
}

type verdictLine struct {
	ID     int             `json:"id"`
	Fails  []string        `json:"fails"`
	Layout *int            `json:"layout"`
	Model  json.RawMessage `json:"model"`
	File   json.RawMessage `json:"file"`
}

// validate runs Trace_PDFDoc on a chunk of events. It returns the failing signatures per document id and
// the layout (model drift) notes.
func validate(c *core.Ctx, trace []byte, nEvents int) (fails map[int][]string, layout map[int]string, ok bool) {
	res := c.TLC(tlc.Opts{Module: "Trace_PDFDoc", Workers: 1, HeapGB: 3, Files: map[string][]byte{"trace_pdfdoc.ndjson": trace}, Config: traceCfg()}, false)
	fails, layout = map[int][]string{}, map[int]string{}
	if !res.OK {
		c.Broken(fmt.Sprintf("Trace_PDFDoc stopped after %d of %d events (the trace actions never block, so this is a machinery error): %s\n%s", res.Depth-1, nEvents, res.ErrText, lastLines(res.Tail, 12)))
		return fails, layout, false
	}
	for _, p := range res.Lines {
		var v verdictLine
		if err := json.Unmarshal(p, &v); err != nil {
			c.Broken("bad verdict line: " + err.Error() + ": " + string(p))
			continue
		}
		if v.Layout != nil {
			layout[v.ID] = fmt.Sprintf("call %d: model %s, file %s", *v.Layout, v.Model, v.File)
		} else {
			sort.Strings(v.Fails)
			fails[v.ID] = v.Fails
		}
	}
	return fails, layout, true
}

func lastLines(s string, n int) string {
	l := strings.Split(s, "\n")
	if len(l) > n {
		l = l[len(l)-n:]
	}
	return strings.Join(l, "\n")
}

// detail explains a signature with what the reader saw.
func detail(sig string, s *Scenario, doc *DocRec) string {
	var sb strings.Builder
	fmt.Fprintf(&sb, "%s; program=%s opts=%+v", sig, progString(s.Prog), s.Opts)
	switch {
	case strings.HasPrefix(sig, "info-") || sig == "string-escape-cr":
		fmt.Fprintf(&sb, "; request(code points)=%v; stored bytes: Title=%v Subject=%v Keywords=%v Author=%v Creator=%v Lang=%v", s.Req, doc.Infod.Title, doc.Infod.Subject, doc.Infod.Keywords, doc.Infod.Author, doc.Infod.Creator, doc.Cat.Lang)
	case strings.HasPrefix(sig, "shown-text-"):
		for i, p := range doc.Pages {
			fmt.Fprintf(&sb, "; page %d shows %q in standard fonts", i+1, string(bytesOf(p.Shown)))
		}
	case strings.HasPrefix(sig, "operator-") || strings.HasPrefix(sig, "text-") || strings.HasPrefix(sig, "saverestore-") || sig == "content-unreadable":
		for i, p := range doc.Pages {
			fmt.Fprintf(&sb, "; page %d operators=%s", i+1, strings.Join(p.Seq, " "))
		}
	case strings.HasPrefix(sig, "resource-"):
		for i, p := range doc.Pages {
			fmt.Fprintf(&sb, "; page %d resources=%+v uses=%v", i+1, p.Res, p.Uses)
		}
	case strings.HasPrefix(sig, "offset-") || strings.HasPrefix(sig, "xref-") || strings.HasPrefix(sig, "length-") || strings.HasPrefix(sig, "ref-") || strings.HasPrefix(sig, "trailer-") || strings.HasPrefix(sig, "object-"):
		fmt.Fprintf(&sb, "; size=%d xref=%v; objects=", doc.Size, doc.Xref)
		for _, o := range doc.Objs {
			fmt.Fprintf(&sb, "[%d@%d %s len=%d/%d refs=%v]", o.N, o.Off, o.Kind, o.Len, o.Act, o.Refs)
		}
	case strings.HasPrefix(sig, "pagetree-") || sig == "catalog-pages":
		fmt.Fprintf(&sb, "; tree=%+v catalog=%+v", doc.Tree, doc.Cat)
	}
	return sb.String()
}

func bytesOf(xs []int) []byte {
	b := make([]byte, len(xs))
	for i, x := range xs {
		b[i] = byte(x)
	}
	return b
}

func progString(p []Call) string {
	var parts []string
	for _, c := range p {
		if c.K == "skip" {
			continue
		}
		parts = append(parts, fmt.Sprintf("%s(%d,%d,%d,%d)", c.K, c.A, c.B, c.C, c.D))
	}
	return "[" + strings.Join(parts, " ") + "]"
}

// judge executes one scenario, validates its trace and returns the mismatches (used by Replay).
func judge(c *core.Ctx, s *Scenario) []core.Mismatch {
	r, ms := executeGuarded(s)
	if len(ms) > 0 || r == nil {
		return ms
	}
	tr, doc := traceOf(0, s, r)
	fails, _, ok := validate(c, tr, len(s.Prog)+2)
	if !ok {
		return []core.Mismatch{{Signature: "machinery", Detail: "trace validation did not run"}}
	}
	for _, sig := range fails[0] {
		ms = append(ms, core.Mismatch{Signature: sig, Detail: detail(sig, s, doc)})
	}
	return ms
}

func (Driver) Replay(c *core.Ctx, raw json.RawMessage) []core.Mismatch {
	var s Scenario
	if err := json.Unmarshal(raw, &s); err != nil {
		return []core.Mismatch{{Signature: "machinery", Detail: err.Error()}}
	}
	return judge(c, &s)
}

// ---- the pipeline -----------------------------------------------------------------------------------

func genCfg(l int, gen, alpha string, nrand int, mc bool) string {
	s := fmt.Sprintf("SPECIFICATION Spec\nCONSTANTS L = %d\n Gen = \"%s\"\n Alpha = \"%s\"\n NRand = %d\nCHECK_DEADLOCK FALSE\n", l, gen, alpha, nrand)
	if mc {
		s += "INVARIANTS TypeOK DefinedAtMostOnce ReservedUntilClose AllDefinedAtClose OffsetsConsistent PageTreeModel ResourcesCover RefsDistinct WroteIsFile\n"
	} else {
		s += "INVARIANTS EmitInv\n"
	}
	return s
}

type job struct {
	id int
	s  *Scenario
}
type done struct {
	id    int
	s     *Scenario
	trace []byte
	doc   *DocRec
}

func nontrivial(s *Scenario) bool {
	// at least two different kinds of call (a second page counts); or a single call (the metadata sweep) whose title has
	// non-ASCII / CR / ( ) \ characters
	kinds := map[string]bool{}
	n := 0
	for _, c := range s.Prog {
		if c.K != "skip" {
			kinds[c.K] = true
			n++
		}
	}
	if len(kinds) >= 2 {
		return true
	}
	if n > 1 {
		return false
	}
	for _, cp := range s.Req["title"] {
		if cp >= 128 || cp == 13 || cp == 40 || cp == 41 || cp == 92 {
			return true
		}
	}
	return false
}

// The library reports a failed font subsetting with fmt.Println on stdout (writer.go). Those lines are counted and
// kept out of the check's output; everything else is passed through.
func filterStdout(c *core.Ctx) (restore func()) {
	orig := os.Stdout
	r, w, err := os.Pipe()
	if err != nil {
		return func() {}
	}
	os.Stdout = w
	done := make(chan struct{})
	go func() {
		defer close(done)
		rd := bufio.NewReaderSize(r, 1<<16)
		var n int64
		for {
			line, err := rd.ReadString('\n')
			if strings.HasPrefix(line, "WARNING: font subsetting failed") {
				n++
			} else if line != "" {
				io.WriteString(orig, line)
			}
			if err != nil {
				break
			}
		}
		c.SetExtra("library_warnings_font_subsetting_failed", n)
	}()
	return func() {
		os.Stdout = orig
		w.Close()
		<-done
		r.Close()
	}
}

func (d Driver) Run(c *core.Ctx) error {
	c.Rule = "scenario = document program (call slots over path/image/text/link/newpage with fill, stroke, alpha, fill rule, image alpha and encoding, font kind incl. a standard-14 font with strings that contain ( ) \\, writing mode) x {compress} x {subset} x metadata profile (classes of text per Info field and Lang), generated by TLC from spec/PDFDoc.tla (exhaustive up to 2 calls x 4 option sets and up to 3 calls with default options in the quick tier, up to 3 calls x 4 option sets in the thorough tier, over the small alphabet; the huge-coordinates family (view change to about +-3e9 + a fraction, then every call of the small alphabet, then nothing / link / new page of 8e8 mm; 180 documents); the standard-font sweep (108 documents: strings a(b, a)b, a\\b, (x), 1) item :-(, [0, 1) between other elements); the glyph-coverage sweep (576 documents: a text of which the embedded TrueType / CFF font covers no character (U+4E2D U+6587, only .notdef shown) or only a part, horizontal and vertical, alone / next to another font / before or after a covered text in the same font on the same or another page, x 4 option sets); the metadata sweep; RandomSubset programs over the full alphabet); every scenario is executed on the real pdf writer, its bytes are parsed by the independent reader and the record is validated by Trace_PDFDoc.tla; non-trivial = at least two different kinds of call (a second page counts), or a single-call document of the metadata sweep whose title has non-ASCII / CR / parenthesis / backslash characters; distinct by (options, program, profile, infoAt)"
	c.Assumptions = []string{
		"the independent reader (oracle/pdfread.go) implements the classic file structure of ISO 32000-1 (one xref table, no object streams); Flate/ASCII85/ASCIIHex are decoded, DCT is verified with image/jpeg, any other filter counts as 'unsupported' and is never a failure",
		"font programs, image samples and colour values are not inspected here (C18 / C12); only the file structure, resources, operator syntax and metadata",
		"the comparison of what each call wrote with the protocol model ('layout') is informational: the property only demands validity",
	}

	restore := filterStdout(c)
	defer restore()

	// 1. model level: the protocol machine and its invariants
	c.TLC(tlc.Opts{Module: "PDFDoc", Config: genCfg(c.Pick(3, 4), "mc", "small", 0, true), Coverage: c.Thorough()}, true)

	// 2. + 3. scenarios from TLC -> real writer -> reader -> Trace_PDFDoc
	var nDocs, nNontrivial, nLayout, nValidated int64
	seen := sync.Map{}
	sem := make(chan struct{}, 4) // concurrent Trace_PDFDoc processes
	run := func(o tlc.Opts) {
		jobs := make(chan job, 1024)
		outs := make(chan done, 1024)
		var id int64
		o.OnLine = func(p []byte) {
			var s Scenario
			if err := json.Unmarshal(p, &s); err != nil {
				c.Broken("bad scenario line: " + err.Error() + ": " + string(p[:min(len(p), 200)]))
				return
			}
			jobs <- job{int(atomic.AddInt64(&id, 1)), &s}
		}
		var wgExec sync.WaitGroup
		for w := 0; w < 6; w++ {
			wgExec.Add(1)
			go func() {
				defer wgExec.Done()
				for j := range jobs {
					r, ms := executeGuarded(j.s)
					n := atomic.AddInt64(&nDocs, 1)
					if n%20000 == 1 {
						c.Sample(j.s)
					}
					if nontrivial(j.s) {
						if _, dup := seen.LoadOrStore(j.s.key(), true); !dup {
							atomic.AddInt64(&nNontrivial, 1)
						}
					}
					if len(ms) > 0 || r == nil {
						c.Report(j.s, ms)
						continue
					}
					tr, doc := traceOf(j.id, j.s, r)
					outs <- done{j.id, j.s, tr, doc}
				}
			}()
		}
		// chunked validation, a few TLC processes at a time
		var wgVal sync.WaitGroup
		flush := func(chunk []done) {
			if len(chunk) == 0 {
				return
			}
			wgVal.Add(1)
			sem <- struct{}{}
			go func() {
				defer wgVal.Done()
				defer func() { <-sem }()
				var buf bytes.Buffer
				events := 0
				byID := map[int]done{}
				for _, dn := range chunk {
					buf.Write(dn.trace)
					events += len(dn.s.Prog) + 2
					byID[dn.id] = dn
				}
				fails, layout, ok := validate(c, buf.Bytes(), events)
				if !ok {
					return
				}
				atomic.AddInt64(&nValidated, int64(len(chunk)))
				atomic.AddInt64(&nLayout, int64(len(layout)))
				for id, note := range layout {
					c.SetExtra("layout_disagreement_example", fmt.Sprintf("%s: %s", progString(byID[id].s.Prog), note))
				}
				for id, sigs := range fails {
					dn := byID[id]
					var ms []core.Mismatch
					for _, sig := range sigs {
						ms = append(ms, core.Mismatch{Signature: sig, Detail: detail(sig, dn.s, dn.doc)})
					}
					c.Report(dn.s, ms)
				}
			}()
		}
		collectDone := make(chan struct{})
		go func() {
			var chunk []done
			for dn := range outs {
				chunk = append(chunk, dn)
				if len(chunk) >= 1500 {
					flush(chunk)
					chunk = nil
				}
			}
			flush(chunk)
			close(collectDone)
		}()
		c.TLC(o, true)
		close(jobs)
		wgExec.Wait()
		close(outs)
		<-collectDone
		wgVal.Wait()
	}
	// exhaustive: every canonical program of up to 2 calls x compress x subset; up to 3 calls with the default options
	// (quick) or all four option sets (thorough); the generation runs overlap
	var wgRuns sync.WaitGroup
	goRun := func(o tlc.Opts) {
		wgRuns.Add(1)
		go func() {
			defer wgRuns.Done()
			o.Timeout = 40 * time.Minute // the generator is throttled by the executing workers: its wall time is the pipeline's
			run(o)
		}()
	}
	if c.Thorough() {
		goRun(tlc.Opts{Module: "PDFDoc", Workers: 6, Config: genCfg(3, "all", "small", 0, false)})
	} else {
		goRun(tlc.Opts{Module: "PDFDoc", Workers: 4, Config: genCfg(2, "all", "small", 0, false)})
		goRun(tlc.Opts{Module: "PDFDoc", Workers: 4, Config: genCfg(3, "all1", "small", 0, false)})
	}
	// huge coordinates: non-integral numbers beyond the 32-bit range in content streams, matrices, rectangles, MediaBox
	goRun(tlc.Opts{Module: "PDFDoc", Workers: 2, Config: genCfg(3, "far", "small", 0, false)})
	// text in a standard (not embedded, WinAnsi) font with parentheses / backslash in the shown strings
	goRun(tlc.Opts{Module: "PDFDoc", Workers: 2, Config: genCfg(3, "std", "small", 0, false)})
	// glyph coverage: texts of which the selected embedded font covers nothing / a part (only .notdef is shown with that font)
	goRun(tlc.Opts{Module: "PDFDoc", Workers: 2, Config: genCfg(3, "cover", "small", 0, false)})
	// metadata sweep: classes of text x fields x Lang x SetInfo before/after drawing
	goRun(tlc.Opts{Module: "PDFDoc", Workers: 4, Config: genCfg(1, "info", "small", c.Pick(0, 1), false)}) // NRand # 0: with and without compression
	// random programs over the full alphabet with random metadata profiles
	goRun(tlc.Opts{Module: "PDFDoc", Workers: 4, Config: genCfg(c.Pick(8, 12), "random", "full", c.Pick(200, 2000), false), Seed: c.Seed})
	if c.Thorough() {
		goRun(tlc.Opts{Module: "PDFDoc", Workers: 4, Config: genCfg(5, "random", "small", 1000, false), Seed: c.Seed + 1000})
	}
	wgRuns.Wait()
	c.Count(nDocs, nNontrivial, nValidated)
	c.SetExtra("documents", nDocs)
	c.SetExtra("layout_disagreements", nLayout)
	if nLayout > 0 {
		fmt.Printf("NOTE: C13 protocol model and file layout disagree for %d documents (informational, see evidence)\n", nLayout)
	}
	if nDocs == 0 {
		c.Broken("no scenarios were generated")
	}
	return nil
}
