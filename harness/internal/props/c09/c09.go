// Package c09: Length, SplitAt and Reverse are consistent views of the same curve (spec/Measure.tla).
//
// model level: Measure.tla is a register machine (one register holding an abstract lattice curve path, action
// Reverse) whose invariants state the property of the model: Reverse is an involution on the abstract command list,
// keeps closedness, way-points (reversed) and the length bracket, negates the winding number at every decided
// sample point; the SplitAt expectation conserves edges and is consecutive; the length brackets are tight.
//
// spec -> code: TLC prints scenarios (Pythagorean polylines with cut positions in half units; curve paths of lines,
// arcs of integer ellipses, quadratic and cubic Beziers; circle arcs given by their end points) together with every
// expected observation computed in integers: the bracket of the true length, the pieces SplitAt must return, the
// ordered way-points, the reversed path, its way-points and winding numbers. The driver builds the path through the
// public builder under similarity embeddings, calls Length / SplitAt / Reverse of the real library and compares,
// using only the independent evaluators of package oracle on Path.Data().
package c09

import (
	"encoding/json"
	"fmt"
	"math"
	"sort"
	"strings"
	"sync"
	"sync/atomic"
	"time"

	"github.com/tdewolff/canvas"

	"verif/harness/internal/core"
	"verif/harness/internal/latcurve"
	"verif/harness/internal/latgeo"
	"verif/harness/internal/oracle"
	"verif/harness/internal/tlc"
)

type Driver struct{}

func (Driver) ID() string { return "C09" }

// Rat is a rational point <<x, y, den>>.
type Rat [3]int

// Frag is a fragment of an expected piece: the part of contour J (1-based) the piece covers.
type Frag struct {
	J   int   `json:"j"`
	Pts []Rat `json:"pts"`
}

type famRec struct {
	Rad [2]int `json:"rad"`
	Rot int    `json:"rot"`
}

// Line is one line printed by Measure.tla (header or scenario).
type Line struct {
	Hdr  bool       `json:"hdr,omitempty"`
	Fams []famRec   `json:"fams,omitempty"`
	Ring [][][2]int `json:"ring,omitempty"`
	Gaps [][][2]int `json:"gaps,omitempty"`
	Scen
}

// Scen is the specification's part of a scenario.
type Scen struct {
	Mode   string        `json:"mode"`
	Seed   int64         `json:"seed"`
	Path   latcurve.Path `json:"path"`
	Ak     int           `json:"ak"` // > 0: arcs are end-point circle arcs of Ak*30 degrees
	Ld     int           `json:"ld"`
	Br     [2]int        `json:"br"`   // bracket of the true length, units 1/Ld
	Segs   [][][3]int    `json:"segs"` // per contour, per segment: lo, hi, feature bits
	Way    [][]Rat       `json:"way"`
	Rev    latcurve.Path `json:"rev"`
	RevWay [][]Rat       `json:"revway"`
	Rows   [][]int       `json:"rows"` // x, y (scale 2), winding of path, winding of rev
	Cuts   []int         `json:"cuts"` // pyth: cut positions in half units
	Total2 int           `json:"total2"`
	Pieces [][]Frag      `json:"pieces"`
	Fr     []int         `json:"fr"`   // curves: cut positions in sixteenths of Length()
	Tips   [][2]int      `json:"tips"` // LineReversal: the vertices at which consecutive straight edges (closing edge included) reverse direction
}

// Scenario is the replay unit: the specification's scenario under one embedding; Only restricts to one check.
type Scenario struct {
	Scen
	Emb  latgeo.Emb `json:"emb"`
	Only string     `json:"only,omitempty"` // "" | length | splitat | reverse
}

const (
	fEcc    = 1
	fChordH = 2
	fChordV = 4
	fChordP = 8
	fTurn   = 16
	band    = 0.015 // acceptance band for "about one percent"
)

// embeddings: similarities only (metric property). axis: +1 the x axis keeps its direction (up to sign), -1 the
// lattice y axis becomes the x axis, 2 the lattice direction (4,-3) becomes the x axis, 0 none of these.
type embInfo struct {
	e    latgeo.Emb
	axis int
}

var embs = []embInfo{
	{latgeo.Identity, 1},
	{latgeo.Emb{Name: "flipy", A: 1, B: 0, C: 0, D: -1, E: 0, F: 0}, 1},
	{latgeo.Translate, 1},
	{latgeo.Emb{Name: "half", A: 0.5, B: 0, C: 0, D: 0.5, E: 0, F: 0}, 1},
	{latgeo.Emb{Name: "rot90", A: 0, B: -1, C: 1, D: 0, E: 0, F: 0}, -1},
	{latgeo.Tiny, 1},
	{latgeo.Huge, 1},
	{latgeo.Pyth, 2},
	{latgeo.Rot17, 0},
}

func embByName(n string) (embInfo, bool) {
	for _, e := range embs {
		if e.e.Name == n {
			return e, true
		}
	}
	return embInfo{}, false
}

type ctxInfo struct {
	s     *Scenario
	ei    embInfo
	sc    float64 // length scale of the embedding
	sgn   int     // orientation of the embedding
	size  float64 // extent of the embedded path (for tolerances)
	multi bool
}

func (x *ctxInfo) pt(r Rat) oracle.Pt {
	a, b := x.s.Emb.Map(float64(r[0])/float64(r[2]), float64(r[1])/float64(r[2]))
	return oracle.Pt{X: a, Y: b}
}

func (s *Scenario) desc() string {
	d := fmt.Sprintf("path %s (kinds %s, mode %s, seed %d) emb=%s", s.Path.SVG(), s.Path.Kinds(), s.Mode, s.Seed, s.Emb.Name)
	if s.Ak > 0 {
		d += fmt.Sprintf(" [arcs are circle arcs of %d degrees given by their end points]", s.Ak*30)
	}
	return d
}

// applicable feature bits of a segment under the embedding
func (x *ctxInfo) feat(bits int) int {
	f := bits & (fEcc | fTurn)
	if x.ei.axis == 1 && bits&fChordH != 0 {
		f |= fChordH
	}
	if x.ei.axis == -1 && bits&fChordV != 0 {
		f |= fChordH
	}
	if x.ei.axis == 2 && bits&fChordP != 0 {
		f |= fChordH
	}
	return f
}

func (x *ctxInfo) pathFeat() int {
	f := 0
	for _, c := range x.s.Segs {
		for _, g := range c {
			f |= x.feat(g[2])
		}
	}
	return f
}

func featTag(f int) string {
	switch {
	case f&fChordH != 0:
		return "arc-chord-eq-rx"
	case f&fEcc != 0:
		return "ecc-large-arc"
	case f&fTurn != 0:
		return "bezier-turns-back"
	}
	return ""
}

func devClass(rel float64) string {
	a := math.Abs(rel)
	switch {
	case a <= 0.06:
		return "off<=6%"
	case a <= 0.25:
		return "off<=25%"
	}
	return "off>25%"
}

func guardF(f func() float64) (v float64, pm any) {
	ok, m := latgeo.Try(func() { v = f() })
	if !ok {
		return 0, m
	}
	return v, nil
}

func segStart(c latcurve.Contour, i int) [2]int {
	if i == 0 {
		return c.S
	}
	return c.Segs[i-1].P
}

func kindLetter(g latcurve.Seg) string {
	if g.K == "A" && g.C2[0] != g.C2[1] {
		return "E"
	}
	return g.K
}

// ---------------------------------------------------------------------------------------------- Length

type lenStat struct {
	kind string
	rel  float64 // signed deviation from the nearest bracket end, relative
}

func relDev(l, lo, hi float64) float64 {
	switch {
	case l < lo:
		return (l - lo) / lo
	case l > hi:
		return (l - hi) / hi
	}
	return 0
}

func (x *ctxInfo) checkLength(p *canvas.Path, add func(sig, detail string), stat func(lenStat)) (length float64, ok bool) {
	s := x.s
	l, pm := guardF(p.Length)
	if pm != nil {
		add("length:panic("+latgeo.PanicClass(pm)+")", fmt.Sprintf("Length panics: %v; %s", pm, s.desc()))
		return 0, false
	}
	ld := float64(s.Ld)
	lo, hi := float64(s.Br[0])/ld*x.sc, float64(s.Br[1])/ld*x.sc
	rel := relDev(l, lo, hi)
	if stat != nil {
		stat(lenStat{s.Path.Kinds(), rel})
	}
	if !math.IsNaN(l) && l >= lo*(1-band) && l <= hi*(1+band) {
		return l, true
	}
	// attribute the deviation to segments: Length of the one-segment path of every segment against its own bracket
	devFeat, devKinds, nDev, halfTurn := 0, map[string]bool{}, 0, true
	var worst string
	for j, c := range s.Path {
		for i, g := range c.Segs {
			one := latcurve.Path{{S: segStart(c, i), Segs: []latcurve.Seg{g}}}
			q := latcurve.Build(one, s.Emb, 1)
			ql, pm := guardF(q.Length)
			b := s.Segs[j][i]
			slo, shi := float64(b[0])/ld*x.sc, float64(b[1])/ld*x.sc
			if pm == nil && ql >= slo*(1-band) && ql <= shi*(1+band) {
				continue
			}
			nDev++
			sf := x.feat(b[2])
			if g.K != "C" {
				sf &^= fTurn // the length of a quadratic is a closed formula; TurnsBack matters for cubics (quadrature near a cusp)
			}
			devFeat |= sf
			devKinds[kindLetter(g)] = true
			if sf == 0 {
				devFeat |= 1 << 10 // a deviating segment without any feature
			}
			// deviation pattern of the arc-centre shortcut: the arc is measured as half a turn on the chord as diameter
			half := math.Pi * float64(g.C2[0]) * x.sc
			if !(g.K == "A" && g.C2[0] == g.C2[1] && math.Abs(ql-half) <= 1e-4*half) {
				halfTurn = false
			}
			worst = fmt.Sprintf("segment %d of contour %d (%s): Length %.9g, true length in [%.9g, %.9g]", i+1, j+1, kindLetter(g), ql, slo, shi)
		}
	}
	tag := ""
	switch {
	case nDev == 0:
		tag = "sum-only"
	case devFeat&(1<<10) != 0:
		ks := []string{}
		for k := range devKinds {
			ks = append(ks, k)
		}
		sort.Strings(ks)
		tag = "seg-" + strings.Join(ks, "")
	default:
		tag = featTag(devFeat)
	}
	dev := devClass(rel)
	if tag == "arc-chord-eq-rx" {
		if halfTurn {
			dev = "half-turn-on-chord"
		} else {
			dev = "wrong"
		}
	}
	add("length:"+dev+"+"+tag, fmt.Sprintf("Length = %.9g, true arc length in [%.9g, %.9g] (deviation %+.2f %%, band %.1f %%); %s; %s", l, lo, hi, 100*rel, 100*band, worst, s.desc()))
	return l, false
}

// ---------------------------------------------------------------------------------------------- decoding pieces

// fragments of a decoded path: one polyline (fine flattening for curves) per sub-path that draws something
type rfrag struct {
	pts    []oracle.Pt
	curved bool
}

func fragsOf(d []float64, n int) ([]rfrag, error) {
	segs, err := oracle.Decode(d)
	if err != nil {
		return nil, err
	}
	var out []rfrag
	var cur *rfrag
	for _, sg := range segs {
		if sg.Cmd == oracle.CmdMove {
			out = append(out, rfrag{pts: []oracle.Pt{sg.End}})
			cur = &out[len(out)-1]
			continue
		}
		if cur == nil {
			out = append(out, rfrag{pts: []oracle.Pt{sg.Start}})
			cur = &out[len(out)-1]
		}
		pl := sg.Polyline(n)
		cur.pts = append(cur.pts, pl[1:]...)
		if sg.Cmd != oracle.CmdLine && sg.Cmd != oracle.CmdClose {
			cur.curved = true
		}
		if sg.Cmd == oracle.CmdClose {
			cur = nil
		}
	}
	return out, nil
}

// normPoly removes repeated points and interior points that lie (within tol) on the straight way from their
// predecessor to their successor (forward collinear); a polyline of less than two points is dropped (nil).
func normPoly(pts []oracle.Pt, tol float64) []oracle.Pt {
	var a []oracle.Pt
	for _, p := range pts {
		if len(a) > 0 && p.Sub(a[len(a)-1]).Len() <= tol {
			continue
		}
		a = append(a, p)
	}
	for changed := true; changed; {
		changed = false
		for i := 1; i+1 < len(a); i++ {
			u, v := a[i].Sub(a[i-1]), a[i+1].Sub(a[i])
			if u.Dot(v) > 0 && oracle.DistSeg(a[i], a[i-1], a[i+1]) <= tol {
				a = append(a[:i], a[i+1:]...)
				changed = true
				break
			}
		}
	}
	if len(a) < 2 {
		return nil
	}
	return a
}

func polyStr(p []oracle.Pt) string {
	var b strings.Builder
	for i, q := range p {
		if i > 0 {
			b.WriteString(" ")
		}
		fmt.Fprintf(&b, "(%.6g,%.6g)", q.X, q.Y)
	}
	return b.String()
}

func samePoly(a, b []oracle.Pt, tol float64) bool {
	if len(a) != len(b) {
		return false
	}
	for i := range a {
		if a[i].Sub(b[i]).Len() > tol {
			return false
		}
	}
	return true
}

func splitCall(p *canvas.Path, ts []float64) (ps []*canvas.Path, pm any) {
	kind, msg := latgeo.Guard(20*time.Second, func() { ps = p.SplitAt(append([]float64(nil), ts...)...) })
	if kind != "" {
		return nil, kind + ": " + fmt.Sprint(msg)
	}
	return ps, nil
}

// boundariesAwayFromCuts counts the boundaries between consecutive sub-paths of p (arc length measured by the
// independent evaluator) that are farther than tol from every cut position.
func (x *ctxInfo) boundariesAwayFromCuts(p *canvas.Path, ts []float64, tol float64) int {
	segs, err := oracle.Decode(p.Data())
	if err != nil {
		return 0
	}
	nsub := 0
	for _, sg := range segs {
		if sg.Sub+1 > nsub {
			nsub = sg.Sub + 1
		}
	}
	n, cum := 0, 0.0
	for j := 0; j+1 < nsub; j++ {
		var sub []oracle.Seg
		for _, sg := range segs {
			if sg.Sub == j {
				sub = append(sub, sg)
			}
		}
		cum += oracle.RefinedLength(sub, fine/2)
		away := true
		for _, t := range ts {
			if math.Abs(t-cum) <= tol {
				away = false
			}
		}
		if away {
			n++
		}
	}
	return n
}

func countMoves(ps []*canvas.Path) (moves int) {
	for _, q := range ps {
		segs, _ := oracle.Decode(q.Data())
		for _, sg := range segs {
			if sg.Cmd == oracle.CmdMove {
				moves++
			}
		}
	}
	return
}

// tipMissing reports a spike tip of the scenario (a vertex at which two consecutive straight edges reverse direction)
// that is farther than tol from every returned piece.
func (x *ctxInfo) tipMissing(pieces [][][]oracle.Pt, tol float64) (oracle.Pt, bool) {
	for _, t := range x.s.Tips {
		tp := x.pt(Rat{t[0], t[1], 1})
		near := false
		for _, pc := range pieces {
			for _, f := range pc {
				if oracle.Dist([]oracle.Contour{{Pts: f}}, tp, false) <= tol {
					near = true
				}
			}
		}
		if !near {
			return tp, true
		}
	}
	return oracle.Pt{}, false
}

// ---------------------------------------------------------------------------------------------- SplitAt, polylines

func (x *ctxInfo) checkSplitPoly(p *canvas.Path, length float64, lengthOK bool, add func(sig, detail string)) {
	s := x.s
	ts := make([]float64, len(s.Cuts))
	for i, u := range s.Cuts {
		ts[i] = float64(u) / 2 * x.sc
	}
	tol := 1e-9 * (x.size + 1e-300)
	ps, pm := splitCall(p, ts)
	tag := ""
	if x.multi {
		tag = "+multi-subpath"
	}
	where := fmt.Sprintf("SplitAt(%v) [half units %v of total %d]; %s", ts, s.Cuts, s.Total2, s.desc())
	if pm != nil {
		add("splitat:panic("+latgeo.PanicClass(pm)+")"+tag, fmt.Sprintf("SplitAt panics: %v; %s", pm, where))
		return
	}
	// real pieces -> normalised fragments (empty pieces dropped)
	var real [][][]oracle.Pt
	sum := 0.0
	for _, q := range ps {
		fr, err := fragsOf(q.Data(), 1)
		if err != nil {
			add("splitat:undecodable"+tag, err.Error()+"; "+where)
			return
		}
		var piece [][]oracle.Pt
		for _, f := range fr {
			if f.curved {
				add("splitat:curve-in-polyline"+tag, "a piece of a polyline contains a curved segment; "+where)
				return
			}
			if n := normPoly(f.pts, tol); n != nil {
				piece = append(piece, n)
			}
		}
		if piece != nil {
			real = append(real, piece)
		}
		l, pm := guardF(q.Length)
		if pm != nil {
			add("splitat:panic("+latgeo.PanicClass(pm)+")"+tag, fmt.Sprintf("Length of a piece panics: %v; %s", pm, where))
			return
		}
		sum += l
	}
	var exp [][][]oracle.Pt
	for _, pc := range s.Pieces {
		var piece [][]oracle.Pt
		for _, f := range pc {
			pts := make([]oracle.Pt, len(f.Pts))
			for i, r := range f.Pts {
				pts[i] = x.pt(r)
			}
			if n := normPoly(pts, tol); n != nil {
				piece = append(piece, n)
			}
		}
		if piece != nil {
			exp = append(exp, piece)
		}
	}
	show := func(pcs [][][]oracle.Pt) string {
		var b strings.Builder
		for i, pc := range pcs {
			if i > 0 {
				b.WriteString(" | ")
			}
			for j, f := range pc {
				if j > 0 {
					b.WriteString(" + ")
				}
				b.WriteString(polyStr(f))
			}
		}
		return b.String()
	}
	differ := len(real) != len(exp)
	for i := 0; !differ && i < len(exp); i++ {
		if len(real[i]) != len(exp[i]) {
			differ = true
			break
		}
		for j := range exp[i] {
			if !samePoly(real[i][j], exp[i][j], tol) {
				differ = true
			}
		}
	}
	if differ {
		dev := "pieces-differ"
		if x.multi && countMoves(ps) == len(ps) {
			dev = "subpath-moveto-missing" // no piece ever starts a second sub-path: the MoveTo of the sub-paths after the first is never emitted
		} else if tip, missing := x.tipMissing(real, 1e3*tol); missing {
			dev, tag = "spike-tip-missing", "+line-reversal" // a vertex at which the path reverses direction is on no returned piece
			where = fmt.Sprintf("tip (%g,%g); %s", tip.X, tip.Y, where)
		} else if len(real) != len(exp) {
			dev = "piece-count"
		}
		add("splitat:"+dev+tag, fmt.Sprintf("pieces returned: %s ; pieces required: %s ; %s", show(real), show(exp), where))
		return
	}
	if lengthOK && math.Abs(sum-length) > 1e-9*(length+1e-300) {
		add("splitat:length-sum"+tag, fmt.Sprintf("lengths of the pieces sum to %.12g, Length() = %.12g; %s", sum, length, where))
	}
}

// ---------------------------------------------------------------------------------------------- way-points on curves

// wayOnCurve checks that the way-points lie on the polyline in this order: greedily, every way-point is assigned the
// earliest position at or after its predecessor's at which the polyline is within tol of it. Returns "" or a description.
func wayOnCurve(cv *oracle.Curve, way []oracle.Pt, tol float64) string {
	n := len(cv.Pts) - 1
	if n < 1 {
		return "the trace is empty"
	}
	edge, prev := 0, 0.0 // current edge, arc length reached
	for k, w := range way {
		found := false
		for i := edge; i < n && !found; i++ {
			a, b := cv.Pts[i], cv.Pts[i+1]
			l := cv.Cum[i+1] - cv.Cum[i]
			t0 := 0.0
			if l > 0 && prev > cv.Cum[i] {
				t0 = math.Min(1, (prev-cv.Cum[i])/l)
			}
			// |a + t d - w|^2 <= tol^2 on [t0, 1]
			d, e := b.Sub(a), a.Sub(w)
			A, B, C := d.Dot(d), 2*d.Dot(e), e.Dot(e)-tol*tol
			t := -1.0
			if A == 0 {
				if C <= 0 {
					t = t0
				}
			} else if disc := B*B - 4*A*C; disc >= 0 {
				sq := math.Sqrt(disc)
				t1, t2 := (-B-sq)/(2*A), (-B+sq)/(2*A)
				if lo := math.Max(t0, t1); lo <= math.Min(1, t2) {
					t = lo
				}
			}
			if t >= 0 {
				edge, prev, found = i, cv.Cum[i]+t*l, true
			}
		}
		if !found {
			if oracle.Dist([]oracle.Contour{{Pts: cv.Pts}}, w, false) > tol {
				return fmt.Sprintf("way-point %d (%.9g,%.9g) is not on the trace (distance > %.3g)", k+1, w.X, w.Y, tol)
			}
			return fmt.Sprintf("way-point %d (%.9g,%.9g) is not passed after way-point %d (reached at arc length %.6g): way-points out of order", k+1, w.X, w.Y, k, prev)
		}
	}
	return ""
}

const fine = 2048 // chords per curved segment for way-point and length measurements

// ---------------------------------------------------------------------------------------------- SplitAt, curves

func (x *ctxInfo) checkSplitCurves(p *canvas.Path, length float64, lengthOK bool, add func(sig, detail string)) {
	s := x.s
	if !lengthOK || !(length > 0) {
		return // positions are fractions of Length(); a wrong Length is reported by the length check
	}
	ts := make([]float64, len(s.Fr))
	for i, f := range s.Fr {
		ts[i] = float64(f) / 16 * length
	}
	x.checkSplitPositions(p, ts, fmt.Sprintf("sixteenths %v of Length() = %.9g", s.Fr, length), length, add)
}

// checkSplitJoints cuts the path EXACTLY at a joint between two segments of its first sub-path - the position is the
// library's own Length() of the head of the path up to that joint (the same summation SplitAt performs) - and once more
// half way through the rest. Both positions lie strictly inside (0, Length), so three consecutive pieces are due.
func (x *ctxInfo) checkSplitJoints(p *canvas.Path, length float64, lengthOK bool, add func(sig, detail string)) {
	s := x.s
	if !lengthOK || !(length > 0) || len(s.Path) == 0 {
		return
	}
	c0 := s.Path[0]
	for i := 1; i < len(c0.Segs) || (i == len(c0.Segs) && (len(s.Path) > 1 || c0.Cl)); i++ {
		headAbs := latcurve.Path{latcurve.Contour{S: c0.S, Segs: c0.Segs[:i]}}
		head := latcurve.Build(headAbs, s.Emb, 1)
		if ok, _ := latcurve.Faithful(headAbs, head, s.Emb, 1); !ok {
			continue
		}
		t1, pm := guardF(head.Length)
		if pm != nil || !(t1 > band*length) || !(t1 < length*(1-2*band)) {
			continue
		}
		// the builder may merge the joint away (collinear lines): only a joint that is a command boundary of p counts
		if !dataPrefix(head.Data(), p.Data()) {
			continue
		}
		t2 := t1 + (length-t1)/2
		x.checkSplitPositions(p, []float64{t1, t2}, fmt.Sprintf("joint after segment %d at the head's own Length() and half way through the rest, Length() = %.9g", i, length), length, add)
	}
}

// dataPrefix: the commands of head are the first commands of p (bit-identical numbers).
func dataPrefix(head, p []float64) bool {
	if len(head) > len(p) {
		return false
	}
	for i := range head {
		if head[i] != p[i] {
			return false
		}
	}
	return true
}

func (x *ctxInfo) checkSplitPositions(p *canvas.Path, ts []float64, note string, length float64, add func(sig, detail string)) {
	s := x.s
	pf := x.pathFeat()
	tag := ""
	if t := featTag(pf); t != "" {
		tag = "+" + t
	} else if x.multi {
		tag = "+multi-subpath"
	}
	where := fmt.Sprintf("SplitAt(%v) [%s]; %s", ts, note, s.desc())
	ps, pm := splitCall(p, ts)
	if pm != nil {
		if x.multi {
			tag = "+multi-subpath"
		}
		add("splitat:panic("+latgeo.PanicClass(pm)+")"+tag, fmt.Sprintf("SplitAt panics: %v; %s", pm, where))
		return
	}
	// Every sub-path boundary that does not coincide with a cut must show up as a further MoveTo inside a piece. A cut
	// within the length band of a boundary may legitimately be placed on it (then the next piece simply starts with the
	// sub-path's MoveTo), so such boundaries are not demanded.
	if x.multi && countMoves(ps) < len(ps)+x.boundariesAwayFromCuts(p, ts, band*length) {
		add("splitat:subpath-moveto-missing+multi-subpath", fmt.Sprintf("%d pieces with %d MoveTo commands in total although the path has %d sub-paths whose boundaries are not cut positions; %s", len(ps), countMoves(ps), len(s.Path), where))
		return
	}
	tolP := 1e-9 * x.size
	tolW := 1e-5 * x.size
	// pieces: fragments, true lengths
	sorted := append([]float64(nil), ts...)
	sort.Float64s(sorted)
	type piece struct {
		fr   []rfrag
		tlen float64
	}
	var pcs []piece
	sum := 0.0
	for _, q := range ps {
		segs, err := oracle.Decode(q.Data())
		if err != nil {
			add("splitat:undecodable"+tag, err.Error()+"; "+where)
			return
		}
		fr, _ := fragsOf(q.Data(), fine)
		var keep []rfrag
		for _, f := range fr {
			if len(f.pts) >= 2 {
				keep = append(keep, f)
			}
		}
		l, pm := guardF(q.Length)
		if pm != nil {
			add("splitat:panic("+latgeo.PanicClass(pm)+")"+tag, fmt.Sprintf("Length of a piece panics: %v; %s", pm, where))
			return
		}
		sum += l
		if keep == nil {
			continue
		}
		pcs = append(pcs, piece{keep, oracle.RefinedLength(segs, fine/2)})
	}
	if len(s.Tips) > 0 {
		var all [][][]oracle.Pt
		for _, pc := range pcs {
			var fs [][]oracle.Pt
			for _, f := range pc.fr {
				fs = append(fs, f.pts)
			}
			all = append(all, fs)
		}
		if tip, missing := x.tipMissing(all, tolW); missing {
			add("splitat:spike-tip-missing+line-reversal", fmt.Sprintf("the vertex (%g,%g) at which the path reverses direction is on no returned piece; %s", tip.X, tip.Y, where))
			return
		}
	}
	if len(pcs) != len(ts)+1 {
		add("splitat:piece-count"+tag, fmt.Sprintf("%d non-empty pieces for %d distinct positions strictly inside (0, Length); %s", len(pcs), len(ts), where))
		return
	}
	// lengths of the pieces sum to the length of the path: Length() of the whole and the Length() of the pieces are both
	// approximations (about one percent) of true lengths, so the sum is demanded in the same acceptance band around the
	// specification's bracket of the true length as Length() itself
	ld := float64(s.Ld)
	lo, hi := float64(s.Br[0])/ld*x.sc, float64(s.Br[1])/ld*x.sc
	if !(sum >= lo*(1-band) && sum <= hi*(1+band)) {
		add("splitat:length-sum"+tag, fmt.Sprintf("Length() of the pieces sum to %.9g, true length of the path in [%.9g, %.9g] (%+.2f %%), Length() of the path = %.9g; %s", sum, lo, hi, 100*relDev(sum, lo, hi), length, where))
	}
	// cut points at the prescribed arc lengths: piece k (not the last) is as long as its two positions are apart; the last
	// piece ends where the path ends: it is as long as the TRUE length of the path (independent evaluator) minus the
	// last position (Length() itself is only accurate to about one percent, so Length() - t_n is not demanded)
	trueLen := 0.0
	if osegs, err := oracle.Decode(p.Data()); err == nil {
		trueLen = oracle.RefinedLength(osegs, fine/2)
	}
	prev := 0.0
	for k, pc := range pcs {
		next := trueLen
		if k < len(sorted) {
			next = sorted[k]
		}
		want := next - prev
		prev = next
		if math.Abs(pc.tlen-want) > band*length {
			dev := "piece-length"
			if math.Abs(pc.tlen-want) > 0.06*length {
				dev = "piece-length-gross"
			}
			add("splitat:"+dev+tag, fmt.Sprintf("piece %d has arc length %.9g, required %.9g (difference %+.2f %% of Length(); true length of the path %.9g); %s", k+1, pc.tlen, want, 100*(pc.tlen-want)/length, trueLen, where))
			break
		}
	}
	// concatenation: join fragments that continue each other; the result must be the sub-paths in order
	var curves [][]oracle.Pt
	for _, pc := range pcs {
		for _, f := range pc.fr {
			if n := len(curves); n > 0 && curves[n-1][len(curves[n-1])-1].Sub(f.pts[0]).Len() <= tolP {
				curves[n-1] = append(curves[n-1], f.pts[1:]...)
			} else {
				curves = append(curves, append([]oracle.Pt(nil), f.pts...))
			}
		}
	}
	// two consecutive sub-paths whose end and start coincide are joined by the rule above: split them again by count
	if len(curves) != len(s.Way) {
		// tolerate coinciding end/start of consecutive sub-paths: compare against the whole way-point list in sequence
		if len(curves) > len(s.Way) {
			add("splitat:not-consecutive"+tag, fmt.Sprintf("the pieces form %d separate traces, the path has %d sub-paths (a piece does not start where the previous one ends); %s", len(curves), len(s.Way), where))
			return
		}
		var all []oracle.Pt
		for _, c := range curves {
			all = append(all, c...)
		}
		curves = [][]oracle.Pt{all}
		var way []oracle.Pt
		for _, w := range s.Way {
			for _, r := range w {
				way = append(way, x.pt(r))
			}
		}
		if msg := wayOnCurve(oracle.NewCurve(oracle.Contour{Pts: all}), way, tolW); msg != "" {
			add("splitat:way-points"+tag, msg+"; "+where)
		}
		return
	}
	for j, c := range curves {
		way := make([]oracle.Pt, len(s.Way[j]))
		for i, r := range s.Way[j] {
			way[i] = x.pt(r)
		}
		if msg := wayOnCurve(oracle.NewCurve(oracle.Contour{Pts: c}), way, tolW); msg != "" {
			add("splitat:way-points"+tag, fmt.Sprintf("sub-path %d: %s; %s", j+1, msg, where))
			return
		}
	}
}

// ---------------------------------------------------------------------------------------------- Reverse

type subInfo struct {
	pts    []oracle.Pt
	closed bool
}

func subsOf(d []float64, n int) ([]subInfo, error) {
	segs, err := oracle.Decode(d)
	if err != nil {
		return nil, err
	}
	var out []subInfo
	for _, c := range oracle.Flatten(segs, n) {
		pts := c.Pts
		if c.Closed && len(pts) > 0 && pts[len(pts)-1] != pts[0] {
			pts = append(append([]oracle.Pt(nil), pts...), pts[0])
		}
		out = append(out, subInfo{pts, c.Closed})
	}
	return out, nil
}

func sameData(a, b []float64, tol float64) bool {
	if len(a) != len(b) {
		return false
	}
	for i := range a {
		if a[i] != b[i] && !(math.Abs(a[i]-b[i]) <= tol) {
			return false
		}
	}
	return true
}

func (x *ctxInfo) checkReverse(p *canvas.Path, length float64, lengthOK bool, add func(sig, detail string)) {
	s := x.s
	var rp, rrp *canvas.Path
	if ok, pm := latgeo.Try(func() { rp = p.Reverse() }); !ok {
		add("reverse:panic("+latgeo.PanicClass(pm)+")", fmt.Sprintf("Reverse panics: %v; %s", pm, s.desc()))
		return
	}
	if ok, pm := latgeo.Try(func() { rrp = rp.Reverse() }); !ok {
		add("reverse:panic("+latgeo.PanicClass(pm)+")", fmt.Sprintf("Reverse of the reversed path panics: %v; %s", pm, s.desc()))
		return
	}
	tolP := 1e-9 * x.size
	where := fmt.Sprintf("Reverse() = %s; %s", rp.String(), s.desc())
	// involution: the command stream of Reverse(Reverse(p)) is that of p
	if !sameData(rrp.Data(), p.Data(), tolP) {
		add("reverse:not-involution", fmt.Sprintf("Reverse(Reverse(p)) = %s differs from p = %s; %s", rrp.String(), p.String(), where))
	}
	// length
	rl, pm := guardF(rp.Length)
	if pm != nil {
		add("reverse:panic("+latgeo.PanicClass(pm)+")", fmt.Sprintf("Length of the reversed path panics: %v; %s", pm, where))
		return
	}
	// Length() is an approximation (about one percent): the reversed path must measure the same true length, i.e. its
	// Length() must lie in the same acceptance band around the specification's bracket
	ld := float64(s.Ld)
	lo, hi := float64(s.Br[0])/ld*x.sc, float64(s.Br[1])/ld*x.sc
	if lengthOK && !(rl >= lo*(1-band) && rl <= hi*(1+band)) {
		tag := ""
		for j, c := range s.Path {
			for i, g := range c.Segs {
				if g.K == "C" && s.Segs[j][i][2]&fTurn != 0 {
					tag = "+bezier-turns-back"
				}
			}
		}
		add("reverse:length"+tag, fmt.Sprintf("Length of the reversed path %.12g, of the path %.12g, true length in [%.9g, %.9g]; %s", rl, length, lo, hi, where))
	}
	// bounds
	var b0, b1 canvas.Rect
	if ok, pm := latgeo.Try(func() { b0, b1 = p.Bounds(), rp.Bounds() }); !ok {
		add("reverse:panic("+latgeo.PanicClass(pm)+")", fmt.Sprintf("Bounds panics: %v; %s", pm, where))
	} else if math.Abs(b0.X0-b1.X0) > tolP || math.Abs(b0.Y0-b1.Y0) > tolP || math.Abs(b0.X1-b1.X1) > tolP || math.Abs(b0.Y1-b1.Y1) > tolP {
		tag := ""
		if strings.Contains(s.Path.Kinds(), "E") {
			tag = "+ellipse-arc"
		}
		add("reverse:bounds"+tag, fmt.Sprintf("Bounds of the reversed path %v, of the path %v; %s", b1, b0, where))
	}
	// sub-paths: count, closedness, way-points in order
	subs, err := subsOf(rp.Data(), fine)
	if err != nil {
		add("reverse:undecodable", err.Error()+"; "+where)
		return
	}
	if len(subs) != len(s.Rev) {
		add("reverse:subpath-count", fmt.Sprintf("%d sub-paths, %d expected; %s", len(subs), len(s.Rev), where))
		return
	}
	if len(s.Path) == 1 && rp.Closed() != p.Closed() {
		add("reverse:closedness", fmt.Sprintf("Closed() = %v after Reverse, %v before; %s", rp.Closed(), p.Closed(), where))
	}
	tolW := 1e-5 * x.size
	for j, sb := range subs {
		if sb.closed != s.Rev[j].Cl {
			add("reverse:closedness", fmt.Sprintf("sub-path %d of the reversed path closed = %v, expected %v; %s", j+1, sb.closed, s.Rev[j].Cl, where))
		}
		way := make([]oracle.Pt, len(s.RevWay[j]))
		for i, r := range s.RevWay[j] {
			way[i] = x.pt(r)
		}
		if msg := wayOnCurve(oracle.NewCurve(oracle.Contour{Pts: sb.pts}), way, tolW); msg != "" {
			add("reverse:way-points", fmt.Sprintf("sub-path %d of the reversed path: %s; %s", j+1, msg, where))
			break
		}
		// the trace has no more than the way-points' length: same length as the original is checked above
	}
	// winding numbers negated (independent evaluator on the reversed data; samples chosen by the spec, guarded by distance)
	if len(s.Rows) > 0 {
		osubs, err := subsOf(p.Data(), 512)
		rsubs, err2 := subsOf(rp.Data(), 512)
		if err != nil || err2 != nil {
			return
		}
		toC := func(ss []subInfo) []oracle.Contour {
			cs := make([]oracle.Contour, len(ss))
			for i, sb := range ss {
				cs[i] = oracle.Contour{Pts: sb.pts, Closed: sb.closed}
			}
			return cs
		}
		oc, rc := toC(osubs), toC(rsubs)
		for _, row := range s.Rows {
			px, py := s.Emb.Map(float64(row[0])/2, float64(row[1])/2)
			pt := oracle.Pt{X: px, Y: py}
			if oracle.Dist(oc, pt, true) < 2e-3*x.sc || oracle.Dist(rc, pt, true) < 2e-3*x.sc {
				continue
			}
			w0, w1 := oracle.Winding(oc, pt), oracle.Winding(rc, pt)
			if w0 != row[2]*x.sgn {
				add("machinery:winding-of-built-path", fmt.Sprintf("the built path winds %d times around (%g,%g), the specification says %d; %s", w0, px, py, row[2]*x.sgn, where))
				return
			}
			if w1 != row[3]*x.sgn {
				add("reverse:winding", fmt.Sprintf("the reversed path winds %d times around (%g,%g) [lattice %g,%g], the path %d times: not negated; %s", w1, px, py, float64(row[0])/2, float64(row[1])/2, w0, where))
				break
			}
		}
	}
}

// ---------------------------------------------------------------------------------------------- exec

type result struct {
	ms      []core.Mismatch
	red     []*Scenario
	skipped bool
	evals   int64
}

func exec(s *Scenario, stat func(lenStat)) (r result) {
	ei, ok := embByName(s.Emb.Name)
	if !ok {
		r.ms = []core.Mismatch{{Signature: "machinery", Detail: "unknown embedding " + s.Emb.Name}}
		r.red = []*Scenario{s}
		return
	}
	p := latcurve.Build(s.Path, s.Emb, 1)
	if ok, _ := latcurve.Faithful(s.Path, p, s.Emb, 1); !ok {
		r.skipped = true // the builder normalised the input into another trace: subject of C10
		return
	}
	x := &ctxInfo{s: s, ei: ei, sc: math.Sqrt(math.Abs(s.Emb.Det())), sgn: 1, multi: len(s.Path) > 1}
	if s.Emb.Det() < 0 {
		x.sgn = -1
	}
	// extent of the embedded control points
	minx, miny, maxx, maxy := math.Inf(1), math.Inf(1), math.Inf(-1), math.Inf(-1)
	for _, sg := range mustDecode(p.Data()) {
		for _, q := range []oracle.Pt{sg.Start, sg.End} {
			minx, maxx = math.Min(minx, q.X), math.Max(maxx, q.X)
			miny, maxy = math.Min(miny, q.Y), math.Max(maxy, q.Y)
		}
	}
	x.size = math.Max(math.Max(maxx-minx, maxy-miny), math.Max(math.Max(math.Abs(maxx), math.Abs(minx)), math.Max(math.Abs(maxy), math.Abs(miny))))
	if !(x.size > 0) {
		r.skipped = true
		return
	}
	seen := map[string]bool{}
	only := ""
	add := func(sig, detail string) {
		if seen[sig] {
			return
		}
		seen[sig] = true
		c := *s
		c.Only = only
		r.ms = append(r.ms, core.Mismatch{Signature: sig, Detail: detail})
		r.red = append(r.red, &c)
	}
	only = "length"
	length, lok := 0.0, false
	if s.Only == "" || s.Only == "length" {
		length, lok = x.checkLength(p, add, stat)
		r.evals++
	} else {
		l, pm := guardF(p.Length)
		length, lok = l, pm == nil
	}
	if s.Only == "" || s.Only == "splitat" {
		only = "splitat"
		if s.Mode == "pyth" {
			x.checkSplitPoly(p, length, lok, add)
		} else if len(s.Fr) > 0 {
			x.checkSplitCurves(p, length, lok, add)
			x.checkSplitJoints(p, length, lok, add)
		}
		r.evals++
	}
	if s.Only == "" || s.Only == "reverse" {
		only = "reverse"
		x.checkReverse(p, length, lok, add)
		r.evals += 4
	}
	return
}

func mustDecode(d []float64) []oracle.Seg {
	segs, _ := oracle.Decode(d)
	return segs
}

func (Driver) Replay(c *core.Ctx, raw json.RawMessage) []core.Mismatch {
	var s Scenario
	if err := json.Unmarshal(raw, &s); err != nil {
		return []core.Mismatch{{Signature: "machinery", Detail: err.Error()}}
	}
	var r result
	kind, msg := latgeo.Guard(120*time.Second, func() { r = exec(&s, nil) })
	if kind != "" {
		return []core.Mismatch{{Signature: kind + "-measure", Detail: fmt.Sprint(msg)}}
	}
	return r.ms
}

// ---------------------------------------------------------------------------------------------- run

func cfg(n, nc int, mode, kinds, fams string, num int, mc bool) string {
	spec := "GenSpec"
	if mc {
		spec = "Spec"
	}
	s := fmt.Sprintf("SPECIFICATION %s\nCONSTANTS N = %d\n NC = %d\n Mode = \"%s\"\n Kinds = %s\n FamSet = %s\n Num = %d\nCHECK_DEADLOCK FALSE\n", spec, n, nc, mode, kinds, fams, num)
	if mc {
		s += "INVARIANTS BracketOK Involution RevClosed RevWay RevLength RevWinding SplitOK\n"
	}
	return s
}

func hash(s string) uint32 {
	h := uint32(2166136261)
	for i := 0; i < len(s); i++ {
		h = (h ^ uint32(s[i])) * 16777619
	}
	return h >> 1
}

type runner struct {
	c       *core.Ctx
	scen    int64
	runs    int64
	nontriv int64
	skipped int64
	seen    sync.Map
	mu      sync.Mutex
	maxDev  map[string]float64 // by kinds: largest |relative deviation| of Length from the bracket
	feat    map[string]int64
	sampled int32
	hdrOK   int32
}

// verifyHeader re-computes every entry of the specification's table of elliptic arc lengths numerically.
func (r *runner) verifyHeader(h *Line) {
	if len(h.Gaps) != len(h.Fams) || len(h.Ring) != len(h.Fams) {
		r.c.Broken("Measure.tla header: table sizes differ")
		return
	}
	ld := float64(h.Ld)
	for f, fam := range h.Fams {
		rx, ry := float64(fam.Rad[0]), float64(fam.Rad[1])
		n := len(h.Ring[f])
		if len(h.Gaps[f]) != n {
			r.c.Broken(fmt.Sprintf("Measure.tla header: family %d has %d ring points and %d gaps", f+1, n, len(h.Gaps[f])))
			return
		}
		th := func(pt [2]int) float64 {
			u, v := float64(pt[0]), float64(pt[1])
			if fam.Rot == 1 {
				u, v = (4*float64(pt[0])+3*float64(pt[1]))/5, (4*float64(pt[1])-3*float64(pt[0]))/5
			}
			return math.Atan2(v/ry, u/rx)
		}
		for i := 0; i < n; i++ {
			t0, t1 := th(h.Ring[f][i]), th(h.Ring[f][(i+1)%n])
			for t1 <= t0 {
				t1 += 2 * math.Pi
			}
			l := oracle.EllipseArcLen(rx, ry, t0, t1) * ld
			if !(float64(h.Gaps[f][i][0]) <= l && l <= float64(h.Gaps[f][i][1])) {
				r.c.Broken(fmt.Sprintf("Measure.tla GapTab[%d][%d] = %v does not bracket the numeric arc length %.4f", f+1, i+1, h.Gaps[f][i], l))
				return
			}
		}
	}
	atomic.StoreInt32(&r.hdrOK, 1)
}

func (r *runner) runGen(o tlc.Opts) {
	c := r.c
	ch := make(chan []byte, 1024)
	o.OnLine = func(p []byte) { ch <- append([]byte(nil), p...) }
	done := make(chan struct{})
	go func() {
		core.Parallel(8, ch, func(p []byte) {
			var l Line
			if err := json.Unmarshal(p, &l); err != nil {
				c.Broken("bad scenario line: " + err.Error())
				return
			}
			if l.Hdr {
				if atomic.LoadInt32(&r.hdrOK) == 0 {
					r.verifyHeader(&l)
				}
				return
			}
			r.one(&l.Scen)
		})
		close(done)
	}()
	c.TLC(o, true)
	close(ch)
	<-done
}

func (r *runner) one(sc *Scen) {
	c := r.c
	k := atomic.AddInt64(&r.scen, 1)
	key := fmt.Sprintf("%s|%v|%v|%d", sc.Path.SVG(), sc.Cuts, sc.Fr, sc.Ak)
	// non-trivial: at least one cut strictly inside the path, and the path has a curve or at least two drawn edges
	inner := len(sc.Fr) > 0
	for _, u := range sc.Cuts {
		if u > 0 && u < sc.Total2 {
			inner = true
		}
	}
	drawn, curved := 0, false
	for _, ct := range sc.Path {
		drawn += len(ct.Segs)
		if ct.Cl {
			drawn++
		}
		for _, g := range ct.Segs {
			if g.K != "L" {
				curved = true
			}
		}
	}
	if inner && (curved || drawn >= 2) {
		if _, dup := r.seen.LoadOrStore(key, true); !dup {
			atomic.AddInt64(&r.nontriv, 1)
		}
	}
	r.mu.Lock()
	r.feat["kinds:"+sc.Path.Kinds()]++
	if len(sc.Path) > 1 {
		r.feat["multi-subpath"]++
	}
	pf := 0
	for _, ct := range sc.Segs {
		for _, g := range ct {
			pf |= g[2]
		}
	}
	if pf&fEcc != 0 {
		r.feat["ecc-large-arc"]++
	}
	if pf&fTurn != 0 {
		r.feat["bezier-turns-back"]++
	}
	if pf&(fChordH|fChordV|fChordP) != 0 {
		r.feat["arc-chord-eq-rx(H, V or P)"]++
	}
	if len(sc.Tips) > 0 {
		r.feat["line-reversal"]++
	}
	r.mu.Unlock()
	h := int(hash(key))
	es := []embInfo{embs[0], embs[1+h%(len(embs)-1)]}
	if c.Thorough() {
		es = append(es, embs[1+(h/7+3)%(len(embs)-1)])
	}
	for _, ei := range es {
		s := &Scenario{Scen: *sc, Emb: ei.e}
		var res result
		kind, msg := latgeo.Guard(60*time.Second, func() {
			res = exec(s, func(st lenStat) {
				r.mu.Lock()
				if a := math.Abs(st.rel); a > r.maxDev[st.kind] {
					r.maxDev[st.kind] = a
				}
				r.mu.Unlock()
			})
		})
		if kind != "" {
			c.Report(s, []core.Mismatch{{Signature: kind + "-measure", Detail: fmt.Sprint(msg) + "; " + s.desc()}})
			continue
		}
		if res.skipped {
			atomic.AddInt64(&r.skipped, 1)
			continue
		}
		atomic.AddInt64(&r.runs, 1)
		c.Count(res.evals, 0, 1)
		for i := range res.ms {
			if strings.HasPrefix(res.ms[i].Signature, "machinery") {
				c.Broken(res.ms[i].Signature + ": " + res.ms[i].Detail)
				continue
			}
			c.Report(res.red[i], res.ms[i:i+1])
		}
	}
	if k%97 == 5 && atomic.AddInt32(&r.sampled, 1) <= 6 {
		c.Sample(map[string]any{"path": sc.Path.SVG(), "mode": sc.Mode, "length_bracket_over_8192": sc.Br, "cuts_half_units": sc.Cuts, "cut_sixteenths": sc.Fr,
			"expected_pieces": sc.Pieces, "reversed": sc.Rev.SVG(), "way_points": sc.Way, "winding_samples": len(sc.Rows)})
	}
}

func (d Driver) Run(c *core.Ctx) error {
	c.Rule = "scenario = abstract lattice path printed by spec/Measure.tla with all expectations (integer bracket of the true length, pieces SplitAt must return, ordered way-points, reversed path with way-points and winding numbers), from integer seeds (RandomSubset) expanded in the spec: (pyth) 1-3 polylines with Pythagorean edges, open and closed, up to 3 cut positions in half units incl. vertices, sub-path joints, 0 and the total; (curves) 1-3 contours of lines, arcs of 12 families of integer circles/ellipses (also rotated by atan(3/4)), quadratic and cubic Beziers, cut at up to 3 distinct sixteenths of Length(); (chord) circle arcs of 60/90/180/270/300 degrees given by end points; each executed under 2-3 similarity embeddings; evaluations = calls of Length, SplitAt, Reverse (twice), Bounds, Closed; non-trivial = distinct (path, cut set) with at least one cut strictly inside the path and a path that has a curve or at least two drawn edges"
	c.Assumptions = []string{
		"paths are built through the public builder; scenarios whose trace the builder changes (merged reversal, dropped degenerate contour: C10) are skipped and counted in builder_normalised",
		"'about one percent' is fixed at 1.5 %: Length is accepted in [lo*(1-0.015), hi*(1+0.015)] of the specification's bracket of the true arc length; on curved paths piece lengths and the sum of piece lengths are accepted within 1.5 % of Length(), on polylines within 1e-9",
		"split positions are sets inside [0, Length]: no duplicates, no negative positions, nothing beyond the end (not in the statement's quantifier); a zero-length piece at either end may be present or absent",
		"SplitAt may turn Close into LineTo and may merge collinear edges: pieces are compared as traces (point sequences with collinear interior points removed on both sides)",
		"way-points: lattice points of the integer ellipses on the arc, dyadic de Casteljau points (t = 1/4, 1/2, 3/4) of Beziers, all vertices; tolerance 1e-5 of the path's extent on a flattening with 2048 chords per curve",
		"winding numbers of the reversed path are measured by the independent evaluator at the centres of lattice cells chosen by the spec, skipped when closer than 0.002 lattice units to the trace",
		"the table of elliptic arc lengths (Measure.tla GapTab) is re-verified numerically by the harness in every run and against exact integer bounds by TLC (ASSUME GapTabOK)",
	}
	r := &runner{c: c, maxDev: map[string]float64{}, feat: map[string]int64{}}
	all := `{"L","A","Q","C"}`
	famsAll := "{1,2,3,4,5,6,7,8,9,10,11,12}"
	fams10 := "{1,2,3,4,5,10,11}"

	// 1. model level
	mc := []tlc.Opts{
		{Module: "Measure", Config: cfg(8, 0, "pyth", `{"L"}`, "{1}", c.Pick(80, 500), true), Seed: c.Seed, Workers: 4, HeapGB: 3, Timeout: 30 * time.Minute},
		{Module: "Measure", Config: cfg(10, 0, "curves", all, fams10, c.Pick(30, 300), true), Seed: c.Seed, Workers: 4, HeapGB: 3, Timeout: 30 * time.Minute},
		{Module: "Measure", Config: cfg(6, 1, "chord", `{"L","A"}`, "{1}", c.Pick(40, 300), true), Seed: c.Seed, Workers: 2, HeapGB: 2, Timeout: 30 * time.Minute},
	}
	// 2. spec -> code
	var jobs []tlc.Opts
	gen := func(n, nc int, mode, kinds, fams string, num int, off int64) {
		jobs = append(jobs, tlc.Opts{Module: "Measure", Config: cfg(n, nc, mode, kinds, fams, num, false), Seed: c.Seed + off, Workers: 4, HeapGB: 3, Timeout: 30 * time.Minute})
	}
	if c.Thorough() {
		gen(8, 0, "pyth", `{"L"}`, "{1}", 8000, 0)
		gen(8, 1, "pyth", `{"L"}`, "{1}", 5000, 1)
		gen(10, 0, "curves", all, fams10, 2800, 2)
		gen(10, 1, "curves", `{"A"}`, fams10, 2500, 3)
		gen(20, 0, "curves", `{"L","A"}`, "{1,2,3,4,5,6,7,8,9,10,11}", 2000, 4)
		gen(30, 1, "curves", `{"A"}`, famsAll, 1200, 5)
		gen(8, 0, "curves", `{"L","Q","C"}`, "{1}", 2200, 6)
		gen(6, 1, "curves", `{"C"}`, "{1}", 2000, 7)
		gen(8, 1, "curves", `{"Q"}`, "{1}", 1500, 10)
		gen(6, 1, "chord", `{"L","A"}`, "{1}", 2000, 8)
		gen(12, 1, "overshoot", `{"Q"}`, "{1}", 700, 11) // collinear quadratics whose control point lies outside the chord
		gen(12, 0, "curves", `{"L"}`, "{1}", 2500, 9)
	} else {
		gen(8, 0, "pyth", `{"L"}`, "{1}", 800, 0)
		gen(10, 0, "curves", all, fams10, 300, 2)
		gen(20, 1, "curves", `{"A"}`, "{1,2,3,4,5,6,7,8,9,10,11}", 200, 4)
		gen(30, 1, "curves", `{"A"}`, "{8,9,12}", 50, 5)
		gen(8, 0, "curves", `{"L","Q","C"}`, "{1}", 250, 6)
		gen(6, 1, "chord", `{"L","A"}`, "{1}", 200, 8)
		gen(12, 1, "overshoot", `{"Q"}`, "{1}", 80, 11) // collinear quadratics whose control point lies outside the chord
	}
	sem := make(chan struct{}, 4)
	var wg sync.WaitGroup
	for _, j := range mc {
		wg.Add(1)
		sem <- struct{}{}
		go func(o tlc.Opts) {
			defer wg.Done()
			o.OnLine = func([]byte) {}
			c.TLC(o, true)
			<-sem
		}(j)
	}
	for _, j := range jobs {
		wg.Add(1)
		sem <- struct{}{}
		go func(o tlc.Opts) {
			defer wg.Done()
			r.runGen(o)
			<-sem
		}(j)
	}
	wg.Wait()
	c.Count(0, r.nontriv, 0)
	c.SetExtra("scenarios", r.scen)
	c.SetExtra("scenario_embeddings_executed", r.runs)
	c.SetExtra("builder_normalised", r.skipped)
	md := map[string]string{}
	for k, v := range r.maxDev {
		md[k] = fmt.Sprintf("%.3f %%", 100*v)
	}
	c.SetExtra("max_length_deviation_from_bracket_by_kinds", md)
	c.SetExtra("scenarios_by_feature", r.feat)
	if r.scen == 0 {
		c.Broken("no scenarios were generated")
	}
	if atomic.LoadInt32(&r.hdrOK) == 0 {
		c.Broken("the table of elliptic arc lengths was not verified (no header line)")
	}
	return nil
}
