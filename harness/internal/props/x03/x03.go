// Package x03: extension check (not one of the listed properties): the algebra of canvas.Rect (spec/RectAlg.tla).
//
// spec -> code, two families:
//   - tables: for every rectangle r with corners on 0..N TLC prints, computed from the point-set definitions, the result of
//     every binary operation and query against every probe rectangle (Add, And, Contains, Overlaps, Touches), every probe
//     point (ContainsPoint, TouchesPoint, ClosestPoint, DistanceToPoint, AddPoint), every probe segment (OverlapsLine
//     three-valued, ContainsLine) and every lattice matrix (Transform); the driver evaluates the real methods under exact
//     embeddings (power-of-two scales, a dyadic offset) and compares;
//   - machine: histories of the register machine (Start, Add, And, AddPoint, Expand, Translate, Transform, FromPoints)
//     from TLC's simulator with the expected rectangle, emptiness and area after every step.
//
// The laws of the algebra (And is the greatest common part, Add the least cover, Overlaps <=> And non-zero, ...) are
// model-checked on the point-set definitions.
package x03

import (
	"encoding/json"
	"fmt"
	"math"
	"sync/atomic"
	"time"

	"github.com/tdewolff/canvas"

	"verif/harness/internal/core"
	"verif/harness/internal/latgeo"
	"verif/harness/internal/tlc"
)

type Driver struct{}

func (Driver) ID() string { return "X03" }

type emb struct {
	S, Ox, Oy float64
}

var embs = []emb{{1, 0, 0}, {0.25, 0, 0}, {1024, 0, 0}, {1, -7.5, 3.25}, {0.5, 1024.25, -0.125}}

func (e emb) linear() bool { return e.Ox == 0 && e.Oy == 0 }
func (e emb) pt(p [2]int) canvas.Point {
	return canvas.Point{X: e.S*float64(p[0]) + e.Ox, Y: e.S*float64(p[1]) + e.Oy}
}
func (e emb) rect(r [4]int) canvas.Rect {
	return canvas.Rect{X0: e.S*float64(r[0]) + e.Ox, Y0: e.S*float64(r[1]) + e.Oy, X1: e.S*float64(r[2]) + e.Ox, Y1: e.S*float64(r[3]) + e.Oy}
}

// the zero rectangle is the literal Rect{} in every embedding
func (e emb) rectOrZero(r [4]int) canvas.Rect {
	if r == [4]int{} {
		return canvas.Rect{}
	}
	return e.rect(r)
}

type QRow struct {
	Q, Add, And               [4]int
	Contains, Overlaps, Touch int
}
type PRow struct {
	P       [2]int
	In      int
	Closest [2]int
	D2      int
	AddP    [4]int
}
type LRow struct {
	A, B     [2]int
	Class    int
	Contains int
}
type MRow struct {
	M [6]int
	R [4]int
}

func (q *QRow) UnmarshalJSON(b []byte) error {
	return json.Unmarshal(b, &[]any{&q.Q, &q.Add, &q.And, &q.Contains, &q.Overlaps, &q.Touch})
}
func (p *PRow) UnmarshalJSON(b []byte) error {
	return json.Unmarshal(b, &[]any{&p.P, &p.In, &p.Closest, &p.D2, &p.AddP})
}
func (l *LRow) UnmarshalJSON(b []byte) error {
	return json.Unmarshal(b, &[]any{&l.A, &l.B, &l.Class, &l.Contains})
}
func (m *MRow) UnmarshalJSON(b []byte) error { return json.Unmarshal(b, &[]any{&m.M, &m.R}) }

type Step struct {
	Op    string          `json:"op"`
	Arg   json.RawMessage `json:"arg"`
	R     [4]int          `json:"r"`
	Empty int             `json:"empty"`
	Area  int             `json:"area"`
}

// Scenario is either one rectangle's tables (possibly cut down to the failing rows for a replay file) or one history.
type Scenario struct {
	R     *[4]int `json:"r,omitempty"`
	Empty int     `json:"empty,omitempty"`
	Area  int     `json:"area,omitempty"`
	Q     []QRow  `json:"q,omitempty"`
	P     []PRow  `json:"p,omitempty"`
	L     []LRow  `json:"l,omitempty"`
	M     []MRow  `json:"m,omitempty"`
	Hist  []Step  `json:"hist,omitempty"`
}

func (q QRow) MarshalJSON() ([]byte, error) {
	return json.Marshal([]any{q.Q, q.Add, q.And, q.Contains, q.Overlaps, q.Touch})
}
func (p PRow) MarshalJSON() ([]byte, error) {
	return json.Marshal([]any{p.P, p.In, p.Closest, p.D2, p.AddP})
}
func (l LRow) MarshalJSON() ([]byte, error) { return json.Marshal([]any{l.A, l.B, l.Class, l.Contains}) }
func (m MRow) MarshalJSON() ([]byte, error) { return json.Marshal([]any{m.M, m.R}) }

func b2i(b bool) int {
	if b {
		return 1
	}
	return 0
}

func sameRect(a, b canvas.Rect) bool { return a == b }

func near(a, b float64) bool { return math.Abs(a-b) <= 1e-9*math.Max(1, math.Max(math.Abs(a), math.Abs(b))) }

type fail struct {
	sig, detail string
	row         any
}

func guard(where string, fs *[]fail, row any, f func()) {
	if ok, msg := latgeo.Try(f); !ok {
		*fs = append(*fs, fail{"panic-" + where + ":" + latgeo.PanicClass(msg), fmt.Sprint(where, ": ", msg), row})
	}
}

func mat(m [6]int, s float64) canvas.Matrix {
	// the linear part is scale free, the translation scales with the embedding
	return canvas.Matrix{{float64(m[0]), float64(m[1]), s * float64(m[2])}, {float64(m[3]), float64(m[4]), s * float64(m[5])}}
}

func execTables(s *Scenario) (fs []fail, evals int64) {
	for ei, e := range embs {
		tag := ""
		if ei > 0 {
			tag = fmt.Sprintf("@emb%d", ei)
		}
		r := e.rect(*s.R)
		add := func(sig string, row any, format string, a ...any) {
			fs = append(fs, fail{sig, fmt.Sprintf("r=%v (embedding scale %g offset %g,%g): ", r, e.S, e.Ox, e.Oy) + fmt.Sprintf(format, a...) + tag, row})
		}
		guard("unary", &fs, nil, func() {
			if got := b2i(r.Empty()); got != s.Empty {
				add("empty", nil, "Empty() = %d, expected %d", got, s.Empty)
			}
			if got, want := r.Area(), e.S*e.S*float64(s.Area); !near(got, want) {
				add("area", nil, "Area() = %g, expected %g", got, want)
			}
			if got, want := r.W()*r.H(), e.S*e.S*float64(s.Area); !near(got, want) {
				add("w-h", nil, "W()*H() = %g, expected %g", got, want)
			}
			c := r.Center()
			if !near(2*c.X, r.X0+r.X1) || !near(2*c.Y, r.Y0+r.Y1) {
				add("center", nil, "Center() = %v", c)
			}
			if !r.Equals(r) || (s.Area > 0 && r.Equals(r.Translate(e.S, 0))) {
				add("equals", nil, "Equals is not reflexive or ignores a shift by one cell")
			}
			if s.Area > 0 {
				if got := r.ToPath().Bounds(); !got.Equals(r) {
					add("topath", nil, "ToPath().Bounds() = %v", got)
				}
			}
		})
		evals += 6
		for i := range s.Q {
			row := &s.Q[i]
			q := e.rect(row.Q)
			guard("binary", &fs, row, func() {
				if got, want := r.Add(q), e.rect(row.Add); !sameRect(got, want) {
					add("add", row, "Add(%v) = %v, expected %v", q, got, want)
				}
				if got, want := r.And(q), e.rectOrZero(row.And); !sameRect(got, want) {
					add("and", row, "And(%v) = %v, expected %v", q, got, want)
				}
				if got := b2i(r.Contains(q)); got != row.Contains {
					add("contains", row, "Contains(%v) = %d, expected %d", q, got, row.Contains)
				}
				if got := b2i(r.Overlaps(q)); row.Overlaps != 2 && got != row.Overlaps {
					add("overlaps", row, "Overlaps(%v) = %d, expected %d", q, got, row.Overlaps)
				}
				if got := b2i(r.Touches(q)); got != row.Touch {
					add("touches", row, "Touches(%v) = %d, expected %d", q, got, row.Touch)
				}
			})
			evals += 5
		}
		for i := range s.P {
			row := &s.P[i]
			p := e.pt(row.P)
			guard("point", &fs, row, func() {
				if got := b2i(r.ContainsPoint(p)); got != row.In {
					add("containspoint", row, "ContainsPoint(%v) = %d, expected %d", p, got, row.In)
				}
				if got := b2i(r.TouchesPoint(p)); got != row.In {
					add("touchespoint", row, "TouchesPoint(%v) = %d, expected %d", p, got, row.In)
				}
				if got, want := r.ClosestPoint(p), e.pt(row.Closest); got != want {
					add("closestpoint", row, "ClosestPoint(%v) = %v, expected %v", p, got, want)
				}
				if got, want := r.DistanceToPoint(p), e.S*math.Sqrt(float64(row.D2)); !near(got, want) {
					add("distancetopoint", row, "DistanceToPoint(%v) = %g, expected %g", p, got, want)
				}
				if got, want := r.AddPoint(p), e.rect(row.AddP); !sameRect(got, want) {
					add("addpoint", row, "AddPoint(%v) = %v, expected %v", p, got, want)
				}
			})
			evals += 5
		}
		for i := range s.L {
			row := &s.L[i]
			a, b := e.pt(row.A), e.pt(row.B)
			guard("line", &fs, row, func() {
				if got := b2i(r.OverlapsLine(a, b)); row.Class != 2 && got != row.Class {
					add("overlapsline", row, "OverlapsLine(%v, %v) = %d, expected %d", a, b, got, row.Class)
				}
				if got := b2i(r.ContainsLine(a, b)); got != row.Contains {
					add("containsline", row, "ContainsLine(%v, %v) = %d, expected %d", a, b, got, row.Contains)
				}
			})
			evals += 2
		}
		if e.linear() {
			for i := range s.M {
				row := &s.M[i]
				guard("transform", &fs, row, func() {
					if got, want := r.Transform(mat(row.M, e.S)), e.rect(row.R); !sameRect(got, want) {
						add("transform", row, "Transform(%v) = %v, expected %v", row.M, got, want)
					}
				})
				evals++
			}
		}
	}
	return
}

func execHist(s *Scenario) (fs []fail, evals int64) {
	for ei, e := range embs {
		if !e.linear() {
			continue
		}
		tag := ""
		if ei > 0 {
			tag = fmt.Sprintf("@emb%d", ei)
		}
		var r canvas.Rect
		trail := ""
		for i, st := range s.Hist {
			var err error
			guard("machine-"+st.Op, &fs, nil, func() {
				switch st.Op {
				case "Start":
					var a [4]int
					err = json.Unmarshal(st.Arg, &a)
					r = e.rect(a)
				case "Add", "And":
					var a [4]int
					err = json.Unmarshal(st.Arg, &a)
					if st.Op == "Add" {
						r = r.Add(e.rect(a))
					} else {
						r = r.And(e.rect(a))
					}
				case "AddPoint", "Translate":
					var a [2]int
					err = json.Unmarshal(st.Arg, &a)
					if st.Op == "AddPoint" {
						r = r.AddPoint(e.pt(a))
					} else {
						r = r.Translate(e.S*float64(a[0]), e.S*float64(a[1]))
					}
				case "Expand":
					var a [1]int
					err = json.Unmarshal(st.Arg, &a)
					r = r.Expand(e.S * float64(a[0]))
				case "Transform":
					var a [6]int
					err = json.Unmarshal(st.Arg, &a)
					r = r.Transform(mat(a, e.S))
				case "FromPoints":
					var a [3][2]int
					err = json.Unmarshal(st.Arg, &a)
					r = canvas.RectFromPoints(e.pt(a[0]), e.pt(a[1]), e.pt(a[2]))
				default:
					err = fmt.Errorf("unknown op %q", st.Op)
				}
			})
			if err != nil {
				return []fail{{"machinery", err.Error(), nil}}, evals
			}
			trail += fmt.Sprintf(" %s%s", st.Op, string(st.Arg))
			evals++
			want := e.rectOrZero(st.R)
			if st.Op != "And" {
				want = e.rect(st.R)
			}
			if !sameRect(r, want) {
				fs = append(fs, fail{"machine-" + st.Op + "@" + prevOp(s.Hist, i), fmt.Sprintf("after%s (scale %g): rect %v, expected %v%s", trail, e.S, r, want, tag), nil})
				break
			}
			if got := b2i(r.Empty()); got != st.Empty {
				fs = append(fs, fail{"machine-empty", fmt.Sprintf("after%s (scale %g): Empty() = %d, expected %d%s", trail, e.S, got, st.Empty, tag), nil})
			}
			if got, want := r.Area(), e.S*e.S*float64(st.Area); !near(got, want) {
				fs = append(fs, fail{"machine-area", fmt.Sprintf("after%s (scale %g): Area() = %g, expected %g%s", trail, e.S, got, want, tag), nil})
			}
		}
	}
	return
}

func prevOp(h []Step, i int) string {
	if i == 0 {
		return "-"
	}
	return h[i-1].Op
}

// mismatches of one scenario, grouped by signature, together with the scenario reduced to the failing rows
func judge(s *Scenario) ([]core.Mismatch, *Scenario, int64) {
	var fs []fail
	var n int64
	// watchdog: the line clipping behind OverlapsLine is a loop that ends only when an end point moves inside
	kind, msg := latgeo.Guard(60*time.Second, func() {
		if s.R != nil {
			fs, n = execTables(s)
		} else {
			fs, n = execHist(s)
		}
	})
	if kind == "timeout" {
		return []core.Mismatch{{Signature: "timeout", Detail: fmt.Sprintf("r=%v: the queries of this scenario do not return (%v)", s.R, msg)}}, s, n
	} else if kind != "" {
		return []core.Mismatch{{Signature: "panic:" + latgeo.PanicClass(msg), Detail: fmt.Sprint(msg)}}, s, n
	}
	if len(fs) == 0 {
		return nil, s, n
	}
	red := &Scenario{R: s.R, Empty: s.Empty, Area: s.Area, Hist: s.Hist}
	seen := map[string]bool{}
	var ms []core.Mismatch
	for _, f := range fs {
		if seen[f.sig] {
			continue
		}
		seen[f.sig] = true
		ms = append(ms, core.Mismatch{Signature: f.sig, Detail: f.detail})
		switch row := f.row.(type) {
		case *QRow:
			red.Q = append(red.Q, *row)
		case *PRow:
			red.P = append(red.P, *row)
		case *LRow:
			red.L = append(red.L, *row)
		case *MRow:
			red.M = append(red.M, *row)
		}
	}
	return ms, red, n
}

func (Driver) Replay(c *core.Ctx, raw json.RawMessage) []core.Mismatch {
	var s Scenario
	if err := json.Unmarshal(raw, &s); err != nil {
		return []core.Mismatch{{Signature: "machinery", Detail: err.Error()}}
	}
	ms, _, _ := judge(&s)
	return ms
}

func cfg(n int, mode string, maxOps int, mc bool) string {
	s := fmt.Sprintf("SPECIFICATION Spec\nCONSTANTS N = %d\nMode = \"%s\"\nMaxOps = %d\nCHECK_DEADLOCK FALSE\n", n, mode, maxOps)
	if mc {
		s += "INVARIANTS AndInBoth AndIsZeroIffDisjoint AddContainsBoth AddLeast AndGreatest OverlapsImpliesTouches ContainsImpliesOverlaps Commutes ClosestInside AddPointLeast LineEndpoints LineSymmetric\n"
	}
	return s
}

func (d Driver) Run(c *core.Ctx) error {
	c.Rule = "tables: scenario = one rectangle with corners on 0..N against every probe rectangle, point (-1..N+1), segment and lattice matrix, under 5 exact embeddings; machine: one history of MaxOps operations from TLC's simulator under 3 scales; evaluations = method calls compared; non-trivial = rows whose expected answer is not the generic one (touching or degenerate rectangles, boundary points, segments that meet the rectangle without an end point inside, free corner cases excluded) and histories that pass through an empty rectangle"
	c.Assumptions = []string{"coordinates are small integers under power-of-two scales and dyadic offsets, so every expected value is exactly representable",
		"a segment that meets the rectangle in exactly one corner and nowhere else is left free (one rounded division decides it)",
		"rectangles are well-formed (X0 <= X1, Y0 <= Y1); TouchesLine is not judged (its contract is not documented)"}
	// design level: the laws of the algebra on the point-set definitions
	c.TLC(tlc.Opts{Module: "RectAlg", Config: cfg(c.Pick(2, 3), "tables", 1, true), Workers: 8, Timeout: 20 * time.Minute, OnLine: func([]byte) {}}, true)

	// design level, machine mode: laws of the transitions on every history of two operations over the rectangles of the unit cell
	c.TLC(tlc.Opts{Module: "RectAlg", Config: cfg(c.Pick(1, 2), "machine", 2, false) + "INVARIANTS WellFormed\nPROPERTIES MachineLaws\n", Workers: 8, Timeout: 20 * time.Minute, OnLine: func([]byte) {}}, true)

	var nontriv, ran, hists int64
	ch := make(chan []byte, 64)
	done := make(chan struct{})
	go func() {
		core.Parallel(12, ch, func(p []byte) {
			var s Scenario
			if err := json.Unmarshal(p, &s); err != nil || (s.R == nil && len(s.Hist) == 0) {
				c.Broken(fmt.Sprintf("bad scenario line: %v", err))
				return
			}
			nt := int64(0)
			if s.R != nil {
				for _, q := range s.Q {
					if q.Touch == 1 && q.Overlaps == 0 || q.Q[0] == q.Q[2] || q.Q[1] == q.Q[3] || q.Contains == 1 {
						nt++
					}
				}
				for _, pr := range s.P {
					if pr.In == 1 && pr.D2 == 0 && (pr.P[0] == s.R[0] || pr.P[0] == s.R[2] || pr.P[1] == s.R[1] || pr.P[1] == s.R[3]) {
						nt++
					}
				}
				for _, l := range s.L {
					if l.Class == 1 && l.Contains == 0 {
						nt++
					}
				}
				atomic.AddInt64(&ran, 1)
			} else {
				for _, st := range s.Hist[1:] {
					if st.Empty == 1 {
						nt = 1
					}
				}
				atomic.AddInt64(&hists, 1)
			}
			atomic.AddInt64(&nontriv, nt)
			ms, red, n := judge(&s)
			c.Count(n, 0, 1)
			if s.R != nil && *s.R == [4]int{0, 1, 2, 2} {
				c.Sample(map[string]any{"r": s.R, "first_q": s.Q[:2], "first_l": s.L[:2]})
			}
			c.Report(red, ms)
		})
		close(done)
	}()
	feed := func(p []byte) { ch <- append([]byte(nil), p...) }
	c.TLC(tlc.Opts{Module: "RectAlg", Config: cfg(c.Pick(3, 4), "tables", 1, false), Workers: 8, Timeout: 30 * time.Minute, OnLine: feed}, true)
	c.TLC(tlc.Opts{Module: "RectAlg", Config: cfg(3, "machine", c.Pick(3, 5), false), Workers: 4, Simulate: fmt.Sprintf("num=%d", c.Pick(500, 10000)), Depth: c.Pick(3, 5) + 2, Seed: c.Seed, Timeout: 30 * time.Minute, OnLine: feed}, true)
	close(ch)
	<-done
	c.Count(0, nontriv, 0)
	c.SetExtra("rectangles_with_tables", ran)
	c.SetExtra("histories", hists)
	return nil
}
