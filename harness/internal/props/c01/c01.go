// Package c01: boolean path operations compute the set algebra of the filled regions (spec/BoolOps.tla).
package c01

import (
	"bytes"
	"context"
	"encoding/json"
	"fmt"
	"math"
	"math/rand"
	"os"
	exec_ "os/exec"
	"path/filepath"
	"strings"
	"sync"
	"sync/atomic"
	"time"

	"github.com/tdewolff/canvas"

	"verif/harness/internal/core"
	"verif/harness/internal/latgeo"
	"verif/harness/internal/tlc"
)

type Driver struct{}

func (Driver) ID() string { return "C01" }

// Line is one scenario printed by BoolOps.tla (What = "bool").
type Line struct {
	Hdr     bool            `json:"hdr,omitempty"`
	S       int             `json:"S,omitempty"`
	N       int             `json:"N,omitempty"`
	Samples [][2]int        `json:"samples,omitempty"`
	P       latgeo.LPath    `json:"p,omitempty"`
	Q       latgeo.LPath    `json:"q,omitempty"`
	Wp      []int           `json:"wp,omitempty"`
	Wq      []int           `json:"wq,omitempty"`
	And     []int           `json:"and,omitempty"`
	Or      []int           `json:"or,omitempty"`
	Xor     []int           `json:"xor,omitempty"`
	Not     []int           `json:"not,omitempty"`
	Div     []int           `json:"div,omitempty"`
	F       map[string]bool `json:"f,omitempty"`
}

// Scenario is the self-contained replay unit: one pair, one embedding (all five operations).
type Scenario struct {
	Kind    string           `json:"kind"`
	S       int              `json:"S"`
	Samples [][2]int         `json:"samples"`
	P       latgeo.LPath     `json:"p"`
	Q       latgeo.LPath     `json:"q"`
	Emb     latgeo.Emb       `json:"emb"`
	Exp     map[string][]int `json:"exp"`
	F       map[string]bool  `json:"f"`
	CP      latgeo.CPath     `json:"cp,omitempty"` // curved scenario (spec/CurvedOps.tla): cubic contours instead of P, Q
	CQ      latgeo.CPath     `json:"cq,omitempty"`
	Space   string           `json:"space"` // generation space: tri (3x3 lattice, 3 vertices), pent (5x5, 5), hex (7x7, 6), two (4x4, 4 vertices, two contours per operand)
}

// tag is the feature class of the scenario (exact predicates evaluated by the spec): "degenerate" if an operand has a
// zero-area contour, else "overlap" if edges overlap collinearly (between or within operands), else "general".
func (s *Scenario) buildP() *canvas.Path {
	if s.CP != nil {
		return latgeo.BuildCurved(s.CP, s.Emb)
	}
	return latgeo.BuildSalt(s.P, s.Emb, 1)
}

func (s *Scenario) buildQ() *canvas.Path {
	if s.CQ != nil {
		return latgeo.BuildCurved(s.CQ, s.Emb)
	}
	return latgeo.BuildSalt(s.Q, s.Emb, 2)
}

func (s *Scenario) psvg() string {
	if s.CP != nil {
		return s.CP.SVG()
	}
	return s.P.SVG()
}

func (s *Scenario) qsvg() string {
	if s.CQ != nil {
		return s.CQ.SVG()
	}
	return s.Q.SVG()
}

func (s *Scenario) tag() string {
	if s.CP != nil {
		return "curved"
	}
	switch {
	case s.F["pdeg"] || s.F["qdeg"]:
		return "degenerate" + s.embClass()
	case s.F["shared"] || s.F["selfov"]:
		return "overlap" + s.embClass()
	case s.F["tj"]:
		return "tjunction" + s.embClass()
	}
	return "general" + s.embClass()
}

// embClass: "" for the identity and the seven other symmetries of the lattice (all coordinates stay small integers,
// float arithmetic is exact on the inputs), "~float" for every other embedding (coincidences become near-coincidences).
func (s *Scenario) embClass() string {
	multi := "@" + s.Space
	if strings.HasPrefix(s.Emb.Name, "jitter") {
		return multi + "~jitter" // sub-grid near-coincidences
	}
	for _, e := range latgeo.Symmetries {
		if e.Name == s.Emb.Name {
			return multi
		}
	}
	return multi + "~float"
}

var ops = []string{"and", "or", "xor", "not", "div"}

func apply(op string, p, q *canvas.Path) *canvas.Path {
	switch op {
	case "and":
		return p.And(q)
	case "or":
		return p.Or(q)
	case "xor":
		return p.Xor(q)
	case "not":
		return p.Not(q)
	case "div":
		return p.DivideBy(q)
	}
	return nil
}

// exec runs the five operations on one embedded pair and compares cells and area laws.
// guard=true runs each operation under a watchdog (replay mode).
func exec(s *Scenario, guard bool) (ms []core.Mismatch) {
	pts := latgeo.SamplePts(s.Samples, s.S, s.Emb)
	res := map[string]*canvas.Path{}
	for _, op := range ops {
		p, q := s.buildP(), s.buildQ()
		var r *canvas.Path
		var kind string
		var msg any
		if guard {
			kind, msg = latgeo.Guard(20*time.Second, func() { r = apply(op, p, q) })
		} else {
			ok, m := latgeo.Try(func() { r = apply(op, p, q) })
			if !ok {
				kind, msg = "panic", m
			}
		}
		if kind != "" {
			ms = append(ms, core.Mismatch{Signature: kind + "-" + op + ":" + latgeo.PanicClass(msg) + "+" + s.tag(),
				Detail: fmt.Sprintf("%s %s: P=%s Q=%s emb=%s: %v", op, kind, s.psvg(), s.qsvg(), s.Emb.Name, msg)})
			continue
		}
		res[op] = r
		w, err := latgeo.Windings(r, pts, 8)
		if err != nil {
			ms = append(ms, core.Mismatch{Signature: "result-undecodable-" + op, Detail: err.Error()})
			continue
		}
		exp := s.Exp[op]
		badNZ, badEO := -1, -1
		for i := range exp {
			if exp[i] == 2 {
				continue
			}
			if (w[i] != 0) != (exp[i] == 1) && badNZ < 0 {
				badNZ = i
			}
			if (w[i]%2 != 0) != (exp[i] == 1) && badEO < 0 {
				badEO = i
			}
		}
		if badNZ >= 0 {
			sig := "cells-" + op + "+" + s.tag()
			if badEO < 0 {
				sig = "hole-orientation-" + op + "+" + s.tag() // the contours are right, a hole is wound the wrong way (EvenOdd reading is right)
			} else if op == "div" && len(r.Data()) == 0 && s.F["bbdisj"] {
				sig = "div-bbox-disjoint-empty"
			}
			ms = append(ms, core.Mismatch{Signature: sig, Detail: fmt.Sprintf("P=%s %s Q=%s emb=%s: sample %v (lattice %.3f,%.3f) expected filled=%d, result winding %d; result=%s",
				s.psvg(), op, s.qsvg(), s.Emb.Name, pts[badNZ], float64(s.Samples[badNZ][0])/float64(s.S), float64(s.Samples[badNZ][1])/float64(s.S), exp[badNZ], w[badNZ], r)})
		}
	}
	// inclusion-exclusion of areas, on the real outputs (all results are canonical: signed area = region area)
	if len(res) == 5 {
		var sp, sq *canvas.Path
		ok, _ := latgeo.Try(func() {
			sp = s.buildP().Settle(canvas.NonZero)
			sq = s.buildQ().Settle(canvas.NonZero)
		})
		if ok {
			a := func(p *canvas.Path) float64 { return latgeo.Area(p) }
			scale := math.Abs(s.Emb.Det())
			tol := 1e-6 * scale * 64
			aAnd, aOr, aXor, aNot, aDiv, aP, aQ := a(res["and"]), a(res["or"]), a(res["xor"]), a(res["not"]), a(res["div"]), a(sp), a(sq)
			if rel := 1e-5 * (math.Abs(aP) + math.Abs(aQ)); rel > tol {
				tol = rel // snapping moves every vertex by up to the 1e-8 grid whatever the scale: at scale 1e-3 that is 1e-5 of the size
			}
			chk := func(name string, lhs, rhs float64) {
				if math.Abs(lhs-rhs) > tol || math.IsNaN(lhs) || math.IsNaN(rhs) {
					ms = append(ms, core.Mismatch{Signature: "area-law-" + name + "+" + s.tag(), Detail: fmt.Sprintf("P=%s Q=%s emb=%s: %s: %.9g vs %.9g (areas and=%.6g or=%.6g xor=%.6g not=%.6g div=%.6g P=%.6g Q=%.6g)",
						s.psvg(), s.qsvg(), s.Emb.Name, name, lhs, rhs, aAnd, aOr, aXor, aNot, aDiv, aP, aQ)})
				}
			}
			// only meaningful when the cell checks passed (otherwise the cause is already reported)
			if len(ms) == 0 {
				chk("and+or=P+Q", aAnd+aOr, aP+aQ)
				chk("xor=or-and", aXor, aOr-aAnd)
				chk("not=P-and", aNot, aP-aAnd)
				chk("div=P", aDiv, aP)
			}
		}
	}
	// the Paths entry points (unsplit operands in a Paths value) must give the region of the Path methods: judged on one
	// operation per scenario, and only where the Path method itself was right
	if len(ms) == 0 && s.CP == nil {
		op := ops[int(hash(s.psvg()+s.qsvg()+s.Emb.Name))%len(ops)]
		var r *canvas.Path
		ps, qs := canvas.Paths{s.buildP()}, canvas.Paths{s.buildQ()}
		ok, msg := latgeo.Try(func() {
			switch op {
			case "and":
				r = ps.And(qs)
			case "or":
				r = ps.Or(qs)
			case "xor":
				r = ps.Xor(qs)
			case "not":
				r = ps.Not(qs)
			default:
				r = ps.DivideBy(qs)
			}
		})
		if !ok {
			ms = append(ms, core.Mismatch{Signature: "paths-entry-panic-" + op + ":" + latgeo.PanicClass(msg) + "+" + s.tag(), Detail: fmt.Sprintf("Paths{P}.%s(Paths{Q}) panics although P.%s(Q) does not: P=%s Q=%s emb=%s: %v", op, op, s.psvg(), s.qsvg(), s.Emb.Name, msg)})
		} else if w, err := latgeo.Windings(r, pts, 8); err == nil {
			for i, e := range s.Exp[op] {
				if e != 2 && (w[i] != 0) != (e == 1) {
					ms = append(ms, core.Mismatch{Signature: "paths-entry-cells-" + op + "+" + s.tag(), Detail: fmt.Sprintf("Paths{P}.%s(Paths{Q}) differs from P.%s(Q): P=%s Q=%s emb=%s: sample %v expected filled=%d, result winding %d; result=%s", op, op, s.psvg(), s.qsvg(), s.Emb.Name, pts[i], e, w[i], r)})
					break
				}
			}
		}
	}
	if s.Space == "tri" || s.Space == "fixed" { // deterministic spaces: known findings are recorded per input
		for i := range ms {
			ms[i].Key = ms[i].Signature + "|" + s.psvg() + "|" + s.qsvg() + "|" + s.Emb.Name
		}
	}
	return
}

func (Driver) Replay(c *core.Ctx, raw json.RawMessage) []core.Mismatch {
	var probe struct {
		Kind string `json:"kind"`
	}
	if json.Unmarshal(raw, &probe) == nil && probe.Kind == "prog" {
		var ps ProgScenario
		if err := json.Unmarshal(raw, &ps); err != nil {
			return []core.Mismatch{{Signature: "machinery", Detail: err.Error()}}
		}
		return execProg(&ps, true)
	}
	var s Scenario
	if err := json.Unmarshal(raw, &s); err != nil {
		return []core.Mismatch{{Signature: "machinery", Detail: err.Error()}}
	}
	return exec(&s, true)
}

func cfg(n, k, nc int, mode string, num int, what string, mc bool) string {
	s := fmt.Sprintf("SPECIFICATION Spec\nCONSTANTS N = %d\n K = %d\n NC = %d\n Mode = \"%s\"\n Num = %d\n What = \"%s\"\nCHECK_DEADLOCK FALSE\n", n, k, nc, mode, num, what)
	if mc {
		s += "INVARIANTS LawsOK SettleLaws\n"
	}
	return s
}

// embeddings used for a scenario index (all scenarios get the identity; others rotate through the list)
func embsFor(i int64, thorough bool) []latgeo.Emb {
	extra := []latgeo.Emb{latgeo.Symmetries[1], latgeo.Symmetries[4], latgeo.Symmetries[6], latgeo.Translate, latgeo.Tiny, latgeo.Huge, latgeo.Pyth, latgeo.Shear, latgeo.Symmetries[2], latgeo.Symmetries[7], latgeo.Aniso, latgeo.Jitter, latgeo.Jitter2}
	out := []latgeo.Emb{latgeo.Identity, extra[int(i)%len(extra)]}
	if thorough {
		out = append(out, extra[int(i/7+3)%len(extra)])
	}
	return out
}

func hash(s string) uint32 {
	h := uint32(2166136261)
	for i := 0; i < len(s); i++ {
		h = (h ^ uint32(s[i])) * 16777619
	}
	return h >> 1
}

type runner struct {
	c          *core.Ctx
	n, nontriv int64
	seen       sync.Map
	inflight   sync.Map // *stamp -> true: scenarios being executed right now
}
type stamp struct {
	t time.Time
	s *Scenario
}

// runGen runs one TLC generation config and replays every scenario.
func (r *runner) runGen(space string, o tlc.Opts) {
	c := r.c
	var hdr Line
	ch := make(chan []byte, 8192)
	o.OnLine = func(p []byte) {
		if hdr.S == 0 {
			var l Line
			if json.Unmarshal(p, &l) == nil && l.Hdr {
				hdr = l
				return
			}
		}
		ch <- append([]byte(nil), p...)
	}
	done := make(chan struct{})
	go func() {
		core.Parallel(14, ch, func(p []byte) {
			var l Line
			if err := json.Unmarshal(p, &l); err != nil {
				c.Broken("bad scenario line: " + err.Error())
				return
			}
			k := atomic.AddInt64(&r.n, 1)
			exp := map[string][]int{"and": l.And, "or": l.Or, "xor": l.Xor, "not": l.Not, "div": l.Div}
			nt := false
			for _, v := range l.And {
				if v == 1 {
					nt = true
				}
			}
			if nt {
				key := l.P.SVG() + "|" + l.Q.SVG()
				if _, dup := r.seen.LoadOrStore(key, true); !dup {
					atomic.AddInt64(&r.nontriv, 1)
				}
			}
			for _, e := range embsFor(int64(hash(l.P.SVG()+"|"+l.Q.SVG())), c.Thorough()) {
				if strings.HasPrefix(e.Name, "jitter") && (l.F["pdeg"] || l.F["qdeg"]) {
					// a zero-area contour under sub-grid jitter can make the sweep loop forever (known finding
					// timeout+degenerate~jitter, witnessed once per run in a child process, see hangWitness): such
					// scenarios are run under the rotation embedding instead, a hang cannot be abandoned in-process
					e = latgeo.Pyth
				}
				s := &Scenario{Kind: "bool", S: hdr.S, Samples: hdr.Samples, P: l.P, Q: l.Q, Emb: e, Exp: exp, F: l.F, Space: space}
				if hangKeys[s.psvg()+"|"+s.qsvg()+"|"+s.Emb.Name] {
					continue // witnessed in a child process (hangWitness)
				}
				st := &stamp{time.Now(), s}
				r.inflight.Store(st, true)
				ms := exec(s, false)
				r.inflight.Delete(st)
				c.Count(5, 0, 1)
				if k%100000 == 7 && e.Name == "id" {
					c.Sample(map[string]any{"p": l.P.SVG(), "q": l.Q.SVG(), "expected_and": l.And, "expected_or": l.Or})
				}
				c.Report(s, ms)
			}
		})
		close(done)
	}()
	c.TLC(o, true)
	close(ch)
	<-done
}

// ---- register programs: (P op1 Q1) op2 Q2 -----------------------------------------------------------------------

type ProgScenario struct {
	Kind    string          `json:"kind"` // "prog"
	S       int             `json:"S"`
	Samples [][2]int        `json:"samples"`
	P       latgeo.LPath    `json:"p"`
	Q1      latgeo.LPath    `json:"q1"`
	Q2      latgeo.LPath    `json:"q2"`
	Emb     latgeo.Emb      `json:"emb"`
	Cells   [][][]int       `json:"cells"` // [op1][op2][sample]
	F       map[string]bool `json:"f"`
}

var progOps = []string{"and", "or", "xor", "not"}

func execProg(s *ProgScenario, guard bool) (ms []core.Mismatch) {
	tagger := &Scenario{P: s.P, Emb: s.Emb, F: s.F, Space: "prog"}
	pts := latgeo.SamplePts(s.Samples, s.S, s.Emb)
	for i, op1 := range progOps {
		for j, op2 := range progOps {
			var r *canvas.Path
			run := func() {
				r1 := apply(op1, latgeo.Build(s.P, s.Emb), latgeo.Build(s.Q1, s.Emb))
				r = apply(op2, r1, latgeo.Build(s.Q2, s.Emb))
			}
			var kind string
			var msg any
			if guard {
				kind, msg = latgeo.Guard(20*time.Second, run)
			} else if ok, m := latgeo.Try(run); !ok {
				kind, msg = "panic", m
			}
			if kind != "" {
				ms = append(ms, core.Mismatch{Signature: kind + "-" + op2 + ":" + latgeo.PanicClass(msg) + "+" + tagger.tag(),
					Detail: fmt.Sprintf("(P %s Q1) %s Q2 %s: P=%s Q1=%s Q2=%s emb=%s: %v", op1, op2, kind, s.P.SVG(), s.Q1.SVG(), s.Q2.SVG(), s.Emb.Name, msg)})
				continue
			}
			w, err := latgeo.Windings(r, pts, 8)
			if err != nil {
				ms = append(ms, core.Mismatch{Signature: "result-undecodable-" + op2, Detail: err.Error()})
				continue
			}
			exp := s.Cells[i][j]
			for k := range exp {
				if exp[k] != 2 && (w[k] != 0) != (exp[k] == 1) {
					sig := "cells-" + op2 + "+" + tagger.tag()
					ms = append(ms, core.Mismatch{Signature: sig, Detail: fmt.Sprintf("(P %s Q1) %s Q2: P=%s Q1=%s Q2=%s emb=%s: sample (lattice %.3f,%.3f) expected filled=%d, result winding %d; result=%s",
						op1, op2, s.P.SVG(), s.Q1.SVG(), s.Q2.SVG(), s.Emb.Name, float64(s.Samples[k][0])/float64(s.S), float64(s.Samples[k][1])/float64(s.S), exp[k], w[k], r)})
					break
				}
			}
		}
	}
	return
}

func (r *runner) runProg(o tlc.Opts) {
	c := r.c
	type pline struct {
		Hdr     bool            `json:"hdr,omitempty"`
		S       int             `json:"S,omitempty"`
		Samples [][2]int        `json:"samples,omitempty"`
		P       latgeo.LPath    `json:"p,omitempty"`
		Q1      latgeo.LPath    `json:"q1,omitempty"`
		Q2      latgeo.LPath    `json:"q2,omitempty"`
		Cells   [][][]int       `json:"cells,omitempty"`
		F       map[string]bool `json:"f,omitempty"`
	}
	var hdr pline
	ch := make(chan []byte, 4096)
	o.OnLine = func(p []byte) {
		if hdr.S == 0 {
			var l pline
			if json.Unmarshal(p, &l) == nil && l.Hdr {
				hdr = l
				return
			}
		}
		ch <- append([]byte(nil), p...)
	}
	done := make(chan struct{})
	go func() {
		core.Parallel(14, ch, func(p []byte) {
			var l pline
			if err := json.Unmarshal(p, &l); err != nil || len(l.P) == 0 {
				c.Broken("bad program scenario line")
				return
			}
			k := atomic.AddInt64(&r.n, 1)
			key := l.P.SVG() + "|" + l.Q1.SVG() + "|" + l.Q2.SVG()
			if _, dup := r.seen.LoadOrStore(key, true); !dup {
				atomic.AddInt64(&r.nontriv, 1)
			}
			for _, e := range embsFor(int64(hash(key)), false) {
				s := &ProgScenario{Kind: "prog", S: hdr.S, Samples: hdr.Samples, P: l.P, Q1: l.Q1, Q2: l.Q2, Emb: e, Cells: l.Cells, F: l.F}
				ms := execProg(s, false)
				c.Count(32, 0, 1)
				if k%3000 == 5 && e.Name == "id" {
					c.Sample(map[string]any{"program": "(P op1 Q1) op2 Q2", "p": l.P.SVG(), "q1": l.Q1.SVG(), "q2": l.Q2.SVG()})
				}
				c.Report(s, ms)
			}
		})
		close(done)
	}()
	c.TLC(o, true)
	close(ch)
	<-done
}

// runCurved: pairs of cubic contours from spec/CurvedOps.tla (exact expectation through dyadic subdivision), embedded at large scale.
func (r *runner) runCurved(o tlc.Opts) {
	c := r.c
	type cline struct {
		Hdr     bool         `json:"hdr,omitempty"`
		S       int          `json:"S,omitempty"`
		Samples [][2]int     `json:"samples,omitempty"`
		P       latgeo.CPath `json:"p,omitempty"`
		Q       latgeo.CPath `json:"q,omitempty"`
		And     []int        `json:"and,omitempty"`
		Or      []int        `json:"or,omitempty"`
		Xor     []int        `json:"xor,omitempty"`
		Not     []int        `json:"not,omitempty"`
		Div     []int        `json:"div,omitempty"`
		Mand    []int        `json:"mand,omitempty"`
		Mor     []int        `json:"mor,omitempty"`
		Mxor    []int        `json:"mxor,omitempty"`
		Mnot    []int        `json:"mnot,omitempty"`
		Mdiv    []int        `json:"mdiv,omitempty"`
	}
	var hdr cline
	ch := make(chan []byte, 4096)
	o.OnLine = func(p []byte) {
		if hdr.S == 0 {
			var l cline
			if json.Unmarshal(p, &l) == nil && l.Hdr {
				hdr = l
				return
			}
		}
		ch <- append([]byte(nil), p...)
	}
	done := make(chan struct{})
	go func() {
		core.Parallel(14, ch, func(p []byte) {
			var l cline
			if err := json.Unmarshal(p, &l); err != nil || len(l.P) == 0 {
				c.Broken("bad curved scenario line")
				return
			}
			k := atomic.AddInt64(&r.n, 1)
			key := l.P.SVG() + "|" + l.Q.SVG()
			if _, dup := r.seen.LoadOrStore(key, true); !dup {
				atomic.AddInt64(&r.nontriv, 1)
			}
			// a large-scale embedding (exact cells) and a natural-scale one (cells with the flattening margin)
			for ei, e := range []latgeo.Emb{latgeo.CurvedEmbeddings[int(hash(key))%len(latgeo.CurvedEmbeddings)], latgeo.NaturalEmbeddings[int(hash(key)/7)%len(latgeo.NaturalEmbeddings)]} {
				exp := map[string][]int{"and": l.And, "or": l.Or, "xor": l.Xor, "not": l.Not, "div": l.Div}
				if ei == 1 {
					exp = map[string][]int{"and": l.Mand, "or": l.Mor, "xor": l.Mxor, "not": l.Mnot, "div": l.Mdiv}
				}
				s := &Scenario{Kind: "bool", S: hdr.S, Samples: hdr.Samples, CP: l.P, CQ: l.Q, Emb: e, Space: "curved", Exp: exp}
				ms := exec(s, false)
				c.Count(5, 0, 1)
				if k%5000 == 11 && ei == 0 {
					c.Sample(map[string]any{"curved_p": l.P.SVG(), "curved_q": l.Q.SVG(), "expected_and": l.And})
				}
				c.Report(s, ms)
			}
		})
		close(done)
	}()
	c.TLC(o, true)
	close(ch)
	<-done
}

func ccfg(n, k, num int) string {
	return fmt.Sprintf("SPECIFICATION Spec\nCONSTANTS N = %d\n K = %d\n Num = %d\n What = \"bool\"\nINVARIANTS SubdivOK\nCHECK_DEADLOCK FALSE\n", n, k, num)
}

// hangWitness re-executes the recorded witness of the known non-termination (a spike contour next to a triangle
// under sub-grid jitter: known_findings.d/C01-hang-witness.json) in a CHILD process, which can be killed: if the
// operations still do not return it is counted as the known finding timeout-<op>+degenerate@tri~jitter; if they
// return, nothing is reported (the defect is gone). Any other outcome of the child is a machinery failure.
func hangWitness(c *core.Ctx) {
	exe, err := os.Executable()
	if err != nil {
		c.Broken("hang witness: " + err.Error())
		return
	}
	// witnesses: the single replay file of the spike/jitter hang and one replay record per line of the ndjson file
	var recs [][]byte
	if raw, err := os.ReadFile(filepath.Join(core.VerifDir, "known_findings.d", "C01-hang-witness.json")); err == nil {
		recs = append(recs, raw)
	}
	if raw, err := os.ReadFile(filepath.Join(core.VerifDir, "known_findings.d", "C01-hang-witnesses.ndjson")); err == nil {
		for _, ln := range bytes.Split(raw, []byte("\n")) {
			if len(bytes.TrimSpace(ln)) > 0 {
				recs = append(recs, ln)
			}
		}
	}
	dir, err := os.MkdirTemp("", "c01-hang-")
	if err != nil {
		c.Broken("hang witness: " + err.Error())
		return
	}
	defer os.RemoveAll(dir)
	var wg sync.WaitGroup
	for i, raw := range recs {
		var rec struct {
			Signature string          `json:"signature"`
			Scenario  json.RawMessage `json:"scenario"`
		}
		if json.Unmarshal(raw, &rec) != nil {
			c.Broken("hang witness unreadable")
			continue
		}
		path := filepath.Join(dir, fmt.Sprintf("w%d.json", i))
		os.WriteFile(path, raw, 0o644)
		wg.Add(1)
		go func() {
			defer wg.Done()
			ctx, cancel := context.WithTimeout(context.Background(), 3*time.Minute)
			defer cancel()
			cmd := exec_.CommandContext(ctx, exe, "C01", "--replay", path)
			// the child is killed by the time limit; a call that allocates without end is stopped by the child's own memory guard
			cmd.Env = append(os.Environ(), "VERIF_OUT="+dir, "VERIF_MEM_GB=3")
			out, _ := cmd.CombinedOutput()
			var ms []core.Mismatch
			var s Scenario
			json.Unmarshal(rec.Scenario, &s)
			for _, ln := range strings.Split(string(out), "\n") {
				if i := strings.Index(ln, "mismatch signature="); i >= 0 {
					f := strings.SplitN(ln[i+len("mismatch signature="):], " ", 2)
					if strings.HasPrefix(f[0], "timeout-") {
						ms = append(ms, core.Mismatch{Signature: f[0], Detail: "child process: " + ln[i:]})
					}
				}
			}
			if len(ms) == 0 && strings.Contains(string(out), "process memory") {
				ms = append(ms, core.Mismatch{Signature: "nontermination+" + s.tag(), Detail: fmt.Sprintf("child process: P=%s Q=%s emb=%s: a boolean operation allocates without end (the child's memory guard of 3 GB ended it)", s.psvg(), s.qsvg(), s.Emb.Name)})
			}
			c.Count(5, 0, 1)
			if len(ms) > 0 {
				c.Report(&s, ms)
			}
		}()
	}
	wg.Wait()
}

// hangKeys: scenarios that are known not to terminate are never executed in-process (they are witnessed in child processes)
var hangKeys = func() map[string]bool {
	m := map[string]bool{}
	if raw, err := os.ReadFile(filepath.Join(core.VerifDir, "known_findings.d", "C01-hang-witnesses.ndjson")); err == nil {
		for _, ln := range bytes.Split(raw, []byte("\n")) {
			var rec struct {
				Scenario Scenario `json:"scenario"`
			}
			if json.Unmarshal(ln, &rec) == nil && len(rec.Scenario.P) > 0 {
				m[rec.Scenario.psvg()+"|"+rec.Scenario.qsvg()+"|"+rec.Scenario.Emb.Name] = true
			}
		}
	}
	return m
}()

func (d Driver) Run(c *core.Ctx) error {
	c.Rule = "scenario = ordered pair of lattice paths (1-2 contours, 3-5 vertices each, all degenerate placements) printed by spec/BoolOps.tla with the expected three-valued cells of And/Or/Xor/Not/DivideBy, executed under 2-3 affine embeddings; evaluations = real boolean operations executed; non-trivial = distinct pairs whose regions overlap on at least one sample cell"
	c.Assumptions = []string{"operands are lattice polygons and their affine images; the winding oracle (harness/internal/oracle) evaluates results at sample points that the spec proved to be off every input boundary",
		"area laws are checked on the real outputs with tolerance 6.4e-5 * |det embedding| (snap grid 1e-8 * perimeter)"}
	r := &runner{c: c}
	c.AbortInfo = func() string {
		var out []string
		r.inflight.Range(func(k, _ any) bool {
			if st := k.(*stamp); time.Since(st.t) > 5*time.Second {
				out = append(out, fmt.Sprintf("P=%s Q=%s emb=%s space=%s (%.0f s)", st.s.psvg(), st.s.qsvg(), st.s.Emb.Name, st.s.Space, time.Since(st.t).Seconds()))
			}
			return true
		})
		return strings.Join(out, " | ")
	}
	// watchdog: an operation that does not return within 2 minutes is re-executed under a per-operation time limit;
	// if that reproduces the non-termination it is reported and the run ends (the worker goroutine is lost). A slow
	// but terminating scenario (machine load, GC) is left alone; a worker stuck for 20 minutes ends the run as a
	// machinery failure.
	stop := make(chan struct{})
	go func() {
		handled := map[*stamp]bool{}
		for {
			select {
			case <-stop:
				return
			case <-time.After(5 * time.Second):
			}
			r.inflight.Range(func(k, _ any) bool {
				st := k.(*stamp)
				if time.Since(st.t) > 20*time.Minute {
					c.Broken("worker stuck for 20 minutes on a scenario that terminates under replay: P=" + st.s.psvg() + " Q=" + st.s.qsvg() + " emb=" + st.s.Emb.Name)
					os.Exit(c.Finish())
				}
				if time.Since(st.t) > 2*time.Minute && !handled[st] {
					handled[st] = true
					ms := exec(st.s, true)
					hang := false
					for _, m := range ms {
						if strings.HasPrefix(m.Signature, "timeout") {
							hang = true
						}
					}
					if hang {
						c.Report(st.s, ms)
						os.Exit(c.Finish())
					}
				}
				return true
			})
		}
	}()
	defer close(stop)

	wdone := make(chan struct{})
	go func() { hangWitness(c); close(wdone) }() // runs beside the other stages (100 s of time-outs in a child process)
	defer func() { <-wdone }()

	// 1. model level: the laws of the region algebra on the expected cells (small exhaustive space)
	c.TLC(tlc.Opts{Module: "BoolOps", Config: cfg(2, 3, 1, "random", c.Pick(60, 250), "bool", true), Seed: c.Seed, Coverage: c.Thorough()}, true)

	// 2. spec -> code   (development aid: VERIF_C01_ONLY=traces skips this stage)
	if os.Getenv("VERIF_C01_ONLY") == "traces" {
	} else if c.Thorough() {
		r.runGen("tri", tlc.Opts{Module: "BoolOps", Config: cfg(2, 3, 1, "all", 0, "bool", false), Timeout: 30 * time.Minute}) // all 531 441 pairs of <=3-point contours on 3x3
		r.runGen("pent", tlc.Opts{Module: "BoolOps", Config: cfg(4, 5, 1, "random", 500, "bool", false), Seed: c.Seed, Timeout: 30 * time.Minute})
		r.runGen("two", tlc.Opts{Module: "BoolOps", Config: cfg(3, 4, 2, "random", 120, "bool", false), Seed: c.Seed + 1, Timeout: 30 * time.Minute})
		r.runGen("hex", tlc.Opts{Module: "BoolOps", Config: cfg(6, 6, 1, "random", 250, "bool", false), Seed: c.Seed + 2, Timeout: 30 * time.Minute})
		r.runProg(tlc.Opts{Module: "BoolOps", Config: cfg(3, 4, 1, "random", 60, "prog", false), Seed: c.Seed + 5, Timeout: 30 * time.Minute}) // 10 800 programs x 16 op pairs
		r.runCurved(tlc.Opts{Module: "CurvedOps", Config: ccfg(4, 3, 60), Seed: c.Seed + 3, Timeout: 30 * time.Minute})
		r.runCurved(tlc.Opts{Module: "CurvedOps", Config: ccfg(5, 2, 40), Seed: c.Seed + 4, Timeout: 30 * time.Minute})
	} else {
		r.runGen("tri", tlc.Opts{Module: "BoolOps", Config: cfg(2, 3, 1, "random", 240, "bool", false), Seed: 7777})        // a fixed 57 600-pair sample of the tri space (deterministic: known findings per input)
		r.runGen("pent", tlc.Opts{Module: "BoolOps", Config: cfg(4, 5, 1, "random", 130, "bool", false), Seed: c.Seed + 1}) // 16 900 pentagon pairs on 5x5
		r.runGen("two", tlc.Opts{Module: "BoolOps", Config: cfg(3, 4, 2, "random", 40, "bool", false), Seed: c.Seed + 2})   // two contours per operand
		r.runProg(tlc.Opts{Module: "BoolOps", Config: cfg(3, 4, 1, "random", 14, "prog", false), Seed: c.Seed + 5})         // 588 programs x 16 op pairs
		r.runCurved(tlc.Opts{Module: "CurvedOps", Config: ccfg(4, 3, 20), Seed: c.Seed + 3})                                // 400 pairs of cubic contours
	}
	c.Count(0, r.nontriv, 0)
	c.SetExtra("pairs", r.n)

	// 3. code -> spec: larger random scenes recorded from the real operations, judged by Trace_BoolOps
	d.traces(c)
	return nil
}

// ---- code -> spec ---------------------------------------------------------------------------------------------

const sceneN = 8 // lattice 0..8 (scaled by 15: coordinates <= 120, safe for 32-bit cross products)

type sceneEv struct {
	P   latgeo.LPath     `json:"p"`
	Q   latgeo.LPath     `json:"q"`
	Obs map[string][]int `json:"obs"`
}

func randScenePath(r *rand.Rand) latgeo.LPath {
	var p latgeo.LPath
	for c := 0; c < 1+r.Intn(4); c++ {
		var ct latgeo.LContour
		x0, y0, w := r.Intn(sceneN-2), r.Intn(sceneN-2), 3+r.Intn(sceneN-2)
		for v := 0; v < 3+r.Intn(5); v++ {
			ct = append(ct, [2]int{min(sceneN, x0+r.Intn(w)), min(sceneN, y0+r.Intn(w))})
		}
		p = append(p, ct)
	}
	return p
}

func sceneCfg(n int) string {
	return fmt.Sprintf("SPECIFICATION TSpec\nCONSTANTS N = %d\n K = 0\n NC = 0\n Mode = \"trace\"\n Num = 0\n What = \"bool\"\nCHECK_DEADLOCK FALSE\n", n)
}

// bandScene: many disjoint rectangles in separate y-bands with overlapping x-extents (many simultaneously active sweep
// edges that enter and leave the status in interleaved order) and one enclosing rectangle; nothing degenerate.
const bandN = 20

func bandScene(r *rand.Rand) (latgeo.LPath, latgeo.LPath) {
	var p latgeo.LPath
	k := 6 + r.Intn(4)
	for i := 0; i < k; i++ {
		y0 := 2*i + 1
		x0 := 1 + r.Intn(8)
		x1 := x0 + 3 + r.Intn(19-x0-3)
		rect := latgeo.LContour{{x0, y0}, {x1, y0}, {x1, y0 + 1}, {x0, y0 + 1}}
		if r.Intn(2) == 0 {
			rect = latgeo.LContour{rect[0], rect[3], rect[2], rect[1]}
		}
		p = append(p, rect)
	}
	q := latgeo.LPath{{{0, 0}, {bandN, 0}, {bandN, bandN}, {0, bandN}}}
	if r.Intn(3) == 0 { // a band-crossing wedge instead of the enclosing rectangle
		q = latgeo.LPath{{{0, 0}, {bandN, 3}, {2, bandN}}}
	}
	if r.Intn(2) == 0 {
		return q, p
	}
	return p, q
}

// plateScene: one operand is a plate (outer rectangle) with 2-4 pairwise disjoint rectangular holes/islands listed in
// random order and orientation (contours of ONE operand that touch a common "hub" contour but not each other); the
// other operand is a small box inside a hole, across a hole's edge, across the plate's rim, or clear of the plate.
// Plate coordinates are odd and box coordinates even, so nothing is degenerate.
func plateScene(r *rand.Rand) (latgeo.LPath, latgeo.LPath) {
	orient := func(ct latgeo.LContour) latgeo.LContour {
		if r.Intn(2) == 0 {
			return latgeo.LContour{ct[0], ct[3], ct[2], ct[1]}
		}
		return ct
	}
	rect := func(x0, y0, x1, y1 int) latgeo.LContour {
		return latgeo.LContour{{x0, y0}, {x1, y0}, {x1, y1}, {x0, y1}}
	}
	p := latgeo.LPath{orient(rect(1, 1, 15, 15))}
	// the plate's interior 3..13 is cut in four 5x5 quadrants; each chosen quadrant gets one hole
	quads := r.Perm(4)[:2+r.Intn(3)]
	var holes []latgeo.LContour
	for _, qd := range quads {
		ox, oy := 3+(qd%2)*6, 3+(qd/2)*6 // quadrant origin 3 or 9, extent 4
		x0, y0 := ox+2*r.Intn(2), oy+2*r.Intn(2)
		x1, y1 := x0+2, y0+2
		if x0 == ox && r.Intn(2) == 0 {
			x1 += 2
		}
		if y0 == oy && r.Intn(2) == 0 {
			y1 += 2
		}
		holes = append(holes, rect(x0, y0, x1, y1))
	}
	for _, h := range holes {
		p = append(p, orient(h))
	}
	if r.Intn(3) == 0 { // hub not first
		i := 1 + r.Intn(len(p)-1)
		p[0], p[i] = p[i], p[0]
	}
	var q latgeo.LPath
	h := holes[r.Intn(len(holes))]
	switch r.Intn(5) {
	case 0: // clear of the plate
		q = latgeo.LPath{orient(rect(16, 2*r.Intn(8), 20, 2*r.Intn(2)+16))}
	case 1: // across the rim
		y := 2 * (1 + r.Intn(6))
		q = latgeo.LPath{orient(rect(0, y, 2, y+2))}
	case 2: // across one hole's edge (even coordinates straddling the hole's left side)
		q = latgeo.LPath{orient(rect(h[0][0]-1, h[0][1]-1, h[0][0]+1, h[0][1]+1))}
	case 3: // strictly inside a hole when it is wide enough, else a small box clear of the plate
		if h[2][0]-h[0][0] == 4 && h[2][1]-h[0][1] == 4 {
			q = latgeo.LPath{orient(rect(h[0][0]+1, h[0][1]+1, h[0][0]+3, h[0][1]+3))}
		} else {
			q = latgeo.LPath{orient(rect(16, 16, 18, 18))}
		}
	default: // covering everything
		q = latgeo.LPath{orient(rect(0, 0, 16+2*r.Intn(3), 16+2*r.Intn(3)))}
	}
	if r.Intn(2) == 0 {
		return q, p
	}
	return p, q
}

// islandScene: both operands are archipelagos of 2-5 small rectangles or triangles in the slots of a 5x5 grid of 4x4
// cells; a contour may reach into the neighbouring slot, so bounding boxes of contours of the same and of the other
// operand touch in every combination (none, same operand only, other operand only, chains) with and without the
// contours themselves crossing. P uses odd and Q even coordinates: nothing is degenerate.
func islandScene(r *rand.Rand) (latgeo.LPath, latgeo.LPath) {
	mk := func(par int) latgeo.LPath {
		var p latgeo.LPath
		for _, slot := range r.Perm(25)[:2+r.Intn(4)] {
			ox, oy := 4*(slot%5), 4*(slot/5)
			x0, y0 := ox+par, oy+par
			w, h := 2, 2
			if r.Intn(3) == 0 && x0+4 <= bandN {
				w = 4
			}
			if r.Intn(3) == 0 && y0+4 <= bandN {
				h = 4
			}
			var ct latgeo.LContour
			switch r.Intn(3) {
			case 0:
				ct = latgeo.LContour{{x0, y0}, {x0 + w, y0}, {x0, y0 + h}}
			case 1:
				ct = latgeo.LContour{{x0, y0}, {x0 + w, y0 + h}, {x0, y0 + h}}
			default:
				ct = latgeo.LContour{{x0, y0}, {x0 + w, y0}, {x0 + w, y0 + h}, {x0, y0 + h}}
			}
			if r.Intn(2) == 0 {
				for i, j := 1, len(ct)-1; i < j; i, j = i+1, j-1 {
					ct[i], ct[j] = ct[j], ct[i]
				}
			}
			p = append(p, ct)
		}
		return p
	}
	return mk(1), mk(0)
}

// fixedScene: the fixed-seed shared-edge family (the same generator as C02's): P = two contours sharing an edge in the
// same or in opposite directions, or one contour doubling back over its own edge; Q = one to three thin triangles whose
// long edges cross the shared stretch at non-lattice points. The scenes do not depend on VERIF_SEED: failures of the
// unchanged tree in this family are known findings PER INPUT, so that a change failing on any other scene is reported
// although the overlap class is not clean.
func cross2(a, b, c [2]int) int { return (b[0]-a[0])*(c[1]-a[1]) - (b[1]-a[1])*(c[0]-a[0]) }
func properCross2(a, b, u, v [2]int) bool {
	d1, d2, d3, d4 := cross2(a, b, u), cross2(a, b, v), cross2(u, v, a), cross2(u, v, b)
	return d1 != 0 && d2 != 0 && d3 != 0 && d4 != 0 && (d1 > 0) != (d2 > 0) && (d3 > 0) != (d4 > 0)
}
func fixedScene(r *rand.Rand) (latgeo.LPath, latgeo.LPath) {
	const n = 16
	pt := func(even bool) [2]int {
		if even {
			return [2]int{2 * r.Intn(n/2+1), 2 * r.Intn(n/2+1)}
		}
		return [2]int{r.Intn(n + 1), r.Intn(n + 1)}
	}
	for {
		a, b := pt(true), pt(true)
		if dx, dy := a[0]-b[0], a[1]-b[1]; dx*dx+dy*dy < 16 {
			continue
		}
		var p latgeo.LPath
		if r.Intn(3) == 0 {
			mid, e := [2]int{(a[0] + b[0]) / 2, (a[1] + b[1]) / 2}, pt(false)
			if cross2(a, b, e) == 0 {
				continue
			}
			p = latgeo.LPath{{b, a, mid, e}}
		} else {
			c1, d := pt(false), pt(false)
			if cross2(a, b, c1) == 0 || cross2(a, b, d) == 0 {
				continue
			}
			second := latgeo.LContour{b, a, d}
			if r.Intn(2) == 0 {
				second = latgeo.LContour{a, b, d}
			}
			p = latgeo.LPath{{a, b, c1}, second}
		}
		var q latgeo.LPath
		for t := 0; t < 1+r.Intn(3); t++ {
			for try := 0; try < 200; try++ {
				u, v, w := pt(false), pt(false), pt(false)
				if properCross2(a, b, u, v) && properCross2(a, b, u, w) && cross2(u, v, w) != 0 {
					q = append(q, latgeo.LContour{u, v, w})
					break
				}
			}
		}
		if len(q) == 0 {
			continue
		}
		if r.Intn(2) == 0 {
			return q, p
		}
		return p, q
	}
}

func (d Driver) traces(c *core.Ctx) {
	d.tracesN(c, sceneN, c.Pick(300, 6000), "scene", func(r *rand.Rand) (latgeo.LPath, latgeo.LPath) { return randScenePath(r), randScenePath(r) })
	d.tracesN(c, bandN, c.Pick(24, 400), "bands", bandScene)
	d.tracesN(c, bandN, c.Pick(40, 600), "plate", plateScene)
	d.tracesN(c, bandN, c.Pick(40, 600), "islands", islandScene)
	d.tracesN(c, 16, c.Pick(1200, 4000), "fixed", fixedScene)
}

func (d Driver) tracesN(c *core.Ctx, latticeN, n int, space string, gen func(r *rand.Rand) (latgeo.LPath, latgeo.LPath)) {
	// sample points of the trace module (header line of BoolOps with the same N)
	hres := c.TLC(tlc.Opts{Module: "BoolOps", Config: fmt.Sprintf("SPECIFICATION Spec\nCONSTANTS N = %d\n K = 3\n NC = 1\n Mode = \"random\"\n Num = 1\n What = \"bool\"\nCHECK_DEADLOCK FALSE\n", latticeN), Seed: 1, Workers: 1}, true)
	var hdr Line
	for _, l := range hres.Lines {
		var x Line
		if json.Unmarshal(l, &x) == nil && x.Hdr {
			hdr = x
		}
	}
	if hdr.S == 0 {
		c.Broken("no header from BoolOps for the trace scenes")
		return
	}
	pts := latgeo.SamplePts(hdr.Samples, hdr.S, latgeo.Identity)
	r := rand.New(rand.NewSource(c.Seed*104729 + int64(latticeN) + int64(hash(space))))
	if space == "fixed" {
		r = rand.New(rand.NewSource(20260928)) // independent of VERIF_SEED; the quick tier runs a prefix of the thorough tier's scenes
	}
	var evs []sceneEv
	var buf bytes.Buffer
	enc := json.NewEncoder(&buf)
	for i := 0; i < n; i++ {
		gp, gq := gen(r)
		ev := sceneEv{P: gp, Q: gq, Obs: map[string][]int{}}
		bad := false
		for _, op := range ops {
			var res *canvas.Path
			// under a watchdog: a call that does not return is judged (as timeout-<op>) through the scenario path below
			if kind, _ := latgeo.Guard(20*time.Second, func() { res = apply(op, latgeo.Build(ev.P, latgeo.Identity), latgeo.Build(ev.Q, latgeo.Identity)) }); kind != "" {
				bad = true // a panic or a hang is not expressible as an observation: judged through the scenario path below
				break
			}
			w, err := latgeo.Windings(res, pts, 8)
			if err != nil {
				bad = true
				break
			}
			o := make([]int, len(w))
			for k := range w {
				if w[k] != 0 {
					o[k] = 1
				}
			}
			ev.Obs[op] = o
		}
		if bad {
			// report directly (expectations come from the spec in expect mode below): log with empty observations so that it is rejected
			for _, op := range ops {
				ev.Obs[op] = make([]int, len(pts))
				for k := range ev.Obs[op] {
					ev.Obs[op][k] = 7
				}
			}
		}
		evs = append(evs, ev)
		enc.Encode(ev)
	}
	files := map[string][]byte{"trace_boolops.ndjson": buf.Bytes()}
	rejected := 0
	// one parallel pass: every event is judged; events that disagree come back with the spec's expectation
	res := c.TLC(tlc.Opts{Module: "Trace_BoolOps", Files: files, Config: sceneCfg(latticeN), Timeout: 30 * time.Minute}, true)
	if res.OK && res.Distinct != int64(2*n) {
		c.Broken(fmt.Sprintf("Trace_BoolOps judged %d states, expected %d", res.Distinct, 2*n))
	}
	for _, ln := range res.Lines {
		var l Line
		if json.Unmarshal(ln, &l) != nil || len(l.P) == 0 {
			continue
		}
		rejected++
		s := &Scenario{Kind: "bool", S: hdr.S, Samples: hdr.Samples, P: l.P, Q: l.Q, Emb: latgeo.Identity, Space: space, F: l.F,
			Exp: map[string][]int{"and": l.And, "or": l.Or, "xor": l.Xor, "not": l.Not, "div": l.Div}}
		ms := exec(s, true)
		if len(ms) == 0 {
			c.Broken(fmt.Sprintf("Trace_BoolOps rejected the scene P=%s Q=%s but replaying it as a scenario shows no mismatch", l.P.SVG(), l.Q.SVG()))
			continue
		}
		c.Report(s, ms)
	}
	c.Count(int64(5*n), 0, int64(n-rejected))
	c.SetExtra("trace_"+space, n)
	c.SetExtra("trace_"+space+"_rejected", rejected)
	if len(evs) > 0 {
		c.Sample(map[string]any{"recorded_scene": map[string]string{"p": evs[0].P.SVG(), "q": evs[0].Q.SVG()}})
	}
}
