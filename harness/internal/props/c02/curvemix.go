package c02

// Stage "mix": Settle of contours that MIX segment kinds (lines, elliptical arcs incl. rotated ones, quadratic and cubic
// Béziers). The scenarios come from spec/Query.tla (the exact winding numbers of lattice curve paths that C06 uses):
// for every point of the refined lattice around the path the spec prints the winding number and whether the point is
// decided (off the boundary). The driver builds the path through the public builder under a similarity embedding,
// settles it under the four fill rules and requires, at every decided query point that is farther from the input's
// boundary than the flattening margin, that the result's winding number is 1 if rule.Fills(w) and 0 otherwise.
// The margin is taken on an independently flattened copy of the INPUT (it only decides which points are skipped).

import (
	"encoding/json"
	"fmt"
	"strings"
	"sync"
	"sync/atomic"
	"time"

	"github.com/tdewolff/canvas"

	"verif/harness/internal/core"
	"verif/harness/internal/latcurve"
	"verif/harness/internal/latgeo"
	"verif/harness/internal/oracle"
	"verif/harness/internal/tlc"
)

type qLine struct {
	Hdr  bool          `json:"hdr,omitempty"`
	SC   int           `json:"SC,omitempty"`
	Q    [][2]int      `json:"q,omitempty"`
	Path latcurve.Path `json:"path,omitempty"`
	Rows [][6]int      `json:"rows,omitempty"` // w, b, .. per query point
	Open bool          `json:"open,omitempty"`
}

// MixScenario is the replay unit of the stage.
type MixScenario struct {
	Kind string        `json:"kind"` // "mix"
	SC   int           `json:"SC"`
	Path latcurve.Path `json:"path"`
	Emb  latgeo.Emb    `json:"emb"`
	Q    [][2]int      `json:"q"`
	W    []int         `json:"w"`
	B    []int         `json:"b"`
}

// embeddings: similarities with a scale that makes the library's flattening tolerance (0.01) small against the lattice
var mixEmbs = []latgeo.Emb{
	{Name: "x8", A: 8, B: 0, C: 0, D: 8, E: 0, F: 0},
	{Name: "x8flipy", A: 8, B: 0, C: 0, D: -8, E: 3, F: 200},
	{Name: "x10rot345", A: 8, B: -6, C: 6, D: 8, E: 50, F: -20},
	{Name: "x16transposed", A: 0, B: 16, C: 16, D: 0, E: -7, F: 11},
}

const mixMargin = 0.08 // > flattening tolerance of Settle (0.01) + snap-grid tolerance, in embedded units

func fillsRule(ri, w int) bool {
	switch ri {
	case 0:
		return w != 0
	case 1:
		return w%2 != 0
	case 2:
		return w > 0
	}
	return w < 0
}

func execMix(s *MixScenario, guard bool) (ms []core.Mismatch) {
	tag := "mix:" + s.Path.Kinds()
	pts := make([]oracle.Pt, len(s.Q))
	for i, q := range s.Q {
		x, y := s.Emb.Map(float64(q[0])/float64(s.SC), float64(q[1])/float64(s.SC))
		pts[i] = oracle.Pt{X: x, Y: y}
	}
	in := latcurve.Build(s.Path, s.Emb, 1)
	if ok, _ := latcurve.Faithful(s.Path, in, s.Emb, 1); !ok {
		return nil // the builder did not store what was requested (judged by C10), nothing to settle
	}
	inFlat, err := oracle.FlattenData(in.Data(), 64)
	if err != nil {
		return []core.Mismatch{{Signature: "machinery", Detail: "input not decodable: " + err.Error()}}
	}
	far := make([]bool, len(pts))
	for i, pt := range pts {
		far[i] = s.B[i] == 0 && oracle.Dist(inFlat, pt, true) > mixMargin
	}
	for ri, rule := range rules {
		p := latcurve.Build(s.Path, s.Emb, 1)
		var r *canvas.Path
		run := func() { r = p.Settle(rule) }
		var kind string
		var msg any
		if guard {
			kind, msg = latgeo.Guard(20*time.Second, run)
		} else if ok, m := latgeo.Try(run); !ok {
			kind, msg = "panic", m
		}
		if kind != "" {
			ms = append(ms, core.Mismatch{Signature: kind + ":" + latgeo.PanicClass(msg) + "+" + tag,
				Detail: fmt.Sprintf("Settle(%s) %s: P=%s emb=%s: %v", ruleNames[ri], kind, s.Path.SVG(), s.Emb.Name, msg)})
			continue
		}
		cs, err := oracle.FlattenData(r.Data(), 16)
		if err != nil {
			ms = append(ms, core.Mismatch{Signature: "result-undecodable", Detail: err.Error()})
			continue
		}
		// a reflecting embedding negates every winding number
		sign := 1
		if s.Emb.Det() < 0 {
			sign = -1
		}
		for i, pt := range pts {
			if !far[i] {
				continue
			}
			e := 0
			if fillsRule(ri, sign*s.W[i]) {
				e = 1
			}
			if w := oracle.Winding(cs, pt); w != e {
				sig := "region-cells+" + tag
				if (w%2 != 0) == (e == 1) {
					sig = "region-orientation+" + tag
				}
				ms = append(ms, core.Mismatch{Signature: sig, Detail: fmt.Sprintf("P=%s Settle(%s) emb=%s: query point (lattice %.1f,%.1f) has input winding %d: expected result winding %d, got %d; result=%s",
					s.Path.SVG(), ruleNames[ri], s.Emb.Name, float64(s.Q[i][0])/float64(s.SC), float64(s.Q[i][1])/float64(s.SC), s.W[i], e, w, r)})
				break
			}
		}
	}
	return
}

func qcfg(n, k, nc int, mode, kinds string, num int) string {
	return fmt.Sprintf("SPECIFICATION Spec\nCONSTANTS N = %d\n K = %d\n NC = %d\n Mode = \"%s\"\n Kinds = %s\n Num = %d\nCHECK_DEADLOCK FALSE\n", n, k, nc, mode, kinds, num)
}

func runMix(c *core.Ctx, o tlc.Opts, n, nontriv *int64, seen *sync.Map) {
	var hdr qLine
	var mu sync.Mutex
	ch := make(chan []byte, 1024)
	o.OnLine = func(p []byte) {
		mu.Lock()
		if !strings.HasPrefix(string(p), `{"path"`) {
			var l qLine
			if json.Unmarshal(p, &l) == nil && l.Hdr {
				hdr = l
				mu.Unlock()
				return
			}
		}
		mu.Unlock()
		ch <- append([]byte(nil), p...)
	}
	done := make(chan struct{})
	var ran int64
	go func() {
		core.Parallel(12, ch, func(p []byte) {
			var l qLine
			if err := json.Unmarshal(p, &l); err != nil {
				c.Broken("bad mix scenario line: " + err.Error())
				return
			}
			if l.Open || len(l.Rows) != len(hdr.Q) {
				return // open contours: their implicit closing is the known finding open-subpath-not-implicitly-closed
			}
			for _, ct := range l.Path {
				if !ct.Cl {
					return // ends at its start without a Close command: an open sub-path for the library (same finding)
				}
			}
			atomic.AddInt64(n, 1)
			key := l.Path.SVG()
			w, b := make([]int, len(l.Rows)), make([]int, len(l.Rows))
			in, out := false, false
			for i, row := range l.Rows {
				w[i], b[i] = row[0], row[1]
				if row[1] == 0 {
					if row[0] != 0 {
						in = true
					} else {
						out = true
					}
				}
			}
			if in && out {
				if _, dup := seen.LoadOrStore("mix:"+key, true); !dup {
					atomic.AddInt64(nontriv, 1)
				}
			}
			h := int(hash(key))
			for _, e := range []latgeo.Emb{mixEmbs[h%len(mixEmbs)], mixEmbs[(h/5+1)%len(mixEmbs)]} {
				s := &MixScenario{Kind: "mix", SC: hdr.SC, Path: l.Path, Emb: e, Q: hdr.Q, W: w, B: b}
				ms := execMix(s, false)
				c.Count(4, 0, 1)
				if atomic.AddInt64(&ran, 1) == 5 {
					c.Sample(map[string]any{"mixed_curve_path": key, "embedding": e.Name, "query_points": len(hdr.Q)})
				}
				c.Report(s, ms)
			}
		})
		close(done)
	}()
	c.TLC(o, true)
	close(ch)
	<-done
	c.AddExtra("mix_scenarios", ran)
}
