// Package c02: Settle preserves the filled region and returns a canonical simple path (spec/BoolOps.tla, What="settle").
package c02

import (
	"bytes"
	"encoding/json"
	"fmt"
	"math"
	"math/rand"
	"os"
	"sync"
	"sync/atomic"
	"time"

	"github.com/tdewolff/canvas"

	"verif/harness/internal/core"
	"verif/harness/internal/latgeo"
	"verif/harness/internal/oracle"
	"verif/harness/internal/tlc"
)

type Driver struct{}

func (Driver) ID() string { return "C02" }

type Line struct {
	Hdr     bool            `json:"hdr,omitempty"`
	S       int             `json:"S,omitempty"`
	Samples [][2]int        `json:"samples,omitempty"`
	P       json.RawMessage `json:"p,omitempty"`
	Wp      []int           `json:"wp,omitempty"`
	R0      []int           `json:"r0,omitempty"`
	R1      []int           `json:"r1,omitempty"`
	R2      []int           `json:"r2,omitempty"`
	R3      []int           `json:"r3,omitempty"`
	M0      []int           `json:"m0,omitempty"` // curved scenarios: cells with the flattening margin (natural-scale embeddings)
	M1      []int           `json:"m1,omitempty"`
	M2      []int           `json:"m2,omitempty"`
	M3      []int           `json:"m3,omitempty"`
	F       map[string]bool `json:"f,omitempty"`
}

type Scenario struct {
	Kind    string          `json:"kind"`
	S       int             `json:"S"`
	Samples [][2]int        `json:"samples"`
	P       latgeo.LPath    `json:"p"`
	CP      latgeo.CPath    `json:"cp,omitempty"`    // curved scenario (spec/CurvedOps.tla): cubic contours instead of P
	Open    bool            `json:"open"`            // leave the contours open (Settle closes them implicitly)
	Det     bool            `json:"det"`             // deterministic (exhaustive) space: known findings are recorded per input
	Space   string          `json:"space,omitempty"` // "fixed": the fixed-seed shared-edge family (signature suffix @fixed; known findings per input)
	Emb     latgeo.Emb      `json:"emb"`
	Exp     [4][]int        `json:"exp"` // expected cells per fill rule
	F       map[string]bool `json:"f"`
}

func (s *Scenario) embClass() string {
	multi := ""
	if len(s.P) > 1 {
		multi = "+multi" // more than one contour
	}
	if s.Open {
		multi += "+open"
	}
	for _, e := range latgeo.Symmetries {
		if e.Name == s.Emb.Name {
			return multi
		}
	}
	return multi + "~float"
}

func (s *Scenario) tag() string {
	if s.CP != nil {
		return "curved"
	}
	switch {
	case s.F["pdeg"]:
		return "degenerate" + s.embClass()
	case s.F["selfov"]:
		return "overlap" + s.embClass()
	case s.F["tj"]:
		return "tjunction" + s.embClass()
	}
	return "general" + s.embClass()
}

func (s *Scenario) svg() string {
	if s.CP != nil {
		return s.CP.SVG()
	}
	return s.P.SVG()
}

func build(s *Scenario) *canvas.Path {
	if s.CP != nil {
		return latgeo.BuildCurved(s.CP, s.Emb)
	}
	if !s.Open {
		return latgeo.Build(s.P, s.Emb)
	}
	out := &canvas.Path{}
	for _, c := range s.P {
		for i, v := range c {
			x, y := s.Emb.Map(float64(v[0]), float64(v[1]))
			if i == 0 {
				out.MoveTo(x, y)
			} else {
				out.LineTo(x, y)
			}
		}
	}
	return out
}

// properCrossings counts pairs of segments of the contours that cross in a point interior to both.
func properCrossings(cs []oracle.Contour, scale float64) int {
	type seg struct{ a, b oracle.Pt }
	var segs []seg
	for _, c := range cs {
		n := len(c.Pts)
		for i := 0; i < n; i++ {
			a, b := c.Pts[i], c.Pts[(i+1)%n]
			if a != b {
				segs = append(segs, seg{a, b})
			}
		}
	}
	eps := 1e-7 * scale // two snap-grid units (relative to the embedding's scale)
	side := func(a, b, p oracle.Pt) int {
		l := b.Sub(a).Len()
		d := b.Sub(a).Cross(p.Sub(a)) / l
		if d > eps {
			return 1
		} else if d < -eps {
			return -1
		}
		return 0
	}
	n := 0
	for i := range segs {
		for j := i + 1; j < len(segs); j++ {
			s, t := segs[i], segs[j]
			if side(s.a, s.b, t.a)*side(s.a, s.b, t.b) < 0 && side(t.a, t.b, s.a)*side(t.a, t.b, s.b) < 0 {
				n++
			}
		}
	}
	return n
}

var rules = []canvas.FillRule{canvas.NonZero, canvas.EvenOdd, canvas.Positive, canvas.Negative}
var ruleNames = []string{"nonzero", "evenodd", "positive", "negative"}

func exec(s *Scenario, guard bool) (ms []core.Mismatch) {
	pts := latgeo.SamplePts(s.Samples, s.S, s.Emb)
	scale := math.Sqrt(math.Abs(s.Emb.Det()))
	for ri, rule := range rules {
		p := build(s)
		before := append([]float64(nil), p.Data()...)
		var r, r2, r3 *canvas.Path
		// the three entry points: Path.Settle, settling the settled path again, and Paths.Settle on the unsplit path
		run := func() { r = p.Settle(rule); r2 = r.Settle(canvas.NonZero); r3 = canvas.Paths{build(s)}.Settle(rule) }
		var kind string
		var msg any
		if guard {
			kind, msg = latgeo.Guard(20*time.Second, run)
		} else if ok, m := latgeo.Try(run); !ok {
			kind, msg = "panic", m
		}
		name := ruleNames[ri]
		if kind != "" {
			ms = append(ms, core.Mismatch{Signature: kind + ":" + latgeo.PanicClass(msg) + "+" + s.tag(),
				Detail: fmt.Sprintf("Settle(%s) %s: P=%s open=%v emb=%s: %v", name, kind, s.svg(), s.Open, s.Emb.Name, msg)})
			continue
		}
		if !equalData(before, p.Data()) {
			ms = append(ms, core.Mismatch{Signature: "receiver-mutated", Detail: fmt.Sprintf("Settle(%s) changed its receiver: P=%s open=%v", name, s.svg(), s.Open)})
		}
		before0 := len(ms)
		for pass, out := range []*canvas.Path{r, r2, r3} {
			if pass == 2 && len(ms) > before0 {
				break // Path.Settle itself already deviates on this input: the Paths entry point is judged only where it is right
			}
			cs, err := oracle.FlattenData(out.Data(), 8)
			if err != nil {
				ms = append(ms, core.Mismatch{Signature: "result-undecodable", Detail: err.Error()})
				continue
			}
			what := "region"
			if pass == 1 {
				what = "idempotence"
			} else if pass == 2 {
				what = "paths-entry"
			}
			bad := -1
			// a reflecting embedding negates every winding number: Positive and Negative swap
			ei := ri
			if s.Emb.Det() < 0 && ri >= 2 {
				ei = 5 - ri
			}
			for i, pt := range pts {
				e := s.Exp[ei][i]
				if e == 2 {
					continue
				}
				if w := oracle.Winding(cs, pt); w != e && bad < 0 {
					bad = i
					sig := what + "-cells+" + s.tag()
					if (w%2 != 0) == (e == 1) {
						sig = what + "-orientation+" + s.tag() // region right under EvenOdd but winding not in {0,1}: contour orientation
					}
					ms = append(ms, core.Mismatch{Signature: sig, Detail: fmt.Sprintf("P=%s open=%v Settle(%s) emb=%s pass=%d: sample (lattice %.3f,%.3f) expected winding %d, result winding %d; result=%s",
						s.svg(), s.Open, name, s.Emb.Name, pass+1, float64(s.Samples[i][0])/float64(s.S), float64(s.Samples[i][1])/float64(s.S), e, w, out)})
				}
			}
			for _, c := range cs {
				if !c.Closed {
					ms = append(ms, core.Mismatch{Signature: "open-contour-in-result+" + s.tag(), Detail: fmt.Sprintf("P=%s Settle(%s): result has an open sub-path: %s", s.svg(), name, out)})
					break
				}
			}
			if s.CP != nil {
				continue // flattened curves have thousands of segments: the quadratic crossing test is only run on polygonal scenarios
			}
			if n := properCrossings(cs, scale); n > 0 {
				ms = append(ms, core.Mismatch{Signature: what + "-crossing+" + s.tag(), Detail: fmt.Sprintf("P=%s open=%v Settle(%s) emb=%s pass=%d: %d properly crossing segment pairs in result %s", s.svg(), s.Open, name, s.Emb.Name, pass+1, n, out)})
			}
		}
		// settling a settled path leaves the region unchanged: equal areas
		if len(ms) == 0 {
			a1, a2 := latgeo.Area(r), latgeo.Area(r2)
			if math.Abs(a1-a2) > 1e-6*scale*scale*64 {
				ms = append(ms, core.Mismatch{Signature: "idempotence-area+" + s.tag(), Detail: fmt.Sprintf("P=%s Settle(%s) emb=%s: area %.9g, after second Settle %.9g; %s vs %s", s.svg(), name, s.Emb.Name, a1, a2, r, r2)})
			}
		}
	}
	for i := range ms {
		if s.Open {
			// every deviation on a path with an open sub-path is one finding: open sub-paths are kept open instead of
			// being closed implicitly (feature HasOpenSubpath)
			ms[i].Signature = "open-subpath-not-implicitly-closed"
		} else if s.Det {
			if s.Space != "" {
				ms[i].Signature += "@" + s.Space
			}
			ms[i].Key = ms[i].Signature + "|" + s.svg() + "|" + s.Emb.Name
		}
	}
	return
}

func equalData(a, b []float64) bool {
	if len(a) != len(b) {
		return false
	}
	for i := range a {
		if a[i] != b[i] {
			return false
		}
	}
	return true
}

func (Driver) Replay(c *core.Ctx, raw json.RawMessage) []core.Mismatch {
	var k struct {
		Kind string `json:"kind"`
	}
	if json.Unmarshal(raw, &k) == nil && k.Kind == "mix" {
		var m MixScenario
		if err := json.Unmarshal(raw, &m); err != nil {
			return []core.Mismatch{{Signature: "machinery", Detail: err.Error()}}
		}
		return execMix(&m, true)
	}
	var s Scenario
	if err := json.Unmarshal(raw, &s); err != nil {
		return []core.Mismatch{{Signature: "machinery", Detail: err.Error()}}
	}
	return exec(&s, true)
}

func cfg(n, k, nc int, mode string, num int, mc bool) string {
	s := fmt.Sprintf("SPECIFICATION Spec\nCONSTANTS N = %d\n K = %d\n NC = %d\n Mode = \"%s\"\n Num = %d\n What = \"settle\"\nCHECK_DEADLOCK FALSE\n", n, k, nc, mode, num)
	if mc {
		s += "INVARIANTS SettleLaws\n"
	}
	return s
}

func ccfg(n, k, num int) string {
	return fmt.Sprintf("SPECIFICATION Spec\nCONSTANTS N = %d\n K = %d\n Num = %d\n What = \"settle\"\nINVARIANTS SubdivOK\nCHECK_DEADLOCK FALSE\n", n, k, num)
}

func hash(s string) uint32 {
	h := uint32(2166136261)
	for i := 0; i < len(s); i++ {
		h = (h ^ uint32(s[i])) * 16777619
	}
	return h >> 1
}

func embsFor(h uint32, thorough bool) []latgeo.Emb {
	extra := []latgeo.Emb{latgeo.Symmetries[1], latgeo.Symmetries[4], latgeo.Symmetries[6], latgeo.Translate, latgeo.Tiny, latgeo.Huge, latgeo.Pyth, latgeo.Shear, latgeo.Symmetries[2], latgeo.Symmetries[7], latgeo.Aniso}
	out := []latgeo.Emb{latgeo.Identity, extra[int(h)%len(extra)]}
	if thorough {
		out = append(out, extra[int(h/7+3)%len(extra)])
	}
	return out
}

func (d Driver) Run(c *core.Ctx) error {
	c.Rule = "scenario = lattice path (1-2 contours, 3-6 vertices, every degenerate placement; closed, and in the thorough tier also left open) from spec/BoolOps.tla with the expected winding (0/1/free) of Settle under the four fill rules on every sample cell; executed under 2-3 embeddings; evaluations = Settle calls; non-trivial = distinct paths whose NonZero and EvenOdd regions differ or that self-overlap"
	c.Assumptions = []string{"winding oracle evaluated only at samples the spec proved off the input boundary", "proper crossings are counted with a tolerance of 1e-7 x embedding scale (two snap-grid units)"}
	c.TLC(tlc.Opts{Module: "BoolOps", Config: cfg(2, 3, 1, "all", 0, true), Coverage: c.Thorough()}, true)

	var n, nontriv int64
	var seen sync.Map
	runGen := func(o tlc.Opts, open, det bool) { runGenX(c, o, open, det, false, &n, &nontriv, &seen) }
	runCurved := func(o tlc.Opts) { runGenX(c, o, false, false, true, &n, &nontriv, &seen) }
	_ = runCurved
	if o := os.Getenv("VERIF_C02_ONLY"); o == "scenes" || o == "mix" { // development aid
	} else if c.Thorough() {
		runGen(tlc.Opts{Module: "BoolOps", Config: cfg(2, 4, 1, "all", 0, false), Timeout: 30 * time.Minute}, false, true) // all 6561 4-point contours on 3x3
		runGen(tlc.Opts{Module: "BoolOps", Config: cfg(2, 3, 2, "all", 0, false), Timeout: 30 * time.Minute}, false, true) // all pairs of 3-point contours on 3x3 (531441)
		runGen(tlc.Opts{Module: "BoolOps", Config: cfg(4, 6, 1, "random", 60000, false), Seed: c.Seed, Timeout: 30 * time.Minute}, false, false)
		runGen(tlc.Opts{Module: "BoolOps", Config: cfg(6, 6, 2, "random", 30000, false), Seed: c.Seed + 1, Timeout: 30 * time.Minute}, false, false)
		runGen(tlc.Opts{Module: "BoolOps", Config: cfg(3, 5, 1, "random", 300, false), Seed: c.Seed + 2, Timeout: 30 * time.Minute}, true, false)
		runCurved(tlc.Opts{Module: "CurvedOps", Config: ccfg(4, 3, 4000), Seed: c.Seed + 3, Timeout: 30 * time.Minute})
		runCurved(tlc.Opts{Module: "CurvedOps", Config: ccfg(5, 2, 3000), Seed: c.Seed + 4, Timeout: 30 * time.Minute})
	} else {
		runGen(tlc.Opts{Module: "BoolOps", Config: cfg(2, 4, 1, "all", 0, false)}, false, true)
		runGen(tlc.Opts{Module: "BoolOps", Config: cfg(4, 6, 1, "random", 8000, false), Seed: c.Seed}, false, false)
		runGen(tlc.Opts{Module: "BoolOps", Config: cfg(3, 4, 2, "random", 3000, false), Seed: c.Seed + 1}, false, false)
		runGen(tlc.Opts{Module: "BoolOps", Config: cfg(3, 5, 1, "random", 40, false), Seed: c.Seed + 2}, true, false)
		runCurved(tlc.Opts{Module: "CurvedOps", Config: ccfg(4, 3, 600), Seed: c.Seed + 3})
	}
	if os.Getenv("VERIF_C02_ONLY") != "scenes" {
		all := `{"L","A","Q","C"}`
		runMix(c, tlc.Opts{Module: "Query", Config: qcfg(4, 3, 1, "curves", all, c.Pick(150, 1500)), Seed: c.Seed + 7, Workers: 4, HeapGB: 3, Timeout: 30 * time.Minute}, &n, &nontriv, &seen)
		runMix(c, tlc.Opts{Module: "Query", Config: qcfg(4, 2, 2, "curves", all, c.Pick(60, 600)), Seed: c.Seed + 8, Workers: 4, HeapGB: 3, Timeout: 30 * time.Minute}, &n, &nontriv, &seen)
	}
	if os.Getenv("VERIF_C02_ONLY") != "mix" {
		runScenes(c, "fixed", 16, c.Pick(6000, 24000), sharedSceneMulti, &n, &nontriv, &seen)
	}
	c.Count(0, nontriv, 0)
	c.SetExtra("paths", n)
	return nil
}

// ---- driver-chosen families (spec/Scenes.tla computes their expectations and features) ---------------------

func cross(a, b, c [2]int) int { return (b[0]-a[0])*(c[1]-a[1]) - (b[1]-a[1])*(c[0]-a[0]) }

// properCross: the open segments ab and uv cross in one interior point (exact)
func properCross(a, b, u, v [2]int) bool {
	d1, d2, d3, d4 := cross(a, b, u), cross(a, b, v), cross(u, v, a), cross(u, v, b)
	return d1 != 0 && d2 != 0 && d3 != 0 && d4 != 0 && (d1 > 0) != (d2 > 0) && (d3 > 0) != (d4 > 0)
}

// sharedScene: two contours that share an edge (in the same or in opposite directions), or one contour that doubles
// back over its own edge, and a thin triangle whose two long edges cross the shared stretch at non-lattice points.
func sharedScene(r *rand.Rand) latgeo.LPath { return sharedSceneK(r, 1) }

func sharedSceneK(r *rand.Rand, k int) latgeo.LPath {
	const n = 16
	pt := func(even bool) [2]int {
		if even {
			return [2]int{2 * r.Intn(n/2+1), 2 * r.Intn(n/2+1)}
		}
		return [2]int{r.Intn(n + 1), r.Intn(n + 1)}
	}
	for {
		a, b := pt(true), pt(true)
		if dx, dy := a[0]-b[0], a[1]-b[1]; dx*dx+dy*dy < 16 {
			continue
		}
		var p latgeo.LPath
		if r.Intn(3) == 0 { // one contour doubling back: b, a, mid, e
			mid, e := [2]int{(a[0] + b[0]) / 2, (a[1] + b[1]) / 2}, pt(false)
			if cross(a, b, e) == 0 {
				continue
			}
			p = latgeo.LPath{{b, a, mid, e}}
		} else {
			c1, d := pt(false), pt(false)
			if cross(a, b, c1) == 0 || cross(a, b, d) == 0 {
				continue
			}
			second := latgeo.LContour{b, a, d}
			if r.Intn(2) == 0 {
				second = latgeo.LContour{a, b, d}
			}
			p = latgeo.LPath{{a, b, c1}, second}
		}
		// the crossing triangles: apex u on one side, v and w on the other, both long edges cross ab
		for t := 0; t < k; t++ {
			var tri latgeo.LContour
			for try := 0; try < 200 && tri == nil; try++ {
				u, v, w := pt(false), pt(false), pt(false)
				if properCross(a, b, u, v) && properCross(a, b, u, w) && cross(u, v, w) != 0 {
					tri = latgeo.LContour{u, v, w}
				}
			}
			if tri == nil {
				break
			}
			if r.Intn(2) == 0 {
				tri[1], tri[2] = tri[2], tri[1]
			}
			p = append(p, tri)
		}
		if len(p) < 2 {
			continue
		}
		r.Shuffle(len(p), func(i, j int) { p[i], p[j] = p[j], p[i] })
		return p
	}
}

// randScene: 1-4 contours with 3-7 vertices on the 8 x 8 lattice (like the scenes of C01)
func randScene(r *rand.Rand) latgeo.LPath {
	const n = 8
	var p latgeo.LPath
	for c := 0; c < 1+r.Intn(4); c++ {
		var ct latgeo.LContour
		x0, y0, w := r.Intn(n-2), r.Intn(n-2), 3+r.Intn(n-2)
		for v := 0; v < 3+r.Intn(5); v++ {
			ct = append(ct, [2]int{min(n, x0+r.Intn(w)), min(n, y0+r.Intn(w))})
		}
		p = append(p, ct)
	}
	return p
}

// sharedSceneMulti: sharedScene with one to four crossing triangles (every crossing of the doubled stretch is a chance
// for the two coincident edges to be cut at points that differ in the last bits).
func sharedSceneMulti(r *rand.Rand) latgeo.LPath { return sharedSceneK(r, 1+r.Intn(4)) }

func runScenes(c *core.Ctx, family string, latticeN, num int, gen func(*rand.Rand) latgeo.LPath, n, nontriv *int64, seen *sync.Map) {
	r := rand.New(rand.NewSource(c.Seed*7919 + int64(hash(family))))
	fixed := family == "fixed"
	if fixed {
		// the same scenes whatever VERIF_SEED: failures of the unchanged tree in this family are recorded per input, so that
		// a change that fails on any OTHER scene of the family is reported although the class is not clean (the quick tier
		// runs a prefix of the thorough tier's scenes)
		r = rand.New(rand.NewSource(20260928))
	}
	var buf bytes.Buffer
	enc := json.NewEncoder(&buf)
	dup := map[string]bool{}
	for i := 0; i < num; i++ {
		p := gen(r)
		if js := os.Getenv("VERIF_C02_SCENE_JSON"); js != "" { // development aid: one given scene
			p = nil
			json.Unmarshal([]byte(js), &p)
		}
		if k := p.SVG(); dup[k] {
			continue
		} else {
			dup[k] = true
		}
		enc.Encode(map[string]any{"p": p})
	}
	o := tlc.Opts{Module: "Scenes", Files: map[string][]byte{"scenes.ndjson": buf.Bytes()}, Timeout: 30 * time.Minute,
		Config: fmt.Sprintf("SPECIFICATION SSpec\nCONSTANTS N = %d\n K = 3\n NC = 1\n Mode = \"all\"\n Num = 0\n What = \"settle\"\nCHECK_DEADLOCK FALSE\n", latticeN)}
	before := atomic.LoadInt64(n)
	if fixed {
		runGenX(c, o, false, true, false, n, nontriv, seen, "fixed")
	} else {
		runGenX(c, o, false, false, false, n, nontriv, seen)
	}
	if got := atomic.LoadInt64(n) - before; got != int64(len(dup)) {
		c.Broken(fmt.Sprintf("Scenes (%s): %d scenarios came back for %d scenes", family, got, len(dup)))
	}
	c.SetExtra("scenes_"+family, len(dup))
}

func runGenX(c *core.Ctx, o tlc.Opts, open, det, curved bool, n, nontriv *int64, seen *sync.Map, space ...string) {
	var hdr Line
	ch := make(chan []byte, 8192)
	o.OnLine = func(p []byte) {
		if hdr.S == 0 {
			var l Line
			if json.Unmarshal(p, &l) == nil && l.Hdr {
				hdr = l
				return
			}
		}
		ch <- append([]byte(nil), p...)
	}
	done := make(chan struct{})
	go func() {
		core.Parallel(14, ch, func(p []byte) {
			var l Line
			if err := json.Unmarshal(p, &l); err != nil {
				c.Broken("bad scenario line: " + err.Error())
				return
			}
			k := atomic.AddInt64(n, 1)
			differ := l.F["selfov"]
			for i := range l.R0 {
				if l.R0[i] != l.R1[i] {
					differ = true
				}
			}
			var lp latgeo.LPath
			var cp latgeo.CPath
			var key string
			if curved {
				if err := json.Unmarshal(l.P, &cp); err != nil {
					c.Broken("bad curved path: " + err.Error())
					return
				}
				key = cp.SVG()
				differ = true
			} else {
				if err := json.Unmarshal(l.P, &lp); err != nil {
					c.Broken("bad path: " + err.Error())
					return
				}
				key = lp.SVG()
			}
			if differ {
				if _, dup := seen.LoadOrStore(key, true); !dup {
					atomic.AddInt64(nontriv, 1)
				}
			}
			embs := embsFor(hash(key), c.Thorough())
			if curved {
				// one large-scale embedding (exact cells) and one natural-scale embedding (cells with the flattening margin)
				embs = []latgeo.Emb{latgeo.CurvedEmbeddings[int(hash(key))%len(latgeo.CurvedEmbeddings)], latgeo.NaturalEmbeddings[int(hash(key)/7)%len(latgeo.NaturalEmbeddings)]}
			}
			for ei, e := range embs {
				exp := [4][]int{l.R0, l.R1, l.R2, l.R3}
				if curved && ei == 1 {
					exp = [4][]int{l.M0, l.M1, l.M2, l.M3}
				}
				s := &Scenario{Kind: "settle", S: hdr.S, Samples: hdr.Samples, P: lp, CP: cp, Open: open, Det: det, Emb: e, Exp: exp, F: l.F}
				if len(space) > 0 {
					s.Space = space[0]
				}
				ms := exec(s, false)
				c.Count(8, 0, 1)
				if k%20000 == 3 {
					c.Sample(map[string]any{"p": key, "expected_nonzero": l.R0, "expected_evenodd": l.R1})
				}
				c.Report(s, ms)
			}
		})
		close(done)
	}()
	c.TLC(o, true)
	close(ch)
	<-done
}
