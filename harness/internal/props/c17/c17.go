// Package c17: Knuth-Plass line breaking (spec/KnuthPlass.tla, spec/Trace_KnuthPlass.tla).
//
// Direction 1 (spec -> code): TLC enumerates item lists x line widths; for each one the specification prints the
// set of legal and forced breakpoints, the table of all candidate lines (natural width, exact ratio, three-valued
// feasibility) and the judgement of EVERY breaking (class, demerit interval, stretch needed). The driver calls
// text.Linebreak under several scale embeddings and only looks things up in those tables and compares.
// Direction 2 (code -> spec): Linebreak calls on larger instances (a seeded random generator and the item lists of
// real text layouts) are recorded with their quantised results; Trace_KnuthPlass.tla recomputes legality, widths,
// ratios and (by a greedy construction) feasibility from the logged items and must accept every event.
package c17

import (
	"bytes"
	_ "embed"
	"encoding/json"
	"fmt"
	"math"
	"os"
	"strconv"
	"strings"
	"sync"
	"sync/atomic"
	"time"

	"github.com/tdewolff/canvas/text"

	"verif/harness/internal/core"
	"verif/harness/internal/tlc"
)

type Driver struct{}

// Stored scenarios (items with their tail, width): paragraphs in which, by the spec's own predicate OptViaDearer, the
// optimum runs through a fitness class that is not the cheapest at some inner breakpoint. They are rare among random
// paragraphs (about 1 in 20 000, see notes/C17.md) and were mined once; the spec re-judges them on every run and
// re-computes the feature (evidence: corpus_scenarios, corpus_optimum_via_dearer_class).
//
//go:embed kp_corpus.ndjson
var corpus []byte

var dumpMu sync.Mutex

// corpusKeys: (items,width) keys of the stored scenarios, for the evidence counters.
var corpusKeys = func() map[string]bool {
	m := map[string]bool{}
	for _, ln := range bytes.Split(corpus, []byte("\n")) {
		var x struct {
			Items [][6]int `json:"items"`
			Width int      `json:"width"`
		}
		if len(ln) > 0 && json.Unmarshal(ln, &x) == nil {
			b, _ := json.Marshal(x.Items)
			m[string(b)+"/"+strconv.Itoa(x.Width)] = true
		}
	}
	return m
}()

func (Driver) ID() string { return "C17" }

// ---- what the specification prints -----------------------------------------------------------------

type Line struct {
	A    int    `json:"a"` // position of the previous break, -1 = start of the paragraph
	B    int    `json:"b"`
	L    int    `json:"L"`
	Def  bool   `json:"def"`
	N    int    `json:"n"`
	D    int    `json:"d"`
	Cls  string `json:"cls"`
	ClsX string `json:"clsx"` // exact reading (identity embedding)
	E    bool   `json:"e"`    // empty line: nothing between the two breakpoints
}

// Dem is a demerit value in units of 1/10000; the spec prints it as the two-limb number [H, L] = H*10000 + L.
type Dem int64

func (d *Dem) UnmarshalJSON(b []byte) error {
	var hl [2]int64
	if err := json.Unmarshal(b, &hl); err != nil {
		return err
	}
	*d = Dem(hl[0]*10000 + hl[1])
	return nil
}

func (d Dem) MarshalJSON() ([]byte, error) {
	h := int64(d) / 10000
	l := int64(d) % 10000
	if l < 0 {
		h, l = h-1, l+10000
	}
	return json.Marshal([2]int64{h, l})
}

type Judged struct {
	B    []int  `json:"b"`
	Cls  string `json:"cls"`
	ClsX string `json:"clsx"`
	Shr  string `json:"shr"`
	Dlo  Dem    `json:"dlo"`
	Dhi  Dem    `json:"dhi"`
	Mx   [2]int `json:"mx"`
	Ls   []Line `json:"ls,omitempty"` // the breaking's own lines (long lists: no global line table)
}

type Verdict struct {
	Items    [][6]int `json:"items"`
	Width    int      `json:"width"`
	Legal    []int    `json:"legal"`
	Forced   []int    `json:"forced"`
	Ln       []Line   `json:"ln"`
	Brk      []Judged `json:"brk"`
	SF       bool     `json:"sf"`
	MinD     Dem      `json:"mind"`
	SFX      bool     `json:"sfx"`   // exact reading -1 <= r <= Tolerance: used for the identity embedding, where all
	MinDX    Dem      `json:"mindx"` // lengths are small integers and the library's float arithmetic is exact
	AllInf   bool     `json:"allinf"`
	Complete bool     `json:"complete"` // brk holds every breaking (otherwise: exactly those without a surely infeasible line)
	SShr     bool     `json:"sshr"`
	NoShr    bool     `json:"noshr"`
	TStar    [2]int   `json:"tstar"`
	Feat     []string `json:"feat"`
}

// Scenario is what a replay file holds.
type Scenario struct {
	Kind string          `json:"kind"` // "gen": TLC scenario with its verdict tables | "call": a recorded Linebreak call judged by Trace_KnuthPlass
	Emb  int             `json:"emb"`
	V    json.RawMessage `json:"v,omitempty"`
	Call *Call           `json:"call,omitempty"`
}

// Embeddings: every length (widths, stretch, shrink, line width) is multiplied by the factor; penalties are not lengths.
// Ratios, classes and demerits are invariant (spec invariant ScaleInv); exact coincidences become float near-coincidences.
var Embeddings = []float64{1, 0.1, 1.0 / 3.0, 12.7}

func MakeItems(raw [][6]int, s float64) []text.Item {
	items := make([]text.Item, len(raw))
	for i, r := range raw {
		switch r[0] {
		case 0:
			items[i] = text.Box(float64(r[1]) * s)
		case 1:
			items[i] = text.Glue(float64(r[1])*s, float64(r[2])*s, float64(r[3])*s)
		default:
			p := float64(r[4])
			if r[4] >= 1000 {
				p = text.Infinity
			} else if r[4] <= -1000 {
				p = -text.Infinity
			}
			items[i] = text.Penalty(float64(r[1])*s, p, r[5] == 1)
		}
	}
	return items
}

type Result struct {
	Pos   []int
	Width []float64
	Ratio []float64
	OK    bool
	Panic string
	Hung  bool
}

// CallLinebreak runs the real function under recover and a watchdog.
func CallLinebreak(items []text.Item, width float64) Result {
	ch := make(chan Result, 1)
	go func() {
		var r Result
		defer func() {
			if e := recover(); e != nil {
				r.Panic = fmt.Sprint(e)
			}
			ch <- r
		}()
		bs, ok := text.Linebreak(items, width, 0)
		r.OK = ok
		for _, b := range bs {
			if b == nil {
				r.Panic = "nil breakpoint in result"
				return
			}
			r.Pos = append(r.Pos, b.Position)
			r.Width = append(r.Width, b.Width)
			r.Ratio = append(r.Ratio, b.Ratio)
		}
	}()
	// watchdog: generous, because a starved goroutine on a loaded machine must not look like non-termination
	select {
	case r := <-ch:
		return r
	case <-time.After(Watchdog):
		return Result{Hung: true}
	}
}

// Watchdog is the time after which a call on an instance of a few hundred items counts as not terminating.
const Watchdog = 120 * time.Second

func key(b []int) string {
	var sb strings.Builder
	for _, v := range b {
		sb.WriteString(strconv.Itoa(v))
		sb.WriteByte(',')
	}
	return sb.String()
}

func has(set []int, v int) bool {
	for _, x := range set {
		if x == v {
			return true
		}
	}
	return false
}

// feature returns the signature suffix for scenarios outside the restrictions under which the published ALGORITHM
// is proved correct (computed by the spec, see Features in KnuthPlass.tla). Only the empty-line-before-glue feature
// still qualifies a signature: the "deact" feature (a penalty's width makes the line to b longer than the line to a
// later breakpoint) explained a defect that is repaired in /repo (fix: 6dc7788), so a deviation on such a scenario is
// reported under its plain name again.
func (v *Verdict) feature() string {
	if v.hasFeat("emptydeact") {
		return "-empty-line-before-glue"
	}
	return ""
}

func (v *Verdict) hasFeat(name string) bool {
	for _, f := range v.Feat {
		if f == name {
			return true
		}
	}
	return false
}

// judge compares one real result with the specification's tables. No arithmetic of the algorithm is done here.
func judge(v *Verdict, r Result, s float64) (ms []core.Mismatch) {
	add := func(sig, format string, a ...any) {
		ms = append(ms, core.Mismatch{Signature: sig, Detail: fmt.Sprintf("scale %.4g: ", s) + fmt.Sprintf(format, a...)})
	}
	if r.Hung {
		add("timeout-linebreak", "Linebreak did not return within %v", Watchdog)
		return
	}
	if r.Panic != "" {
		add("panic-linebreak", "%s", r.Panic)
		return
	}
	// identity embedding: integer lengths, exact float arithmetic -> the exact reading of [-1, Tolerance] applies
	idEmb := s == 1
	sf, minD := v.SF, v.MinD
	if idEmb {
		sf, minD = v.SFX, v.MinDX
	}
	n := len(v.Items)
	if len(r.Pos) == 0 {
		add("empty-result", "no breakpoints returned")
		return
	}
	structural := true
	for i, p := range r.Pos {
		if i > 0 && p <= r.Pos[i-1] {
			add("not-increasing", "breakpoints %v", r.Pos)
			structural = false
			break
		}
		if !has(v.Legal, p) {
			add("illegal-break", "breakpoint %d of %v is not a legal breakpoint (legal: %v)", p, r.Pos, v.Legal)
			structural = false
		}
	}
	for _, f := range v.Forced {
		if !has(r.Pos, f) {
			sig := "forced-missing"
			if !r.OK {
				sig = "forced-break-skipped-overflow-fallback"
			}
			add(sig, "forced break %d not in %v", f, r.Pos)
			structural = false
		}
	}
	if r.Pos[len(r.Pos)-1] != n-1 {
		add("not-ending-at-final", "last breakpoint %d, final forced break %d", r.Pos[len(r.Pos)-1], n-1)
		structural = false
	}
	if !structural {
		return
	}
	// reported widths and ratios are those of the returned lines
	lines := map[[2]int]*Line{}
	for i := range v.Ln {
		lines[[2]int{v.Ln[i].A, v.Ln[i].B}] = &v.Ln[i]
	}
	var res *Judged
	k := key(r.Pos)
	for i := range v.Brk {
		if key(v.Brk[i].B) == k {
			res = &v.Brk[i]
		}
	}
	feat := v.feature()
	// signature of a wrongly reported line: specific when the overflow fallback produced the breaking or the scenario
	// has an empty line followed by glue (negative running sums)
	rep := func(kind string, ln *Line) string {
		if ln.E && v.hasFeat("emptyglue") {
			return "line-report-empty-line-before-glue"
		}
		if !r.OK {
			return "line-report-overflow-fallback"
		}
		return kind
	}
	for i, p := range r.Pos {
		a := -1
		if i > 0 {
			a = r.Pos[i-1]
		}
		ln := lines[[2]int{a, p}]
		if ln == nil && res != nil && i < len(res.Ls) {
			ln = &res.Ls[i]
		}
		if ln == nil {
			if len(v.Ln) > 0 {
				add("machinery", "line %d->%d missing in the spec's table", a, p)
				return
			}
			continue // long list, result not among the judged breakings: it has a surely infeasible line (reported below)
		}
		w := r.Width[i] / s
		if math.IsNaN(w) || math.Abs(w-float64(ln.L)) > 1e-9*math.Max(1, math.Abs(float64(ln.L))) {
			add(rep("width-mismatch", ln), "line %d->%d of %v: reported Width %.12g, natural width of that line %d", a, p, r.Pos, w, ln.L)
		}
		rr := r.Ratio[i]
		exact := math.NaN()
		if ln.Def {
			exact = float64(ln.N) / float64(ln.D)
		}
		same := ln.Def && math.Abs(rr-exact) <= 1e-9*math.Max(1, math.Abs(exact))
		lcls := ln.Cls
		if idEmb && ln.ClsX != "" {
			lcls = ln.ClsX
		}
		switch lcls {
		case "F": // surely within [-1, Tolerance]: the reported ratio is the line's ratio
			if !same {
				add(rep("ratio-mismatch", ln), "line %d->%d of %v: reported Ratio %.12g, ratio of that line %d/%d", a, p, r.Pos, rr, ln.N, ln.D)
			}
		default: // outside (or borderline): the library documents the line as left unadjusted (0) - or its true ratio
			if !same && rr != 0 {
				add(rep("ratio-mismatch-unadjusted", ln), "line %d->%d of %v (class %s): reported Ratio %.12g, neither 0 nor the line's ratio %d/%d (defined=%v)", a, p, r.Pos, lcls, rr, ln.N, ln.D, ln.Def)
			}
		}
	}
	// a better breaking existed and was not found: specific deviation names, grouped under the scenario feature if any
	opt := func(kind, format string, a ...any) {
		if feat != "" {
			add("optimum-lost"+feat, kind+": "+format, a...)
		} else {
			add(kind, format, a...)
		}
	}
	if res == nil {
		// the table holds every breaking without a surely infeasible line: the result has one
		if v.Complete {
			add("machinery", "returned breaking %v not among the spec's breakings", r.Pos)
			return
		}
		res = &Judged{B: r.Pos, Cls: "I", ClsX: "I", Shr: "B", Mx: [2]int{1, 0}}
		if !sf {
			return
		}
	}
	rcls := res.Cls
	if idEmb && res.ClsX != "" {
		rcls = res.ClsX
	}
	if sf {
		// some breaking keeps every line surely (identity embedding: exactly) within [-1, Tolerance]
		if rcls == "I" {
			opt("infeasible-result", "returned %v has a line outside [-1,Tolerance] although a feasible breaking exists (min demerits_hi %d)", r.Pos, minD)
		} else if res.Dlo > minD {
			opt("suboptimal", "returned %v has demerits >= %d/10000, a feasible breaking has demerits <= %d/10000", r.Pos, res.Dlo, minD)
		}
		if !r.OK {
			opt("overflow-reported-feasible", "overflow reported although a feasible breaking exists")
		}
	} else if v.AllInf {
		// no breaking is feasible, not even borderline: relaxation clause
		if v.SShr {
			if res.Shr == "I" {
				opt("relaxed-cannot-shrink", "returned %v has a line that cannot shrink to fit although some breaking needs no line to shrink below -1", r.Pos)
			}
			if !r.OK {
				opt("overflow-unneeded", "overflow reported although a breaking exists in which every line can be shrunk to fit")
			}
			if v.TStar[1] != 0 && res.Shr != "I" {
				// least stretch limit that admits a breaking is tstar: the result must not need more
				if res.Mx[1] == 0 || int64(res.Mx[0])*int64(v.TStar[1]) > int64(v.TStar[0])*int64(res.Mx[1]) {
					opt("relaxed-too-far", "returned %v needs stretch ratio %d/%d, a breaking exists that needs only %d/%d", r.Pos, res.Mx[0], res.Mx[1], v.TStar[0], v.TStar[1])
				}
			}
		}
	} else if v.SShr && !r.OK {
		opt("overflow-unneeded", "overflow reported although a breaking exists in which every line can be shrunk to fit")
	}
	return
}

func execGen(raw json.RawMessage, emb int) (*Verdict, []core.Mismatch) {
	var v Verdict
	if err := json.Unmarshal(raw, &v); err != nil {
		return nil, []core.Mismatch{{Signature: "machinery", Detail: err.Error()}}
	}
	s := Embeddings[emb]
	r := CallLinebreak(MakeItems(v.Items, s), float64(v.Width)*s)
	return &v, judge(&v, r, s)
}

func (d Driver) Replay(c *core.Ctx, raw json.RawMessage) []core.Mismatch {
	var s Scenario
	if err := json.Unmarshal(raw, &s); err != nil {
		return []core.Mismatch{{Signature: "machinery", Detail: err.Error()}}
	}
	switch s.Kind {
	case "gen":
		if s.Emb < 0 || s.Emb >= len(Embeddings) {
			return []core.Mismatch{{Signature: "machinery", Detail: "bad embedding"}}
		}
		_, ms := execGen(s.V, s.Emb)
		return ms
	case "call":
		if s.Call == nil {
			return []core.Mismatch{{Signature: "machinery", Detail: "no call"}}
		}
		return JudgeCalls(c, []Call{*s.Call})[0]
	}
	return []core.Mismatch{{Signature: "machinery", Detail: "unknown scenario kind " + s.Kind}}
}

func cfg(mode string, nfree, nrand, minw, maxw int, alpha string, mc bool) string {
	s := fmt.Sprintf("SPECIFICATION Spec\nCONSTANTS Mode = \"%s\"\n NFree = %d\n NRand = %d\n MinW = %d\n MaxW = %d\n Alpha = \"%s\"\nCHECK_DEADLOCK FALSE\n", mode, nfree, nrand, minw, maxw, alpha)
	if mc {
		s += "INVARIANTS BruteLegal LinesSane OptSane ScaleInv FeasComplete PathsAgree\n"
	} else {
		s += "INVARIANTS EmitInv\n"
	}
	return s
}

func (d Driver) Run(c *core.Ctx) error {
	c.Rule = "scenario = (item list, line width) generated by TLC from spec/KnuthPlass.tla: every list over the alphabet with <= 4 (thorough 5) free items, random lists of 5..9 free items, and paragraph-shaped lists of 9/11 words; all obey the item builder's structural constraints and end in Glue(0,Inf,0) Penalty(-Inf); each is executed under 4 scale embeddings and judged against the spec's table of judged breakings. non-trivial = the spec judged at least two breakings for it (the breakings without a surely infeasible line; all breakings if there is none) and either one of them is surely feasible (optimisation is a real choice) or none is and one can be shrunk to fit (relaxation clause applies); distinct by (items,width). Recorded calls (random generator, text layouts) are counted separately in trace_calls"
	c.Assumptions = []string{
		"published definitions with the constants text/linebreak.go documents (Tolerance 2, line/flagged/fitness demerits 10/100/100, Infinity 1000, looseness 0)",
		"feasibility is three-valued with epsilon 1e-6: lines whose exact ratio is -1 or Tolerance, exactly fitting lines without stretch or shrink, and short lines of negative total stretch neither oblige nor excuse (float sums)",
		"demerits are compared through outward-rounded integer intervals (badness in tenths): a result is accepted if demerits_lo(result) <= min demerits_hi over surely feasible breakings",
		"lines outside [-1,Tolerance] may report Ratio 0 (documented: left unadjusted) instead of their ratio",
		"item lists start with a box and use negative-stretch glue only in the builder's pattern Glue(+y) Penalty Glue(-y); widths are non-negative",
		"relaxation: unstretchable short lines count as needing infinite stretch; the library's internal pseudo-ratios for them are not part of the statement",
	}

	if os.Getenv("C17_ONLY") == "trace" { // development aid
		d.traces(c)
		return nil
	}
	// 1. model level: the spec's own sanity on the small space
	c.TLC(tlc.Opts{Module: "KnuthPlass", Config: cfg("exh", c.Pick(3, 4), 0, 3, c.Pick(8, 9), "std", true), Coverage: c.Thorough(), Timeout: 30 * time.Minute}, true)

	// 2. spec -> code
	var nontrivial, ties, relax, feas int64
	seen := sync.Map{}
	run := func(o tlc.Opts) {
		ch := make(chan []byte, 4096)
		o.OnLine = func(p []byte) { ch <- append([]byte(nil), p...) }
		done := make(chan struct{})
		var n int64
		go func() {
			core.Parallel(12, ch, func(p []byte) {
				var v *Verdict
				for e := range Embeddings {
					var ms []core.Mismatch
					v, ms = execGen(p, e)
					for _, m := range ms {
						c.AddExtra("mismatch:"+m.Signature, 1)
					}
					if len(ms) > 0 {
						c.Report(Scenario{Kind: "gen", Emb: e, V: json.RawMessage(p)}, ms)
					}
				}
				if f := os.Getenv("C17_DUMP"); f != "" && v != nil { // development aid: one line per scenario
					sigs := map[string]bool{}
					for e := range Embeddings {
						_, ms := execGen(p, e)
						for _, m := range ms {
							sigs[m.Signature] = true
						}
					}
					b, _ := json.Marshal(map[string]any{"items": v.Items, "width": v.Width, "feat": v.Feat, "sigs": sigs, "sf": v.SF, "sfx": v.SFX, "allinf": v.AllInf, "sshr": v.SShr, "tstar": v.TStar})
					dumpMu.Lock()
					if fh, err := os.OpenFile(f, os.O_APPEND|os.O_CREATE|os.O_WRONLY, 0o644); err == nil {
						fh.Write(append(b, '\n'))
						fh.Close()
					}
					dumpMu.Unlock()
				}
				k := atomic.AddInt64(&n, 1)
				if k%40000 == 1 {
					c.Sample(json.RawMessage(p))
				}
				if v == nil {
					return
				}
				if v.SF {
					atomic.AddInt64(&feas, 1)
				}
				if v.hasFeat("viadearer") {
					c.AddExtra("corpus_optimum_via_dearer_class", 1)
				}
				if corpusKeys[key2(v)] {
					c.AddExtra("corpus_scenarios", 1)
					if v.AllInf && v.SShr && v.TStar[1] != 0 {
						c.AddExtra("corpus_relaxation_clause", 1)
					}
				}
				if len(v.Brk) >= 2 && (v.SF || (v.AllInf && v.SShr)) {
					if _, dup := seen.LoadOrStore(key2(v), true); !dup {
						atomic.AddInt64(&nontrivial, 1)
						if !v.SF {
							atomic.AddInt64(&relax, 1)
						}
						// ties inside the interval: another feasible breaking whose interval overlaps the optimum's
						cnt := 0
						for _, j := range v.Brk {
							if j.Cls == "F" && j.Dlo <= v.MinD {
								cnt++
							}
						}
						if cnt > 1 {
							atomic.AddInt64(&ties, 1)
						}
					}
				}
			})
			close(done)
		}()
		c.TLC(o, true)
		close(ch)
		<-done
		c.Count(n*int64(len(Embeddings)), 0, n*int64(len(Embeddings)))
		c.AddExtra("tlc_scenarios", n)
	}
	// the generation runs are independent: three TLC instances at a time (their start-up and the single-threaded
	// computation of initial states overlap)
	sem := make(chan struct{}, 3)
	var wg sync.WaitGroup
	seq := run
	run = func(o tlc.Opts) {
		wg.Add(1)
		sem <- struct{}{}
		go func() {
			defer wg.Done()
			defer func() { <-sem }()
			if o.Workers == 0 {
				o.Workers = 6
			}
			if o.Timeout == 0 {
				o.Timeout = 30 * time.Minute // generous: a shared machine must not turn into a machinery failure
			}
			seq(o)
		}()
	}
	onlyPara := os.Getenv("C17_ONLY") == "para" // development aid
	if !onlyPara {
		runSmall(c, run)
	}
	// paragraph-shaped lists: many feasible breakings of nearly equal badness (flagged / fitness terms, class pruning)
	onlyCorpus := os.Getenv("C17_ONLY") == "corpus" // development aid (mining / checking the stored scenarios)
	onlyPara = onlyPara || onlyCorpus
	for _, pc := range [][3]int{{9, 20, 25}, {9, 26, 31}, {11, 26, 33}} {
		if onlyCorpus {
			break
		}
		run(tlc.Opts{Module: "KnuthPlass", Config: cfg("para", pc[0], c.Pick(500, 5000), pc[1], pc[2], "std", false), Seed: c.Seed + int64(100+pc[0]+pc[1])})
	}
	run(tlc.Opts{Module: "KnuthPlass", Config: cfg("corpus", 0, 0, 0, 0, "std", false), Files: map[string][]byte{"kp_corpus.ndjson": corpus}})
	wg.Wait()
	c.Count(0, nontrivial, 0)
	c.SetExtra("scenarios_with_feasible_breaking", feas)
	c.SetExtra("scenarios_relaxation_clause", relax)
	c.SetExtra("optimum_ties_within_interval", ties)
	c.SetExtra("embeddings", Embeddings)

	// 3. code -> spec: recorded calls
	if !onlyPara {
		d.traces(c)
	}
	return nil
}

// runSmall: exhaustive and random short lists over the full alphabet.
func runSmall(c *core.Ctx, run func(tlc.Opts)) {
	run(tlc.Opts{Module: "KnuthPlass", Config: cfg("exh", 3, 0, 2, 12, "std", false)})
	run(tlc.Opts{Module: "KnuthPlass", Config: cfg("exh", 4, 0, c.Pick(4, 3), c.Pick(9, 12), "std", false)})
	if c.Thorough() {
		run(tlc.Opts{Module: "KnuthPlass", Config: cfg("exh", 5, 0, 4, 9, "std", false), Timeout: 30 * time.Minute})
	}
	for _, nf := range []int{5, 6, 7, 8, 9} {
		run(tlc.Opts{Module: "KnuthPlass", Config: cfg("rand", nf, c.Pick(2000, 30000), 4, 12, "ext", false), Seed: c.Seed + int64(nf)})
	}
}

func key2(v *Verdict) string {
	b, _ := json.Marshal(v.Items)
	return string(b) + "/" + strconv.Itoa(v.Width)
}
