package c17

import (
	"fmt"
	"sync"

	"github.com/tdewolff/canvas"
	"github.com/tdewolff/canvas/text"
)

// Fonts bundled with the repository, loaded once. Face sizes are in points.
var (
	fontOnce sync.Once
	families [2]*canvas.FontFamily
	fonts    [2]*canvas.Font
	shapers  [2]text.Shaper
	fontErr  error
)

var fontFiles = [2]string{"/repo/resources/DejaVuSerif.ttf", "/repo/resources/EBGaramond12-Regular.otf"}

func loadFonts() error {
	fontOnce.Do(func() {
		for i, f := range fontFiles {
			ft, err := canvas.LoadFontFile(f, canvas.FontRegular)
			if err != nil {
				fontErr = fmt.Errorf("%s: %w", f, err)
				return
			}
			fonts[i] = ft
			fam := canvas.NewFontFamily(fmt.Sprintf("bundled%d", i))
			if err := fam.LoadFontFile(f, canvas.FontRegular); err != nil {
				fontErr = fmt.Errorf("%s: family: %w", f, err)
				return
			}
			families[i] = fam
			sh, err := text.NewShaperSFNT(ft.SFNT)
			if err != nil {
				fontErr = fmt.Errorf("%s: shaper: %w", f, err)
				return
			}
			shapers[i] = sh
		}
	})
	return fontErr
}

// Face returns a face of bundled font k (0 DejaVuSerif, 1 EBGaramond) at the given size in points.
func Face(k int, pt float64) (*canvas.FontFace, error) {
	if err := loadFonts(); err != nil {
		return nil, err
	}
	return fonts[k].Face(pt, canvas.Black), nil
}

// FaceVariant returns a face of bundled font k through FontFamily.Face with the given variant (normal, subscript,
// superscript): sub/superscript faces have a scaled size and offsets.
func FaceVariant(k int, pt float64, variant canvas.FontVariant) (*canvas.FontFace, error) {
	if err := loadFonts(); err != nil {
		return nil, err
	}
	return families[k].Face(pt, canvas.Black, canvas.FontRegular, variant), nil
}

// Run is a piece of text in one bundled font.
type Run struct {
	Font int // index of the bundled font
	Text string
}

// Glyphs shapes the runs the way RichText.ToText does for horizontal text: per face, per script item, in logical order.
// The public shaper API is used (text.NewShaperSFNT on the face's SFNT), so nothing of the code under test is
// re-implemented; only the itemisation loop (which calls text.EmbeddingLevels / text.ScriptItemizer) is repeated.
func Glyphs(runs []Run, faces []*canvas.FontFace) []text.Glyph {
	full := ""
	for _, r := range runs {
		full += r.Text
	}
	allRunes := []rune(full)
	levels := text.EmbeddingLevels(allRunes)
	var glyphs []text.Glyph
	off := 0
	for _, r := range runs {
		rr := []rune(r.Text)
		if len(rr) == 0 {
			continue
		}
		face := faces[r.Font]
		items := text.ScriptItemizer(rr, levels[off:off+len(rr)])
		off += len(rr)
		for _, it := range items {
			dir := text.LeftToRight
			if it.Level%2 == 1 {
				dir = text.RightToLeft
			}
			gs := shapers[r.Font].Shape(it.Text, face.PPEM(canvas.DefaultResolution), dir, it.Script, face.Language, "", "")
			for i := range gs {
				gs[i].SFNT = face.Font.SFNT
				gs[i].Size = face.Size
				gs[i].Script = it.Script
			}
			if dir == text.RightToLeft {
				for i := 0; i < len(gs)/2; i++ {
					gs[i], gs[len(gs)-1-i] = gs[len(gs)-1-i], gs[i]
				}
			}
			glyphs = append(glyphs, gs...)
		}
	}
	return glyphs
}

// LayoutItems returns the box/glue/penalty list the library's own item builder makes for the runs.
func LayoutItems(runs []Run, faces []*canvas.FontFace, indent float64, justified bool) []text.Item {
	align := text.Left
	if justified {
		align = text.Justified
	}
	return text.GlyphsToItems(Glyphs(runs, faces), indent, align)
}

var tokText = map[string]string{"on": "on", "women": "women", "wo_men": "wo\u00ADmen", "new2": "new", "ne_w2": "ne\u00ADw", "sp": " ", "nbsp": "\u00A0", "idsp": "\u3000", "hy": "-", "nl": "\n", "crlf": "\r\n", "cr": "\r", "wo_zmen": "wo\u200Bmen",
	"heb": "\u05D0\u05D1\u05D2"} // Hebrew letters: the bundled fonts have no glyphs for them (.notdef advances), bidi levels and span geometry do not depend on that

// TokenRuns builds the real text of a token list of spec/Layout.tla: "new2" is set in the second face.
func TokenRuns(toks []string) ([]Run, error) {
	var runs []Run
	for _, t := range toks {
		txt, ok := tokText[t]
		if !ok {
			return nil, fmt.Errorf("unknown token %q", t)
		}
		f := 0
		if t == "new2" || t == "ne_w2" {
			f = 1
		}
		if n := len(runs); n > 0 && runs[n-1].Font == f {
			runs[n-1].Text += txt
		} else {
			runs = append(runs, Run{Font: f, Text: txt})
		}
	}
	return runs, nil
}
