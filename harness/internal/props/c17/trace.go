package c17

import (
	"bytes"
	"encoding/json"
	"fmt"
	"math"
	"math/rand"
	"os"
	"strings"
	"time"

	"github.com/tdewolff/canvas"
	"github.com/tdewolff/canvas/text"

	"verif/harness/internal/core"
	"verif/harness/internal/tlc"
)

// ---- code -> spec: recorded Linebreak calls ---------------------------------------------------------------

// ItemF is an item with its real float values (a replay file must reproduce the call bit for bit).
type ItemF struct {
	T int     `json:"t"`
	W float64 `json:"w"`
	Y float64 `json:"y"`
	Z float64 `json:"z"`
	P float64 `json:"p"`
	F bool    `json:"f"`
}

// Call is one recorded call of text.Linebreak(items, width, 0).
type Call struct {
	Src   string  `json:"src"` // where the instance comes from (random generator / text layout)
	Items []ItemF `json:"items"`
	Width float64 `json:"width"`
	Unit  float64 `json:"unit"` // lengths are logged as round(x / Unit)
	H     int     `json:"h"`    // 0: all lengths are exact multiples of Unit ; 1: quantised
	WQ    int     `json:"wq"`   // reported widths are logged as round(Width * WQ / Unit)
}

func FromItems(src string, items []text.Item, width, unit float64, h, wq int) Call {
	c := Call{Src: src, Width: width, Unit: unit, H: h, WQ: wq}
	for _, it := range items {
		c.Items = append(c.Items, ItemF{T: int(it.Type), W: it.Width, Y: it.Stretch, Z: it.Shrink, P: it.Penalty, F: it.Flagged})
	}
	return c
}

func (c *Call) items() []text.Item {
	out := make([]text.Item, len(c.Items))
	for i, it := range c.Items {
		out[i] = text.Item{Type: text.Type(it.T), Width: it.W, Stretch: it.Y, Shrink: it.Z, Penalty: it.P, Flagged: it.F}
	}
	return out
}

type event struct {
	Op    string   `json:"op"`
	Items [][6]int `json:"items"`
	Width int      `json:"width"`
	H     int      `json:"h"`
	WQ    int      `json:"wq"`
	Brk   []int    `json:"brk"`
	Wd    []int    `json:"wd"`
	Rt    []int    `json:"rt"`
	OK    bool     `json:"ok"`
}

func q(x, unit float64) (int, bool) {
	v := math.Round(x / unit)
	if math.IsNaN(v) || math.Abs(v) > 2e8 {
		return 0, false
	}
	return int(v), true
}

// record executes the call on the real function and builds the trace event. Panics / hangs are returned as mismatches.
func (c *Call) record() (*event, []core.Mismatch) {
	r := CallLinebreak(c.items(), c.Width)
	if r.Hung {
		return nil, []core.Mismatch{{Signature: "timeout-linebreak", Detail: fmt.Sprintf("Linebreak did not return within %v", Watchdog)}}
	}
	if r.Panic != "" {
		return nil, []core.Mismatch{{Signature: "panic-linebreak", Detail: r.Panic}}
	}
	ev := &event{Op: "LB", H: c.H, WQ: c.WQ, OK: r.OK, Brk: []int{}, Wd: []int{}, Rt: []int{}}
	bad := func(what string) (*event, []core.Mismatch) {
		return nil, []core.Mismatch{{Signature: "machinery", Detail: "cannot quantise " + what}}
	}
	for _, it := range c.Items {
		var e [6]int
		var ok1, ok2, ok3 bool
		e[0] = it.T
		e[1], ok1 = q(it.W, c.Unit)
		e[2], ok2 = q(it.Y, c.Unit)
		e[3], ok3 = q(it.Z, c.Unit)
		if !ok1 || !ok2 || !ok3 {
			return bad("item")
		}
		switch {
		case it.P >= text.Infinity:
			e[4] = 1000
		case it.P <= -text.Infinity:
			e[4] = -1000
		default:
			e[4] = int(math.Round(it.P))
		}
		if it.F {
			e[5] = 1
		}
		ev.Items = append(ev.Items, e)
	}
	var ok bool
	if ev.Width, ok = q(c.Width, c.Unit); !ok {
		return bad("width")
	}
	for i := range r.Pos {
		ev.Brk = append(ev.Brk, r.Pos[i])
		w, ok1 := q(r.Width[i]*float64(c.WQ), c.Unit)
		rt, ok2 := q(r.Ratio[i], 1e-3)
		if !ok1 || !ok2 {
			// a non-finite width or ratio is itself a deviation: log an impossible value
			w, rt = -999999999, -999999999
		}
		ev.Wd = append(ev.Wd, w)
		ev.Rt = append(ev.Rt, rt)
	}
	return ev, nil
}

type explain struct {
	K     int      `json:"k"`
	Fails []string `json:"fails"`
	Feat  []string `json:"feat"`
	Lines []struct {
		A   int    `json:"a"`
		B   int    `json:"b"`
		L   int    `json:"L"`
		Lo  int    `json:"lo"`
		Hi  int    `json:"hi"`
		Cls string `json:"cls"`
		Wok bool   `json:"wok"`
		Rok bool   `json:"rok"`
		E   bool   `json:"e"`
	} `json:"lines"`
	Greedy bool `json:"greedy"`
}

func tcfg(check bool) string {
	ck := "FALSE"
	post := ""
	if check {
		ck = "TRUE"
		post = "POSTCONDITION TraceAccepted\n"
	}
	return "SPECIFICATION TSpec\nCONSTANTS Mode = \"none\"\n NFree = 0\n NRand = 0\n MinW = 0\n MaxW = 0\n Alpha = \"std\"\n CheckObs = " + ck + "\n" + post + "CHECK_DEADLOCK FALSE\n"
}

// toMismatches turns the spec's explanation of a failed event into signatures (same names as the replay path).
func toMismatches(x *explain, ev *event) []core.Mismatch {
	var ms []core.Mismatch
	hasFeat := func(n string) bool {
		for _, f := range x.Feat {
			if f == n {
				return true
			}
		}
		return false
	}
	feat := "" // the "deact" feature no longer qualifies a signature: that defect is repaired (fix: 6dc7788)
	if hasFeat("emptyglue") {
		feat = "-empty-line-before-glue"
	}
	detail := func() string {
		b, _ := json.Marshal(x.Lines)
		return fmt.Sprintf("returned %v widths %v ratios(x1000) %v ok=%v; spec: %s greedy-feasible=%v", ev.Brk, ev.Wd, ev.Rt, ev.OK, b, x.Greedy)
	}
	for _, f := range x.Fails {
		sig := f
		switch f {
		case "forced-missing":
			if !ev.OK {
				sig = "forced-break-skipped-overflow-fallback"
			}
		case "width-mismatch", "ratio-mismatch":
			emptyLine := false
			for _, ln := range x.Lines {
				if ln.E && (!ln.Wok || !ln.Rok) {
					emptyLine = true
				}
			}
			if emptyLine && hasFeat("emptyglue") {
				sig = "line-report-empty-line-before-glue"
			} else if !ev.OK {
				sig = "line-report-overflow-fallback"
			}
		case "infeasible-result", "overflow-reported-feasible":
			if feat != "" {
				sig = "optimum-lost" + feat
			}
		}
		ms = append(ms, core.Mismatch{Signature: sig, Detail: f + ": " + detail()})
	}
	return ms
}

// JudgeCalls executes every call on the real code, writes the events as one trace and lets Trace_KnuthPlass judge
// them (explain mode). Result: the mismatches per call.
func JudgeCalls(c *core.Ctx, calls []Call) [][]core.Mismatch {
	out := make([][]core.Mismatch, len(calls))
	var buf bytes.Buffer
	enc := json.NewEncoder(&buf)
	var idx []int // event number -> call number
	var evs []*event
	for i := range calls {
		ev, ms := calls[i].record()
		if ms != nil {
			out[i] = ms
			continue
		}
		enc.Encode(ev)
		idx = append(idx, i)
		evs = append(evs, ev)
	}
	if len(idx) == 0 {
		return out
	}
	res := c.TLC(tlc.Opts{Module: "Trace_KnuthPlass", Workers: 1, Files: map[string][]byte{"trace_kp.ndjson": buf.Bytes()}, Config: tcfg(false)}, true)
	for _, p := range res.Lines {
		var x explain
		if err := json.Unmarshal(p, &x); err != nil {
			c.Broken("bad explanation line: " + err.Error())
			continue
		}
		if x.K < 1 || x.K > len(idx) {
			c.Broken("explanation for unknown event")
			continue
		}
		out[idx[x.K-1]] = append(out[idx[x.K-1]], toMismatches(&x, evs[x.K-1])...)
	}
	return out
}

// ---- instance sources ----------------------------------------------------------------------------------------

// randomInstance: integer-valued paragraphs much larger than what TLC enumerates. Shapes: justified (stretchable
// and shrinkable inter-word glue, hyphenation points with a hyphen of width 0..1 between boxes), ragged
// (Glue(0,y,0) Penalty(0) Glue(w,-y,0)), explicit forced breaks, occasional +inf penalties and words wider than the line.
func randomInstance(r *rand.Rand, k int, wide bool) Call {
	ri := func(lo, hi int) int { return lo + r.Intn(hi-lo+1) }
	var items []text.Item
	ragged := r.Intn(3) == 0
	nwords := ri(6, 45)
	items = append(items, text.Box(float64(ri(0, 3))))
	for w := 0; w < nwords; w++ {
		// a word: 1..3 boxes with hyphenation points between them
		parts := ri(1, 3)
		for p := 0; p < parts; p++ {
			bw := ri(1, 9)
			if wide && r.Intn(40) == 0 {
				bw = ri(30, 70) // may be wider than the line
			}
			items = append(items, text.Box(float64(bw)))
			if p+1 < parts {
				hw := float64(r.Intn(2))
				if ragged {
					items = append(items, text.Penalty(0, text.Infinity, false), text.Glue(0, 3, 0), text.Penalty(hw, 500, true), text.Glue(0, -3, 0))
				} else {
					items = append(items, text.Penalty(hw, 50, true))
				}
			}
		}
		if w+1 == nwords {
			break
		}
		switch {
		case r.Intn(12) == 0: // explicit line break
			items = append(items, text.Glue(0, text.Infinity, 0), text.Penalty(0, -text.Infinity, false))
		case ragged:
			items = append(items, text.Glue(0, 3, 0), text.Penalty(0, 0, false), text.Glue(float64(ri(2, 3)), -3, 0))
		default:
			sw := ri(2, 4)
			items = append(items, text.Glue(float64(sw), float64(ri(1, 3)), float64(ri(0, sw-1))))
			if r.Intn(15) == 0 {
				items = append(items, text.Penalty(0, text.Infinity, false)) // no break at this space (glue before a penalty is not a breakpoint)
			}
		}
	}
	items = append(items, text.Glue(0, text.Infinity, 0), text.Penalty(0, -text.Infinity, false))
	lo := 12
	if !wide {
		lo = 24 // nothing unbreakable (box, unbreakable space, box, hyphen: 9+4+9+1) is wider than the line
	}
	return FromItems(fmt.Sprintf("random#%d wide=%v", k, wide), items, float64(ri(lo, 70)), 1, 0, 1000)
}

var words = []string{"a", "in", "the", "wish", "king", "olden", "times", "forest", "daugh\u00ADters", "beau\u00ADti\u00ADful", "young\u00ADest", "aston\u00ADished", "lime-tree", "foun\u00ADtain;", "high,", "play\u00ADthing.", "Wide", "illimitable", "x\u00A0y", "well-being"}

// randomText: strings with the special characters the item builder knows (soft hyphen, '-', NBSP, repeated spaces,
// ideographic space, newlines, punctuation that changes the space factors).
func randomText(r *rand.Rand) string {
	var sb strings.Builder
	n := 3 + r.Intn(30)
	for i := 0; i < n; i++ {
		sb.WriteString(words[r.Intn(len(words))])
		if i+1 == n {
			break
		}
		switch r.Intn(20) {
		case 0:
			sb.WriteString("\n")
		case 1:
			sb.WriteString("  ")
		case 2:
			sb.WriteString("\u3000")
		case 3:
			sb.WriteString(". ")
		default:
			sb.WriteString(" ")
		}
	}
	return sb.String()
}

func layoutCall(r *rand.Rand, k int, narrow bool) (Call, error) {
	f0, err := Face(0, []float64{12, 10, 8}[r.Intn(3)])
	if err != nil {
		return Call{}, err
	}
	f1, err := Face(1, 12)
	if err != nil {
		return Call{}, err
	}
	faces := []*canvas.FontFace{f0, f1}
	s := randomText(r)
	runs := []Run{{0, s}}
	if r.Intn(4) == 0 && len(s) > 8 {
		cut := strings.Index(s[len(s)/2:], " ")
		if cut >= 0 {
			cut += len(s) / 2
			runs = []Run{{0, s[:cut]}, {1, s[cut:]}}
		}
	}
	justified := r.Intn(2) == 0
	indent := []float64{0, 0, 5}[r.Intn(3)]
	items := LayoutItems(runs, faces, indent, justified)
	width := 32 + 73*r.Float64() // the longest unbreakable word is ~25 mm at 12 pt, plus the indent
	if narrow {
		width = 12 + 20*r.Float64()
	}
	if r.Intn(3) == 0 {
		width = math.Round(width)
	}
	return FromItems(fmt.Sprintf("layout#%d justified=%v indent=%v %q", k, justified, indent, s), items, width, 1e-3, 1, 1), nil
}

var layoutToks = []string{"on", "women", "wo_men", "wo_zmen", "new2", "ne_w2", "sp", "sp", "sp", "nbsp", "idsp", "hy", "nl"}

// tokenCall: the text of a random token list of spec/Layout.tla (what the C16 driver lays out), as a Linebreak call.
func tokenCall(r *rand.Rand, k int) (Call, error) {
	f0, err := Face(0, 12)
	if err != nil {
		return Call{}, err
	}
	f1, err := Face(1, 12)
	if err != nil {
		return Call{}, err
	}
	n := 3 + r.Intn(14)
	toks := make([]string, n)
	for i := range toks {
		toks[i] = layoutToks[r.Intn(len(layoutToks))]
	}
	runs, err := TokenRuns(toks)
	if err != nil {
		return Call{}, err
	}
	justified := r.Intn(2) == 0
	indent := []float64{0, 5}[r.Intn(2)]
	items := LayoutItems(runs, []*canvas.FontFace{f0, f1}, indent, justified)
	return FromItems(fmt.Sprintf("tokens#%d %v justified=%v indent=%v", k, toks, justified, indent), items, 18+50*r.Float64(), 1e-3, 1, 1), nil
}

func (d Driver) traces(c *core.Ctx) {
	r := rand.New(rand.NewSource(c.Seed*104729 + 17))
	var calls []Call
	nr, nl, nt := c.Pick(1300, 11000), c.Pick(900, 8000), c.Pick(600, 5000)
	for k := 0; k < nr; k++ {
		calls = append(calls, randomInstance(r, k, k%6 == 0))
	}
	for k := 0; k < nl; k++ {
		cl, err := layoutCall(r, k, k%8 == 0)
		if err != nil {
			c.Broken("fonts: " + err.Error())
			return
		}
		calls = append(calls, cl)
	}
	for k := 0; k < nt; k++ {
		cl, err := tokenCall(r, k)
		if err != nil {
			c.Broken("fonts: " + err.Error())
			return
		}
		if len(cl.Items) > 0 {
			calls = append(calls, cl)
		}
	}
	// Two traces: calls for which the library reports overflow go through the fallback whose reported widths are a
	// known finding; keeping them apart lets the other trace be accepted outright on the unchanged tree.
	var fit, over []Call
	for i := range calls {
		if res := CallLinebreak(calls[i].items(), calls[i].Width); res.Panic == "" && !res.Hung && !res.OK {
			over = append(over, calls[i])
		} else {
			fit = append(fit, calls[i])
		}
	}
	c.SetExtra("trace_calls_overflowing", len(over))
	d.ValidateCalls(c, fit)
	d.ValidateCalls(c, over)
}

// ValidateCalls records the calls as one trace, has Trace_KnuthPlass accept it, and on rejection turns the failing
// events into call-level witnesses. Also used by the C16 driver's Linebreak calls.
func (d Driver) ValidateCalls(c *core.Ctx, calls []Call) {
	var buf bytes.Buffer
	enc := json.NewEncoder(&buf)
	var idx []int
	nbreaks, maxItems := 0, 0
	for i := range calls {
		ev, ms := calls[i].record()
		if ms != nil {
			c.Report(Scenario{Kind: "call", Call: &calls[i]}, ms)
			continue
		}
		enc.Encode(ev)
		idx = append(idx, i)
		nbreaks += len(ev.Brk)
		if len(ev.Items) > maxItems {
			maxItems = len(ev.Items)
		}
	}
	c.AddExtra("trace_calls", int64(len(idx)))
	c.AddExtra("trace_lines_checked", int64(nbreaks))
	c.SetExtra("trace_max_items", maxItems)
	files := map[string][]byte{"trace_kp.ndjson": buf.Bytes()}
	res := c.TLC(tlc.Opts{Module: "Trace_KnuthPlass", Workers: 1, Files: files, Config: tcfg(true), Timeout: 40 * time.Minute}, false)
	if res.OK {
		c.Count(int64(len(idx)), 0, int64(len(idx)))
		if len(idx) > 0 {
			c.Sample(map[string]any{"recorded_call": calls[idx[len(idx)-1]].Src, "trace_head": string(buf.Bytes()[:min(buf.Len(), 500)])})
		}
		return
	}
	// rejected: let the spec explain every failing event, report each as a call-level witness
	exp := c.TLC(tlc.Opts{Module: "Trace_KnuthPlass", Workers: 1, Files: files, Config: tcfg(false), Timeout: 40 * time.Minute}, true)
	found := false
	for _, p := range exp.Lines {
		var x explain
		if err := json.Unmarshal(p, &x); err != nil || x.K < 1 || x.K > len(idx) {
			c.Broken("bad explanation line")
			continue
		}
		found = true
		call := &calls[idx[x.K-1]]
		ev, _ := call.record()
		ms := toMismatches(&x, ev)
		if os.Getenv("C17_DEBUG") != "" {
			fmt.Fprintf(os.Stderr, "DEBUG %s\n  %v\n  %s\n", call.Src, ms, p)
		}
		for _, m := range ms {
			c.AddExtra("mismatch:"+m.Signature, 1)
		}
		c.Report(Scenario{Kind: "call", Call: call}, ms)
	}
	c.Count(int64(len(idx)), 0, int64(len(idx)))
	if !found {
		os.MkdirAll(core.OutDir()+"/replays", 0o755)
		os.WriteFile(core.OutDir()+"/replays/C17-rejected-trace.ndjson", buf.Bytes(), 0o644)
		c.Broken(fmt.Sprintf("Trace_KnuthPlass rejected the recorded trace after %d events but the explain run names no failing event: %s", res.Depth-1, trunc(res.ErrText, 1500)))
	}
}

func trunc(s string, n int) string {
	if len(s) > n {
		return s[:n]
	}
	return s
}
