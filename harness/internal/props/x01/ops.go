package x01

import (
	"fmt"
	"math"
	"sort"
	"strings"

	"github.com/tdewolff/canvas"

	"verif/harness/internal/core"
	"verif/harness/internal/latgeo"
	"verif/harness/internal/oracle"
)

// ---- helpers --------------------------------------------------------------------------------------------------------

func invert(e latgeo.Emb) latgeo.Emb {
	d := e.Det()
	a, b, c, dd := e.D/d, -e.B/d, -e.C/d, e.A/d
	return latgeo.Emb{Name: "inv-" + e.Name, A: a, B: b, C: c, D: dd, E: -(a*e.E + b*e.F), F: -(c*e.E + dd*e.F)}
}

func sgn(x float64) int {
	if x < 0 {
		return -1
	} else if x > 0 {
		return 1
	}
	return 0
}

// rawPath builds the command stream directly (MoveTo, LineTo..., Close): the operations under test work on the stored
// vertices, and collinear vertices must survive (the builder would merge them).
func rawPath(p latgeo.LPath, open func(k int) bool, e latgeo.Emb) *canvas.Path {
	var d []float64
	for k, c := range p {
		for i, v := range c {
			x, y := e.Map(float64(v[0]), float64(v[1]))
			cmd := canvas.LineToCmd
			if i == 0 {
				cmd = canvas.MoveToCmd
			}
			d = append(d, cmd, x, y, cmd)
		}
		if !open(k) && len(c) > 0 {
			x, y := e.Map(float64(c[0][0]), float64(c[0][1]))
			d = append(d, canvas.CloseCmd, x, y, canvas.CloseCmd)
		}
	}
	return canvas.NewPathFromData(d)
}

// toGrid maps a real point back to the lattice scaled by S; ok=false if it is not (within 1e-6 lattice units / S) on it.
func toGrid(p oracle.Pt, inv latgeo.Emb, S int) (g [2]int, ok bool) {
	x, y := inv.Map(p.X, p.Y)
	gx, gy := x*float64(S), y*float64(S)
	rx, ry := math.Round(gx), math.Round(gy)
	return [2]int{int(rx), int(ry)}, math.Abs(gx-rx) <= 1e-4 && math.Abs(gy-ry) <= 1e-4
}

type gsub struct {
	pts      [][2]int
	closed   bool
	badClose bool
}

// gridSubs projects a polygonal result onto the scaled lattice; consecutive equal points are merged.
func gridSubs(res *canvas.Path, inv latgeo.Emb, S int, dedupe bool) ([]gsub, error) {
	subs, err := oracle.PolySubPaths(res.Data())
	if err != nil {
		return nil, err
	}
	var out []gsub
	for _, sp := range subs {
		g := gsub{closed: sp.Closed, badClose: sp.BadClose}
		for _, p := range sp.Pts {
			q, ok := toGrid(p, inv, S)
			if !ok {
				return nil, fmt.Errorf("vertex (%v,%v) is not on the 1/%d lattice grid", p.X, p.Y, S)
			}
			if n := len(g.pts); !dedupe || n == 0 || g.pts[n-1] != q {
				g.pts = append(g.pts, q)
			}
		}
		if dedupe && g.closed && len(g.pts) > 1 && g.pts[len(g.pts)-1] == g.pts[0] {
			g.pts = g.pts[:len(g.pts)-1]
		}
		out = append(out, g)
	}
	return out, nil
}

func pstr(p [][2]int) string {
	var b strings.Builder
	for _, v := range p {
		fmt.Fprintf(&b, "(%d,%d)", v[0], v[1])
	}
	return b.String()
}

// canon: canonical string of a polyline; closed ones are rotated to their least representation.
func canon(p [][2]int, closed bool) string {
	if !closed || len(p) == 0 {
		return "o" + pstr(p)
	}
	best := ""
	for r := range p {
		q := append(append([][2]int{}, p[r:]...), p[:r]...)
		if s := pstr(q); best == "" || s < best {
			best = s
		}
	}
	return "c" + best
}

func windingsOf(res *canvas.Path, pts []oracle.Pt) ([]int, error) {
	return latgeo.Windings(res, pts, 8)
}

func (s *Scenario) lat(k int) string {
	return fmt.Sprintf("(%.3f,%.3f)", float64(s.Samples[k][0])/float64(s.S), float64(s.Samples[k][1])/float64(s.S))
}

// ---- clip -----------------------------------------------------------------------------------------------------------

func (s *Scenario) openOf(k int) bool { return s.Open && k == 0 }

func (s *Scenario) clipDetail() string {
	return fmt.Sprintf("P=%s open=%v rect(half units)=%v emb=%s", s.P.SVG(), s.Open, s.Rect, s.Emb.Name)
}

func execClip(s *Scenario, guard bool) (ms []core.Mismatch) {
	e := s.Emb
	inv := invert(e)
	x0, y0 := e.Map(float64(s.Rect[0])/2, float64(s.Rect[1])/2)
	x1, y1 := e.Map(float64(s.Rect[2])/2, float64(s.Rect[3])/2)
	tag := s.embClass()

	// Clip
	var res *canvas.Path
	if m := call("clip", guard, tag, s.clipDetail, func() { res = rawPath(s.P, s.openOf, e).Clip(x0, y0, x1, y1) }); m != nil {
		ms = append(ms, *m)
	} else if subs, err := gridSubs(res, inv, s.S, true); err != nil {
		ms = append(ms, core.Mismatch{Signature: "clip-result" + tag, Detail: err.Error() + "; " + s.clipDetail() + " result=" + res.String()})
	} else {
		ms = append(ms, s.judgeClip(subs, res)...)
	}

	// FastClip
	var fres *canvas.Path
	if m := call("fastclip", guard, tag, s.clipDetail, func() { fres = rawPath(s.P, s.openOf, e).FastClip(x0, y0, x1, y1) }); m != nil {
		ms = append(ms, *m)
	} else if subs, err := gridSubs(fres, inv, s.S, false); err != nil {
		ms = append(ms, core.Mismatch{Signature: "fastclip-result" + tag, Detail: err.Error() + "; " + s.clipDetail() + " result=" + fres.String()})
	} else {
		ms = append(ms, s.judgeFastClip(subs, fres)...)
	}
	return
}

type dseg struct{ u, v [2]int }

func (s *Scenario) judgeClip(subs []gsub, res *canvas.Path) (ms []core.Mismatch) {
	ms = s.judgeClip1(subs, res)
	// an open sub-path followed by another sub-path: Clip keeps the state of the open one (its own feature class)
	if len(ms) > 0 && s.Open && len(s.P) > 1 {
		return []core.Mismatch{{Signature: "clip-structure+after-open-subpath", Detail: ms[0].Detail}}
	}
	return
}

func (s *Scenario) judgeClip1(subs []gsub, res *canvas.Path) (ms []core.Mismatch) {
	tag := s.embClass()
	for _, g := range subs {
		if g.badClose {
			sig := "clip-close-not-at-start" + tag
			if s.F["allpart"] {
				sig = "clip-close-not-at-start+all-edges-partly-inside"
			}
			ms = append(ms, core.Mismatch{Signature: sig, Detail: fmt.Sprintf("%s: Clip result %s (data %v) ends a sub-path with a Close command whose coordinates are not the sub-path's start", s.clipDetail(), res, res.Data())})
			break
		}
	}
	// observed segments of positive length
	var obs []dseg
	for _, g := range subs {
		for i := 0; i+1 < len(g.pts); i++ {
			obs = append(obs, dseg{g.pts[i], g.pts[i+1]})
		}
		if g.closed && len(g.pts) > 1 {
			obs = append(obs, dseg{g.pts[len(g.pts)-1], g.pts[0]})
		}
	}
	// expected: multiset of the clipped edges; st 2 (touching point / along the boundary) is optional
	type exp struct {
		dseg
		st   int
		used bool
	}
	var exps []exp
	for _, c := range s.Segs {
		for _, g := range c {
			if g.St != 0 && g.U != g.V {
				exps = append(exps, exp{dseg{g.U, g.V}, g.St, false})
			}
		}
	}
	var extra, missing []dseg
	for _, o := range obs {
		found := false
		for i := range exps {
			if !exps[i].used && exps[i].dseg == o {
				exps[i].used, found = true, true
				break
			}
		}
		if !found {
			extra = append(extra, o)
		}
	}
	for _, x := range exps {
		if !x.used && x.st == 1 {
			missing = append(missing, x.dseg)
		}
	}
	if len(extra)+len(missing) > 0 {
		// deviation pattern of the exit/re-enter defect: the path leaves the rectangle on edge i and re-enters on edge i+1;
		// the result joins the exit point of edge i straight to the END of the clipped edge i+1 (whose own start is lost)
		predExtra, predMissing := map[dseg]bool{}, map[dseg]bool{}
		for k, c := range s.Segs {
			n := len(c)
			for i := 0; i < n; i++ {
				j := i + 1
				if j == n {
					if s.openOf(k) {
						continue
					}
					j = 0
				}
				if c[i].St != 0 && c[j].St != 0 && c[i].V != c[j].U {
					predExtra[dseg{c[i].V, c[j].V}] = true
					predMissing[dseg{c[j].U, c[j].V}] = true
				}
			}
		}
		// deviation pattern of the wrap-around join: the section of the closing edge is joined to the first section of the
		// contour although they do not meet at the start vertex
		for k, c := range s.Segs {
			n := len(c)
			if s.openOf(k) || n == 0 || c[n-1].St == 0 {
				continue
			}
			for f := 0; f < n-1; f++ {
				if c[f].St != 0 {
					if c[n-1].V != c[f].U {
						predExtra[dseg{c[n-1].V, c[f].V}] = true
						predMissing[dseg{c[f].U, c[f].V}] = true
					}
					break
				}
			}
		}
		explained := s.F["xr"] || s.F["wj"]
		for _, x := range extra {
			explained = explained && predExtra[x]
		}
		for _, x := range missing {
			explained = explained && predMissing[x]
		}
		sig := "clip-segments" + tag
		if explained && s.F["xr"] {
			sig = "clip-chord+exit-reenter"
		} else if explained {
			sig = "clip-chord+wrap-join"
		} else if len(extra) > 0 && len(missing) == 0 {
			sig = "clip-extra-segment" + tag
		} else if len(extra) == 0 {
			sig = "clip-missing-segment" + tag
		}
		ms = append(ms, core.Mismatch{Signature: sig, Detail: fmt.Sprintf("%s: Clip result %s has segments that are no clipped edge of P %v and lacks clipped edges %v (coordinates x%d)", s.clipDetail(), res, extra, missing, s.S)})
		return
	}
	// structure in generic position: the pieces (maximal chains joined at vertices inside the rectangle)
	if s.Generic && len(ms) == 0 {
		var want, got []string
		for _, c := range s.Pieces {
			for _, pc := range c {
				want = append(want, canon(pc.Pts, pc.Closed))
			}
		}
		for _, g := range subs {
			if len(g.pts) >= 2 {
				got = append(got, canon(g.pts, g.closed))
			}
		}
		sort.Strings(want)
		sort.Strings(got)
		if strings.Join(want, "|") != strings.Join(got, "|") {
			sig := "clip-pieces" + tag
			if s.F["allpart"] {
				sig = "clip-pieces+all-edges-partly-inside"
			} else if s.F["xr"] {
				sig = "clip-pieces+exit-reenter"
			} else if s.F["wj"] {
				sig = "clip-pieces+wrap-join"
			}
			ms = append(ms, core.Mismatch{Signature: sig, Detail: fmt.Sprintf("%s: Clip result %s: pieces %v, expected %v (coordinates x%d)", s.clipDetail(), res, got, want, s.S)})
		}
	}
	return
}

// matchSub finds indices of the observed vertices in contour c, in order (cyclically for closed contours).
func matchSub(obs [][2]int, c latgeo.LContour, closed bool) ([]int, bool) {
	n := len(c)
	if len(obs) == 0 {
		return nil, true
	}
	starts := []int{0}
	if closed {
		starts = starts[:0]
		for i := 0; i < n; i++ {
			starts = append(starts, i)
		}
	}
	for _, s0 := range starts {
		var idx []int
		pos, lim := s0, n
		if closed {
			lim = s0 + n
		}
		ok := true
		for _, o := range obs {
			for pos < lim && c[pos%n] != [2]int(o) {
				pos++
			}
			if pos >= lim {
				ok = false
				break
			}
			idx = append(idx, pos%n)
			pos++
		}
		if ok {
			return idx, true
		}
	}
	return nil, false
}

func (s *Scenario) judgeFastClip(subs []gsub, res *canvas.Path) (ms []core.Mismatch) {
	tag := s.embClass()
	add := func(sig, format string, a ...any) {
		ms = append(ms, core.Mismatch{Signature: sig + tag, Detail: s.clipDetail() + ": FastClip result " + res.String() + ": " + fmt.Sprintf(format, a...)})
	}
	// vertices are vertices of P; sub-paths are sub-sequences of the contours, in order
	type ledge struct{ a, b [2]int }
	obsEdges := map[ledge]int{}
	k := 0
	for _, g := range subs {
		lp := make([][2]int, len(g.pts))
		for i, q := range g.pts {
			if q[0]%s.S != 0 || q[1]%s.S != 0 {
				add("fastclip-new-vertex", "vertex %v/%d is no vertex of P", q, s.S)
				return
			}
			lp[i] = [2]int{q[0] / s.S, q[1] / s.S}
		}
		for i := 0; i+1 < len(lp); i++ {
			obsEdges[ledge{lp[i], lp[i+1]}]++
		}
		if g.closed && len(lp) > 1 {
			obsEdges[ledge{lp[len(lp)-1], lp[0]}]++
		}
		var idx []int
		found := false
		for ; k < len(s.P); k++ {
			if g.closed != !s.openOf(k) {
				continue
			}
			var ok bool
			if idx, ok = matchSub(lp, s.P[k], g.closed); ok {
				found = true
				break
			}
		}
		if !found {
			add("fastclip-not-subsequence", "sub-path %v is no sub-sequence of the vertices of a contour of P with the same closedness (in order)", lp)
			return
		}
		c := s.P[k]
		n := len(c)
		m := len(idx)
		last := m - 1
		if g.closed {
			last = m
		}
		for t := 0; t < last && m > 1; t++ {
			i, j := idx[t], idx[(t+1)%m]
			isEdge := false // an edge of P (judged by its end points: vertices may repeat)
			for a := 0; a < n; a++ {
				if c[a] == c[i] && c[(a+1)%n] == c[j] && (g.closed || a+1 < n) {
					isEdge = true
				}
			}
			if isEdge {
				continue
			}
			if !s.Chord[k][i][j] {
				add("fastclip-chord-enters-rect", "the new segment %v -> %v passes through the interior of the rectangle", c[i], c[j])
				return
			}
		}
		k++
	}
	// every edge of P that meets the interior of the rectangle is kept
	for kk, c := range s.P {
		for i, keep := range s.Keep[kk] {
			if keep {
				e := ledge{c[i], c[(i+1)%len(c)]}
				if obsEdges[e] == 0 {
					add("fastclip-dropped-segment", "the edge %v -> %v of P meets the interior of the rectangle but is not in the result", e.a, e.b)
					return
				}
				obsEdges[e]--
			}
		}
	}
	// the filled region inside the rectangle is unchanged (closed contours)
	if !s.Open {
		pts := latgeo.SamplePts(s.Samples, s.S, s.Emb)
		w, err := windingsOf(res, pts)
		if err != nil {
			add("fastclip-result", "%v", err)
			return
		}
		for i := range w {
			if s.Inr[i] != 1 || s.Wp[i] == 99 {
				continue
			}
			if (w[i] != 0) != (s.Wp[i] != 0) {
				add("fastclip-cells", "sample %s inside the rectangle: winding of P %d, of the result %d", s.lat(i), s.Wp[i], w[i])
				return
			}
			if (w[i]%2 != 0) != (s.Wp[i]%2 != 0) {
				add("fastclip-cells-evenodd", "sample %s inside the rectangle: winding of P %d, of the result %d", s.lat(i), s.Wp[i], w[i])
				return
			}
		}
	}
	return
}

// ---- polyline -------------------------------------------------------------------------------------------------------

func execPoly(s *Scenario, guard bool) (ms []core.Mismatch) {
	e := s.Emb
	tag := s.embClass()
	c := s.P[0]
	det := e.Det()
	or := sgn(det) // orientation of the embedding: reflections swap clockwise and counter-clockwise
	detail := func() string {
		return fmt.Sprintf("polyline %s open=%v emb=%s", s.P.SVG(), s.Open, e.Name)
	}
	add := func(sig, format string, a ...any) {
		ms = append(ms, core.Mismatch{Signature: sig, Detail: detail() + ": " + fmt.Sprintf(format, a...)})
	}
	scale := math.Sqrt(math.Abs(det))
	m := call("polyline", guard, tag, detail, func() {
		pl := &canvas.Polyline{}
		var want []canvas.Point
		for _, v := range c {
			x, y := e.Map(float64(v[0]), float64(v[1]))
			pl.Add(x, y)
			want = append(want, canvas.Point{X: x, Y: y})
		}
		if !s.Open {
			pl.Close()
			want = append(want, want[0])
		}
		if pl.Closed() != !s.Open {
			add("polyline-closed"+tag, "Closed() = %v", pl.Closed())
		}
		got := pl.Coords()
		same := len(got) == len(want)
		for i := 0; same && i < len(got); i++ {
			same = got[i] == want[i]
		}
		if !same {
			add("polyline-coords"+tag, "Coords() = %v, added %v", got, want)
		}
		// ToPath: a closed path iff the polyline is closed; its vertices are a sub-sequence of the coordinates that holds every corner
		tp := pl.ToPath()
		subs, err := oracle.PolySubPaths(tp.Data())
		if err != nil || len(subs) != 1 || subs[0].Closed != !s.Open {
			add("polyline-topath"+tag, "ToPath() = %s (err %v)", tp, err)
		} else {
			j := 0
			okc := true
			for i, v := range c {
				x, y := e.Map(float64(v[0]), float64(v[1]))
				if j < len(subs[0].Pts) && subs[0].Pts[j] == (oracle.Pt{X: x, Y: y}) {
					j++
				} else if s.Corner[i] {
					okc = false
				}
			}
			if !okc || j != len(subs[0].Pts) {
				add("polyline-topath"+tag, "ToPath() = %s does not trace the corners of the polyline in order", tp)
			}
		}
		if s.Open {
			return
		}
		// FillCount / Interior at the samples (closed polylines)
		pts := latgeo.SamplePts(s.Samples, s.S, e)
		rules := []canvas.FillRule{canvas.NonZero, canvas.EvenOdd, canvas.Positive, canvas.Negative}
		rname := []string{"nonzero", "evenodd", "positive", "negative"}
		nSame, nNeg, nOther := 0, 0, 0
		first := -1
		badRule := map[int]int{}
		for i, pt := range pts {
			if s.Fc[i] == 99 {
				continue
			}
			want := s.Fc[i] * or
			fc := pl.FillCount(pt.X, pt.Y)
			switch {
			case fc == want:
				nSame++
			case fc == -want:
				nNeg++
				if first < 0 {
					first = i
				}
			default:
				nOther++
				first = i
			}
			for ri, rule := range rules {
				rj := ri
				if or < 0 && ri >= 2 { // a reflection swaps Positive and Negative
					rj = 5 - ri
				}
				if _, seen := badRule[ri]; !seen && pl.Interior(pt.X, pt.Y, rule) != (s.Fills[rj][i] == 1) {
					badRule[ri] = i
				}
			}
		}
		if nOther > 0 {
			add("polyline-fillcount"+tag, "FillCount at sample %s = %d, winding number %d", s.lat(first), pl.FillCount(pts[first].X, pts[first].Y), s.Fc[first]*or)
		} else if nNeg > 0 {
			add("polyline-fillcount-sign", "FillCount at sample %s = %d, winding number %d (counter-clockwise positive): every enclosed sample has the opposite sign", s.lat(first), pl.FillCount(pts[first].X, pts[first].Y), s.Fc[first]*or)
		}
		for ri, i := range badRule {
			sig := "polyline-interior+" + rname[ri]
			if ri < 2 {
				sig += tag
			}
			add(sig, "Interior(%s) at sample %s = %v, winding number %d", rname[ri], s.lat(i), pl.Interior(pts[i].X, pts[i].Y, rules[ri]), s.Fc[i]*or)
		}
		// Area: magnitude always; the sign as documented ("signed area")
		wantA := float64(s.Area2) / 2 * det
		a := pl.Area()
		if math.Abs(math.Abs(a)-math.Abs(wantA)) > 1e-9*math.Max(1, math.Abs(wantA)) {
			add("polyline-area"+tag, "Area() = %v, exact area %v", a, wantA)
		} else if wantA != 0 && sgn(a) != sgn(wantA) && a > 0 {
			add("polyline-area-unsigned", "Area() = %v for a clockwise polygon of signed area %v (documented as signed)", a, wantA)
		} else if wantA != 0 && sgn(a) != sgn(wantA) {
			add("polyline-area-sign"+tag, "Area() = %v, signed area %v", a, wantA)
		}
		// Centroid (exact rational from the spec)
		if s.Area2 != 0 {
			cx, cy := float64(s.Cen[0])/float64(3*s.Area2), float64(s.Cen[1])/float64(3*s.Area2)
			wx, wy := e.Map(cx, cy)
			g := pl.Centroid()
			tol := 1e-9 * (scale*8 + math.Abs(e.E) + math.Abs(e.F))
			if math.Abs(g.X-wx) > tol || math.Abs(g.Y-wy) > tol {
				if math.Abs(g.X+wx) <= tol && math.Abs(g.Y+wy) <= tol && wantA < 0 {
					add("polyline-centroid-negated+cw", "Centroid() = %v, centroid %v,%v: mirrored through the origin for a clockwise polygon", g, wx, wy)
				} else {
					add("polyline-centroid"+tag, "Centroid() = %v, centroid %v,%v", g, wx, wy)
				}
			}
		}
		// the same polygon through a Path: PolylineFromPath / PolylineFromPathCoords
		bp := latgeo.Build(s.P, e)
		for name, q := range map[string]*canvas.Polyline{"PolylineFromPath": canvas.PolylineFromPath(bp), "PolylineFromPathCoords": canvas.PolylineFromPathCoords(bp)} {
			if !q.Closed() {
				add("polyline-frompath-closed"+tag, "%s(%s).Closed() = false", name, bp)
			}
			if qa := q.Area(); math.Abs(math.Abs(qa)-math.Abs(wantA)) > 1e-9*math.Max(1, math.Abs(wantA)) {
				add("polyline-frompath-area"+tag, "%s(%s).Area() = %v, exact area %v", name, bp, qa, wantA)
			}
			for i, pt := range pts {
				if s.Fc[i] != 99 && (q.FillCount(pt.X, pt.Y) != 0) != (s.Fc[i] != 0) {
					add("polyline-frompath-fillcount"+tag, "%s(%s).FillCount at sample %s = %d, winding number %d", name, bp, s.lat(i), q.FillCount(pt.X, pt.Y), s.Fc[i]*or)
					break
				}
			}
		}
	})
	if m != nil {
		ms = append(ms, *m)
	}
	return
}

// ---- triangulate ----------------------------------------------------------------------------------------------------

// triTag: feature class of a Triangulate scenario: a straight (180 degree) vertex, and the embedding: exact lattice
// symmetries, the 1e-3 scale (poly2tri compares cross products with an absolute 1e-5), any other float embedding.
func triTag(s *Scenario) string {
	tag := s.embClass()
	if s.Emb.Name == latgeo.Tiny.Name {
		tag = "@tiny"
	}
	// two vertices whose embedded y differ by rounding noise only (poly2tri orders its sweep by y)
	if len(s.P) > 0 && !exactEmb(s.Emb) {
		sc := math.Sqrt(math.Abs(s.Emb.Det()))
		for i, v := range s.P[0] {
			_, yi := s.Emb.Map(float64(v[0]), float64(v[1]))
			for _, w := range s.P[0][:i] {
				_, yj := s.Emb.Map(float64(w[0]), float64(w[1]))
				if d := math.Abs(yi - yj); d != 0 && d < 1e-9*sc && !strings.Contains(tag, "nearlevel") {
					tag = "+nearlevel" + tag
				}
			}
		}
	}
	if s.F["straight"] {
		tag = "+straight" + tag
	}
	return tag
}

func execTri(s *Scenario, guard bool) (ms []core.Mismatch) {
	e := s.Emb
	tag := triTag(s)
	detail := func() string { return fmt.Sprintf("P=%s (simple polygon) emb=%s", s.P.SVG(), e.Name) }
	var tris [][3]canvas.Point
	if m := call("triangulate", guard, tag, detail, func() { tris, _ = latgeo.Build(s.P, e).Triangulate() }); m != nil {
		return []core.Mismatch{*m}
	}
	add := func(sig, format string, a ...any) {
		ms = append(ms, core.Mismatch{Signature: sig + tag, Detail: detail() + fmt.Sprintf(": %d triangles %v: ", len(tris), tris) + fmt.Sprintf(format, a...)})
	}
	det := math.Abs(e.Det())
	scale := math.Sqrt(det)
	// vertices of the triangles are vertices of the polygon
	verts := map[oracle.Pt]bool{}
	for _, v := range s.P[0] {
		x, y := e.Map(float64(v[0]), float64(v[1]))
		verts[oracle.Pt{X: x, Y: y}] = true
	}
	sum := 0.0
	T := make([][3]oracle.Pt, len(tris))
	for i, t := range tris {
		for j := 0; j < 3; j++ {
			T[i][j] = oracle.Pt{X: t[j].X, Y: t[j].Y}
			if !verts[T[i][j]] {
				add("triangulate-new-vertex", "triangle vertex %v is no vertex of the polygon", t[j])
				return
			}
		}
		sum += math.Abs(oracle.TriArea2(T[i][0], T[i][1], T[i][2])) / 2
	}
	pts := latgeo.SamplePts(s.Samples, s.S, e)
	for k, pt := range pts {
		if s.Cells[k] == 2 {
			continue
		}
		n, edge := 0, 0
		for _, t := range T {
			switch oracle.InTriangle(t[0], t[1], t[2], pt, 1e-7*scale) {
			case 1:
				n++
			case 0:
				edge++
			}
		}
		if edge > 0 {
			add("triangulate-sample-on-edge", "sample %s lies on a triangle edge although the spec decided it is on no chord", s.lat(k))
			return
		}
		if s.Cells[k] == 1 && n != 1 {
			add("triangulate-cells", "sample %s inside the polygon lies in %d triangles", s.lat(k), n)
			return
		}
		if s.Cells[k] == 0 && n != 0 {
			add("triangulate-cells", "sample %s outside the polygon lies in %d triangles", s.lat(k), n)
			return
		}
	}
	want := float64(s.Area2) / 2 * det
	if math.Abs(sum-want) > 1e-9*math.Max(want, 1e-300) {
		add("triangulate-area", "the triangle areas sum to %v, the polygon's area is %v", sum, want)
	}
	return
}

// ---- tile -----------------------------------------------------------------------------------------------------------

var rhombusEmb = latgeo.Emb{Name: "rhombus", A: 1, D: math.Sqrt(3)}

type cellCtor struct {
	name string
	m    canvas.Matrix
}

func (s *Scenario) tileTag() string {
	t := "+general"
	switch {
	case s.F["deg"]:
		t = "+degenerate"
	case s.F["spike"]:
		t = "+zero-width-part"
	case s.F["touch"]:
		t = "+copies-touch"
	case s.F["cliptouch"]:
		t = "+clip-overlap"
	case !s.F["simple"]:
		t = "+selfintersecting"
	}
	return t + s.embClass()
}

func execTile(s *Scenario, guard bool) (ms []core.Mismatch) {
	e := s.Emb
	ux, uy := e.A*float64(s.U[0])+e.B*float64(s.U[1]), e.C*float64(s.U[0])+e.D*float64(s.U[1])
	vx, vy := e.A*float64(s.V[0])+e.B*float64(s.V[1]), e.C*float64(s.V[0])+e.D*float64(s.V[1])
	detail := func() string {
		return fmt.Sprintf("P=%s cell basis u=%v v=%v clip=%s emb=%s", s.P.SVG(), s.U, s.V, latgeo.LPath{s.Clip}.SVG(), e.Name)
	}
	// every constructor that can express the basis
	var ctors []cellCtor
	if m := call("cell", guard, "", detail, func() {
		ctors = append(ctors, cellCtor{"PrimitiveCell", canvas.PrimitiveCell(canvas.Point{X: ux, Y: uy}, canvas.Point{X: vx, Y: vy})})
		if uy == 0 && vx == 0 && ux > 0 && vy > 0 {
			if ux == vy {
				ctors = append(ctors, cellCtor{"SquareCell", canvas.SquareCell(ux)})
			}
			ctors = append(ctors, cellCtor{"RectangleCell", canvas.RectangleCell(ux, vy)})
		}
		if uy == 0 && ux > 0 {
			ctors = append(ctors, cellCtor{"ParallelogramCell", canvas.ParallelogramCell(ux, math.Hypot(vx, vy), math.Atan2(vy, vx)*180/math.Pi)})
		}
		if e.Name == "rhombus" {
			ctors = append(ctors, cellCtor{"RhombusCell", canvas.RhombusCell(ux)})
		}
	}); m != nil {
		return []core.Mismatch{*m}
	}
	scale := math.Sqrt(math.Abs(e.Det()))
	pts := latgeo.SamplePts(s.Samples, s.S, e)
	for ci, ct := range ctors {
		o := ct.m.Dot(canvas.Point{})
		a := ct.m.Dot(canvas.Point{X: 1}).Sub(o)
		b := ct.m.Dot(canvas.Point{Y: 1}).Sub(o)
		tol := 1e-9 * scale * 8
		if math.Abs(a.X-ux) > tol || math.Abs(a.Y-uy) > tol || math.Abs(b.X-vx) > tol || math.Abs(b.Y-vy) > tol || o.X != 0 || o.Y != 0 {
			ms = append(ms, core.Mismatch{Signature: "cell-basis:" + ct.name, Detail: fmt.Sprintf("%s: %s returns the basis %v, %v (origin %v), expected (%v,%v), (%v,%v)", detail(), ct.name, a, b, o, ux, uy, vx, vy)})
			continue
		}
		if ci > 0 && ct.name == "RectangleCell" && len(ctors) > 2 && ctors[1].name == "SquareCell" {
			continue // same matrix as SquareCell
		}
		var res *canvas.Path
		if m := call("tile", guard, s.tileTag(), detail, func() {
			res = latgeo.Build(s.P, e).Tile(latgeo.Build(latgeo.LPath{s.Clip}, e), ct.m)
		}); m != nil {
			ms = append(ms, *m)
			continue
		}
		w, err := windingsOf(res, pts)
		if err != nil {
			ms = append(ms, core.Mismatch{Signature: "tile-result" + s.tileTag(), Detail: detail() + ": " + err.Error()})
			continue
		}
		for k := range w {
			if s.Cells[k] != 2 && (w[k] != 0) != (s.Cells[k] == 1) {
				ms = append(ms, core.Mismatch{Signature: "tile-cells" + s.tileTag(), Detail: fmt.Sprintf("%s: Tile with %s: sample %s expected filled=%d, winding of the result %d; result=%s", detail(), ct.name, s.lat(k), s.Cells[k], w[k], res)})
				break
			}
		}
	}
	// TileRectangle on the bounding boxes (embeddings that map boxes to boxes)
	if s.Tr != nil && e.B == 0 && e.C == 0 || s.Tr != nil && e.A == 0 && e.D == 0 {
		box := func(c latgeo.LContour) canvas.Rect {
			r := canvas.Rect{X0: math.Inf(1), Y0: math.Inf(1), X1: math.Inf(-1), Y1: math.Inf(-1)}
			for _, v := range c {
				x, y := e.Map(float64(v[0]), float64(v[1]))
				r.X0, r.Y0, r.X1, r.Y1 = math.Min(r.X0, x), math.Min(r.Y0, y), math.Max(r.X1, x), math.Max(r.Y1, y)
			}
			return r
		}
		cell := ctors[0].m
		var got []canvas.Matrix
		if m := call("tilerectangle", guard, s.embClass(), detail, func() { got = canvas.TileRectangle(cell, box(s.Clip), box(s.P[0])) }); m != nil {
			ms = append(ms, *m)
			return
		}
		must, may := map[[2]int]bool{}, map[[2]int]bool{}
		for _, ij := range s.Tr.Must {
			must[ij] = true
		}
		for _, ij := range s.Tr.May {
			may[ij] = true
		}
		d := ux*vy - uy*vx
		for _, g := range got {
			px, py := g.Pos()
			fi, fj := (vy*px-vx*py)/d, (ux*py-uy*px)/d
			ij := [2]int{int(math.Round(fi)), int(math.Round(fj))}
			if math.Abs(fi-math.Round(fi)) > 1e-6 || math.Abs(fj-math.Round(fj)) > 1e-6 {
				ms = append(ms, core.Mismatch{Signature: "tilerect-position" + s.embClass(), Detail: fmt.Sprintf("%s: TileRectangle returns the position (%v,%v) = %v u + %v v, not a lattice position", detail(), px, py, fi, fj)})
				return
			}
			if !may[ij] {
				ms = append(ms, core.Mismatch{Signature: "tilerect-extra" + s.embClass(), Detail: fmt.Sprintf("%s: TileRectangle returns the cell %v whose copy of the source box does not meet the target box", detail(), ij)})
				return
			}
			delete(must, ij)
		}
		for ij := range must {
			ms = append(ms, core.Mismatch{Signature: "tilerect-missing" + s.embClass(), Detail: fmt.Sprintf("%s: TileRectangle omits the cell %v whose copy of the source box overlaps the target box", detail(), ij)})
			break
		}
	}
	return
}

// ---- gridsnap -------------------------------------------------------------------------------------------------------

func execSnap(s *Scenario, guard bool) (ms []core.Mismatch) {
	e := s.Emb
	tag := s.embClass()
	inv := invert(e)
	sp := float64(s.G) * math.Sqrt(math.Abs(e.Det()))
	detail := func() string { return fmt.Sprintf("P=%s spacing=%d emb=%s", s.P.SVG(), s.G, e.Name) }
	p := rawPath(s.P, func(int) bool { return false }, e)
	var q *canvas.Path
	if m := call("gridsnap", guard, tag, detail, func() { q = p.Gridsnap(sp) }); m != nil {
		return []core.Mismatch{*m}
	}
	add := func(sig, format string, a ...any) {
		ms = append(ms, core.Mismatch{Signature: sig + tag, Detail: detail() + ": Gridsnap result " + q.String() + ": " + fmt.Sprintf(format, a...)})
	}
	if q != p {
		add("gridsnap-not-inplace", "the returned path is not the receiver (documented as in-place)")
	}
	subs, err := oracle.PolySubPaths(q.Data())
	if err != nil || len(subs) != len(s.P) {
		add("gridsnap-structure", "%d sub-paths (err %v), the input has %d", len(subs), err, len(s.P))
		return
	}
	for k, sub := range subs {
		if len(sub.Pts) != len(s.P[k]) || !sub.Closed {
			add("gridsnap-structure", "sub-path %d has %d vertices (closed=%v), the input has %d", k, len(sub.Pts), sub.Closed, len(s.P[k]))
			return
		}
		for i, pt := range sub.Pts {
			for d, x := range [2]float64{pt.X, pt.Y} {
				if r := x / sp; math.Abs(r-math.Round(r)) > 1e-9*math.Max(1, math.Abs(r)) {
					add("gridsnap-offgrid", "coordinate %v is no multiple of the spacing %v", x, sp)
					return
				}
				_ = d
			}
			lx, ly := inv.Map(pt.X, pt.Y)
			for d, l := range [2]float64{lx, ly} {
				ok := false
				for _, al := range s.Allowed[k][i][d] {
					ok = ok || math.Abs(l-float64(al)) <= 1e-6
				}
				if !ok {
					add("gridsnap-vertex", "vertex %d of sub-path %d: coordinate %d is %v (lattice), the nearest multiples of the spacing are %v (input %v)", i, k, d, l, s.Allowed[k][i][d], s.P[k][i])
					return
				}
			}
		}
	}
	if !s.Tie && len(s.Cells) > 0 {
		pts := latgeo.SamplePts(s.Samples, s.S, e)
		w, err := windingsOf(q, pts)
		if err != nil {
			add("gridsnap-structure", "%v", err)
			return
		}
		for k := range w {
			if s.Cells[k] != 99 && w[k] != s.Cells[k]*sgn(e.Det()) {
				add("gridsnap-cells", "sample %s: winding %d, the snapped polygon %s has %d", s.lat(k), w[k], s.Snapped.SVG(), s.Cells[k]*sgn(e.Det()))
				return
			}
		}
	}
	return
}

// ---- Visvalingam-Whyatt ---------------------------------------------------------------------------------------------

func execVW(s *Scenario, guard bool) (ms []core.Mismatch) {
	e := s.Emb
	tag := s.embClass()
	inv := invert(e)
	tol := (float64(s.K) + 0.5) / 2 * math.Abs(e.Det())
	detail := func() string {
		return fmt.Sprintf("P=%s open=%v tolerance=(%d+1/2)/2 lattice units^2 emb=%s", s.P.SVG(), s.Open, s.K, e.Name)
	}
	var res *canvas.Path
	if m := call("simplifyvw", guard, tag, detail, func() {
		res = rawPath(s.P, func(int) bool { return s.Open }, e).SimplifyVisvalingamWhyatt(tol)
	}); m != nil {
		return []core.Mismatch{*m}
	}
	add := func(sig, format string, a ...any) {
		ms = append(ms, core.Mismatch{Signature: sig + tag, Detail: detail() + ": result " + res.String() + ": " + fmt.Sprintf(format, a...)})
	}
	subs, err := oracle.PolySubPaths(res.Data())
	if err != nil || len(subs) > 1 {
		add("vw-structure", "%d sub-paths (err %v)", len(subs), err)
		return
	}
	var got [][2]int
	closed := !s.Open
	if len(subs) == 1 {
		closed = subs[0].Closed
		for _, pt := range subs[0].Pts {
			g, ok := toGrid(pt, inv, 1)
			if !ok {
				add("vw-new-vertex", "vertex %v is no vertex of P", pt)
				return
			}
			got = append(got, g)
		}
	}
	if closed != !s.Open {
		add("vw-closedness", "the result is closed=%v", closed)
		return
	}
	in := func(set []latgeo.LContour) bool {
		g := canon(got, !s.Open)
		for _, r := range set {
			if canon(r, !s.Open) == g {
				return true
			}
		}
		return false
	}
	if !in(s.Lenient) {
		add("vw-result", "not reachable by removing vertices whose triangle is below the tolerance until none is left (possible results %v)", s.Lenient)
	} else if !in(s.Strict) {
		add("vw-not-least-area-first", "reachable only by removing a vertex that did not have the least area (least-area-first results %v)", s.Strict)
	}
	return
}

// ---- hatch ----------------------------------------------------------------------------------------------------------

func execHatch(s *Scenario, guard bool) (ms []core.Mismatch) {
	e := s.Emb
	tag := s.embClass()
	scale := math.Sqrt(math.Abs(e.Det()))
	// direction of the hatch lines: the image of the abstract direction (1,0) or (0,1)
	dx, dy := e.A, e.C
	if s.Ang == 90 {
		dx, dy = e.B, e.D
	}
	angle := math.Atan2(dy, dx) * 180 / math.Pi
	angle1 := math.Atan2(e.D, e.B) * 180 / math.Pi // image of the direction (0,1), for the cross hatch
	dist, thick := float64(s.D)*scale, float64(s.T)/2*scale
	op := "hatch"
	if s.F["tv"] {
		tag = "+line-touches-clip-vertex" + tag
	}
	if s.Cross {
		op, tag = "crosshatch", "+cross"+tag
		if s.F["xonb"] {
			tag = "+cross+crossing-on-boundary" + s.embClass()
		} else if s.F["tv"] {
			tag = "+cross+line-touches-clip-vertex" + s.embClass()
		}
	}
	detail := func() string {
		if s.Cross {
			return fmt.Sprintf("NewCrossHatch(angle0=%v, angle1=%v, distance0=distance1=%v, thickness=%v).Tile(%s) emb=%s", angle, angle1, dist, thick, latgeo.LPath{s.Clip}.SVG(), e.Name)
		}
		return fmt.Sprintf("NewLineHatch(angle=%v, distance=%v, thickness=%v).Tile(%s) (abstract: angle %d, distance %d, thickness %d/2) emb=%s", angle, dist, thick, latgeo.LPath{s.Clip}.SVG(), s.Ang, s.D, s.T, e.Name)
	}
	var res *canvas.Path
	if m := call(op, guard, tag, detail, func() {
		if s.Cross {
			res = canvas.NewCrossHatch(canvas.Black, angle, angle1, dist, dist, thick).Tile(latgeo.Build(latgeo.LPath{s.Clip}, e))
		} else {
			res = canvas.NewLineHatch(canvas.Black, angle, dist, thick).Tile(latgeo.Build(latgeo.LPath{s.Clip}, e))
		}
	}); m != nil {
		return []core.Mismatch{*m}
	}
	pts := latgeo.SamplePts(s.Samples, s.S, e)
	w, err := windingsOf(res, pts)
	if err != nil {
		return []core.Mismatch{{Signature: "hatch-result" + tag, Detail: detail() + ": " + err.Error()}}
	}
	for k := range w {
		if s.Cells[k] != 2 && (w[k] != 0) != (s.Cells[k] == 1) {
			ms = append(ms, core.Mismatch{Signature: "hatch-cells" + tag, Detail: fmt.Sprintf("%s: sample %s expected filled=%d, winding of the result %d; result=%s", detail(), s.lat(k), s.Cells[k], w[k], res)})
			break
		}
	}
	return
}
