package x01

// code -> spec: larger random lattice polygons (6..12 vertices, two sub-paths, open ones) are run through the real Clip,
// FastClip and SimplifyVisvalingamWhyatt; the lattice-quantised results are judged by spec/Trace_Regions.tla with the
// operators of Regions.tla (exact integer verdicts). A rejected event comes back as a complete scenario and is replayed.

import (
	"bytes"
	"encoding/json"
	"fmt"
	"math/rand"
	"time"

	"github.com/tdewolff/canvas"

	"verif/harness/internal/core"
	"verif/harness/internal/latgeo"
	"verif/harness/internal/tlc"
)

const traceN = 6

type obsSub struct {
	Pts    [][2]int `json:"pts"`
	Closed bool     `json:"closed"`
}

type clipEv struct {
	P latgeo.LPath `json:"p"`
	A struct {
		Rect []int `json:"rect"`
		Open bool  `json:"open"`
	} `json:"a"`
	Clip []obsSub `json:"clip"`
	Fast []obsSub `json:"fast"`
}

type vwEv struct {
	P latgeo.LPath `json:"p"`
	A struct {
		Open bool `json:"open"`
		K    int  `json:"k"`
	} `json:"a"`
	Obs    [][2]int `json:"obs"`
	Closed bool     `json:"closed"`
}

func randContour(r *rand.Rand, n int) latgeo.LContour {
	c := make(latgeo.LContour, 0, n)
	for len(c) < n {
		v := [2]int{r.Intn(traceN + 1), r.Intn(traceN + 1)}
		if len(c) > 0 && c[len(c)-1] == v {
			continue
		}
		if len(c) == n-1 && c[0] == v {
			continue
		}
		c = append(c, v)
	}
	return c
}

// garbage observation: rejected by the trace spec, so that the event is replayed as a scenario (panics, undecodable results)
var garbage = []obsSub{{Pts: [][2]int{{-7, -7}, {-8, -9}}, Closed: false}}

func toObs(res *canvas.Path, S, div int) []obsSub {
	subs, err := gridSubs(res, latgeo.Identity, S, true)
	if err != nil {
		return garbage
	}
	out := []obsSub{}
	for _, g := range subs {
		if g.badClose {
			return garbage
		}
		o := obsSub{Pts: [][2]int{}, Closed: g.closed}
		for _, q := range g.pts {
			if q[0]%div != 0 || q[1]%div != 0 {
				return garbage
			}
			o.Pts = append(o.Pts, [2]int{q[0] / div, q[1] / div})
		}
		out = append(out, o)
	}
	return out
}

func traceCfg(what string) string {
	return fmt.Sprintf("SPECIFICATION TSpec\nCONSTANTS What = \"%s\"\n N = %d\n K = 3\n NC = 1\n Mode = \"random\"\n Num = 1\n A1 = 1\n A2 = 1\n A3 = 0\nCHECK_DEADLOCK FALSE\n", what, traceN)
}

func (d Driver) traces(c *core.Ctx) {
	const S = 120
	r := rand.New(rand.NewSource(c.Seed*7919 + 13))
	// ---- Clip / FastClip
	n := c.Pick(240, 4000)
	var buf bytes.Buffer
	enc := json.NewEncoder(&buf)
	for i := 0; i < n; i++ {
		var ev clipEv
		ev.P = latgeo.LPath{randContour(r, 5+r.Intn(8))}
		if r.Intn(3) == 0 {
			ev.P = append(ev.P, randContour(r, 3+r.Intn(5)))
		}
		ev.A.Open = r.Intn(5) == 0
		x0, y0 := r.Intn(2*traceN+1)-1, r.Intn(2*traceN+1)-1
		ev.A.Rect = []int{x0, y0, x0 + 2 + r.Intn(2*traceN-2), y0 + 2 + r.Intn(2*traceN-2)}
		open := func(k int) bool { return ev.A.Open && k == 0 }
		fx := func(v int) float64 { return float64(v) / 2 }
		ev.Clip, ev.Fast = garbage, garbage
		latgeo.Try(func() {
			ev.Clip = toObs(rawPath(ev.P, open, latgeo.Identity).Clip(fx(ev.A.Rect[0]), fx(ev.A.Rect[1]), fx(ev.A.Rect[2]), fx(ev.A.Rect[3])), S, 1)
		})
		latgeo.Try(func() {
			ev.Fast = toObsRaw(rawPath(ev.P, open, latgeo.Identity).FastClip(fx(ev.A.Rect[0]), fx(ev.A.Rect[1]), fx(ev.A.Rect[2]), fx(ev.A.Rect[3])), S)
		})
		enc.Encode(ev)
	}
	d.judge(c, "clip", buf.Bytes(), n, 2)

	// ---- Visvalingam-Whyatt
	n = c.Pick(200, 3000)
	buf.Reset()
	for i := 0; i < n; i++ {
		var ev vwEv
		ev.P = latgeo.LPath{randContour(r, 6+r.Intn(5))}
		ev.A.Open = r.Intn(3) == 0
		ev.A.K = r.Intn(9)
		ev.Obs, ev.Closed = [][2]int{{-7, -7}}, !ev.A.Open
		latgeo.Try(func() {
			res := rawPath(ev.P, func(int) bool { return ev.A.Open }, latgeo.Identity).SimplifyVisvalingamWhyatt((float64(ev.A.K) + 0.5) / 2)
			o := toObsRaw(res, 1)
			switch {
			case len(o) == 0:
				ev.Obs = [][2]int{}
			case len(o) == 1 && len(o[0].Pts) > 0 && o[0].Pts[0] != [2]int{-7, -7}:
				ev.Obs, ev.Closed = o[0].Pts, o[0].Closed
			}
		})
		enc.Encode(ev)
	}
	d.judge(c, "vw", buf.Bytes(), n, 1)
}

// toObsRaw: lattice vertices (scaled by S, then divided again), consecutive duplicates kept (FastClip may leave them).
func toObsRaw(res *canvas.Path, S int) []obsSub {
	subs, err := gridSubs(res, latgeo.Identity, S, false)
	if err != nil {
		return garbage
	}
	out := []obsSub{}
	for _, g := range subs {
		if g.badClose {
			return garbage
		}
		o := obsSub{Pts: [][2]int{}, Closed: g.closed}
		for _, q := range g.pts {
			if q[0]%S != 0 || q[1]%S != 0 {
				return garbage
			}
			o.Pts = append(o.Pts, [2]int{q[0] / S, q[1] / S})
		}
		out = append(out, o)
	}
	return out
}

func (d Driver) judge(c *core.Ctx, what string, trace []byte, n, evals int) {
	res := c.TLC(tlc.Opts{Module: "Trace_Regions", Files: map[string][]byte{"trace_regions.ndjson": trace}, Config: traceCfg(what), Workers: 4, Timeout: 25 * time.Minute}, true)
	if res.OK && res.Distinct != int64(2*n) {
		c.Broken(fmt.Sprintf("Trace_Regions (%s) judged %d states, expected %d", what, res.Distinct, 2*n))
	}
	var hdr Line
	rejected := 0
	for _, ln := range res.Lines {
		var l Line
		if json.Unmarshal(ln, &l) != nil {
			continue
		}
		if l.Hdr {
			hdr = l
			continue
		}
		if l.Kind == "" {
			continue
		}
		rejected++
		l.S, l.N, l.Samples = hdr.S, hdr.N, hdr.Samples
		s := &Scenario{Line: l, Emb: latgeo.Identity}
		ms := exec(s, true)
		if len(ms) == 0 {
			c.Broken(fmt.Sprintf("Trace_Regions rejected the %s event P=%s but replaying it as a scenario shows no mismatch", what, l.P.SVG()))
			continue
		}
		c.Report(s, ms)
	}
	c.Count(int64(evals*n), 0, int64(n-rejected))
	c.SetExtra("trace_"+what, n)
	c.SetExtra("trace_"+what+"_rejected", rejected)
}

var _ = core.VerifDir
