package x01

// Path.Triangulate can die with a stack overflow inside poly2tri (unbounded recursion): that is a fatal error of the Go
// runtime, not a panic, and cannot be recovered in-process. Triangulate scenarios are therefore executed in child
// processes (the same binary, started with VERIF_X01_CHILD=1, speaking one JSON line per scenario on stdin/stdout);
// a child that dies is attributed to the scenario it was working on and restarted.

import (
	"bufio"
	"bytes"
	"encoding/json"
	"fmt"
	"io"
	"os"
	osexec "os/exec"
	"runtime/debug"
	"strings"
	"sync"
	"time"

	"verif/harness/internal/core"
)

const childEnv = "VERIF_X01_CHILD"
const respPrefix = "@@R "

func init() {
	if os.Getenv(childEnv) == "" {
		return
	}
	debug.SetMaxStack(48 << 20) // fail fast: the default limit is 1 GB
	in := bufio.NewReaderSize(os.Stdin, 1<<20)
	out := bufio.NewWriter(os.Stdout)
	for {
		line, err := in.ReadBytes('\n')
		if len(bytes.TrimSpace(line)) > 0 {
			var s Scenario
			var ms []core.Mismatch
			if e := json.Unmarshal(line, &s); e != nil {
				ms = []core.Mismatch{{Signature: "machinery", Detail: "child: " + e.Error()}}
			} else {
				ms = execLocal(&s, true)
			}
			b, _ := json.Marshal(ms)
			out.WriteString(respPrefix)
			out.Write(b)
			out.WriteByte('\n')
			out.Flush()
		}
		if err != nil {
			break
		}
	}
	os.Exit(0)
}

type child struct {
	cmd  *osexec.Cmd
	in   io.WriteCloser
	out  *bufio.Reader
	errb *tailBuf
}

// tailBuf keeps the first 8 KB written to it (the runtime prints the reason of a fatal error first).
type tailBuf struct {
	mu sync.Mutex
	b  []byte
}

func (t *tailBuf) Write(p []byte) (int, error) {
	t.mu.Lock()
	if len(t.b) < 8192 {
		t.b = append(t.b, p...)
	}
	t.mu.Unlock()
	return len(p), nil
}
func (t *tailBuf) String() string { t.mu.Lock(); defer t.mu.Unlock(); return string(t.b) }

var (
	childPool     chan *child
	childPoolOnce sync.Once
)

const nChildren = 4

func startChild() (*child, error) {
	exe, err := os.Executable()
	if err != nil {
		return nil, err
	}
	cmd := osexec.Command(exe)
	cmd.Env = append(os.Environ(), childEnv+"=1", "GOTRACEBACK=single")
	in, err := cmd.StdinPipe()
	if err != nil {
		return nil, err
	}
	outp, err := cmd.StdoutPipe()
	if err != nil {
		return nil, err
	}
	eb := &tailBuf{}
	cmd.Stderr = eb
	if err := cmd.Start(); err != nil {
		return nil, err
	}
	return &child{cmd: cmd, in: in, out: bufio.NewReaderSize(outp, 1<<20), errb: eb}, nil
}

func (c *child) kill() {
	c.in.Close()
	c.cmd.Process.Kill()
	c.cmd.Wait()
}

// execInChild runs the scenario in a child process and returns its mismatches; the death of the child is a mismatch of
// the scenario ("fatal-<op>:<reason>").
func execInChild(s *Scenario) []core.Mismatch {
	childPoolOnce.Do(func() {
		childPool = make(chan *child, nChildren)
		for i := 0; i < nChildren; i++ {
			childPool <- nil // started lazily
		}
	})
	c := <-childPool
	defer func() { childPool <- c }()
	if c == nil {
		var err error
		if c, err = startChild(); err != nil {
			c = nil
			return []core.Mismatch{{Signature: "machinery", Detail: "cannot start the child process: " + err.Error()}}
		}
	}
	b, _ := json.Marshal(s)
	type resp struct {
		ms  []core.Mismatch
		err error
	}
	ch := make(chan resp, 1)
	cc := c
	go func() {
		if _, err := cc.in.Write(append(b, '\n')); err != nil {
			ch <- resp{nil, err}
			return
		}
		for {
			line, err := cc.out.ReadBytes('\n')
			if bytes.HasPrefix(line, []byte(respPrefix)) {
				var ms []core.Mismatch
				if e := json.Unmarshal(line[len(respPrefix):], &ms); e != nil {
					ch <- resp{nil, e}
				} else {
					ch <- resp{ms, nil}
				}
				return
			}
			if err != nil {
				ch <- resp{nil, err}
				return
			}
		}
	}()
	op := opName(s.Kind)
	select {
	case r := <-ch:
		if r.err == nil {
			return r.ms
		}
		c.kill()
		reason := fatalReason(c.errb.String())
		c = nil
		if reason == "" {
			return []core.Mismatch{{Signature: "machinery", Detail: "child process failed without a runtime error: " + r.err.Error()}}
		}
		return []core.Mismatch{{Signature: "fatal-" + op + ":" + reason + s.fatalTag(), Detail: fmt.Sprintf("%s kills the process (%s, not recoverable); P=%s emb=%s", op, reason, s.P.SVG(), s.Emb.Name)}}
	case <-time.After(120 * time.Second):
		c.kill()
		c = nil
		return []core.Mismatch{{Signature: "timeout-" + op + s.fatalTag(), Detail: fmt.Sprintf("%s does not return within 120 s; P=%s emb=%s", op, s.P.SVG(), s.Emb.Name)}}
	}
}

func opName(kind string) string {
	if kind == "tri" {
		return "triangulate"
	}
	return kind
}

func (s *Scenario) fatalTag() string {
	if s.Kind == "tri" {
		return triTag(s)
	}
	return s.embClass()
}

func fatalReason(stderr string) string {
	for _, ln := range strings.Split(stderr, "\n") {
		if strings.HasPrefix(ln, "fatal error: ") {
			return strings.ReplaceAll(strings.TrimPrefix(ln, "fatal error: "), " ", "_")
		}
	}
	return ""
}

func closeChildren() {
	if childPool == nil {
		return
	}
	for i := 0; i < nChildren; i++ {
		select {
		case c := <-childPool:
			if c != nil {
				c.kill()
			}
		default:
		}
	}
}
