// Package x01 (extension check): region / curve semantics of Path.Clip, Path.FastClip, Polyline, Path.Triangulate,
// Path.Tile / TileRectangle / the cell constructors, Path.Gridsnap, Path.SimplifyVisvalingamWhyatt and the line hatch
// pattern. Every expected observation is computed by spec/Regions.tla; this package executes the scenarios on the real
// library under several affine embeddings, projects the results back onto the lattice and compares.
package x01

import (
	"encoding/json"
	"fmt"
	"os"
	"strings"
	"sync"
	"sync/atomic"
	"time"

	"verif/harness/internal/core"
	"verif/harness/internal/latgeo"
	"verif/harness/internal/tlc"
)

type Driver struct{}

func (Driver) ID() string { return "X01" }

type Seg struct {
	St int    `json:"st"`
	U  [2]int `json:"u"`
	V  [2]int `json:"v"`
}
type Piece struct {
	Pts    [][2]int `json:"pts"`
	Closed bool     `json:"closed"`
}
type TRPos struct {
	Must [][2]int `json:"must"`
	May  [][2]int `json:"may"`
}

// Line is one line printed by Regions.tla: the header or a scenario of one family (unused fields stay empty).
type Line struct {
	Hdr     bool            `json:"hdr,omitempty"`
	S       int             `json:"S,omitempty"`
	N       int             `json:"N,omitempty"`
	Samples [][2]int        `json:"samples,omitempty"`
	Kind    string          `json:"kind,omitempty"`
	P       latgeo.LPath    `json:"p,omitempty"`
	F       map[string]bool `json:"f,omitempty"`
	Open    bool            `json:"open,omitempty"`
	// clip
	Rect    []int      `json:"rect,omitempty"`
	Segs    [][]Seg    `json:"segs,omitempty"`
	Generic bool       `json:"generic,omitempty"`
	Pieces  [][]Piece  `json:"pieces,omitempty"`
	Keep    [][]bool   `json:"keep,omitempty"`
	Chord   [][][]bool `json:"chord,omitempty"`
	Wp      []int      `json:"wp,omitempty"`
	Inr     []int      `json:"inr,omitempty"`
	// poly
	Fc     []int   `json:"fc,omitempty"`
	Fills  [][]int `json:"fills,omitempty"`
	Area2  int     `json:"area2,omitempty"`
	Cen    []int   `json:"cen,omitempty"`
	Corner []bool  `json:"corner,omitempty"`
	// tri, tile, snap, hatch
	Cells []int `json:"cells,omitempty"`
	// tile
	U    [2]int          `json:"u,omitempty"`
	V    [2]int          `json:"v,omitempty"`
	Clip latgeo.LContour `json:"clip,omitempty"`
	Tr   *TRPos          `json:"tr,omitempty"`
	// snap
	G       int          `json:"g,omitempty"`
	Tie     bool         `json:"tie,omitempty"`
	Allowed [][][][]int  `json:"allowed,omitempty"`
	Snapped latgeo.LPath `json:"snapped,omitempty"`
	// vw
	K       int               `json:"k,omitempty"`
	Strict  []latgeo.LContour `json:"strict,omitempty"`
	Lenient []latgeo.LContour `json:"lenient,omitempty"`
	// hatch
	Ang   int  `json:"ang,omitempty"`
	Cross bool `json:"cross,omitempty"`
	D     int  `json:"d,omitempty"`
	T     int  `json:"t,omitempty"`
}

// Scenario is the self-contained replay unit: one scenario line, the sample points of its run, one embedding.
type Scenario struct {
	Line
	Emb latgeo.Emb `json:"emb"`
}

func exactEmb(e latgeo.Emb) bool {
	for _, x := range latgeo.Symmetries {
		if x.Name == e.Name {
			return true
		}
	}
	return false
}

// embClass: "" for the lattice symmetries (float arithmetic is exact on the inputs), "~float" otherwise.
func (s *Scenario) embClass() string {
	if exactEmb(s.Emb) {
		return ""
	}
	return "~float"
}

// exec: Triangulate scenarios run in a child process (a stack overflow inside poly2tri cannot be recovered), everything
// else in-process.
func exec(s *Scenario, guard bool) []core.Mismatch {
	if s.Kind == "tri" && os.Getenv(childEnv) == "" {
		return execInChild(s)
	}
	return execLocal(s, guard)
}

func execLocal(s *Scenario, guard bool) []core.Mismatch {
	switch s.Kind {
	case "clip":
		return execClip(s, guard)
	case "poly":
		return execPoly(s, guard)
	case "tri":
		return execTri(s, guard)
	case "tile":
		return execTile(s, guard)
	case "snap":
		return execSnap(s, guard)
	case "vw":
		return execVW(s, guard)
	case "hatch":
		return execHatch(s, guard)
	}
	return []core.Mismatch{{Signature: "machinery", Detail: "unknown scenario kind " + s.Kind}}
}

func (Driver) Replay(c *core.Ctx, raw json.RawMessage) []core.Mismatch {
	var s Scenario
	if err := json.Unmarshal(raw, &s); err != nil {
		return []core.Mismatch{{Signature: "machinery", Detail: err.Error()}}
	}
	return exec(&s, true)
}

// call runs one library call under recover (bulk) or recover + watchdog (replay).
func call(op string, guard bool, tag string, detail func() string, f func()) *core.Mismatch {
	var kind string
	var msg any
	if guard {
		kind, msg = latgeo.Guard(20*time.Second, f)
	} else if ok, m := latgeo.Try(f); !ok {
		kind, msg = "panic", m
	}
	switch kind {
	case "panic":
		return &core.Mismatch{Signature: "panic-" + op + ":" + latgeo.PanicClass(msg) + tag, Detail: fmt.Sprintf("%s panics: %v; %s", op, msg, detail())}
	case "timeout":
		return &core.Mismatch{Signature: "timeout-" + op + tag, Detail: fmt.Sprintf("%s does not return: %v; %s", op, msg, detail())}
	}
	return nil
}

// ---- embeddings per family ------------------------------------------------------------------------------------------

var quarter = latgeo.Emb{Name: "scale0.25", A: 0.25, D: 0.25}

func embsFor(kind string, h uint32, thorough bool) []latgeo.Emb {
	sym := latgeo.Symmetries
	var extra []latgeo.Emb
	switch kind {
	case "clip": // the rectangle must stay axis-parallel
		extra = []latgeo.Emb{sym[1], sym[2], sym[3], sym[4], sym[5], sym[6], sym[7], latgeo.Translate, latgeo.Tiny, latgeo.Huge, latgeo.Aniso}
	case "snap": // the grid is anchored at the origin and axis-parallel
		extra = []latgeo.Emb{sym[1], sym[2], sym[3], sym[4], sym[5], sym[6], sym[7], quarter, latgeo.Tiny, latgeo.Huge}
	case "hatch": // conformal, origin fixed (the hatch lines pass through the origin)
		extra = []latgeo.Emb{sym[1], sym[2], sym[3], sym[4], sym[5], sym[6], sym[7], latgeo.Huge, latgeo.Pyth, quarter}
	default:
		extra = []latgeo.Emb{sym[1], sym[2], sym[3], sym[4], sym[5], sym[6], sym[7], latgeo.Translate, latgeo.Tiny, latgeo.Huge, latgeo.Pyth, latgeo.Rot17, latgeo.Shear, latgeo.Aniso}
	}
	out := []latgeo.Emb{latgeo.Identity, extra[int(h)%len(extra)]}
	if thorough {
		out = append(out, extra[int(h/7+3)%len(extra)])
	}
	if out[len(out)-1].Name == out[1].Name && len(out) == 3 {
		out = out[:2]
	}
	return out
}

func hash(s string) uint32 {
	h := uint32(2166136261)
	for i := 0; i < len(s); i++ {
		h = (h ^ uint32(s[i])) * 16777619
	}
	return h >> 1
}

// ---- runner ---------------------------------------------------------------------------------------------------------

type stamp struct {
	t time.Time
	s *Scenario
}
type runner struct {
	c       *core.Ctx
	n       int64
	nontriv int64
	seen    sync.Map
	cur     [64]atomic.Pointer[stamp]
	wid     int32
	perKind sync.Map
}

// key identifies the abstract scenario (without embedding).
func (l *Line) key() string {
	b, _ := json.Marshal(struct {
		K    string
		P    latgeo.LPath
		R    []int
		O    bool
		U, V [2]int
		C    latgeo.LContour
		G, T int
		A, D int
		KK   int
		X    bool
	}{l.Kind, l.P, l.Rect, l.Open, l.U, l.V, l.Clip, l.G, l.T, l.Ang, l.D, l.K, l.Cross})
	return string(b)
}

// nontrivial: the scenario exercises the operation (not everything kept / everything dropped / nothing filled).
func (l *Line) nontrivial() bool {
	has := func(v []int, x int) bool {
		for _, y := range v {
			if y == x {
				return true
			}
		}
		return false
	}
	switch l.Kind {
	case "clip":
		return !l.F["allin"] && !l.F["allout"]
	case "poly":
		return l.Area2 != 0
	case "tri":
		return len(l.P[0]) > 3
	case "tile", "hatch":
		return has(l.Cells, 1) && has(l.Cells, 0)
	case "snap":
		for k, c := range l.Snapped {
			for i := range c {
				if c[i] != l.P[k][i] {
					return true
				}
			}
		}
		return false
	case "vw":
		for _, r := range l.Strict {
			if len(r) != len(l.P[0]) {
				return true
			}
		}
		return false
	}
	return true
}

func (r *runner) runGen(o tlc.Opts) {
	c := r.c
	var hdr Line
	var hmu sync.Mutex
	ch := make(chan []byte, 4096)
	o.OnLine = func(p []byte) {
		hmu.Lock()
		if hdr.S == 0 {
			var l Line
			if json.Unmarshal(p, &l) == nil && l.Hdr {
				hdr = l
				hmu.Unlock()
				return
			}
		}
		hmu.Unlock()
		ch <- append([]byte(nil), p...)
	}
	done := make(chan struct{})
	go func() {
		core.Parallel(6, ch, func(p []byte) {
			me := int(atomic.AddInt32(&r.wid, 1)) % len(r.cur)
			var l Line
			if err := json.Unmarshal(p, &l); err != nil || l.Kind == "" {
				c.Broken(fmt.Sprintf("bad scenario line: %v: %.200s", err, p))
				return
			}
			hmu.Lock()
			l.S, l.N, l.Samples = hdr.S, hdr.N, hdr.Samples
			hmu.Unlock()
			k := atomic.AddInt64(&r.n, 1)
			key := l.key()
			if l.nontrivial() {
				if _, dup := r.seen.LoadOrStore(key, true); !dup {
					atomic.AddInt64(&r.nontriv, 1)
				}
			}
			cnt, _ := r.perKind.LoadOrStore(l.Kind, new(int64))
			atomic.AddInt64(cnt.(*int64), 1)
			embs := embsFor(l.Kind, hash(key), c.Thorough())
			if l.Kind == "tile" && l.U == [2]int{2, 0} && l.V == [2]int{-1, 1} {
				embs = append(embs, rhombusEmb)
			}
			for _, e := range embs {
				s := &Scenario{Line: l, Emb: e}
				r.cur[me].Store(&stamp{time.Now(), s})
				ms := exec(s, false)
				r.cur[me].Store(nil)
				c.Count(int64(evalsOf(l.Kind)), 0, 1)
				if k%400 == 3 && e.Name == "id" {
					c.Sample(map[string]any{"kind": l.Kind, "p": l.P.SVG(), "scenario_key": key})
				}
				c.Report(s, ms)
			}
		})
		close(done)
	}()
	c.TLC(o, true)
	close(ch)
	<-done
}

func evalsOf(kind string) int {
	switch kind {
	case "clip":
		return 2
	case "poly":
		return 8
	case "tile":
		return 3
	}
	return 1
}

func cfg(what string, n, k, nc int, mode string, num, a1, a2, a3 int) string {
	return fmt.Sprintf("SPECIFICATION Spec\nCONSTANTS What = \"%s\"\n N = %d\n K = %d\n NC = %d\n Mode = \"%s\"\n Num = %d\n A1 = %d\n A2 = %d\n A3 = %d\nINVARIANTS Laws\nCHECK_DEADLOCK FALSE\n",
		what, n, k, nc, mode, num, a1, a2, a3)
}

func (d Driver) Run(c *core.Ctx) error {
	c.Rule = "scenario = input printed by spec/Regions.tla (lattice polygons with 3..K vertices, rectangles in half units, integer cell bases, spacings, tolerances) with every expected observation, executed under 2-3 affine embeddings; evaluations = real library calls judged; non-trivial = distinct abstract scenarios that exercise the operation (clip: neither everything inside nor everything outside; poly: non-zero area; tri: more than 3 vertices; tile/hatch: filled and unfilled cells; snap: a vertex moves; vw: a vertex is removed)"
	c.Assumptions = []string{
		"inputs are lattice polygons and their affine images (lattice symmetries exact, other embeddings ~float with free cells on boundaries)",
		"Clip is judged as documented (line clipping: 'removing sections'), not as a region intersection; FastClip only on what lies inside the rectangle",
		"Visvalingam-Whyatt has no doc comment: the contract is the named algorithm (least-area vertex first while below the tolerance, ties free)",
		"hatch lines are taken to pass through the origin of the pattern's coordinate system (cell coordinates), stripes poking out of the clip by thickness/2 are free",
	}
	r := &runner{c: c}
	stop := make(chan struct{})
	go r.watchdog(stop)
	defer close(stop)

	only := os.Getenv("VERIF_X01_ONLY") // development aid: run one family
	type job struct {
		name string
		o    tlc.Opts
	}
	q, t := c.Pick, 0
	_ = t
	jobs := []job{
		{"clip", tlc.Opts{Module: "Regions", Config: cfg("clip", 5, q(5, 6), 1, "random", q(22, 120), q(14, 40), 1, 0), Seed: c.Seed}},
		{"clip2", tlc.Opts{Module: "Regions", Config: cfg("clip", 4, 4, 2, "random", q(8, 40), q(10, 30), 1, 0), Seed: c.Seed + 1}},
		{"poly", tlc.Opts{Module: "Regions", Config: cfg("poly", 4, q(6, 7), 1, "random", q(150, 1500), 0, 0, 0), Seed: c.Seed + 2}},
		{"tri", tlc.Opts{Module: "Regions", Config: cfg("tri", 4, q(6, 7), 1, "random", q(1500, 12000), 0, 0, 0), Seed: c.Seed + 3}},
		{"tile", tlc.Opts{Module: "Regions", Config: cfg("tile", 6, 3, 1, "random", q(7, 30), 2, 2, q(5, 14)), Seed: c.Seed + 4}},
		{"tile4", tlc.Opts{Module: "Regions", Config: cfg("tile", 6, 4, 1, "random", q(5, 30), 2, 3, q(3, 10)), Seed: c.Seed + 5}},
		{"snap", tlc.Opts{Module: "Regions", Config: cfg("snap", 12, q(5, 6), 1, "random", q(60, 500), 5, 0, 0), Seed: c.Seed + 6}},
		{"vw", tlc.Opts{Module: "Regions", Config: cfg("vw", 5, q(6, 7), 1, "random", q(40, 300), q(7, 12), 0, 0), Seed: c.Seed + 7}},
		{"hatch", tlc.Opts{Module: "Regions", Config: cfg("hatch", 6, 3, 1, "random", q(1, 6), 3, 5, 0), Seed: c.Seed + 8}},
	}
	if c.Thorough() {
		jobs = append(jobs,
			job{"clip-all", tlc.Opts{Module: "Regions", Config: cfg("clip", 2, 3, 1, "all", 0, 60, 1, 0), Seed: c.Seed + 9}}, // every triangle on 3x3 (incl. degenerate) x 60 rectangles x open/closed
			job{"vw-all", tlc.Opts{Module: "Regions", Config: cfg("vw", 2, 4, 1, "all", 0, 4, 0, 0), Seed: c.Seed + 10}},
			job{"poly-all", tlc.Opts{Module: "Regions", Config: cfg("poly", 2, 4, 1, "all", 0, 0, 0, 0), Seed: c.Seed + 11}},
		)
	}
	// the TLC runs are small; two at a time keep the wall time low without starving the replay workers
	sem := make(chan struct{}, 3)
	var wg sync.WaitGroup
	for i, j := range jobs {
		if only != "" && !strings.HasPrefix(j.name, only) {
			continue
		}
		j.o.Workers = 3
		j.o.Timeout = 25 * time.Minute
		if c.Thorough() && (i == 0 || i == 7) {
			j.o.Coverage = true
		}
		wg.Add(1)
		sem <- struct{}{}
		go func(j job) {
			defer wg.Done()
			defer func() { <-sem }()
			r.runGen(j.o)
		}(j)
	}
	wg.Wait()
	// code -> spec: recorded results of larger inputs judged by Trace_Regions
	if only == "" || only == "trace" {
		d.traces(c)
	}
	closeChildren()
	c.Count(0, r.nontriv, 0)
	c.SetExtra("scenarios", r.n)
	per := map[string]int64{}
	r.perKind.Range(func(k, v any) bool { per[k.(string)] = atomic.LoadInt64(v.(*int64)); return true })
	c.SetExtra("scenarios_per_family", per)
	if r.n == 0 && only != "trace" {
		c.Broken("no scenarios were generated")
	}
	return nil
}

// watchdog: a scenario that does not return within 90 s is re-executed under the per-call time limit; if that
// reproduces the non-termination it is reported and the run ends (the stuck goroutine is lost).
func (r *runner) watchdog(stop chan struct{}) {
	c := r.c
	handled := map[*stamp]bool{}
	for {
		select {
		case <-stop:
			return
		case <-time.After(5 * time.Second):
		}
		for i := range r.cur {
			st := r.cur[i].Load()
			if st == nil {
				continue
			}
			if time.Since(st.t) > 20*time.Minute {
				c.Broken("worker stuck for 20 minutes on a scenario that terminates under replay")
				os.Exit(c.Finish())
			}
			if time.Since(st.t) > 90*time.Second && !handled[st] {
				handled[st] = true
				ms := exec(st.s, true)
				for _, m := range ms {
					if strings.HasPrefix(m.Signature, "timeout") {
						c.Report(st.s, ms)
						os.Exit(c.Finish())
					}
				}
			}
		}
	}
}
