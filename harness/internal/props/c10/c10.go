// Package c10: built paths are well-formed; operations on them are total and side-effect free
// (spec/Builder.tla, spec/Trace_Builder.tla).
//
// spec -> code: TLC enumerates builder call histories (BFS over narrow alphabets, -simulate over the mixed one)
// and prints each with the normal form of its documented meaning and exact scenario features. Every history is
// replayed on a real canvas.Path under several similarity embeddings; after it every public query/derivation is
// applied under recover + watchdog with bit-exact snapshots of receiver and arguments.
// code -> spec: Path.Data() after the history is decoded by the independent oracle, projected back to the lattice
// and logged with the calls; Trace_Builder.tla runs the spec's own actions over the logged calls and judges the
// stream (well-formedness clauses, piece-by-piece equality of normal forms). Deviating events come back as
// verdict lines and are turned into reproduced mismatches.
package c10

import (
	"bytes"
	"encoding/json"
	"fmt"
	"hash/fnv"
	"io"
	"log"
	"os"
	"sort"
	"strings"
	"sync"
	"sync/atomic"
	"time"
	"unsafe"

	"verif/harness/internal/core"
	"verif/harness/internal/latgeo"
	"verif/harness/internal/tlc"
)

type Driver struct{}

func (Driver) ID() string { return "C10" }

// Line is what Builder.tla prints per history.
type Line struct {
	Hdr     bool     `json:"hdr,omitempty"`
	NewPath []string `json:"newpath,omitempty"`
	InPlace []string `json:"inplace,omitempty"`
	Hist    []Call   `json:"hist"`
	Exp     []Sub    `json:"exp"`
	Pen     [2]int   `json:"pen"`
	F       Feat     `json:"f"`
}

// Scenario is the replay unit: one history (or shape call) under one embedding.
type Scenario struct {
	Kind string `json:"kind"` // "hist" | "shape"
	Hist []Call `json:"hist"`
	Emb  string `json:"emb"`
	F    Feat   `json:"f"`
}

// Event is one line of the trace judged by Trace_Builder.tla; it is written as the JSON array
// [id, [[opcode, args...]...], stream, off] (arrays of integers parse ten times faster in TLC than objects).
type Event struct {
	ID   int
	Hist []Call
	Sm   [][]int
	Off  int // 1: a decoded value that must be a lattice value is not (Sm holds the rounded values)
}

var opCodes = map[string]int{"MoveTo": 1, "LineTo": 2, "QuadTo": 3, "CubeTo": 4, "ArcTo": 5, "Arc": 6, "Close": 7, "Append": 8, "Join": 9,
	"RoundTrip": 200, "Free": 201,
	"Shape:Line": 101, "Shape:Rectangle": 102, "Shape:BeveledRectangle": 103, "Shape:RoundedRectangle": 104, "Shape:Circle": 105, "Shape:Ellipse": 106,
	"Shape:Grid": 107, "Shape:Arc": 108, "Shape:EllipticalArc": 109, "Shape:Triangle": 110, "Shape:RegularPolygon": 111, "Shape:RegularStarPolygon": 112, "Shape:StarPolygon": 113}

func (e Event) MarshalJSON() ([]byte, error) {
	h := make([][]int, len(e.Hist))
	for i, c := range e.Hist {
		k, ok := opCodes[c.Op]
		if !ok {
			return nil, fmt.Errorf("no opcode for %q", c.Op)
		}
		h[i] = append([]int{k}, c.A...)
	}
	sm := e.Sm
	if sm == nil {
		sm = [][]int{}
	}
	return json.Marshal([]any{e.ID, h, sm, e.Off})
}

type Verdict struct {
	ID   int      `json:"id"`
	WF   []string `json:"wf"`
	Geom string   `json:"geom"`
	Exp  []Sub    `json:"exp"`
	Pen  [2]int   `json:"pen"`
}

// rule set of the derived operations (NewPathOps / InPlaceOps of the spec header): a name = documented as returning a
// new path (receiver and arguments must stay bit-identical); "!"+name = documented as working in place (the only
// methods that may change the receiver)
var defaultNewPath = []string{"!Transform", "!Gridsnap", "Copy", "Flatten", "ReplaceArcs", "XMonotone", "Reverse", "Dash", "Offset", "Stroke", "Settle", "And", "Or", "Xor", "Not", "DivideBy", "Translate", "Scale"}

func setOf(l []string) map[string]bool {
	m := map[string]bool{}
	for _, s := range l {
		m[s] = true
	}
	return m
}

// Exec replays one scenario on the real code. It returns the lattice stream (nil if not decodable) and the
// mismatches that need no expectation from the spec beyond the header (decodability, lattice values, totality,
// side-effect freedom). derive=false skips the derived operations.
func Exec(s *Scenario, newPath map[string]bool, derive bool, info func(string)) (stream [][]int, off string, data []float64, ms []core.Mismatch) {
	e, ok := EmbByName(s.Emb)
	if !ok {
		return nil, "", nil, []core.Mismatch{{Signature: "machinery", Detail: "unknown embedding " + s.Emb}}
	}
	var aliasMs []core.Mismatch
	okb, msg := latgeo.Try(func() {
		p, kept, alias, err := BuildTracked(s.Hist, e)
		if err != nil {
			ms = append(ms, core.Mismatch{Signature: "machinery", Detail: err.Error()})
			return
		}
		data = cloneF(p.Data())
		// value semantics of Append/Join: result and argument are independent (aliasing model of the spec)
		if alias == "" {
			alias = ProbeAliasing(p, data, kept, e)
		}
		if alias != "" {
			aliasMs = append(aliasMs, core.Mismatch{Signature: "aliasing-argument-" + aliasOp(alias), Detail: fmt.Sprintf("history %s (embedding %s): %s", histString(s.Hist), s.Emb, alias)})
		}
	})
	if !okb {
		return nil, "", nil, []core.Mismatch{{Signature: "panic-builder:" + latgeo.PanicClass(msg), Detail: fmt.Sprintf("builder call panics: %v", msg)}}
	}
	if len(ms) > 0 {
		return nil, "", nil, ms
	}
	stream, off, err := Project(data, e)
	if err != nil {
		return nil, "", data, append(aliasMs, core.Mismatch{Signature: "not-decodable", Detail: fmt.Sprintf("Data() = %v: %v", data, err)})
	}
	ms = append(ms, aliasMs...)
	if derive {
		ms = append(ms, Derive(data, e, s.F, newPath, info)...)
	}
	return stream, off, data, ms
}

func offTag(s *Scenario) string {
	if s.Kind == "shape" && len(s.Hist) == 1 {
		return ":" + s.Hist[0].Op
	}
	if s.F.MvClose {
		return ":moveto-close"
	}
	if hasOp(s.Hist, "Append", "Join") {
		return ":append-join"
	}
	return ""
}

func judgeCfg(nchunks int) string {
	return fmt.Sprintf("SPECIFICATION TSpec\nCONSTANTS MaxLen = 1000\n EmitFrom = 0\n Profile = \"mix\"\n NChunks = %d\nCHECK_DEADLOCK FALSE\n", nchunks)
}

// JudgeEvents is judge for other drivers (C11 judges parsed paths with the same trace specification).
func JudgeEvents(c *core.Ctx, evs []Event) (map[int]Verdict, bool) { return judge(c, evs) }

// judge runs Trace_Builder.tla over the events and returns the verdicts of the deviating ones.
func judge(c *core.Ctx, evs []Event) (map[int]Verdict, bool) {
	out := map[int]Verdict{}
	if len(evs) == 0 {
		return out, true
	}
	var buf bytes.Buffer
	enc := json.NewEncoder(&buf)
	for _, e := range evs {
		if err := enc.Encode(e); err != nil {
			c.Broken("cannot encode event: " + err.Error())
			return out, false
		}
	}
	if f := os.Getenv("VERIF_C10_KEEPTRACE"); f != "" {
		os.WriteFile(f, buf.Bytes(), 0o644)
	}
	nch := 48
	if len(evs) < 200 {
		nch = 1
	}
	res := c.TLC(tlc.Opts{Module: "Trace_Builder", Config: judgeCfg(nch), Files: map[string][]byte{"trace_builder.ndjson": buf.Bytes()}}, true)
	if !res.OK {
		return out, false
	}
	if want := int64(1 + nch + len(evs)); res.Distinct != want {
		c.Broken(fmt.Sprintf("Trace_Builder consumed %d states, expected %d (not every event was judged)", res.Distinct, want))
		return out, false
	}
	for _, l := range res.Lines {
		var v Verdict
		if err := json.Unmarshal(l, &v); err != nil {
			c.Broken("bad verdict line: " + err.Error() + ": " + string(l))
			return out, false
		}
		out[v.ID] = v
	}
	return out, true
}

// verdictMismatches names the deviations of a judged event.
func verdictMismatches(v Verdict, s *Scenario, ev Event, offDetail string) []core.Mismatch {
	var ms []core.Mismatch
	sm := ev.Sm
	if v.Geom == "offgrid" {
		return append(ms, core.Mismatch{Signature: "offgrid" + offTag(s), Detail: fmt.Sprintf("history %s (embedding %s): %s; decoded stream (rounded) %v", histString(s.Hist), s.Emb, offDetail, sm)})
	}
	sort.Strings(v.WF)
	for _, w := range v.WF {
		sig := "wf-" + w
		if s.F.NRev > 0 || strings.Contains(v.Geom, "reversal-merged") {
			sig += ":collinear-reversal"
		}
		ms = append(ms, core.Mismatch{Signature: sig, Detail: fmt.Sprintf("decoded stream %v breaks well-formedness clause %q (history %s, embedding %s)", sm, w, histString(s.Hist), s.Emb)})
	}
	if v.Geom != "ok" && v.Geom != "" && v.Geom != "free" {
		sig := "geom-" + v.Geom
		if v.Geom == "other" {
			sig += geomTag(s)
		}
		if v.Geom == "shape-mismatch" && len(s.Hist) == 1 {
			sig += ":" + strings.TrimPrefix(s.Hist[0].Op, "Shape:")
		}
		ms = append(ms, core.Mismatch{Signature: sig, Detail: fmt.Sprintf("history %s (embedding %s): decoded stream %v; normal form of the requested geometry %s", histString(s.Hist), s.Emb, sm, mustJSON(v.Exp))})
	}
	return ms
}

func geomTag(s *Scenario) string {
	has := map[string]bool{}
	for _, c := range s.Hist {
		has[c.Op] = true
	}
	t := ""
	for _, k := range []string{"Join", "Append", "Arc", "ArcTo"} {
		if has[k] {
			t += ":" + strings.ToLower(k)
		}
	}
	if s.F.MvClose {
		t += ":moveto-close"
	}
	if s.F.NRev > 0 {
		t += ":collinear-reversal"
	}
	return t
}

func aliasOp(msg string) string {
	if strings.Contains(msg, "Join(") {
		return "Join"
	}
	return "Append"
}

func hasOp(h []Call, ops ...string) bool {
	for _, c := range h {
		for _, o := range ops {
			if c.Op == o {
				return true
			}
		}
	}
	return false
}

func histString(h []Call) string {
	var b strings.Builder
	for i, c := range h {
		if i > 0 {
			b.WriteString("; ")
		}
		b.WriteString(c.Op)
		b.WriteString("(")
		for j, a := range c.A {
			if j > 0 {
				b.WriteString(",")
			}
			fmt.Fprint(&b, a)
		}
		b.WriteString(")")
	}
	return b.String()
}

func (Driver) Replay(c *core.Ctx, raw json.RawMessage) []core.Mismatch {
	log.SetOutput(io.Discard)
	var s Scenario
	if err := json.Unmarshal(raw, &s); err != nil {
		return []core.Mismatch{{Signature: "machinery", Detail: err.Error()}}
	}
	var stream [][]int
	var ms []core.Mismatch
	var off string
	if s.Kind == "shape" {
		var data []float64
		stream, off, data, ms = shapeStream(&s)
		if stream != nil {
			e, _ := shapeUnit(s.Emb)
			ms = append(ms, Derive(data, e, s.F, setOf(defaultNewPath), nil)...)
		}
	} else {
		stream, off, _, ms = Exec(&s, setOf(defaultNewPath), true, nil)
	}
	if stream != nil {
		ev := Event{ID: 1, Hist: s.Hist, Sm: stream, Off: b2i(off != "")}
		vs, ok := judge(c, []Event{ev})
		if ok {
			if v, bad := vs[1]; bad {
				ms = append(ms, verdictMismatches(v, &s, ev, off)...)
			}
		}
	}
	return ms
}

func b2i(b bool) int {
	if b {
		return 1
	}
	return 0
}

func genCfg(maxLen, emitFrom int, profile string, mc bool) string {
	s := fmt.Sprintf("SPECIFICATION Spec\nCONSTANTS MaxLen = %d\n EmitFrom = %d\n Profile = \"%s\"\nCHECK_DEADLOCK FALSE\n", maxLen, emitFrom, profile)
	if mc {
		s += "INVARIANTS ModeOK ClosedReturns NFIdem NFClean SelfJudged B32OnlyAfterMoveClose HdrInv\n"
	} else {
		s += "INVARIANTS EmitInv\n"
	}
	return s
}

func hashOf(b []byte, seed int64) uint64 {
	h := fnv.New64a()
	h.Write(b)
	var sb [8]byte
	for i := 0; i < 8; i++ {
		sb[i] = byte(seed >> (8 * i))
	}
	h.Write(sb[:])
	return h.Sum64()
}

func bitsKey(emb string, d []float64) string {
	if len(d) == 0 {
		return emb + "|"
	}
	b := unsafe.Slice((*byte)(unsafe.Pointer(&d[0])), len(d)*8)
	return emb + "|" + string(b)
}

// run holds the state of one check run.
type run struct {
	c                                  *core.Ctx
	newPath                            map[string]bool
	mu                                 sync.Mutex
	events                             []Event
	evScen                             []Scenario // scenario of event i (first one that produced it)
	evKey                              map[string]int
	derived                            sync.Map // data already put through the derived operations
	seenHist                           sync.Map
	nHist, nExec, nDerived, nontrivial int64
	feat                               map[string]int64
	triage                             map[string]int64
	offDetail                          map[int]string
	info                               map[string]int64
}

// report hands mismatches to the verdict path; with VERIF_C10_TRIAGE set (development) they are only tallied.
func (r *run) report(s Scenario, ms []core.Mismatch) {
	if len(ms) == 0 {
		return
	}
	if os.Getenv("VERIF_C10_TRIAGE") == "" {
		r.c.Report(s, ms)
		return
	}
	r.mu.Lock()
	for _, m := range ms {
		r.triage[m.Signature]++
		if r.triage[m.Signature] <= 2 {
			fmt.Printf("TRIAGE %s :: %s :: %.700s\n", m.Signature, histString(s.Hist)+" @"+s.Emb, m.Detail)
		}
	}
	r.mu.Unlock()
}

func (r *run) note(k string) {
	r.mu.Lock()
	r.info[k]++
	r.mu.Unlock()
}

func nontrivialHist(l *Line) bool {
	seg, special := 0, false
	for _, c := range l.Hist {
		switch c.Op {
		case "LineTo", "QuadTo", "CubeTo", "ArcTo":
			seg++
		case "Arc", "Append", "Join":
			special = true
		}
	}
	pcs := 0
	for _, s := range l.Exp {
		pcs += len(s.Pcs)
		if s.Z && len(s.Pcs) > 0 {
			last := s.Pcs[len(s.Pcs)-1]
			if last[0] == 2 && last[1] == s.S[0] && last[2] == s.S[1] {
				pcs-- // the closing line is not a call
			}
		}
	}
	return len(l.Hist) >= 2 && len(l.Exp) > 0 && (pcs != seg || special || l.F.NRev > 0 || l.F.MvClose)
}

// handle replays one generated history under the identity and k further embeddings.
func (r *run) handle(p []byte, extra int) {
	var l Line
	if err := json.Unmarshal(p, &l); err != nil {
		r.c.Broken("bad scenario line: " + err.Error() + ": " + string(p[:min(len(p), 200)]))
		return
	}
	if l.Hdr {
		return
	}
	hk := mustJSON(l.Hist)
	if _, dup := r.seenHist.LoadOrStore(string(hk), true); dup {
		return
	}
	n := atomic.AddInt64(&r.nHist, 1)
	if n%100000 == 1 {
		r.c.Sample(json.RawMessage(p))
	}
	if nontrivialHist(&l) {
		atomic.AddInt64(&r.nontrivial, 1)
	}
	r.mu.Lock()
	for k, b := range map[string]bool{"CollinearReversal": l.F.NRev > 0, "HasOpenSubpath": l.F.Open, "MoveToCloseSegment": l.F.MvClose, "BezierLoop": l.F.CurveLoop,
		"FlatBezier": l.F.QuadFlat || l.F.CubeFlat, "ArcRadiiMinimal": l.F.ArcMin, "Spike": l.F.Spike, "EmptyNormalForm": len(l.Exp) == 0, "Arcs": l.F.Arcs} {
		if b {
			r.feat[k]++
		}
	}
	r.mu.Unlock()
	h := hashOf(hk, r.c.Seed)
	embs := []string{"id"}
	for i := 0; i < extra; i++ {
		e := Embs[1+int((h>>(8*uint(i)))%uint64(len(Embs)-1))]
		if (e.E != 0 || e.F != 0) && (len(l.Hist) == 0 || l.Hist[0].Op != "MoveTo" || l.F.MvClose || hasOp(l.Hist, "Append", "Join")) {
			e = Embs[1+int((h>>(8*uint(i)+3))%uint64(len(Embs)-2))] // an origin-fixing one instead
		}
		embs = append(embs, e.Name)
	}
	for i, en := range embs {
		s := Scenario{Kind: "hist", Hist: l.Hist, Emb: en, F: l.F}
		// derived operations: once per distinct Data() under the identity, and under the first extra embedding
		stream, off, data, ms := Exec(&s, r.newPath, false, nil)
		atomic.AddInt64(&r.nExec, 1)
		// derived operations: once per distinct Data(); quick tier: short histories and a quarter of the others under
		// the identity, an eighth of those also under the first extra embedding; thorough: also all histories of length 3,
		// and a quarter of the sampled ones under the extra embedding (63 calls cost 2-10 ms per path)
		want := i == 0 && (len(l.Hist) <= 2 || h%4 == 0 || r.c.Thorough() && len(l.Hist) <= 3) || i == 1 && (h%32 == 0 || r.c.Thorough() && h%16 == 0)
		if stream != nil && want {
			if _, dup := r.derived.LoadOrStore(bitsKey(en, data), true); !dup {
				e, _ := EmbByName(en)
				ms = append(ms, Derive(data, e, l.F, r.newPath, r.note)...)
				atomic.AddInt64(&r.nDerived, 1)
			}
		}
		r.report(s, ms)
		if stream == nil {
			continue
		}
		key := string(hk) + "|" + string(mustJSON(stream))
		r.mu.Lock()
		if _, dup := r.evKey[key]; !dup {
			id := len(r.events) + 1
			r.evKey[key] = id
			r.events = append(r.events, Event{ID: id, Hist: l.Hist, Sm: stream, Off: b2i(off != "")})
			r.evScen = append(r.evScen, s)
			if off != "" {
				r.offDetail[id] = off
			}
		}
		r.mu.Unlock()
	}
}

// gen runs one TLC generation and replays its lines concurrently.
func (r *run) gen(o tlc.Opts, extra int) {
	ch := make(chan []byte, 8192)
	o.OnLine = func(p []byte) { ch <- append([]byte(nil), p...) }
	if o.Timeout == 0 {
		o.Timeout = 45 * time.Minute // TLC is throttled by the replay workers through the pipe
	}
	done := make(chan struct{})
	go func() {
		core.Parallel(14, ch, func(p []byte) { r.handle(p, extra) })
		close(done)
	}()
	r.c.TLC(o, true)
	close(ch)
	<-done
}

// judgeAll validates the recorded events in batches and reports the deviating ones.
func (r *run) judgeAll() {
	const batch = 150000
	for lo := 0; lo < len(r.events); lo += batch {
		hi := min(lo+batch, len(r.events))
		evs := make([]Event, hi-lo)
		for i := range evs {
			evs[i] = r.events[lo+i]
			evs[i].ID = i + 1
		}
		vs, ok := judge(r.c, evs)
		if !ok {
			return
		}
		r.c.Count(0, 0, int64(len(evs)))
		ids := make([]int, 0, len(vs))
		for id := range vs {
			ids = append(ids, id)
		}
		sort.Ints(ids)
		for _, id := range ids {
			s := r.evScen[lo+id-1]
			r.report(s, verdictMismatches(vs[id], &s, r.events[lo+id-1], r.offDetail[lo+id]))
		}
	}
}

func (d Driver) Run(c *core.Ctx) error {
	log.SetOutput(io.Discard) // Path.Segments logs a deprecation warning per call
	defer FilterStdout()()
	c.Rule = "scenario = history of builder calls (MoveTo/LineTo/QuadTo/CubeTo/ArcTo/Arc/Close/Append/Join, lattice arguments) generated by TLC from spec/Builder.tla with the normal form of its documented meaning, replayed under the identity and further similarity embeddings; plus shape-constructor calls. distinct = distinct history; non-trivial = at least 2 calls, non-empty normal form, and a normalisation or special case is exercised (a call is dropped/merged/converted so that pieces != segment calls, or Arc/Append/Join occurs, or a collinear reversal, or Close on a pending MoveTo)"
	c.Assumptions = []string{
		"coordinates are lattice integers mapped through similarity embeddings; a decoded value further than 1e-6 lattice units from the lattice is reported (offgrid), arcs are restricted to radii/rotations whose canonical form is lattice-exact",
		"the meaning of a full turn in Arc() is two half ellipses through the opposite point",
		"no method may change its receiver's Data() except those documented in-place (InPlaceOps in spec/Builder.tla: Transform, Gridsnap); methods counted as 'documented as returning a new path' (arguments must stay unchanged too): NewPathOps",
		"Triangulate (documented WIP), Tile and the rasterizer adapters are not part of the totality claim",
	}
	r := &run{c: c, evKey: map[string]int{}, feat: map[string]int64{}, triage: map[string]int64{}, offDetail: map[int]string{}, info: map[string]int64{}, newPath: setOf(defaultNewPath)}

	// 1. model level: the machine's invariants, the normal form is a normal form, the judge accepts the spec's own
	//    rendering of every meaning; prints the header (NewPathOps)
	mcDepth := c.Pick(3, 4)
	profs := []string{"lines", "joins"}
	if c.Thorough() {
		profs = []string{"lines", "curves", "arcs", "joins"}
	}
	for _, prof := range profs {
		d := mcDepth
		if prof == "arcs" || prof == "curves" {
			d = 3 // 555 000 / 292 000 states at depth 4, each with the judge as invariant
		}
		res := c.TLC(tlc.Opts{Module: "Builder", Config: genCfg(d, 0, prof, true), Timeout: 40 * time.Minute}, true)
		for _, l := range res.Lines {
			var h Line
			if json.Unmarshal(l, &h) == nil && h.Hdr && len(h.NewPath) > 0 {
				r.newPath = setOf(h.NewPath)
				for _, n := range h.InPlace {
					r.newPath["!"+n] = true
				}
			}
		}
	}
	// (-coverage is not used: the machine has a single action, and TLC's coverage mode needs 14 minutes for 160 000 states
	// with these invariants; non-vacuity of the alphabets is reported as feature_counts in the evidence)

	// 2. spec -> code
	extra := c.Pick(1, 3)
	r.gen(tlc.Opts{Module: "Builder", Config: genCfg(c.Pick(4, 5), 1, "lines", false)}, extra)
	r.gen(tlc.Opts{Module: "Builder", Config: genCfg(c.Pick(3, 4), 1, "curves", false)}, extra)
	r.gen(tlc.Opts{Module: "Builder", Config: genCfg(3, 1, "arcs", false)}, extra) // depth 4 = 555 000 histories: too many
	r.gen(tlc.Opts{Module: "Builder", Config: genCfg(c.Pick(3, 4), 1, "joins", false)}, extra)
	depth := c.Pick(7, 8)
	r.gen(tlc.Opts{Module: "Builder", Config: genCfg(depth, 2, "mix", false), Simulate: fmt.Sprintf("num=%d", c.Pick(20, 100)), Depth: depth + 1, Seed: c.Seed, Workers: 8}, extra)
	r.shapes()
	c.Count(r.nExec, r.nontrivial, 0)

	// 3. code -> spec
	r.judgeAll()

	if len(r.triage) > 0 {
		ks := make([]string, 0, len(r.triage))
		for k := range r.triage {
			ks = append(ks, k)
		}
		sort.Strings(ks)
		for _, k := range ks {
			fmt.Printf("TRIAGE-COUNT %8d %s\n", r.triage[k], k)
		}
	}
	c.SetExtra("histories", r.nHist)
	c.SetExtra("executions", r.nExec)
	c.SetExtra("derived_batches", r.nDerived)
	c.SetExtra("derived_operations_per_batch", len(dops))
	c.SetExtra("trace_events", len(r.events))
	c.SetExtra("feature_counts", r.feat)
	c.SetExtra("not_demanded_observations", r.info)
	c.SetExtra("methods_outside_totality_claim", opsExcluded)
	return nil
}
