package c10

import (
	"bufio"
	"fmt"
	"io"
	"os"
	"strings"
)

// The library prints debugging output on standard output when the sweep is about to panic (fmt.Println of the
// operand paths and the operation in path_intersection.go) and "WARNING:" lines. FilterStdout routes os.Stdout
// through a pipe for the duration of a run and drops exactly those lines, so that the verdict lines stay readable.
func FilterStdout() (restore func()) {
	r, w, err := os.Pipe()
	if err != nil {
		return func() {}
	}
	real := os.Stdout
	os.Stdout = w
	done := make(chan struct{})
	go func() {
		defer close(done)
		rd := bufio.NewReaderSize(r, 1<<16)
		for {
			line, err := rd.ReadString('\n')
			if line != "" && !libraryNoise(strings.TrimRight(line, "\n")) {
				fmt.Fprint(real, line)
			}
			if err != nil {
				if err != io.EOF {
					fmt.Fprintln(os.Stderr, "stdout filter:", err)
				}
				return
			}
		}
	}()
	return func() {
		os.Stdout = real
		w.Close()
		<-done
	}
}

func libraryNoise(l string) bool {
	switch l {
	case "Settle", "AND", "OR", "XOR", "NOT", "DIV":
		return true
	}
	return strings.HasPrefix(l, "[") || strings.HasPrefix(l, "WARNING: ")
}
