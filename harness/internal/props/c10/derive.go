package c10

import (
	"fmt"
	"math"
	"time"

	"github.com/tdewolff/canvas"

	"verif/harness/internal/core"
	"verif/harness/internal/latgeo"
)

// derived operation: every public query / derivation of a path. arg slices and operand paths are created per call
// by mk and compared bit for bit afterwards.
type dop struct {
	Name string // method (the unit of the totality claim and of the signatures)
	Var  string // variant of the arguments
	Run  func(p *canvas.Path, x *dargs)
}

type dargs struct {
	s                         float64 // scale of the embedding
	e                         latgeo.Emb
	paths                     []*canvas.Path // operand paths handed to the method
	floats                    [][]float64    // float slices handed to the method
	pathsBefore, floatsBefore [][]float64    // their contents when they were created (before the call)
}

func (x *dargs) pt(a, b float64) (float64, float64) { return x.e.Map(a, b) }

// operand q of the boolean operations (lattice coordinates, not closed explicitly)
func (x *dargs) q(kind int) *canvas.Path {
	q := &canvas.Path{}
	pts := [][2]float64{{0, 0}, {2, 0}, {2, 2}, {0, 0}} // returns to its start without Close
	switch kind {
	case 1:
		pts = [][2]float64{{0, 0}, {2, 0}, {2, 2}, {1, 1}} // last line points at the start
	case 2:
		pts = [][2]float64{{0, 0}, {3, 0}, {3, 1}, {0, 1}} // rectangle, closed below
	case 3:
		pts = [][2]float64{{1, 0}, {3, 2}, {0, 2}} // open triangle
	}
	for i, v := range pts {
		a, b := x.pt(v[0], v[1])
		if i == 0 {
			q.MoveTo(a, b)
		} else {
			q.LineTo(a, b)
		}
	}
	if kind == 2 {
		q.Close()
	}
	x.paths = append(x.paths, q)
	x.pathsBefore = append(x.pathsBefore, cloneF(q.Data()))
	return q
}

func (x *dargs) fl(v ...float64) []float64 {
	out := make([]float64, len(v))
	for i := range v {
		out[i] = v[i] * x.s
	}
	x.floats = append(x.floats, out)
	x.floatsBefore = append(x.floatsBefore, cloneF(out))
	return out
}

func marker(x *dargs) *canvas.Path {
	m := &canvas.Path{}
	m.MoveTo(0, 0)
	m.LineTo(0.1*x.s, 0)
	m.LineTo(0, 0.1*x.s)
	m.Close()
	x.paths = append(x.paths, m)
	x.pathsBefore = append(x.pathsBefore, cloneF(m.Data()))
	return m
}

var sink any

var fillRules = []canvas.FillRule{canvas.NonZero, canvas.EvenOdd, canvas.Positive, canvas.Negative}

// dops is the list of derived operations applied after every history.
var dops = []dop{
	{"Bounds", "", func(p *canvas.Path, x *dargs) { sink = p.Bounds() }},
	{"FastBounds", "", func(p *canvas.Path, x *dargs) { sink = p.FastBounds() }},
	{"Length", "", func(p *canvas.Path, x *dargs) { sink = p.Length() }},
	{"Coords", "", func(p *canvas.Path, x *dargs) { sink = p.Coords() }},
	{"CoordDirections", "", func(p *canvas.Path, x *dargs) { sink = p.CoordDirections() }},
	{"Segments", "", func(p *canvas.Path, x *dargs) { sink = p.Segments() }},
	{"Len", "", func(p *canvas.Path, x *dargs) {
		sink = []any{p.Len(), p.Empty(), p.Closed(), p.PointClosed(), p.HasSubpaths(), p.Pos(), p.StartPos(), p.Sane(), p.Flat()}
	}},
	{"Direction", "", func(p *canvas.Path, x *dargs) {
		for i := 0; i <= p.Len(); i++ {
			sink = p.Direction(i, 0.0)
			sink = p.Direction(i, 0.5)
			sink = p.Direction(i, 1.0)
		}
	}},
	{"Curvature", "", func(p *canvas.Path, x *dargs) {
		for i := 0; i <= p.Len(); i++ {
			sink = p.Curvature(i, 0.0)
			sink = p.Curvature(i, 0.5)
			sink = p.Curvature(i, 1.0)
		}
	}},
	{"CCW", "", func(p *canvas.Path, x *dargs) { sink = p.CCW() }},
	{"Filling", "NonZero", func(p *canvas.Path, x *dargs) { sink = p.Filling(canvas.NonZero) }},
	{"Filling", "EvenOdd", func(p *canvas.Path, x *dargs) { sink = p.Filling(canvas.EvenOdd) }},
	{"Contains", "generic", func(p *canvas.Path, x *dargs) {
		a, b := x.pt(0.37, 0.61)
		sink = p.Contains(a, b, canvas.NonZero)
		a, b = x.pt(1.53, 1.29)
		sink = p.Contains(a, b, canvas.EvenOdd)
	}},
	{"Windings", "generic", func(p *canvas.Path, x *dargs) {
		a, b := x.pt(0.37, 0.61)
		n, bd := p.Windings(a, b)
		sink = []any{n, bd}
		a, b = x.pt(-1.21, 1.47)
		n, bd = p.Windings(a, b)
		sink = []any{n, bd}
	}},
	{"Windings", "vertex", func(p *canvas.Path, x *dargs) {
		for _, v := range [][2]float64{{1, 1}, {0, 0}, {-1, 2}} {
			a, b := x.pt(v[0], v[1])
			n, bd := p.Windings(a, b)
			sink = []any{n, bd}
		}
	}},
	{"Crossings", "generic", func(p *canvas.Path, x *dargs) {
		a, b := x.pt(0.37, 0.61)
		n, bd := p.Crossings(a, b)
		sink = []any{n, bd}
	}},
	{"Crossings", "vertex", func(p *canvas.Path, x *dargs) {
		a, b := x.pt(-1, 1)
		n, bd := p.Crossings(a, b)
		sink = []any{n, bd}
	}},
	{"RayIntersections", "generic", func(p *canvas.Path, x *dargs) {
		a, b := x.pt(-0.73, 0.61)
		sink = p.RayIntersections(a, b)
	}},
	{"RayIntersections", "vertex", func(p *canvas.Path, x *dargs) {
		a, b := x.pt(-1, 1)
		sink = p.RayIntersections(a, b)
	}},
	{"String", "", func(p *canvas.Path, x *dargs) { sink = p.String() }},
	{"ToSVG", "", func(p *canvas.Path, x *dargs) { sink = p.ToSVG() }},
	{"ToPDF", "", func(p *canvas.Path, x *dargs) { sink = p.ToPDF() }},
	{"ToPS", "", func(p *canvas.Path, x *dargs) { sink = p.ToPS() }},
	{"Scanner", "", func(p *canvas.Path, x *dargs) {
		n := 0
		for s := p.Scanner(); s.Scan(); n++ {
			if n > 10000 {
				panic("scanner does not terminate")
			}
			sink = []any{s.Cmd(), s.Values(), s.Start(), s.End(), s.Path()}
			switch s.Cmd() {
			case canvas.QuadToCmd:
				sink = s.CP1()
			case canvas.CubeToCmd:
				sink = []any{s.CP1(), s.CP2()}
			case canvas.ArcToCmd:
				rx, ry, rot, l, sw := s.Arc()
				sink = []any{rx, ry, rot, l, sw}
			}
		}
	}},
	{"ReverseScanner", "", func(p *canvas.Path, x *dargs) {
		n := 0
		for s := p.ReverseScanner(); s.Scan(); n++ {
			if n > 10000 {
				panic("scanner does not terminate")
			}
			sink = []any{s.Cmd(), s.Values(), s.Start(), s.End(), s.Path()}
			switch s.Cmd() {
			case canvas.QuadToCmd:
				sink = s.CP1()
			case canvas.CubeToCmd:
				sink = []any{s.CP1(), s.CP2()}
			case canvas.ArcToCmd:
				rx, ry, rot, l, sw := s.Arc()
				sink = []any{rx, ry, rot, l, sw}
			}
		}
	}},
	{"Equals", "", func(p *canvas.Path, x *dargs) { sink = []any{p.Equals(p), p.Same(p)} }},
	{"GobEncode", "", func(p *canvas.Path, x *dargs) {
		b, err := p.GobEncode()
		if err == nil {
			q := &canvas.Path{}
			err = q.GobDecode(b)
		}
		sink = err
	}},
	{"Copy", "", func(p *canvas.Path, x *dargs) { sink = p.Copy() }},
	{"Flatten", "", func(p *canvas.Path, x *dargs) { sink = p.Flatten(0.01 * x.s) }},
	{"ReplaceArcs", "", func(p *canvas.Path, x *dargs) { sink = p.ReplaceArcs() }},
	{"XMonotone", "", func(p *canvas.Path, x *dargs) { sink = p.XMonotone() }},
	{"Reverse", "", func(p *canvas.Path, x *dargs) { sink = p.Reverse() }},
	{"Dash", "plain", func(p *canvas.Path, x *dargs) { sink = p.Dash(0, x.fl(0.75, 0.5)...) }},
	{"Dash", "odd-offset", func(p *canvas.Path, x *dargs) { sink = p.Dash(0.25*x.s, x.fl(0.7)...) }},
	{"Dash", "zeros-negoffset", func(p *canvas.Path, x *dargs) { sink = p.Dash(-1*x.s, x.fl(2, 0, 3, 1)...) }},
	{"Dash", "repeated", func(p *canvas.Path, x *dargs) { sink = p.Dash(0, x.fl(1, 1, 1, 1)...) }},
	{"Dash", "none", func(p *canvas.Path, x *dargs) { sink = p.Dash(0) }},
	// finite but adversarial offsets with a decimal pattern (scaled with the embedding like every length, so that the
	// number of dashes stays bounded): rounding can make the reduced offset equal the period
	{"Dash", "offset-rounding-residue", func(p *canvas.Path, x *dargs) { sink = p.Dash(0.3-(0.1+0.2), x.fl(2.1, 2.3, 1, 1.2)...) }},
	{"Dash", "offset-minus-1e-17", func(p *canvas.Path, x *dargs) { sink = p.Dash(-1e-17, x.fl(0.7, 0.1, 0.2)...) }},
	{"Dash", "offset-minus-1e-300", func(p *canvas.Path, x *dargs) { sink = p.Dash(-1e-300, x.fl(2.1, 2.3, 1, 1.2)...) }},
	{"Dash", "offset-one-decimal-period", func(p *canvas.Path, x *dargs) { sink = p.Dash(6.6*x.s, x.fl(2.1, 2.3, 1, 1.2)...) }},
	{"Dash", "offset-1e300", func(p *canvas.Path, x *dargs) { sink = p.Dash(1e300, x.fl(0.7, 0.3)...) }},
	{"Dash", "offset-minus-1e300", func(p *canvas.Path, x *dargs) { sink = p.Dash(-1e300, x.fl(2.1, 2.3, 1, 1.2)...) }},
	{"Offset", "out", func(p *canvas.Path, x *dargs) { sink = p.Offset(0.25*x.s, 0.01*x.s) }},
	{"Offset", "in", func(p *canvas.Path, x *dargs) { sink = p.Offset(-0.25*x.s, 0.01*x.s) }},
	{"Stroke", "butt-miter", func(p *canvas.Path, x *dargs) { sink = p.Stroke(0.5*x.s, canvas.ButtCap, canvas.MiterJoin, 0.01*x.s) }},
	{"Stroke", "round-round", func(p *canvas.Path, x *dargs) { sink = p.Stroke(0.5*x.s, canvas.RoundCap, canvas.RoundJoin, 0.01*x.s) }},
	{"Stroke", "square-bevel", func(p *canvas.Path, x *dargs) { sink = p.Stroke(0.3*x.s, canvas.SquareCap, canvas.BevelJoin, 0.01*x.s) }},
	{"Stroke", "butt-arcs", func(p *canvas.Path, x *dargs) { sink = p.Stroke(0.5*x.s, canvas.ButtCap, canvas.ArcsJoin, 0.01*x.s) }},
	{"Settle", "NonZero", func(p *canvas.Path, x *dargs) { sink = p.Settle(canvas.NonZero) }},
	{"Settle", "EvenOdd", func(p *canvas.Path, x *dargs) { sink = p.Settle(canvas.EvenOdd) }},
	{"Settle", "Positive", func(p *canvas.Path, x *dargs) { sink = p.Settle(canvas.Positive) }},
	{"And", "q-returns-to-start", func(p *canvas.Path, x *dargs) { sink = p.And(x.q(0)) }},
	{"And", "q-points-at-start", func(p *canvas.Path, x *dargs) { sink = p.And(x.q(1)) }},
	{"Or", "q-returns-to-start", func(p *canvas.Path, x *dargs) { sink = p.Or(x.q(0)) }},
	{"Or", "q-closed", func(p *canvas.Path, x *dargs) { sink = p.Or(x.q(2)) }},
	{"Xor", "q-open", func(p *canvas.Path, x *dargs) { sink = p.Xor(x.q(3)) }},
	{"Not", "q-points-at-start", func(p *canvas.Path, x *dargs) { sink = p.Not(x.q(1)) }},
	{"DivideBy", "q-returns-to-start", func(p *canvas.Path, x *dargs) { sink = p.DivideBy(x.q(0)) }},
	{"Translate", "", func(p *canvas.Path, x *dargs) { sink = p.Translate(1.5*x.s, -0.5*x.s) }},
	{"Scale", "", func(p *canvas.Path, x *dargs) { sink = p.Scale(2, 0.5) }},
	{"Transform", "", func(p *canvas.Path, x *dargs) {
		sink = p.Transform(canvas.Identity.Rotate(30).Scale(2, 0.5).Translate(x.s, 0))
	}},
	{"Gridsnap", "", func(p *canvas.Path, x *dargs) { sink = p.Gridsnap(0.5 * x.s) }},
	{"Split", "", func(p *canvas.Path, x *dargs) { sink = p.Split() }},
	{"SplitAt", "", func(p *canvas.Path, x *dargs) { sink = p.SplitAt(x.fl(2.5, 0.5, 1.0, 7)...) }},
	{"SplitAt", "none", func(p *canvas.Path, x *dargs) { sink = p.SplitAt() }},
	{"Markers", "aligned", func(p *canvas.Path, x *dargs) { sink = p.Markers(marker(x), marker(x), marker(x), true) }},
	{"Markers", "nil-mid", func(p *canvas.Path, x *dargs) { sink = p.Markers(marker(x), nil, marker(x), false) }},
	{"Clip", "", func(p *canvas.Path, x *dargs) {
		x0, y0 := x.pt(0.5, 0.5)
		x1, y1 := x.pt(1.5, 2.5)
		sink = p.Clip(math.Min(x0, x1), math.Min(y0, y1), math.Max(x0, x1), math.Max(y0, y1))
	}},
	{"FastClip", "", func(p *canvas.Path, x *dargs) {
		x0, y0 := x.pt(0.5, 0.5)
		x1, y1 := x.pt(1.5, 2.5)
		sink = p.FastClip(math.Min(x0, x1), math.Min(y0, y1), math.Max(x0, x1), math.Max(y0, y1))
	}},
	{"SimplifyVisvalingamWhyatt", "", func(p *canvas.Path, x *dargs) { sink = p.SimplifyVisvalingamWhyatt(0.1 * x.s * x.s) }},
}

// opsExcluded are public methods deliberately not part of the totality claim (documented work in progress or
// needing set-up outside the property): Triangulate ("WIP"), Tile, the rasterizer adapters (C14).
var opsExcluded = []string{"Triangulate", "Tile", "ToVectorRasterizer", "ToScanxScanner"}

func sameBits(a, b []float64) bool {
	if len(a) != len(b) {
		return false
	}
	for i := range a {
		if math.Float64bits(a[i]) != math.Float64bits(b[i]) {
			return false
		}
	}
	return true
}

func cloneF(d []float64) []float64 { return append(make([]float64, 0, len(d)), d...) }

// opOutcome of one derived operation.
type opOutcome struct {
	op          *dop
	kind        string // "" ok | "panic" | "timeout"
	msg         any
	recvChanged bool
	recvDetail  string
	argChanged  string // "" or description
}

// runOp applies one derived operation to a private copy of the data and compares receiver and arguments afterwards.
func runOp(o *dop, data []float64, e latgeo.Emb) (out opOutcome) {
	out.op = o
	x := &dargs{s: math.Hypot(e.A, e.C), e: e}
	p := canvas.NewPathFromData(cloneF(data))
	func() {
		defer func() {
			if r := recover(); r != nil {
				out.kind, out.msg = "panic", r
			}
		}()
		o.Run(p, x)
	}()
	if out.kind != "" {
		return
	}
	if out.recvChanged = !sameBits(p.Data(), data); out.recvChanged {
		out.recvDetail = fmt.Sprintf("%v -> %v", canvas.NewPathFromData(data), p)
		if len(out.recvDetail) > 300 {
			out.recvDetail = out.recvDetail[:300]
		}
	}
	for i, f := range x.floats {
		if !sameBits(f, x.floatsBefore[i]) {
			out.argChanged = fmt.Sprintf("float slice argument %d: %v -> %v", i, x.floatsBefore[i], f)
		}
	}
	for i, q := range x.paths {
		if !sameBits(q.Data(), x.pathsBefore[i]) {
			out.argChanged = fmt.Sprintf("path argument %d: %v -> %v", i, x.pathsBefore[i], q.Data())
		}
	}
	return
}

// Derive applies every derived operation to the path data. newPath = the methods documented as returning a new
// path (from the spec header). A watchdog covers the whole batch; on expiry the operations are re-run one by one.
func Derive(data []float64, e latgeo.Emb, f Feat, newPath map[string]bool, info func(string)) []core.Mismatch {
	// sub-paths whose Length is not finite make Dash loop and allocate for ever: those calls go to a child process
	badLen := false
	latgeo.Try(func() {
		for _, q := range canvas.NewPathFromData(cloneF(data)).Split() {
			if l := q.Length(); math.IsInf(l, 0) {
				badLen = true
			}
		}
	})
	risky := func(i int) bool { return badLen && dops[i].Name == "Dash" && dops[i].Var != "none" }
	var outs []opOutcome
	batch := func(limit time.Duration) string {
		kind, _ := latgeo.Guard(limit, func() {
			o2 := make([]opOutcome, 0, len(dops))
			for i := range dops {
				if risky(i) {
					continue
				}
				o2 = append(o2, runOp(&dops[i], data, e))
			}
			outs = o2
		})
		return kind
	}
	if batch(20*time.Second) == "timeout" {
		outs = nil
		for i := range dops {
			if risky(i) {
				continue
			}
			var o opOutcome
			k, _ := latgeo.Guard(5*time.Second, func() { o = runOp(&dops[i], data, e) })
			if k == "timeout" {
				o = opOutcome{op: &dops[i], kind: "timeout", msg: "no result after 5s"}
			}
			outs = append(outs, o)
		}
	}
	for i := range dops {
		if risky(i) {
			if o, ok := runInChild(i, data, e); ok {
				outs = append(outs, o)
			} else if info != nil {
				info("dash-not-run-after-infinite-Length(child budget used)")
			}
		}
	}
	var ms []core.Mismatch
	for _, o := range outs {
		name := o.op.Name
		full := name
		if o.op.Var != "" {
			full += "(" + o.op.Var + ")"
		}
		switch o.kind {
		case "panic":
			ms = append(ms, core.Mismatch{Signature: panicSig(o, f), Detail: fmt.Sprintf("%s panics: %v", full, o.msg)})
			continue
		case "timeout":
			ms = append(ms, core.Mismatch{Signature: "timeout-" + name + featTag(name, f), Detail: fmt.Sprintf("%s does not return: %v", full, o.msg)})
			continue
		}
		if o.recvChanged {
			if !newPath["!"+name] {
				what := " is not documented as working in place"
				if newPath[name] {
					what = " is documented as returning a new path"
				}
				ms = append(ms, core.Mismatch{Signature: "mutates-receiver-" + name, Detail: full + what + " but changes the receiver's Data(): " + o.recvDetail})
			} else if info != nil {
				info("receiver-changed-by-" + name + "(documented in-place)")
			}
		}
		if o.argChanged != "" {
			if newPath[name] {
				ms = append(ms, core.Mismatch{Signature: "mutates-argument-" + name + argVar(o), Detail: full + " changes its argument: " + o.argChanged})
			} else if info != nil {
				info("argument-changed-by-" + name)
			}
		}
	}
	return ms
}

func argVar(o opOutcome) string {
	switch o.op.Name {
	case "And", "Or", "Xor", "Not", "DivideBy":
		return ":" + o.op.Var
	}
	return ""
}

// panicSig: panic-<Method>:<class of the message>[:<scenario features computed by the spec>]
func panicSig(o opOutcome, f Feat) string {
	s := "panic-" + o.op.Name
	if o.op.Name == "Windings" || o.op.Name == "Crossings" || o.op.Name == "RayIntersections" || o.op.Name == "Contains" {
		s += "@" + o.op.Var
	}
	s += ":" + latgeo.PanicClass(o.msg)
	return s + featTag(o.op.Name, f)
}

// featTag attaches the spec-computed scenario features that delimit the known panics.
func featTag(op string, f Feat) string {
	t := ""
	add := func(b bool, n string) {
		if b {
			t += ":" + n
		}
	}
	zeroWidth := f.Spike || f.NRev > 0 // a closed spike or an out-and-back excursion: part of the path has no width
	switch op {
	case "Settle", "And", "Or", "Xor", "Not", "DivideBy":
		add(f.Open, "open-subpath")
		add(!f.Open && zeroWidth, "zero-width-part")
	case "Filling":
		add(f.NSub >= 2, "multi-subpath")
	case "Stroke", "Offset":
		add(f.CurveLoop, "bezier-loop")
		add(!f.CurveLoop && (f.QuadFlat || f.CubeFlat), "flat-bezier")
		add(!f.CurveLoop && !(f.QuadFlat || f.CubeFlat) && zeroWidth, "zero-width-part")
	case "Flatten", "Dash", "SplitAt", "XMonotone", "ReplaceArcs", "ToPDF", "CCW":
		add(f.CurveLoop, "bezier-loop")
		add(!f.CurveLoop && (f.QuadFlat || f.CubeFlat), "flat-bezier")
		add(!f.CurveLoop && !(f.QuadFlat || f.CubeFlat) && f.NRev > 0, "collinear-reversal")
	}
	return t
}
