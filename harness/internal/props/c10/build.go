package c10

import (
	"encoding/json"
	"fmt"
	"math"

	"github.com/tdewolff/canvas"

	"verif/harness/internal/latgeo"
	"verif/harness/internal/oracle"
)

// Call is one builder call of the alphabet of spec/Builder.tla (lattice integers, angles in degrees).
type Call struct {
	Op string `json:"op"`
	A  []int  `json:"a"`
}

// Sub is one sub-path of a meaning / normal form as printed by the spec.
type Sub struct {
	S   [2]int  `json:"s"`
	Pcs [][]int `json:"pcs"`
	Z   bool    `json:"z"`
}

// Feat are the scenario features computed by the spec (Features in Builder.tla).
type Feat struct {
	NRev       int  `json:"nrev"`
	Open       bool `json:"open"`
	Closed     bool `json:"closed"`
	NSub       int  `json:"nsub"`
	MvClose    bool `json:"mvclose"`
	CurveLoop  bool `json:"curveloop"`
	QuadFlat   bool `json:"quadflat"`
	CubeFlat   bool `json:"cubeflat"`
	Curves     bool `json:"curves"`
	Arcs       bool `json:"arcs"`
	ArcMin     bool `json:"arcmin"`
	ArcChordRx bool `json:"arcchordrx"`
	Spike      bool `json:"spike"`
}

// Embeddings used for C10/C11: similarities only (arcs stay arcs with scaled radii). All but "translate" fix the
// origin, because a path that starts without MoveTo starts at the real origin; "translate" is only used for
// histories that begin with MoveTo and never close a pending MoveTo (see pickEmbs).
var Embs = []latgeo.Emb{
	latgeo.Identity,
	latgeo.Symmetries[1], latgeo.Symmetries[2], latgeo.Symmetries[3], latgeo.Symmetries[4],
	latgeo.Symmetries[5], latgeo.Symmetries[6], latgeo.Symmetries[7],
	latgeo.Tiny, latgeo.Huge, latgeo.Pyth,
	{Name: "rot17@0", A: latgeo.Rot17.A, B: latgeo.Rot17.B, C: latgeo.Rot17.C, D: latgeo.Rot17.D},
	{Name: "pyth-5-12-13-flip", A: 5.0 / 13, B: 12.0 / 13, C: 12.0 / 13, D: -5.0 / 13},
	{Name: "scale0.05", A: 0.05, B: 0, C: 0, D: 0.05, E: 0, F: 0},
	latgeo.Translate,
}

func EmbByName(n string) (latgeo.Emb, bool) {
	for _, e := range Embs {
		if e.Name == n {
			return e, true
		}
	}
	return latgeo.Emb{}, false
}

// sim describes the similarity e: scale, angle alpha of the image of the x axis (degrees), reflection.
type sim struct {
	e     latgeo.Emb
	s     float64
	alpha float64
	flip  bool
}

func simOf(e latgeo.Emb) sim {
	return sim{e: e, s: math.Hypot(e.A, e.C), alpha: math.Atan2(e.C, e.A) * 180 / math.Pi, flip: e.Det() < 0}
}

func (m sim) pt(x, y int) (float64, float64) { return m.e.Map(float64(x), float64(y)) }

// rot maps the rotation of an ellipse axis (degrees).
func (m sim) rot(r float64) float64 {
	if m.flip {
		return m.alpha - r
	}
	return m.alpha + r
}

// Operand builds operand k of Append/Join (OperandSubs in Builder.tla) under the embedding.
func operand(k int, m sim) *canvas.Path {
	q := &canvas.Path{}
	mv := func(x, y int) { a, b := m.pt(x, y); q.MoveTo(a, b) }
	ln := func(x, y int) { a, b := m.pt(x, y); q.LineTo(a, b) }
	switch k {
	case 0:
	case 1:
		mv(1, 1)
	case 2:
		mv(1, 1)
		ln(2, 1)
	case 3:
		mv(1, 1)
		ln(2, 1)
		ln(2, 2)
		q.Close()
	case 4:
		mv(0, 0)
		ln(0, 2)
		mv(2, 0)
		ln(2, 2)
		ln(1, 2)
		q.Close()
	case 5:
		mv(1, 1)
		cx, cy := m.pt(2, 1)
		x, y := m.pt(2, 2)
		q.QuadTo(cx, cy, x, y)
	case 6:
		mv(1, 1)
		ln(0, 1)
		q.Close()
		mv(2, 2)
		ln(2, 0)
	}
	return q
}

// apply executes one call on the real path and returns the (possibly new) path.
func apply(p *canvas.Path, c Call, m sim, keep func(q *canvas.Path, c Call, result *canvas.Path)) (*canvas.Path, error) {
	a := c.A
	need := func(n int) error {
		if len(a) != n {
			return fmt.Errorf("%s: %d arguments, want %d", c.Op, len(a), n)
		}
		return nil
	}
	switch c.Op {
	case "MoveTo":
		if err := need(2); err != nil {
			return p, err
		}
		x, y := m.pt(a[0], a[1])
		p.MoveTo(x, y)
	case "LineTo":
		if err := need(2); err != nil {
			return p, err
		}
		x, y := m.pt(a[0], a[1])
		p.LineTo(x, y)
	case "QuadTo":
		if err := need(4); err != nil {
			return p, err
		}
		cx, cy := m.pt(a[0], a[1])
		x, y := m.pt(a[2], a[3])
		p.QuadTo(cx, cy, x, y)
	case "CubeTo":
		if err := need(6); err != nil {
			return p, err
		}
		x1, y1 := m.pt(a[0], a[1])
		x2, y2 := m.pt(a[2], a[3])
		x, y := m.pt(a[4], a[5])
		p.CubeTo(x1, y1, x2, y2, x, y)
	case "ArcTo": // rx ry rot flags x y
		if err := need(6); err != nil {
			return p, err
		}
		large := a[3] == 1 || a[3] == 3
		sweep := a[3] == 2 || a[3] == 3
		if m.flip {
			sweep = !sweep
		}
		x, y := m.pt(a[4], a[5])
		p.ArcTo(m.s*float64(a[0]), m.s*float64(a[1]), m.rot(float64(a[2])), large, sweep, x, y)
	case "Arc": // rx ry rot theta0 theta1
		if err := need(5); err != nil {
			return p, err
		}
		t0, t1 := float64(a[3]), float64(a[4])
		if m.flip {
			t0, t1 = -t0, -t1
		}
		p.Arc(m.s*float64(a[0]), m.s*float64(a[1]), m.rot(float64(a[2])), t0, t1)
	case "Close":
		p.Close()
	case "Append":
		if err := need(1); err != nil {
			return p, err
		}
		q := operand(a[0], m)
		p = p.Append(q)
		if keep != nil {
			keep(q, c, p)
		}
	case "Join":
		if err := need(1); err != nil {
			return p, err
		}
		q := operand(a[0], m)
		p = p.Join(q)
		if keep != nil && p != q { // "returns ... q if p is empty": returning the argument itself is documented
			keep(q, c, p)
		}
	default:
		return p, fmt.Errorf("unknown call %q", c.Op)
	}
	return p, nil
}

// Build replays a history on a fresh real path.
func Build(h []Call, e latgeo.Emb) (*canvas.Path, error) {
	p, _, _, err := BuildTracked(h, e)
	return p, err
}

// Kept is an argument path of an earlier Append/Join that is kept alive with its value: the result of the call and the
// argument are independent values (spec: IndependentResultOps), so no later call on the one may change the other.
type Kept struct {
	Q    *canvas.Path
	Snap []float64
	Call Call
}

// BuildTracked replays a history and re-checks, after every later call, the arguments of the Append/Join calls made so
// far. alias != "" describes the first argument that a later call changed.
func BuildTracked(h []Call, e latgeo.Emb) (p *canvas.Path, kept []Kept, alias string, err error) {
	m := simOf(e)
	p = &canvas.Path{}
	for i, c := range h {
		var add []Kept
		if p, err = apply(p, c, m, func(q *canvas.Path, c Call, _ *canvas.Path) {
			add = append(add, Kept{Q: q, Snap: cloneF(q.Data()), Call: c})
		}); err != nil {
			return nil, nil, "", err
		}
		for _, k := range kept {
			if alias == "" && !sameBits(k.Q.Data(), k.Snap) {
				alias = fmt.Sprintf("call %d (%s) changed the argument of the earlier %s(%v): %v -> %v", i+1, c.Op, k.Call.Op, k.Call.A, k.Snap, k.Q.Data())
			}
		}
		kept = append(kept, add...)
	}
	return p, kept, alias, nil
}

// ProbeAliasing modifies the arguments of the earlier Append/Join calls and then the result in place (LineTo,
// Transform) and requires the other side to keep its value. data = snapshot of p.Data(). The objects are used up.
func ProbeAliasing(p *canvas.Path, data []float64, kept []Kept, e latgeo.Emb) string {
	if len(kept) == 0 {
		return ""
	}
	x, y := e.Map(7, 9)
	tr := canvas.Identity.Translate(3*math.Hypot(e.A, e.C), -2*math.Hypot(e.A, e.C))
	msg := ""
	latgeo.Try(func() {
		for _, k := range kept {
			if k.Q == p {
				continue
			}
			k.Q.LineTo(x, y)
			k.Q.Transform(tr)
			if msg == "" && !sameBits(p.Data(), data) {
				msg = fmt.Sprintf("LineTo and Transform on the argument of %s(%v) changed the result: %v -> %v", k.Call.Op, k.Call.A, data, p.Data())
			}
		}
		snaps := make([][]float64, len(kept))
		for i, k := range kept {
			snaps[i] = cloneF(k.Q.Data())
		}
		p.LineTo(x+1, y)
		p.Transform(tr)
		for i, k := range kept {
			if k.Q != p && msg == "" && !sameBits(k.Q.Data(), snaps[i]) {
				msg = fmt.Sprintf("LineTo and Transform on the result changed the argument of %s(%v): %v -> %v", k.Call.Op, k.Call.A, snaps[i], k.Q.Data())
			}
		}
	})
	return msg
}

const latTol = 1e-6 // lattice units

// Project decodes Data() with the independent oracle and maps it back onto the lattice: the stream format of
// Builder.tla. offgrid != "" when a value that must be a lattice value is not (within latTol).
func Project(d []float64, e latgeo.Emb) (stream [][]int, offgrid string, err error) {
	segs, err := oracle.Decode(d)
	if err != nil {
		return nil, "", err
	}
	m := simOf(e)
	det := e.Det()
	inv := func(p oracle.Pt) (float64, float64) {
		x, y := p.X-e.E, p.Y-e.F
		return (e.D*x - e.B*y) / det, (-e.C*x + e.A*y) / det
	}
	bad := ""
	rnd := func(v float64, what string, i int) int {
		r := math.Round(v)
		if math.Abs(v-r) > latTol || math.IsNaN(v) || math.Abs(r) > 1e9 {
			if bad == "" {
				bad = fmt.Sprintf("command %d: %s = %.12g is not a lattice value", i, what, v)
			}
			if math.IsNaN(v) || math.Abs(r) > 1e9 {
				return 999999
			}
		}
		return int(r)
	}
	pt := func(p oracle.Pt, what string, i int) (int, int) {
		x, y := inv(p)
		return rnd(x, what+".x", i), rnd(y, what+".y", i)
	}
	stream = make([][]int, 0, len(segs))
	for i, s := range segs {
		x, y := pt(s.End, "end", i)
		switch s.Cmd {
		case oracle.CmdMove:
			stream = append(stream, []int{1, x, y})
		case oracle.CmdLine:
			stream = append(stream, []int{2, x, y})
		case oracle.CmdClose:
			stream = append(stream, []int{32, x, y})
		case oracle.CmdQuad:
			cx, cy := pt(s.C1, "cp", i)
			stream = append(stream, []int{4, cx, cy, x, y})
		case oracle.CmdCube:
			ax, ay := pt(s.C1, "cp1", i)
			bx, by := pt(s.C2, "cp2", i)
			stream = append(stream, []int{8, ax, ay, bx, by, x, y})
		case oracle.CmdArc:
			raw := d[s.Index : s.Index+8]
			rx := rnd(s.Rx/m.s, "rx", i)
			ry := rnd(s.Ry/m.s, "ry", i)
			// rotation of the major axis back in lattice space, milli-degrees, modulo 180 degrees
			phiDeg := s.Phi * 180 / math.Pi
			lat := phiDeg - m.alpha
			if m.flip {
				lat = m.alpha - phiDeg
			}
			latm := math.Mod(lat*1000, 180000)
			if latm < 0 {
				latm += 180000
			}
			rot := 0
			if math.Abs(s.Rx-s.Ry) > 1e-9*math.Abs(s.Rx) { // the rotation of a circle is immaterial
				rot = rnd(latm, "rot(mdeg)", i) % 180000
			}
			flRaw := -1
			if f := raw[4]; f == 0 || f == 1 || f == 2 || f == 3 {
				flRaw = int(f)
			}
			fl := 0
			if s.Large {
				fl++
			}
			if s.Sweep != m.flip {
				fl += 2
			}
			rotRaw := int(math.Floor(phiDeg * 1000))
			if math.IsNaN(phiDeg) {
				rotRaw = -1
			}
			rge, rypos := 0, 0
			if s.Rx >= s.Ry {
				rge = 1
			}
			if s.Ry > 0 {
				rypos = 1
			}
			stream = append(stream, []int{16, rx, ry, rot, fl, x, y, rotRaw, flRaw, rge, rypos})
		}
	}
	return stream, bad, nil
}

func mustJSON(v any) []byte { b, _ := json.Marshal(v); return b }
