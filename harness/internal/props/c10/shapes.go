package c10

import (
	"encoding/json"
	"fmt"
	"strings"

	"github.com/tdewolff/canvas"

	"verif/harness/internal/core"
	"verif/harness/internal/latgeo"
	"verif/harness/internal/tlc"
)

// Shape embeddings: a shape sits at the origin, so only the unit of length varies. "quant" shapes have irrational
// vertices: their stream is quantised to 1e-4 units (only well-formedness and totality are claimed for them).
var shapeUnits = []latgeo.Emb{
	{Name: "unit1/2", A: 0.5, D: 0.5},
	{Name: "unit50", A: 50, D: 50},
	{Name: "unit1e-3", A: 1e-3, D: 1e-3},
}

const quantUnit = 1e-4

func shapeUnit(name string) (latgeo.Emb, bool) {
	for _, e := range shapeUnits {
		if e.Name == name {
			return e, true
		}
	}
	return latgeo.Emb{}, false
}

func quantShape(op string) bool {
	switch op {
	case "Shape:Triangle", "Shape:RegularPolygon", "Shape:RegularStarPolygon", "Shape:StarPolygon":
		return true
	}
	return false
}

// buildShape calls the constructor; u = unit of length.
func buildShape(c Call, u float64) (*canvas.Path, error) {
	a := c.A
	f := func(i int) float64 { return float64(a[i]) * u }
	need := func(n int) error {
		if len(a) != n {
			return fmt.Errorf("%s: %d arguments, want %d", c.Op, len(a), n)
		}
		return nil
	}
	switch strings.TrimPrefix(c.Op, "Shape:") {
	case "Line":
		if err := need(2); err != nil {
			return nil, err
		}
		return canvas.Line(f(0), f(1)), nil
	case "Rectangle":
		if err := need(2); err != nil {
			return nil, err
		}
		return canvas.Rectangle(f(0), f(1)), nil
	case "BeveledRectangle":
		if err := need(3); err != nil {
			return nil, err
		}
		return canvas.BeveledRectangle(f(0), f(1), f(2)), nil
	case "RoundedRectangle":
		if err := need(3); err != nil {
			return nil, err
		}
		return canvas.RoundedRectangle(f(0), f(1), f(2)), nil
	case "Circle":
		if err := need(1); err != nil {
			return nil, err
		}
		return canvas.Circle(f(0)), nil
	case "Ellipse":
		if err := need(2); err != nil {
			return nil, err
		}
		return canvas.Ellipse(f(0), f(1)), nil
	case "Grid":
		if err := need(5); err != nil {
			return nil, err
		}
		return canvas.Grid(f(0), f(1), a[2], a[3], f(4)), nil
	case "Arc":
		if err := need(3); err != nil {
			return nil, err
		}
		return canvas.Arc(f(0), float64(a[1]), float64(a[2])), nil
	case "EllipticalArc":
		if err := need(5); err != nil {
			return nil, err
		}
		return canvas.EllipticalArc(f(0), f(1), float64(a[2]), float64(a[3]), float64(a[4])), nil
	case "Triangle":
		if err := need(1); err != nil {
			return nil, err
		}
		return canvas.Triangle(f(0)), nil
	case "RegularPolygon":
		if err := need(3); err != nil {
			return nil, err
		}
		return canvas.RegularPolygon(a[0], f(1), a[2] == 1), nil
	case "RegularStarPolygon":
		if err := need(4); err != nil {
			return nil, err
		}
		return canvas.RegularStarPolygon(a[0], a[1], f(2), a[3] == 1), nil
	case "StarPolygon":
		if err := need(4); err != nil {
			return nil, err
		}
		return canvas.StarPolygon(a[0], f(1), f(2), a[3] == 1), nil
	}
	return nil, fmt.Errorf("unknown shape %q", c.Op)
}

// shapeStream builds the shape and projects its data. Arc shapes with a rotation that is no multiple of 45 degrees and
// the polygon family are quantised instead of being required on the lattice.
func shapeStream(s *Scenario) (stream [][]int, off string, data []float64, ms []core.Mismatch) {
	e, ok := shapeUnit(s.Emb)
	if !ok || len(s.Hist) != 1 {
		return nil, "", nil, []core.Mismatch{{Signature: "machinery", Detail: "bad shape scenario"}}
	}
	okb, msg := latgeo.Try(func() {
		p, err := buildShape(s.Hist[0], e.A)
		if err != nil {
			ms = append(ms, core.Mismatch{Signature: "machinery", Detail: err.Error()})
			return
		}
		data = cloneF(p.Data())
	})
	if !okb {
		return nil, "", nil, []core.Mismatch{{Signature: "panic-" + s.Hist[0].Op + ":" + latgeo.PanicClass(msg), Detail: fmt.Sprintf("%s panics: %v", histString(s.Hist), msg)}}
	}
	if len(ms) > 0 {
		return nil, "", nil, ms
	}
	quant := quantShape(s.Hist[0].Op) || s.Hist[0].Op == "Shape:EllipticalArc" || s.Hist[0].Op == "Shape:Arc"
	pe := e
	if quant {
		pe = latgeo.Emb{Name: "quant", A: quantUnit * e.A, D: quantUnit * e.A}
	}
	stream, off, err := Project(data, pe)
	if err != nil {
		return nil, "", data, []core.Mismatch{{Signature: "not-decodable", Detail: fmt.Sprintf("%s: Data() = %v: %v", histString(s.Hist), data, err)}}
	}
	if quant {
		off = ""
	}
	return stream, off, data, ms
}

// shapes enumerates the shape alphabet of the spec and replays it under every unit.
func (r *run) shapes() {
	res := r.c.TLC(tlc.Opts{Module: "Builder", Config: genCfg(1, 1, "shapes", false)}, true)
	for _, p := range res.Lines {
		var l Line
		if err := json.Unmarshal(p, &l); err != nil || len(l.Hist) != 1 {
			r.c.Broken("bad shape line: " + string(p))
			continue
		}
		r.nHist++
		r.nontrivial++ // every shape call is a distinct constructor/argument combination
		for _, u := range shapeUnits {
			s := Scenario{Kind: "shape", Hist: l.Hist, Emb: u.Name, F: l.F}
			stream, off, data, ms := shapeStream(&s)
			r.nExec++
			if stream != nil {
				ms = append(ms, Derive(data, u, s.F, r.newPath, r.note)...)
				r.nDerived++
				id := len(r.events) + 1
				r.events = append(r.events, Event{ID: id, Hist: l.Hist, Sm: stream, Off: b2i(off != "")})
				r.evScen = append(r.evScen, s)
				if off != "" {
					r.offDetail[id] = off
				}
			}
			r.report(s, ms)
		}
		if r.nHist%40 == 0 {
			r.c.Sample(json.RawMessage(p))
		}
	}
}
