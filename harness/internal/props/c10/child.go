package c10

import (
	"encoding/json"
	"io"
	"log"
	"os"
	"os/exec"
	"runtime"
	"sync/atomic"
	"time"

	"verif/harness/internal/latgeo"
)

// Some non-terminations of the library allocate without bound (Dash on a sub-path whose Length is +Inf appends to
// a slice in an endless loop): a goroutine watchdog cannot stop them before the process is out of memory. Such
// calls are executed in a child process (this binary, selected by an environment variable) that kills itself
// when it exceeds a time or heap budget; the parent observes the exit status.
const childEnv = "VERIF_C10_CHILD"

type childSpec struct {
	Op   int        `json:"op"`
	Emb  latgeo.Emb `json:"emb"`
	Data []float64  `json:"data"`
}

func init() {
	spec := os.Getenv(childEnv)
	if spec == "" {
		return
	}
	log.SetOutput(io.Discard)
	var cs childSpec
	if err := json.Unmarshal([]byte(spec), &cs); err != nil || cs.Op < 0 || cs.Op >= len(dops) {
		os.Exit(9)
	}
	start := time.Now()
	go func() {
		for {
			time.Sleep(10 * time.Millisecond)
			var m runtime.MemStats
			runtime.ReadMemStats(&m)
			if time.Since(start) > 4*time.Second || m.HeapAlloc > 1<<30 {
				os.Exit(3) // does not terminate / allocates without bound
			}
		}
	}()
	o := runOp(&dops[cs.Op], cs.Data, cs.Emb)
	if o.kind == "panic" {
		os.Exit(4)
	}
	os.Exit(0)
}

var childRuns int64

const maxChildRuns = 40

// runInChild executes derived operation i in a child process. ok=false when the budget of child runs is used up.
func runInChild(i int, data []float64, e latgeo.Emb) (o opOutcome, ok bool) {
	o.op = &dops[i]
	if atomic.AddInt64(&childRuns, 1) > maxChildRuns {
		return o, false
	}
	exe, err := os.Executable()
	if err != nil {
		return o, false
	}
	cmd := exec.Command(exe)
	cmd.Env = append(os.Environ(), childEnv+"="+string(mustJSON(childSpec{Op: i, Emb: e, Data: data})))
	err = cmd.Run()
	if err == nil {
		return o, true
	}
	if ee, isExit := err.(*exec.ExitError); isExit {
		switch ee.ExitCode() {
		case 3:
			o.kind, o.msg = "timeout", "child process exceeded 4 s or 1 GiB of heap"
			return o, true
		case 4:
			o.kind, o.msg = "panic", "panic in child process"
			return o, true
		}
	}
	return o, false
}
