// Package c06: Windings / Crossings / Contains / CCW / Filling agree with the winding number (spec/Query.tla).
//
// spec -> code: TLC prints lattice curve paths (polygons, arcs of integer ellipses, quadratic and cubic
// Béziers, 1-2 contours) together with, for every point of the 2x-refined lattice around the path, the exact
// winding number, the boundary flag, the number of ray crossings (where the statement defines it) and the ray
// feature bits. The driver builds each path through the public builder under several embeddings and calls the
// five query functions of the real library for every query point.
package c06

import (
	"encoding/json"
	"fmt"
	"math"
	"sort"
	"strings"
	"sync"
	"sync/atomic"
	"time"

	"github.com/tdewolff/canvas"

	"verif/harness/internal/core"
	"verif/harness/internal/latcurve"
	"verif/harness/internal/latgeo"
	"verif/harness/internal/tlc"
)

type Driver struct{}

func (Driver) ID() string { return "C06" }

// Line is one line printed by Query.tla.
type Line struct {
	Hdr  bool          `json:"hdr,omitempty"`
	SC   int           `json:"SC,omitempty"`
	N    int           `json:"N,omitempty"`
	Q    [][2]int      `json:"q,omitempty"`
	Path latcurve.Path `json:"path,omitempty"`
	Rows [][6]int      `json:"rows,omitempty"` // w, b, x, f, wd, g per query point
	Ccw  int           `json:"ccw"`
	Fill [][]int       `json:"fill,omitempty"`
	Fw   [][3]int      `json:"fw,omitempty"` // per contour: interior winding w, part wt due to contours touched by the start point, demanded
	Open bool          `json:"open,omitempty"`
	Sf   []int         `json:"sf,omitempty"` // per contour: features of the ray from its start w.r.t. the other contours
	Cf   []int         `json:"cf,omitempty"` // per contour: 1 open, 2 start is the bottom-right-most vertex
}

// QExp is one query point (scaled by SC) with the specification's expectation.
type QExp struct {
	Q  [2]int `json:"q"`
	W  int    `json:"w"`
	B  int    `json:"b"`  // 0 off the boundary, 1 on it, 2 undecided
	X  int    `json:"x"`  // crossings; -1 unconstrained; -2 parity and lower bound only
	F  int    `json:"f"`  // ray feature bits
	Wd int    `json:"wd"` // winding number over the drawn segments only (open contours not closed)
	G  int    `json:"g"`  // feature bits 1, 2, 64 for the ray direction (4,-3)
}

// Scenario is the replay unit: one path, one embedding, a list of query points and/or the path-level checks.
type Scenario struct {
	SC      int           `json:"SC"`
	Path    latcurve.Path `json:"path"`
	Emb     latgeo.Emb    `json:"emb"`
	Queries []QExp        `json:"queries"`
	Ccw     int           `json:"ccw"`            // +1 / -1 orientation of the first contour, 0 = not demanded
	Fill    [][]int       `json:"fill,omitempty"` // per contour, per rule: 0 / 1 / 2 = not demanded
	Fw      [][3]int      `json:"fw,omitempty"`
	Open    bool          `json:"open"`
	Sf      []int         `json:"sf,omitempty"`
	Cf      []int         `json:"cf,omitempty"`
	Filling bool          `json:"filling,omitempty"` // call Filling (always for panics; values only where Fill demands)
}

const (
	fVertex      = 1
	fHEdge       = 2
	fTanVert     = 4
	fTanCurve    = 8
	fBehind      = 16
	fOpenEnd     = 32
	fZeroTan     = 64
	fOnZeroTan   = 128
	fOnCubEnd    = 256
	fOnQuad      = 512
	fCubEndAhead = 1024
	fCubInfl     = 2048
	fOnOther     = 512 // Filling (sf only): the start point lies on another contour
)

// embeddings. exact: lattice coincidences (and points on the boundary) stay exact in float64 and the ray keeps its
// direction, so boundary expectations and ray features apply. level: only "level with" coincidences stay exact.
type embInfo struct {
	e     latgeo.Emb
	exact bool // boundary points are checked
	ray   bool // the ray features computed by the spec apply (ray direction +x preserved)
}

var embs = []embInfo{
	{latgeo.Identity, true, true},
	{latgeo.Emb{Name: "flipy", A: 1, B: 0, C: 0, D: -1, E: 0, F: 0}, true, true},
	{latgeo.Translate, true, true},
	{latgeo.Emb{Name: "half", A: 0.5, B: 0, C: 0, D: 0.5, E: 0, F: 0}, true, true},
	{latgeo.Tiny, false, true},
	{latgeo.Pyth, false, false},
	{latgeo.Rot17, false, false},
}

func embByName(n string) (embInfo, bool) {
	for _, e := range embs {
		if e.e.Name == n {
			return e, true
		}
	}
	return embInfo{}, false
}

// rayClass names the degenerate position of the ray (exact predicates of the spec), most specific first.
func rayClass(f int) string {
	switch {
	case f&fOpenEnd != 0:
		return "open-end"
	case f&fZeroTan != 0:
		return "cubic-zero-tangent"
	case f&fCubEndAhead != 0:
		return "cubic-end-vertex"
	case f&fCubInfl != 0:
		return "cubic-inflection" // the dropped inflection crossing is the more specific cause also when the ray passes a vertex elsewhere
	case f&fHEdge != 0:
		return "hedge"
	case f&fTanVert != 0:
		return "tangent-vertex"
	case f&fVertex != 0:
		return "vertex"
	case f&fTanCurve != 0:
		return "curve-tangent"
	}
	return "general"
}

func fills(rule, w int) bool {
	switch rule {
	case 0:
		return w != 0
	case 1:
		return w%2 != 0
	case 2:
		return w > 0
	}
	return w < 0
}

// tag is the scenario-feature part of a signature: the exact ray class computed by the spec (for the embedding's
// ray direction); for points ON the boundary "on-boundary" / "on-cubic" plus whether the ray from there is
// degenerate. Segment kinds and the embedding's name go into the detail text only.
func (s *Scenario) tag(q *QExp, ei embInfo) string {
	var t string
	switch {
	case ei.ray:
		t = rayClass(q.F)
	case ei.e.Name == latgeo.Pyth.Name:
		t = rayClass(q.G) // features of the lattice direction (4,-3), which this embedding maps to +x
	default:
		t = "general" // irrational direction: the ray meets no second lattice point
	}
	if q.B == 1 {
		on := "on-boundary"
		if q.F&(fOnZeroTan|fOnCubEnd) != 0 {
			on = "on-cubic"
		} else if q.F&fOnQuad != 0 {
			on = "on-quad"
		}
		if t != "general" {
			t = "degenerate-ray"
		}
		t = on + "(" + t + ")"
	}
	// a degenerate ray under an embedding that does not keep lattice coincidences exact (scale 1e-3, rotations) is
	// only nearly degenerate in float64: its own class, so that a miscount on an exactly degenerate ray is reported
	if !ei.exact && q.B != 1 && t != "general" {
		t += "~float"
	}
	return t
}

// smallEllipse: a non-circular arc embedded at scale 1e-3 (radii of a few micrometres): the library's absolute
// Epsilon is applied to products of squared radii there; every deviation of such a scenario gets one signature.
func (s *Scenario) smallEllipse(ei embInfo) bool {
	return ei.e.Name == latgeo.Tiny.Name && strings.Contains(s.Path.Kinds(), "E")
}

// rightmostBit selects the cf bit "start is the bottom-right-most vertex" in the embedded orientation.
func (s *Scenario) rightmostBit() int {
	if s.Emb.D < 0 {
		return 4
	}
	return 2
}

func panicDev(p any) string {
	if strings.Contains(fmt.Sprint(p), "index out of range") {
		return "panic-index"
	}
	return "panic(" + latgeo.PanicClass(p) + ")"
}

func (s *Scenario) isVertex(q [2]int) bool {
	for _, c := range s.Path {
		if c.S[0]*s.SC == q[0] && c.S[1]*s.SC == q[1] {
			return true
		}
		for _, g := range c.Segs {
			if g.P[0]*s.SC == q[0] && g.P[1]*s.SC == q[1] {
				return true
			}
		}
	}
	return false
}

type qres struct {
	n     int
	b     bool
	panic any
}

func call(f func() (int, bool)) (r qres) {
	defer func() {
		if p := recover(); p != nil {
			r.panic = p
		}
	}()
	r.n, r.b = f()
	return
}

// exec runs every check of the scenario and returns one mismatch per distinct signature (first witness + count).
// For each mismatch, red holds a reduced scenario (the single witness query) for the replay file.
func exec(s *Scenario) (ms []core.Mismatch, red []*Scenario, skipped bool) {
	ei, ok := embByName(s.Emb.Name)
	if !ok {
		return []core.Mismatch{{Signature: "machinery", Detail: "unknown embedding " + s.Emb.Name}}, []*Scenario{s}, false
	}
	p := latcurve.Build(s.Path, s.Emb, 1)
	if ok, _ := latcurve.Faithful(s.Path, p, s.Emb, 1); !ok {
		return nil, nil, true // the builder normalised the input into a different trace: subject of C10
	}
	sgn := 1
	if s.Emb.Det() < 0 {
		sgn = -1
	}
	seen := map[string]int{}
	small := s.smallEllipse(ei)
	smallArc := ei.e.Name == latgeo.Tiny.Name && strings.ContainsAny(s.Path.Kinds(), "AE")
	add := func(sig, detail string, r *Scenario) {
		api := sig[:strings.Index(sig, ":")]
		if small && (api == "windings" || api == "crossings" || api == "contains") {
			sig = api + ":unreliable+small-ellipse"
		} else if smallArc && (api == "ccw" || api == "filling") {
			sig = api + ":unreliable+small-arc" // CCW (and Filling through it) compares angles/curvatures of arcs of 1-2 micrometres with the absolute Epsilon
		}
		if _, dup := seen[sig]; dup {
			return
		}
		seen[sig] = len(ms)
		ms = append(ms, core.Mismatch{Signature: sig, Detail: detail})
		red = append(red, r)
	}
	where := func(q *QExp) string {
		x, y := s.Emb.Map(float64(q.Q[0])/float64(s.SC), float64(q.Q[1])/float64(s.SC))
		return fmt.Sprintf("path %s (kinds %s) emb=%s point (%g,%g) [lattice %g,%g] features=%d/%d", s.Path.SVG(), s.Path.Kinds(), s.Emb.Name, x, y, float64(q.Q[0])/float64(s.SC), float64(q.Q[1])/float64(s.SC), q.F, q.G)
	}
	for i := range s.Queries {
		q := &s.Queries[i]
		if q.B == 2 || (q.B == 1 && !ei.exact) {
			continue
		}
		one := func() *Scenario {
			return &Scenario{SC: s.SC, Path: s.Path, Emb: s.Emb, Queries: []QExp{*q}, Open: s.Open}
		}
		x, y := s.Emb.Map(float64(q.Q[0])/float64(s.SC), float64(q.Q[1])/float64(s.SC))
		tag := s.tag(q, ei)
		w := q.W * sgn
		// Windings
		rw := call(func() (int, bool) { return p.Windings(x, y) })
		wOK := false
		switch {
		case rw.panic != nil:
			add("windings:"+panicDev(rw.panic)+"+"+tag, fmt.Sprintf("Windings panics: %v; %s", rw.panic, where(q)), one())
		case q.B == 1 && !rw.b:
			add("windings:boundary-missed+"+tag, fmt.Sprintf("point ON the boundary, Windings = (%d, boundary=false); %s", rw.n, where(q)), one())
		case q.B == 0 && rw.b:
			add("windings:boundary-false+"+tag, fmt.Sprintf("point off the boundary (winding %d), Windings reports boundary; %s", w, where(q)), one())
		case q.B == 0 && rw.n != w:
			dev := "miscount"
			if d := rw.n - w; strings.HasPrefix(tag, "cubic-inflection") && (d == 1 || d == -1) {
				dev = "crossing-dropped" // exactly one crossing is missing (an inverted crossing direction would be off by two)
			}
			if s.Open && rw.n == q.Wd*sgn {
				dev = "as-if-not-closed" // exactly the winding of the drawn segments: the open contour was not closed
			}
			if dev == "as-if-not-closed" {
				add("windings:as-if-not-closed+open", fmt.Sprintf("Windings = %d = winding over the drawn segments only, winding number of the implicitly closed path is %d; %s", rw.n, w, where(q)), one())
			} else {
				add("windings:"+dev+"+"+tag, fmt.Sprintf("Windings = %d, winding number is %d; %s", rw.n, w, where(q)), one())
			}
		default:
			wOK = true
		}
		// Crossings
		rc := call(func() (int, bool) { return p.Crossings(x, y) })
		switch {
		case rc.panic != nil:
			add("crossings:"+panicDev(rc.panic)+"+"+tag, fmt.Sprintf("Crossings panics: %v; %s", rc.panic, where(q)), one())
		case q.B == 1 && !rc.b:
			add("crossings:boundary-missed+"+tag, fmt.Sprintf("point ON the boundary, Crossings = (%d, boundary=false); %s", rc.n, where(q)), one())
		case q.B == 0 && rc.b:
			add("crossings:boundary-false+"+tag, fmt.Sprintf("point off the boundary, Crossings reports boundary; %s", where(q)), one())
		case q.B == 0 && ei.ray && q.X >= 0 && rc.n != q.X:
			add("crossings:wrong+"+tag, fmt.Sprintf("Crossings = %d, the ray crosses the path %d times; %s", rc.n, q.X, where(q)), one())
		case q.B == 0 && ei.ray && q.X == -2 && ((rc.n-q.W)%2 != 0 || rc.n < abs(q.W)):
			add("crossings:parity+"+tag, fmt.Sprintf("Crossings = %d but the winding number is %d (same parity and crossings >= |winding| required for a ray in general position); %s", rc.n, q.W, where(q)), one())
		}
		// Contains (only where Windings itself agreed, otherwise the cause is already reported)
		if q.B == 0 && wOK {
			for rule := 0; rule < 4; rule++ {
				var got bool
				okc, pm := latgeo.Try(func() { got = p.Contains(x, y, canvas.FillRule(rule)) })
				if !okc {
					add("contains:"+panicDev(pm)+"+"+tag, fmt.Sprintf("Contains(rule %d) panics: %v; %s", rule, pm, where(q)), one())
				} else if got != fills(rule, w) {
					add("contains:wrong+"+tag, fmt.Sprintf("Contains(%v) = %v, winding number is %d; %s", canvas.FillRule(rule), got, w, where(q)), one())
				}
			}
		}
	}
	ptag := ""
	if len(s.Path) > 1 {
		ptag = "+multi"
	}
	desc := fmt.Sprintf("path %s (kinds %s) emb=%s", s.Path.SVG(), s.Path.Kinds(), s.Emb.Name)
	// CCW: orientation of the first contour when it is simple
	if s.Ccw != 0 {
		var got bool
		okc, pm := latgeo.Try(func() { got = p.CCW() })
		r := &Scenario{SC: s.SC, Path: s.Path, Emb: s.Emb, Ccw: s.Ccw, Open: s.Open, Cf: s.Cf}
		ctag := ptag
		if len(s.Cf) > 0 && s.Cf[0]&1 != 0 && s.Cf[0]&s.rightmostBit() != 0 {
			ctag = "+open-start-rightmost" + ptag
		}
		if !okc {
			add("ccw:"+panicDev(pm)+ctag, fmt.Sprintf("CCW panics: %v; %s", pm, desc), r)
		} else if got != (s.Ccw*sgn > 0) {
			add("ccw:wrong"+ctag, fmt.Sprintf("CCW = %v for a simple first contour of orientation %+d; %s", got, s.Ccw*sgn, desc), r)
		}
	}
	// Filling: always called (it casts rays from the start points of the contours); values compared where demanded
	if s.Filling && ei.ray {
		r := &Scenario{SC: s.SC, Path: s.Path, Emb: s.Emb, Fill: s.Fill, Fw: s.Fw, Open: s.Open, Sf: s.Sf, Cf: s.Cf, Filling: true}
		sf := 0
		for _, f := range s.Sf {
			sf |= f
		}
		ftag := "+start-ray-" + rayClass(sf)
		if sf&fOnOther != 0 {
			ftag = "+start-on-other-contour"
		}
		if len(s.Path) > 1 {
			ftag += "+multi"
		}
		wtag := ftag
		for _, f := range s.Cf {
			if f&1 != 0 && f&s.rightmostBit() != 0 {
				wtag = "+open-start-rightmost" // Filling takes the orientation of each sub-path from CCW
			}
		}
		for rule := 0; rule < 4; rule++ {
			// under a reflection Positive and Negative swap
			rr := rule
			if sgn < 0 && rule >= 2 {
				rr = 5 - rule
			}
			var got []bool
			okc, pm := latgeo.Try(func() { got = p.Filling(canvas.FillRule(rr)) })
			if !okc {
				add("filling:"+panicDev(pm)+ftag, fmt.Sprintf("Filling(%v) panics: %v; %s", canvas.FillRule(rr), pm, desc), r)
				continue
			}
			if len(got) != len(s.Path) {
				add("filling:length"+ftag, fmt.Sprintf("Filling returns %d values for %d sub-paths; %s", len(got), len(s.Path), desc), r)
				continue
			}
			for j, f := range s.Fill {
				if f[rule] != 2 && got[j] != (f[rule] == 1) {
					// Deviation pattern of the known finding: the start point of sub-path j lies ON another contour, whose
					// winding around j's interior (wt != 0) is left out ("on the boundary, check if around the interior or
					// exterior" is a TODO in Filling); everything else is plainly wrong.
					if j < len(s.Fw) && s.Fw[j][1] != 0 && got[j] == fills(rule, s.Fw[j][0]-s.Fw[j][1]) {
						add("filling:touched-contour-ignored+start-on-other-contour", fmt.Sprintf("Filling(%v)[%d] = %v, expected %v (interior winding %d, of which %d from the contour(s) on whose boundary the sub-path starts); %s", canvas.FillRule(rr), j, got[j], f[rule] == 1, s.Fw[j][0], s.Fw[j][1], desc), r)
					} else {
						add("filling:wrong"+wtag, fmt.Sprintf("Filling(%v)[%d] = %v, expected %v; %s", canvas.FillRule(rr), j, got[j], f[rule] == 1, desc), r)
					}
				}
			}
		}
	}
	return
}

func abs(x int) int {
	if x < 0 {
		return -x
	}
	return x
}

func (Driver) Replay(c *core.Ctx, raw json.RawMessage) []core.Mismatch {
	var s Scenario
	if err := json.Unmarshal(raw, &s); err != nil {
		return []core.Mismatch{{Signature: "machinery", Detail: err.Error()}}
	}
	var ms []core.Mismatch
	kind, msg := latgeo.Guard(60*time.Second, func() { ms, _, _ = exec(&s) })
	if kind != "" {
		return []core.Mismatch{{Signature: kind + "-query", Detail: fmt.Sprint(msg)}}
	}
	return ms
}

func cfg(n, k, nc int, mode string, kinds string, num int, mc bool) string {
	s := fmt.Sprintf("SPECIFICATION Spec\nCONSTANTS N = %d\n K = %d\n NC = %d\n Mode = \"%s\"\n Kinds = %s\n Num = %d\nCHECK_DEADLOCK FALSE\n", n, k, nc, mode, kinds, num)
	if mc {
		s += "INVARIANTS WindingTwoWays ParityOK FarZero SimpleWinding\n"
	}
	return s
}

func hash(s string) uint32 {
	h := uint32(2166136261)
	for i := 0; i < len(s); i++ {
		h = (h ^ uint32(s[i])) * 16777619
	}
	return h >> 1
}

type runner struct {
	c        *core.Ctx
	paths    int64
	queries  int64
	nontriv  int64
	skipped  int64
	seen     sync.Map
	featMu   sync.Mutex
	featCnt  map[string]int64
	sampled  int32
	embCount int
}

func (r *runner) runGen(o tlc.Opts) {
	c := r.c
	var hdr Line
	var hdrMu sync.Mutex
	ch := make(chan []byte, 1024)
	o.OnLine = func(p []byte) {
		hdrMu.Lock()
		if !strings.HasPrefix(string(p), `{"path"`) {
			var l Line
			if json.Unmarshal(p, &l) == nil && l.Hdr {
				hdr = l
				hdrMu.Unlock()
				return
			}
		}
		hdrMu.Unlock()
		ch <- append([]byte(nil), p...)
	}
	done := make(chan struct{})
	go func() {
		core.Parallel(4, ch, func(p []byte) {
			var l Line
			if err := json.Unmarshal(p, &l); err != nil {
				c.Broken("bad scenario line: " + err.Error())
				return
			}
			if len(l.Rows) != len(hdr.Q) {
				c.Broken(fmt.Sprintf("scenario with %d rows, header has %d query points", len(l.Rows), len(hdr.Q)))
				return
			}
			k := atomic.AddInt64(&r.paths, 1)
			qs := make([]QExp, len(l.Rows))
			inside, outside := false, false
			feat := map[string]int64{}
			for i, row := range l.Rows {
				qs[i] = QExp{Q: hdr.Q[i], W: row[0], B: row[1], X: row[2], F: row[3], Wd: row[4], G: row[5]}
				if row[1] == 0 {
					if row[0] != 0 {
						inside = true
					} else {
						outside = true
					}
					feat[rayClass(row[3])]++
				} else if row[1] == 1 {
					feat["on-boundary"]++
				} else {
					feat["undecided"]++
				}
			}
			key := l.Path.SVG()
			if inside && outside {
				if _, dup := r.seen.LoadOrStore(key, true); !dup {
					atomic.AddInt64(&r.nontriv, 1)
				}
			}
			r.featMu.Lock()
			for f, n := range feat {
				r.featCnt[f] += n
			}
			if l.Ccw != 0 {
				r.featCnt["ccw-demanded"]++
			}
			if len(l.Fill) > 0 && l.Fill[0][0] != 2 {
				r.featCnt["filling-demanded"]++
			}
			r.featMu.Unlock()
			h := int(hash(key))
			es := []embInfo{embs[0], embs[1+h%(len(embs)-1)]}
			if c.Thorough() {
				es = append(es, embs[1+(h/7+2)%(len(embs)-1)])
			}
			for _, ei := range es {
				if !latcurve.IsSimilarity(ei.e) || (l.Open && !ei.ray) {
					continue // the winding over the drawn segments of an open contour depends on the ray direction
				}
				s := &Scenario{SC: hdr.SC, Path: l.Path, Emb: ei.e, Queries: qs, Ccw: l.Ccw, Fill: l.Fill, Fw: l.Fw, Open: l.Open, Sf: l.Sf, Cf: l.Cf, Filling: true}
				ms, red, skipped := exec(s)
				if skipped {
					atomic.AddInt64(&r.skipped, 1)
					continue
				}
				atomic.AddInt64(&r.queries, int64(len(qs)))
				c.Count(int64(len(qs))*6+5, 0, 1)
				for i := range ms {
					c.Report(red[i], ms[i:i+1])
				}
			}
			if k%400 == 3 && atomic.AddInt32(&r.sampled, 1) <= 6 {
				c.Sample(map[string]any{"path": key, "query_points": len(qs), "first_rows_w_b_x_f": l.Rows[:min(len(l.Rows), 12)], "ccw": l.Ccw, "fill": l.Fill})
			}
		})
		close(done)
	}()
	c.TLC(o, true)
	close(ch)
	<-done
}

func (d Driver) Run(c *core.Ctx) error {
	c.Rule = "scenario = lattice curve path (polygon with 3-5 vertices incl. all degenerate placements; or contours of lines, arcs of integer circles/ellipses (also rotated by atan(3/4)), quadratic and cubic Béziers; 1-2 contours, closed or open) printed by spec/Query.tla with the exact winding number / boundary flag / crossing count / ray features of EVERY point of the 2x-refined lattice in a box around it, executed under 2-3 embeddings; evaluations = calls of Windings, Crossings, Contains (4 rules), CCW, Filling on the real library; non-trivial = distinct paths that have both a query point with non-zero winding and one with zero winding off the boundary"
	c.Assumptions = []string{
		"paths are built through the public builder (MoveTo/LineTo/QuadTo/CubeTo/ArcTo/Close); scenarios whose trace the builder changes (merged reversal, dropped degenerate contour: C10) are skipped and counted in builder_normalised",
		"expected values are exact integer computations of the TLA+ spec; points inside a cubic's depth-2 sub-hulls and on the implicit closing edge of an open contour are undecided and not compared",
		"Crossings is constrained only for rays in general position (no vertex, no horizontal edge, no tangency on the ray); Contains is not constrained on the boundary; CCW only for simple contours; Filling only for simple pairwise disjoint contours",
		"boundary points are compared only under embeddings that keep lattice coincidences exact in float64 (identity, y-flip, dyadic translation, scale 1/2)",
	}
	r := &runner{c: c, featCnt: map[string]int64{}}

	// 1. model level: two independent exact winding computations agree, parity of crossings, far field, simple
	// contours (run concurrently with the generation jobs below)
	var jobs []tlc.Opts
	mc1 := tlc.Opts{Module: "Query", Config: cfg(3, 4, 1, "polyrand", `{"L"}`, c.Pick(60, 200), true), Seed: c.Seed, Workers: 4, HeapGB: 3, Timeout: 30 * time.Minute}
	mc2 := tlc.Opts{Module: "Query", Config: cfg(c.Pick(4, 10), 3, 1, "curves", `{"L","A","Q"}`, c.Pick(30, 40), true), Seed: c.Seed, Timeout: 30 * time.Minute, Workers: 4, HeapGB: 3}

	// 2. spec -> code (the generation runs are independent: three TLC processes at a time)
	all := `{"L","A","Q","C"}`
	gen := func(n, k, nc int, mode, kinds string, num int, seedOff int64) {
		jobs = append(jobs, tlc.Opts{Module: "Query", Config: cfg(n, k, nc, mode, kinds, num, false), Seed: c.Seed + seedOff, Workers: 4, HeapGB: 3, Timeout: 30 * time.Minute})
	}
	if c.Thorough() {
		gen(8, 3, 1, "special", `{"L"}`, 0, 0) // 124 contours: cubics with a horizontal inflection point, cusps at the right-most vertex
		gen(8, 3, 3, "fill3", `{"L"}`, 0, 0)   // 192 three-contour paths: a sub-path starting on a sibling's boundary, enclosing contour in every list position
		gen(2, 4, 1, "polyall", `{"L"}`, 0, 0) // all 6561 contours of <=4 points on 3x3
		gen(4, 5, 1, "polyrand", `{"L"}`, 1200, 0)
		gen(3, 4, 2, "polyrand", `{"L"}`, 400, 1)
		gen(6, 6, 2, "polyrand", `{"L"}`, 150, 2)
		gen(10, 3, 1, "curves", `{"L","A"}`, 600, 3)
		gen(6, 3, 1, "curves", `{"L","Q"}`, 700, 4)
		gen(6, 3, 1, "curves", `{"L","C"}`, 400, 5)
		gen(10, 3, 2, "curves", all, 250, 6)
		gen(20, 3, 1, "curves", `{"L","A"}`, 40, 7)
	} else {
		gen(8, 3, 1, "special", `{"L"}`, 0, 0) // 124 contours: cubics with a horizontal inflection point, cusps at the right-most vertex
		gen(8, 3, 3, "fill3", `{"L"}`, 0, 0)   // 192 three-contour paths: a sub-path starting on a sibling's boundary, enclosing contour in every list position
		gen(2, 3, 1, "polyall", `{"L"}`, 0, 0) // all 729 triangles (incl. degenerate) on 3x3
		gen(2, 4, 1, "polyrand", `{"L"}`, 400, 0)
		gen(4, 5, 2, "polyrand", `{"L"}`, 70, 1)
		gen(10, 3, 1, "curves", `{"L","A"}`, 60, 3)
		gen(6, 3, 1, "curves", `{"L","Q","C"}`, 110, 4)
		gen(10, 3, 2, "curves", all, 30, 6)
	}
	sem := make(chan struct{}, 4)
	var wg sync.WaitGroup
	for _, o := range []tlc.Opts{mc1, mc2} {
		wg.Add(1)
		sem <- struct{}{}
		go func(o tlc.Opts) {
			defer wg.Done()
			c.TLC(o, true)
			<-sem
		}(o)
	}
	for _, j := range jobs {
		wg.Add(1)
		sem <- struct{}{}
		go func(o tlc.Opts) {
			defer wg.Done()
			r.runGen(o)
			<-sem
		}(j)
	}
	wg.Wait()
	c.Count(0, r.nontriv, 0)
	c.SetExtra("paths", r.paths)
	c.SetExtra("query_points_executed", r.queries)
	c.SetExtra("builder_normalised", r.skipped)
	keys := make([]string, 0, len(r.featCnt))
	for k := range r.featCnt {
		keys = append(keys, k)
	}
	sort.Strings(keys)
	fc := map[string]int64{}
	for _, k := range keys {
		fc[k] = r.featCnt[k]
	}
	c.SetExtra("query_points_by_ray_feature", fc)
	if r.paths == 0 {
		c.Broken("no scenarios were generated")
	}
	_ = math.Pi
	return nil
}
