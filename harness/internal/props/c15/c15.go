// Package c15: Context / Canvas machine (spec/Context.tla).
//
// Direction 1 (spec -> code): TLC enumerates call histories with the expected RenderTo event list;
// each is replayed into a real canvas.Context on a real canvas.Canvas and observed through a
// recording renderer.
// Direction 2 (code -> spec): a seeded Go driver executes long random histories, logs every call and
// what RenderTo replays; Trace_Context.tla must accept the trace.
package c15

import (
	"bytes"
	"encoding/json"
	"fmt"
	"image"
	"image/color"
	"math"
	"math/rand"
	"os"
	"reflect"
	"sync"
	"sync/atomic"
	"time"

	"github.com/tdewolff/canvas"

	"verif/harness/internal/core"
	"verif/harness/internal/rec"
	"verif/harness/internal/tlc"
)

type Driver struct{}

func (Driver) ID() string { return "C15" }

type Call struct {
	Op string `json:"op"`
	A  []int  `json:"a"`
}

type AbsStyle struct {
	Fill   string `json:"fill"`
	Stroke string `json:"stroke"`
	Width  int    `json:"width"`
	Cap    int    `json:"cap"`
	Join   int    `json:"join"`
	Dash   int    `json:"dash"`
	Rule   int    `json:"rule"`
}

type AbsEvent struct {
	Kind string   `json:"kind"`
	M    [6]int   `json:"m"`
	St   AbsStyle `json:"st"`
	Step int      `json:"step,omitempty"`
	Z    int      `json:"z,omitempty"`
}

type Scenario struct {
	Hist   []Call     `json:"hist"`
	W0     int        `json:"w0"`
	H0     int        `json:"h0"`
	W      int        `json:"w"`
	H      int        `json:"h"`
	Events []AbsEvent `json:"events"`
}

var (
	fontOnce sync.Once
	face     *canvas.FontFace
	fontErr  error
)

func textObj() (*canvas.Text, error) {
	fontOnce.Do(func() {
		fam := canvas.NewFontFamily("dejavu")
		fontErr = fam.LoadFontFile("/repo/resources/DejaVuSerif.ttf", canvas.FontRegular)
		if fontErr == nil {
			face = fam.Face(12.0, canvas.Black)
		}
	})
	if fontErr != nil {
		return nil, fontErr
	}
	return canvas.NewTextLine(face, "ab", canvas.Left), nil
}

var fills = map[string]color.RGBA{"black": canvas.Black, "red": canvas.Red, "redhalf": {128, 0, 0, 128}}
var strokes = map[string]color.RGBA{"blue": canvas.Blue, "bluehalf": {0, 0, 128, 128}}
var fillNames = []string{"none", "black", "red", "redhalf"}
var strokeNames = []string{"none", "blue", "bluehalf"}
var cappers = []canvas.Capper{canvas.ButtCap, canvas.RoundCap, canvas.SquareCap}
var joiners = []canvas.Joiner{canvas.MiterJoin, canvas.BevelJoin, canvas.RoundJoin}

func mat(a []int) canvas.Matrix {
	return canvas.Matrix{{float64(a[0]), float64(a[1]), float64(a[2])}, {float64(a[3]), float64(a[4]), float64(a[5])}}
}

func hline() *canvas.Path {
	p := &canvas.Path{}
	p.MoveTo(0, 0)
	p.LineTo(6, 0)
	return p
}

func tri() *canvas.Path {
	p := &canvas.Path{}
	p.MoveTo(0, 0)
	p.LineTo(4, 0)
	p.LineTo(4, 3)
	p.Close()
	return p
}

// machine is the real object under test.
type machine struct {
	c    *canvas.Canvas
	ctx  *canvas.Context
	text *canvas.Text
	img  image.Image
}

func newMachine(w, h int) (*machine, error) {
	t, err := textObj()
	if err != nil {
		return nil, err
	}
	c := canvas.New(float64(w), float64(h))
	return &machine{c: c, ctx: canvas.NewContext(c), text: t, img: image.NewRGBA(image.Rect(0, 0, 2, 3))}, nil
}

func (m *machine) apply(cl Call) error {
	a := cl.A
	f := func(i int) float64 { return float64(a[i]) }
	ctx := m.ctx
	switch cl.Op {
	case "Translate":
		ctx.Translate(f(0), f(1))
	case "Rotate":
		ctx.Rotate(90 * f(0))
	case "Scale":
		ctx.Scale(f(0), f(1))
	case "Shear":
		ctx.Shear(f(0), f(1))
	case "ReflectX":
		ctx.ReflectX()
	case "ReflectY":
		ctx.ReflectY()
	case "ResetView":
		ctx.ResetView()
	case "RotateAbout":
		ctx.RotateAbout(90*f(0), f(1), f(2))
	case "ScaleAbout":
		ctx.ScaleAbout(f(0), f(1), f(2), f(3))
	case "ShearAbout":
		ctx.ShearAbout(f(0), f(1), f(2), f(3))
	case "ReflectXAbout":
		ctx.ReflectXAbout(f(0))
	case "ReflectYAbout":
		ctx.ReflectYAbout(f(0))
	case "SetView":
		ctx.SetView(mat(a))
	case "ComposeView":
		ctx.ComposeView(mat(a))
	case "SetFill":
		name := fillNames[a[0]]
		if name == "none" {
			ctx.SetFill(nil)
		} else {
			ctx.SetFillColor(fills[name])
		}
	case "SetStroke":
		name := strokeNames[a[0]]
		if name == "none" {
			ctx.SetStroke(nil)
		} else {
			ctx.SetStrokeColor(strokes[name])
		}
	case "SetStrokeWidth":
		ctx.SetStrokeWidth(f(0))
	case "SetStrokeCapper":
		ctx.SetStrokeCapper(cappers[a[0]])
	case "SetStrokeJoiner":
		ctx.SetStrokeJoiner(joiners[a[0]])
	case "SetDashes":
		switch a[0] {
		case 0:
			ctx.SetDashes(0)
		case 1:
			ctx.SetDashes(0, 2, 1)
		case 2:
			ctx.SetDashes(1, 3, 1, 1, 1)
		}
	case "SetFillRule":
		ctx.SetFillRule(canvas.FillRule(a[0]))
	case "ResetStyle":
		ctx.ResetStyle()
	case "SetCoordSystem":
		ctx.SetCoordSystem(canvas.CoordSystem(a[0]))
	case "SetCoordView":
		ctx.SetCoordView(mat(a))
	case "Push":
		ctx.Push()
	case "Pop":
		ctx.Pop()
	case "SetZIndex":
		ctx.SetZIndex(a[0])
	case "DrawPath":
		ctx.DrawPath(f(0), f(1), tri())
	case "DrawLine":
		ctx.DrawPath(f(0), f(1), hline())
	case "DrawText":
		ctx.DrawText(f(0), f(1), m.text)
	case "DrawImage":
		ctx.DrawImage(f(0), f(1), m.img, canvas.DPMM(1.0))
	case "DrawImageHalf":
		ctx.DrawImage(f(0), f(1), m.img, canvas.DPMM(0.5))
	case "FitImageCover":
		ctx.FitImage(image.NewRGBA(image.Rect(0, 0, 4, 6)), canvas.Rect{X0: f(0), Y0: f(1), X1: f(0) + 8, Y1: f(1) + 4}, canvas.ImageCover)
	case "FitImageFill":
		ctx.FitImage(image.NewRGBA(image.Rect(0, 0, 4, 6)), canvas.Rect{X0: f(0), Y0: f(1), X1: f(0) + 8, Y1: f(1) + 12}, canvas.ImageFill)
	case "Fill", "Stroke", "FillStroke":
		ctx.MoveTo(0, 0)
		ctx.LineTo(4, 0)
		ctx.LineTo(4, 3)
		ctx.Close()
		switch cl.Op {
		case "Fill":
			ctx.Fill()
		case "Stroke":
			ctx.Stroke()
		default:
			ctx.FillStroke()
		}
	case "CanvasTransform":
		m.c.Transform(mat(a))
	case "CanvasClip":
		m.c.Clip(canvas.Rect{X0: f(0), Y0: f(1), X1: f(2), Y1: f(3)})
	case "CanvasFit":
		m.c.Fit(f(0))
	case "RenderTo":
		// observation only
	default:
		return fmt.Errorf("unknown op %q", cl.Op)
	}
	return nil
}

// The spec names fills/strokes by string in SetFill/SetStroke; in JSON the argument tuple holds strings.
// Calls are therefore decoded loosely.
func (c *Call) UnmarshalJSON(b []byte) error {
	var raw struct {
		Op string            `json:"op"`
		A  []json.RawMessage `json:"a"`
	}
	if err := json.Unmarshal(b, &raw); err != nil {
		return err
	}
	c.Op = raw.Op
	c.A = nil
	for _, r := range raw.A {
		var n int
		if err := json.Unmarshal(r, &n); err == nil {
			c.A = append(c.A, n)
			continue
		}
		var s string
		if err := json.Unmarshal(r, &s); err != nil {
			return err
		}
		idx := -1
		names := fillNames
		if raw.Op == "SetStroke" {
			names = strokeNames
		}
		for i, nm := range names {
			if nm == s {
				idx = i
			}
		}
		if idx < 0 {
			return fmt.Errorf("unknown paint %q", s)
		}
		c.A = append(c.A, idx)
	}
	return nil
}

func (c Call) MarshalJSON() ([]byte, error) {
	a := make([]any, len(c.A))
	for i, v := range c.A {
		a[i] = v
	}
	if c.Op == "SetFill" {
		a[0] = fillNames[c.A[0]]
	} else if c.Op == "SetStroke" {
		a[0] = strokeNames[c.A[0]]
	}
	return json.Marshal(map[string]any{"op": c.Op, "a": a})
}

func paintName(p canvas.Paint, table map[string]color.RGBA) string {
	if !p.Has() {
		return "none"
	}
	for n, c := range table {
		if p.IsColor() && p.Color == c {
			return n
		}
	}
	return fmt.Sprintf("other(%v)", p.Color)
}

func absStyle(s canvas.Style) AbsStyle {
	a := AbsStyle{Fill: paintName(s.Fill, fills), Stroke: paintName(s.Stroke, strokes), Rule: int(s.FillRule)}
	a.Width = int(s.StrokeWidth)
	if float64(a.Width) != s.StrokeWidth {
		a.Width = -999
	}
	a.Cap, a.Join = -1, -1
	for i, c := range cappers {
		if reflect.DeepEqual(c, s.StrokeCapper) {
			a.Cap = i
		}
	}
	for i, j := range joiners {
		if reflect.DeepEqual(j, s.StrokeJoiner) {
			a.Join = i
		}
	}
	switch {
	case len(s.Dashes) == 0:
		a.Dash = 0
	case reflect.DeepEqual(s.Dashes, []float64{2, 1}) && s.DashOffset == 0:
		a.Dash = 1
	case reflect.DeepEqual(s.Dashes, []float64{3, 1, 1, 1}) && s.DashOffset == 1:
		a.Dash = 2
	default:
		a.Dash = -1
	}
	return a
}

// fitStaysOnLattice tries Fit on a copy of the canvas: the model only covers integral canvas sizes without text.
func (m *machine) fitStaysOnLattice(margin int) bool {
	w, h := m.c.Size()
	r := rec.New(w, h)
	m.c.RenderTo(r)
	c2 := canvas.New(w, h)
	for _, e := range r.Events {
		switch e.Kind {
		case "text":
			return false
		case "path", "line":
			c2.RenderPath(e.Path, e.Style, e.M)
		case "image":
			c2.RenderImage(e.Img, e.M)
		}
	}
	c2.Fit(float64(margin))
	w2, h2 := c2.Size()
	ok := math.Abs(w2-math.Round(w2)) < 1e-7 && math.Abs(h2-math.Round(h2)) < 1e-7
	r2 := rec.New(w2, h2)
	c2.RenderTo(r2)
	for _, e := range r2.Events {
		if _, k := rec.IntMatrix(e.M); !k {
			ok = false
		}
	}
	return ok
}

// observe renders the canvas into a recording renderer and abstracts the events.
func (m *machine) observe() ([]AbsEvent, string) {
	w, h := m.c.Size()
	r := rec.New(w, h)
	m.c.RenderTo(r)
	out := make([]AbsEvent, 0, len(r.Events))
	for i, e := range r.Events {
		im, ok := rec.IntMatrix(e.M)
		if !ok {
			return nil, fmt.Sprintf("event %d: matrix %v is not on the integer lattice", i, e.M)
		}
		ev := AbsEvent{Kind: e.Kind, M: im}
		if e.Kind == "path" {
			ev.St = absStyle(e.Style)
			if bytes.Equal(f64bytes(e.Data), f64bytes(hline().Data())) {
				ev.Kind = "line"
			} else if !bytes.Equal(f64bytes(e.Data), f64bytes(tri().Data())) {
				return nil, fmt.Sprintf("event %d: path data changed: %v", i, e.Data)
			}
		} else {
			ev.St = AbsStyle{Fill: "black", Stroke: "none", Width: 1}
		}
		out = append(out, ev)
	}
	return out, ""
}

func f64bytes(d []float64) []byte {
	var b bytes.Buffer
	for _, v := range d {
		fmt.Fprintf(&b, "%v ", v)
	}
	return b.Bytes()
}

// exec replays a scenario and compares the final observation with the spec's expectation.
func exec(s *Scenario) (ms []core.Mismatch) {
	defer func() {
		if r := recover(); r != nil {
			ms = append(ms, core.Mismatch{Signature: "panic", Detail: fmt.Sprint(r)})
		}
	}()
	m, err := newMachine(s.W0, s.H0)
	if err != nil {
		return []core.Mismatch{{Signature: "machinery", Detail: err.Error()}}
	}
	for _, cl := range s.Hist {
		if err := m.apply(cl); err != nil {
			return []core.Mismatch{{Signature: "machinery", Detail: err.Error()}}
		}
	}
	obs, bad := m.observe()
	if bad != "" {
		return []core.Mismatch{{Signature: "offgrid", Detail: bad}}
	}
	w, h := m.c.Size()
	if math.Abs(w-float64(s.W)) > 1e-7 || math.Abs(h-float64(s.H)) > 1e-7 {
		ms = append(ms, core.Mismatch{Signature: "canvas-size", Detail: fmt.Sprintf("canvas size %vx%v, expected %dx%d", w, h, s.W, s.H)})
	}
	if len(obs) != len(s.Events) {
		ms = append(ms, core.Mismatch{Signature: "event-count", Detail: fmt.Sprintf("RenderTo replayed %d events, expected %d", len(obs), len(s.Events))})
		return
	}
	for i := range obs {
		e, o := s.Events[i], obs[i]
		if e.Kind != o.Kind {
			ms = append(ms, core.Mismatch{Signature: "event-order", Detail: fmt.Sprintf("event %d kind %s, expected %s", i, o.Kind, e.Kind)})
			continue
		}
		if e.M != o.M {
			ms = append(ms, core.Mismatch{Signature: "matrix-" + e.Kind, Detail: fmt.Sprintf("event %d (%s, step %d) matrix %v, expected %v", i, e.Kind, e.Step, o.M, e.M)})
		}
		if (e.Kind == "path" || e.Kind == "line") && e.St != o.St {
			sig := "style"
			if o.St.Dash != e.St.Dash {
				sig = "style-dash"
			}
			ms = append(ms, core.Mismatch{Signature: sig, Detail: fmt.Sprintf("event %d (step %d) style %+v, expected %+v", i, e.Step, o.St, e.St)})
		}
	}
	return
}

func (Driver) Replay(c *core.Ctx, raw json.RawMessage) []core.Mismatch {
	var s Scenario
	if err := json.Unmarshal(raw, &s); err != nil {
		return []core.Mismatch{{Signature: "machinery", Detail: err.Error()}}
	}
	return exec(&s)
}

func cfg(maxLen, emitAt int, profile string, mc bool) string {
	s := fmt.Sprintf("SPECIFICATION Spec\nCONSTANTS MaxLen = %d\n EmitAt = %d\n W0 = 10\n H0 = 8\n Profile = \"%s\"\nCONSTRAINT Small\nCHECK_DEADLOCK FALSE\n", maxLen, emitAt, profile)
	if mc {
		s += "INVARIANTS TypeOK OrderOK FitPost StackDepth\nPROPERTIES LayersStable PushPopRestores\n"
	} else {
		s += "INVARIANTS EmitInv\n"
	}
	return s
}

func (d Driver) Run(c *core.Ctx) error {
	c.Rule = "scenario = call history over the Context/Canvas alphabet of spec/Context.tla with the expected RenderTo event list computed by the spec; non-trivial = history that records at least one layer AND contains at least one view/coord/canvas call (so the matrix is not the identity by construction); distinct by history"
	c.Assumptions = []string{"matrices are integer (rotations by multiples of 90 degrees); float results are rounded and must be within 1e-7 of the lattice",
		"text layout and image decoding are taken as given (only their placement matrix is checked)",
		"dash patterns are canonical already; dash canonicalisation is the subject of C05"}

	// 1. model level: invariants and action properties of the design
	// (thorough: depth 4 without -coverage, which doubles TLC's memory; coverage is collected at depth 3)
	c.TLC(tlc.Opts{Module: "Context", Config: cfg(c.Pick(3, 4), 0, "small", true), HeapGB: 14, Timeout: 45 * time.Minute}, true)
	if c.Thorough() {
		c.TLC(tlc.Opts{Module: "Context", Config: cfg(3, 0, "small", true), Coverage: true}, true)
	}

	// 2. spec -> code: exhaustive BFS histories (small alphabet), random deep histories (full alphabet)
	var nontrivial int64
	seen := sync.Map{}
	run := func(o tlc.Opts) {
		ch := make(chan []byte, 4096)
		o.OnLine = func(p []byte) { ch <- append([]byte(nil), p...) }
		done := make(chan struct{})
		var n int64
		go func() {
			core.Parallel(12, ch, func(p []byte) {
				var s Scenario
				if err := json.Unmarshal(p, &s); err != nil {
					c.Broken("bad scenario line: " + err.Error() + ": " + string(p[:min(len(p), 200)]))
					return
				}
				ms := exec(&s)
				k := atomic.AddInt64(&n, 1)
				if k%50000 == 1 {
					c.Sample(json.RawMessage(p))
				}
				if len(s.Events) > 0 && hasViewCall(s.Hist) {
					h := string(mustJSON(s.Hist))
					if _, dup := seen.LoadOrStore(h, true); !dup {
						atomic.AddInt64(&nontrivial, 1)
					}
				}
				c.Report(json.RawMessage(p), ms)
			})
			close(done)
		}()
		c.TLC(o, true)
		close(ch)
		<-done
		c.Count(n, 0, n)
	}
	run(tlc.Opts{Module: "Context", Config: cfg(3, 3, "small", false)})
	// narrow alphabets, deep exhaustive: nested Push/Pop, z-order interleavings, Clip/Fit then flipped draws
	run(tlc.Opts{Module: "Context", Config: cfg(c.Pick(6, 7), c.Pick(6, 7), "stack", false), HeapGB: 14, Timeout: 45 * time.Minute})
	run(tlc.Opts{Module: "Context", Config: cfg(c.Pick(6, 7), c.Pick(6, 7), "zorder", false), HeapGB: 14, Timeout: 45 * time.Minute})
	// the canvas alphabet at depth 6 does not fit into TLC's memory (Java heap exhausted at 8 GB): depth 5 exhaustively,
	// deeper by simulation in the thorough tier
	run(tlc.Opts{Module: "Context", Config: cfg(5, 5, "canvas", false), Timeout: 45 * time.Minute})
	if c.Thorough() {
		run(tlc.Opts{Module: "Context", Config: cfg(9, 9, "canvas", false), Simulate: "num=400", Depth: 10, Seed: c.Seed + 5, Workers: 8})
	}
	depth := c.Pick(10, 14)
	num := c.Pick(150, 1500) // traces per worker; every successor at the last depth is emitted (~80 scenarios per trace)
	run(tlc.Opts{Module: "Context", Config: cfg(depth, depth, "full", false), Simulate: fmt.Sprintf("num=%d", num), Depth: depth + 1, Seed: c.Seed, Workers: 8})
	// (the broad alphabet at depth 4 is 6.8 million histories: covered by the model-level run; replay uses depth 3)
	c.Count(0, nontrivial, 0)

	// 3. code -> spec: recorded traces of long random histories
	d.traces(c)
	return nil
}

func hasViewCall(h []Call) bool {
	for _, c := range h {
		switch c.Op {
		case "SetFill", "SetStroke", "SetStrokeWidth", "SetStrokeCapper", "SetStrokeJoiner", "SetDashes", "SetFillRule", "ResetStyle", "Push", "Pop", "SetZIndex",
			"DrawPath", "DrawText", "DrawImage", "DrawImageHalf", "Fill", "Stroke", "FillStroke":
		default:
			return true
		}
	}
	return false
}

func mustJSON(v any) []byte { b, _ := json.Marshal(v); return b }

// ---- code -> spec ----------------------------------------------------------------------------

type traceEv struct {
	Op  string          `json:"op"`
	A   []any           `json:"a"`
	W   int             `json:"w"`
	H   int             `json:"h"`
	N   int             `json:"n"`             // number of events RenderTo replays after this call
	Obs json.RawMessage `json:"obs,omitempty"` // full replay list (RenderTo events only)
}

// randCall draws a call; theme biases the choice towards one mechanism (0 = uniform).
func randCall(r *rand.Rand, theme int) Call {
	ri := func(lo, hi int) int { return lo + r.Intn(hi-lo+1) }
	if theme > 0 && r.Intn(10) < 6 {
		switch theme {
		case 1: // stack
			switch r.Intn(6) {
			case 0, 1:
				return Call{"Push", nil}
			case 2, 3:
				return Call{"Pop", nil}
			case 4:
				return Call{"SetCoordSystem", []int{r.Intn(4)}}
			default:
				return Call{"DrawPath", []int{ri(-2, 3), ri(-2, 3)}}
			}
		case 2: // z-order
			switch r.Intn(4) {
			case 0, 1:
				return Call{"SetZIndex", []int{ri(-1, 1)}}
			case 2:
				return Call{"DrawPath", []int{ri(-2, 3), ri(-2, 3)}}
			default:
				return Call{[]string{"DrawText", "DrawImage"}[r.Intn(2)], []int{ri(-2, 3), ri(-2, 3)}}
			}
		case 3: // canvas ops
			switch r.Intn(5) {
			case 0:
				x0, y0 := ri(-2, 2), ri(-2, 2)
				return Call{"CanvasClip", []int{x0, y0, x0 + ri(4, 9), y0 + ri(4, 9)}}
			case 1:
				return Call{"CanvasFit", []int{ri(0, 2)}}
			case 2:
				return Call{"SetCoordSystem", []int{r.Intn(4)}}
			case 3:
				return Call{[]string{"DrawImage", "DrawImageHalf"}[r.Intn(2)], []int{ri(-2, 3), ri(-2, 3)}}
			default:
				return Call{[]string{"DrawPath", "DrawLine"}[r.Intn(2)], []int{ri(-2, 3), ri(-2, 3)}}
			}
		}
	}
	mats := [][]int{{1, 0, 3, 0, 1, 1}, {2, 0, 0, 0, 2, 0}, {0, -1, 0, 1, 0, 0}, {1, 1, 0, 0, 1, 0}, {-1, 0, 0, 0, 1, 0}, {1, 0, -2, 0, 1, 5}, {1, 0, 0, 0, 1, 0}, {1, 0, 1, 0, 1, 2}}
	switch r.Intn(34) {
	case 0:
		return Call{"Translate", []int{ri(-3, 3), ri(-3, 3)}}
	case 1:
		return Call{"Rotate", []int{ri(0, 3)}}
	case 2:
		return Call{"Scale", []int{[]int{-1, 1, 2}[r.Intn(3)], []int{-1, 1, 2}[r.Intn(3)]}}
	case 3:
		sx, sy := ri(-1, 1), ri(-1, 1)
		if sx*sy == 1 { // singular
			sy = 0
		}
		return Call{"Shear", []int{sx, sy}}
	case 4:
		return Call{"ReflectX", nil}
	case 5:
		return Call{"ReflectY", nil}
	case 6:
		return Call{"ResetView", nil}
	case 7:
		return Call{"RotateAbout", []int{ri(0, 3), ri(-2, 4), ri(-2, 4)}}
	case 8:
		return Call{"ScaleAbout", []int{[]int{-1, 1, 2}[r.Intn(3)], []int{1, 2}[r.Intn(2)], ri(-2, 3), ri(-2, 3)}}
	case 9:
		sx, sy := ri(-1, 1), ri(-1, 1)
		if sx*sy == 1 { // singular
			sx = 0
		}
		return Call{"ShearAbout", []int{sx, sy, ri(-2, 3), ri(-2, 3)}}
	case 10:
		return Call{"ReflectXAbout", []int{ri(-2, 5)}}
	case 11:
		return Call{"ReflectYAbout", []int{ri(-2, 5)}}
	case 12:
		return Call{"SetView", mats[r.Intn(len(mats))]}
	case 13:
		return Call{"ComposeView", mats[r.Intn(len(mats))]}
	case 14:
		return Call{"SetFill", []int{r.Intn(4)}}
	case 15:
		return Call{"SetStroke", []int{r.Intn(3)}}
	case 16:
		return Call{"SetStrokeWidth", []int{[]int{0, 2, 4}[r.Intn(3)]}}
	case 17:
		return Call{"SetStrokeCapper", []int{r.Intn(3)}}
	case 18:
		return Call{"SetStrokeJoiner", []int{r.Intn(3)}}
	case 19:
		return Call{"SetDashes", []int{r.Intn(3)}}
	case 20:
		return Call{"SetFillRule", []int{r.Intn(2)}}
	case 21:
		return Call{"ResetStyle", nil}
	case 22:
		return Call{"SetCoordSystem", []int{r.Intn(4)}}
	case 23:
		return Call{"SetCoordView", mats[r.Intn(len(mats))]}
	case 24:
		return Call{"Push", nil}
	case 25:
		return Call{"Pop", nil}
	case 26:
		return Call{"SetZIndex", []int{ri(-1, 1)}}
	case 27:
		return Call{"DrawPath", []int{ri(-2, 3), ri(-2, 3)}}
	case 28:
		return Call{[]string{"DrawPath", "DrawLine"}[r.Intn(2)], []int{ri(-2, 3), ri(-2, 3)}}
	case 29:
		return Call{[]string{"DrawText", "DrawImage", "DrawImageHalf", "FitImageCover", "FitImageFill"}[r.Intn(5)], []int{ri(-2, 3), ri(-2, 3)}}
	case 30:
		return Call{[]string{"Fill", "Stroke", "FillStroke"}[r.Intn(3)], nil}
	case 31:
		return Call{"CanvasTransform", mats[r.Intn(3)]}
	case 32:
		x0, y0 := ri(-2, 2), ri(-2, 2)
		return Call{"CanvasClip", []int{x0, y0, x0 + ri(4, 9), y0 + ri(4, 9)}}
	default:
		return Call{"RenderTo", nil}
	}
}

func (d Driver) traces(c *core.Ctx) {
	nTraces := c.Pick(150, 1500)
	length := c.Pick(40, 60)
	r := rand.New(rand.NewSource(c.Seed*7919 + 15))
	var buf bytes.Buffer
	enc := json.NewEncoder(&buf)
	events := 0
	for t := 0; t < nTraces; t++ {
		m, err := newMachine(10, 8)
		if err != nil {
			c.Broken(err.Error())
			return
		}
		enc.Encode(traceEv{Op: "RESET", A: []any{}, W: 10, H: 8})
		events++
		for i := 0; i < length; i++ {
			cl := randCall(r, t%4)
			if cl.Op == "DrawText" && t%4 == 3 {
				cl.Op = "DrawImage" // Fit is not modelled with text layers
			}
			if cl.Op == "CanvasFit" && !m.fitStaysOnLattice(cl.A[0]) {
				cl = Call{"RenderTo", nil}
			}
			if i == length-1 {
				cl = Call{"RenderTo", nil}
			}
			func() {
				defer func() {
					if rr := recover(); rr != nil {
						c.Report(map[string]any{"trace": t, "call": cl}, []core.Mismatch{{Signature: "panic", Detail: fmt.Sprint(rr)}})
					}
				}()
				m.apply(cl)
			}()
			obs, bad := m.observe()
			w, h := m.c.Size()
			if bad != "" || math.Abs(w-math.Round(w)) > 1e-7 || math.Abs(h-math.Round(h)) > 1e-7 {
				// off the lattice (matrix overflow of the small-int domain cannot happen; this is a real deviation)
				c.Broken("trace driver left the lattice: " + bad)
				return
			}
			ev := traceEv{Op: cl.Op, W: int(math.Round(w)), H: int(math.Round(h)), N: len(obs)}
			var cj struct {
				A []any `json:"a"`
			}
			json.Unmarshal(mustJSON(cl), &cj)
			ev.A = cj.A
			if ev.A == nil {
				ev.A = []any{}
			}
			if cl.Op == "RenderTo" {
				if obs == nil {
					obs = []AbsEvent{}
				}
				ev.Obs = mustJSON(obs)
			}
			enc.Encode(ev)
			events++
		}
	}
	tcfg := func(check string) string {
		return "SPECIFICATION TSpec\nCONSTANTS MaxLen = 1000000\n EmitAt = 0\n W0 = 10\n H0 = 8\n Profile = \"small\"\n CheckObs = " + check + "\nINVARIANTS OrderOK\nPOSTCONDITION TraceAccepted\nCHECK_DEADLOCK FALSE\n"
	}
	files := map[string][]byte{"trace_context.ndjson": buf.Bytes()}
	res := c.TLC(tlc.Opts{Module: "Trace_Context", Workers: 1, Files: files, Config: tcfg("TRUE")}, false)
	c.SetExtra("trace_events", events)
	if res.OK {
		c.Count(int64(nTraces), 0, int64(nTraces))
		c.Sample(map[string]any{"recorded_trace_head": string(buf.Bytes()[:min(buf.Len(), 600)])})
		return
	}
	// Rejected. Turn the rejection into API-level witnesses: let the spec print what it expects at every
	// RenderTo of the same recorded calls (observations ignored) and replay those scenarios.
	exp := c.TLC(tlc.Opts{Module: "Trace_Context", Workers: 1, Files: files, Config: tcfg("FALSE")}, true)
	found := false
	for _, p := range exp.Lines {
		var s Scenario
		if err := json.Unmarshal(p, &s); err != nil {
			c.Broken("bad expectation line: " + err.Error())
			continue
		}
		if ms := exec(&s); len(ms) > 0 {
			found = true
			c.Report(json.RawMessage(p), ms)
		}
	}
	if !found {
		os.MkdirAll(core.OutDir()+"/replays", 0o755)
		os.WriteFile(core.OutDir()+"/replays/C15-rejected-trace.ndjson", buf.Bytes(), 0o644)
		c.Broken(fmt.Sprintf("Trace_Context rejected the recorded trace after %d of %d events but no call-level witness reproduces: %s", res.Depth-1, events, lastN(res.ErrText, 1500)))
	}
}

func lastN(s string, n int) string {
	if len(s) > n {
		return s[:n]
	}
	return s
}
