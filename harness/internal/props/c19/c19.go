// Package c19: imported SVG documents draw the geometry the SVG specification assigns (spec/SVGDoc.tla).
//
// spec -> code: TLC draws documents (element trees with CSS rules, style/presentation attributes, nested transforms, all basic
// shapes and lattice path data) and prints each with the canvas size and the list of paint events the SVG rules assign to it
// (colour + three-valued sample cells in the element's user space + the exact map of the samples into the viewport).
// The driver serialises the tree, calls canvas.ParseSVG, renders the returned canvas into the recording renderer and evaluates
// every recorded path at the samples with the independent evaluators of harness/internal/oracle.
// Round trip: TLC draws lattice drawings; the driver draws them on a real canvas, writes it with renderers/svg, parses the
// bytes back and compares with the paint events the drawing requests.
package c19

import (
	"bytes"
	"encoding/json"
	"fmt"
	"image/color"
	"strings"
	"sync"
	"sync/atomic"
	"time"

	"github.com/tdewolff/canvas"
	"github.com/tdewolff/canvas/renderers/svg"

	"verif/harness/internal/core"
	"verif/harness/internal/latgeo"
	"verif/harness/internal/tlc"
)

type Driver struct{}

func (Driver) ID() string { return "C19" }

func parse(text string) (c *canvas.Canvas, ms []core.Mismatch, prefix string) {
	var err error
	kind, msg := latgeo.Guard(20*time.Second, func() { c, err = canvas.ParseSVG(strings.NewReader(text)) })
	if kind != "" {
		return nil, []core.Mismatch{{Signature: kind + "-ParseSVG:" + latgeo.PanicClass(msg), Detail: fmt.Sprintf("%v on %s", msg, text)}}, ""
	}
	if err != nil {
		cls := latgeo.PanicClass(strings.SplitN(strings.SplitN(err.Error(), "\n", 2)[0], ":", 2)[0])
		return nil, []core.Mismatch{{Signature: "parse-error:" + cls, Detail: fmt.Sprintf("%v on %s", err, text)}}, ""
	}
	if c == nil {
		return nil, []core.Mismatch{{Signature: "nil-canvas", Detail: text}}, ""
	}
	return c, nil, ""
}

func execDoc(sc *Scenario) []core.Mismatch {
	text := Serialise(sc.Doc)
	c, ms, _ := parse(text)
	if c == nil {
		return ms
	}
	ms = compare(sc, c, "")
	for i := range ms {
		ms[i].Detail += " | " + text
	}
	return ms
}

func colorOf(v [4]int) color.RGBA {
	return color.RGBA{uint8(v[0]), uint8(v[1]), uint8(v[2]), uint8(v[3])}
}

// WriteDrawing draws the drawing on a real canvas and returns the bytes renderers/svg writes for it.
func WriteDrawing(d *Drawing) (out []byte, err error) {
	c := canvas.New(float64(d.W), float64(d.H))
	ctx := canvas.NewContext(c)
	for _, dr := range d.Draws {
		p := &canvas.Path{}
		for _, s := range dr.Subs {
			for i, v := range s.V {
				switch {
				case i == 0:
					p.MoveTo(float64(v[0]), float64(v[1]))
				case i-1 < len(s.Pc) && s.Pc[i-1].K == "B" && len(s.Pc[i-1].H) == 3:
					h := s.Pc[i-1].H
					p.QuadTo(float64(h[1][0]), float64(h[1][1]), float64(v[0]), float64(v[1]))
				case i-1 < len(s.Pc) && s.Pc[i-1].K == "B" && len(s.Pc[i-1].H) == 4:
					h := s.Pc[i-1].H
					p.CubeTo(float64(h[1][0]), float64(h[1][1]), float64(h[2][0]), float64(h[2][1]), float64(v[0]), float64(v[1]))
				default:
					p.LineTo(float64(v[0]), float64(v[1]))
				}
			}
			if s.Closed {
				p.Close()
			}
		}
		v := dr.View
		ctx.SetView(canvas.Matrix{{float64(v[0]), float64(v[1]), float64(v[2])}, {float64(v[3]), float64(v[4]), float64(v[5])}})
		if dr.Fill == "none" {
			ctx.SetFillColor(canvas.Transparent)
		} else {
			ctx.SetFillColor(colorOf(dr.FRGBA))
		}
		if dr.Stroke == "none" {
			ctx.SetStrokeColor(canvas.Transparent)
		} else {
			ctx.SetStrokeColor(colorOf(dr.SRGBA))
		}
		ctx.SetStrokeWidth(float64(dr.W))
		switch dr.Join {
		case "bevel":
			ctx.SetStrokeJoiner(canvas.BevelJoin)
		case "round":
			ctx.SetStrokeJoiner(canvas.RoundJoin)
		default:
			ctx.SetStrokeJoiner(canvas.MiterJoiner{GapJoiner: canvas.BevelJoin, Limit: float64(dr.Lim)})
		}
		switch dr.Cap {
		case "round":
			ctx.SetStrokeCapper(canvas.RoundCap)
		case "square":
			ctx.SetStrokeCapper(canvas.SquareCap)
		default:
			ctx.SetStrokeCapper(canvas.ButtCap)
		}
		if dr.Rule == 1 {
			ctx.SetFillRule(canvas.EvenOdd)
		} else {
			ctx.SetFillRule(canvas.NonZero)
		}
		ctx.DrawPath(0, 0, p)
	}
	var buf bytes.Buffer
	r := svg.New(&buf, c.W, c.H, nil)
	c.RenderTo(r)
	if err := r.Close(); err != nil {
		return nil, err
	}
	return buf.Bytes(), nil
}

func execRT(sc *Scenario) []core.Mismatch {
	var text []byte
	var err error
	kind, msg := latgeo.Guard(20*time.Second, func() { text, err = WriteDrawing(sc.Drawing) })
	if kind != "" {
		return []core.Mismatch{{Signature: "rt-" + kind + "-write:" + latgeo.PanicClass(msg), Detail: fmt.Sprint(msg)}}
	}
	if err != nil {
		return []core.Mismatch{{Signature: "rt-write-error", Detail: err.Error()}}
	}
	c, ms, _ := parse(string(text))
	if c == nil {
		for i := range ms {
			ms[i].Signature = "rt-" + ms[i].Signature + featTag(sc.Feat, "alpha")
		}
		return ms
	}
	ms = compare(sc, c, "rt-")
	for i := range ms {
		ms[i].Detail += " | " + string(text)
	}
	return ms
}

func featTag(feat []string, f string) string {
	if has(feat, f) {
		return "+" + f
	}
	return ""
}

func exec(sc *Scenario) []core.Mismatch {
	if sc.Mode == "rt" {
		if sc.Drawing == nil {
			return []core.Mismatch{{Signature: "machinery", Detail: "rt scenario without drawing"}}
		}
		return execRT(sc)
	}
	if sc.Doc == nil {
		return []core.Mismatch{{Signature: "machinery", Detail: "scenario without document"}}
	}
	return execDoc(sc)
}

func (Driver) Replay(c *core.Ctx, raw json.RawMessage) []core.Mismatch {
	var s Scenario
	if err := json.Unmarshal(raw, &s); err != nil {
		return []core.Mismatch{{Signature: "machinery", Detail: err.Error()}}
	}
	return exec(&s)
}

func cfg(mode string, num int, mc bool) string {
	s := fmt.Sprintf("SPECIFICATION Spec\nCONSTANTS Mode = \"%s\"\n Num = %d\nCHECK_DEADLOCK FALSE\n", mode, num)
	if mc {
		s += "INVARIANTS CascadeLaws TransformLaws ShapeLaws EventLaws\n"
	}
	return s
}

// nontrivial: at least one paint with both painted and unpainted decided samples, and something beyond a bare shape
// (a transform, a CSS rule, nesting, a stroke, or for round trips a non-identity view).
func nontrivial(s *Scenario) bool {
	mixed, stroke := false, false
	for _, e := range s.Events {
		in, out := false, false
		for _, v := range e.Cells {
			in = in || v == 1
			out = out || v == 0
		}
		mixed = mixed || (in && out)
		stroke = stroke || e.Kind == "stroke"
	}
	if !mixed {
		return false
	}
	if s.Doc != nil {
		if len(s.Doc.Rules) > 0 || stroke {
			return true
		}
		for _, e := range s.Doc.Es {
			if e.Kind == "g" {
				return true
			}
			for _, a := range e.Attrs {
				if a.N == "transform" || a.N == "style" {
					return true
				}
			}
		}
		return false
	}
	for _, d := range s.Drawing.Draws {
		if d.View != [6]int{1, 0, 0, 0, 1, 0} {
			return true
		}
	}
	return stroke
}

func (d Driver) Run(c *core.Ctx) error {
	c.Rule = "scenario = SVG document (svg size/unit/viewBox, CSS rules, g nesting <= 2, rect/circle/ellipse/line/polyline/polygon/path with presentation attributes, style attributes, class/id, transform lists) or, for the round trip, a lattice drawing (styled polygons under integer views); both are drawn at random by TLC from spec/SVGDoc.tla (RandomSubset, seeded), which prints the expected canvas size and the expected paint events (colour, three-valued sample cells); evaluations = documents parsed by the real ParseSVG and compared; non-trivial = a document with at least one paint that has both painted and unpainted decided samples and at least one of: CSS rule, style attribute, transform, group, stroke (round trip: non-identity view or stroke); distinct by document"
	c.Assumptions = []string{
		"the observation point is the Canvas -> Renderer interface (recorded path, style, matrix); fills are evaluated with the winding oracle, strokes with the reference pen model of harness/internal/oracle/strokeregion.go applied to the recorded width/cap/join/miter limit",
		"sample points are classified by the spec with exact integer arithmetic; samples within 1/8 user unit of a curved or stroked boundary, in the control hull of a Bezier segment or on a polygon edge are free",
		"geometry is compared relative to the returned canvas (viewport fractions), the absolute size separately",
		"when exactly one of width / height of the root is a percentage or absent, that side is expected to take the viewBox size in px (ParseSVG's own convention; SVG leaves it to the embedding context); with both absent the size is not constrained",
		"fill-rule, opacity, dashes, markers, gradients, text and percentages are outside the generated grammar (fill-rule only through the round trip)",
	}
	var nEval, nNT, nRT int64
	seen := sync.Map{}
	featHits := sync.Map{}
	bump := func(k string) {
		v, _ := featHits.LoadOrStore(k, new(int64))
		atomic.AddInt64(v.(*int64), 1)
	}
	run := func(o tlc.Opts) {
		ch := make(chan []byte, 2048)
		o.OnLine = func(p []byte) { ch <- append([]byte(nil), p...) }
		done := make(chan struct{})
		go func() {
			core.Parallel(8, ch, func(p []byte) {
				var s Scenario
				if err := json.Unmarshal(p, &s); err != nil {
					c.Broken("bad scenario line: " + err.Error() + ": " + string(p[:min(len(p), 300)]))
					return
				}
				var ms []core.Mismatch
				ok, msg := latgeo.Try(func() { ms = exec(&s) })
				if !ok {
					ms = []core.Mismatch{{Signature: "panic-harness:" + latgeo.PanicClass(msg), Detail: fmt.Sprint(msg)}}
				}
				k := atomic.AddInt64(&nEval, 1)
				if s.Mode == "rt" {
					atomic.AddInt64(&nRT, 1)
				}
				if k%700 == 1 {
					if s.Doc != nil {
						c.Sample(map[string]any{"svg": Serialise(s.Doc), "expected_size_mm": s.Size, "expected_paints": len(s.Events)})
					} else {
						c.Sample(map[string]any{"drawing": s.Drawing, "expected_paints": len(s.Events)})
					}
				}
				if nontrivial(&s) {
					if _, dup := seen.LoadOrStore(s.key(), true); !dup {
						atomic.AddInt64(&nNT, 1)
					}
				}
				for _, f := range s.Feat {
					bump("feature:" + f)
				}
				for _, h := range s.Haz {
					bump("hazard:" + h[:strings.IndexByte(h+":", ':')])
				}
				c.Report(json.RawMessage(p), ms)
			})
			close(done)
		}()
		c.TLC(o, true)
		close(ch)
		<-done
	}
	// 1. model level: laws of the cascade, of transform composition, of the shape regions and of the event lists
	// (no -coverage: TLC's cost model runs out of 8 GB on the recursive geometry operators — measured with 120 documents; the
	// behaviour has only the actions Grow and Emit, and every document takes both: distinct states = 3 x documents)
	mc := c.TLC(tlc.Opts{Module: "SVGDoc", Config: cfg("mc", c.Pick(40, 500), true), Seed: c.Seed, Timeout: 20 * time.Minute}, true)
	c.SetExtra("model_check_documents", mc.Distinct/3)
	// 2. spec -> code: documents
	run(tlc.Opts{Module: "SVGDoc", Config: cfg("gen", c.Pick(1000, 16000), false), Seed: c.Seed, Timeout: 40 * time.Minute})
	// 3. round trip
	run(tlc.Opts{Module: "SVGDoc", Config: cfg("rt", c.Pick(300, 4000), false), Seed: c.Seed + 1, Timeout: 40 * time.Minute})
	c.Count(nEval, nNT, nEval)
	c.SetExtra("round_trip_drawings", nRT)
	featHits.Range(func(k, v any) bool {
		c.SetExtra(k.(string), atomic.LoadInt64(v.(*int64)))
		return true
	})
	if nEval == 0 {
		c.Broken("no scenarios were produced")
	}
	return nil
}
