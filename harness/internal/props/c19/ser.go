package c19

import (
	"encoding/json"
	"fmt"
	"strconv"
	"strings"
)

// ---- the scenario as printed by spec/SVGDoc.tla -----------------------------------------------------------

type Decl struct {
	P string `json:"p"`
	V string `json:"v"`
}
type TOp struct {
	F string `json:"f"`
	A []int  `json:"a"`
}
type Attr struct {
	N string `json:"n"`
	V string `json:"v"`
	D []Decl `json:"d"`
	T []TOp  `json:"t"`
}
type Cmd struct {
	C string `json:"c"`
	A []int  `json:"a"`
}
type Elem struct {
	Kind  string   `json:"kind"`
	Depth int      `json:"depth"`
	Geo   []int    `json:"geo"`
	Pts   [][2]int `json:"pts"`
	Segs  []Cmd    `json:"segs"`
	Attrs []Attr   `json:"attrs"`
	Cls   []string `json:"cls"`
	ID    string   `json:"id"`
}
type Sel struct {
	Typ string `json:"typ"`
	Cls string `json:"cls"`
	ID  string `json:"id"`
}

func (x Sel) String() string {
	sel := x.Typ
	if x.Cls != "" {
		sel += "." + x.Cls
	}
	if x.ID != "" {
		sel += "#" + x.ID
	}
	return sel
}

// Rule: a selector list of one or two members (the first is Typ/Cls/ID, the optional second Alt[0]) and its declarations.
type Rule struct {
	Typ string `json:"typ"`
	Cls string `json:"cls"`
	ID  string `json:"id"`
	Pre []Comp `json:"pre"` // compounds left of the subject of the first member, each followed by its combinator
	Alt []Sel  `json:"alt"`
	D   []Decl `json:"d"`
}

// Comp is a compound selector followed by a combinator (">" child, " " descendant).
type Comp struct {
	Typ  string `json:"typ"`
	Cls  string `json:"cls"`
	ID   string `json:"id"`
	Comb string `json:"comb"`
}
type Doc struct {
	Unit  string `json:"unit"`
	WMode string `json:"wmode"` // "x" (or empty) explicit, "a" absent, otherwise the percentage text
	HMode string `json:"hmode"`
	W     int    `json:"w"`
	H     int    `json:"h"`
	HasVB bool   `json:"hasvb"`
	VB    [4]int `json:"vb"`
	Rules []Rule `json:"rules"`
	Es    []Elem `json:"es"`
	Ser   []int  `json:"ser"`
}
type SMap struct {
	A  [6]int `json:"a"`
	DX int    `json:"dx"`
	DY int    `json:"dy"`
}
type Info struct {
	Rule int    `json:"rule"`
	HW   int    `json:"hw"`
	Join string `json:"join"`
	Lim  int    `json:"lim"`
	Cap  string `json:"cap"`
}
type Cands struct {
	Col  [][4]int `json:"col"`
	W    []int    `json:"w"`
	Join []string `json:"join"`
	Lim  []int    `json:"lim"`
	Cap  []string `json:"cap"`
}
type Event struct {
	El    int      `json:"el"`
	Kind  string   `json:"kind"`
	RGBA  [4]int   `json:"rgba"`
	Col   string   `json:"col"`
	Map   SMap     `json:"map"`
	GX    int      `json:"gx"`
	GY    int      `json:"gy"`
	NX    int      `json:"nx"`
	NY    int      `json:"ny"`
	Step  int      `json:"step"`
	Cells []int    `json:"cells"`
	Opt   bool     `json:"opt"`
	Haz   []string `json:"haz"`
	Info  Info     `json:"info"`
	CD    Cands    `json:"cd"`
	loose bool     // the pairing with an observed paint is uncertain (number of paints differs): no candidate check
}
type RPiece struct {
	K string   `json:"k"` // L line | B Bezier with control polygon H (3 points: quadratic, 4: cubic)
	H [][2]int `json:"h"`
}
type RSub struct {
	V      [][2]int `json:"v"`
	Closed bool     `json:"closed"`
	Pc     []RPiece `json:"pc"`
}
type RDraw struct {
	Subs   []RSub `json:"subs"`
	View   [6]int `json:"view"`
	Fill   string `json:"fill"`
	Stroke string `json:"stroke"`
	FRGBA  [4]int `json:"frgba"`
	SRGBA  [4]int `json:"srgba"`
	W      int    `json:"w"`
	Join   string `json:"join"`
	Lim    int    `json:"lim"`
	Cap    string `json:"cap"`
	Rule   int    `json:"rule"`
}
type Drawing struct {
	W     int     `json:"w"`
	H     int     `json:"h"`
	Draws []RDraw `json:"draws"`
}
type ShapeRec struct {
	El  int      `json:"el"`
	Haz []string `json:"haz"`
	VS  [][2]int `json:"vs"` // vertices of a polygonal / path outline, scaled by 8
	FP  []Event  `json:"fp"` // outline cells when the element has no (non-zero rule) fill paint
}
type Scenario struct {
	Mode    string   `json:"mode"`
	Shapes  []ShapeRec `json:"shapes"`
	Doc     *Doc     `json:"doc,omitempty"`
	Drawing *Drawing `json:"drawing,omitempty"`
	Size    [4]int   `json:"size"`
	Events  []Event  `json:"events"`
	Feat    []string `json:"feat"`
	Haz     []string `json:"haz"`
}

func (s *Scenario) key() string {
	if s.Doc != nil {
		b, _ := json.Marshal(s.Doc)
		return string(b)
	}
	b, _ := json.Marshal(s.Drawing)
	return string(b)
}

// ---- serialisation of the element tree to SVG text -----------------------------------------------------------
// Everything that carries meaning (element order, nesting, order of the style-carrying attributes, values) comes from the
// scenario; doc.Ser selects among notations that the SVG grammar treats as equivalent.

type kv struct{ k, v string }

func itoa(i int) string { return strconv.Itoa(i) }

func serTransform(ops []TOp, style int) string {
	var b strings.Builder
	for i, o := range ops {
		if i > 0 && (style/3)%2 == 0 {
			b.WriteByte(' ')
		}
		b.WriteString(o.F)
		b.WriteByte('(')
		for j, a := range o.A {
			if j > 0 {
				switch style % 3 {
				case 0:
					b.WriteByte(',')
				case 1:
					b.WriteByte(' ')
				default:
					b.WriteString(" , ")
				}
			}
			if style%3 == 2 && j == 0 {
				b.WriteByte(' ')
			}
			b.WriteString(itoa(a))
		}
		b.WriteByte(')')
	}
	return b.String()
}

// serPath writes path data. style%3 selects the separators; with (style/6)%2 == 1 a command letter is left out where SVG 1.1
// 8.3.2 allows it: when the command repeats the one before it, and for L after M / l after m (further coordinate pairs after a
// moveto are implicit lineto commands of the same relativity).
func serPath(segs []Cmd, style int) string {
	var b strings.Builder
	implicit := (style/6)%2 == 1
	prev := ""
	for i, c := range segs {
		omit := false
		if implicit && i > 0 && len(c.A) > 0 {
			switch {
			case c.C == prev && c.C != "M" && c.C != "m":
				omit = true
			case prev == "M" && c.C == "L", prev == "m" && c.C == "l":
				omit = true
			}
		}
		prev = c.C
		if i > 0 && (style%3 != 0 || omit) {
			b.WriteByte(' ')
		}
		if !omit {
			b.WriteString(c.C)
		}
		for j, a := range c.A {
			switch style % 3 {
			case 0:
				if j > 0 {
					b.WriteByte(' ')
				}
			case 1:
				if j > 0 || !omit {
					b.WriteByte(' ')
				}
			default:
				if j > 0 {
					if j%2 == 1 && len(c.A)%2 == 0 {
						b.WriteByte(',')
					} else {
						b.WriteByte(' ')
					}
				}
			}
			b.WriteString(itoa(a))
		}
	}
	return b.String()
}

func serPoints(pts [][2]int, style int) string {
	var b strings.Builder
	for i, p := range pts {
		switch style % 3 {
		case 0:
			if i > 0 {
				b.WriteByte(' ')
			}
			fmt.Fprintf(&b, "%d,%d", p[0], p[1])
		case 1:
			if i > 0 {
				b.WriteByte(' ')
			}
			fmt.Fprintf(&b, "%d %d", p[0], p[1])
		default:
			if i > 0 {
				b.WriteByte(',')
			}
			fmt.Fprintf(&b, "%d,%d", p[0], p[1])
		}
	}
	return b.String()
}

func serDecls(d []Decl, spaced bool) string {
	var b strings.Builder
	for i, x := range d {
		if i > 0 {
			b.WriteByte(';')
			if spaced {
				b.WriteByte(' ')
			}
		}
		b.WriteString(x.P)
		b.WriteByte(':')
		if spaced {
			b.WriteByte(' ')
		}
		b.WriteString(x.V)
	}
	return b.String()
}

func geoAttrs(e *Elem, ser []int) []kv {
	g := e.Geo
	omit0 := (ser[1]/9)%2 == 1
	var out []kv
	add := func(k string, v int, optional bool) {
		if optional && omit0 && v == 0 {
			return
		}
		out = append(out, kv{k, itoa(v)})
	}
	switch e.Kind {
	case "rect":
		add("x", g[0], true)
		add("y", g[1], true)
		add("width", g[2], false)
		add("height", g[3], false)
		if g[4] > 0 {
			if g[5] == 0 || g[5] == 2 {
				add("rx", g[4], false)
			}
			if g[5] == 1 || g[5] == 2 {
				add("ry", g[4], false)
			}
		}
	case "circle":
		add("cx", g[0], true)
		add("cy", g[1], true)
		if len(g) > 3 && g[3] > 0 {
			// a percentage of the normalised diagonal of the viewport (SVG 7.10); the model holds the percentage
			out = append(out, kv{"r", itoa(g[3]) + "%"})
		} else {
			add("r", g[2], false)
		}
	case "ellipse":
		add("cx", g[0], true)
		add("cy", g[1], true)
		add("rx", g[2], false)
		add("ry", g[3], false)
	case "line":
		add("x1", g[0], true)
		add("y1", g[1], true)
		add("x2", g[2], true)
		add("y2", g[3], true)
	case "polyline", "polygon":
		out = append(out, kv{"points", serPoints(e.Pts, ser[1]/3)})
	case "path":
		out = append(out, kv{"d", serPath(e.Segs, ser[3])})
	}
	return out
}

func styleAttrs(e *Elem, ser []int) []kv {
	var out []kv
	for _, a := range e.Attrs {
		switch a.N {
		case "style":
			out = append(out, kv{"style", serDecls(a.D, (ser[3]/3)%2 == 1)})
		case "transform":
			out = append(out, kv{"transform", serTransform(a.T, ser[2])})
		default:
			out = append(out, kv{a.N, a.V})
		}
	}
	return out
}

// Serialise writes the document.
func Serialise(d *Doc) string {
	ser := d.Ser
	for len(ser) < 4 {
		ser = append(ser, 0)
	}
	q := `"`
	if ser[0]%2 == 1 {
		q = `'`
	}
	explicitClose := (ser[0]/2)%2 == 1
	ws := []string{"", "\n", "\n  "}[(ser[0]/4)%3]
	var b strings.Builder
	if (ser[0]/12)%2 == 1 {
		b.WriteString(`<?xml version="1.0" encoding="UTF-8"?>` + "\n")
	}
	writeAttrs := func(as []kv) {
		for _, a := range as {
			b.WriteByte(' ')
			b.WriteString(a.k)
			b.WriteByte('=')
			b.WriteString(q)
			b.WriteString(a.v)
			b.WriteString(q)
		}
	}
	var open []int // depths of open groups
	closeTo := func(depth int) {
		for len(open) > 0 && open[len(open)-1] >= depth {
			b.WriteString("</g>")
			b.WriteString(ws)
			open = open[:len(open)-1]
		}
	}
	for i := range d.Es {
		e := &d.Es[i]
		if e.Kind == "svg" {
			b.WriteString("<svg")
			root := []kv{{"xmlns", "http://www.w3.org/2000/svg"}}
			if d.Unit != "absent" {
				for _, side := range []struct {
					name, mode string
					n          int
				}{{"width", d.WMode, d.W}, {"height", d.HMode, d.H}} {
					switch side.mode {
					case "", "x":
						root = append(root, kv{side.name, itoa(side.n) + d.Unit})
					case "a":
					default:
						root = append(root, kv{side.name, side.mode})
					}
				}
			}
			if d.HasVB {
				root = append(root, kv{"viewBox", fmt.Sprintf("%d %d %d %d", d.VB[0], d.VB[1], d.VB[2], d.VB[3])})
			}
			writeAttrs(append(root, styleAttrs(e, ser)...))
			b.WriteString(">")
			b.WriteString(ws)
			if len(d.Rules) > 0 {
				b.WriteString("<style>")
				spaced := (ser[3]/3)%2 == 1
				for _, r := range d.Rules {
					sel := ""
					for _, c := range r.Pre {
						sel += Sel{c.Typ, c.Cls, c.ID}.String()
						switch {
						case c.Comb == ">" && spaced:
							sel += " > "
						case c.Comb == ">":
							sel += ">"
						default:
							sel += " "
						}
					}
					sel += Sel{r.Typ, r.Cls, r.ID}.String()
					for _, a := range r.Alt {
						if spaced {
							sel += ", " + a.String()
						} else {
							sel += "," + a.String()
						}
					}
					if spaced {
						b.WriteString("\n " + sel + " { " + serDecls(r.D, true) + " }")
					} else {
						b.WriteString(sel + "{" + serDecls(r.D, false) + "}")
					}
				}
				if spaced {
					b.WriteString("\n")
				}
				b.WriteString("</style>")
				b.WriteString(ws)
			}
			continue
		}
		closeTo(e.Depth)
		ga, sa := geoAttrs(e, ser), styleAttrs(e, ser)
		var as []kv
		switch ser[1] % 3 {
		case 0:
			as = append(ga, sa...)
		case 1:
			as = append(sa, ga...)
		default: // interleave
			for len(ga) > 0 || len(sa) > 0 {
				if len(sa) > 0 {
					as = append(as, sa[0])
					sa = sa[1:]
				}
				if len(ga) > 0 {
					as = append(as, ga[0])
					ga = ga[1:]
				}
			}
		}
		b.WriteString("<" + e.Kind)
		writeAttrs(as)
		if e.Kind == "g" {
			b.WriteString(">")
			open = append(open, e.Depth)
		} else if explicitClose {
			b.WriteString("></" + e.Kind + ">")
		} else {
			b.WriteString("/>")
		}
		b.WriteString(ws)
	}
	closeTo(0)
	b.WriteString("</svg>")
	return b.String()
}
