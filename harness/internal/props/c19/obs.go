package c19

import (
	"fmt"
	"math"
	"os"
	"sort"
	"strings"

	"github.com/tdewolff/canvas"

	"verif/harness/internal/core"
	"verif/harness/internal/latgeo"
	"verif/harness/internal/oracle"
	"verif/harness/internal/rec"
)

// obsEvent is one paint the returned canvas performs when rendered: the fill or the stroke of a recorded path.
type obsEvent struct {
	kind  string
	rgba  [4]int
	cs    []oracle.Contour // the recorded path, flattened in its own coordinates
	junc  [][]bool         // which flattened points are junctions between path commands (joins apply there)
	inv   [6]float64       // inverse of the recorded matrix (canvas mm -> path coordinates)
	invOK bool
	rule  canvas.FillRule
	st    oracle.StrokeStyle
	layer int    // index of the recorded layer the paint belongs to
	note  string // why the event cannot be evaluated ("" if it can)
	path  string
}

func invert(m canvas.Matrix) (out [6]float64, ok bool) {
	a, b, c, d, e, f := m[0][0], m[0][1], m[0][2], m[1][0], m[1][1], m[1][2]
	det := a*e - b*d
	if det == 0 || math.IsNaN(det) || math.IsInf(det, 0) {
		return out, false
	}
	out = [6]float64{e / det, -b / det, (b*f - e*c) / det, -d / det, a / det, (d*c - a*f) / det}
	return out, true
}

func rgbaOf(p canvas.Paint) [4]int {
	return [4]int{int(p.Color.R), int(p.Color.G), int(p.Color.B), int(p.Color.A)}
}

func observe(c *canvas.Canvas) ([]obsEvent, string) {
	r := rec.New(c.W, c.H)
	c.RenderTo(r)
	var out []obsEvent
	for li, ev := range r.Events {
		if ev.Kind != "path" {
			return out, "unexpected-" + ev.Kind + "-layer"
		}
		segs, err := oracle.Decode(ev.Data)
		if err != nil {
			return out, "path-undecodable"
		}
		cs, junc := oracle.FlattenJunctions(segs, 96)
		inv, ok := invert(ev.M)
		base := obsEvent{cs: cs, junc: junc, inv: inv, invOK: ok, rule: ev.Style.FillRule, path: ev.Path.String(), layer: li}
		if ev.Style.HasFill() {
			e := base
			e.kind = "fill"
			e.rgba = rgbaOf(ev.Style.Fill)
			if !ev.Style.Fill.IsColor() {
				e.note = "fill-not-a-colour"
			}
			out = append(out, e)
		}
		if ev.Style.HasStroke() {
			e := base
			e.kind = "stroke"
			e.rgba = rgbaOf(ev.Style.Stroke)
			e.st = oracle.StrokeStyle{HW: ev.Style.StrokeWidth / 2, Cap: "other", Join: "other"}
			switch ev.Style.StrokeCapper.(type) {
			case canvas.ButtCapper:
				e.st.Cap = "butt"
			case canvas.RoundCapper:
				e.st.Cap = "round"
			case canvas.SquareCapper:
				e.st.Cap = "square"
			}
			switch j := ev.Style.StrokeJoiner.(type) {
			case canvas.BevelJoiner:
				e.st.Join = "bevel"
			case canvas.RoundJoiner:
				e.st.Join = "round"
			case canvas.MiterJoiner:
				if _, ok := j.GapJoiner.(canvas.BevelJoiner); ok {
					e.st.Join = "miter"
					e.st.Limit = j.Limit
				}
			}
			if !ev.Style.Stroke.IsColor() {
				e.note = "stroke-not-a-colour"
			} else if len(ev.Style.Dashes) > 0 {
				e.note = "stroke-dashed"
			}
			out = append(out, e)
		}
	}
	return out, ""
}

// samplePt maps sample k of the expected event into canvas millimetres (y up) of a canvas of size w x h.
func samplePt(e *Event, k int, w, h float64) oracle.Pt {
	sx := float64(e.GX + e.Step*(k%e.NX))
	sy := float64(e.GY + e.Step*(k/e.NX))
	a := e.Map.A
	fx := (float64(a[0])*sx + float64(a[1])*sy + float64(a[2])) / float64(e.Map.DX)
	fy := (float64(a[3])*sx + float64(a[4])*sy + float64(a[5])) / float64(e.Map.DY)
	return oracle.Pt{X: fx * w, Y: (1 - fy) * h}
}

// covers: does the observed paint cover canvas point p?
func (o *obsEvent) covers(p oracle.Pt) bool {
	q := oracle.Pt{X: o.inv[0]*p.X + o.inv[1]*p.Y + o.inv[2], Y: o.inv[3]*p.X + o.inv[4]*p.Y + o.inv[5]}
	if o.kind == "fill" {
		w := oracle.Winding(o.cs, q)
		if o.rule == canvas.EvenOdd {
			return w%2 != 0
		}
		return w != 0
	}
	return oracle.InStrokeJunctions(o.cs, o.junc, o.st, q)
}

// cellDiff returns the number of decided cells that disagree and the first of them (-1 if none).
func cellDiff(e *Event, o *obsEvent, w, h float64) (bad, first, inMiss, outHit int) {
	first = -1
	for k, v := range e.Cells {
		if v == 2 {
			continue
		}
		got := o.covers(samplePt(e, k, w, h))
		if got != (v == 1) {
			bad++
			if first < 0 {
				first = k
			}
			if v == 1 {
				inMiss++
			} else {
				outHit++
			}
		}
	}
	return
}

func hazKinds(haz []string, props ...string) []string {
	set := map[string]bool{}
	for _, h := range haz {
		i := strings.IndexByte(h, ':')
		if i < 0 {
			if h == "miterlimit-declared" {
				for _, p := range props {
					if p == "stroke-miterlimit" {
						set[h] = true
					}
				}
			}
			continue
		}
		for _, p := range props {
			if h[i+1:] == p {
				set[h[:i]] = true
			}
		}
	}
	out := make([]string, 0, len(set))
	for k := range set {
		out = append(out, k)
	}
	sort.Strings(out)
	return out
}

func has(list []string, s string) bool {
	for _, x := range list {
		if x == s {
			return true
		}
	}
	return false
}

// precedenceSig: a style value deviates; the signature says whether the scenario is one where the cascade is sensitive to the
// order of sources for that property (feature computed by the spec) and the observed value is one of the declared candidates.
func precedenceSig(prefix, prop string, haz []string, isCand bool) string {
	hk := hazKinds(haz, prop)
	if len(hk) == 0 || !isCand {
		return prefix + prop + "-wrong"
	}
	if has(hk, "miterlimit-declared") {
		hk2 := hk[:0:0]
		for _, k := range hk {
			if k != "miterlimit-declared" {
				hk2 = append(hk2, k)
			}
		}
		if len(hk2) == 0 {
			return prefix + "stroke-miterlimit-ineffective"
		}
		hk = hk2
	}
	if len(hk) == 1 {
		return prefix + "style-precedence+" + hk[0]
	}
	return prefix + "style-precedence+multiple"
}

// docFeatSuffix: the dominant feature (computed by the spec) of the document / drawing / outline that a region deviation is attributed to.
func docFeatSuffix(feat []string, evHaz []string) string {
	if has(evHaz, "line-reversal") {
		return "+line-reversal"
	}
	if has(evHaz, "pct-viewbox") {
		return "+pct-viewbox"
	}
	for _, f := range []string{"vb-origin", "aspect", "evenodd-differs"} {
		if has(feat, f) {
			return "+" + f
		}
	}
	return ""
}

// missingSig: a missing paint that the cascade features do not explain is "<prop>-missing", not "<prop>-wrong".
func missingSig(sig string) string {
	if strings.HasSuffix(sig, "-wrong") {
		return strings.TrimSuffix(sig, "-wrong") + "-missing"
	}
	return sig
}

// featOf: document features for documents; for round trips the features of the draw itself.
func featOf(sc *Scenario, e *Event) []string {
	if sc.Mode == "rt" {
		return e.Haz
	}
	return sc.Feat
}

func cellsSig(prefix, kind, suffix string) string {
	if suffix == "" {
		return prefix + "cells:" + kind
	}
	return prefix + "cells" + suffix
}

func inInts4(set [][4]int, v [4]int) bool {
	for _, x := range set {
		if x == v {
			return true
		}
	}
	return false
}
func inInts(set []int, v int) bool {
	for _, x := range set {
		if x == v {
			return true
		}
	}
	return false
}

// comparePair compares one expected event with one observed event.
func comparePair(sc *Scenario, e *Event, o *obsEvent, w, h float64, prefix string) (ms []core.Mismatch) {
	where := fmt.Sprintf("event el=%d %s", e.El, e.Kind)
	if o.note != "" {
		return []core.Mismatch{{Signature: prefix + o.note, Detail: where}}
	}
	if !o.invOK {
		return []core.Mismatch{{Signature: prefix + "matrix-singular", Detail: where}}
	}
	colProp := "fill"
	if e.Kind == "stroke" {
		colProp = "stroke"
	}
	if o.rgba != e.RGBA {
		ms = append(ms, core.Mismatch{Signature: precedenceSig(prefix, colProp, e.Haz, e.loose || inInts4(e.CD.Col, o.rgba)),
			Detail: fmt.Sprintf("%s: expected colour %s %v, observed %v (order-sensitive sources: %v)", where, e.Col, e.RGBA, o.rgba, hazKinds(e.Haz, colProp))})
	}
	bad, first, inMiss, outHit := cellDiff(e, o, w, h)
	if bad == 0 {
		return
	}
	if e.loose && len(hazKinds(e.Haz, colProp)) > 0 {
		// the number of paints differs and the document has order-sensitive sources for this paint: the pairing is uncertain
		return append(ms, core.Mismatch{Signature: precedenceSig(prefix, colProp, e.Haz, true),
			Detail: fmt.Sprintf("%s: region differs from the paired observed paint (path %s); the number of paints differs from the %d expected, so the pairing is uncertain (order-sensitive sources: %v)", where, o.path, len(sc.Events), hazKinds(e.Haz, colProp))})
	}
	p := samplePt(e, first, w, h)
	detail := fmt.Sprintf("%s: %d of %d decided samples differ (%d expected-in not painted, %d expected-out painted); first: sample %d at canvas (%.4f,%.4f) of %gx%g expected %d; observed path %s",
		where, bad, len(e.Cells), inMiss, outHit, first, p.X, p.Y, w, h, e.Cells[first], o.path)
	if e.Kind == "stroke" && o.kind == "stroke" {
		// which pen parameter differs? (only asked because the regions differ)
		expHW := float64(e.Info.HW) / 8
		type dv struct {
			prop string
			cand bool
			txt  string
		}
		var dvs []dv
		if sc.Mode != "rt" && math.Abs(o.st.HW-expHW) > 1e-9 { // (round trip: the writer bakes the view into the coordinates, widths are not comparable)
			dvs = append(dvs, dv{"stroke-width", inInts(e.CD.W, int(math.Round(o.st.HW*2))) && math.Abs(o.st.HW*2-math.Round(o.st.HW*2)) < 1e-9, fmt.Sprintf("width %g expected %g", o.st.HW*2, expHW*2)})
		}
		if o.st.Join != e.Info.Join {
			dvs = append(dvs, dv{"stroke-linejoin", has(e.CD.Join, o.st.Join), fmt.Sprintf("join %s expected %s", o.st.Join, e.Info.Join)})
		} else if e.Info.Join == "miter" && o.st.Limit != float64(e.Info.Lim) {
			dvs = append(dvs, dv{"stroke-miterlimit", inInts(e.CD.Lim, int(o.st.Limit)) && o.st.Limit == math.Round(o.st.Limit), fmt.Sprintf("miter limit %g expected %d", o.st.Limit, e.Info.Lim)})
		}
		if o.st.Cap != e.Info.Cap {
			dvs = append(dvs, dv{"stroke-linecap", has(e.CD.Cap, o.st.Cap), fmt.Sprintf("cap %s expected %s", o.st.Cap, e.Info.Cap)})
		}
		if len(dvs) > 0 {
			for _, d := range dvs {
				sig := precedenceSig(prefix, d.prop, e.Haz, d.cand || e.loose)
				if sc.Mode == "rt" && d.prop == "stroke-miterlimit" && o.st.Limit == 4 {
					sig = prefix + "stroke-miterlimit-ineffective" // the written stroke-miterlimit had no effect (default 4 observed)
				}
				ms = append(ms, core.Mismatch{Signature: sig, Detail: detail + "; " + d.txt + fmt.Sprintf(" (order-sensitive sources: %v)", hazKinds(e.Haz, d.prop))})
			}
			return
		}
	}
	ms = append(ms, core.Mismatch{Signature: cellsSig(prefix, e.Kind, docFeatSuffix(featOf(sc, e), e.Haz)), Detail: detail})
	return
}

// compare checks size and paint events of the canvas against the expectation of the scenario.
func compare(sc *Scenario, c *canvas.Canvas, prefix string) (ms []core.Mismatch) {
	// size ("a canvas of the specified size")
	if sc.Size[1] != 0 && sc.Size[3] != 0 {
		ew, eh := float64(sc.Size[0])/float64(sc.Size[1]), float64(sc.Size[2])/float64(sc.Size[3])
		if math.Abs(c.W-ew) > 1e-6*ew || math.Abs(c.H-eh) > 1e-6*eh {
			sig := prefix + "size-wrong"
			k := 96.0 / 25.4
			if math.Abs(c.W-ew*k) <= 1e-6*ew*k && math.Abs(c.H-eh*k) <= 1e-6*eh*k {
				sig = prefix + "size-px-as-mm"
			}
			ms = append(ms, core.Mismatch{Signature: sig, Detail: fmt.Sprintf("canvas is %.6g x %.6g mm, the document specifies %.6g x %.6g mm", c.W, c.H, ew, eh)})
		}
	}
	if !(c.W > 0 && c.H > 0) {
		ms = append(ms, core.Mismatch{Signature: prefix + "size-degenerate", Detail: fmt.Sprintf("canvas is %g x %g", c.W, c.H)})
		return
	}
	var obs []obsEvent
	var note string
	ok, pmsg := latgeo.Try(func() { obs, note = observe(c) })
	if !ok {
		return append(ms, core.Mismatch{Signature: prefix + "panic-render:" + latgeo.PanicClass(pmsg), Detail: fmt.Sprint(pmsg)})
	}
	if note != "" {
		return append(ms, core.Mismatch{Signature: prefix + note, Detail: note})
	}
	// alignment. A shape element paints at most a fill and a stroke, and the canvas records them in one layer. Every shape element
	// of the scenario (painted or not) is a group with its expected paints and the decided cells of its outline; every recorded layer
	// is a group with its observed paints. Groups are paired order-preservingly with the highest score: 7 (0 for an element without paints), plus 24 for the same
	// outline (up to 12 for a partial agreement of the layer's outline with the element's outline cells, see below), plus 3 for every paint kind
	// present on both sides with equal colours. Paired groups are compared paint by paint; unpaired paints are missing / extra.
	exp := sc.Events
	type egroup struct {
		el     int
		paints []int
		geo    *Event
		haz    []string
	}
	var eg []egroup
	var og [][]int
	for si := range sc.Shapes {
		sh := &sc.Shapes[si]
		g := egroup{el: sh.El, haz: sh.Haz}
		for i := range exp {
			if exp[i].El == sh.El {
				g.paints = append(g.paints, i)
				if exp[i].Kind == "fill" && exp[i].Info.Rule == 0 {
					g.geo = &exp[i]
				}
			}
		}
		if g.geo == nil && len(sh.FP) > 0 {
			g.geo = &sh.FP[0]
		}
		eg = append(eg, g)
	}
	for j := range obs {
		if j > 0 && obs[j].layer == obs[j-1].layer {
			og[len(og)-1] = append(og[len(og)-1], j)
		} else {
			og = append(og, []int{j})
		}
	}
	n, m := len(eg), len(og)
	painting := 0
	for _, g := range eg {
		if len(g.paints) > 0 {
			painting++
		}
	}
	if painting != m && len(sc.Haz) > 0 {
		// the number of painting elements differs: which layer belongs to which element is less certain, so the
		// order-sensitivity features of the whole document apply to every paint
		exp = append([]Event(nil), exp...)
		for i := range exp {
			exp[i].Haz = append(append([]string(nil), exp[i].Haz...), sc.Haz...)
			exp[i].loose = true
		}
	}
	// same: indices of the paints of two groups that correspond (same kind; round trip with a single paint each: any kind)
	same := func(a, b []int) (pairs [][2]int) {
		if sc.Mode == "rt" && len(a) == 1 && len(b) == 1 {
			return [][2]int{{a[0], b[0]}}
		}
		for _, i := range a {
			for _, j := range b {
				if exp[i].Kind == obs[j].kind {
					pairs = append(pairs, [2]int{i, j})
				}
			}
		}
		return
	}
	score := make([][]int, n)
	for a := range eg {
		score[a] = make([]int, m)
		for b := range og {
			v := 7
			if len(eg[a].paints) == 0 {
				v = 0 // an element that should paint nothing is paired with a layer only on the strength of its outline
			}
			o := obs[og[b][0]]
			if eg[a].geo != nil && (o.invOK || sc.Doc != nil) {
				// agreement of the layer's outline with the element's outline cells: 24 if no decided sample differs, else 12 * (share of
				// the expected-in samples inside the outline - share of the expected-out samples inside it); 2 if nothing is decided in and
				// nothing differs.
				// Documents: the outline is compared in the element's own user space (the recorded path before its matrix, shifted by
				// the element's x,y / cx,cy when the library draws the shape at the origin), so the pairing does not depend on the
				// viewport mapping or on the transforms. Round trip: in canvas space (the writer bakes the view into the coordinates).
				g := eg[a].geo
				nIn, nOut := 0, 0
				for _, v := range g.Cells {
					if v == 1 {
						nIn++
					} else if v == 0 {
						nOut++
					}
				}
				grade := func(bad, inMiss, outHit int) int {
					if nIn == 0 {
						if bad == 0 {
							return 2
						}
						return 0
					}
					if bad == 0 {
						return 24 // the same outline: outweighs everything else (7 + 2*3)
					}
					f := float64(nIn-inMiss) / float64(nIn)
					if nOut > 0 {
						f -= float64(outHit) / float64(nOut)
					}
					if f > 0 {
						return int(12*f + 0.5)
					}
					return 0
				}
				if sc.Doc != nil {
					offs := [][2]float64{{0, 0}}
					if e := sc.Doc.Es[eg[a].el-1]; len(e.Geo) >= 2 {
						offs = append(offs, [2]float64{float64(e.Geo[0]), float64(e.Geo[1])})
					}
					bestG := 0
					for _, off := range offs {
						bad, inMiss, outHit := 0, 0, 0
						for k, cv := range g.Cells {
							if cv == 2 {
								continue
							}
							q := oracle.Pt{X: float64(g.GX+g.Step*(k%g.NX))/8 - off[0], Y: float64(g.GY+g.Step*(k/g.NX))/8 - off[1]}
							if (oracle.Winding(o.cs, q) != 0) != (cv == 1) {
								bad++
								if cv == 1 {
									inMiss++
								} else {
									outHit++
								}
							}
						}
						bestG = max(bestG, grade(bad, inMiss, outHit))
					}
					// second means of recognition: every junction of the recorded path is a vertex of the element's outline
					// (outlines without area and outlines made of curves have few or no decided cells)
					if vs := sc.Shapes[a].VS; len(vs) > 0 {
						set := map[[2]float64]bool{}
						for _, p := range vs {
							set[[2]float64{float64(p[0]) / 8, float64(p[1]) / 8}] = true
						}
						all, cnt := true, 0
						for ci, cc := range o.cs {
							for pi, q := range cc.Pts {
								if ci < len(o.junc) && pi < len(o.junc[ci]) && !o.junc[ci][pi] {
									continue
								}
								cnt++
								if !set[[2]float64{q.X, q.Y}] {
									all = false
								}
							}
						}
						if all && cnt >= 2 {
							bestG = max(bestG, 24)
						}
					}
					v += bestG
				} else {
					outline := o
					outline.kind, outline.rule, outline.note = "fill", canvas.NonZero, ""
					bad, _, inMiss, outHit := cellDiff(g, &outline, c.W, c.H)
					v += grade(bad, inMiss, outHit)
				}
			}
			for _, p := range same(eg[a].paints, og[b]) {
				if obs[p[1]].rgba == exp[p[0]].RGBA {
					v += 3
				}
			}
			score[a][b] = v
		}
	}
	best := make([][]int, n+1)
	for i := range best {
		best[i] = make([]int, m+1)
	}
	for i := n - 1; i >= 0; i-- {
		for j := m - 1; j >= 0; j-- {
			best[i][j] = max(best[i+1][j], best[i][j+1], best[i+1][j+1]+score[i][j])
		}
	}
	if os.Getenv("VC19_DEBUG") != "" {
		fmt.Fprintln(os.Stderr, "groups", n, m, "score", score, "best", best)
	}
	missing := func(i int) {
		e := &exp[i]
		if e.Opt { // a paint without decided painted samples may be absent
			return
		}
		prop := "fill"
		if e.Kind == "stroke" {
			prop = "stroke"
		}
		ms = append(ms, core.Mismatch{Signature: missingSig(precedenceSig(prefix, prop, e.Haz, true)),
			Detail: fmt.Sprintf("expected paint missing: el=%d %s %s %v (order-sensitive sources: %v)", e.El, e.Kind, e.Col, e.RGBA, hazKinds(e.Haz, prop))})
	}
	extra := func(j int, haz []string, el int) {
		o := &obs[j]
		sig := prefix + o.kind + "-extra"
		if hk := hazKinds(haz, o.kind); len(hk) == 1 {
			sig = prefix + "style-precedence+" + hk[0]
		} else if len(hk) > 1 {
			sig = prefix + "style-precedence+multiple"
		}
		ms = append(ms, core.Mismatch{Signature: sig, Detail: fmt.Sprintf("unexpected paint (paired with el=%d): %s %v of path %s (order-sensitive sources for %s: %v)", el, o.kind, o.rgba, o.path, o.kind, hazKinds(haz, o.kind))})
	}
	i, j := 0, 0
	for i < n || j < m {
		if i < n && j < m && best[i][j] == best[i+1][j+1]+score[i][j] && (len(eg[i].paints) > 0 || best[i][j] > best[i+1][j]) {
			ps := same(eg[i].paints, og[j])
			usedE, usedO := map[int]bool{}, map[int]bool{}
			for _, p := range ps {
				usedE[p[0]], usedO[p[1]] = true, true
				ms = append(ms, comparePair(sc, &exp[p[0]], &obs[p[1]], c.W, c.H, prefix)...)
			}
			for _, x := range eg[i].paints {
				if !usedE[x] {
					missing(x)
				}
			}
			for _, y := range og[j] {
				if !usedO[y] {
					h := eg[i].haz
					if painting != m {
						h = append(append([]string(nil), h...), sc.Haz...)
					}
					extra(y, h, eg[i].el)
				}
			}
			i, j = i+1, j+1
		} else if j < m && (i == n || best[i][j] == best[i][j+1]) {
			for _, y := range og[j] {
				extra(y, sc.Haz, 0)
			}
			j++
		} else {
			for _, x := range eg[i].paints {
				missing(x)
			}
			i++
		}
	}
	return
}
