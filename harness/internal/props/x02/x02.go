// Package x02: extension check (not one of the listed properties): FontFamily.Face maps a requested style and variant
// to the nearest loaded font and makes up for the difference with faux styles (spec/FontMatch.tla).
//
// spec -> code: TLC enumerates every set of up to MaxLoaded loaded styles and prints, for each of the 18 x 3 requests,
// the set of allowed answers (chosen font's style, faux bold in units of 0.005, sign of faux italic). The driver loads
// one font file under the given style labels into a real FontFamily, calls Face for every request (several times, the
// function must be deterministic) and compares.
package x02

import (
	"encoding/json"
	"fmt"
	"math"
	"os"
	"sort"
	"sync/atomic"
	"time"

	"github.com/tdewolff/canvas"

	"verif/harness/internal/core"
	"verif/harness/internal/latgeo"
	"verif/harness/internal/tlc"
)

type Driver struct{}

func (Driver) ID() string { return "X02" }

type Case struct {
	Req     int      `json:"req"`
	Variant string   `json:"variant"`
	Eff     int      `json:"eff"`
	Allowed [][3]int `json:"allowed"`
}

type Scenario struct {
	Loaded []int  `json:"loaded"`
	Cases  []Case `json:"cases"`
}

var fontData []byte

func styleName(c int) string { return canvas.FontStyle(c).String() }

func variantOf(v string) canvas.FontVariant {
	switch v {
	case "sub":
		return canvas.FontSubscript
	case "super":
		return canvas.FontSuperscript
	}
	return canvas.FontNormal
}

const repeats = 6

func exec(s *Scenario) (ms []core.Mismatch) {
	var family *canvas.FontFamily
	ok, msg := latgeo.Try(func() {
		family = canvas.NewFontFamily("x02")
		for _, c := range s.Loaded {
			if err := family.LoadFont(fontData, 0, canvas.FontStyle(c)); err != nil {
				panic(err)
			}
		}
	})
	if !ok {
		return []core.Mismatch{{Signature: "machinery", Detail: fmt.Sprint("cannot load the font: ", msg)}}
	}
	loaded := []string{}
	for _, c := range s.Loaded {
		loaded = append(loaded, styleName(c))
	}
	sort.Strings(loaded)
	for _, cs := range s.Cases {
		var first [3]int
		for rep := 0; rep < repeats; rep++ {
			var face *canvas.FontFace
			if ok, msg := latgeo.Try(func() { face = family.Face(10.0, canvas.FontStyle(cs.Req), variantOf(cs.Variant)) }); !ok {
				ms = append(ms, core.Mismatch{Signature: "panic-Face:" + latgeo.PanicClass(msg), Detail: fmt.Sprintf("loaded=%v Face(%s, %s): %v", loaded, styleName(cs.Req), cs.Variant, msg)})
				break
			}
			fb := face.FauxBold / 0.005
			fi := 0
			if face.FauxItalic != 0 {
				fi = 1
				if face.FauxItalic < 0 {
					fi = -1
				}
			}
			got := [3]int{int(face.Font.Style()), int(math.Round(fb)), fi}
			where := fmt.Sprintf("loaded=%v Face(%s, %s)", loaded, styleName(cs.Req), cs.Variant)
			if rep > 0 {
				if got != first {
					ms = append(ms, core.Mismatch{Signature: "face-nondeterministic+tie", Detail: fmt.Sprintf("%s: call 1 chose %s (faux bold %d, italic %d), call %d chose %s (faux bold %d, italic %d)",
						where, styleName(first[0]), first[1], first[2], rep+1, styleName(got[0]), got[1], got[2])})
					break
				}
				continue
			}
			first = got
			if math.Abs(fb-math.Round(fb)) > 1e-6 {
				ms = append(ms, core.Mismatch{Signature: "face-fauxbold-off-grid", Detail: fmt.Sprintf("%s: FauxBold %.6f is not a difference of FauxWeight values", where, face.FauxBold)})
			}
			if fi != 0 && math.Abs(math.Abs(face.FauxItalic)-0.3) > 1e-9 {
				ms = append(ms, core.Mismatch{Signature: "face-fauxitalic-value", Detail: fmt.Sprintf("%s: FauxItalic %.6f, expected +-0.3 for a font with italic angle 0", where, face.FauxItalic)})
			}
			if int(face.Style) != cs.Eff {
				ms = append(ms, core.Mismatch{Signature: "face-style", Detail: fmt.Sprintf("%s: face.Style = %s, expected %s", where, styleName(int(face.Style)), styleName(cs.Eff))})
			}
			okAns, font, ties := false, false, len(cs.Allowed) > 1
			for _, a := range cs.Allowed {
				if a == got {
					okAns = true
				}
				if a[0] == got[0] {
					font = true
				}
			}
			tie := ""
			if ties {
				tie = "+tie"
			}
			switch {
			case okAns:
			case !font:
				ms = append(ms, core.Mismatch{Signature: "face-not-nearest" + tie, Detail: fmt.Sprintf("%s chose the font loaded as %s; nearest: %v", where, styleName(got[0]), cs.Allowed)})
			case got[1] != pick(cs.Allowed, got[0])[1]:
				ms = append(ms, core.Mismatch{Signature: "face-fauxbold" + tie, Detail: fmt.Sprintf("%s chose %s with faux bold %d units of 0.005, expected %d", where, styleName(got[0]), got[1], pick(cs.Allowed, got[0])[1])})
			default:
				ms = append(ms, core.Mismatch{Signature: "face-fauxitalic" + tie, Detail: fmt.Sprintf("%s chose %s with faux italic sign %d, expected %d", where, styleName(got[0]), got[2], pick(cs.Allowed, got[0])[2])})
			}
		}
	}
	return
}

func pick(as [][3]int, font int) [3]int {
	for _, a := range as {
		if a[0] == font {
			return a
		}
	}
	return [3]int{}
}

func (Driver) Replay(c *core.Ctx, raw json.RawMessage) []core.Mismatch {
	var s Scenario
	if err := json.Unmarshal(raw, &s); err != nil {
		return []core.Mismatch{{Signature: "machinery", Detail: err.Error()}}
	}
	if err := load(); err != nil {
		return []core.Mismatch{{Signature: "machinery", Detail: err.Error()}}
	}
	return exec(&s)
}

func load() (err error) {
	if fontData == nil {
		fontData, err = os.ReadFile("/repo/resources/DejaVuSerif.ttf")
	}
	return
}

func cfg(maxLoaded int, mc bool) string {
	s := fmt.Sprintf("SPECIFICATION Spec\nCONSTANTS MaxLoaded = %d\nCHECK_DEADLOCK FALSE\n", maxLoaded)
	if mc {
		s += "INVARIANTS NonEmpty ExactWins WeightPreserved SlantPreserved Bounded\n"
	}
	return s
}

func (d Driver) Run(c *core.Ctx) error {
	c.Rule = "scenario = one set of loaded styles (every set of 1..MaxLoaded of the 18 styles) with all 18 x 3 requests; evaluations = Face calls; non-trivial = requests without an exactly matching loaded font (nearest-font search and faux styles are exercised); distinct by (loaded set, request, variant)"
	c.Assumptions = []string{"one font file (DejaVuSerif, italic angle 0) is loaded under every style label: the label, not the font's own tables, is what FontFamily matches on"}
	if err := load(); err != nil {
		return err
	}
	// design level: the laws of the relation on all sets of up to 2 styles
	c.TLC(tlc.Opts{Module: "FontMatch", Config: cfg(2, true), Workers: 8, OnLine: func([]byte) {}}, true)
	var nontriv, ran int64
	ch := make(chan []byte, 256)
	done := make(chan struct{})
	go func() {
		core.Parallel(12, ch, func(p []byte) {
			var s Scenario
			if err := json.Unmarshal(p, &s); err != nil || len(s.Cases) != 54 {
				c.Broken(fmt.Sprintf("bad scenario line (%d cases): %v", len(s.Cases), err))
				return
			}
			for _, cs := range s.Cases {
				exact := false
				for _, l := range s.Loaded {
					if l == cs.Eff {
						exact = true
					}
				}
				if !exact {
					atomic.AddInt64(&nontriv, 1)
				}
			}
			ms := exec(&s)
			c.Count(int64(54*repeats), 0, 1)
			if atomic.AddInt64(&ran, 1) == 40 {
				c.Sample(map[string]any{"loaded": s.Loaded, "first_cases": s.Cases[:3]})
			}
			// one report per signature and scenario (a scenario has 54 requests)
			seen := map[string]bool{}
			var uniq []core.Mismatch
			for _, m := range ms {
				if !seen[m.Signature] {
					seen[m.Signature] = true
					uniq = append(uniq, m)
				}
			}
			c.Report(&s, uniq)
		})
		close(done)
	}()
	c.TLC(tlc.Opts{Module: "FontMatch", Config: cfg(c.Pick(3, 4), false), Workers: 8, Timeout: 30 * time.Minute, OnLine: func(p []byte) { ch <- append([]byte(nil), p...) }}, true)
	close(ch)
	<-done
	c.Count(0, nontriv, 0)
	c.SetExtra("loaded_sets", ran)
	return nil
}
