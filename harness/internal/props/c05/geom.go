package c05

import (
	"fmt"
	"math"

	"github.com/tdewolff/canvas"

	"verif/harness/internal/latgeo"
	"verif/harness/internal/oracle"
)

// Sub is one abstract sub-path of a scenario: a lattice polyline (shape "poly") or a named curve whose total length
// is L units by construction ("circle", "quad", ...). Events of the trace direction carry only L and closed.
type Sub struct {
	Shape  string   `json:"shape"`
	Pts    [][2]int `json:"pts"`
	Closed bool     `json:"closed"`
	L      int      `json:"L"`
}

// sim is a similarity x' = s*R(x) + t composed from a shape scale and an embedding.
type sim struct{ a, b, c, d, e, f float64 }

func (m sim) pt(x, y float64) (float64, float64) { return m.a*x + m.b*y + m.e, m.c*x + m.d*y + m.f }
func (m sim) scale() float64                     { return math.Sqrt(math.Abs(m.a*m.d - m.b*m.c)) }
func (m sim) angleDeg() float64                  { return math.Atan2(m.c, m.a) * 180 / math.Pi }
func (m sim) reflects() bool                     { return m.a*m.d-m.b*m.c < 0 }

func fromEmb(e latgeo.Emb, g, ox, oy float64) sim {
	// first scale the reference shape by g and move it to (ox,oy) in lattice units, then embed
	return sim{e.A * g, e.B * g, e.C * g, e.D * g, e.A*ox + e.B*oy + e.E, e.C*ox + e.D*oy + e.F}
}

// cmd is one drawing command of a reference shape.
type cmd struct {
	op           byte // M L Q C A z
	x1, y1       float64
	x2, y2       float64
	x, y         float64
	rx, ry, rot  float64
	large, sweep bool
}

// reference shapes (lattice units); all simple (no self-intersection) so that points locate uniquely
var shapes = map[string][]cmd{
	"circle":  {{op: 'M', x: 5, y: 0}, {op: 'A', rx: 5, ry: 5, sweep: true, x: -5, y: 0}, {op: 'A', rx: 5, ry: 5, sweep: true, x: 5, y: 0}, {op: 'z'}},
	"bigarc":  {{op: 'M', x: 5, y: 0}, {op: 'A', rx: 5, ry: 5, large: true, sweep: true, x: 0, y: -5}},
	"quarter": {{op: 'M', x: 6, y: 0}, {op: 'A', rx: 6, ry: 6, sweep: true, x: 0, y: 6}},
	"quad":    {{op: 'M', x: 0, y: 0}, {op: 'Q', x1: 4, y1: 6, x: 8, y: 0}},
	"cubic":   {{op: 'M', x: 0, y: 0}, {op: 'C', x1: 2, y1: 6, x2: 6, y2: 6, x: 8, y: 0}},
	"cubic-s": {{op: 'M', x: 0, y: 0}, {op: 'C', x1: 8, y1: 0, x2: 0, y2: 6, x: 8, y: 6}},
	// collinear quadratics whose control point lies beyond an end point (the curve runs out and comes back), then a line
	"quad-over":  {{op: 'M', x: 0, y: 0}, {op: 'Q', x1: 3, y1: 0, x: 1, y: 0}, {op: 'L', x: 1, y: 4}},
	"quad-under": {{op: 'M', x: 0, y: 0}, {op: 'Q', x1: -2, y1: 0, x: 3, y: 0}, {op: 'L', x: 3, y: 4}},
	// cubics with two inflection points strictly inside (0,1) (Path.Length splits them in three pieces)
	"cubic-2i-a": {{op: 'M', x: 0, y: 0}, {op: 'C', x1: 9, y1: 6, x2: 1, y2: 6, x: 10, y: 0}},
	"cubic-2i-b": {{op: 'M', x: 0, y: 0}, {op: 'C', x1: 4.5, y1: 3, x2: 1.5, y2: 6, x: 6, y: 0}},
	"cubic-2i-c": {{op: 'M', x: 0, y: 0}, {op: 'C', x1: 6, y1: 2, x2: 1, y2: 6, x: 6, y: 1}},
	"ellipse":    {{op: 'M', x: 6, y: 0}, {op: 'A', rx: 6, ry: 3, sweep: true, x: -6, y: 0}, {op: 'A', rx: 6, ry: 3, sweep: true, x: 6, y: 0}, {op: 'z'}},
	"mixed": {{op: 'M', x: 0, y: 0}, {op: 'L', x: 6, y: 0}, {op: 'Q', x1: 9, y1: 0, x: 9, y: 3}, {op: 'A', rx: 3, ry: 3, sweep: true, x: 6, y: 6},
		{op: 'L', x: 0, y: 6}, {op: 'z'}},
	"mixed-open": {{op: 'M', x: 0, y: 0}, {op: 'C', x1: 0, y1: 4, x2: 4, y2: 4, x: 4, y: 0}, {op: 'L', x: 8, y: 0}, {op: 'A', rx: 4, ry: 4, sweep: true, x: 12, y: 4}},
}

func emit(p *canvas.Path, cs []cmd, m sim) {
	for _, c := range cs {
		switch c.op {
		case 'M':
			x, y := m.pt(c.x, c.y)
			p.MoveTo(x, y)
		case 'L':
			x, y := m.pt(c.x, c.y)
			p.LineTo(x, y)
		case 'Q':
			x1, y1 := m.pt(c.x1, c.y1)
			x, y := m.pt(c.x, c.y)
			p.QuadTo(x1, y1, x, y)
		case 'C':
			x1, y1 := m.pt(c.x1, c.y1)
			x2, y2 := m.pt(c.x2, c.y2)
			x, y := m.pt(c.x, c.y)
			p.CubeTo(x1, y1, x2, y2, x, y)
		case 'A':
			x, y := m.pt(c.x, c.y)
			sw := c.sweep
			if m.reflects() {
				sw = !sw
			}
			p.ArcTo(c.rx*m.scale(), c.ry*m.scale(), c.rot+m.angleDeg(), c.large, sw, x, y)
		case 'z':
			p.Close()
		}
	}
}

var refLen = map[string]float64{}

func init() {
	for name, cs := range shapes {
		p := &canvas.Path{}
		emit(p, cs, sim{1, 0, 0, 1, 0, 0})
		segs, err := oracle.Decode(p.Data())
		if err != nil {
			panic(err)
		}
		refLen[name] = oracle.Length(closeAll(oracle.Flatten(segs, 8192)))
	}
}

// closeAll appends the start point to closed contours so that Length includes the closing edge.
func closeAll(cs []oracle.Contour) []oracle.Contour {
	out := make([]oracle.Contour, len(cs))
	for i, c := range cs {
		out[i] = c
		if c.Closed && len(c.Pts) > 0 {
			out[i].Pts = append(append([]oracle.Pt(nil), c.Pts...), c.Pts[0])
		}
	}
	return out
}

// unitOf is the real length of one abstract unit under the embedding.
func unitOf(e latgeo.Emb) float64 { return math.Sqrt(math.Abs(e.Det())) }

// buildPath realises the abstract sub-paths. Sub-paths without geometry (trace events: shape "") become straight
// or L-shaped/rectangular polylines of the stated integer length.
func buildPath(subs []Sub, e latgeo.Emb) (*canvas.Path, error) {
	p := &canvas.Path{}
	for j, s := range subs {
		switch {
		case s.Shape == "poly":
			for i, v := range s.Pts {
				x, y := e.Map(float64(v[0]), float64(v[1]))
				if i == 0 {
					p.MoveTo(x, y)
				} else {
					p.LineTo(x, y)
				}
			}
			if s.Closed {
				p.Close()
			}
		default:
			cs, ok := shapes[s.Shape]
			if !ok {
				return nil, fmt.Errorf("unknown shape %q", s.Shape)
			}
			g := float64(s.L) / refLen[s.Shape]
			emit(p, cs, fromEmb(e, g, 40*float64(j), 11*float64(j)))
		}
	}
	return p, nil
}

func isCurve(subs []Sub) bool {
	for _, s := range subs {
		if s.Shape != "poly" {
			return true
		}
	}
	return false
}

// curvesOf decodes a real path into one arc-length parametrised fine polyline per sub-path.
func curvesOf(d []float64, n int) ([]*oracle.Curve, error) {
	segs, err := oracle.Decode(d)
	if err != nil {
		return nil, err
	}
	cs := oracle.Flatten(segs, n)
	out := make([]*oracle.Curve, len(cs))
	for i, c := range cs {
		out[i] = oracle.NewCurve(c)
	}
	return out, nil
}

// Interval of one returned piece on the input: sub-path index and arc lengths (b > length for a piece through the
// start point of a closed sub-path).
type piece struct {
	sub  int
	a, b float64
}

func overlapLin(a0, a1, b0, b1 float64) float64 { return math.Min(a1, b1) - math.Max(a0, b0) }

// overlap of two arc-length intervals on a curve of length L (closed: intervals may exceed L and wrap)
func overlap(x, y piece, L float64, closed bool) float64 {
	if !closed {
		return overlapLin(x.a, x.b, y.a, y.b)
	}
	best := math.Inf(-1)
	for _, dx := range []float64{-L, 0, L} {
		best = math.Max(best, overlapLin(x.a+dx, x.b+dx, y.a, y.b))
	}
	return best
}

// mapPieces assigns every returned piece to the first place (sub-path order, then arc length) of the input where it
// lies on the input path and that no earlier piece occupies.
func mapPieces(in []*oracle.Curve, out []*oracle.Curve, tolD, merge float64) ([]piece, error) {
	var res []piece
	for pi, pc := range out {
		found := false
	search:
		for j, c := range in {
			for _, s0 := range c.Locate(pc.Pts[0], tolD, merge) {
				if !c.Fits(pc, s0, tolD, merge) {
					continue
				}
				cand := piece{j, s0, s0 + pc.Length()}
				free := true
				if pc.Length() > merge {
					for _, u := range res {
						if u.sub == j && overlap(cand, u, c.Length(), c.Closed) > merge {
							free = false
						}
					}
				}
				if free {
					res = append(res, cand)
					found = true
					break search
				}
			}
		}
		if !found {
			return res, fmt.Errorf("piece %d (starts at %.6g,%.6g, length %.6g) does not lie on the input path (or only where an earlier piece lies)", pi, pc.Pts[0].X, pc.Pts[0].Y, pc.Length())
		}
	}
	return res, nil
}

// inOrder: sub-path indices never decrease; inside an open sub-path the pieces ascend, inside a closed one they ascend
// cyclically (the piece through the start point may come first).
func inOrder(ps []piece, in []*oracle.Curve) bool {
	for i := 1; i < len(ps); i++ {
		if ps[i].sub < ps[i-1].sub {
			return false
		}
	}
	for j, c := range in {
		var a []float64
		for _, p := range ps {
			if p.sub == j {
				a = append(a, p.a)
			}
		}
		desc := 0
		for i := 1; i < len(a); i++ {
			if a[i] < a[i-1] {
				desc++
			}
		}
		if desc > 1 || (desc == 1 && (!c.Closed || a[len(a)-1] > a[0])) {
			return false
		}
	}
	return true
}
