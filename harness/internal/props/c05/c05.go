// Package c05: Path.Dash cuts the path by arc length according to the pattern (spec/Dash.tla, spec/Trace_Dash.tla).
//
// Direction 1 (spec -> code): TLC enumerates (path, pattern, offset) with the expected drawn arc-length intervals per
// sub-path computed by the definition in Dash.tla; each scenario is executed by the real Path.Dash under several
// similarity embeddings; the returned pieces are located on the input by the independent arc-length oracle.
// Direction 2 (code -> spec): a seeded driver executes random Dash calls (longer paths, longer patterns, far offsets,
// curves) and Context.SetDashes/DrawPath sequences observed through the recording renderer; Trace_Dash.tla judges
// every event.
package c05

import (
	"encoding/json"
	"fmt"
	"math"
	"os"
	"sort"
	"strings"
	"sync"
	"sync/atomic"
	"time"

	"verif/harness/internal/core"
	"verif/harness/internal/latgeo"
	"verif/harness/internal/tlc"
)

type Driver struct{}

func (Driver) ID() string { return "C05" }

// Scenario is the self-contained replay unit.
type Scenario struct {
	Kind string          `json:"kind"` // "dash" | "ctx"
	Subs []Sub           `json:"subs"`
	D    []int           `json:"d"`
	Off  int             `json:"off"`
	Exp  [][][2]int      `json:"exp"` // expected intervals per sub-path (spec), in units
	F    map[string]bool `json:"f"`
	Q    int             `json:"q"`   // observations are compared in 1/Q units
	Tol  int             `json:"tol"` // tolerance in 1/Q units (0 for polylines)
	Emb  latgeo.Emb      `json:"emb"`
}

func (s *Scenario) svg() string {
	var b strings.Builder
	for _, u := range s.Subs {
		if u.Shape != "poly" {
			fmt.Fprintf(&b, "<%s L=%d>", u.Shape, u.L)
			continue
		}
		for i, v := range u.Pts {
			if i == 0 {
				fmt.Fprintf(&b, "M%d %d", v[0], v[1])
			} else {
				fmt.Fprintf(&b, "L%d %d", v[0], v[1])
			}
		}
		if u.Closed {
			b.WriteString("z")
		}
	}
	return b.String()
}

func (s *Scenario) tag() string {
	t := "poly"
	if isCurve(s.Subs) {
		t = "curve"
	}
	return t
}

// Obs is what one Dash call showed.
type Obs struct {
	Iv   [][][2]int // per sub-path, ascending, in 1/Q units
	Ord  bool
	Same bool // caller's slice and input path unchanged
	Bad  string
}

func floats(d []int, unit float64) []float64 {
	out := make([]float64, len(d))
	for i, v := range d {
		out[i] = float64(v) * unit
	}
	return out
}

func eqF(a, b []float64) bool {
	if len(a) != len(b) {
		return false
	}
	for i := range a {
		if a[i] != b[i] && !(math.IsNaN(a[i]) && math.IsNaN(b[i])) {
			return false
		}
	}
	return true
}

// observeDash executes the real Path.Dash and projects the result on arc-length intervals.
// machinery != "" reports a failure of the harness itself (geometry does not have the stated lengths).
func observeDash(s *Scenario) (o Obs, machinery string) {
	unit := unitOf(s.Emb)
	p, err := buildPath(s.Subs, s.Emb)
	if err != nil {
		return o, err.Error()
	}
	curve := isCurve(s.Subs)
	nIn, nOut := 1, 1
	if curve {
		nIn, nOut = 4096, 512
	}
	in, err := curvesOf(p.Data(), nIn)
	if err != nil {
		return o, "input undecodable: " + err.Error()
	}
	if len(in) != len(s.Subs) {
		return o, fmt.Sprintf("built path has %d sub-paths, scenario %d", len(in), len(s.Subs))
	}
	size := 0.0
	for j, c := range in {
		want := float64(s.Subs[j].L) * unit
		rel := 1e-9
		if curve {
			rel = 1e-6
		}
		if math.Abs(c.Length()-want) > rel*want || c.Closed != s.Subs[j].Closed {
			return o, fmt.Sprintf("sub-path %d as built has length %.12g closed=%v, scenario says %.12g closed=%v", j, c.Length(), c.Closed, want, s.Subs[j].Closed)
		}
		size = math.Max(size, c.Length())
	}
	before := append([]float64(nil), p.Data()...)
	d := floats(s.D, unit)
	dcopy := append([]float64(nil), d...)
	r := p.Dash(float64(s.Off)*unit, d...)
	o.Same = eqF(d, dcopy) && eqF(p.Data(), before)
	out, err := curvesOf(r.Data(), nOut)
	if err != nil {
		o.Bad = "result undecodable: " + err.Error()
		return
	}
	tolD, merge := 1e-7*size, 1e-6*size
	if curve {
		tolD, merge = 2e-4*size, 2e-3*unit
	}
	ps, err := mapPieces(in, out, tolD, merge)
	if err != nil {
		o.Bad = err.Error()
		return
	}
	o.Ord = inOrder(ps, in)
	o.Iv = make([][][2]int, len(in))
	for j := range o.Iv {
		o.Iv[j] = [][2]int{}
	}
	q := float64(s.Q)
	for _, pc := range ps {
		a, b := pc.a/unit*q, pc.b/unit*q
		if in[pc.sub].Closed && float64(s.Subs[pc.sub].L)*q-a <= float64(s.Tol) && s.Tol > 0 {
			a, b = a-float64(s.Subs[pc.sub].L)*q, b-float64(s.Subs[pc.sub].L)*q
		}
		ra, rb := math.Round(a), math.Round(b)
		if s.Tol == 0 && (math.Abs(a-ra) > 1e-6 || math.Abs(b-rb) > 1e-6) {
			o.Bad = fmt.Sprintf("piece on sub-path %d covers [%.9g, %.9g] units: not on the unit grid", pc.sub, a, b)
			return
		}
		o.Iv[pc.sub] = append(o.Iv[pc.sub], [2]int{int(ra), int(rb)})
	}
	for j := range o.Iv {
		sort.Slice(o.Iv[j], func(x, y int) bool { return o.Iv[j][x][0] < o.Iv[j][y][0] })
		if s.Tol > 0 {
			o.Iv[j] = normalise(o.Iv[j], s.Subs[j].L*s.Q, s.Subs[j].Closed, s.Tol)
		}
	}
	return
}

// normalise (curves only, where interval ends are compared within tol): pieces not longer than tol vanish, pieces
// separated by a gap of at most tol count as one - also through the start point of a closed sub-path. This is the
// three-valued reading of "zero-length dashes vanish, zero gaps merge": the library's own curve length differs from
// the true length by ~1e-6, which decides whether a pattern boundary that coincides with the end of the path exists.
func normalise(iv [][2]int, L int, closed bool, tol int) [][2]int {
	out := [][2]int{}
	for _, x := range iv {
		if x[1]-x[0] <= tol {
			continue
		}
		if n := len(out); n > 0 && x[0]-out[n-1][1] <= tol {
			out[n-1][1] = x[1]
			continue
		}
		out = append(out, x)
	}
	if n := len(out); closed && n >= 2 && out[0][0]+L-out[n-1][1] <= tol && out[n-1][1] <= L+tol {
		out[n-1][1] = L + out[0][1]
		out = out[1:]
	}
	return out
}

func near(a, b, tol int) bool { return a-b <= tol && b-a <= tol }

// largest deviation (1/Q units) seen on an accepted curve scenario: recorded in the evidence as calibration data
var maxCurveErr atomic.Int64

func noteErr(obs, exp [][][2]int, q int) {
	for j := range exp {
		for m := range exp[j] {
			for e := 0; e < 2; e++ {
				d := int64(obs[j][m][e] - q*exp[j][m][e])
				if d < 0 {
					d = -d
				}
				for {
					old := maxCurveErr.Load()
					if d <= old || maxCurveErr.CompareAndSwap(old, d) {
						break
					}
				}
			}
		}
	}
}

func ivMatch(obs, exp [][][2]int, q, tol int) bool {
	if len(obs) != len(exp) {
		return false
	}
	for j := range exp {
		if len(obs[j]) != len(exp[j]) {
			return false
		}
		for m := range exp[j] {
			if !near(obs[j][m][0], q*exp[j][m][0], tol) || !near(obs[j][m][1], q*exp[j][m][1], tol) {
				return false
			}
		}
	}
	return true
}

// cells of an interval list on a sub-path of length L (unit cells; wrap-around intervals modulo L)
func cells(iv [][2]int, L int) map[int]bool {
	m := map[int]bool{}
	for _, x := range iv {
		for c := x[0]; c < x[1]; c++ {
			if L > 0 {
				m[((c%L)+L)%L] = true
			}
		}
	}
	return m
}

// toUnits rounds observed interval ends to whole units (curves: every end must be within tol of a unit).
func toUnits(obs [][][2]int, q, tol int) ([][][2]int, bool) {
	out := make([][][2]int, len(obs))
	for j := range obs {
		out[j] = make([][2]int, len(obs[j]))
		for m, x := range obs[j] {
			for e := 0; e < 2; e++ {
				u := int(math.Round(float64(x[e]) / float64(q)))
				if !near(x[e], u*q, tol) {
					return nil, false
				}
				out[j][m][e] = u
			}
		}
	}
	return out, true
}

// startGapDrawn recognises the deviation of the dashStart defect: nothing expected is missing, and every wrongly
// drawn cell continues a drawn stretch that begins at the start of the sub-path.
func startGapDrawn(obs, exp [][][2]int, subs []Sub, q, tol int) bool {
	ou, ok := toUnits(obs, q, tol)
	if !ok {
		return false
	}
	any := false
	for j := range exp {
		oc, ec := cells(ou[j], subs[j].L), cells(exp[j], subs[j].L)
		for c := range ec {
			if !oc[c] {
				return false
			}
		}
		for c := range oc {
			if !ec[c] {
				any = true
				for k := 0; k <= c; k++ {
					if !oc[k] {
						return false
					}
				}
			}
		}
	}
	return any
}

// lastStretchOnly recognises the deviation of the end-coincidence defect: observation and expectation differ only
// inside the last stretch (the final dash or the final gap) of sub-paths.
func lastStretchOnly(obs, exp [][][2]int, subs []Sub, q, tol int) bool {
	return lastStretchAnd(obs, exp, subs, q, tol, false)
}

func lastStretchAnd(obs, exp [][][2]int, subs []Sub, q, tol int, startGap bool) bool { // startGap: unused variant kept for diagnosis
	ou, ok := toUnits(obs, q, tol)
	if !ok {
		return false
	}
	any := false
	for j := range exp {
		L := subs[j].L
		oc, ec := cells(ou[j], L), cells(exp[j], L)
		start := L - 1
		for start > 0 && ec[start-1] == ec[L-1] {
			start--
		}
		for c := 0; c < L; c++ {
			if oc[c] != ec[c] {
				any = true
				if c < start {
					if !startGap || !oc[c] {
						return false
					}
					for k := 0; k <= c; k++ {
						if !oc[k] {
							return false
						}
					}
				}
			}
		}
	}
	return any
}

// judgeDash compares an observation with the expectation the specification computed.
func judgeDash(s *Scenario, o Obs) (ms []core.Mismatch) {
	where := fmt.Sprintf("%s .Dash(%d, %v) emb=%s", s.svg(), s.Off, s.D, s.Emb.Name)
	if o.Bad != "" {
		return []core.Mismatch{{Signature: "piece-off-path+" + s.tag(), Detail: where + ": " + o.Bad}}
	}
	if !o.Same {
		sig := "dash-arg-mutated"
		if s.F["zero3"] {
			sig += "+zero3"
		}
		ms = append(ms, core.Mismatch{Signature: sig, Detail: where + ": the caller's dash slice (or the input path) was modified by the call"})
	}
	if !ivMatch(o.Iv, s.Exp, s.Q, s.Tol) {
		sig := "intervals+" + s.tag()
		if len(o.Iv) == len(s.Exp) && s.F["negper"] && startGapDrawn(o.Iv, s.Exp, s.Subs, s.Q, s.Tol) {
			sig = "intervals+negper:start-gap-drawn"
		} else if len(o.Iv) == len(s.Exp) && s.F["endco"] && s.tag() == "curve" && lastStretchOnly(o.Iv, s.Exp, s.Subs, s.Q, s.Tol) {
			sig = "intervals+curve+endco:last-stretch"
		} else if len(o.Iv) == len(s.Exp) && s.F["endco"] && s.F["negper"] && s.tag() == "curve" {
			sig = "intervals+curve+negper+endco" // both defects interact (e.g. the only split position is swallowed): any deviation
		}
		ms = append(ms, core.Mismatch{Signature: sig, Detail: fmt.Sprintf("%s: drawn intervals per sub-path (1/%d units) %v, the pattern prescribes %v (units)", where, s.Q, o.Iv, s.Exp)})
	} else if s.Q > 1 {
		noteErr(o.Iv, s.Exp, s.Q)
	}
	if len(ms) == 0 && !o.Ord {
		ms = append(ms, core.Mismatch{Signature: "order+" + s.tag(), Detail: where + ": pieces are not returned in path order"})
	}
	return
}

func exec(s *Scenario, guard bool) []core.Mismatch {
	if s.Kind == "ctx" {
		return execCtx(s)
	}
	var o Obs
	var mach string
	var kind string
	var msg any
	if guard {
		kind, msg = latgeo.Guard(20*time.Second, func() { o, mach = observeDash(s) })
	} else if ok, m := latgeo.Try(func() { o, mach = observeDash(s) }); !ok {
		kind, msg = "panic", m
	}
	if kind != "" {
		return []core.Mismatch{{Signature: kind + "-dash:" + latgeo.PanicClass(msg) + "+" + s.tag(), Detail: fmt.Sprintf("%s .Dash(%d, %v) emb=%s: %v", s.svg(), s.Off, s.D, s.Emb.Name, msg)}}
	}
	if mach != "" {
		return []core.Mismatch{{Signature: "machinery", Detail: mach}}
	}
	return judgeDash(s, o)
}

func (Driver) Replay(c *core.Ctx, raw json.RawMessage) []core.Mismatch {
	var s Scenario
	if err := json.Unmarshal(raw, &s); err != nil {
		return []core.Mismatch{{Signature: "machinery", Detail: err.Error()}}
	}
	if s.Kind == "ctx" {
		return replayCtx(c, &s)
	}
	return exec(&s, true)
}

// ---- TLC configurations -------------------------------------------------------------------------------------

func set(v []int) string {
	s := make([]string, len(v))
	for i, x := range v {
		s[i] = fmt.Sprint(x)
	}
	return "{" + strings.Join(s, ",") + "}"
}

func cfg(fam string, vals []int, maxPat, offNeg, offHi, num int, walk bool) string {
	s := fmt.Sprintf("SPECIFICATION Spec\nCONSTANTS Fam = \"%s\"\n Vals = %s\n MaxPat = %d\n OffNeg = %d\n OffHi = %d\n Num = %d\n Walk = %v\nCHECK_DEADLOCK FALSE\n",
		fam, set(vals), maxPat, offNeg, offHi, num, strings.ToUpper(fmt.Sprint(walk)))
	if walk {
		s += "INVARIANTS AutomatonIsDefinition WalkOK Laws\n"
	}
	return s
}

var polyEmbs = []latgeo.Emb{latgeo.Symmetries[1], latgeo.Symmetries[4], latgeo.Translate, latgeo.Tiny, latgeo.Huge, latgeo.Pyth, latgeo.Rot17, latgeo.Symmetries[6]}
var curveEmbs = []latgeo.Emb{latgeo.Symmetries[1], latgeo.Translate, latgeo.Tiny, latgeo.Huge, latgeo.Pyth, latgeo.Rot17, latgeo.Symmetries[2]}

func embsFor(h uint32, curve, thorough bool) []latgeo.Emb {
	list := polyEmbs
	if curve {
		list = curveEmbs
	}
	out := []latgeo.Emb{latgeo.Identity, list[int(h)%len(list)]}
	if thorough {
		out = append(out, list[int(h/11+3)%len(list)])
	}
	return out
}

func hash(s string) uint32 {
	h := uint32(2166136261)
	for i := 0; i < len(s); i++ {
		h = (h ^ uint32(s[i])) * 16777619
	}
	return h >> 1
}

type runner struct {
	c       *core.Ctx
	n       int64
	nontriv int64
	seen    sync.Map
	cur     [16]atomic.Pointer[stamp]
	masked  sync.Map
}
type stamp struct {
	t time.Time
	s *Scenario
}

// nonTrivial: the pattern really cuts some sub-path (at least one expected interval that is not the whole sub-path).
func nonTrivial(s *Scenario) bool {
	for j, iv := range s.Exp {
		for _, x := range iv {
			if x[1]-x[0] < s.Subs[j].L {
				return true
			}
		}
	}
	return false
}

func key(s *Scenario) string {
	var b strings.Builder
	for _, u := range s.Subs {
		fmt.Fprintf(&b, "%s%d%v;", u.Shape, u.L, u.Closed)
	}
	fmt.Fprintf(&b, "%v|%d", s.D, s.Off)
	return b.String()
}

func (r *runner) runGen(o tlc.Opts) {
	c := r.c
	ch := make(chan []byte, 8192)
	o.OnLine = func(p []byte) { ch <- append([]byte(nil), p...) }
	done := make(chan struct{})
	var wid int32
	go func() {
		core.Parallel(6, ch, func(p []byte) {
			me := int(atomic.AddInt32(&wid, 1)) % 16
			var l Scenario
			if err := json.Unmarshal(p, &l); err != nil {
				c.Broken("bad scenario line: " + err.Error() + ": " + string(p[:min(len(p), 200)]))
				return
			}
			l.Kind = "dash"
			k := atomic.AddInt64(&r.n, 1)
			if nonTrivial(&l) {
				if _, dup := r.seen.LoadOrStore(key(&l), true); !dup {
					atomic.AddInt64(&r.nontriv, 1)
				}
			}
			if l.F["negper"] {
				c.AddExtra("masked_region_negper_scenarios", 1)
			}
			if k%20000 == 3 {
				c.Sample(map[string]any{"path": l.svg(), "d": l.D, "offset": l.Off, "expected_intervals": l.Exp})
			}
			for _, e := range embsFor(hash(key(&l)), isCurve(l.Subs), c.Thorough()) {
				s := l
				s.Emb = e
				r.cur[me].Store(&stamp{time.Now(), &s})
				ms := exec(&s, false)
				r.cur[me].Store(nil)
				c.Count(1, 0, 1)
				for _, m := range ms {
					if m.Signature == "machinery" {
						c.Broken(m.Detail)
						return
					}
				}
				c.Report(&s, ms)
			}
		})
		close(done)
	}()
	c.TLC(o, true)
	close(ch)
	<-done
}

func (d Driver) Run(c *core.Ctx) error {
	c.Rule = "scenario = (path with 1-3 sub-paths of integer lengths: lattice polylines with axis-aligned/3-4-5 segments or named curves scaled to an integer number of units; dash pattern; offset) with the drawn arc-length intervals per sub-path computed by the definition in spec/Dash.tla, executed by Path.Dash under 2-3 similarity embeddings; trace direction: seeded random Dash calls and Context SetDashes/DrawPath sequences judged event by event by spec/Trace_Dash.tla; evaluations = real Dash/DrawPath calls; non-trivial = distinct (sub-path lengths/closedness, pattern, offset) whose expectation contains at least one interval shorter than its sub-path"
	c.Assumptions = []string{
		"polylines have integer segment lengths, so every expected interval end is an integer; observed ends must be within 1e-6 units of the grid",
		"curves: the unit is (oracle arc length)/L; interval ends are measured by the independent fine flattening and compared within 0.25 units (see notes/C05.md for the calibration)",
		"pieces are located on the input by position and travelled distance (oracle/arclen.go); inputs are chosen so that this is unambiguous up to the order rule",
		"negative pattern entries are outside the quantifier of the statement and not generated"}
	r := &runner{c: c}
	stop := make(chan struct{})
	go func() { // watchdog
		for {
			select {
			case <-stop:
				return
			case <-time.After(3 * time.Second):
			}
			for i := range r.cur {
				if st := r.cur[i].Load(); st != nil && time.Since(st.t) > 60*time.Second {
					ms := exec(st.s, true)
					c.Report(st.s, ms)
					if len(ms) == 0 {
						c.Broken("worker stuck for 60 s but the scenario terminates under replay")
					}
					os.Exit(c.Finish())
				}
			}
		}
	}()
	defer close(stop)

	// The stages are independent; they run concurrently (TLC is mostly single-threaded while it enumerates initial states).
	var wg sync.WaitGroup
	stage := func(f func()) {
		wg.Add(1)
		go func() { defer wg.Done(); f() }()
	}
	// 1. model level: the automaton computes the definition; laws of the definition
	stage(func() {
		if c.Thorough() {
			c.TLC(tlc.Opts{Module: "Dash", Config: cfg("mc", []int{0, 1, 2, 3}, 3, 9, 9, 0, true), Coverage: true, Workers: 4, Timeout: 20 * time.Minute}, true)
		} else {
			c.TLC(tlc.Opts{Module: "Dash", Config: cfg("mc", []int{0, 1, 3}, 3, 6, 6, 0, true), Workers: 4}, true)
		}
	})
	// 2. spec -> code
	if c.Thorough() {
		stage(func() {
			r.runGen(tlc.Opts{Module: "Dash", Config: cfg("cat", []int{0, 1, 2, 3, 5}, 4, 20, 25, 300, false), Seed: c.Seed, Workers: 6, Timeout: 30 * time.Minute})
		})
		stage(func() {
			r.runGen(tlc.Opts{Module: "Dash", Config: cfg("rand", []int{0, 1, 2, 3, 5}, 3, 13, 14, 60, false), Seed: c.Seed + 1, Workers: 6, Timeout: 30 * time.Minute})
		})
		stage(func() {
			r.runGen(tlc.Opts{Module: "Dash", Config: cfg("curve", []int{0, 1, 2, 3, 5}, 3, 9, 12, 0, false), Seed: c.Seed + 2, Workers: 4, Timeout: 30 * time.Minute})
		})
	} else {
		stage(func() {
			r.runGen(tlc.Opts{Module: "Dash", Config: cfg("cat", []int{0, 1, 2, 3, 5}, 3, 13, 14, 10, false), Seed: c.Seed, Workers: 4})
		})
		stage(func() {
			r.runGen(tlc.Opts{Module: "Dash", Config: cfg("rand", []int{0, 1, 2, 3, 5}, 2, 7, 12, 16, false), Seed: c.Seed + 1, Workers: 4})
		})
		stage(func() {
			r.runGen(tlc.Opts{Module: "Dash", Config: cfg("curve", []int{0, 1, 2, 5}, 2, 7, 9, 0, false), Seed: c.Seed + 2, Workers: 4})
		})
	}
	// 3. code -> spec
	stage(func() { d.traces(c) })
	wg.Wait()
	c.Count(0, r.nontriv, 0)
	c.SetExtra("tlc_scenarios", r.n)
	c.SetExtra("max_curve_interval_error_hundredths_of_unit", maxCurveErr.Load())
	return nil
}
