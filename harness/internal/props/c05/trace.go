package c05

import (
	"bytes"
	"encoding/json"
	"fmt"
	"math"
	"math/rand"
	"strings"

	"github.com/tdewolff/canvas"

	"verif/harness/internal/core"
	"verif/harness/internal/latgeo"
	"verif/harness/internal/rec"
	"verif/harness/internal/tlc"
)

// traceEv is one line of trace_dash.ndjson (see spec/Trace_Dash.tla).
type traceEv struct {
	Op   string `json:"op"`
	Subs []Sub  `json:"subs,omitempty"`
	D    []int  `json:"d"`
	Off  int    `json:"off"`
	// dash
	Q    int        `json:"q"`
	Tol  int        `json:"tol"`
	Obs  [][][2]int `json:"obs"`
	Ord  bool       `json:"ord"`
	Same bool       `json:"same"`
	// draw
	Stroke bool  `json:"stroke"`
	D2     []int `json:"d2"`
	Off2   int   `json:"off2"`
	Kept   bool  `json:"kept"`

	emb latgeo.Emb
}

type verdict struct {
	L   int             `json:"l"`
	Why []string        `json:"why"`
	Exp [][][2]int      `json:"exp"`
	F   map[string]bool `json:"f"`
}

// ---- random scenarios (seeded) ---------------------------------------------------------------------------

var axis = [][2]int{{1, 0}, {0, 1}, {-1, 0}, {0, -1}}
var pyth = [][2]int{{3, 4}, {4, 3}, {-3, 4}, {4, -3}, {-4, 3}, {3, -4}, {-3, -4}, {-4, -3}}

func randSub(r *rand.Rand, ox, oy int) Sub {
	ri := func(lo, hi int) int { return lo + r.Intn(hi-lo+1) }
	sh := func(pts [][2]int) [][2]int {
		for i := range pts {
			pts[i][0] += ox
			pts[i][1] += oy
		}
		return pts
	}
	if r.Intn(5) < 2 { // closed templates with integer edge lengths
		switch r.Intn(5) {
		case 0:
			a, b := ri(1, 9), ri(1, 9)
			return Sub{"poly", sh([][2]int{{0, 0}, {a, 0}, {a, b}, {0, b}}), true, 2 * (a + b)}
		case 1:
			k := ri(1, 3)
			return Sub{"poly", sh([][2]int{{0, 0}, {4 * k, 0}, {4 * k, 3 * k}}), true, 12 * k}
		case 2:
			k := ri(1, 2)
			return Sub{"poly", sh([][2]int{{0, 0}, {3 * k, 4 * k}, {6 * k, 0}}), true, 16 * k}
		case 3:
			a, b, c, e := ri(3, 8), ri(1, 4), ri(1, 2), ri(5, 9)
			return Sub{"poly", sh([][2]int{{0, 0}, {a, 0}, {a, b}, {c, b}, {c, e}, {0, e}}), true, 2 * (a + e)}
		default:
			k := ri(1, 2)
			return Sub{"poly", sh([][2]int{{0, 0}, {0, 3 * k}, {-4 * k, 0}}), true, 12 * k} // clockwise, closing edge along -x .. +x
		}
	}
	n := ri(1, 6)
	pts := [][2]int{{0, 0}}
	L := 0
	var last [2]int
	tries := 0
	for len(pts) <= n {
		var mv [2]int
		l := 0
		if r.Intn(3) == 0 {
			m := pyth[r.Intn(len(pyth))]
			k := ri(1, 2)
			mv, l = [2]int{m[0] * k, m[1] * k}, 5*k
		} else {
			m := axis[r.Intn(4)]
			k := ri(1, 7)
			mv, l = [2]int{m[0] * k, m[1] * k}, k
		}
		if len(pts) > 1 && last[0]*mv[1]-last[1]*mv[0] == 0 {
			continue // collinear with the previous move: the builder would merge (or, reversed, C10 finding #6)
		}
		q := pts[len(pts)-1]
		nq := [2]int{q[0] + mv[0], q[1] + mv[1]}
		if touches(pts, nq) {
			if tries++; tries > 50 {
				break
			}
			continue // keep the polyline simple, so that a point locates uniquely on it
		}
		pts = append(pts, nq)
		L += l
		last = mv
	}
	return Sub{"poly", sh(pts), false, L}
}

func cross(a, b, c [2]int) int { return (b[0]-a[0])*(c[1]-a[1]) - (b[1]-a[1])*(c[0]-a[0]) }
func sgn(x int) int {
	if x < 0 {
		return -1
	} else if x > 0 {
		return 1
	}
	return 0
}
func onSeg(a, b, c [2]int) bool {
	return cross(a, b, c) == 0 && min(a[0], b[0]) <= c[0] && c[0] <= max(a[0], b[0]) && min(a[1], b[1]) <= c[1] && c[1] <= max(a[1], b[1])
}
func segsMeet(a, b, c, d [2]int) bool {
	d1, d2, d3, d4 := sgn(cross(a, b, c)), sgn(cross(a, b, d)), sgn(cross(c, d, a)), sgn(cross(c, d, b))
	return (d1*d2 < 0 && d3*d4 < 0) || onSeg(a, b, c) || onSeg(a, b, d) || onSeg(c, d, a) || onSeg(c, d, b)
}

// touches: the new segment from the last point of pts to nq meets an earlier, non-adjacent segment.
func touches(pts [][2]int, nq [2]int) bool {
	q := pts[len(pts)-1]
	for i := 0; i+2 < len(pts); i++ {
		if segsMeet(pts[i], pts[i+1], q, nq) {
			return true
		}
	}
	return false
}

var curveNames = []string{"circle", "bigarc", "quarter", "quad", "cubic", "cubic-s", "ellipse", "mixed", "mixed-open", "cubic-2i-a", "cubic-2i-b", "cubic-2i-c", "quad-over", "quad-under"}
var curveClosed = map[string]bool{"circle": true, "ellipse": true, "mixed": true}

// curveTol: the tolerance rule of spec/Dash.tla (TolOf): 0.1 unit, for cubics with two inflection points 1.25 % of the
// curve length if that is more.
func curveTol(subs []Sub) int {
	t := 10
	for _, s := range subs {
		if strings.HasPrefix(s.Shape, "cubic-2i-") || s.Shape == "quad-over" || s.Shape == "quad-under" {
			t = max(t, (5*s.L+3)/4)
		}
	}
	return t
}

func randPattern(r *rand.Rand, maxLen, maxVal int, zeros bool) []int {
	n := r.Intn(maxLen + 1)
	d := make([]int, n)
	for i := range d {
		d[i] = 1 + r.Intn(maxVal)
		if zeros && r.Intn(7) == 0 {
			d[i] = 0
		}
	}
	return d
}

func randOffset(r *rand.Rand) int {
	switch r.Intn(10) {
	case 0:
		return 0
	case 1:
		return r.Intn(2001) - 1000
	default:
		return r.Intn(81) - 40
	}
}

// ---- Context.DrawPath through the recording renderer ---------------------------------------------------------

type ctxObs struct {
	Stroke bool
	D2     []int
	Off2   int
	Kept   bool
	Bad    string
}

func toInts(f []float64) ([]int, bool) {
	out := make([]int, len(f))
	for i, v := range f {
		r := math.Round(v)
		if math.Abs(v-r) > 1e-9 || math.Abs(r) > 1e8 {
			return nil, false
		}
		out[i] = int(r)
	}
	return out, true
}

// observeCtx: SetDashes(off, d...) ; DrawPath(path) on a Context that renders into the recording renderer.
func observeCtx(subs []Sub, d []int, off int) (o ctxObs, machinery string) {
	p, err := buildPath(subs, latgeo.Identity)
	if err != nil {
		return o, err.Error()
	}
	r := rec.New(200, 200)
	ctx := canvas.NewContext(r)
	ctx.SetFill(nil)
	ctx.SetStrokeColor(canvas.Black)
	ctx.SetStrokeWidth(1)
	dd := floats(d, 1)
	keep := append([]float64(nil), dd...)
	ctx.SetDashes(float64(off), dd...)
	ctx.DrawPath(0, 0, p)
	o.Kept = eqF(dd, keep)
	if len(r.Events) != 1 {
		// nothing handed to the renderer at all = nothing stroked
		if len(r.Events) == 0 {
			o.Stroke, o.D2 = false, []int{}
			return
		}
		return o, fmt.Sprintf("%d render events for one DrawPath", len(r.Events))
	}
	st := r.Events[0].Style
	o.Stroke = st.HasStroke()
	var ok bool
	o.D2, ok = toInts(st.Dashes)
	off2, ok2 := toInts([]float64{st.DashOffset})
	if !ok || !ok2 {
		o.Bad = fmt.Sprintf("style handed to the renderer has non-integer dashes %v offset %v", st.Dashes, st.DashOffset)
		o.D2 = []int{}
		return
	}
	o.Off2 = off2[0]
	return
}

func ctxSig(why []string, f map[string]bool) (sigs []string) {
	for _, w := range why {
		switch w {
		case "ctx-mutated":
			s := "ctx-dash-mutated"
			if f["zero3"] {
				s += "+zero3"
			}
			sigs = append(sigs, s)
		case "decision:phase-shift": // the dashes handed to the renderer are right up to their phase
			s := "ctx-decision:phase-shift"
			if f["endzero"] {
				s += "+endzero"
			}
			sigs = append(sigs, s)
		case "decision:shortcut": // "solid" / "no stroke" although the pattern cuts the path (or the wrong one of the two)
			s := "ctx-decision:shortcut"
			if f["phase"] || f["negper"] || f["endzero"] {
				s += "+phase"
			}
			sigs = append(sigs, s)
		default:
			sigs = append(sigs, "ctx-"+w)
		}
	}
	return
}

func traceCfg() string {
	return "SPECIFICATION TSpec\nCONSTANTS Fam = \"mc\"\n Vals = {0}\n MaxPat = 0\n OffNeg = 0\n OffHi = 0\n Num = 0\n Walk = FALSE\n Strict = FALSE\nINVARIANTS TraceInv\nPOSTCONDITION TraceAccepted\nCHECK_DEADLOCK FALSE\n"
}

// judgeTrace lets Trace_Dash.tla judge the events; it returns the verdict lines (wrong events only).
func judgeTrace(c *core.Ctx, evs []traceEv) ([]verdict, bool) {
	var buf bytes.Buffer
	enc := json.NewEncoder(&buf)
	for i := range evs {
		e := evs[i]
		if e.D == nil {
			e.D = []int{}
		}
		if e.D2 == nil {
			e.D2 = []int{}
		}
		if e.Obs == nil {
			e.Obs = [][][2]int{}
		}
		if e.Subs == nil {
			e.Subs = []Sub{}
		}
		for j := range e.Subs {
			if e.Subs[j].Pts == nil {
				e.Subs[j].Pts = [][2]int{}
			}
		}
		enc.Encode(e)
	}
	res := c.TLC(tlc.Opts{Module: "Trace_Dash", Workers: 1, Files: map[string][]byte{"trace_dash.ndjson": buf.Bytes()}, Config: traceCfg()}, true)
	if !res.OK {
		return nil, false
	}
	var vs []verdict
	for _, p := range res.Lines {
		var v verdict
		if err := json.Unmarshal(p, &v); err != nil {
			c.Broken("bad verdict line: " + err.Error() + ": " + string(p))
			return nil, false
		}
		vs = append(vs, v)
	}
	return vs, true
}

// replayCtx re-executes a Context scenario and lets the specification judge the single call.
func replayCtx(c *core.Ctx, s *Scenario) []core.Mismatch {
	var o ctxObs
	var mach string
	if ok, m := latgeo.Try(func() { o, mach = observeCtx(s.Subs, s.D, s.Off) }); !ok {
		return []core.Mismatch{{Signature: "panic-drawpath:" + latgeo.PanicClass(m), Detail: fmt.Sprint(m)}}
	}
	if mach != "" {
		return []core.Mismatch{{Signature: "machinery", Detail: mach}}
	}
	where := fmt.Sprintf("SetDashes(%d, %v); DrawPath(%s)", s.Off, s.D, s.svg())
	if o.Bad != "" {
		return []core.Mismatch{{Signature: "ctx-offgrid", Detail: where + ": " + o.Bad}}
	}
	evs := []traceEv{{Op: "set", D: s.D, Off: s.Off}, {Op: "draw", Subs: s.Subs, Stroke: o.Stroke, D2: o.D2, Off2: o.Off2, Kept: o.Kept}}
	vs, ok := judgeTrace(c, evs)
	if !ok {
		return []core.Mismatch{{Signature: "machinery", Detail: "Trace_Dash could not judge the call"}}
	}
	var ms []core.Mismatch
	for _, v := range vs {
		for _, sig := range ctxSig(v.Why, v.F) {
			ms = append(ms, core.Mismatch{Signature: sig, Detail: fmt.Sprintf("%s: renderer got stroke=%v dashes=%v offset=%d (caller's slice kept=%v); the pattern prescribes the intervals %v", where, o.Stroke, o.D2, o.Off2, o.Kept, v.Exp)})
		}
	}
	return ms
}

func execCtx(s *Scenario) []core.Mismatch {
	return []core.Mismatch{{Signature: "machinery", Detail: "ctx scenarios are replayed through Driver.Replay"}}
}

func (d Driver) traces(c *core.Ctx) {
	r := rand.New(rand.NewSource(c.Seed*104729 + 5))
	nDash := c.Pick(6000, 60000)
	nCurve := c.Pick(600, 6000)
	nCtx := c.Pick(4000, 30000)
	var evs []traceEv
	scen := map[int]*Scenario{} // event index (1-based) -> replay scenario
	embs := append([]latgeo.Emb{latgeo.Identity}, polyEmbs...)
	cembs := append([]latgeo.Emb{latgeo.Identity}, curveEmbs...)
	var nontriv int64
	seen := map[string]bool{}
	add := func(s *Scenario) bool {
		var o Obs
		var mach string
		if ok, m := latgeo.Try(func() { o, mach = observeDash(s) }); !ok {
			c.Report(s, []core.Mismatch{{Signature: "panic-dash:" + latgeo.PanicClass(m) + "+" + s.tag(), Detail: fmt.Sprintf("%s .Dash(%d, %v) emb=%s: %v", s.svg(), s.Off, s.D, s.Emb.Name, m)}})
			return true
		}
		if mach != "" {
			c.Broken(mach)
			return false
		}
		c.Count(1, 0, 0)
		if o.Bad != "" {
			c.Report(s, judgeDash(s, o))
			return true
		}
		evs = append(evs, traceEv{Op: "dash", Subs: s.Subs, D: s.D, Off: s.Off, Q: s.Q, Tol: s.Tol, Obs: o.Iv, Ord: o.Ord, Same: o.Same, emb: s.Emb})
		scen[len(evs)] = s
		return true
	}
	for n := 0; n < nDash; n++ {
		ns := 1 + r.Intn(3)
		subs := make([]Sub, ns)
		for j := range subs {
			subs[j] = randSub(r, 40*j, 13*j)
		}
		s := &Scenario{Kind: "dash", Subs: subs, D: randPattern(r, 6, 7, true), Off: randOffset(r), Q: 1, Tol: 0, Emb: embs[r.Intn(len(embs))]}
		if !add(s) {
			return
		}
	}
	for n := 0; n < nCurve; n++ {
		name := curveNames[r.Intn(len(curveNames))]
		subs := []Sub{{Shape: name, Closed: curveClosed[name], L: 5 + r.Intn(26)}}
		if r.Intn(4) == 0 {
			subs = append(subs, randSub(r, 60, 20))
		}
		s := &Scenario{Kind: "dash", Subs: subs, D: randPattern(r, 4, 6, true), Off: r.Intn(41) - 15, Q: 100, Tol: curveTol(subs), Emb: cembs[r.Intn(len(cembs))]}
		if !add(s) {
			return
		}
	}
	for n := 0; n < nCtx; n++ {
		ns := 1 + r.Intn(2)
		subs := make([]Sub, ns)
		for j := range subs {
			subs[j] = randSub(r, 40*j, 13*j)
			if r.Intn(3) == 0 { // short paths: the whole-path decisions of checkDash
				subs[j] = Sub{"poly", [][2]int{{40 * j, 0}, {40*j + 1 + r.Intn(3), 0}}, false, 0}
				subs[j].L = subs[j].Pts[1][0] - subs[j].Pts[0][0]
			}
		}
		s := &Scenario{Kind: "ctx", Subs: subs, D: randPattern(r, 5, 6, true), Off: randOffset(r), Emb: latgeo.Identity}
		var o ctxObs
		var mach string
		if ok, m := latgeo.Try(func() { o, mach = observeCtx(s.Subs, s.D, s.Off) }); !ok {
			c.Report(s, []core.Mismatch{{Signature: "panic-drawpath:" + latgeo.PanicClass(m), Detail: fmt.Sprint(m)}})
			continue
		}
		if mach != "" {
			c.Broken(mach)
			return
		}
		c.Count(1, 0, 0)
		if o.Bad != "" {
			c.Report(s, []core.Mismatch{{Signature: "ctx-offgrid", Detail: o.Bad}})
			continue
		}
		evs = append(evs, traceEv{Op: "set", D: s.D, Off: s.Off})
		evs = append(evs, traceEv{Op: "draw", Subs: s.Subs, Stroke: o.Stroke, D2: o.D2, Off2: o.Off2, Kept: o.Kept})
		scen[len(evs)] = s
	}
	vs, ok := judgeTrace(c, evs)
	if !ok {
		return
	}
	c.SetExtra("trace_events", len(evs))
	wrong := map[int]bool{}
	for _, v := range vs {
		s := scen[v.L]
		if s == nil {
			c.Broken(fmt.Sprintf("verdict for event %d which is not a call", v.L))
			continue
		}
		wrong[v.L] = true
		s.Exp, s.F = v.Exp, v.F
		e := evs[v.L-1]
		if s.Kind == "dash" {
			ms := judgeDash(s, Obs{Iv: e.Obs, Ord: e.Ord, Same: e.Same})
			if len(ms) == 0 {
				c.Broken(fmt.Sprintf("Trace_Dash rejects event %d (%v) but the harness' reading of the same expectation does not: %s .Dash(%d,%v)", v.L, v.Why, s.svg(), s.Off, s.D))
			}
			c.Report(s, ms)
		} else {
			var ms []core.Mismatch
			for _, sig := range ctxSig(v.Why, v.F) {
				ms = append(ms, core.Mismatch{Signature: sig, Detail: fmt.Sprintf("SetDashes(%d, %v); DrawPath(%s): renderer got stroke=%v dashes=%v offset=%d (caller's slice kept=%v); the pattern prescribes the intervals %v",
					s.Off, s.D, s.svg(), e.Stroke, e.D2, e.Off2, e.Kept, v.Exp)})
			}
			c.Report(s, ms)
		}
	}
	// accounting: events the specification accepted; distinct non-trivial ones cannot be told without the expectation,
	// so only the dash events whose observation has a proper piece are counted
	var accepted int64
	for idx, s := range scen {
		if wrong[idx] {
			continue
		}
		accepted++
		if s.Kind == "dash" {
			e := evs[idx-1]
			nt := false
			for j, iv := range e.Obs {
				for _, x := range iv {
					if x[1]-x[0] < s.Subs[j].L*s.Q {
						nt = true
					}
				}
			}
			if nt && !seen[key(s)] {
				seen[key(s)] = true
				nontriv++
			}
		}
	}
	c.Count(0, nontriv, accepted)
	head := []string{}
	for i := 0; i < len(evs) && i < 3; i++ {
		b, _ := json.Marshal(evs[i])
		head = append(head, string(b))
	}
	c.Sample(map[string]any{"recorded_trace_head": strings.Join(head, "\n")})
}
