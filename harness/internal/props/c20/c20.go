// Package c20: concurrent use on independent objects is race-free and deterministic; pooled sweep-line objects
// carry no state between calls (spec/Pools.tla, spec/PoolsCounter.tla, spec/Trace_Pools.tla).
package c20

import (
	"bytes"
	"encoding/json"
	"fmt"
	"os"
	"os/exec"
	"regexp"
	"runtime"
	"strconv"
	"strings"
	"sync"
	"time"

	"github.com/tdewolff/canvas"

	"verif/harness/internal/core"
	"verif/harness/internal/latgeo"
	"verif/harness/internal/tlc"
)

type Driver struct{}

func (Driver) ID() string { return "C20" }

// ---- pool event recording / scheduling gate (hooks in /repo, build tag verif) ---------------------------

type poolEv struct {
	G   int    `json:"g"`
	Op  string `json:"op"`
	K   string `json:"k"`
	O   int    `json:"o"`
	Seq int    `json:"seq"`
}

type recorder struct {
	mu      sync.Mutex
	cond    *sync.Cond
	ids     map[any]int
	events  []poolEv
	gids    map[int64]int // runtime goroutine id -> worker index
	sched   []int         // cyclic schedule of worker indices (nil = free running)
	pos     int
	done    map[int]bool
	poison  map[any]bool
	poisonN int // poisoned objects handed out by Get
}

func newRecorder() *recorder {
	r := &recorder{ids: map[any]int{}, gids: map[int64]int{}, done: map[int]bool{}, poison: map[any]bool{}}
	r.cond = sync.NewCond(&r.mu)
	return r
}

var reGID = regexp.MustCompile(`^goroutine (\d+) `)

func goid() int64 {
	var buf [64]byte
	n := runtime.Stack(buf[:], false)
	m := reGID.FindSubmatch(buf[:n])
	if m == nil {
		return -1
	}
	v, _ := strconv.ParseInt(string(m[1]), 10, 64)
	return v
}

func (r *recorder) id(obj any) int {
	if v, ok := r.ids[obj]; ok {
		return v
	}
	v := len(r.ids) + 1
	r.ids[obj] = v
	return v
}

// hook is installed with canvas.VerifSetPoolHook. With a schedule it blocks the calling goroutine until the
// schedule says it is its turn (or every other scheduled goroutine has finished).
func (r *recorder) hook(kind, op string, obj any) {
	g := goid()
	r.mu.Lock()
	defer r.mu.Unlock()
	w, ok := r.gids[g]
	if !ok {
		w = 0
	}
	if r.sched != nil && ok {
		for {
			turn := r.sched[r.pos%len(r.sched)]
			if turn == w || r.done[turn] {
				break
			}
			r.cond.Wait()
		}
		r.pos++
		r.cond.Broadcast()
	}
	if op == "get" && r.poison[obj] {
		r.poisonN++
		delete(r.poison, obj)
	}
	r.events = append(r.events, poolEv{G: w, Op: op, K: kind, O: r.id(obj), Seq: len(r.events) + 1})
}

func (r *recorder) register(w int) {
	r.mu.Lock()
	r.gids[goid()] = w
	r.mu.Unlock()
}

func (r *recorder) finish(w int) {
	r.mu.Lock()
	r.done[w] = true
	r.events = append(r.events, poolEv{G: w, Op: "end", Seq: len(r.events) + 1})
	r.cond.Broadcast()
	r.mu.Unlock()
}

// ---- jobs ---------------------------------------------------------------------------------------------------

type Pair struct {
	P latgeo.LPath `json:"p"`
	Q latgeo.LPath `json:"q"`
	// Jit 1/2: the operands are built under the sub-grid jitter embeddings (coinciding vertices become distinct points
	// closer than the 1e-8 snap grid: the tolerance squares of the sweep, which are pooled objects, come into play)
	Jit int             `json:"jit,omitempty"`
	F   map[string]bool `json:"f,omitempty"`
	// FP, FQ: operands given by float coordinates (the near-coincidence family, see nearPairs)
	FP [][][2]float64 `json:"fp,omitempty"`
	FQ [][][2]float64 `json:"fq,omitempty"`
}

func buildF(cs [][][2]float64) *canvas.Path {
	p := &canvas.Path{}
	for _, c := range cs {
		for i, v := range c {
			if i == 0 {
				p.MoveTo(v[0], v[1])
			} else {
				p.LineTo(v[0], v[1])
			}
		}
		p.Close()
	}
	return p
}

// nearPairs: contours whose extreme vertices lie in neighbouring cells of the 1e-8 snap grid, with a steep edge of one
// contour passing through the tolerance square of a vertex of another (the pooled tolerance squares of the sweep hold
// several events and crossing segments): a triangle ending at (dx1, 0) from the left, a box above, and a triangle starting
// at (dx2, dy2) whose upper edge has slope s. All coordinates are deterministic functions of the index.
func nearPairs(n int) []Pair {
	const e = 1e-8
	var out []Pair
	for i := 0; i < n; i++ {
		dx1 := -float64(1+i%5) / 10 * e
		dx2 := float64(1+(i/5)%4) / 10 * e
		dy2 := -float64(3+(i/20)%6) / 10 * e
		slope := []float64{2, 3, 1.5, 4}[i%4]
		a := [][2]float64{{-1, -1}, {dx1, 0}, {-1, 1}}
		b := [][2]float64{{-2, 5}, {2, 5}, {2, 6}, {-2, 6}}
		cc := [][2]float64{{dx2, dy2}, {1 + dx2, -3 + dy2}, {1 + dx2, slope + dy2}}
		if i%3 == 1 { // mirrored top-bottom
			for _, c := range [][][2]float64{a, b, cc} {
				for k := range c {
					c[k][1] = -c[k][1]
				}
			}
		}
		out = append(out, Pair{FP: [][][2]float64{a, b}, FQ: [][][2]float64{cc}, Jit: 3})
	}
	return out
}

func (pr Pair) build() (*canvas.Path, *canvas.Path) {
	if pr.FP != nil {
		return buildF(pr.FP), buildF(pr.FQ)
	}
	switch pr.Jit {
	case 1:
		return latgeo.BuildSalt(pr.P, latgeo.Jitter, 1), latgeo.BuildSalt(pr.Q, latgeo.Jitter, 2)
	case 2:
		return latgeo.BuildSalt(pr.P, latgeo.Jitter2, 1), latgeo.BuildSalt(pr.Q, latgeo.Jitter2, 2)
	}
	return latgeo.Build(pr.P, latgeo.Identity), latgeo.Build(pr.Q, latgeo.Identity)
}

var opNames = []string{"and", "or", "xor", "not", "div", "settle"}

func runOp(op string, pr Pair) (res string) {
	defer func() {
		if r := recover(); r != nil {
			res = "panic:" + latgeo.PanicClass(r)
		}
	}()
	p, q := pr.build()
	var out *canvas.Path
	switch op {
	case "and":
		out = p.And(q)
	case "or":
		out = p.Or(q)
	case "xor":
		out = p.Xor(q)
	case "not":
		out = p.Not(q)
	case "div":
		out = p.DivideBy(q)
	default:
		out = p.Append(q).Settle(canvas.EvenOdd)
	}
	var b strings.Builder
	for _, v := range out.Data() {
		b.WriteString(strconv.FormatUint(mathBits(v), 16))
		b.WriteByte(' ')
	}
	return b.String()
}

// runOpT runs the operation under a watchdog: "timeout" is returned when it does not finish within 20 s
// (the goroutine keeps spinning; the caller reports and ends the run).
func runOpT(op string, pr Pair) string {
	ch := make(chan string, 1)
	go func() { ch <- runOp(op, pr) }()
	select {
	case r := <-ch:
		return r
	case <-time.After(20 * time.Second):
		return "timeout"
	}
}

func clearPools() {
	runtime.GC()
	runtime.GC() // sync.Pool keeps a victim cache for one cycle
}

// Scenario kinds for replay.
type Scenario struct {
	Kind    string `json:"kind"` // poison | schedule | pooltrace | race
	Pair    *Pair  `json:"pair,omitempty"`
	Pair2   *Pair  `json:"pair2,omitempty"`
	Op      string `json:"op,omitempty"`
	Op2     string `json:"op2,omitempty"`
	Pattern int    `json:"pattern,omitempty"`
	Prev    []Pair `json:"prev,omitempty"`
	Sched   []int  `json:"sched,omitempty"`
	Mode    string `json:"mode,omitempty"`
	Seed    int64  `json:"seed,omitempty"`
	Jobs    int    `json:"jobs,omitempty"`
}

// poisonCheck: the result of op on pair must be bit-identical on clean pools, on pools filled with adversarial
// stale objects, and after arbitrary preceding calls.
func poisonCheck(s *Scenario, rec *recorder) (ms []core.Mismatch) {
	// the baseline runs on whatever the pools hold (itself "some preceding history"); Put places the poisoned
	// objects in the P-local cache, from which the next Get is served first
	if s.Pair.FP != nil {
		clearPools() // the near-coincidence family takes its baseline on empty pools (every object fresh from Pool.New)
	}
	base := runOpT(s.Op, *s.Pair)
	if base == "timeout" && s.Pair.Jit != 0 {
		return nil // non-termination of the operation itself under sub-grid jitter is C01's subject (known finding there)
	}
	if base == "timeout" {
		return []core.Mismatch{{Signature: "stale-pool-object-hangs-operation", Detail: fmt.Sprintf("%s on P=%s Q=%s does not terminate on pools left by preceding (poisoned) calls", s.Op, s.Pair.P.SVG(), s.Pair.Q.SVG())}}
	}
	if strings.HasPrefix(base, "panic:") {
		return nil // the operation itself fails on this input (C01's subject); pool objects of a panicking call are not returned
	}
	objs := canvas.VerifPoisonPools(48, s.Pattern)
	if rec != nil {
		rec.mu.Lock()
		for _, o := range objs {
			rec.poison[o] = true
		}
		rec.mu.Unlock()
	}
	if got := runOpT(s.Op, *s.Pair); got != base {
		if got == "timeout" {
			return []core.Mismatch{{Signature: "stale-pool-object-hangs-operation", Detail: fmt.Sprintf("%s on P=%s Q=%s does not terminate after the pools were filled with stale objects (pattern %d)", s.Op, s.Pair.P.SVG(), s.Pair.Q.SVG(), s.Pattern)}}
		}
		ms = append(ms, core.Mismatch{Signature: "stale-pool-object-changes-result", Detail: fmt.Sprintf("%s on P=%s Q=%s: result differs after the pools were filled with stale objects (pattern %d)", s.Op, s.Pair.P.SVG(), s.Pair.Q.SVG(), s.Pattern)})
	}
	for _, pv := range s.Prev {
		for _, op := range opNames {
			if runOpT(op, pv) == "timeout" {
				return []core.Mismatch{{Signature: "stale-pool-object-hangs-operation", Detail: fmt.Sprintf("%s on P=%s Q=%s does not terminate on pools left by preceding (poisoned) calls", op, pv.P.SVG(), pv.Q.SVG())}}
			}
		}
	}
	if got := runOpT(s.Op, *s.Pair); got != base {
		ms = append(ms, core.Mismatch{Signature: "preceding-calls-change-result", Detail: fmt.Sprintf("%s on P=%s Q=%s: result differs after %d preceding calls", s.Op, s.Pair.P.SVG(), s.Pair.Q.SVG(), 6*len(s.Prev))})
	}
	return
}

// scheduleCheck runs two operations in two goroutines, interleaved at pool-operation granularity by sched.
func scheduleCheck(s *Scenario) (ms []core.Mismatch, events []poolEv) {
	clearPools()
	solo1, solo2 := runOp(s.Op, *s.Pair), runOp(s.Op2, *s.Pair2)
	rec := newRecorder()
	rec.sched = s.Sched
	canvas.VerifSetPoolHook(rec.hook)
	defer canvas.VerifSetPoolHook(nil)
	var r1, r2 string
	var wg sync.WaitGroup
	wg.Add(2)
	start := make(chan struct{})
	go func() { defer wg.Done(); rec.register(1); <-start; r1 = runOp(s.Op, *s.Pair); rec.finish(1) }()
	go func() { defer wg.Done(); rec.register(2); <-start; r2 = runOp(s.Op2, *s.Pair2); rec.finish(2) }()
	time.Sleep(time.Millisecond)
	close(start)
	fin := make(chan struct{})
	go func() { wg.Wait(); close(fin) }()
	select {
	case <-fin:
	case <-time.After(30 * time.Second):
		return []core.Mismatch{{Signature: "schedule-deadlock", Detail: "two independent operations did not finish under the schedule gate"}}, nil
	}
	if r1 != solo1 || r2 != solo2 {
		ms = append(ms, core.Mismatch{Signature: "interleaving-changes-result", Detail: fmt.Sprintf("%s(P=%s,Q=%s) || %s(P=%s,Q=%s) under schedule %v: a result differs from the solo run", s.Op, s.Pair.P.SVG(), s.Pair.Q.SVG(), s.Op2, s.Pair2.P.SVG(), s.Pair2.Q.SVG(), s.Sched)})
	}
	return ms, rec.events
}

func (Driver) Replay(c *core.Ctx, raw json.RawMessage) []core.Mismatch {
	var s Scenario
	if err := json.Unmarshal(raw, &s); err != nil {
		return []core.Mismatch{{Signature: "machinery", Detail: err.Error()}}
	}
	switch s.Kind {
	case "poison":
		return poisonCheck(&s, nil)
	case "schedule":
		ms, _ := scheduleCheck(&s)
		return ms
	case "pooltrace":
		return poolTrace(c, s.Seed, s.Jobs, false)
	case "race":
		for i := 0; i < 5; i++ {
			if ms := raceRun(s.Mode, s.Seed, s.Jobs); len(ms) > 0 {
				return ms
			}
		}
	}
	return nil
}

// ---- pool protocol trace ---------------------------------------------------------------------------------

// poolTrace records the pool events of sequential and gate-scheduled concurrent operations and validates
// them against Trace_Pools.
func poolTrace(c *core.Ctx, seed int64, jobs int, count bool) []core.Mismatch {
	pairs := genPairs(c, seed, 40)
	if len(pairs) < 4 {
		c.Broken("no pairs for pool trace")
		return nil
	}
	clearPools()
	rec := newRecorder()
	canvas.VerifSetPoolHook(rec.hook)
	rec.register(1)
	for i := 0; i < jobs; i++ {
		runOp(opNames[i%len(opNames)], pairs[i%len(pairs)])
		rec.finish(1)
		rec.mu.Lock()
		rec.done[1] = false
		rec.mu.Unlock()
	}
	canvas.VerifSetPoolHook(nil)
	events := rec.events
	// concurrent, scheduled
	for i := 0; i < jobs/4; i++ {
		s := &Scenario{Kind: "schedule", Pair: &pairs[i%len(pairs)], Pair2: &pairs[(i*7+3)%len(pairs)], Op: opNames[i%4], Op2: opNames[(i+1)%4], Sched: []int{1, 2, 2, 1, 1, 1, 2}}
		_, ev := scheduleCheck(s)
		// renumber objects so that they do not collide with earlier ids
		base := 0
		for _, e := range events {
			if e.O > base {
				base = e.O
			}
		}
		for _, e := range ev {
			if e.O > 0 {
				e.O += base
			}
			events = append(events, e)
		}
	}
	maxO := 1
	var buf bytes.Buffer
	enc := json.NewEncoder(&buf)
	for i, e := range events {
		e.Seq = i + 1
		if e.O > maxO {
			maxO = e.O
		}
		enc.Encode(e)
	}
	cfg := fmt.Sprintf("SPECIFICATION TSpec\nCONSTANTS G = {0, 1, 2}\n O <- TO\n NObj = %d\n MaxSteps = 0\n InitBeforeUse = TRUE\n EmitAt = 0\nINVARIANTS Exclusive Balanced\nPOSTCONDITION TraceAccepted\nCHECK_DEADLOCK FALSE\n", maxO)
	res := c.TLC(tlc.Opts{Module: "Trace_Pools", Workers: 1, Config: cfg, Files: map[string][]byte{"trace_pools.ndjson": buf.Bytes()}}, false)
	if res.OK {
		if count {
			c.Count(int64(len(events)), 0, 1)
			c.SetExtra("pool_events_validated", len(events))
			c.SetExtra("pool_objects", maxO)
		}
		return nil
	}
	bad := ""
	if n := res.Depth - 1; n >= 0 && n < len(events) {
		bad = fmt.Sprintf("%+v", events[n])
	}
	os.MkdirAll(core.OutDir()+"/replays", 0o755)
	os.WriteFile(core.OutDir()+"/replays/C20-rejected-pooltrace.ndjson", buf.Bytes(), 0o644)
	return []core.Mismatch{{Signature: "pool-protocol", Detail: fmt.Sprintf("Trace_Pools rejected the recorded pool events after %d of %d events; offending event %s: %s", res.Depth-1, len(events), bad, firstLine(res.ErrText))}}
}

func firstLine(s string) string {
	if i := strings.IndexByte(s, '\n'); i >= 0 {
		return s[:i]
	}
	return s
}

// ---- race build -----------------------------------------------------------------------------------------------

// vracePath: the race-detector build of cmd/vrace (built by /verif/check; $VERIF_VRACE for scratch runs).
func vracePath() string {
	if p := os.Getenv("VERIF_VRACE"); p != "" {
		return p
	}
	return "/verif/bin/vrace"
}

var reRaceTop = regexp.MustCompile(`(?m)^  (github\.com/tdewolff/canvas[^\s(]*)\(`)

func raceRun(mode string, seed int64, jobs int) []core.Mismatch {
	cmd := exec.Command(vracePath(), mode, strconv.FormatInt(seed, 10), strconv.Itoa(jobs), "8")
	cmd.Env = append(os.Environ(), "GORACE=halt_on_error=0 exitcode=66")
	var so, se bytes.Buffer
	cmd.Stdout, cmd.Stderr = &so, &se
	err := cmd.Run()
	var ms []core.Mismatch
	if n := strings.Count(se.String(), "WARNING: DATA RACE"); n > 0 {
		top := "unknown"
		if m := reRaceTop.FindStringSubmatch(se.String()); m != nil {
			top = m[1]
		}
		ms = append(ms, core.Mismatch{Signature: "data-race:" + top, Detail: fmt.Sprintf("mode=%s seed=%d: %d race reports; first: %s", mode, seed, n, trunc(se.String(), 1200))})
	}
	var o struct {
		Mismatches []string `json:"mismatches"`
		Error      string   `json:"error"`
	}
	if jerr := json.Unmarshal(bytes.TrimSpace(so.Bytes()), &o); jerr != nil {
		if len(ms) == 0 {
			ms = append(ms, core.Mismatch{Signature: "machinery", Detail: fmt.Sprintf("vrace %s: %v %v %s", mode, err, jerr, trunc(se.String(), 500))})
		}
		return ms
	}
	if len(o.Mismatches) > 0 {
		ms = append(ms, core.Mismatch{Signature: "concurrent-result-differs:" + mode, Detail: strings.Join(o.Mismatches, "; ")})
	}
	return ms
}

func trunc(s string, n int) string {
	if len(s) > n {
		return s[:n]
	}
	return s
}

// ---- generation ------------------------------------------------------------------------------------------------

func genPairs(c *core.Ctx, seed int64, num int) []Pair {
	cfg := fmt.Sprintf("SPECIFICATION Spec\nCONSTANTS N = 4\n K = 5\n NC = 1\n Mode = \"random\"\n Num = %d\n What = \"bool\"\nCHECK_DEADLOCK FALSE\n", num)
	res := c.TLC(tlc.Opts{Module: "BoolOps", Config: cfg, Seed: seed}, true)
	var out []Pair
	for _, l := range res.Lines {
		var p Pair
		if json.Unmarshal(l, &p) == nil && len(p.P) > 0 {
			p.Jit = 0
			if !(p.F["pdeg"] || p.F["qdeg"]) {
				p.Jit = len(out) % 3 // every third pair exact, the others under one of the two jitter embeddings
			}
			p.F = nil
			out = append(out, p)
		}
	}
	return out
}

func (d Driver) Run(c *core.Ctx) error {
	c.Rule = "cases: (a) boolean/settle operations on TLC-generated lattice pairs executed on clean pools, on pools poisoned with stale objects (3 patterns) and after preceding calls — results must be bit-identical; (b) pairs of operations in two goroutines interleaved at pool-operation granularity by TLC-generated schedules — each result equals its solo result; (c) recorded pool Get/Put events validated by Trace_Pools; (d) -race build of mixed concurrent workloads. non-trivial = distinct (operation, pair) cases in which at least one poisoned object was actually handed out by Get, plus distinct schedules"
	c.Assumptions = []string{"the Go race detector and scheduler are outside TLA+; the specification contributes the pool life-cycle, the stale-state adversary and the interleavings at pool-operation granularity",
		"sync.Pool is cleared by two GC cycles"}

	// 1. model level
	mc := func(initBefore string, max int) *tlc.Result {
		return c.TLC(tlc.Opts{Module: "Pools", Config: fmt.Sprintf("SPECIFICATION Spec\nCONSTANTS G = {1, 2}\n O = {1, 2, 3}\n MaxSteps = %d\n InitBeforeUse = %s\n EmitAt = 0\nINVARIANTS Exclusive NoStaleRead Balanced TypeOK PooledGarbage\nCHECK_DEADLOCK FALSE\n", max, initBefore), Coverage: c.Thorough()}, false)
	}
	if r := mc("TRUE", c.Pick(8, 9)); !r.OK {
		c.Broken("Pools model violates " + r.Violated + ": " + r.ErrText)
	}
	if r := mc("FALSE", 6); r.Violated != "NoStaleRead" {
		c.Broken("negative control: the variant without initialise-before-use should violate NoStaleRead, got " + r.Violated)
	}
	cnt := func(atomic string) *tlc.Result {
		return c.TLC(tlc.Opts{Module: "PoolsCounter", Config: "SPECIFICATION Spec\nCONSTANTS G = {1, 2, 3}\n Atomic = " + atomic + "\nINVARIANTS UniqueNames\nCHECK_DEADLOCK FALSE\n"}, false)
	}
	if r := cnt("TRUE"); !r.OK {
		c.Broken("PoolsCounter (atomic) violates " + r.Violated)
	}
	if r := cnt("FALSE"); r.Violated != "UniqueNames" {
		c.Broken("negative control: the non-atomic counter should violate UniqueNames")
	}
	c.SetExtra("negative_controls", "Pools with InitBeforeUse=FALSE violates NoStaleRead; PoolsCounter with Atomic=FALSE violates UniqueNames (both confirmed by TLC in this run)")

	t0 := time.Now()
	lap := func(what string) {
		fmt.Fprintf(os.Stderr, "C20 %s: %.1fs\n", what, time.Since(t0).Seconds())
		t0 = time.Now()
	}
	lap("model checking")
	// 2. stale-state adversary and preceding calls
	pairs := genPairs(c, c.Seed, c.Pick(14, 40))
	if len(pairs) == 0 {
		c.Broken("no pairs generated")
		return nil
	}
	pairs = append(pairs, nearPairs(c.Pick(40, 240))...)
	rec := newRecorder()
	canvas.VerifSetPoolHook(rec.hook)
	clearPools()
	var nontriv int64
	for i, pr := range pairs {
		for oi, op := range opNames {
			s := &Scenario{Kind: "poison", Pair: &pairs[i], Op: op, Pattern: (i + oi) % 3, Prev: []Pair{pairs[(i+1)%len(pairs)], pairs[(i*5+2)%len(pairs)]}}
			before := rec.poisonN
			ms := poisonCheck(s, rec)
			if rec.poisonN > before {
				nontriv++
			}
			c.Count(3, 0, 1)
			c.Report(s, ms)
			for _, m := range ms {
				if strings.Contains(m.Signature, "hangs") {
					canvas.VerifSetPoolHook(nil)
					return nil // a goroutine is spinning: end the run with what has been reported
				}
			}
		}
		if i == 0 {
			c.Sample(map[string]any{"kind": "poison", "op": "and", "p": pr.P.SVG(), "q": pr.Q.SVG()})
		}
	}
	canvas.VerifSetPoolHook(nil)
	c.SetExtra("poisoned_objects_handed_out", rec.poisonN)
	if rec.poisonN == 0 {
		c.Broken("no poisoned pool object was ever handed out by Get: the stale-state adversary is ineffective")
	}

	lap("poison")
	// 3. schedules from the specification
	sr := c.TLC(tlc.Opts{Module: "Pools", Config: fmt.Sprintf("SPECIFICATION Spec\nCONSTANTS G = {1, 2}\n O = {1, 2}\n MaxSteps = %d\n InitBeforeUse = TRUE\n EmitAt = %d\nINVARIANTS EmitInv\nCHECK_DEADLOCK FALSE\n", c.Pick(7, 9), c.Pick(7, 9))}, true)
	seen := map[string]bool{}
	var scheds [][]int
	for _, l := range sr.Lines {
		var rec struct {
			Sched []struct {
				G int `json:"g"`
			} `json:"sched"`
		}
		if json.Unmarshal(l, &rec) != nil {
			continue
		}
		var gs []int
		for _, e := range rec.Sched {
			gs = append(gs, e.G)
		}
		k := fmt.Sprint(gs)
		if !seen[k] {
			seen[k] = true
			scheds = append(scheds, gs)
		}
	}
	if len(scheds) < 10 {
		c.Broken(fmt.Sprintf("only %d schedules generated", len(scheds)))
	}
	limit := c.Pick(120, 2000)
	for i, sc := range scheds {
		if i >= limit {
			break
		}
		s := &Scenario{Kind: "schedule", Pair: &pairs[i%len(pairs)], Pair2: &pairs[(i*3+1)%len(pairs)], Op: opNames[i%6], Op2: opNames[(i/6)%6], Sched: sc}
		ms, _ := scheduleCheck(s)
		c.Count(2, 0, 1)
		nontriv++
		if i == 0 {
			c.Sample(map[string]any{"kind": "schedule", "sched": sc, "op": s.Op, "op2": s.Op2})
		}
		c.Report(s, ms)
	}
	c.SetExtra("schedules", min(len(scheds), limit))

	lap("schedules")
	// 4. pool protocol trace
	jobs := c.Pick(60, 400)
	if ms := poolTrace(c, c.Seed, jobs, true); len(ms) > 0 {
		c.Report(&Scenario{Kind: "pooltrace", Seed: c.Seed, Jobs: jobs}, ms)
	}

	lap("pool trace")
	// 5. race build
	if _, err := os.Stat(vracePath()); err != nil {
		c.Broken("race binary /verif/bin/vrace missing (built by /verif/check)")
	} else {
		for _, mode := range []string{"mixed", "geometry", "text", "backends", "nameless", "sysfont"} {
			n := c.Pick(150, 1500)
			if mode == "sysfont" {
				n = 16 // goroutines making the first use of the system font list at once
			}
			ms := raceRun(mode, c.Seed, n)
			mach := false
			for _, m := range ms {
				if m.Signature == "machinery" {
					c.Broken(m.Detail)
					mach = true
				}
			}
			if !mach {
				c.Count(int64(n), 0, 1)
				c.Report(&Scenario{Kind: "race", Mode: mode, Seed: c.Seed, Jobs: n}, ms)
			}
		}
	}
	lap("race build runs")
	c.Count(0, nontriv, 0)
	return nil
}
