package c20

import "math"

func mathBits(v float64) uint64 { return math.Float64bits(v) }
