// Package c18: embedded fonts and glyph paths reproduce the laid-out text (spec/FontEmbed.tla, spec/Trace_FontEmbed.tla).
//
// spec -> code: (a) TLC enumerates all Get histories of the glyph subsetter with the codes the model returns; they are
// replayed on canvas.FontSubsetter. (b) TLC generates text documents (strings over an 18-character alphabet x font x
// subset x writing mode x re-used font object); each is laid out and rendered to PDF by the real code.
// code -> spec: the PDF is decoded with the independent reader (font dictionaries, W, ToUnicode, CIDToGIDMap, embedded
// font program, TJ operands) and logged as integers together with the laid-out glyphs and the source font's data;
// Trace_FontEmbed.tla drives the subsetter machine with the (glyph, code) pairs found in the content streams and
// evaluates every per-glyph / per-document / ToPath predicate in TLA+.
package c18

import (
	"bufio"
	"bytes"
	"encoding/json"
	"fmt"
	"image"
	"io"
	"math"
	"os"
	"regexp"
	"sort"
	"strings"
	"sync"
	"sync/atomic"
	"time"

	"github.com/tdewolff/canvas"
	"github.com/tdewolff/canvas/renderers/pdf"
	canvasText "github.com/tdewolff/canvas/text"
	"github.com/tdewolff/font"

	"verif/harness/internal/core"
	"verif/harness/internal/oracle"
	"verif/harness/internal/tlc"
)

type Driver struct{}

func (Driver) ID() string { return "C18" }

var fontFiles = map[int]string{1: "/repo/resources/DejaVuSerif.ttf", 2: "/repo/resources/EBGaramond12-Regular.otf", 3: "/repo/resources/Dynalight-Regular.otf"}

// ---- scenarios ---------------------------------------------------------------------------------------

type TextSc struct {
	S    []int  `json:"s"`
	Mode string `json:"mode"`
	Raw  bool   `json:"raw"`
}
type DocSc struct {
	Font     int      `json:"font"`
	Subset   bool     `json:"subset"`
	Compress bool     `json:"compress"`
	Reuse    int      `json:"reuse"`
	Variant  int      `json:"variant"` // 0 FontNormal, 1 FontSubscript, 2 FontSuperscript
	Style    int      `json:"style"`   // 0 regular, 1 italic requested from a family without an italic font (faux italic)
	Feat     int      `json:"feat"`    // OpenType features set with SetFeatures: 0 none, 1 "-kern", 2 "-liga"
	Texts    []TextSc `json:"texts"`
}
type HistCall struct {
	G    int `json:"g"`
	Code int `json:"code"`
}
type Scenario struct {
	// subsetter history
	Hist []HistCall `json:"hist,omitempty"`
	List []int      `json:"list,omitempty"`
	// text document
	Doc *DocSc  `json:"doc,omitempty"`
	Cps [][]int `json:"cps,omitempty"` // code points per text, fixed by the spec
}

// ---- the source fonts, parsed once by the trusted parser and never handed to canvas ----------------------

type sigRec struct {
	N   int `json:"n"` // number of path commands (-1: no such glyph)
	H   int `json:"h"` // order-sensitive hash of the outline points (1/64 font units)
	Adv int `json:"adv"`
	X0  int `json:"x0"`
	Y0  int `json:"y0"`
	X1  int `json:"x1"`
	Y1  int `json:"y1"`
	nc  int // contours
}

type recorder struct {
	n, nc          int
	pendingMove    bool
	h              int
	init           bool
	x0, y0, x1, y1 float64
}

func (r *recorder) pt(x, y float64) {
	if !r.init {
		r.init = true
		r.x0, r.x1, r.y0, r.y1 = x, x, y, y
	}
	r.x0, r.x1 = math.Min(r.x0, x), math.Max(r.x1, x)
	r.y0, r.y1 = math.Min(r.y0, y), math.Max(r.y1, y)
	r.h = (r.h*31 + int(math.Round(x*64))*7 + int(math.Round(y*64)) + 1000003*64) % 1000003
}
func (r *recorder) MoveTo(x, y float64)             { r.nc++; r.pt(x, y); r.n++ }
func (r *recorder) LineTo(x, y float64)             { r.pt(x, y); r.n++ }
func (r *recorder) QuadTo(a, b, x, y float64)       { r.pt(a, b); r.pt(x, y); r.n++ }
func (r *recorder) CubeTo(a, b, c, d, x, y float64) { r.pt(a, b); r.pt(c, d); r.pt(x, y); r.n++ }
func (r *recorder) Close()                          { r.n++ }

func glyphSig(s *font.SFNT, gid int) (sig sigRec) {
	defer func() {
		if recover() != nil {
			sig = sigRec{N: -2}
		}
	}()
	if s == nil || gid < 0 || gid >= int(s.NumGlyphs()) {
		return sigRec{N: -1}
	}
	r := &recorder{}
	if err := s.GlyphPath(r, uint16(gid), 0, 0, 0, 1.0, font.NoHinting); err != nil {
		return sigRec{N: -2}
	}
	adv := -1
	if s.Hmtx != nil {
		adv = int(s.GlyphAdvance(uint16(gid)))
	}
	return sigRec{N: r.n, H: r.h, Adv: adv, X0: int(math.Round(r.x0)), Y0: int(math.Round(r.y0)), X1: int(math.Round(r.x1)), Y1: int(math.Round(r.y1)), nc: r.nc}
}

type refFont struct {
	mu   sync.Mutex
	sfnt *font.SFNT
	sigs map[int]sigRec
	data []byte
}

var (
	refOnce sync.Once
	refs    = map[int]*refFont{}
	refErr  error
)

func ref(f int) (*refFont, error) {
	refOnce.Do(func() {
		for k, file := range fontFiles {
			b, err := os.ReadFile(file)
			if err != nil {
				refErr = err
				return
			}
			s, err := font.ParseFont(b, 0)
			if err != nil {
				refErr = err
				return
			}
			refs[k] = &refFont{sfnt: s, sigs: map[int]sigRec{}, data: b}
		}
	})
	if refErr != nil {
		return nil, refErr
	}
	return refs[f], nil
}

func (r *refFont) sig(gid int) sigRec {
	r.mu.Lock()
	defer r.mu.Unlock()
	if s, ok := r.sigs[gid]; ok {
		return s
	}
	s := glyphSig(r.sfnt, gid)
	r.sigs[gid] = s
	return s
}
func (r *refFont) kind() string {
	if r.sfnt.IsTrueType {
		return "ttf"
	}
	return "cff"
}
func (r *refFont) rev(gid int) int {
	r.mu.Lock()
	defer r.mu.Unlock()
	return int(r.sfnt.Cmap.ToUnicode(uint16(gid)))
}

// advanceClasses measures, with the real shaper and the source font's hmtx: eq = up to 8 characters (distinct glyphs) of the
// largest class with one common advance that differs from the .notdef advance; dw = up to 6 characters whose glyph has the
// .notdef advance (the DW of the embedded CIDFont). They are the alphabet of the "wruns" scenario family of the spec.
func advanceClasses(f int) (eq, dw []int, err error) {
	rf, err := ref(f)
	if err != nil {
		return nil, nil, err
	}
	fnt, err := canvas.LoadFont(rf.data, 0, canvas.FontRegular)
	if err != nil {
		return nil, nil, err
	}
	face := fnt.Face(12, canvas.Black)
	notdef := int(rf.sfnt.GlyphAdvance(0))
	upm := int(rf.sfnt.Head.UnitsPerEm)
	width := func(a int) int { return (2000*a + upm) / (2 * upm) }
	groups := map[int][]int{}
	seen := map[uint16]bool{}
	for r := rune(0x20); r < 0x180; r++ {
		if (r >= 0x7f && r < 0xa1) || r == 0xad {
			continue
		}
		gs := face.Glyphs(string(r))
		if len(gs) != 1 || gs[0].ID == 0 || seen[gs[0].ID] {
			continue
		}
		seen[gs[0].ID] = true
		a := int(rf.sfnt.GlyphAdvance(gs[0].ID))
		groups[a] = append(groups[a], int(r))
	}
	dw = groups[notdef]
	if len(dw) > 6 {
		dw = dw[:6]
	}
	best := -1
	for a, rs := range groups {
		if width(a) == width(notdef) {
			continue
		}
		if best < 0 || len(rs) > len(groups[best]) || (len(rs) == len(groups[best]) && a < best) {
			best = a
		}
	}
	if best >= 0 {
		eq = groups[best]
		if len(eq) > 8 {
			eq = eq[:8]
		}
	}
	return eq, dw, nil
}

func tlaSet(xs []int) string {
	parts := make([]string, len(xs))
	for i, x := range xs {
		parts[i] = fmt.Sprint(x)
	}
	return "{" + strings.Join(parts, ", ") + "}"
}

// ---- records of FontEmbed.tla ------------------------------------------------------------------------------

type fontRec struct {
	Enc     string           `json:"enc"`
	Subtype string           `json:"subtype"`
	Dw      int              `json:"dw"`
	W       []oracle.WEntry  `json:"w"`
	Tuc     []oracle.TUChar  `json:"tuc"`
	Tur     []oracle.TURange `json:"tur"`
	Hasmap  bool             `json:"hasmap"`
	Map     []int            `json:"map"`
	Ng      int              `json:"ng"`
	W1      int              `json:"w1"`
	Csok    int              `json:"csok"`    // CFF programs: the Top DICT CharStrings offset points at a well-formed INDEX (1), not (0), n/a (-1)
	Maxcode int              `json:"maxcode"` // highest code shown with this font in the document
	emb     *font.SFNT
	bad     bool
	badText string
}
type spanRec struct {
	pmOK bool
	W    int   `json:"w"`    // span width in font units of the face's scale Size/unitsPerEm
	Sum  int   `json:"sum"`  // sum of the laid-out advances
	Um   int   `json:"um"`   // span width in micrometres
	Size int   `json:"size"` // face size in micrometres
	Tf   int   `json:"tf"`   // operand of Tf for this span's text object, micrometres
	N    int   `json:"n"`    // glyphs
	Chk  bool  `json:"chk"`  // horizontal, unrotated span whose text matrix was read: placement is compared
	Tm   []int `json:"tm"`   // text matrix of the span's text object: a b c d in 1/10000, e f in micrometres
	Pm   []int `json:"pm"`   // matrix under which Text.RenderAsPath draws the span's glyph path (same units)
	Sh   int   `json:"sh"`   // faux italic shear of the face, 1/10000
	Fox  int   `json:"fox"`  // face offset (sub/superscript) in micrometres
	Foy  int   `json:"foy"`
	Pchk bool  `json:"pchk"` // pm was recorded: it is compared with the span origin and rotation reported by the layout
	Vm   []int `json:"vm"`   // the view matrix handed to RenderText / RenderAsPath
	Wx   int   `json:"wx"`   // span origin reported by Text.WalkSpans, micrometres
	Wy   int   `json:"wy"`
	Rot  int   `json:"rot"` // rotation of the span in degrees (Latin text set sideways in a vertical writing mode: -90)
}
type docRec struct {
	Kind       string    `json:"kind"` // "ttf" | "cff"
	Why        string    `json:"why"`  // why a font object could not be decoded (diagnostic only)
	Font       int       `json:"font"`
	Subset     bool      `json:"subset"`
	Reuse      int       `json:"reuse"`
	Upm        int       `json:"upm"`
	Hv         bool      `json:"hv"`
	Fonts      []fontRec `json:"fonts"`
	Spans      []spanRec `json:"spans"`
	Unreadable int       `json:"unreadable"`
}
type glyphEv struct {
	tm      [6]float64
	tmOK    bool
	tf      int
	Span    int    `json:"span"`
	F       int    `json:"f"`
	Code    int    `json:"code"`
	Adj     int    `json:"adj"`
	G       int    `json:"g"`
	Xadv    int    `json:"xadv"`
	Yadv    int    `json:"yadv"`
	Vert    bool   `json:"vert"`
	Cluster []int  `json:"cluster"`
	Rev     int    `json:"rev"`
	Adv     int    `json:"adv"`
	Src     sigRec `json:"src"`
	Eid     sigRec `json:"eid"`
	Emap    sigRec `json:"emap"`
}
type pathGlyph struct {
	Xadv int  `json:"xadv"`
	Yadv int  `json:"yadv"`
	Xoff int  `json:"xoff"`
	Yoff int  `json:"yoff"`
	Vert bool `json:"vert"`
	N    int  `json:"n"`
	X0   int  `json:"x0"`
	Y0   int  `json:"y0"`
	Ox0  int  `json:"ox0"`
	Oy0  int  `json:"oy0"`
}
type pathRec struct {
	Kind    string      `json:"kind"`
	Font    int         `json:"font"`
	Reuse   int         `json:"reuse"`
	Err     bool        `json:"err"`
	Gl      []pathGlyph `json:"gl"`
	Xoff0   int         `json:"xoff0"`
	Yoff0   int         `json:"yoff0"`
	Tw      int         `json:"tw"`
	Ret     int         `json:"ret"`
	Sw      int         `json:"sw"` // width of the single span a text line of the same string gets, font units (-1: several spans)
	Split   bool        `json:"split"`
	Grid    bool        `json:"grid"`
	errText string
}
type event struct {
	Op string   `json:"op"`
	ID int      `json:"id"`
	D  *docRec  `json:"d,omitempty"`
	E  *glyphEv `json:"e,omitempty"`
	P  *pathRec `json:"p,omitempty"`
}

// ---- laying out and rendering with the real code ----------------------------------------------------------------

type laidGlyph struct {
	span    int // 1-based index into rendered.spans
	g       canvasText.Glyph
	cluster []int
	vert    bool
}

func cpString(cps []int) string {
	var sb strings.Builder
	for _, c := range cps {
		sb.WriteRune(rune(c))
	}
	return sb.String()
}

var reDigits = regexp.MustCompile(`[0-9]+`)

func panicSig(r any) string {
	m := reDigits.ReplaceAllString(fmt.Sprint(r), "N")
	if len(m) > 60 {
		m = m[:60]
	}
	return "panic:" + m
}

func unitsOf(mm, mmPerEm float64) int {
	u := mm / mmPerEm
	r := math.Round(u)
	if math.IsNaN(u) || math.Abs(u-r) > 1e-4 {
		return -999999
	}
	return int(r)
}

type rendered struct {
	kind  string
	data  []byte
	laid  []laidGlyph
	spans []spanRec
	hv    bool
	paths []*pathRec
	upm   int
}

func clusterRunes(base string, offsets []int, at int) []int {
	end := len(base)
	for _, o := range offsets {
		if o > at && o < end {
			end = o
		}
	}
	if at < 0 || at > len(base) {
		return []int{-1}
	}
	out := []int{}
	for _, r := range base[at:end] {
		out = append(out, int(r))
	}
	return out
}

// render executes a document scenario: fresh font object, optional earlier subsetting document, layout, PDF, ToPath.
func render(s *Scenario) (res *rendered, ms []core.Mismatch) {
	where := "load"
	defer func() {
		if r := recover(); r != nil {
			ms = append(ms, core.Mismatch{Signature: panicSig(r), Detail: fmt.Sprintf("panic in %s: %v", where, r)})
		}
	}()
	d := s.Doc
	rf, err := ref(d.Font)
	if err != nil {
		return nil, []core.Mismatch{{Signature: "machinery", Detail: err.Error()}}
	}
	fam := canvas.NewFontFamily("c18font")
	if err := fam.LoadFont(rf.data, 0, canvas.FontRegular); err != nil {
		return nil, []core.Mismatch{{Signature: "machinery", Detail: err.Error()}}
	}
	// raw texts (code points chosen for one font's repertoire): not applicable when the font lacks a character
	for i, t := range d.Texts {
		if t.Raw {
			for _, cp := range s.Cps[i] {
				if rf.sfnt.GlyphIndex(rune(cp)) == 0 {
					atomic.AddInt64(&skippedDocs, 1)
					return nil, nil
				}
			}
		}
	}
	if d.Feat != 0 {
		fam.SetFeatures([]string{"", "-kern", "-liga"}[d.Feat])
	}
	style := canvas.FontRegular
	if d.Style == 1 {
		style = canvas.FontItalic // the family has no italic font: the face gets FauxItalic (glyphs sheared by 0.3)
	}
	face := fam.Face(12, canvas.Black, style, []canvas.FontVariant{canvas.FontNormal, canvas.FontSubscript, canvas.FontSuperscript}[d.Variant])
	// sub/superscript faces ask for a heavier weight; the family has the regular font only, so the face would get faux
	// bold (outlines offset in ToPath, stroked text in the PDF). Faux bold is not C18's subject: switched off.
	face.FauxBold = 0
	if d.Style != 1 {
		face.FauxItalic = 0
	}
	res = &rendered{upm: int(rf.sfnt.Head.UnitsPerEm), kind: rf.kind()}
	for k := 0; k < d.Reuse; k++ {
		where = "earlier document"
		var sink bytes.Buffer
		p0 := pdf.New(&sink, 100, 50, &pdf.Options{Compress: false, SubsetFonts: true, ImageEncoding: canvas.Lossless})
		p0.RenderText(canvas.NewTextLine(face, "AV", canvas.Left), canvas.Identity.Translate(5, 20))
		p0.Close()
	}
	// FontFace.ToPath / TextWidth (horizontal texts), plain face and a face with offsets; observed before this document's
	// PDF is written (but after the earlier documents of the scenario)
	where = "ToPath"
	for i, t := range d.Texts {
		if t.Mode != "H" || face.FauxItalic != 0 { // a sheared path has other control point boxes: placement of sheared text is checked through the matrices
			continue
		}
		str := cpString(s.Cps[i])
		for _, off := range [][2]int32{{0, 0}, {120, -80}} {
			fc := *face
			fc.XOffset, fc.YOffset = face.XOffset+off[0], face.YOffset+off[1]
			pr := observePath(&fc, str, rf)
			pr.Font, pr.Reuse, pr.Kind = d.Font, d.Reuse, res.kind
			res.paths = append(res.paths, pr)
		}
	}
	where = "layout"
	var texts []*canvas.Text
	hasV, hasH := false, false
	for i, t := range d.Texts {
		str := cpString(s.Cps[i])
		var txt *canvas.Text
		if t.Mode == "H2" {
			// the same line broken in the middle: the spans of the second line have y # 0
			if rs := []rune(str); len(rs) >= 2 {
				str = string(rs[:len(rs)/2]) + "\n" + string(rs[len(rs)/2:])
			}
		}
		horizontal := t.Mode == "H" || t.Mode == "H2"
		if horizontal {
			txt = canvas.NewTextLine(face, str, canvas.Left)
		} else {
			str = strings.Trim(str, " ")
			rt := canvas.NewRichText(face)
			rt.SetWritingMode(canvas.VerticalRL)
			if t.Mode == "VU" {
				rt.SetTextOrientation(canvas.Upright)
			} else {
				rt.SetTextOrientation(canvas.Natural)
			}
			rt.WriteString(str)
			txt = rt.ToText(0, 0, canvas.Left, canvas.Top, 0, 0)
		}
		texts = append(texts, txt)
		// the matrices under which the path rendering draws the spans (same view matrix as the PDF below)
		pr := &pathRecorder{}
		txt.RenderAsPath(pr, textMatrix(i), canvas.Resolution(0))
		// the laid-out glyphs, in the order RenderText walks them
		var spans []canvas.TextSpan
		var origins [][2]float64 // span origins as Text.WalkSpans reports them (relative to the text's own origin)
		txt.WalkSpans(func(x, y float64, span canvas.TextSpan) {
			if span.IsText() {
				spans = append(spans, span)
				origins = append(origins, [2]float64{x, y})
			}
		})
		spanIdx := 0
		var all []int
		for _, span := range spans {
			for _, g := range span.Glyphs {
				all = append(all, int(g.Cluster))
			}
		}
		for _, span := range spans {
			base, offs := str, all
			if horizontal {
				base = span.Text
				offs = nil
				for _, g := range span.Glyphs {
					offs = append(offs, int(g.Cluster))
				}
			}
			sum := 0
			for _, g := range span.Glyphs {
				lg := laidGlyph{span: len(res.spans) + 1, g: g, vert: g.Vertical, cluster: clusterRunes(base, offs, int(g.Cluster))}
				res.laid = append(res.laid, lg)
				if g.Vertical {
					sum -= int(g.YAdvance)
					hasV = true
				} else {
					sum += int(g.XAdvance)
					hasH = true
				}
			}
			// the face's scale is Size / unitsPerEm (the PDF's Tf operand is Size); MmPerEm is not used as a reference
			scale := span.Face.Size / float64(res.upm)
			sr := spanRec{W: unitsOf(span.Width, scale), Sum: sum, Um: int(math.Round(span.Width * 1000)), Size: int(math.Round(span.Face.Size * 1000)), N: len(span.Glyphs), Tm: []int{}, Pm: []int{}, Vm: []int{}}
			sr.Vm = matInts(textMatrix(i))
			sr.Wx, sr.Wy = int(math.Round(origins[spanIdx][0]*1000)), int(math.Round(origins[spanIdx][1]*1000))
			sr.Rot = int(math.Round(float64(span.Rotation)))
			sr.Fox = int(math.Round(scale * float64(span.Face.XOffset) * 1000))
			sr.Foy = int(math.Round(scale * float64(span.Face.YOffset) * 1000))
			if k := spanIdx; k < len(pr.ms) && len(pr.ms) == len(spans) && float64(sr.Rot) == float64(span.Rotation) {
				// every span: where the path rendering puts it (compared with the WalkSpans origin and the rotation)
				sr.Pchk = true
				sr.Pm = matInts(pr.ms[k])
				if horizontal && span.Rotation == 0 && len(span.Glyphs) > 0 && !span.Glyphs[0].Vertical {
					// horizontal unrotated spans: also compared with the PDF text matrix
					sr.pmOK = true
					sr.Sh = int(math.Round(span.Face.FauxItalic * 10000))
				}
			}
			spanIdx++
			res.spans = append(res.spans, sr)
		}
	}
	res.hv = hasV && hasH
	where = "pdf"
	var buf bytes.Buffer
	p := pdf.New(&buf, 200, 120, &pdf.Options{Compress: d.Compress, SubsetFonts: d.Subset, ImageEncoding: canvas.Lossless})
	for i, txt := range texts {
		p.RenderText(txt, textMatrix(i))
	}
	if err := p.Close(); err != nil {
		ms = append(ms, core.Mismatch{Signature: "close-error", Detail: err.Error()})
	}
	res.data = buf.Bytes()

	return res, ms
}

var skippedDocs int64

func textMatrix(i int) canvas.Matrix { return canvas.Identity.Translate(10+60*float64(i), 100) }

// pathRecorder is a canvas.Renderer that records the matrices of RenderPath (one call per text span in Text.RenderAsPath).
type pathRecorder struct{ ms []canvas.Matrix }

func (r *pathRecorder) Size() (float64, float64) { return 200, 120 }
func (r *pathRecorder) RenderPath(p *canvas.Path, st canvas.Style, m canvas.Matrix) {
	r.ms = append(r.ms, m)
}
func (r *pathRecorder) RenderText(t *canvas.Text, m canvas.Matrix)   {}
func (r *pathRecorder) RenderImage(img image.Image, m canvas.Matrix) {}

// matInts: a b c d in 1/10000, e f in micrometres (PDF order: x' = a x + c y + e, y' = b x + d y + f)
func matInts(m canvas.Matrix) []int {
	r := func(v float64) int { return int(math.Round(v)) }
	return []int{r(m[0][0] * 10000), r(m[1][0] * 10000), r(m[0][1] * 10000), r(m[1][1] * 10000), r(m[0][2] * 1000), r(m[1][2] * 1000)}
}

func observePath(face *canvas.FontFace, str string, rf *refFont) *pathRec {
	pr := &pathRec{Gl: []pathGlyph{}, Xoff0: int(face.XOffset), Yoff0: int(face.YOffset), Grid: true, Split: true}
	glyphs := face.Glyphs(str)
	p, adv, err := face.ToPath(str)
	if err != nil {
		pr.Err, pr.Split = true, false
		pr.errText = err.Error()
	}
	scale := face.Size / float64(rf.sfnt.Head.UnitsPerEm) // the face's scale; not face.MmPerEm, which is what is being checked
	pr.Tw = unitsOf(face.TextWidth(str), scale)
	pr.Ret = unitsOf(adv, scale)
	pr.Sw = -1
	nspans := 0
	canvas.NewTextLine(face, str, canvas.Left).WalkSpans(func(x, y float64, span canvas.TextSpan) {
		nspans++
		pr.Sw = unitsOf(span.Width, scale)
	})
	if nspans != 1 {
		pr.Sw = -1
	}
	segs, derr := oracle.Decode(p.Data())
	if derr != nil {
		pr.Split = false
	}
	// control point boxes per sub-path
	type box struct{ x0, y0 float64 }
	var boxes []box
	for _, sg := range segs {
		for len(boxes) <= sg.Sub {
			boxes = append(boxes, box{math.Inf(1), math.Inf(1)})
		}
		b := &boxes[sg.Sub]
		pts := []oracle.Pt{sg.End}
		switch sg.Cmd {
		case oracle.CmdQuad:
			pts = append(pts, sg.C1)
		case oracle.CmdCube:
			pts = append(pts, sg.C1, sg.C2)
		case oracle.CmdArc:
			pr.Split = false
		}
		for _, q := range pts {
			b.x0, b.y0 = math.Min(b.x0, q.X), math.Min(b.y0, q.Y)
		}
	}
	total := 0
	for _, g := range glyphs {
		total += rf.sig(int(g.ID)).nc
	}
	if total != len(boxes) {
		pr.Split = false
	}
	k := 0
	for _, g := range glyphs {
		src := rf.sig(int(g.ID))
		pg := pathGlyph{Xadv: int(g.XAdvance), Yadv: int(g.YAdvance), Xoff: int(g.XOffset), Yoff: int(g.YOffset), Vert: g.Vertical, N: src.N, X0: src.X0, Y0: src.Y0}
		if src.nc == 0 {
			pg.N = 0
		}
		if pr.Split && src.nc > 0 {
			x0, y0 := math.Inf(1), math.Inf(1)
			for j := 0; j < src.nc; j++ {
				x0, y0 = math.Min(x0, boxes[k+j].x0), math.Min(y0, boxes[k+j].y0)
			}
			pg.Ox0, pg.Oy0 = int(math.Round(x0/scale)), int(math.Round(y0/scale))
		}
		k += src.nc
		pr.Gl = append(pr.Gl, pg)
	}
	return pr
}

// ---- decoding the produced PDF ------------------------------------------------------------------------------------

func nameOf(v oracle.PDFValue) string {
	if n, ok := v.(oracle.PDFName); ok {
		return string(n)
	}
	return ""
}

func intOf(v oracle.PDFValue, def int) int {
	if n, ok := v.(oracle.PDFNum); ok {
		return int(math.Round(n.F))
	}
	return def
}

// rewrapSFNT returns an SFNT file with all tables of emb plus those tables of src that emb lacks.
func rewrapSFNT(emb, src []byte) []byte {
	type tab struct {
		tag  string
		data []byte
	}
	read := func(b []byte) (string, []tab) {
		if len(b) < 12 {
			return "", nil
		}
		n := int(b[4])<<8 | int(b[5])
		var ts []tab
		for i := 0; i < n && 12+16*(i+1) <= len(b); i++ {
			e := b[12+16*i:]
			off := int(e[8])<<24 | int(e[9])<<16 | int(e[10])<<8 | int(e[11])
			ln := int(e[12])<<24 | int(e[13])<<16 | int(e[14])<<8 | int(e[15])
			if off < 0 || ln < 0 || off+ln > len(b) {
				continue
			}
			ts = append(ts, tab{string(e[0:4]), b[off : off+ln]})
		}
		return string(b[0:4]), ts
	}
	ver, ts := read(emb)
	_, ss := read(src)
	have := map[string]bool{}
	for _, t := range ts {
		have[t.tag] = true
	}
	for _, t := range ss {
		switch t.tag {
		case "name", "post", "OS/2", "cmap", "head", "hhea", "maxp":
			if !have[t.tag] {
				ts = append(ts, t)
			}
		}
	}
	sort.Slice(ts, func(i, j int) bool { return ts[i].tag < ts[j].tag })
	var out bytes.Buffer
	put16 := func(v int) { out.WriteByte(byte(v >> 8)); out.WriteByte(byte(v)) }
	put32 := func(v int) { put16(v >> 16); put16(v & 0xffff) }
	out.WriteString(ver)
	put16(len(ts))
	es := 0
	for 1<<(es+1) <= len(ts) {
		es++
	}
	put16(16 << es)
	put16(es)
	put16(16*len(ts) - (16 << es))
	off := 12 + 16*len(ts)
	for _, t := range ts {
		out.WriteString(t.tag)
		put32(0)
		put32(off)
		put32(len(t.data))
		off += (len(t.data) + 3) &^ 3
	}
	for _, t := range ts {
		out.Write(t.data)
		for k := len(t.data); k%4 != 0; k++ {
			out.WriteByte(0)
		}
	}
	return out.Bytes()
}

func decodeFont(f *oracle.PDFFile, o *oracle.PDFObject, pristine []byte) fontRec {
	fr := fontRec{Csok: -1, Enc: nameOf(o.Dict.Get("Encoding")), Dw: 1000, W1: -1000, W: []oracle.WEntry{}, Tuc: []oracle.TUChar{}, Tur: []oracle.TURange{}, Map: []int{}, Ng: -1}
	var desc *oracle.PDFDict
	if arr, _, ok := f.Resolve(o.Dict.Get("DescendantFonts")); ok {
		if a, isArr := arr.(oracle.PDFArray); isArr && len(a) == 1 {
			desc = f.ResolveDict(a[0])
		}
	}
	if desc == nil {
		fr.bad = true
		return fr
	}
	fr.Subtype = nameOf(desc.Get("Subtype"))
	fr.Dw = intOf(desc.Get("DW"), 1000)
	if dw2, _, ok := f.Resolve(desc.Get("DW2")); ok {
		if a, isArr := dw2.(oracle.PDFArray); isArr && len(a) == 2 {
			fr.W1 = intOf(a[1], -1000)
		}
	}
	wv, _, _ := f.Resolve(desc.Get("W"))
	w, err := oracle.ParseWArray(wv)
	if err != nil {
		fr.bad = true
	} else {
		fr.W = w
	}
	if _, tu, ok := f.Resolve(o.Dict.Get("ToUnicode")); ok && tu != nil && tu.IsStream && tu.Decode == "ok" {
		c, r, err := oracle.ParseToUnicode(tu.Decoded)
		if err != nil {
			fr.bad = true
		}
		fr.Tuc, fr.Tur = c, r
	}
	switch m := desc.Get("CIDToGIDMap").(type) {
	case oracle.PDFRef:
		if _, mo, ok := f.Resolve(m); ok && mo != nil && mo.IsStream && mo.Decode == "ok" {
			fr.Hasmap, fr.Map = true, oracle.ParseCIDToGIDMap(mo.Decoded)
		} else {
			fr.bad = true
		}
	}
	if fd := f.ResolveDict(desc.Get("FontDescriptor")); fd != nil {
		for _, k := range []string{"FontFile2", "FontFile3"} {
			if _, ff, ok := f.Resolve(fd.Get(k)); ok && ff != nil && ff.IsStream && ff.Decode == "ok" {
				fr.Csok = oracle.CFFCharStringsIndexOK(ff.Decoded)
				func() {
					defer func() {
						if r := recover(); r != nil {
							fr.badText = fmt.Sprint("embedded program: panic in the parser: ", r)
						}
					}()
					emb, err := font.ParseEmbeddedSFNT(ff.Decoded, 0)
					if err != nil && pristine != nil {
						// the parser's embedded mode cannot read OpenType/CFF programs ("cmap: missing maxp table"):
						// add the tables its normal mode insists on (name, post, ..) from the source file; the glyph
						// data (CFF, hmtx, maxp) stay those of the embedded program
						emb, err = font.ParseSFNT(rewrapSFNT(ff.Decoded, pristine), 0)
					}
					if err != nil {
						// the program is reported as unreadable through Ng = -1 (and Csok), not through fr.bad
						fr.badText = "embedded program: " + err.Error()
						return
					}
					fr.emb, fr.Ng = emb, int(emb.NumGlyphs())
				}()
			}
		}
	}
	return fr
}

// decode pairs every shown code of the document with the laid-out glyphs and builds the trace events.
func decode(id int, s *Scenario, r *rendered) (trace []byte, nEvents int, ms []core.Mismatch) {
	d := s.Doc
	rf, _ := ref(d.Font)
	f := oracle.ParsePDF(r.data)
	dr := &docRec{Kind: r.kind, Font: d.Font, Subset: d.Subset, Reuse: d.Reuse, Upm: r.upm, Hv: r.hv, Fonts: []fontRec{}, Spans: r.spans}
	if dr.Spans == nil {
		dr.Spans = []spanRec{}
	}
	fontIdx := map[int]int{} // object number -> index into dr.Fonts (1-based)
	var shown []glyphEv
	// pages in page-tree order (flat tree of this writer; the structure itself is C13's subject)
	var pages []*oracle.PDFObject
	for _, o := range f.Objects {
		if o.Dict != nil && nameOf(o.Dict.Get("Type")) == "Page" {
			pages = append(pages, o)
		}
	}
	sort.Slice(pages, func(i, j int) bool { return pages[i].Offset < pages[j].Offset })
	for _, pg := range pages {
		res := f.ResolveDict(pg.Dict.Get("Resources"))
		var fonts *oracle.PDFDict
		if res != nil {
			fonts = f.ResolveDict(res.Get("Font"))
		}
		_, co, ok := f.Resolve(pg.Dict.Get("Contents"))
		if !ok || co == nil || co.Decode != "ok" {
			dr.Unreadable++
			continue
		}
		cur, tf := 0, 0
		// text line matrix as <<a b c d e f>>; Td and Tm as defined in ISO 32000-1 9.4.2 (this writer uses no TD, T*, ', ")
		tlm, tlmOK := [6]float64{1, 0, 0, 1, 0, 0}, false
		num := func(v oracle.PDFValue) float64 {
			if n, ok := v.(oracle.PDFNum); ok {
				return n.F
			}
			tlmOK = false
			return 0
		}
		for _, op := range oracle.ParseContent(co.Decoded) {
			switch op.Op {
			case "BT":
				tlm, tlmOK = [6]float64{1, 0, 0, 1, 0, 0}, true
			case "ET", "TD", "T*", "'", "\"":
				tlmOK = false
			case "Td":
				if len(op.Args) == 2 {
					tx, ty := num(op.Args[0]), num(op.Args[1])
					tlm[4], tlm[5] = tx*tlm[0]+ty*tlm[2]+tlm[4], tx*tlm[1]+ty*tlm[3]+tlm[5]
				} else {
					tlmOK = false
				}
			case "Tm":
				if len(op.Args) == 6 {
					for k := 0; k < 6; k++ {
						tlm[k] = num(op.Args[k])
					}
				} else {
					tlmOK = false
				}
			case "Tf":
				cur = 0
				if len(op.Args) == 2 {
					if n, ok := op.Args[1].(oracle.PDFNum); ok {
						tf = int(math.Round(n.F * 1000))
					}
				}
				if len(op.Args) == 2 && fonts != nil {
					if fo, isRef := fonts.Get(nameOf(op.Args[0])).(oracle.PDFRef); isRef {
						if _, obj, ok := f.Resolve(fo); ok && obj != nil && obj.Dict != nil && nameOf(obj.Dict.Get("Subtype")) == "Type0" {
							if _, have := fontIdx[obj.Num]; !have {
								fr := decodeFont(f, obj, rf.data)
								if fr.badText != "" {
									dr.Why += fr.badText + "; "
								}
								if fr.bad {
									dr.Unreadable++
								}
								dr.Fonts = append(dr.Fonts, fr)
								fontIdx[obj.Num] = len(dr.Fonts)
							}
							cur = fontIdx[obj.Num]
						}
					}
				}
			case "TJ", "Tj":
				if cur == 0 || len(op.Args) != 1 {
					dr.Unreadable++
					continue
				}
				sh, _, odd := oracle.DecodeTJ(op.Args[0])
				if odd {
					dr.Unreadable++
				}
				for _, x := range sh {
					shown = append(shown, glyphEv{tm: tlm, tmOK: tlmOK, tf: tf, F: cur, Code: x.Code, Adj: x.Adj})
				}
			}
		}
	}
	if len(shown) != len(r.laid) {
		ms = append(ms, core.Mismatch{Signature: "shown-code-count-differs", Detail: fmt.Sprintf("%d codes shown in the content streams, %d glyphs laid out", len(shown), len(r.laid))})
		return nil, 0, ms
	}
	for i := range shown {
		if f := shown[i].F; f >= 1 && f <= len(dr.Fonts) && shown[i].Code > dr.Fonts[f-1].Maxcode {
			dr.Fonts[f-1].Maxcode = shown[i].Code
		}
	}
	for i := range shown {
		if k := r.laid[i].span; k >= 1 && k <= len(dr.Spans) {
			dr.Spans[k-1].Tf = shown[i].tf
			if sp := &dr.Spans[k-1]; sp.pmOK && shown[i].tmOK && len(sp.Tm) == 0 {
				t := shown[i].tm
				r := func(v float64) int { return int(math.Round(v)) }
				sp.Tm = []int{r(t[0] * 10000), r(t[1] * 10000), r(t[2] * 10000), r(t[3] * 10000), r(t[4] * 1000), r(t[5] * 1000)}
				sp.Chk = true
			}
		}
	}
	var buf bytes.Buffer
	enc := json.NewEncoder(&buf)
	enc.Encode(event{Op: "DOC", ID: id, D: dr})
	nEvents++
	for i := range shown {
		e := shown[i]
		lg := r.laid[i]
		e.Span = lg.span
		fr := dr.Fonts[e.F-1]
		e.G, e.Xadv, e.Yadv, e.Vert, e.Cluster = int(lg.g.ID), int(lg.g.XAdvance), int(lg.g.YAdvance), lg.vert, lg.cluster
		e.Rev = rf.rev(e.G)
		e.Src = rf.sig(e.G)
		e.Adv = e.Src.Adv
		e.Eid = glyphSig(fr.emb, e.Code)
		e.Emap = e.Eid
		if fr.Hasmap {
			if e.Code < len(fr.Map) {
				e.Emap = glyphSig(fr.emb, fr.Map[e.Code])
			} else {
				e.Emap = sigRec{N: -1}
			}
		}
		enc.Encode(event{Op: "GET", ID: id, E: &e})
		nEvents++
	}
	enc.Encode(event{Op: "END", ID: id})
	nEvents++
	for _, p := range r.paths {
		enc.Encode(event{Op: "PATH", ID: id, P: p})
		nEvents++
	}
	return buf.Bytes(), nEvents, ms
}

// ---- validation by Trace_FontEmbed ------------------------------------------------------------------------------------

const noClasses = " Eq1 = {}\n Eq2 = {}\n Eq3 = {}\n Dw1 = {}\n Dw2 = {}\n Dw3 = {}\n"

func traceCfg() string {
	return "SPECIFICATION TSpec\nCONSTANTS Gen = \"trace\"\n EmitAt = 0\n NRand = 0\n StrLen = 0\n" + noClasses + "POSTCONDITION TraceAccepted\nCHECK_DEADLOCK FALSE\n"
}

type verdictLine struct {
	ID    int      `json:"id"`
	K     int      `json:"k"`
	Fails []string `json:"fails"`
}

func validate(c *core.Ctx, trace []byte, nEvents int) (map[int]map[string]int, bool) {
	res := c.TLC(tlc.Opts{Module: "Trace_FontEmbed", Workers: 1, HeapGB: 3, Files: map[string][]byte{"trace_fontembed.ndjson": trace}, Config: traceCfg()}, false)
	fails := map[int]map[string]int{}
	if !res.OK {
		c.Broken(fmt.Sprintf("Trace_FontEmbed stopped after %d of %d events (its actions never block: machinery error): %s\n%s", res.Depth-1, nEvents, res.ErrText, lastLines(res.Tail, 12)))
		return fails, false
	}
	for _, p := range res.Lines {
		var v verdictLine
		if err := json.Unmarshal(p, &v); err != nil {
			c.Broken("bad verdict line: " + err.Error())
			continue
		}
		if fails[v.ID] == nil {
			fails[v.ID] = map[string]int{}
		}
		for _, s := range v.Fails {
			if _, have := fails[v.ID][s]; !have {
				fails[v.ID][s] = v.K
			}
		}
	}
	return fails, true
}

func lastLines(s string, n int) string {
	l := strings.Split(s, "\n")
	if len(l) > n {
		l = l[len(l)-n:]
	}
	return strings.Join(l, "\n")
}

func describe(s *Scenario) string {
	d := s.Doc
	var parts []string
	for i, t := range d.Texts {
		parts = append(parts, fmt.Sprintf("%s:%q", t.Mode, cpString(s.Cps[i])))
	}
	return fmt.Sprintf("font=%s subset=%v compress=%v reusedFontObject=%d texts=[%s]", map[int]string{1: "DejaVuSerif.ttf", 2: "EBGaramond12-Regular.otf", 3: "Dynalight-Regular.otf"}[d.Font]+[]string{"", " subscript", " superscript"}[d.Variant]+[]string{"", " faux-italic"}[d.Style]+[]string{"", " features=-kern", " features=-liga"}[d.Feat], d.Subset, d.Compress, d.Reuse, strings.Join(parts, " "))
}

func toMismatches(s *Scenario, fails map[string]int, trace []byte) []core.Mismatch {
	sigs := make([]string, 0, len(fails))
	for sig := range fails {
		sigs = append(sigs, sig)
	}
	sort.Strings(sigs)
	var ms []core.Mismatch
	for _, sig := range sigs {
		det := fmt.Sprintf("%s; %s", sig, describe(s))
		if strings.HasPrefix(sig, "pdf-span-origin") || strings.HasPrefix(sig, "pdf-text-matrix") {
			var first struct {
				D struct {
					Spans []spanRec `json:"spans"`
				} `json:"d"`
			}
			if doc := bytes.SplitN(trace, []byte("\n"), 2); len(doc) > 0 && json.Unmarshal(doc[0], &first) == nil {
				for i, sp := range first.D.Spans {
					if sp.Chk {
						det += fmt.Sprintf("; span %d: PDF text matrix %v, path rendering matrix %v (a b c d in 1/10000, e f in um), shear %d, face offset (%d,%d) um", i+1, sp.Tm, sp.Pm, sp.Sh, sp.Fox, sp.Foy)
					}
				}
			}
		}
		if strings.HasPrefix(sig, "embedded-") || sig == "font-unreadable" {
			var first struct {
				D struct {
					Why string `json:"why"`
				} `json:"d"`
			}
			if doc := bytes.SplitN(trace, []byte("\n"), 2); len(doc) > 0 && json.Unmarshal(doc[0], &first) == nil {
				det += "; the trusted parser says: " + first.D.Why
			}
		}
		if k := fails[sig]; k > 0 {
			// the k-th GET event of this document
			n := 0
			for _, line := range bytes.Split(trace, []byte("\n")) {
				if bytes.HasPrefix(line, []byte(`{"op":"GET"`)) {
					n++
					if n == k {
						det += "; shown glyph #" + fmt.Sprint(k) + ": " + string(line)
						break
					}
				}
			}
			if doc := bytes.SplitN(trace, []byte("\n"), 2); len(doc) > 0 && len(doc[0]) < 3000 {
				det += "; fonts: " + string(doc[0])
			}
		}
		ms = append(ms, core.Mismatch{Signature: sig, Detail: det})
	}
	return ms
}

// ---- subsetter replay (spec -> code) ------------------------------------------------------------------------------------

func replaySubsetter(s *Scenario) (ms []core.Mismatch) {
	defer func() {
		if r := recover(); r != nil {
			ms = append(ms, core.Mismatch{Signature: panicSig(r), Detail: fmt.Sprint(r)})
		}
	}()
	sub := canvas.NewFontSubsetter()
	for i, h := range s.Hist {
		got := sub.Get(uint16(h.G))
		if int(got) != h.Code {
			ms = append(ms, core.Mismatch{Signature: "subsetter-get-code", Detail: fmt.Sprintf("call %d: Get(%d) = %d, the model returns %d (history %v)", i+1, h.G, got, h.Code, s.Hist)})
			return
		}
	}
	lst := sub.List()
	ok := len(lst) == len(s.List)
	for i := 0; ok && i < len(lst); i++ {
		ok = int(lst[i]) == s.List[i]
	}
	if !ok {
		ms = append(ms, core.Mismatch{Signature: "subsetter-list", Detail: fmt.Sprintf("List() = %v, the model has %v (history %v)", lst, s.List, s.Hist)})
	}
	return
}

// ---- Replay / Run ----------------------------------------------------------------------------------------------------------

func renderGuarded(s *Scenario) (*rendered, []core.Mismatch) {
	type out struct {
		r  *rendered
		ms []core.Mismatch
	}
	ch := make(chan out, 1)
	go func() {
		r, ms := render(s)
		ch <- out{r, ms}
	}()
	select {
	case o := <-ch:
		return o.r, o.ms
	case <-time.After(60 * time.Second):
		return nil, []core.Mismatch{{Signature: "timeout-document", Detail: "layout/rendering did not finish within 60 s"}}
	}
}

func judge(c *core.Ctx, s *Scenario) []core.Mismatch {
	if s.Doc == nil {
		return replaySubsetter(s)
	}
	r, ms := renderGuarded(s)
	if len(ms) > 0 || r == nil {
		return ms
	}
	tr, n, ms := decode(0, s, r)
	if len(ms) > 0 {
		return ms
	}
	fails, ok := validate(c, tr, n)
	if !ok {
		return []core.Mismatch{{Signature: "machinery", Detail: "trace validation did not run"}}
	}
	return toMismatches(s, fails[0], tr)
}

func (Driver) Replay(c *core.Ctx, raw json.RawMessage) []core.Mismatch {
	var s Scenario
	if err := json.Unmarshal(raw, &s); err != nil {
		return []core.Mismatch{{Signature: "machinery", Detail: err.Error()}}
	}
	return judge(c, &s)
}

func genCfg(gen string, emitAt, nrand, strlen int, mc bool) string {
	return genCfgClasses(gen, emitAt, nrand, strlen, mc, noClasses)
}

func genCfgClasses(gen string, emitAt, nrand, strlen int, mc bool, classes string) string {
	s := fmt.Sprintf("SPECIFICATION Spec\nCONSTANTS Gen = \"%s\"\n EmitAt = %d\n NRand = %d\n StrLen = %d\n%sCHECK_DEADLOCK FALSE\n", gen, emitAt, nrand, strlen, classes)
	if mc {
		s += "INVARIANTS NotdefAtZero Injective Dense Functional CodesPointBack\nPROPERTIES Stable\n"
	} else {
		s += "INVARIANTS EmitInv\n"
	}
	return s
}

func filterStdout(c *core.Ctx) (restore func()) {
	orig := os.Stdout
	r, w, err := os.Pipe()
	if err != nil {
		return func() {}
	}
	os.Stdout = w
	done := make(chan struct{})
	go func() {
		defer close(done)
		rd := bufio.NewReaderSize(r, 1<<16)
		var n int64
		for {
			line, err := rd.ReadString('\n')
			if strings.HasPrefix(line, "WARNING: font subsetting failed") {
				n++
			} else if line != "" {
				io.WriteString(orig, line)
			}
			if err != nil {
				break
			}
		}
		c.SetExtra("library_warnings_font_subsetting_failed", n)
	}()
	return func() {
		os.Stdout = orig
		w.Close()
		<-done
		r.Close()
	}
}

type job struct {
	id int
	s  *Scenario
}
type done struct {
	id     int
	s      *Scenario
	trace  []byte
	events int
}

func nontrivialDoc(s *Scenario) bool {
	// at least two different characters in one text (so that the subsetter hands out more than one code)
	for _, cps := range s.Cps {
		seen := map[int]bool{}
		for _, c := range cps {
			seen[c] = true
		}
		if len(seen) >= 2 {
			return true
		}
	}
	return false
}

func (d Driver) Run(c *core.Ctx) error {
	c.Rule = "scenarios from spec/FontEmbed.tla: (a) every Get history of the subsetter of length 6 (quick) / 7 (thorough) over 4 glyph ids with the model's codes, replayed on canvas.FontSubsetter; (b) text documents = 1-2 texts over an 18-character alphabet (kerning pair AV, ligature/alternates fi, repeated glyphs, six equal digit widths, composite glyph, U+00FF/U+0100 neighbours, one non-BMP character of the font) x {DejaVuSerif.ttf, EBGaramond12-Regular.otf, Dynalight-Regular.otf} x subset on/off x writing mode {horizontal, vertical upright, vertical rotated} x {fresh font object, font object already used by an earlier subsetting document} x face variant {normal, subscript, superscript} x style {regular, faux italic} with one- and two-line texts (span placement: PDF text matrix = path-rendering matrix x face offset x shear); strings with combining marks attached by GPOS (glyph offsets) in the middle of a word; plus the W-array family: per font the driver measures a class of equal-advance characters and the characters with the .notdef (= DW) advance, the spec builds runs of 4..7 equal-advance characters before/after/between DW-advance characters (and runs of DW-advance characters); each document is laid out, rendered by the real pdf writer, decoded by the independent reader and validated glyph by glyph by Trace_FontEmbed.tla (incl. PDF pen advance x Tf size = span width), together with FontFace.ToPath/TextWidth observations measured in the face's scale Size/unitsPerEm; non-trivial document = some text has at least two different characters; non-trivial history = at least one repeated and one new glyph id; distinct by scenario"
	c.Assumptions = []string{
		"github.com/tdewolff/font (a dependency of the code under test) is trusted for decoding font programs: glyph outlines and advances of the source font and of the embedded program are compared through it",
		"the reference for 'laid out' is what Text.WalkSpans reports (glyph ids, advances, clusters); shaping itself is C16's subject",
		"pen advance tolerance: 2/1000 em per glyph (W and the TJ number are each rounded to an integer by the writer)",
		"glyph selection follows ISO 32000-1 9.7.4.2: CIDToGIDMap applies to Type 2 CIDFonts only; a Type 0 CIDFont with a name-keyed CFF program uses the CID as glyph index",
		"positions of vertical glyphs (origin vectors) are not checked, only Identity-V and the pen advance",
	}
	restore := filterStdout(c)
	defer restore()

	// 1. model level
	c.TLC(tlc.Opts{Module: "FontEmbed", Config: genCfg("mc", c.Pick(5, 6), 0, 0, true), Coverage: c.Thorough()}, true)

	// 2. subsetter histories, replayed
	var nHist, nHistNontrivial int64
	{
		ch := make(chan []byte, 4096)
		fin := make(chan struct{})
		go func() {
			core.Parallel(8, ch, func(p []byte) {
				var s Scenario
				if err := json.Unmarshal(p, &s); err != nil {
					c.Broken("bad history line: " + err.Error())
					return
				}
				n := atomic.AddInt64(&nHist, 1)
				if n%3000 == 1 {
					c.Sample(json.RawMessage(p))
				}
				rep, fresh := false, 0
				seen := map[int]bool{0: true}
				for _, h := range s.Hist {
					if seen[h.G] {
						rep = true
					} else {
						fresh++
					}
					seen[h.G] = true
				}
				if rep && fresh > 0 {
					atomic.AddInt64(&nHistNontrivial, 1)
				}
				c.Report(json.RawMessage(p), replaySubsetter(&s))
			})
			close(fin)
		}()
		k := c.Pick(6, 7)
		c.TLC(tlc.Opts{Module: "FontEmbed", Config: genCfg("subsetter", k, 0, 0, false), OnLine: func(p []byte) { ch <- append([]byte(nil), p...) }}, true)
		close(ch)
		<-fin
	}

	// 3. text documents
	var nDocs, nNontrivial, nValidated, nEvents int64
	seen := sync.Map{}
	sem := make(chan struct{}, 4) // concurrent Trace_FontEmbed processes
	run := func(o tlc.Opts) {
		jobs := make(chan job, 1024)
		outs := make(chan done, 1024)
		var id int64
		o.OnLine = func(p []byte) {
			var s Scenario
			if err := json.Unmarshal(p, &s); err != nil || s.Doc == nil {
				c.Broken("bad scenario line: " + string(p[:min(len(p), 200)]))
				return
			}
			jobs <- job{int(atomic.AddInt64(&id, 1)), &s}
		}
		var wgExec sync.WaitGroup
		for w := 0; w < 6; w++ {
			wgExec.Add(1)
			go func() {
				defer wgExec.Done()
				for j := range jobs {
					n := atomic.AddInt64(&nDocs, 1)
					if n%1500 == 1 {
						c.Sample(j.s)
					}
					key, _ := json.Marshal(j.s.Doc)
					if _, dup := seen.LoadOrStore(string(key), true); !dup && nontrivialDoc(j.s) {
						atomic.AddInt64(&nNontrivial, 1)
					}
					r, ms := renderGuarded(j.s)
					if len(ms) > 0 || r == nil {
						c.Report(j.s, ms)
						continue
					}
					tr, ne, ms := decode(j.id, j.s, r)
					if len(ms) > 0 {
						c.Report(j.s, ms)
						continue
					}
					outs <- done{j.id, j.s, tr, ne}
				}
			}()
		}
		var wgVal sync.WaitGroup
		flush := func(chunk []done) {
			if len(chunk) == 0 {
				return
			}
			wgVal.Add(1)
			sem <- struct{}{}
			go func() {
				defer wgVal.Done()
				defer func() { <-sem }()
				var buf bytes.Buffer
				events := 0
				byID := map[int]done{}
				for _, dn := range chunk {
					buf.Write(dn.trace)
					events += dn.events
					byID[dn.id] = dn
				}
				fails, ok := validate(c, buf.Bytes(), events)
				if !ok {
					return
				}
				atomic.AddInt64(&nValidated, int64(len(chunk)))
				atomic.AddInt64(&nEvents, int64(events))
				for id, fs := range fails {
					dn := byID[id]
					c.Report(dn.s, toMismatches(dn.s, fs, dn.trace))
				}
			}()
		}
		collected := make(chan struct{})
		go func() {
			var chunk []done
			for dn := range outs {
				chunk = append(chunk, dn)
				if len(chunk) >= 400 {
					flush(chunk)
					chunk = nil
				}
			}
			flush(chunk)
			close(collected)
		}()
		c.TLC(o, true)
		close(jobs)
		wgExec.Wait()
		close(outs)
		<-collected
		wgVal.Wait()
	}
	var wgRuns sync.WaitGroup
	goRun := func(o tlc.Opts) {
		wgRuns.Add(1)
		go func() {
			defer wgRuns.Done()
			o.Timeout = 40 * time.Minute // the generator is throttled by the executing workers: its wall time is the pipeline's
			run(o)
		}()
	}
	goRun(tlc.Opts{Module: "FontEmbed", Workers: 4, Config: genCfg("short", 0, 0, 0, false)})
	goRun(tlc.Opts{Module: "FontEmbed", Workers: 4, Config: genCfg("modes", 0, 0, 0, false)})
	// W array runs: per font a class of equal-advance characters and the characters with the .notdef (= DW) advance
	{
		classes := ""
		measured := map[string]any{}
		for f := 1; f <= 3; f++ {
			eq, dw, err := advanceClasses(f)
			if err != nil {
				c.Broken("advance classes: " + err.Error())
			}
			classes += fmt.Sprintf(" Eq%d = %s\n Dw%d = %s\n", f, tlaSet(eq), f, tlaSet(dw))
			measured[fmt.Sprint(f)] = map[string]string{"equal_advance": cpString(eq), "notdef_advance": cpString(dw)}
		}
		c.SetExtra("advance_classes", measured)
		goRun(tlc.Opts{Module: "FontEmbed", Workers: 4, Config: genCfgClasses("wruns", 0, 0, 0, false, classes)})
	}
	goRun(tlc.Opts{Module: "FontEmbed", Workers: 4, Config: genCfg("random", 0, c.Pick(60, 1000), c.Pick(10, 12), false), Seed: c.Seed})
	if c.Thorough() {
		goRun(tlc.Opts{Module: "FontEmbed", Workers: 4, Config: genCfg("random", 0, 1000, 6, false), Seed: c.Seed + 500})
	}
	wgRuns.Wait()
	c.Count(nDocs+nHist, nNontrivial+nHistNontrivial, nValidated+nHist)
	c.SetExtra("documents", nDocs)
	c.SetExtra("subsetter_histories", nHist)
	c.SetExtra("trace_events", nEvents)
	c.SetExtra("documents_not_applicable_font_lacks_a_character", atomic.LoadInt64(&skippedDocs))
	if nDocs == 0 || nHist == 0 {
		c.Broken("no scenarios were generated")
	}
	return nil
}
