// Package c12: SVG, PDF and PostScript output encode the drawing the rasterizer renders
// (spec/GState.tla, spec/Trace_GState.tla, spec/Raster.tla).
//
// TLC generates drawing programs; the harness records each on a real canvas, renders it with the real pdf / ps /
// svg back-ends, lexes the bytes into an operator trace interleaved with Request events, and Trace_GState.tla
// (reference interpreters of the three languages) evaluates the property at every paint. The diagnostic variant
// reports all diverging programs in one pass; each class is re-validated alone with the strict variant.
// The same programs are rendered by rasterizer.Draw and compared with the painter's-order frame of spec/Raster.tla.
package c12

import (
	"bytes"
	"os"
	"encoding/json"
	"fmt"
	"sort"
	"strings"
	"sync"
	"sync/atomic"
	"time"

	"verif/harness/internal/core"
	"verif/harness/internal/tlc"
)

type Driver struct{}

func (Driver) ID() string { return "C12" }

const (
	cw = 10
	ch = 8
)

var backends = []string{"pdf", "ps", "svg"}

// genLine is what the generator prints per program.
type genLine struct {
	Prog   []Draw          `json:"prog"`
	Paints json.RawMessage `json:"paints"`
	Frame  [][]int         `json:"frame,omitempty"`
	NZ     [][]int         `json:"nz,omitempty"`
	Res    int             `json:"res,omitempty"`
	Wpx    int             `json:"wpx,omitempty"`
	Hpx    int             `json:"hpx,omitempty"`
	Feat   map[string]bool `json:"feat,omitempty"`
}

func genCfg(mode string, plen, num int, frame bool) string {
	s := fmt.Sprintf("CONSTANTS CW = %d\n CH = %d\n Mode = \"%s\"\n PLen = %d\n Num = %d\n Profile = \"c12\"\n", cw, ch, mode, plen, num)
	if frame {
		return "SPECIFICATION FSpec\n" + s + " FRes = 2\n FMode = \"prog\"\nCHECK_DEADLOCK FALSE\n"
	}
	return "SPECIFICATION GSpec\n" + s + "CHECK_DEADLOCK FALSE\n"
}

func mcCfg(mode string, num int) string {
	return fmt.Sprintf("SPECIFICATION MSpec\nCONSTANTS CW = %d\n CH = %d\n Mode = \"%s\"\n PLen = 0\n Num = %d\n Profile = \"c12\"\nINVARIANTS MConform MComplete\nCHECK_DEADLOCK FALSE\n", cw, ch, mode, num)
}

func traceCfg(strict bool) string {
	s := fmt.Sprintf("SPECIFICATION TSpec\nCONSTANTS CW = %d\n CH = %d\n Mode = \"trace\"\n PLen = 0\n Num = 0\n Profile = \"c12\"\n", cw, ch)
	if strict {
		s += " Strict = TRUE\nINVARIANTS TConform\n"
	} else {
		s += " Strict = FALSE\n"
	}
	return s + "POSTCONDITION TraceAccepted\nCHECK_DEADLOCK FALSE\n"
}

// header obtains the tables of the specification.
func header(c *core.Ctx) (*Header, error) {
	res := c.TLC(tlc.Opts{Module: "GState", Workers: 1, Config: fmt.Sprintf("SPECIFICATION GSpec\nCONSTANTS CW = %d\n CH = %d\n Mode = \"hdr\"\n PLen = 0\n Num = 0\n Profile = \"c12\"\nCHECK_DEADLOCK FALSE\n", cw, ch)}, true)
	for _, l := range res.Lines {
		var h Header
		if json.Unmarshal(l, &h) == nil && h.Hdr {
			return &h, nil
		}
	}
	return nil, fmt.Errorf("the specification did not print its tables")
}

// errRec is one error record of the diagnostic trace specification.
type errRec struct {
	Ev int    `json:"ev"`
	Op string `json:"op"`
	E  struct {
		Pid   int                        `json:"pid"`
		Be    string                     `json:"be"`
		Why   string                     `json:"why"`
		Idx   int                        `json:"idx"`
		Exp   map[string]json.RawMessage `json:"exp"`
		Got   []map[string]json.RawMessage `json:"got"`
		Feats map[string]json.RawMessage `json:"feats"`
	} `json:"e"`
}

func (r *errRec) feat(n string) bool {
	var b bool
	if v, ok := r.E.Feats[n]; ok {
		json.Unmarshal(v, &b)
	}
	return b
}

func rawEq(a, b json.RawMessage) bool { return bytes.Equal(bytes.TrimSpace(a), bytes.TrimSpace(b)) }

// gotAt returns field f of the performed paint that failed (the one compared with request idx).
func (r *errRec) gotField(f string) json.RawMessage {
	for _, g := range r.E.Got {
		if v, ok := g[f]; ok {
			// the failing paint is the first whose kind-independent comparison failed; with one paint per event this is exact,
			// for B/b (two paints) the fill is compared first
			_ = v
		}
	}
	if len(r.E.Got) == 0 {
		return nil
	}
	// index of the failing paint inside the event: idx - (k - len(got)) is not known here; use the kind of the request
	var kind string
	json.Unmarshal(r.E.Exp["kind"], &kind)
	for _, g := range r.E.Got {
		var gk string
		json.Unmarshal(g["kind"], &gk)
		if gk == kind || (kind == "stroke" && gk == "fill" && len(r.E.Got) == 1) {
			return g[f]
		}
	}
	return r.E.Got[len(r.E.Got)-1][f]
}

// signature = back-end + reason + (scenario feature evaluated by the spec, deviation pattern).
func (r *errRec) signature() string {
	be, why := r.E.Be, r.E.Why
	tag := ""
	switch {
	case strings.HasPrefix(why, "unknown-operator:"):
		if r.feat("StrokeEvenOdd") && (strings.HasSuffix(why, ":S*") || strings.HasSuffix(why, ":s*")) {
			tag = "stroke-evenodd"
		}
	case why == "alpha":
		stale := rawEq(r.gotField("a"), r.E.Feats["StaleAlpha"])
		switch {
		case stale && r.feat("SameColourDifferentAlpha"):
			tag = "stale:same-colour-different-alpha"
		case stale && r.feat("ImageBetweenDraws"):
			tag = "stale:image-between-draws"
		case stale:
			tag = "stale"
		}
	case why == "colour":
		if r.feat("PremultipliedBytesEqual") && rawEq(r.gotField("col"), r.E.Feats["PrevColour"]) {
			tag = "stale:premultiplied-bytes-equal"
		}
	case why == "knockout":
		if r.feat("FillStrokeTranslucentSameAlpha") {
			tag = "fill-stroke-translucent-same-alpha"
		}
	case why == "outline-region":
		// deviation patterns decided on the performed paint: its region equals the stroke with unscaled dashes / equals the
		// requested stroke when read with the non-zero rule
		var draw int
		json.Unmarshal(r.E.Exp["draw"], &draw)
		var ou, onz, ounz []int
		var rule int
		json.Unmarshal(r.gotField("ounz"), &ounz)
		json.Unmarshal(r.gotField("ou"), &ou)
		json.Unmarshal(r.gotField("onz"), &onz)
		json.Unmarshal(r.gotField("rule"), &rule)
		has := func(l []int) bool {
			for _, v := range l {
				if v == draw {
					return true
				}
			}
			return false
		}
		switch {
		case r.feat("DashedWidthNotOne") && has(ou):
			tag = "dash-not-scaled-by-width"
		case rule == 1 && has(onz):
			tag = "outline-filled-evenodd"
		case r.feat("DashedWidthNotOne") && rule == 1 && has(ounz):
			tag = "dash-not-scaled-by-width+outline-filled-evenodd" // both deviations at once
		}
	}
	if tag == "" {
		return be + "-" + why
	}
	return be + "-" + why + ":" + tag
}

func (r *errRec) detail(prog []Draw) string {
	exp, _ := json.Marshal(r.E.Exp)
	got, _ := json.Marshal(r.E.Got)
	pj, _ := json.Marshal(prog)
	return fmt.Sprintf("%s: event %d (%s): %s at requested paint %d; requested %s; performed %s; program %s", r.E.Be, r.Ev, r.Op, r.E.Why, r.E.Idx, trunc(string(exp), 500), trunc(string(got), 700), trunc(string(pj), 900))
}

func trunc(s string, n int) string {
	if len(s) > n {
		return s[:n] + "..."
	}
	return s
}

// traceOf renders prog with back-end be and returns its event lines.
func traceOf(h *Header, be string, id int, prog []Draw) (out []byte, nev int, err error) {
	defer func() {
		if r := recover(); r != nil {
			err = fmt.Errorf("panic: %v", r)
		}
	}()
	file, err := Render(be, BuildCanvas(h, prog))
	if err != nil {
		return nil, 0, err
	}
	return traceFromFile(h, be, id, prog, file)
}

// timeoutTag: scenario feature of a non-terminating render (a dash offset without a dash array)
func timeoutTag(prog []Draw) string {
	for _, d := range prog {
		if d.Dash == 0 && d.Off < 0 && d.Stroke != "none" {
			return ":negative-dash-offset-without-dashes"
		}
	}
	return ""
}

func traceFromFile(h *Header, be string, id int, prog []Draw, file []byte) (out []byte, nev int, err error) {
	defer func() {
		if r := recover(); r != nil {
			err = fmt.Errorf("panic: %v", r)
		}
	}()
	es, err := Events(h, be, id, prog, file)
	if err != nil {
		return nil, 0, fmt.Errorf("lexer: %v", err)
	}
	var b bytes.Buffer
	if err := writeEvents(&b, es); err != nil {
		return nil, 0, err
	}
	return b.Bytes(), len(es), nil
}

func traceOfGuarded(h *Header, be string, id int, prog []Draw) (out []byte, n int, err error) {
	done := make(chan struct{})
	go func() {
		out, n, err = traceOf(h, be, id, prog)
		close(done)
	}()
	select {
	case <-done:
		return
	case <-time.After(60 * time.Second):
		return nil, 0, errTimeout
	}
}

// validate runs the trace specification on one trace file.
func validate(c *core.Ctx, trace []byte, strict bool) (*tlc.Result, []errRec) {
	trace = append(append([]byte(nil), trace...), []byte("{\"op\":\"EOF\"}\n")...)
	res := c.TLC(tlc.Opts{Module: "Trace_GState", Workers: 1, Files: map[string][]byte{"trace_gstate.ndjson": trace}, Config: traceCfg(strict), Timeout: 20 * time.Minute}, false)
	var errs []errRec
	for _, l := range res.Lines {
		var r errRec
		if err := json.Unmarshal(l, &r); err == nil && r.E.Why != "" {
			errs = append(errs, r)
		}
	}
	return res, errs
}

// check1 validates one program on one back-end alone: diagnostic pass for the reason, strict pass for the verdict.
func check1(c *core.Ctx, h *Header, be string, prog []Draw) []core.Mismatch {
	file, err := renderChild(Scenario{Be: be, Prog: prog, Hdr: h}, 10*time.Second)
	if err == errTimeout {
		return []core.Mismatch{{Signature: be + "-timeout-render" + timeoutTag(prog), Detail: "the back-end does not return within 10 s for program " + string(mustJSON(prog))}}
	}
	var tr []byte
	if err == nil {
		tr, _, err = traceFromFile(h, be, 1, prog, file)
	}
	if err != nil {
		if strings.HasPrefix(err.Error(), "panic:") {
			return []core.Mismatch{{Signature: be + "-panic", Detail: err.Error()}}
		}
		return []core.Mismatch{{Signature: be + "-unreadable-output", Detail: err.Error()}}
	}
	dres, errs := validate(c, tr, false)
	sres, _ := validate(c, tr, true)
	if len(errs) == 0 {
		if !dres.OK || !sres.OK {
			return []core.Mismatch{{Signature: "machinery", Detail: "trace specification failed without an error record: " + trunc(dres.ErrText+sres.ErrText, 800)}}
		}
		return nil
	}
	if sres.OK || sres.Violated != "TConform" {
		return []core.Mismatch{{Signature: "machinery", Detail: fmt.Sprintf("diagnostic variant rejects (%s) but the strict variant does not (ok=%v violated=%q)", errs[0].E.Why, sres.OK, sres.Violated)}}
	}
	return []core.Mismatch{{Signature: errs[0].signature(), Detail: errs[0].detail(prog)}}
}

func (Driver) Replay(c *core.Ctx, raw json.RawMessage) []core.Mismatch {
	var s Scenario
	if err := json.Unmarshal(raw, &s); err != nil || s.Hdr == nil {
		return []core.Mismatch{{Signature: "machinery", Detail: fmt.Sprint("bad scenario: ", err)}}
	}
	if s.Be == "raster" {
		return ReplayRaster(raw, []int{0})
	}
	return check1(c, s.Hdr, s.Be, s.Prog)
}

// fields whose ordered (previous, next) value pairs are counted as coverage of the state caches
var pairFields = []string{"fill", "stroke", "width", "cap", "join", "dash", "off", "rule", "view", "img"}

func fieldVal(d Draw, f string) string {
	switch f {
	case "fill":
		return d.Fill
	case "stroke":
		return d.Stroke
	case "width":
		return fmt.Sprint(d.Width)
	case "cap":
		return fmt.Sprint(d.Cap)
	case "join":
		return fmt.Sprint(d.Join)
	case "dash":
		return fmt.Sprint(d.Dash)
	case "off":
		return fmt.Sprint(d.Off)
	case "rule":
		return fmt.Sprint(d.Rule)
	case "view":
		return fmt.Sprint(d.View)
	}
	return fmt.Sprint(d.Img)
}

func (d Driver) Run(c *core.Ctx) error {
	c.Rule = "scenario = drawing program (1-4 styled draws of lattice paths, optional image before a draw, integer view matrices) generated by TLC from spec/GState.tla: exhaustive for length <= 2 over the 88-style subset in the thorough tier (800 sampled pairs in the quick tier), RandomSubset for length 3-4 over the full style space; evaluations = (program, back-end) traces validated by Trace_GState + programs compared with the rasterizer; non-trivial = distinct programs with at least 2 draws in which two consecutive draws differ in a cached style field"
	c.Assumptions = []string{
		"PostScript has no opacity: alpha is not compared for the ps back-end (documented limitation of the back-end)",
		"canvas scales dash lengths by the stroke width in every renderer (ScaleDash in rasterizer.go): requested dash = dash * width * view scale, although Context.SetDashes documents millimetres",
		"an explicit outline (fill) is accepted for any stroke; its region is compared at sample points farther than 0.03 mm from both boundaries with the region of the library's own Dash+Stroke+Transform (the rasterizer's reading; C04/C05 check Stroke and Dash themselves)",
		"images: only the placement matrix and the alpha in force are compared, not the sample data",
		"clipping is not modelled: painting a path while a clip is in force is reported as outside the model (machinery), the clip around an image is accepted",
		"gradients and patterns are not part of the style space"}

	phase := map[string]float64{}
	t0 := time.Now()
	lap := func(name string) {
		phase[name] = time.Since(t0).Seconds()
		fmt.Fprintf(os.Stderr, "C12 phase %-10s %.1fs\n", name, phase[name])
		t0 = time.Now()
		c.SetExtra("phase_wall_s", phase)
	}
	var h *Header

	// 1. model level: the reference emitter's output conforms for every language (spec consistency), all single draws + pairs
	c.TLC(tlc.Opts{Module: "GState", Config: mcCfg(map[bool]string{false: "mcq", true: "mc"}[c.Thorough()], c.Pick(4, 12)), Seed: c.Seed, Coverage: c.Thorough()}, true)
	c.TLC(tlc.Opts{Module: "GState", Config: mcCfg("mcfull", c.Pick(120, 6000)), Seed: c.Seed}, true)

	lap("model")
	// 2. generate programs (with the painter's-order frame for the rasterizer tie-in)
	var mu sync.Mutex
	var progs []genLine
	collect := func(o tlc.Opts) {
		o.OnLine = func(p []byte) {
			var g genLine
			if err := json.Unmarshal(p, &g); err != nil || len(g.Prog) == 0 {
				var hd Header
				if json.Unmarshal(p, &hd) == nil && hd.Hdr {
					mu.Lock()
					if h == nil {
						h = &hd
					}
					mu.Unlock()
				} else {
					c.Broken("bad generator line: " + trunc(string(p), 200))
				}
				return
			}
			mu.Lock()
			progs = append(progs, g)
			mu.Unlock()
		}
		c.TLC(o, true)
	}
	gens := []tlc.Opts{
		{Module: "GState", Config: genCfg("sub2", 0, c.Pick(800, 0), false), Seed: c.Seed + 4},
		{Module: "GState", Config: genCfg("rand", 3, c.Pick(500, 20000), false), Seed: c.Seed},
		{Module: "GState", Config: genCfg("rand", 4, c.Pick(250, 12000), false), Seed: c.Seed + 1},
		// programs with the painter's-order frame (all four renderers are tied to these)
		{Module: "Raster", Config: genCfg("randf", 2, c.Pick(120, 3000), true), Seed: c.Seed + 2},
		{Module: "Raster", Config: genCfg("randf", 3, c.Pick(80, 3000), true), Seed: c.Seed + 3},
	}
	if c.Thorough() {
		gens = append(gens, tlc.Opts{Module: "GState", Config: genCfg("sub2big", 0, 0, false)})
	}
	gch := make(chan tlc.Opts, len(gens))
	for _, g := range gens {
		g.Workers = 5
		g.Timeout = 30 * time.Minute
		gch <- g
	}
	close(gch)
	core.Parallel(3, gch, collect)
	if len(progs) == 0 || h == nil {
		return fmt.Errorf("generator produced no programs")
	}
	// deterministic order
	sort.Slice(progs, func(i, j int) bool { return string(mustJSON(progs[i].Prog)) < string(mustJSON(progs[j].Prog)) })

	// coverage accounting
	seen := map[string]bool{}
	pairs := map[string]bool{}
	var nontrivial int64
	for _, g := range progs {
		k := string(mustJSON(g.Prog))
		if seen[k] {
			continue
		}
		seen[k] = true
		diff := false
		for i := 1; i < len(g.Prog); i++ {
			for _, f := range pairFields {
				a, b := fieldVal(g.Prog[i-1], f), fieldVal(g.Prog[i], f)
				pairs[f+":"+a+">"+b] = true
				if a != b {
					diff = true
				}
			}
		}
		if diff {
			nontrivial++
		}
	}
	c.Count(0, nontrivial, 0)
	c.SetExtra("programs", len(progs))
	c.SetExtra("field_value_pairs_covered", len(pairs))
	c.SetExtra("field_value_pairs_possible", 5*5+4*4+2*2+3*3+6*6+3*3+3*3+2*2+8*8+2*2)
	for i := 0; i < len(progs) && i < 3; i++ {
		c.Sample(map[string]any{"program": progs[i*len(progs)/3].Prog, "requested_paints": progs[i*len(progs)/3].Paints})
	}

	lap("generate")
	// 3. render + lex (parallel), chunked traces
	nChunks := c.Pick(5, 10)
	if n := len(progs) / 2500; n > nChunks {
		nChunks = n
	}
	chunks := make([]bytes.Buffer, nChunks+1)
	chunkMu := make([]sync.Mutex, nChunks)
	var nEvents, nTraces int64
	opHist := sync.Map{}
	idx := make(chan int, 1024)
	go func() {
		for i := range progs {
			idx <- i
		}
		close(idx)
	}()
	core.Parallel(14, idx, func(i int) {
		var b bytes.Buffer
		for bi, be := range backends {
			tr, n, err := traceOfGuarded(h, be, i*3+bi, progs[i].Prog)
			if err == errTimeout {
				c.Report(Scenario{Be: be, Prog: progs[i].Prog, Hdr: h}, []core.Mismatch{{Signature: be + "-timeout-render" + timeoutTag(progs[i].Prog), Detail: "no result after 60 s; program " + string(mustJSON(progs[i].Prog))}})
				continue
			}
			if err != nil {
				sig := be + "-unreadable-output"
				if strings.HasPrefix(err.Error(), "panic:") {
					sig = be + "-panic"
				}
				c.Report(Scenario{Be: be, Prog: progs[i].Prog, Hdr: h}, []core.Mismatch{{Signature: sig, Detail: err.Error() + " program " + string(mustJSON(progs[i].Prog))}})
				continue
			}
			b.Write(tr)
			atomic.AddInt64(&nEvents, int64(n))
			atomic.AddInt64(&nTraces, 1)
			for _, line := range bytes.Split(tr, []byte("\n")) {
				if j := bytes.Index(line, []byte(`"op":"`)); j >= 0 {
					rest := line[j+6:]
					if e := bytes.IndexByte(rest, '"'); e > 0 {
						k := be + ":" + string(rest[:e])
						v, _ := opHist.LoadOrStore(k, new(int64))
						atomic.AddInt64(v.(*int64), 1)
					}
				}
			}
		}
		ci := i % nChunks
		chunkMu[ci].Lock()
		chunks[ci].Write(b.Bytes())
		chunkMu[ci].Unlock()
	})
	c.SetExtra("trace_events", nEvents)
	hist := map[string]int64{}
	opHist.Range(func(k, v any) bool { hist[k.(string)] = *v.(*int64); return true })
	c.SetExtra("operator_histogram", hist)

	// 3b. dash offset without a dash array: rendered in a child process (the pdf back-end may not return)
	nBulk := len(progs)
	collect(tlc.Opts{Module: "GState", Config: genCfg("solidoff", 0, 0, false)})
	type job struct{ i, bi int }
	jobs := make(chan job, 256)
	go func() {
		for i := nBulk; i < len(progs); i++ {
			for bi := range backends {
				jobs <- job{i, bi}
			}
		}
		close(jobs)
	}()
	var cmu sync.Mutex
	core.Parallel(12, jobs, func(j job) {
		i, bi, be := j.i, j.bi, backends[j.bi]
		sc := Scenario{Be: be, Prog: progs[i].Prog, Hdr: h}
		file, err := renderChild(sc, 10*time.Second)
		if err == errTimeout {
			c.Count(1, 0, 0)
			c.Report(sc, []core.Mismatch{{Signature: be + "-timeout-render" + timeoutTag(progs[i].Prog), Detail: "the back-end does not return within 10 s for program " + string(mustJSON(progs[i].Prog))}})
			return
		}
		if err != nil {
			c.Broken("child render: " + err.Error())
			return
		}
		tr, n, err := traceFromFile(h, be, i*3+bi, progs[i].Prog, file)
		if err != nil {
			c.Report(sc, []core.Mismatch{{Signature: be + "-unreadable-output", Detail: err.Error()}})
			return
		}
		cmu.Lock()
		chunks[nChunks].Write(tr)
		cmu.Unlock()
		atomic.AddInt64(&nEvents, int64(n))
		atomic.AddInt64(&nTraces, 1)
	})
	nChunks++

	lap("render+lex")
	// 4. validate (diagnostic variant, several TLC processes in parallel)
	var allErrs []errRec
	var emu sync.Mutex
	cidx := make(chan int, nChunks)
	for i := 0; i < nChunks; i++ {
		cidx <- i
	}
	close(cidx)
	core.Parallel(10, cidx, func(ci int) {
		if chunks[ci].Len() == 0 {
			return
		}
		res, errs := validate(c, chunks[ci].Bytes(), false)
		if !res.OK {
			c.Broken(fmt.Sprintf("Trace_GState (diagnostic) did not consume chunk %d: violated=%q %s", ci, res.Violated, trunc(res.ErrText, 1500)))
		}
		emu.Lock()
		allErrs = append(allErrs, errs...)
		emu.Unlock()
	})
	c.Count(nTraces, 0, nTraces-int64(len(allErrs)))

	lap("validate")
	// 5. verdicts: every class of divergence is first re-validated alone with the strict variant
	sort.Slice(allErrs, func(i, j int) bool { return allErrs[i].E.Pid < allErrs[j].E.Pid })
	bySig := map[string]int64{}
	first := map[string]*errRec{}
	var sigs []string
	for i := range allErrs {
		sig := allErrs[i].signature()
		bySig[sig]++
		if first[sig] == nil {
			first[sig] = &allErrs[i]
			sigs = append(sigs, sig)
		}
	}
	confirmed := sync.Map{}
	sch := make(chan string, len(sigs)+1)
	for _, sg := range sigs {
		sch <- sg
	}
	close(sch)
	core.Parallel(12, sch, func(sig string) {
		r := first[sig]
		ms := check1(c, h, r.E.Be, progs[r.E.Pid/3].Prog)
		for _, m := range ms {
			if m.Signature == sig {
				confirmed.Store(sig, true)
				return
			}
		}
		c.Broken(fmt.Sprintf("divergence %s of program %d is not confirmed when validated alone: %v", sig, r.E.Pid, ms))
	})
	for i := range allErrs {
		r := &allErrs[i]
		sig := r.signature()
		if _, ok := confirmed.Load(sig); !ok {
			continue
		}
		prog := progs[r.E.Pid/3].Prog
		c.Report(Scenario{Be: r.E.Be, Prog: prog, Hdr: h}, []core.Mismatch{{Signature: sig, Detail: r.detail(prog)}})
	}
	c.SetExtra("divergences_by_signature", bySig)

	lap("verdicts")
	// 6. the same programs through the rasterizer, against the frame of spec/Raster.tla
	rasterTieIn(c, h, progs[:nBulk])
	lap("raster")
	return nil
}

func mustJSON(v any) []byte { b, _ := json.Marshal(v); return b }
