package c12

import (
	"encoding/json"
	"os"
	"testing"
	"time"
	"bytes"
)

// go test -run TestDump: renders the programs of /tmp/c12dbg/progs.ndjson and writes /tmp/c12dbg/trace.ndjson (timing per back-end)
func TestDump(t *testing.T) {
	hb, err := os.ReadFile("/tmp/c12dbg/hdr.json")
	if err != nil {
		t.Skip("no debug input")
	}
	var h Header
	json.Unmarshal(hb, &h)
	pb, _ := os.ReadFile("/tmp/c12dbg/progs.ndjson")
	var out bytes.Buffer
	tot := map[string]time.Duration{}
	n := 0
	for i, l := range bytes.Split(pb, []byte("\n")) {
		var g genLine
		if json.Unmarshal(l, &g) != nil || len(g.Prog) == 0 {
			continue
		}
		n++
		for bi, be := range backends {
			t0 := time.Now()
			tr, _, err := traceOf(&h, be, i*3+bi, g.Prog)
			tot[be] += time.Since(t0)
			if err != nil {
				t.Log(err)
				continue
			}
			out.Write(tr)
		}
	}
	t.Log(n, "programs", tot)
	os.WriteFile("/tmp/c12dbg/trace.ndjson", out.Bytes(), 0o644)
}

func TestPar(t *testing.T) {
	hb, err := os.ReadFile("/tmp/c12dbg/hdr.json")
	if err != nil {
		t.Skip("no debug input")
	}
	var h Header
	json.Unmarshal(hb, &h)
	pb, _ := os.ReadFile("/tmp/c12dbg/progs.ndjson")
	var progs []genLine
	for _, l := range bytes.Split(pb, []byte("\n")) {
		var g genLine
		if json.Unmarshal(l, &g) == nil && len(g.Prog) > 0 {
			progs = append(progs, g)
		}
	}
	t0 := time.Now()
	idx := make(chan int, 1024)
	go func() {
		for r := 0; r < 4; r++ {
			for i := range progs {
				idx <- i
			}
		}
		close(idx)
	}()
	parallel(14, idx, func(i int) {
		for bi, be := range backends {
			traceOfGuarded(&h, be, i*3+bi, progs[i].Prog)
		}
	})
	t.Log(4*len(progs), "programs in", time.Since(t0))
}

func parallel(n int, ch <-chan int, f func(int)) {
	done := make(chan bool)
	for w := 0; w < n; w++ {
		go func() {
			for i := range ch {
				f(i)
			}
			done <- true
		}()
	}
	for w := 0; w < n; w++ {
		<-done
	}
}
