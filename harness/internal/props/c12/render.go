package c12

import (
	"bytes"
	"encoding/json"
	"fmt"
	"image"
	"image/color"
	"math"
	"sync"

	"github.com/tdewolff/canvas"
	"github.com/tdewolff/canvas/renderers/pdf"
	"github.com/tdewolff/canvas/renderers/ps"
	"github.com/tdewolff/canvas/renderers/svg"

	"verif/harness/internal/oracle"
)

// Draw is one styled draw of a drawing program, exactly as spec/GState.tla prints it.
type Draw struct {
	Shape  int    `json:"shape"`
	View   int    `json:"view"`
	Cs     int    `json:"cs"`
	Fill   string `json:"fill"`
	Stroke string `json:"stroke"`
	Width  int    `json:"width"`
	Cap    int    `json:"cap"`
	Join   int    `json:"join"`
	Dash   int    `json:"dash"`
	Off    int    `json:"off"`
	Rule   int    `json:"rule"`
	Img    int    `json:"img"`
	Z      int    `json:"z"` // canvas z-index set before the draw (0 in the C12 programs)
}

type SubJ struct {
	P   [][2]int `json:"p"`
	C   bool     `json:"c"`
	Arc [][3]int `json:"arc"` // per point: r, large, sweep (r = 0: line)
}

// EllJ is a rotated ellipse of the raster scenes (draw.shape = 20 + index): centre, radii, rotation (cr, sr) / den.
type EllJ struct {
	C   [2]int `json:"c"`
	A   int    `json:"a"`
	B   int    `json:"b"`
	Cr  int    `json:"cr"`
	Sr  int    `json:"sr"`
	Den int    `json:"den"`
}

func (s SubJ) arcAt(i int) (r int, large, sweep bool) {
	if i < len(s.Arc) {
		return s.Arc[i][0], s.Arc[i][1] != 0, s.Arc[i][2] != 0
	}
	return 0, false, false
}

func hasArc(h *Header, shape int) bool {
	if shape > 20 {
		return true
	}
	for _, sub := range h.Shapes[shape-1] {
		for i := range sub.P {
			if r, _, _ := sub.arcAt(i); r > 0 {
				return true
			}
		}
	}
	return false
}

type PaintJ struct {
	Rgb [3]int `json:"rgb"`
	A   int    `json:"a"`
	Pm  [4]int `json:"pm"`
}

// Header carries the tables of the specification (single source of truth for shapes, views, paints ...).
type Header struct {
	Hdr       bool              `json:"hdr"`
	W         int               `json:"W"`
	H         int               `json:"H"`
	Shapes    [][]SubJ          `json:"shapes"`
	Views     [][6]int          `json:"views"`
	Paints    map[string]PaintJ `json:"paints"`
	Grads     []string          `json:"grads"`
	RGrads    []string          `json:"rgrads"`
	Ells      []EllJ            `json:"ells"`
	Dashes    [][]float64       `json:"dashes"`
	JoinLimit []int             `json:"joinlimit"`
	ImgW      int               `json:"imgw"`
	ImgH      int               `json:"imgh"`
}

// Scenario is the replay unit: one drawing program rendered by one back-end (or "raster").
type Scenario struct {
	Be   string  `json:"be"`
	Prog []Draw  `json:"prog"`
	Hdr  *Header `json:"hdr"`
	Res  int     `json:"res,omitempty"`
}

var cappers = []canvas.Capper{canvas.ButtCap, canvas.RoundCap, canvas.SquareCap}

func joiner(h *Header, j int) canvas.Joiner {
	switch j {
	case 0, 1:
		return canvas.MiterJoiner{GapJoiner: canvas.BevelJoin, Limit: float64(h.JoinLimit[j])}
	case 2:
		return canvas.BevelJoin
	case 3:
		return canvas.RoundJoin
	case 4:
		return canvas.MiterClipJoin
	default:
		return canvas.ArcsJoin
	}
}

func mat6(a [6]int) canvas.Matrix {
	return canvas.Matrix{{float64(a[0]), float64(a[1]), float64(a[2])}, {float64(a[3]), float64(a[4]), float64(a[5])}}
}

func shapePath(h *Header, s int) *canvas.Path {
	p := &canvas.Path{}
	if s > 20 { // rotated ellipse: two half-ellipse arcs with the x-axis rotation of the table, counter-clockwise
		e := h.Ells[s-21]
		cos, sin := float64(e.Cr)/float64(e.Den), float64(e.Sr)/float64(e.Den)
		rot := math.Atan2(sin, cos) * 180 / math.Pi
		x0, y0 := float64(e.C[0])+float64(e.A)*cos, float64(e.C[1])+float64(e.A)*sin
		x1, y1 := float64(e.C[0])-float64(e.A)*cos, float64(e.C[1])-float64(e.A)*sin
		p.MoveTo(x0, y0)
		p.ArcTo(float64(e.A), float64(e.B), rot, false, true, x1, y1)
		p.ArcTo(float64(e.A), float64(e.B), rot, false, true, x0, y0)
		p.Close()
		return p
	}
	for _, sub := range h.Shapes[s-1] {
		for i, v := range sub.P {
			if i == 0 {
				p.MoveTo(float64(v[0]), float64(v[1]))
			} else if r, large, sweep := sub.arcAt(i); r > 0 {
				p.ArcTo(float64(r), float64(r), 0, large, sweep, float64(v[0]), float64(v[1]))
			} else {
				p.LineTo(float64(v[0]), float64(v[1]))
			}
		}
		if sub.C {
			p.Close()
		}
	}
	return p
}

// refShape: the requested geometry of draw d as fine polylines in canvas space, evaluated by the independent oracle from the
// tables of the specification (lines and circular arcs), not by canvas.
func refShape(h *Header, d Draw) []oracle.Contour {
	key := fmt.Sprintf("shape/%d/%d/%d", d.Shape, d.View, d.Cs)
	if v, ok := outlineCache.Load(key); ok {
		return v.([]oracle.Contour)
	}
	m := csv(h, d.Cs).Mul(mat6(h.Views[d.View-1]))
	var out []oracle.Contour
	for _, sub := range h.Shapes[d.Shape-1] {
		var segs []oracle.Seg
		var cur oracle.Pt
		for i, v := range sub.P {
			pt := oracle.Pt{X: float64(v[0]), Y: float64(v[1])}
			switch r, large, sweep := sub.arcAt(i); {
			case i == 0:
				segs = append(segs, oracle.Seg{Cmd: oracle.CmdMove, End: pt})
			case r > 0:
				segs = append(segs, oracle.Seg{Cmd: oracle.CmdArc, Start: cur, End: pt, Rx: float64(r), Ry: float64(r), Large: large, Sweep: sweep})
			default:
				segs = append(segs, oracle.Seg{Cmd: oracle.CmdLine, Start: cur, End: pt})
			}
			cur = pt
		}
		if sub.C {
			segs = append(segs, oracle.Seg{Cmd: oracle.CmdClose, Start: cur, End: oracle.Pt{X: float64(sub.P[0][0]), Y: float64(sub.P[0][1])}})
		}
		for _, c := range oracle.Flatten(segs, 64) {
			for k, q := range c.Pts {
				t := m.Dot(canvas.Point{X: q.X, Y: q.Y})
				c.Pts[k] = oracle.Pt{X: t.X, Y: t.Y}
			}
			out = append(out, c)
		}
	}
	outlineCache.Store(key, out)
	return out
}

func fills(rule, w int) bool {
	switch rule {
	case 1:
		return w%2 != 0
	case 2:
		return w > 0
	case 3:
		return w < 0
	}
	return w != 0
}

// fillMatches: draws with a curved shape whose requested fill region (shape under the draw matrix, requested rule) equals the
// region obs fills when read with the non-zero rule (fo) / the even-odd rule (foe).
func fillMatches(h *Header, prog []Draw, obs []oracle.Contour) (fo, foe []int) {
	fo, foe = []int{}, []int{}
	if len(obs) == 0 {
		return
	}
	for j, d := range prog {
		if d.Fill == "none" || !hasArc(h, d.Shape) {
			continue
		}
		ref := refShape(h, d)
		x0, y0, x1, y1 := bbox(ref)
		const n = 30
		okNZ, okEO, used := true, true, 0
		for iy := 0; iy < n && (okNZ || okEO); iy++ {
			for ix := 0; ix < n; ix++ {
				p := oracle.Pt{X: x0 - 0.3 + (x1-x0+0.6)*(float64(ix)+0.37)/n, Y: y0 - 0.3 + (y1-y0+0.6)*(float64(iy)+0.61)/n}
				if oracle.Dist(obs, p, true) < 0.03 || oracle.Dist(ref, p, true) < 0.03 {
					continue
				}
				used++
				want := fills(d.Rule, oracle.Winding(ref, p))
				w := oracle.Winding(obs, p)
				if (w != 0) != want {
					okNZ = false
				}
				if (w%2 != 0) != want {
					okEO = false
				}
			}
		}
		if used < 60 {
			continue
		}
		if okNZ {
			fo = append(fo, j+1)
		}
		if okEO {
			foe = append(foe, j+1)
		}
	}
	return
}

// curveMatches: draws with a curved shape whose requested path (as a curve, with the same closedness per sub-path) coincides
// with the path obs within 0.02 mm.
func curveMatches(h *Header, prog []Draw, obs []oracle.Contour) []int {
	so := []int{}
	for j, d := range prog {
		if d.Stroke == "none" || !hasArc(h, d.Shape) {
			continue
		}
		ref := refShape(h, d)
		if len(ref) != len(obs) {
			continue
		}
		ok := true
		for k := range ref {
			a, b := []oracle.Contour{ref[k]}, []oracle.Contour{obs[k]}
			if ref[k].Closed != obs[k].Closed {
				ok = false
				break
			}
			for _, q := range ref[k].Pts {
				if oracle.Dist(b, q, false) > 0.02 {
					ok = false
				}
			}
			for _, q := range obs[k].Pts {
				if oracle.Dist(a, q, false) > 0.02 {
					ok = false
				}
			}
		}
		if ok {
			so = append(so, j+1)
		}
	}
	return so
}

func paint(h *Header, name string) canvas.Paint {
	if name == "none" {
		return canvas.Paint{}
	}
	pm := h.Paints[name].Pm
	col := color.RGBA{uint8(pm[0]), uint8(pm[1]), uint8(pm[2]), uint8(pm[3])}
	for _, g := range h.RGrads {
		if g == name { // a radial gradient (concentric circles around the page centre) whose stops all have the colour
			ctr := canvas.Point{X: float64(h.W) / 2, Y: float64(h.H) / 2}
			rg := canvas.NewRadialGradient(ctr, 0, ctr, float64(h.H)/2) // t runs beyond 1 on the page; stops do not span [0,1]
			rg.Add(0.25, col)
			rg.Add(0.75, col)
			return canvas.Paint{Gradient: rg}
		}
	}
	for _, g := range h.Grads {
		if g == name { // a linear gradient across the page whose stops all have the colour
			lg := canvas.NewLinearGradient(canvas.Point{X: 0, Y: 0}, canvas.Point{X: float64(h.W), Y: 0})
			lg.Add(0.25, col) // stops do not span [0,1]: before the first and after the last stop the colour is that stop's
			lg.Add(0.75, col)
			return canvas.Paint{Gradient: lg}
		}
	}
	return canvas.Paint{Color: col}
}

var (
	imgOnce sync.Once
	theImg  *image.RGBA
)

func testImage(h *Header) image.Image {
	imgOnce.Do(func() {
		theImg = image.NewRGBA(image.Rect(0, 0, h.ImgW, h.ImgH))
		for i := range theImg.Pix {
			theImg.Pix[i] = 255
		}
		theImg.Pix[0], theImg.Pix[1] = 10, 200
	})
	return theImg
}

// applyDraw performs the Context calls of one draw.
func applyDraw(h *Header, ctx *canvas.Context, d Draw) {
	ctx.SetZIndex(d.Z)
	ctx.SetCoordSystem(canvas.CoordSystem(d.Cs))
	ctx.SetView(mat6(h.Views[d.View-1]))
	if d.Fill == "none" {
		ctx.SetFill(nil)
	} else {
		ctx.SetFill(paint(h, d.Fill))
	}
	if d.Stroke == "none" {
		ctx.SetStroke(nil)
	} else {
		ctx.SetStroke(paint(h, d.Stroke))
	}
	ctx.SetStrokeWidth(float64(d.Width))
	ctx.SetStrokeCapper(cappers[d.Cap])
	ctx.SetStrokeJoiner(joiner(h, d.Join))
	ctx.SetDashes(float64(d.Off), append([]float64(nil), h.Dashes[d.Dash]...)...)
	ctx.SetFillRule(canvas.FillRule(d.Rule))
	if d.Img == 1 {
		ctx.DrawImage(0, 0, testImage(h), canvas.DPMM(1))
	}
	ctx.DrawPath(0, 0, shapePath(h, d.Shape))
}

// BuildCanvas records the program on a fresh canvas through the public Context API.
func BuildCanvas(h *Header, prog []Draw) *canvas.Canvas {
	c := canvas.New(float64(h.W), float64(h.H))
	ctx := canvas.NewContext(c)
	for _, d := range prog {
		applyDraw(h, ctx, d)
	}
	return c
}

// Render writes the canvas with the real back-end and returns the bytes.
func Render(be string, c *canvas.Canvas) ([]byte, error) {
	var b bytes.Buffer
	switch be {
	case "pdf":
		r := pdf.New(&b, c.W, c.H, &pdf.Options{Compress: true, SubsetFonts: true, ImageEncoding: canvas.Lossless})
		c.RenderTo(r)
		if err := r.Close(); err != nil {
			return nil, err
		}
	case "ps":
		r := ps.New(&b, c.W, c.H, nil)
		c.RenderTo(r)
		if err := r.Close(); err != nil {
			return nil, err
		}
	case "svg":
		r := svg.New(&b, c.W, c.H, nil)
		c.RenderTo(r)
		if err := r.Close(); err != nil {
			return nil, err
		}
	default:
		return nil, fmt.Errorf("unknown back-end %q", be)
	}
	return b.Bytes(), nil
}

// ---------------------------------------------------------------------------------------------
// reference stroke regions (the rasterizer's reading of a stroke: Dash scaled by the width, Stroke, Transform)
// ---------------------------------------------------------------------------------------------

type outline struct {
	cs             []oracle.Contour
	x0, y0, x1, y1 float64
}

var outlineCache sync.Map

func csv(h *Header, cs int) canvas.Matrix {
	m := canvas.Identity
	switch cs {
	case 1:
		m = m.ReflectXAbout(float64(h.W) / 2)
	case 2:
		m = m.ReflectXAbout(float64(h.W) / 2).ReflectYAbout(float64(h.H) / 2)
	case 3:
		m = m.ReflectYAbout(float64(h.H) / 2)
	}
	return m
}

func bbox(cs []oracle.Contour) (x0, y0, x1, y1 float64) {
	x0, y0, x1, y1 = math.Inf(1), math.Inf(1), math.Inf(-1), math.Inf(-1)
	for _, c := range cs {
		for _, p := range c.Pts {
			x0, y0 = math.Min(x0, p.X), math.Min(y0, p.Y)
			x1, y1 = math.Max(x1, p.X), math.Max(y1, p.Y)
		}
	}
	return
}

// refOutline: the region the library's rasterizer paints for the stroke of draw d (rasterizer.go RenderPath).
// unscaled = true: the same with the dash lengths NOT multiplied by the width (the deviation pattern of the explicit-outline fallbacks).
func refOutline(h *Header, d Draw, unscaled bool) *outline {
	key := fmt.Sprintf("%d/%d/%d/%d/%d/%d/%d/%d/%v", d.Shape, d.View, d.Cs, d.Width, d.Cap, d.Join, d.Dash, d.Off, unscaled)
	if v, ok := outlineCache.Load(key); ok {
		return v.(*outline)
	}
	p := shapePath(h, d.Shape)
	w := float64(d.Width)
	if len(h.Dashes[d.Dash]) > 0 {
		off, ds := canvas.ScaleDash(w, float64(d.Off), h.Dashes[d.Dash])
		if unscaled {
			off, ds = float64(d.Off), append([]float64(nil), h.Dashes[d.Dash]...)
		}
		p = p.Dash(off, ds...)
	}
	p = p.Stroke(w, cappers[d.Cap], joiner(h, d.Join), canvas.Tolerance)
	p = p.Transform(csv(h, d.Cs).Mul(mat6(h.Views[d.View-1])))
	cs, err := oracle.FlattenData(p.Data(), 24)
	o := &outline{}
	if err == nil {
		o.cs = cs
		o.x0, o.y0, o.x1, o.y1 = bbox(cs)
	}
	outlineCache.Store(key, o)
	return o
}

// regionMatches: draws (1-based) whose reference stroke region equals the region the contours obs fill, under the
// non-zero rule (o) and under the even-odd rule (oe). Decided at sample points farther than 0.03 mm from both boundaries.
func regionMatches(h *Header, prog []Draw, obs []oracle.Contour) (o, oe, ou, oue []int) {
	o, oe, ou, oue = []int{}, []int{}, []int{}, []int{}
	if len(obs) == 0 {
		return
	}
	bx0, by0, bx1, by1 := bbox(obs)
	for j, d := range prog {
		if d.Stroke == "none" {
			continue
		}
		nz, eo := sameRegion(refOutline(h, d, false), obs, bx0, by0, bx1, by1)
		if nz {
			o = append(o, j+1)
		}
		if eo {
			oe = append(oe, j+1)
		}
		if len(h.Dashes[d.Dash]) > 0 && d.Width != 1 {
			nz2, eo2 := sameRegion(refOutline(h, d, true), obs, bx0, by0, bx1, by1)
			if nz2 {
				ou = append(ou, j+1)
			}
			if eo2 {
				oue = append(oue, j+1)
			}
		}
	}
	return
}

func sameRegion(ref *outline, obs []oracle.Contour, bx0, by0, bx1, by1 float64) (okNZ, okEO bool) {
	if len(ref.cs) == 0 {
		return false, false
	}
	if math.Abs(bx0-ref.x0) > 0.1 || math.Abs(by0-ref.y0) > 0.1 || math.Abs(bx1-ref.x1) > 0.1 || math.Abs(by1-ref.y1) > 0.1 {
		return false, false
	}
	const n = 30
	okNZ, okEO = true, true
	used := 0
	for iy := 0; iy < n && (okNZ || okEO); iy++ {
		for ix := 0; ix < n; ix++ {
			p := oracle.Pt{X: bx0 - 0.2 + (bx1-bx0+0.4)*(float64(ix)+0.37)/n, Y: by0 - 0.2 + (by1-by0+0.4)*(float64(iy)+0.61)/n}
			if oracle.Dist(obs, p, true) < 0.03 || oracle.Dist(ref.cs, p, true) < 0.03 {
				continue
			}
			used++
			want := oracle.Winding(ref.cs, p) != 0
			w := oracle.Winding(obs, p)
			if (w != 0) != want {
				okNZ = false
			}
			if (w%2 != 0) != want {
				okEO = false
			}
		}
	}
	if used < 60 {
		return false, false
	}
	return
}

// ---------------------------------------------------------------------------------------------
// bytes -> events
// ---------------------------------------------------------------------------------------------

type ev map[string]any

func ints(f []float64, tol float64) ([]int, int) {
	out := make([]int, len(f))
	g := 1
	for i, x := range f {
		v, ok := oracle.GSSnap(x, tol)
		if !ok {
			g = 0
		}
		out[i] = v
	}
	return out, g
}

func scale255(f []float64) []float64 {
	out := make([]float64, len(f))
	for i, x := range f {
		out[i] = x * 255
	}
	return out
}

func opEvent(op string, a []int, g int) ev {
	if a == nil {
		a = []int{}
	}
	return ev{"op": op, "a": a, "g": g, "s": "", "o": []int{}, "oe": []int{}, "ou": []int{}, "oue": []int{}, "fo": []int{}, "foe": []int{}, "so": []int{}, "ph": 0, "u": 0}
}

func pt(f []float64, i int) oracle.Pt { return oracle.Pt{X: f[i], Y: f[i+1]} }

const ptPerMm = 72.0 / 25.4

// EventsPDF lexes the PDF file into the event trace of one program.
func EventsPDF(h *Header, id int, prog []Draw, file []byte) ([]ev, error) {
	pg, err := oracle.GSReadPDFPage(file)
	if err != nil {
		return nil, err
	}
	ops, err := oracle.GSLexPDFContent(pg.Content)
	if err != nil {
		return nil, err
	}
	ext := []ev{}
	for n, v := range pg.ExtG {
		a, _ := ints(scale255(v[:]), 2e-3)
		ext = append(ext, ev{"n": n, "CA": a[0], "ca": a[1]})
	}
	pw, okw := oracle.GSSnap(pg.MediaBox[2]/ptPerMm, 1e-5)
	ph, okh := oracle.GSSnap(pg.MediaBox[3]/ptPerMm, 1e-5)
	if !okw || !okh || pg.MediaBox[0] != 0 || pg.MediaBox[1] != 0 {
		pw, ph = -1, -1
	}
	out := []ev{{"op": "BEGIN", "be": "pdf", "id": id, "W": pw, "H": ph, "ext": ext}}
	for _, d := range prog {
		out = append(out, ev{"op": "Request", "d": d})
	}
	geo := oracle.GSNewGeo()
	var stack [][6]float64
	for _, op := range ops {
		var e ev
		switch op.Op {
		case "rg", "RG", "g", "G":
			a, g := ints(scale255(op.Nums), 2e-3)
			e = opEvent(op.Op, a, g)
		case "gs", "Do":
			e = opEvent(op.Op, nil, 1)
			e["s"] = op.Name
		case "d":
			a, g := ints(op.Arr, 1e-6)
			e = opEvent(op.Op, a, g)
			if len(op.Nums) == 1 {
				p, ok := oracle.GSSnap(op.Nums[0], 1e-6)
				e["ph"] = p
				if !ok {
					e["g"] = 0
				}
			} else {
				e["g"] = 0
			}
		case "cm":
			n := op.Nums
			if len(n) == 6 && math.Abs(n[0]-ptPerMm) < 1e-6 && math.Abs(n[3]-ptPerMm) < 1e-6 && n[1] == 0 && n[2] == 0 && n[4] == 0 && n[5] == 0 {
				e = opEvent("cm", nil, 1)
				e["u"] = 1
			} else {
				a, g := ints(n, 1e-6)
				e = opEvent("cm", a, g)
				if len(n) == 6 {
					geo.Concat([6]float64{n[0], n[1], n[2], n[3], n[4], n[5]})
				}
			}
		default:
			a, g := ints(op.Nums, 1e-6)
			e = opEvent(op.Op, a, g)
			n := op.Nums
			switch op.Op {
			case "q":
				stack = append(stack, geo.CTM)
			case "Q":
				if len(stack) > 0 {
					geo.CTM = stack[len(stack)-1]
					stack = stack[:len(stack)-1]
				}
			case "m":
				if len(n) == 2 {
					geo.MoveTo(pt(n, 0))
				}
			case "l":
				if len(n) == 2 {
					geo.LineTo(pt(n, 0))
				}
			case "c":
				if len(n) == 6 {
					geo.CubeTo(pt(n, 0), pt(n, 2), pt(n, 4))
				}
			case "h":
				geo.Close()
			case "re":
				if len(n) == 4 {
					geo.MoveTo(pt(n, 0))
					geo.LineTo(oracle.Pt{X: n[0] + n[2], Y: n[1]})
					geo.LineTo(oracle.Pt{X: n[0] + n[2], Y: n[1] + n[3]})
					geo.LineTo(oracle.Pt{X: n[0], Y: n[1] + n[3]})
					geo.Close()
				}
			case "f", "F", "f*", "B", "B*", "b", "b*":
				if op.Op == "b" || op.Op == "b*" {
					geo.Close()
				}
				e["o"], e["oe"], e["ou"], e["oue"] = regionMatches(h, prog, geo.Subs)
				e["fo"], e["foe"] = fillMatches(h, prog, geo.Subs)
				if op.Op[0] == 'B' || op.Op[0] == 'b' {
					e["so"] = curveMatches(h, prog, geo.Subs)
				}
				geo.Reset()
			case "S", "s":
				if op.Op == "s" {
					geo.Close()
				}
				e["so"] = curveMatches(h, prog, geo.Subs)
				geo.Reset()
			case "n", "S*", "s*":
				geo.Reset()
			}
		}
		out = append(out, e)
	}
	out = append(out, ev{"op": "END"})
	return out, nil
}

// EventsPS lexes the PostScript program.
func EventsPS(h *Header, id int, prog []Draw, file []byte) ([]ev, error) {
	ops, err := oracle.GSLexPS(file)
	if err != nil {
		return nil, err
	}
	out := []ev{{"op": "BEGIN", "be": "ps", "id": id, "W": h.W, "H": h.H, "ext": []ev{}}}
	for _, d := range prog {
		out = append(out, ev{"op": "Request", "d": d})
	}
	geo := oracle.GSNewGeo()
	type saved struct {
		ctm  [6]float64
		subs []oracle.Contour
	}
	var stack []saved
	for _, op := range ops {
		var e ev
		n := op.Nums
		switch op.Op {
		case "setrgbcolor", "setgray":
			a, g := ints(scale255(n), 2e-3)
			e = opEvent(op.Op, a, g)
		case "setdash":
			a, g := ints(op.Arr, 1e-6)
			e = opEvent(op.Op, a, g)
			if len(n) == 1 && op.Has {
				p, ok := oracle.GSSnap(n[0], 1e-6)
				e["ph"] = p
				if !ok {
					e["g"] = 0
				}
			} else {
				e["g"] = 0
			}
		case "concat":
			a, g := ints(op.Arr, 1e-6)
			e = opEvent(op.Op, a, g)
			if len(op.Arr) == 6 {
				var m [6]float64
				copy(m[:], op.Arr)
				geo.Concat(m)
			}
		case "def":
			e = opEvent(op.Op, nil, 1)
			e["s"] = op.Name
		case "setcolorspace":
			e = opEvent(op.Op, nil, 1)
			e["s"] = op.Name
		case "image":
			f := append([]float64{}, op.Dict["Width"]...)
			f = append(f, op.Dict["Height"]...)
			f = append(f, op.Dict["ImageMatrix"]...)
			a, g := ints(f, 1e-6)
			e = opEvent(op.Op, a, g)
		default:
			a, g := ints(n, 1e-6)
			e = opEvent(op.Op, a, g)
			switch op.Op {
			case "gsave":
				stack = append(stack, saved{geo.CTM, append([]oracle.Contour(nil), geo.Subs...)})
			case "grestore":
				if len(stack) > 0 {
					geo.CTM, geo.Subs = stack[len(stack)-1].ctm, stack[len(stack)-1].subs
					stack = stack[:len(stack)-1]
				}
			case "translate":
				if len(n) == 2 {
					geo.Concat([6]float64{1, 0, 0, 1, n[0], n[1]})
				}
			case "scale":
				if len(n) == 2 {
					geo.Concat([6]float64{n[0], 0, 0, n[1], 0, 0})
				}
			case "rotate":
				if len(n) == 1 {
					s, c := math.Sincos(n[0] * math.Pi / 180)
					geo.Concat([6]float64{c, s, -s, c, 0, 0})
				}
			case "newpath":
				geo.Reset()
			case "moveto":
				if len(n) == 2 {
					geo.MoveTo(pt(n, 0))
				}
			case "lineto":
				if len(n) == 2 {
					geo.LineTo(pt(n, 0))
				}
			case "curveto":
				if len(n) == 6 {
					geo.CubeTo(pt(n, 0), pt(n, 2), pt(n, 4))
				}
			case "closepath":
				geo.Close()
			case "ellipse", "ellipsen":
				if len(n) == 7 {
					geo.EllipseArc(n[0], n[1], n[2], n[3], n[4], n[5], n[6], op.Op == "ellipsen")
				}
				e["a"], e["g"] = []int{}, 1
			case "fill", "eofill":
				e["o"], e["oe"], e["ou"], e["oue"] = regionMatches(h, prog, geo.Subs)
				e["fo"], e["foe"] = fillMatches(h, prog, geo.Subs)
				geo.Reset()
			case "stroke":
				e["so"] = curveMatches(h, prog, geo.Subs)
				geo.Reset()
			}
		}
		out = append(out, e)
	}
	out = append(out, ev{"op": "END"})
	return out, nil
}

var reUnit = func(s string) (float64, string, bool) {
	i := len(s)
	for i > 0 && (s[i-1] < '0' || s[i-1] > '9') && s[i-1] != '.' {
		i--
	}
	var v float64
	_, err := fmt.Sscanf(s[:i], "%g", &v)
	return v, s[i:], err == nil
}

// EventsSVG reads the SVG document.
func EventsSVG(h *Header, id int, prog []Draw, file []byte) ([]ev, error) {
	els, err := oracle.GSReadSVG(file)
	if err != nil {
		return nil, err
	}
	out := []ev{{"op": "BEGIN", "be": "svg", "id": id, "W": h.W, "H": h.H, "ext": []ev{}}}
	for _, d := range prog {
		out = append(out, ev{"op": "Request", "d": d})
	}
	H := float64(h.H)
	for _, el := range els {
		switch el.Tag {
		case "svg":
			w, uw, ok1 := reUnit(el.Attr["width"])
			hh, uh, ok2 := reUnit(el.Attr["height"])
			a, g := ints([]float64{w, hh}, 1e-6)
			vbf, ok3 := parseFloats(el.Attr["viewBox"])
			vb, g2 := ints(vbf, 1e-6)
			if !ok1 || !ok2 || !ok3 || uw != uh || g2 == 0 {
				g = 0
			}
			out = append(out, ev{"op": "svg", "a": a, "s": uw, "vb": vb, "g": g})
		case "path", "image":
			e := ev{"op": el.Tag, "pr": el.Props, "d": el.D, "tf": el.Tf, "tm": []int{1, 0, 0, 1, 0, 0}, "tmg": 0, "o": []int{}, "oe": []int{}, "ou": []int{}, "oue": []int{}, "fo": []int{}, "foe": []int{}, "so": []int{}, "a": []int{}, "g": 1, "s": ""}
			if el.Props == nil {
				e["pr"] = []oracle.GSProp{}
			}
			if el.D == nil {
				e["d"] = []oracle.GSCmd{}
			}
			if el.Tf == nil {
				e["tf"] = []oracle.GSTf{}
			}
			tm, ok := oracle.GSTfMatrix(el.Tf)
			if ok {
				a, g := ints(tm[:], 1e-6)
				e["tm"], e["tmg"] = a, g
			}
			if el.Tag == "image" {
				wf, ok1 := parseFloats(el.Attr["width"])
				hf, ok2 := parseFloats(el.Attr["height"])
				if ok1 && ok2 && len(wf) == 1 && len(hf) == 1 {
					a, g := ints([]float64{wf[0], hf[0]}, 1e-6)
					e["a"], e["g"] = a, g
				} else {
					e["g"] = 0
				}
			} else {
				geo := oracle.GSNewGeo()
				geo.Concat([6]float64{1, 0, 0, -1, 0, H})
				if ok {
					geo.Concat(tm)
				}
				svgGeo(geo, el.D)
				e["o"], e["oe"], e["ou"], e["oue"] = regionMatches(h, prog, geo.Subs)
				e["fo"], e["foe"] = fillMatches(h, prog, geo.Subs)
				e["so"] = curveMatches(h, prog, geo.Subs)
			}
			out = append(out, e)
		default:
			out = append(out, ev{"op": el.Tag})
		}
	}
	out = append(out, ev{"op": "END"})
	return out, nil
}

func parseFloats(s string) ([]float64, bool) {
	var out []float64
	for _, f := range bytes.FieldsFunc([]byte(s), func(r rune) bool { return r == ' ' || r == ',' }) {
		var v float64
		if _, err := fmt.Sscanf(string(f), "%g", &v); err != nil {
			return out, false
		}
		out = append(out, v)
	}
	return out, true
}

func svgGeo(g *oracle.GSGeo, d []oracle.GSCmd) {
	var cur, start, lastC oracle.Pt
	prev := byte(0)
	for _, c := range d {
		f := c.F
		rel := c.C[0] >= 'a'
		up := c.C[0] &^ 0x20
		abs := func(i int) oracle.Pt {
			p := oracle.Pt{X: f[i], Y: f[i+1]}
			if rel {
				p = p.Add(cur)
			}
			return p
		}
		switch up {
		case 'M':
			cur = abs(0)
			start = cur
			g.MoveTo(cur)
		case 'L':
			cur = abs(0)
			g.LineTo(cur)
		case 'H':
			if rel {
				cur.X += f[0]
			} else {
				cur.X = f[0]
			}
			g.LineTo(cur)
		case 'V':
			if rel {
				cur.Y += f[0]
			} else {
				cur.Y = f[0]
			}
			g.LineTo(cur)
		case 'C':
			c1, c2, p := abs(0), abs(2), abs(4)
			g.CubeTo(c1, c2, p)
			lastC, cur = c2, p
		case 'S':
			c1 := cur
			if prev == 'C' || prev == 'S' {
				c1 = cur.Add(cur.Sub(lastC))
			}
			c2, p := abs(0), abs(2)
			g.CubeTo(c1, c2, p)
			lastC, cur = c2, p
		case 'Q':
			c1, p := abs(0), abs(2)
			g.QuadTo(c1, p)
			lastC, cur = c1, p
		case 'T':
			c1 := cur
			if prev == 'Q' || prev == 'T' {
				c1 = cur.Add(cur.Sub(lastC))
			}
			p := abs(0)
			g.QuadTo(c1, p)
			lastC, cur = c1, p
		case 'A':
			p := oracle.Pt{X: f[5], Y: f[6]}
			if rel {
				p = p.Add(cur)
			}
			g.SvgArcTo(f[0], f[1], f[2], f[3] != 0, f[4] != 0, p)
			cur = p
		case 'Z':
			g.Close()
			cur = start
		}
		prev = up
	}
}

// Events dispatches on the back-end.
func Events(h *Header, be string, id int, prog []Draw, file []byte) ([]ev, error) {
	switch be {
	case "pdf":
		return EventsPDF(h, id, prog, file)
	case "ps":
		return EventsPS(h, id, prog, file)
	case "svg":
		return EventsSVG(h, id, prog, file)
	}
	return nil, fmt.Errorf("unknown back-end %q", be)
}

func writeEvents(b *bytes.Buffer, es []ev) error {
	for _, e := range es {
		j, err := json.Marshal(e)
		if err != nil {
			return err
		}
		b.Write(j)
		b.WriteByte('\n')
	}
	return nil
}
