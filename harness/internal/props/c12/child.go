package c12

import (
	"bytes"
	"context"
	"encoding/json"
	"fmt"
	"os"
	"os/exec"
	"time"
)

// A render that may not terminate is executed in a child process of the same binary (which can be killed).
const childEnv = "VERIF_C12_CHILD"

func init() {
	s := os.Getenv(childEnv)
	if s == "" {
		return
	}
	var sc Scenario
	if err := json.Unmarshal([]byte(s), &sc); err != nil || sc.Hdr == nil {
		fmt.Fprintln(os.Stderr, "bad child scenario:", err)
		os.Exit(3)
	}
	file, err := Render(sc.Be, BuildCanvas(sc.Hdr, sc.Prog))
	if err != nil {
		fmt.Fprintln(os.Stderr, err)
		os.Exit(4)
	}
	os.Stdout.Write(file)
	os.Exit(0)
}

var errTimeout = fmt.Errorf("timeout")

// renderChild renders in a child process; errTimeout if it does not finish.
func renderChild(sc Scenario, d time.Duration) ([]byte, error) {
	exe, err := os.Executable()
	if err != nil {
		return nil, err
	}
	ctx, cancel := context.WithTimeout(context.Background(), d)
	defer cancel()
	cmd := exec.CommandContext(ctx, exe)
	cmd.Env = append(os.Environ(), childEnv+"="+string(mustJSON(sc)))
	var out, errb bytes.Buffer
	cmd.Stdout, cmd.Stderr = &out, &errb
	err = cmd.Run()
	if ctx.Err() != nil {
		return nil, errTimeout
	}
	if err != nil {
		return nil, fmt.Errorf("child: %v: %s", err, trunc(errb.String(), 600))
	}
	return out.Bytes(), nil
}
