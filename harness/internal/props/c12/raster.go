package c12

import "verif/harness/internal/core"

func rasterTieIn(c *core.Ctx, h *Header, progs []genLine) {}

func replayRaster(c *core.Ctx, s *Scenario) []core.Mismatch { return nil }
