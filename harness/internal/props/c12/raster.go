package c12

import (
	"bytes"
	"encoding/json"
	"fmt"
	"image"
	"reflect"
	"sync/atomic"

	"github.com/tdewolff/canvas"
	"github.com/tdewolff/canvas/renderers/rasterizer"

	"verif/harness/internal/core"
	"verif/harness/internal/rec"
)

// PaintNames must be the list of spec/GState.tla (frame codes are 1-based indices into it).
var PaintNames = []string{"black", "red", "redh", "dred", "blue", "blueh", "green", "grey", "ggrey", "tbrown", "rgrey"}

const FreeCode = 99

// RasterScene is one program with the painter's-order frame computed by spec/Raster.tla.
type RasterScene struct {
	Prog  []Draw  `json:"prog"`
	Res   int     `json:"res"` // 1,2,3,5 px/mm ; 96 = 96 dpi
	Wpx   int     `json:"wpx"`
	Hpx   int     `json:"hpx"`
	Frame [][]int `json:"frame"`
	NZ    [][]int `json:"nz"` // frame with every fill rule read as NonZero (empty when identical)
	Feat  map[string]bool `json:"feat,omitempty"`
	Hdr   *Header `json:"hdr,omitempty"`
	Be    string  `json:"be,omitempty"`
}

func resolution(r int) canvas.Resolution {
	if r == 96 {
		return canvas.DPI(96)
	}
	return canvas.DPMM(float64(r))
}

type recEvent struct {
	Kind  string
	M     canvas.Matrix
	Data  []float64
	Style canvas.Style
	Stops []canvas.Stop // copy of the stops of a gradient fill (the Style only holds the pointer)
	Ends  [2]canvas.Point
}

func snapshot(c *canvas.Canvas) []recEvent {
	r := rec.New(c.W, c.H)
	c.RenderTo(r)
	out := make([]recEvent, len(r.Events))
	for i, e := range r.Events {
		out[i] = recEvent{Kind: e.Kind, M: e.M, Data: e.Data, Style: e.Style}
		// the style holds the dash array by reference: without a copy a renderer that scales it in place would change the
		// earlier snapshot as well and the comparison could never see it
		out[i].Style.Dashes = append([]float64(nil), e.Style.Dashes...)
		if lg, ok := e.Style.Fill.Gradient.(*canvas.LinearGradient); ok {
			out[i].Stops = append([]canvas.Stop(nil), lg.Stops...)
			out[i].Ends = [2]canvas.Point{lg.Start, lg.End}
		}
		if rg, ok := e.Style.Fill.Gradient.(*canvas.RadialGradient); ok {
			out[i].Stops = append([]canvas.Stop(nil), rg.Stops...)
			out[i].Ends = [2]canvas.Point{rg.C0, rg.C1}
		}
	}
	return out
}

// CompareRaster renders the scene with the real rasterizer and compares it with the frame.
// spaces: 0 linear (exact colours), 1 sRGB, 2 gamma 2.2 (presence, colour within +-3).
func CompareRaster(h *Header, s *RasterScene, spaces []int) (ms []core.Mismatch) {
	defer func() {
		if r := recover(); r != nil {
			ms = append(ms, core.Mismatch{Signature: "raster-panic", Detail: fmt.Sprint(r)})
		}
	}()
	progJ := string(mustJSON(s.Prog))
	for _, sp := range spaces {
		c := BuildCanvas(h, s.Prog) // a fresh canvas per colour space, so that every render starts from the requested paints
		before := snapshot(c)
		var cs canvas.ColorSpace = canvas.LinearColorSpace{}
		name := "linear"
		switch sp {
		case 1:
			cs, name = canvas.SRGBColorSpace{}, "srgb"
		case 2:
			cs, name = canvas.GammaColorSpace{Gamma: 2.2}, "gamma2.2"
		}
		img := rasterizer.Draw(c, resolution(s.Res), cs)
		b := img.Bounds()
		if b.Dx() != s.Wpx || b.Dy() != s.Hpx || b.Min != (image.Point{}) {
			ms = append(ms, core.Mismatch{Signature: "raster-size", Detail: fmt.Sprintf("image %v, expected %dx%d at res %d; program %s", b, s.Wpx, s.Hpx, s.Res, progJ)})
			return
		}
		img2 := rasterizer.Draw(c, resolution(s.Res), cs)
		gradMutated := false
		if after := snapshot(c); !reflect.DeepEqual(before, after) {
			sig := "raster-canvas-mutated"
			if sp != 0 && s.Feat["grad"] && onlyStopsDiffer(before, after) {
				sig, gradMutated = "raster-gradient-stops-mutated:non-linear-colour-space", true
			}
			ms = append(ms, core.Mismatch{Signature: sig, Detail: fmt.Sprintf("the canvas replays differently after rasterizing (res %d space %s): before %v after %v; program %s", s.Res, name, stopsOf(before), stopsOf(after), progJ)})
		}
		if !bytes.Equal(img.Pix, img2.Pix) {
			sig := "raster-second-render-differs"
			if gradMutated {
				sig = "raster-gradient-stops-mutated:non-linear-colour-space" // consequence: the second render starts from the converted stops
			}
			ms = append(ms, core.Mismatch{Signature: sig, Detail: fmt.Sprintf("second render differs: res %d space %s program %s", s.Res, name, progJ)})
		}
		// pixels: every mismatching pixel is attributed to one class
		type bad struct {
			x, y, exp int
			got      [4]uint8
		}
		classes := map[string][]bad{}
		for y := 0; y < s.Hpx; y++ {
			for x := 0; x < s.Wpx; x++ {
				code := s.Frame[y][x]
				o := img.PixOffset(x, y)
				got := [4]uint8{img.Pix[o], img.Pix[o+1], img.Pix[o+2], img.Pix[o+3]}
				if pixelOK(h, code, got, sp) {
					continue
				}
				var sig string
				switch {
				case x == 0 && s.Feat["left"]:
					sig = "raster-pixel:column-0:region-crosses-left-border"
				case y == 0 && s.Feat["top"]:
					sig = "raster-pixel:row-0:region-crosses-top-border"
				case s.Feat["selfx"]:
					// scene-level: a missing piece of the stroke may also expose the paint underneath
					sig = "raster-stroke:closed-self-intersecting-path"
				case s.Feat["posnegopen"]:
					// scene-level: Settle of a path with an open sub-path
					sig = "raster-fillrule-positive-negative-open-subpath"
				case len(s.NZ) > 0 && s.NZ[y][x] != code && pixelOK(h, s.NZ[y][x], got, sp):
					// the pixel is what the frame demands when every rule is read as NonZero
					sig = "raster-fillrule-ignored:rules-differ-on-pixel"
				case code == 0:
					sig = "raster-pixel:outside-painted"
				case got[3] == 0:
					sig = "raster-pixel:inside-not-painted"
				default:
					sig = "raster-pixel:wrong-colour"
				}
				if len(classes[sig]) < 4 {
					classes[sig] = append(classes[sig], bad{x, y, code, got})
				}
			}
		}
		for sig, bads := range classes {
			b0 := bads[0]
			ms = append(ms, core.Mismatch{Signature: sig, Detail: fmt.Sprintf("res %d space %s: pixel (%d,%d) is %v, frame code %d (0 = untouched, n = paint %v); first mismatches %v; program %s",
				s.Res, name, b0.x, b0.y, b0.got, b0.exp, PaintNames, bads, progJ)})
		}
	}
	return
}

func stopsOf(es []recEvent) [][]canvas.Stop {
	var out [][]canvas.Stop
	for _, e := range es {
		if e.Stops != nil {
			out = append(out, e.Stops)
		}
	}
	return out
}

// onlyStopsDiffer: the two recordings are identical except for the stop colours of gradient fills.
func onlyStopsDiffer(a, b []recEvent) bool {
	if len(a) != len(b) {
		return false
	}
	for i := range a {
		x, y := a[i], b[i]
		x.Stops, y.Stops = nil, nil
		if !reflect.DeepEqual(x, y) {
			return false
		}
	}
	return true
}

func pixelOK(h *Header, code int, got [4]uint8, space int) bool {
	switch {
	case code == FreeCode:
		return true
	case code == 0:
		return got == [4]uint8{}
	}
	pm := h.Paints[PaintNames[code-1]].Pm
	if space == 0 && pm[3] == 255 {
		return got == [4]uint8{uint8(pm[0]), uint8(pm[1]), uint8(pm[2]), uint8(pm[3])}
	}
	// a translucent paint alone on a transparent background keeps its premultiplied colour in every colour space (ToLinear then
	// FromLinear on a single layer): +-1 in linear space, +-3 through the 8-bit linear intermediate of sRGB / gamma; alpha exact +-1
	tol := 3
	if space == 0 {
		tol = 1
	}
	if pm[3] == 255 && got[3] != 255 {
		return false
	}
	for i := 0; i < 4; i++ {
		d := int(got[i]) - pm[i]
		t := tol
		if i == 3 {
			t = 1
		}
		if d < -t || d > t {
			return false
		}
	}
	return true
}

// rasterTieIn: the programs of C12 through rasterizer.Draw, against the frame of spec/Raster.tla (FRes = 2).
func rasterTieIn(c *core.Ctx, h *Header, progs []genLine) {
	ch := make(chan int, 256)
	go func() {
		for i := range progs {
			if len(progs[i].Frame) > 0 {
				ch <- i
			}
		}
		close(ch)
	}()
	var n, certain int64
	core.Parallel(12, ch, func(i int) {
		g := progs[i]
		s := &RasterScene{Prog: g.Prog, Res: g.Res, Wpx: g.Wpx, Hpx: g.Hpx, Frame: g.Frame, NZ: g.NZ, Feat: g.Feat, Hdr: h, Be: "raster"}
		ms := CompareRaster(h, s, []int{0})
		atomic.AddInt64(&n, 1)
		for _, row := range g.Frame {
			for _, v := range row {
				if v != FreeCode {
					atomic.AddInt64(&certain, 1)
				}
			}
		}
		c.Report(s, ms)
	})
	c.Count(n, 0, n)
	c.SetExtra("raster_programs", n)
	c.SetExtra("raster_certain_pixels", certain)
}

// ReplayRaster re-executes a raster scenario (used by C12 and C14).
func ReplayRaster(raw json.RawMessage, spaces []int) []core.Mismatch {
	var s RasterScene
	if err := json.Unmarshal(raw, &s); err != nil || s.Hdr == nil {
		return []core.Mismatch{{Signature: "machinery", Detail: fmt.Sprint("bad raster scenario: ", err)}}
	}
	return CompareRaster(s.Hdr, &s, spaces)
}
