// Package c16: text layout (spec/Layout.tla, spec/Trace_Layout.tla).
//
// TLC generates token lists (words, space, no-break space, ideographic space, soft hyphen, hyphen, newline, a word
// in a second face) x width selector x alignment x indent. The driver builds the real strings with the bundled
// DejaVuSerif / EBGaramond faces, lays them out with canvas.RichText.ToText, observes WalkLines / Overflows /
// Bounds / Heights, quantises to 1e-3 mm and logs one event per layout. Trace_Layout.tla evaluates the
// post-conditions of Layout.tla over every event (judge pass). The item list and breakpoints of the same text (the
// library's own GlyphsToItems / Linebreak) are logged too: the spec computes each line's Knuth-Plass ratio class
// from them for the justification clause, and the Linebreak calls are validated by Trace_KnuthPlass (C17).
package c16

import (
	"bytes"
	"encoding/json"
	"fmt"
	"math"
	"sort"
	"strings"
	"sync"
	"sync/atomic"
	"time"

	"github.com/tdewolff/canvas"
	"github.com/tdewolff/canvas/text"

	"verif/harness/internal/core"
	"verif/harness/internal/props/c17"
	"verif/harness/internal/tlc"
)

type Driver struct{}

func (Driver) ID() string { return "C16" }

// Scenario as printed by Layout.tla (and stored in replay files).
type Scenario struct {
	Toks   []string `json:"toks"`
	WSel   int      `json:"wsel"`
	Align  string   `json:"align"`
	Indent int      `json:"indent"`
	Api    string   `json:"api"` // "box" (RichText.ToText, also when absent) | "line" (NewTextLine)
}

const objRune = "\uFFFD" // placeholder character of an inline object

// tokens of the round-5 alphabets that c17.TokenRuns does not know: an inline object and the other paragraph separators
var extraTok = map[string]string{"obj": objRune, "vt": "\v", "ff": "\f", "nel": "\u0085", "lsep": "\u2028", "psep": "\u2029"}

// objWidth: width of the inline objects of the scenario in mm (height 2 mm, below the ascent of every face used)
func objWidth(s *Scenario) float64 { return 2.5 + 0.5*float64(len(s.Toks)%3) }

const objHeight = 2.0

const unit = 1e-3 // mm

func (s *Scenario) runs() ([]c17.Run, error) {
	var runs []c17.Run
	for _, t := range s.Toks {
		var r c17.Run
		if txt, ok := extraTok[t]; ok {
			r = c17.Run{Font: 0, Text: txt}
		} else {
			rs, err := c17.TokenRuns([]string{t})
			if err != nil {
				return nil, err
			}
			r = rs[0]
		}
		if n := len(runs); n > 0 && runs[n-1].Font == r.Font {
			runs[n-1].Text += r.Text
		} else {
			runs = append(runs, r)
		}
	}
	return runs, nil
}

// measure: the advance of a piece of text in which every inline object counts with the object width
func measure(f *canvas.FontFace, txt string, objW float64) float64 {
	n := strings.Count(txt, objRune)
	w := float64(n) * objW
	if rest := strings.ReplaceAll(txt, objRune, ""); rest != "" {
		w += f.TextWidth(rest)
	}
	return w
}

// variantOf derives the face variant of the first face from the scenario (one layout in three uses a sub- or
// superscript face: scaled size, offsets): it must not affect any post-condition.
func variantOf(s *Scenario) canvas.FontVariant {
	h := 7*len(s.Toks) + 3*s.WSel + s.Indent + len(s.Align) + int(s.Align[0])
	switch h % 6 {
	case 4:
		return canvas.FontSubscript
	case 5:
		return canvas.FontSuperscript
	}
	return canvas.FontNormal
}

func faces(v canvas.FontVariant) ([]*canvas.FontFace, error) {
	var f0 *canvas.FontFace
	var err error
	if v == canvas.FontNormal {
		f0, err = c17.Face(0, 12)
	} else {
		f0, err = c17.FaceVariant(0, 12, v)
	}
	if err != nil {
		return nil, err
	}
	f1, err := c17.Face(1, 12)
	if err != nil {
		return nil, err
	}
	return []*canvas.FontFace{f0, f1}, nil
}

// boxWidth maps the abstract width selector to millimetres, relative to measured advances of this text:
// 1: just below the longest word (overflow), 2: the longest word plus a hair, 3 and 4: fractions of the one-line
// width, 5: exactly the one-line width, 6: wider than the text.
func boxWidth(s *Scenario, runs []c17.Run, fs []*canvas.FontFace, indent float64) float64 {
	objW := objWidth(s)
	oneLine := indent
	for _, r := range runs {
		oneLine += measure(fs[r.Font], strings.NewReplacer("\n", "", "\r", "").Replace(r.Text), objW)
	}
	// the widest chunk between breakable white space (a selector only; hyphens may still break it)
	long := 0.0
	for _, r := range runs {
		for _, chunk := range strings.FieldsFunc(r.Text, func(c rune) bool { return c == ' ' || c == '\u3000' || c == '\n' || c == '\r' }) {
			if w := measure(fs[r.Font], chunk, objW); w > long {
				long = w
			}
		}
	}
	if long == 0 {
		long = fs[0].TextWidth("on")
	}
	var w float64
	switch s.WSel {
	case 1:
		w = long - 0.5
	case 2:
		w = long + 0.05
	case 3:
		w = math.Max(0.45*oneLine, long+0.05)
	case 4:
		w = math.Max(0.7*oneLine, long+0.05)
	case 5:
		w = oneLine
	case 6:
		w = oneLine + 10
	default: // 7..10: absolute narrow widths 20..23 mm (justified paragraphs)
		w = float64(13 + s.WSel)
	}
	if w < 2 {
		w = 2
	}
	return w
}

var aligns = map[string]canvas.TextAlign{"L": canvas.Left, "R": canvas.Right, "C": canvas.Center, "J": canvas.Justify}

// ---- the event -----------------------------------------------------------------------------------------------

type Span struct {
	X    int   `json:"x"`
	W    int   `json:"w"`
	Asc  int   `json:"asc"`
	Desc int   `json:"desc"`
	Lv   int   `json:"lv"` // bidi embedding level
	No   int   `json:"no"` // number of inline objects the span carries
	T    []int `json:"t"`
	G    []int `json:"g"`
}

type LineEv struct {
	Y     int    `json:"y"`
	Asc   int    `json:"asc"`
	Desc  int    `json:"desc"`
	Bot   int    `json:"bot"` // max over spans of descent + line gap
	Adj   int    `json:"adj"`
	Spans []Span `json:"spans"`
}

type KP struct {
	OK    bool     `json:"ok"`
	Items [][6]int `json:"items,omitempty"`
	Brk   []int    `json:"brk"`
}

type Event struct {
	K       int      `json:"k"`
	Api     string   `json:"api"`  // "box" | "line"
	ObjW    int      `json:"objw"` // width of the inline objects
	Lh      int      `json:"lh"`   // api "line": ascent + descent + line gap of the face
	Text    []int    `json:"text"`
	Width   int      `json:"width"`
	Indent  int      `json:"indent"`
	Align   string   `json:"align"`
	Ovf     bool     `json:"ovf"`
	U       int      `json:"u"`
	Ls      int      `json:"ls"` // line stretch in thousandths
	Lines   []LineEv `json:"lines"`
	Bounds  [4]int   `json:"bounds"`
	Heights [2]int   `json:"heights"`
	KP      KP       `json:"kp"`
	Bidi    bool     `json:"bidi"` // mixed-direction text: the spec evaluates only the direction-independent clauses
}

var natCache sync.Map

// naturalAdvance is the advance of a single white-space character shaped on its own (the shaper may synthesise
// U+3000 from the space glyph, so the font's raw glyph advance is not the reference).
func naturalAdvance(f *canvas.FontFace, r rune) float64 {
	type key struct {
		f *canvas.Font
		s float64
		r rune
	}
	k := key{f.Font, f.Size, r}
	if v, ok := natCache.Load(k); ok {
		return v.(float64)
	}
	w := f.TextWidth(string(r))
	natCache.Store(k, w)
	return w
}

func qi(x float64) int { return int(math.Round(x / unit)) }

func runes(s string) []int {
	out := []int{}
	for _, r := range s {
		out = append(out, int(r))
	}
	return out
}

type observed struct {
	ev    *Event
	panic string
	hung  bool
}

// layout executes one scenario on the real library and observes it.
func layout(s *Scenario, k int) (*observed, error) {
	fs, err := faces(variantOf(s))
	if err != nil {
		return nil, err
	}
	runs, err := s.runs()
	if err != nil {
		return nil, err
	}
	indent := 5.0 * float64(s.Indent)
	width := boxWidth(s, runs, fs, indent)
	halign, ok := aligns[s.Align]
	if !ok {
		return nil, fmt.Errorf("unknown alignment %q", s.Align)
	}
	// vertical alignment and line stretch are derived from the scenario (they must not affect any post-condition)
	valign := []canvas.TextAlign{canvas.Top, canvas.Center, canvas.Bottom}[(s.WSel+len(s.Toks))%3]
	lineStretch := []float64{0, 0.5, -0.2}[(len(s.Toks)+s.Indent+s.WSel)%3]
	full := ""
	for _, r := range runs {
		full += r.Text
	}
	objW := objWidth(s)
	hasObj := strings.Contains(full, objRune)
	isLine := s.Api == "line"
	if isLine && (hasObj || len(runs) > 1 || s.Align == "J") {
		return nil, fmt.Errorf("single-line scenario with objects, two faces or justification")
	}
	ev := &Event{K: k, Api: "box", ObjW: qi(objW), Text: runes(full), Width: qi(width), Indent: qi(indent), Align: s.Align, Lines: []LineEv{}, Ls: int(math.Round(lineStretch * 1000))}
	for _, t := range s.Toks {
		if t == "heb" {
			ev.Bidi = true
		}
	}
	// glue is stretched in whole font units
	for _, f := range fs {
		if u := int(math.Ceil(f.MmPerEm / unit)); u > ev.U {
			ev.U = u
		}
	}
	if isLine {
		ev.Api = "line"
		m := fs[0].Metrics()
		ev.Lh = qi(m.Ascent + m.Descent + m.LineGap)
	}
	res := &observed{ev: ev}
	type out struct {
		t     *canvas.Text
		panic string
	}
	ch := make(chan out, 1)
	go func() {
		var o out
		defer func() {
			if e := recover(); e != nil {
				o.panic = fmt.Sprint(e)
			}
			ch <- o
		}()
		if isLine {
			o.t = canvas.NewTextLine(fs[0], full, halign)
		} else {
			rt := canvas.NewRichText(fs[0])
			for _, r := range runs {
				for i, seg := range strings.Split(r.Text, objRune) {
					if i > 0 {
						rt.WriteCanvas(canvas.New(objW, objHeight), canvas.Baseline)
					}
					if seg != "" {
						rt.WriteFace(fs[r.Font], seg)
					}
				}
			}
			o.t = rt.ToText(width, 0, halign, valign, indent, lineStretch)
		}
		// observation (may panic as well)
		o.t.WalkLines(func(y float64, spans []canvas.TextSpan) {
			ln := LineEv{Y: qi(-y), Spans: []Span{}}
			adj := 0.0
			for _, sp := range spans {
				m := sp.Face.Metrics()
				e := Span{X: qi(sp.X), W: qi(sp.Width), Asc: qi(m.Ascent), Desc: qi(m.Descent), Lv: sp.Level, No: len(sp.Objects), T: runes(sp.Text), G: []int{}}
				if len(sp.Objects) > 0 { // an object span reaches as high and as deep as its objects
					e.Asc, e.Desc = 0, 0
					for _, ob := range sp.Objects {
						a, d := ob.Heights(sp.Face)
						e.Asc, e.Desc = max(e.Asc, qi(a)), max(e.Desc, qi(d))
					}
				}
				for _, g := range sp.Glyphs {
					e.G = append(e.G, int(g.Text))
				}
				if e.Asc > ln.Asc {
					ln.Asc = e.Asc
				}
				if e.Desc > ln.Desc {
					ln.Desc = e.Desc
				}
				b := qi(m.Descent + m.LineGap)
				if len(sp.Objects) > 0 { // line.Heights: an object's own descent plus the line gap of its face
					b = e.Desc + qi(m.LineGap)
				}
				if b > ln.Bot {
					ln.Bot = b
				}
				// what was added to the natural advance of the glue glyphs (0 = left unstretched)
				for _, g := range sp.Glyphs {
					if g.Text == ' ' || g.Text == '\u3000' {
						adj += float64(g.XAdvance)*sp.Face.MmPerEm - naturalAdvance(sp.Face, g.Text)
					}
				}
				ln.Spans = append(ln.Spans, e)
			}
			ln.Adj = qi(adj)
			ev.Lines = append(ev.Lines, ln)
		})
		ev.Ovf = o.t.Overflows
		b := o.t.Bounds()
		ev.Bounds = [4]int{qi(b.X0), qi(b.Y0), qi(b.X1), qi(b.Y1)}
		top, bottom := o.t.Heights()
		ev.Heights = [2]int{qi(top), qi(bottom)}
	}()
	select {
	case o := <-ch:
		res.panic = o.panic
	case <-time.After(c17.Watchdog):
		res.hung = true
	}
	if res.panic != "" || res.hung {
		return res, nil
	}
	if ev.Bidi || hasObj || isLine {
		// (inline objects: the item list cannot be rebuilt outside ToText - the object advances are put in there)
		ev.KP = KP{OK: false, Brk: []int{}}
		return res, nil
	}
	// the item list and breakpoints of the same text, by the library's own builder and line breaker
	func() {
		defer func() {
			if e := recover(); e != nil {
				ev.KP = KP{OK: false, Brk: []int{}}
			}
		}()
		items := c17.LayoutItems(runs, fs, indent, s.Align == "J")
		kp := KP{OK: true, Brk: []int{}}
		if len(items) == 0 {
			kp.OK = false
		} else {
			bs, _ := text.Linebreak(items, width, 0)
			for _, b := range bs {
				kp.Brk = append(kp.Brk, b.Position)
			}
			for _, it := range items {
				e := [6]int{int(it.Type), qi(it.Width), qi(it.Stretch), qi(it.Shrink), 0, 0}
				switch {
				case it.Penalty >= text.Infinity:
					e[4] = 1000
				case it.Penalty <= -text.Infinity:
					e[4] = -1000
				default:
					e[4] = int(math.Round(it.Penalty))
				}
				if it.Flagged {
					e[5] = 1
				}
				kp.Items = append(kp.Items, e)
			}
		}
		ev.KP = kp
	}()
	if ev.KP.Brk == nil {
		ev.KP.Brk = []int{}
	}
	return res, nil
}

// ---- judging ----------------------------------------------------------------------------------------------------

type explain struct {
	K     int      `json:"k"`
	Fails []string `json:"fails"`
	Feat  []string `json:"feat"`
}

// jcfg: the judge pass. CheckObs = FALSE: no event is rejected, the failed post-conditions of every event are printed;
// TraceAccepted demands that every event was judged.
func jcfg(check bool) string {
	ck := "FALSE"
	if check {
		ck = "TRUE"
	}
	return "SPECIFICATION JSpec\nCONSTANTS Mode = \"none\"\n NFree = 0\n NRand = 0\n MinW = 0\n MaxW = 0\n Alpha = \"std\"\n LMode = \"none\"\n NTok = 0\n NLRand = 0\n MaxWSel = 0\n Indents = {}\n CheckObs = " + ck + "\n ChunkSize = 64\nPOSTCONDITION TraceAccepted\nCHECK_DEADLOCK FALSE\n"
}

func toMismatches(x *explain, ev *Event) []core.Mismatch {
	rep, spnl, emb := false, false, false
	for _, f := range x.Feat {
		if f == "startsembedded" {
			emb = true
		}
		if f == "repspace" {
			rep = true
		}
		if f == "spacenl" {
			spnl = true
		}
	}
	var ms []core.Mismatch
	for _, f := range x.Fails {
		sig := f
		if f == "newline-no-new-line" && ev.Ovf {
			sig = "blank-line-lost-overflow"
		}
		if emb && (f == "span-overlap" || f == "outside-box") {
			sig = f + "-bidi-line-starts-embedded"
		}
		if f == "align-right" || f == "align-centre" {
			if spnl {
				sig = f + "-space-before-newline"
			} else if rep {
				sig = f + "-break-at-repeated-space"
			}
		}
		b, _ := json.Marshal(ev.Lines)
		ms = append(ms, core.Mismatch{Signature: sig, Detail: fmt.Sprintf("%s: text %q width %d indent %d align %s overflows=%v lines=%s kp.brk=%v", f, runesToString(ev.Text), ev.Width, ev.Indent, ev.Align, ev.Ovf, b, ev.KP.Brk)})
	}
	return ms
}

func runesToString(r []int) string {
	var sb strings.Builder
	for _, c := range r {
		sb.WriteRune(rune(c))
	}
	return sb.String()
}

// judge lets Trace_Layout evaluate the events; explain mode. Returns mismatches per event index.
func judge(c *core.Ctx, evs []*Event) (accepted bool, per map[int][]core.Mismatch) {
	var buf bytes.Buffer
	enc := json.NewEncoder(&buf)
	for _, e := range evs {
		enc.Encode(e)
	}
	files := map[string][]byte{"trace_layout.ndjson": buf.Bytes()}
	per = map[int][]core.Mismatch{}
	// One pass: with CheckObs = FALSE no event is rejected, the failed post-conditions of every event are printed and
	// TraceAccepted still demands that every event was judged. (CheckObs = TRUE - failing events disable the step - is
	// the same judgement; it would only add a second pass on trees with known findings.)
	byK := map[int]*Event{}
	for _, e := range evs {
		byK[e.K] = e
	}
	exp := c.TLC(tlc.Opts{Module: "Trace_Layout", Files: files, Config: jcfg(false), Timeout: 40 * time.Minute}, true)
	for _, p := range exp.Lines {
		var x explain
		if err := json.Unmarshal(p, &x); err != nil || byK[x.K] == nil {
			c.Broken("bad explanation line from Trace_Layout")
			continue
		}
		per[x.K] = append(per[x.K], toMismatches(&x, byK[x.K])...)
	}
	return exp.OK && len(per) == 0, per
}

func (d Driver) Replay(c *core.Ctx, raw json.RawMessage) []core.Mismatch {
	var s Scenario
	if err := json.Unmarshal(raw, &s); err != nil {
		return []core.Mismatch{{Signature: "machinery", Detail: err.Error()}}
	}
	o, err := layout(&s, 1)
	if err != nil {
		return []core.Mismatch{{Signature: "machinery", Detail: err.Error()}}
	}
	if o.hung {
		return []core.Mismatch{{Signature: "timeout-totext", Detail: fmt.Sprintf("ToText did not return within %v", c17.Watchdog)}}
	}
	if o.panic != "" {
		return []core.Mismatch{{Signature: "panic-totext", Detail: o.panic}}
	}
	_, per := judge(c, []*Event{o.ev})
	return per[1]
}

func gcfg(mode string, ntok, nrand, maxw int, indents string, mc bool) string {
	s := fmt.Sprintf("SPECIFICATION LSpec\nCONSTANTS Mode = \"none\"\n NFree = 0\n NRand = 0\n MinW = 0\n MaxW = 0\n Alpha = \"std\"\n LMode = \"%s\"\n NTok = %d\n NLRand = %d\n MaxWSel = %d\n Indents = %s\nCHECK_DEADLOCK FALSE\n", mode, ntok, nrand, maxw, indents)
	if mc {
		s += "INVARIANTS ModelOK MutantsRejected\n"
	} else {
		s += "INVARIANTS EmitScenario\n"
	}
	return s
}

func (d Driver) Run(c *core.Ctx) error {
	c.Rule = "scenario = (token list over {on, women, wo+soft hyphen+men, new / ne+soft hyphen+w (second face), space, no-break space, ideographic space, hyphen, newline}, width selector relative to the measured text, alignment L/R/C/J, indent 0/5 mm), plus right-to-left paragraphs with embedded left-to-right words and narrow justified paragraphs of 9..14 words at 20..23 mm, and token lists with inline objects (WriteCanvas, adjacent ones included), laid out by RichText.ToText; plus single-line layouts (NewTextLine, L/R/C) of token lists over words, space, hyphen and every paragraph separator (LF, CR, CR LF, VT, FF, U+0085, U+2028, U+2029); with DejaVuSerif/EBGaramond 12 pt; every layout is one event judged by Trace_Layout. non-trivial = the layout has at least two lines and at least one visible character; distinct by scenario"
	c.Assumptions = []string{
		"mixed-direction text (right-to-left paragraphs with embedded left-to-right words; Hebrew letters are .notdef glyphs in the bundled fonts) is only checked for stacking, pairwise disjoint spans, inside-the-box and Bounds/Heights; everything else uses left-to-right text; horizontal writing mode, height 0 (unlimited), vertical alignment Top/Center/Bottom, line stretch 0/0.5/-0.2 and the variant of the first face (normal/subscript/superscript) derived from the scenario",
		"observed lengths are quantised to 1e-3 mm; alignment tolerances 2e-3 mm, justified lines (glue glyphs+1)*size/unitsPerEm + 2e-3 mm (glue is stretched in whole font units)",
		"white space dropped next to a line break may precede or follow an explicit newline (the library also drops spaces that follow a newline)",
		"a soft hyphen directly followed by white space or the end of the text is not decided (break at the hyphen or at the space)",
		"the justification clause uses the item list and breakpoints produced by the library's own GlyphsToItems/Linebreak for the same text (C17 validates those calls); it is skipped when their number differs from the number of lines",
		"glyph advances are inputs measured from the font (FontFace.TextWidth), cross-checked in C18",
	}
	// 1. model level
	// (no -coverage here: the module's only action is a stutter, and coverage instrumentation of the deeply recursive
	// operators exhausts the heap)
	c.TLC(tlc.Opts{Module: "Layout", Config: gcfg("exh", c.Pick(2, 3), 0, 3, "{0, 2}", true), Timeout: 30 * time.Minute}, true)

	// 2. scenarios from TLC -> real layouts -> events
	var mu sync.Mutex
	var evs []*Event
	scen := map[int]json.RawMessage{}
	var n, nontrivial, kpBound, overflowing int64
	seen := sync.Map{}
	run := func(o tlc.Opts) {
		ch := make(chan []byte, 4096)
		o.OnLine = func(p []byte) { ch <- append([]byte(nil), p...) }
		done := make(chan struct{})
		go func() {
			core.Parallel(12, ch, func(p []byte) {
				var s Scenario
				if err := json.Unmarshal(p, &s); err != nil {
					c.Broken("bad scenario line: " + err.Error())
					return
				}
				k := int(atomic.AddInt64(&n, 1))
				obs, err := layout(&s, k)
				if err != nil {
					c.Broken(err.Error())
					return
				}
				if obs.hung {
					c.Report(json.RawMessage(p), []core.Mismatch{{Signature: "timeout-totext", Detail: fmt.Sprintf("ToText did not return within %v", c17.Watchdog)}})
					return
				}
				if obs.panic != "" {
					c.Report(json.RawMessage(p), []core.Mismatch{{Signature: "panic-totext", Detail: obs.panic}})
					return
				}
				if k%8000 == 1 {
					c.Sample(map[string]any{"scenario": json.RawMessage(p), "event": obs.ev})
				}
				shown := false
				for _, l := range obs.ev.Lines {
					if len(l.Spans) > 0 {
						shown = true
					}
				}
				if _, dup := seen.LoadOrStore(string(p), true); !dup && len(obs.ev.Lines) >= 2 && shown {
					atomic.AddInt64(&nontrivial, 1)
				}
				if obs.ev.KP.OK && len(obs.ev.KP.Brk) == len(obs.ev.Lines) {
					atomic.AddInt64(&kpBound, 1)
				}
				if obs.ev.Ovf {
					atomic.AddInt64(&overflowing, 1)
				}
				mu.Lock()
				evs = append(evs, obs.ev)
				scen[k] = append(json.RawMessage(nil), p...)
				mu.Unlock()
			})
			close(done)
		}()
		c.TLC(o, true)
		close(ch)
		<-done
	}
	// independent generation runs, three TLC instances at a time
	sem := make(chan struct{}, 3)
	var wg sync.WaitGroup
	seq := run
	run = func(o tlc.Opts) {
		wg.Add(1)
		sem <- struct{}{}
		go func() {
			defer wg.Done()
			defer func() { <-sem }()
			if o.Workers == 0 {
				o.Workers = 6
			}
			if o.Timeout == 0 {
				o.Timeout = 30 * time.Minute // generous: a shared machine must not turn into a machinery failure
			}
			seq(o)
		}()
	}
	maxw := c.Pick(5, 6)
	for nt := 1; nt <= 2; nt++ { // with CR LF and a lone CR
		run(tlc.Opts{Module: "Layout", Config: gcfg("exh2", nt, 0, maxw, "{0, 1}", false)})
	}
	run(tlc.Opts{Module: "Layout", Config: gcfg("exh", 3, 0, maxw, map[bool]string{false: "{0}", true: "{0, 1}"}[c.Thorough()], false)})
	if c.Thorough() {
		run(tlc.Opts{Module: "Layout", Config: gcfg("exh", 4, 0, 5, "{0}", false), Timeout: 30 * time.Minute})
	}
	for nt := 4; nt <= 9; nt++ {
		run(tlc.Opts{Module: "Layout", Config: gcfg("rand", nt, c.Pick(80, 400), maxw, "{0, 1}", false), Seed: c.Seed + int64(nt)})
	}
	// mixed direction: right-to-left paragraphs with embedded left-to-right words in two faces (exhaustive)
	for nt := 4; nt <= c.Pick(5, 6); nt++ {
		run(tlc.Opts{Module: "Layout", Config: gcfg("bidi", nt, 0, maxw, "{0}", false)})
	}
	// narrow justified paragraphs of 9..14 words at 20..23 mm: lines that must be shrunk, many fitness classes in play
	for _, nt := range []int{9, 11, 12, 14} {
		run(tlc.Opts{Module: "Layout", Config: gcfg("para", nt, c.Pick(250, 1200), maxw, "{0}", false), Seed: c.Seed + int64(100+nt)})
	}
	// round 5: inline objects (adjacent ones included) between words of two faces, spaces and newlines
	for nt := 1; nt <= 3; nt++ {
		run(tlc.Opts{Module: "Layout", Config: gcfg("obj", nt, 0, maxw, "{0, 1}", false)})
	}
	for nt := 4; nt <= 7; nt++ {
		run(tlc.Opts{Module: "Layout", Config: gcfg("obj", nt, c.Pick(30, 400), maxw, map[bool]string{false: "{0}", true: "{0, 1}"}[c.Thorough()], false), Seed: c.Seed + int64(200+nt)})
	}
	// round 5: NewTextLine with every paragraph separator (LF, CR, CR LF, VT, FF, U+0085, U+2028, U+2029)
	for nt := 1; nt <= c.Pick(2, 4); nt++ {
		run(tlc.Opts{Module: "Layout", Config: gcfg("line", nt, 0, maxw, "{0}", false)})
	}
	for nt := c.Pick(3, 5); nt <= 7; nt++ {
		run(tlc.Opts{Module: "Layout", Config: gcfg("line", nt, c.Pick(150, 3000), maxw, "{0}", false), Seed: c.Seed + int64(300+nt)})
	}
	wg.Wait()
	c.Count(n, nontrivial, 0)
	c.SetExtra("layouts_with_kp_lines_bound", kpBound)
	c.SetExtra("layouts_overflowing", overflowing)

	// 3. judge pass: Trace_Layout evaluates the post-conditions over every event
	sort.Slice(evs, func(i, j int) bool { return evs[i].K < evs[j].K })
	const batch = 60000
	for lo := 0; lo < len(evs); lo += batch {
		hi := min(lo+batch, len(evs))
		ok, per := judge(c, evs[lo:hi])
		if ok {
			c.Count(0, 0, int64(hi-lo))
			continue
		}
		bad := 0
		for k, ms := range per {
			for _, m := range ms {
				c.AddExtra("mismatch:"+m.Signature, 1)
			}
			c.Report(scen[k], ms)
			bad++
		}
		c.Count(0, 0, int64(hi-lo))
		if bad == 0 {
			c.Broken("Trace_Layout rejected the recorded layouts but the explain run names no failing event")
		}
	}
	return nil
}
