// Package c08: Bounds is the tight bounding box, FastBounds contains it, both are equivariant under translation
// and reflection (spec/Bounds.tla).
//
// spec -> code: TLC prints lattice curve paths (all quadratics on a small lattice, all arcs of twelve integer
// ellipse families incl. ellipses rotated by atan(3/4), all arcs given by an axis-parallel chord, random cubics,
// random mixed contours, 1-2 contours) together with their EXACT bounding box: per side a rational bracket or a
// closed form  a/b + s*sqrt(c/d), for the path itself and for its image under every embedding of Bounds!Embs
// (reflections, transposition, quarter turns, dyadic translation, scale 1/2). The driver builds the path through
// the public builder under each embedding and compares Path.Bounds / Path.FastBounds with the printed box. The
// expected values are never recomputed here: Go only evaluates the printed numbers.
package c08

import (
	"encoding/json"
	"fmt"
	"math"
	"sort"
	"strings"
	"sync"
	"sync/atomic"
	"time"

	"github.com/tdewolff/canvas"

	"verif/harness/internal/core"
	"verif/harness/internal/latcurve"
	"verif/harness/internal/latgeo"
	"verif/harness/internal/tlc"
)

type Driver struct{}

func (Driver) ID() string { return "C08" }

// SpecEmb is an embedding as printed by the spec: x' = (sx*(swap ? y : x) + tx)/4, y' = (sy*(swap ? x : y) + ty)/4.
type SpecEmb struct {
	Name string `json:"name"`
	Swap int    `json:"swap"`
	Sx   int    `json:"sx"`
	Sy   int    `json:"sy"`
	Tx   int    `json:"tx"`
	Ty   int    `json:"ty"`
}

func (e SpecEmb) Emb() latgeo.Emb {
	sx, sy := float64(e.Sx)/4, float64(e.Sy)/4
	r := latgeo.Emb{Name: e.Name, E: float64(e.Tx) / 4, F: float64(e.Ty) / 4}
	if e.Swap == 1 {
		r.B, r.C = sx, sy
	} else {
		r.A, r.D = sx, sy
	}
	return r
}

// isometry: reflections, quarter turns, translations (the maps the statement's equivariance clause is about).
func (e SpecEmb) isometry() bool { return abs(e.Sx) == 4 && abs(e.Sy) == 4 }

// Form is one side value as printed by the spec:
//
//	[0, a, b, c, d, 0]  a/b <= side <= c/d
//	[1, a, b, c, d, s]  side = a/b + s*sqrt(c/d)
type Form [6]int64

func (f Form) lo() float64 { return float64(f[1]) / float64(f[2]) }
func (f Form) hi() float64 { return float64(f[3]) / float64(f[4]) }

// val is for messages and for the size of the box only (never for a verdict on an irrational side).
func (f Form) val() (lo, hi float64) {
	if f[0] == 0 {
		return f.lo(), f.hi()
	}
	v := f.lo() + float64(f[5])*math.Sqrt(f.hi())
	return v, v
}

func (f Form) String() string {
	if f[0] == 0 {
		if f[1]*f[4] == f[3]*f[2] {
			return fmt.Sprintf("%d/%d (= %.9g)", f[1], f[2], f.lo())
		}
		return fmt.Sprintf("[%d/%d, %d/%d] (= [%.9g, %.9g])", f[1], f[2], f[3], f[4], f.lo(), f.hi())
	}
	v, _ := f.val()
	sg := "+"
	if f[5] < 0 {
		sg = "-"
	}
	return fmt.Sprintf("%d/%d %s sqrt(%d/%d) (= %.9g)", f[1], f[2], sg, f[3], f[4], v)
}

// geq reports obs >= side - tol, leq reports obs <= side + tol. Irrational sides are compared in the squared form.
func (f Form) geq(obs, tol float64) bool {
	if f[0] == 0 {
		return obs >= f.lo()-tol
	}
	c, q := f.lo(), f.hi()
	if f[5] > 0 { // obs - c + tol >= sqrt(q)
		u := obs - c + tol
		return u >= 0 && u*u >= q
	}
	u := c - obs - tol // <= sqrt(q)
	return u <= 0 || u*u <= q
}

func (f Form) leq(obs, tol float64) bool {
	if f[0] == 0 {
		return obs <= f.hi()+tol
	}
	c, q := f.lo(), f.hi()
	if f[5] > 0 { // obs - c - tol <= sqrt(q)
		u := obs - c - tol
		return u <= 0 || u*u <= q
	}
	u := c - obs + tol // >= sqrt(q)
	return u >= 0 && u*u >= q
}

func (f Form) near(obs, tol float64) bool { return f.geq(obs, tol) && f.leq(obs, tol) }

// Side: the exact side and the full-ellipse extremes of the rotated arcs whose extreme point is off / on the arc.
type Side struct {
	V   Form   `json:"v"`
	Off []Form `json:"off"`
	On  []Form `json:"on"`
}

type Feat struct {
	Rot      bool `json:"rot"`
	Chord    bool `json:"chord"`
	ChordRx  bool `json:"chordRx"`
	ChordRxT bool `json:"chordRxT"`
	EndExt   bool `json:"endExt"`
	Cubic    bool `json:"cubic"`
	Quad     bool `json:"quad"`
	Arc      bool `json:"arc"`
	Multi    bool `json:"multi"`
	Nontriv  bool `json:"nontriv"`
}

// Line is one line printed by Bounds.tla.
type Line struct {
	Hdr  bool          `json:"hdr,omitempty"`
	Embs []SpecEmb     `json:"embs,omitempty"`
	Path latcurve.Path `json:"path,omitempty"`
	F    Feat          `json:"f"`
	Box  [][4]Side     `json:"box,omitempty"` // per embedding: x0, y0, x1, y1
}

// Scenario is the replay unit: one path under one embedding with the spec's box for the embedded path and for the
// path itself (identity), the latter for the equivariance relation between the two real runs.
type Scenario struct {
	Path latcurve.Path `json:"path"`
	F    Feat          `json:"f"`
	Emb  SpecEmb       `json:"emb"`
	Box  [4]Side       `json:"box"`
	IBox [4]Side       `json:"ibox"`
}

var sideName = [4]string{"x0", "y0", "x1", "y1"}

func abs(x int) int {
	if x < 0 {
		return -x
	}
	return x
}

func rectSides(r canvas.Rect) [4]float64 { return [4]float64{r.X0, r.Y0, r.X1, r.Y1} }

// mapRect applies the embedding to an axis-aligned box (a relation between two real outputs, no expectation).
func mapRect(e latgeo.Emb, r [4]float64) [4]float64 {
	ax, ay := e.Map(r[0], r[1])
	bx, by := e.Map(r[2], r[3])
	return [4]float64{math.Min(ax, bx), math.Min(ay, by), math.Max(ax, bx), math.Max(ay, by)}
}

// preimageSide: the side of the identity frame that the embedding maps onto side k of the embedded frame.
func preimageSide(e SpecEmb, k int) int {
	axis := k % 2 // 0 = x, 1 = y
	max := k >= 2
	s := e.Sx
	if axis == 1 {
		s = e.Sy
	}
	if s < 0 {
		max = !max
	}
	if e.Swap == 1 {
		axis = 1 - axis
	}
	if max {
		return axis + 2
	}
	return axis
}

type result struct {
	b, fb   [4]float64
	panicB  any
	panicFB any
}

func run(p *canvas.Path) (r result) {
	ok, pm := latgeo.Try(func() { r.b = rectSides(p.Bounds()) })
	if !ok {
		r.panicB = pm
	}
	ok, pm = latgeo.Try(func() { r.fb = rectSides(p.FastBounds()) })
	if !ok {
		r.panicFB = pm
	}
	return
}

func hasNaN(v [4]float64) bool {
	for _, x := range v {
		if math.IsNaN(x) || math.IsInf(x, 0) {
			return true
		}
	}
	return false
}

// boxSize: the larger extent of the exact box (from the printed numbers), at least one lattice unit of the embedding.
func boxSize(box [4]Side, e latgeo.Emb) float64 {
	x0, _ := box[0].V.val()
	y0, _ := box[1].V.val()
	_, x1 := box[2].V.val()
	_, y1 := box[3].V.val()
	return math.Max(math.Max(x1-x0, y1-y0), math.Sqrt(math.Abs(e.Det())))
}

// boundsDev classifies the four sides of an observed Bounds box against the exact box:
// "" = agrees, "not-containing" = the side lies inside the exact box (a point of the path is outside Bounds),
// "not-tight" = the side lies outside the exact box (no point of the path touches it).
func sideDev(k int, obs float64, s Side, tol float64) string {
	if k >= 2 { // max side
		if !s.V.geq(obs, tol) {
			return "not-containing"
		}
		if !s.V.leq(obs, tol) {
			return "not-tight"
		}
		return ""
	}
	if !s.V.leq(obs, tol) {
		return "not-containing"
	}
	if !s.V.geq(obs, tol) {
		return "not-tight"
	}
	return ""
}

func (s *Scenario) chordRx() bool {
	if s.Emb.Swap == 1 {
		return s.F.ChordRxT
	}
	return s.F.ChordRx
}

// exec runs every check of the scenario. skipped: the builder changed the trace (subject of C10).
func exec(s *Scenario) (ms []core.Mismatch, skipped bool, evals int64) {
	e := s.Emb.Emb()
	p := latcurve.Build(s.Path, e, 1)
	if ok, _ := latcurve.Faithful(s.Path, p, e, 1); !ok {
		return nil, true, 0
	}
	seen := map[string]bool{}
	add := func(sig, detail string) {
		if !seen[sig] {
			seen[sig] = true
			ms = append(ms, core.Mismatch{Signature: sig, Detail: detail})
		}
	}
	desc := fmt.Sprintf("path %s (kinds %s) emb=%s built as %s", s.Path.SVG(), s.Path.Kinds(), s.Emb.Name, p.String())
	kinds := "kinds-" + s.Path.Kinds()
	r := run(p)
	if r.panicB != nil {
		add("bounds:panic("+latgeo.PanicClass(r.panicB)+")", fmt.Sprintf("Bounds panics: %v; %s", r.panicB, desc))
	}
	if r.panicFB != nil {
		add("fastbounds:panic("+latgeo.PanicClass(r.panicFB)+")", fmt.Sprintf("FastBounds panics: %v; %s", r.panicFB, desc))
	}
	if r.panicB != nil || r.panicFB != nil {
		return
	}
	size := boxSize(s.Box, e)
	tol := 1e-6 * size
	tolRel := 1e-9 * size
	exact := fmt.Sprintf("exact box x0=%v y0=%v x1=%v y1=%v", s.Box[0].V, s.Box[1].V, s.Box[2].V, s.Box[3].V)
	obsB := fmt.Sprintf("Bounds = (%.9g, %.9g)-(%.9g, %.9g)", r.b[0], r.b[1], r.b[2], r.b[3])
	obsFB := fmt.Sprintf("FastBounds = (%.9g, %.9g)-(%.9g, %.9g)", r.fb[0], r.fb[1], r.fb[2], r.fb[3])

	// (i) Bounds against the exact box
	boundsOK := true
	if hasNaN(r.b) {
		boundsOK = false
		add("bounds:nan+"+kinds, fmt.Sprintf("%s; %s; %s", obsB, exact, desc))
	} else {
		for k := 0; k < 4; k++ {
			evals++
			dev := sideDev(k, r.b[k], s.Box[k], tol)
			if dev == "" {
				continue
			}
			boundsOK = false
			axis := sideName[k][:1]
			feat := kinds
			switch {
			case s.chordRx():
				// the library's arc-centre shortcut fires on this arc: one signature for whatever follows from the centre
				dev, feat = "wrong-centre", "arc-chord-equals-rx"
			case s.F.Rot && dev == "not-containing" && onMissed(k, s.Box[k].On, r.b[k], tol):
				feat = "rotated-arc-extreme-on-arc:" + axis // the extreme point of a rotated arc lies on the arc and outside Bounds
			case s.F.Rot && dev == "not-tight" && offMatch(s.Box[k].Off, r.b[k], tol):
				feat = "rotated-arc-extreme-off-arc:" + axis // the side equals the extreme of a rotated ellipse that is not on the arc
			}
			add("bounds:"+dev+"+"+feat, fmt.Sprintf("side %s: %s; %s; tolerance %.3g; %s", sideName[k], obsB, exact, tol, desc))
		}
	}

	// (ii) FastBounds contains Bounds (relation between two real outputs) and every point of the path
	if hasNaN(r.fb) {
		add("fastbounds:nan+"+kinds, fmt.Sprintf("%s; %s", obsFB, desc))
	} else {
		for k := 0; k < 4; k++ {
			evals += 2
			var dev string
			inner := false // FastBounds side k lies strictly inside Bounds side k
			if k >= 2 {
				inner = r.fb[k] < r.b[k]-tolRel
			} else {
				inner = r.fb[k] > r.b[k]+tolRel
			}
			if inner && !hasNaN(r.b) {
				dev = "not-containing"
			} else if sideDev(k, r.fb[k], s.Box[k], tol) == "not-containing" {
				dev = "not-containing-path"
			}
			if dev == "" {
				continue
			}
			feat := kinds
			switch {
			case s.chordRx():
				dev, feat = "wrong-centre", "arc-chord-equals-rx"
			case s.F.Cubic && k >= 2:
				feat = "cubic:max-side"
			}
			add("fastbounds:"+dev+"+"+feat, fmt.Sprintf("side %s: %s does not contain %s; %s; %s", sideName[k], obsFB, obsB, exact, desc))
		}
	}

	// (iii) equivariance: Bounds(T(p)) = T(Bounds(p)), FastBounds(T(p)) = T(FastBounds(p)) on the two real runs
	if s.Emb.Name != "id" && s.Emb.isometry() {
		p0 := latcurve.Build(s.Path, latgeo.Identity, 1)
		if ok, _ := latcurve.Faithful(s.Path, p0, latgeo.Identity, 1); ok {
			r0 := run(p0)
			if r0.panicB == nil && r0.panicFB == nil {
				size0 := boxSize(s.IBox, latgeo.Identity)
				ok0 := !hasNaN(r0.b)
				for k := 0; k < 4 && ok0; k++ {
					if sideDev(k, r0.b[k], s.IBox[k], 1e-6*size0) != "" {
						ok0 = false
					}
				}
				// Bounds: only when both runs agree with the exact box (otherwise the cause is already reported above /
				// under the identity embedding); the relation then tightens the comparison to 1e-9 and covers bracketed sides
				if boundsOK && ok0 {
					tb := mapRect(e, r0.b)
					for k := 0; k < 4; k++ {
						evals++
						if math.Abs(tb[k]-r.b[k]) > tolRel {
							add("bounds:not-equivariant+"+kinds, fmt.Sprintf("side %s: Bounds of the mapped path = (%.12g, %.12g)-(%.12g, %.12g), mapped Bounds of the path = (%.12g, %.12g)-(%.12g, %.12g); %s", sideName[k], r.b[0], r.b[1], r.b[2], r.b[3], tb[0], tb[1], tb[2], tb[3], desc))
						}
					}
				}
				// the same map applied by the library itself: Path.Transform (translations and reflections only, incl. the
				// reflections in the diagonals; quarter turns and the scale 1/2 are left to the re-built path above). Bounds and FastBounds
				// of the transformed path against the specification's exact box of the image and against the mapped outputs.
				if s.Emb.Swap == 0 || e.Det() < 0 { // Swap = 1 with negative determinant: the reflections in y = x and y = -x
					m := canvas.Matrix{{e.A, e.B, e.E}, {e.C, e.D, e.F}}
					var rt result
					okT, pmT := latgeo.Try(func() { rt = run(p0.Copy().Transform(m)) })
					switch {
					case !okT:
						add("bounds:transform-panic+"+kinds, fmt.Sprintf("Transform panics: %v; %s", pmT, desc))
					case rt.panicB != nil || rt.panicFB != nil:
						add("bounds:panic-after-transform+"+kinds, fmt.Sprintf("Bounds / FastBounds of the transformed path panics: %v %v; %s", rt.panicB, rt.panicFB, desc))
					default:
						for k := 0; k < 4; k++ {
							evals += 2
							if boundsOK && ok0 && (hasNaN(rt.b) || sideDev(k, rt.b[k], s.Box[k], tol) != "" || math.Abs(rt.b[k]-r.b[k]) > tol) {
								add("bounds:not-equivariant-under-transform+"+kinds, fmt.Sprintf("side %s: Bounds of p.Transform(%v) = (%.12g, %.12g)-(%.12g, %.12g), the image of the path has %s (Bounds of the re-built image: (%.12g, %.12g)-(%.12g, %.12g)); %s", sideName[k], m, rt.b[0], rt.b[1], rt.b[2], rt.b[3], exact, r.b[0], r.b[1], r.b[2], r.b[3], desc))
								break
							}
							// FastBounds of the transformed path must still contain the exact box of the image
							if !hasNaN(r.fb) && (hasNaN(rt.fb) || sideDev(k, rt.fb[k], s.Box[k], tol) == "not-containing") && sideDev(k, r.fb[k], s.Box[k], tol) != "not-containing" {
								add("fastbounds:not-containing-after-transform+"+kinds, fmt.Sprintf("side %s: FastBounds of p.Transform(%v) = (%.12g, %.12g)-(%.12g, %.12g) does not contain the image, %s; %s", sideName[k], m, rt.fb[0], rt.fb[1], rt.fb[2], rt.fb[3], exact, desc))
								break
							}
						}
					}
				}
				if !hasNaN(r.fb) && !hasNaN(r0.fb) {
					tf := mapRect(e, r0.fb)
					for k := 0; k < 4; k++ {
						evals++
						if math.Abs(tf[k]-r.fb[k]) <= tolRel {
							continue
						}
						// which run has the smaller box on this side, and is that a max side in its own frame?
						mappedSmaller := r.fb[k] < tf[k]
						if k < 2 {
							mappedSmaller = r.fb[k] > tf[k]
						}
						smallSide := k
						if !mappedSmaller {
							smallSide = preimageSide(s.Emb, k)
						}
						feat := kinds
						switch {
						case s.F.ChordRx || s.F.ChordRxT:
							feat = "arc-chord-equals-rx"
						case s.F.Cubic && smallSide >= 2:
							feat = "cubic:max-side"
						}
						add("fastbounds:not-equivariant+"+feat, fmt.Sprintf("side %s: FastBounds of the mapped path = (%.12g, %.12g)-(%.12g, %.12g), mapped FastBounds of the path = (%.12g, %.12g)-(%.12g, %.12g); %s", sideName[k], r.fb[0], r.fb[1], r.fb[2], r.fb[3], tf[0], tf[1], tf[2], tf[3], desc))
					}
				}
			}
		}
	}
	return
}

// onMissed: some on-arc extreme of a rotated arc lies beyond the observed side.
func onMissed(k int, on []Form, obs, tol float64) bool {
	for _, f := range on {
		if (k >= 2 && !f.geq(obs, tol)) || (k < 2 && !f.leq(obs, tol)) {
			return true
		}
	}
	return false
}

func offMatch(off []Form, obs, tol float64) bool {
	for _, f := range off {
		if f.near(obs, tol) {
			return true
		}
	}
	return false
}

func (Driver) Replay(c *core.Ctx, raw json.RawMessage) []core.Mismatch {
	var s Scenario
	if err := json.Unmarshal(raw, &s); err != nil {
		return []core.Mismatch{{Signature: "machinery", Detail: err.Error()}}
	}
	var ms []core.Mismatch
	kind, msg := latgeo.Guard(60*time.Second, func() { ms, _, _ = exec(&s) })
	if kind != "" {
		return []core.Mismatch{{Signature: kind + "-bounds", Detail: fmt.Sprint(msg)}}
	}
	return ms
}

const invariants = "INVARIANTS BoxContains LoLeHi Touched ArcTwoWays BoxEquivariant MapKeepsArcs\n"

func cfg(n, nc int, mode, kinds, fam string, num, cubK int, mc bool) string {
	s := fmt.Sprintf("SPECIFICATION Spec\nCONSTANTS N = %d\n NC = %d\n Mode = \"%s\"\n Kinds = %s\n Fam = %s\n Num = %d\n CubK = %d\nCHECK_DEADLOCK FALSE\n", n, nc, mode, kinds, fam, num, cubK)
	if mc {
		s += invariants
	}
	return s
}

type runner struct {
	c       *core.Ctx
	paths   int64
	runs    int64
	skipped int64
	nontriv int64
	seen    sync.Map
	mu      sync.Mutex
	feat    map[string]int64
	sampled int32
}

func (r *runner) count(keys ...string) {
	r.mu.Lock()
	for _, k := range keys {
		r.feat[k]++
	}
	r.mu.Unlock()
}

func (r *runner) runGen(mode string, o tlc.Opts) {
	c := r.c
	var embs []SpecEmb
	var hdrMu sync.RWMutex
	ch := make(chan []byte, 1024)
	o.OnLine = func(p []byte) {
		if strings.HasPrefix(string(p), `{"hdr"`) {
			var l Line
			if err := json.Unmarshal(p, &l); err != nil || !l.Hdr {
				c.Broken("bad header line")
				return
			}
			hdrMu.Lock()
			embs = l.Embs
			hdrMu.Unlock()
			return
		}
		ch <- append([]byte(nil), p...)
	}
	done := make(chan struct{})
	go func() {
		core.Parallel(4, ch, func(p []byte) {
			var l Line
			if err := json.Unmarshal(p, &l); err != nil {
				c.Broken("bad scenario line: " + err.Error())
				return
			}
			hdrMu.RLock()
			es := embs
			hdrMu.RUnlock()
			if len(l.Box) != len(es) || len(es) == 0 || es[0].Name != "id" {
				c.Broken(fmt.Sprintf("scenario with %d boxes, header has %d embeddings", len(l.Box), len(es)))
				return
			}
			k := atomic.AddInt64(&r.paths, 1)
			key := l.Path.SVG()
			if l.F.Nontriv {
				if _, dup := r.seen.LoadOrStore(key, true); !dup {
					atomic.AddInt64(&r.nontriv, 1)
				}
			}
			fk := []string{"mode-" + mode}
			for name, on := range map[string]bool{"ArcRotated": l.F.Rot, "ArcByChord": l.F.Chord, "ArcChordEqualsRx": l.F.ChordRx || l.F.ChordRxT,
				"ExtremumAtArcEnd": l.F.EndExt, "HasCubic": l.F.Cubic, "HasQuad": l.F.Quad, "HasArc": l.F.Arc, "MultiSub": l.F.Multi, "CurveExtremumMatters": l.F.Nontriv} {
				if on {
					fk = append(fk, name)
				}
			}
			for _, sd := range l.Box[0] {
				if sd.V[0] == 1 {
					fk = append(fk, "side-irrational")
				} else if sd.V[1]*sd.V[4] != sd.V[3]*sd.V[2] {
					fk = append(fk, "side-bracketed")
				}
			}
			r.count(fk...)
			kind, msg := latgeo.Guard(120*time.Second, func() {
				for i, se := range es {
					s := &Scenario{Path: l.Path, F: l.F, Emb: se, Box: l.Box[i], IBox: l.Box[0]}
					ms, skipped, evals := exec(s)
					if skipped {
						atomic.AddInt64(&r.skipped, 1)
						continue
					}
					atomic.AddInt64(&r.runs, 1)
					c.Count(evals, 0, 1)
					for j := range ms {
						c.Report(s, ms[j:j+1])
					}
				}
			})
			if kind != "" {
				s := &Scenario{Path: l.Path, F: l.F, Emb: es[0], Box: l.Box[0], IBox: l.Box[0]}
				c.Report(s, []core.Mismatch{{Signature: kind + "-bounds", Detail: fmt.Sprintf("%v; path %s", msg, key)}})
			}
			if k%97 == 5 && l.F.Nontriv && atomic.AddInt32(&r.sampled, 1) <= 6 {
				c.Sample(map[string]any{"path": key, "mode": mode, "exact_box_x0_y0_x1_y1": []string{l.Box[0][0].V.String(), l.Box[0][1].V.String(), l.Box[0][2].V.String(), l.Box[0][3].V.String()}})
			}
		})
		close(done)
	}()
	c.TLC(o, true)
	close(ch)
	<-done
}

func (d Driver) Run(c *core.Ctx) error {
	c.Rule = "scenario = lattice curve path printed by spec/Bounds.tla with its exact bounding box (per side a rational, a rational bracket for cubic extrema, or a/b + s*sqrt(c/d) for rotated ellipses and chord arcs) for the path and for its image under 10 embeddings (identity, flips, transposition, quarter/half turns, dyadic translation, flip+shift, scale 1/2); families: ALL quadratics with control data on a lattice, ALL arcs (every ordered pair of lattice points, both sweeps, both large flags on half ellipses) of 12 integer ellipse families (circles, axis-parallel, rotated by atan(3/4), eccentric), ALL arcs given by an axis-parallel chord of integer length with integer radii (incl. chord = rx and radii too small), random cubics, random mixed contours (1-2 sub-paths); evaluations = side comparisons of Bounds / FastBounds against the exact box, of FastBounds against Bounds and of the boxes of the mapped path against the mapped boxes; non-trivial = distinct paths whose exact box differs from the box of their vertices (a curve extremum matters)"
	c.Assumptions = []string{
		"paths are built through the public builder (MoveTo/LineTo/QuadTo/CubeTo/ArcTo/Close); scenarios whose trace the builder changes (C10) are skipped and counted in builder_normalised",
		"Bounds sides are compared with tolerance 1e-6 of the box size (the function is documented as exact; float rounding only); cubic extrema against the spec's bracket (dyadic points below, sub-hull control points above, depth CubK: width ~1e-4 lattice units); FastBounds against Bounds and the equivariance relations with 1e-9",
		"Bounds equivariance is compared only when both runs agree with the exact box (otherwise the side deviation itself is the report); FastBounds equivariance always",
		"irrational sides are compared in the squared form (obs - a/b -+ tol)^2 <=> c/d with the printed integers",
	}
	r := &runner{c: c, feat: map[string]int64{}}
	type job struct {
		mode string
		o    tlc.Opts
	}
	var jobs []job
	gen := func(n, nc int, mode, kinds, fam string, num, cubK int, mc bool, seedOff int64) {
		jobs = append(jobs, job{mode, tlc.Opts{Module: "Bounds", Config: cfg(n, nc, mode, kinds, fam, num, cubK, mc), Seed: c.Seed + seedOff,
			Workers: 3, HeapGB: 3, Timeout: 30 * time.Minute}}) // no -coverage: the spec has the single action Emit (taken once per scenario) and coverage mode makes the recursive operators >50x slower
	}
	allFam := "{1,2,3,4,5,6,7,8,9,10,11,12,13,14,15,16}" // Bounds!XFams: 13-16 = rotated ellipses with eight lattice points
	small := "{1,2,3,4,5,10,11}"                         // CurveGen families that fit the lattice 0..10
	all := `{"L","Q","C","A"}`
	// runs with mc = true check the model-level invariants (box contains all way-points and dyadic points, lo <= hi,
	// exact sides are attained, two independent on-arc decisions agree, the spec's box is equivariant under the lattice
	// symmetries incl. the mirror image of the rotated ellipse frame) on exactly the scenarios they print
	if c.Thorough() {
		gen(5, 1, "quads", `{"Q"}`, "{1}", 0, 7, false, 0) // all 46 650 quadratics on 6x6
		gen(3, 1, "quads", `{"Q"}`, "{1}", 0, 7, true, 0)
		gen(4, 1, "arcs", `{"A"}`, allFam, 0, 7, true, 0)
		gen(5, 1, "chords", `{"A"}`, "{1}", 0, 7, true, 0)
		gen(6, 1, "cubics", `{"C"}`, "{1}", 60000, 7, false, 1)
		gen(10, 1, "cubics", `{"C"}`, "{1}", 60000, 7, false, 2)
		gen(3, 1, "cubics", `{"C"}`, "{1}", 30000, 7, false, 3)
		gen(8, 1, "cubics", `{"C"}`, "{1}", 60000, 7, false, 13)
		gen(4, 1, "cubics", `{"C"}`, "{1}", 60000, 7, false, 14)
		gen(6, 1, "cubics", `{"C"}`, "{1}", 4000, 7, true, 4)
		gen(10, 2, "curves", all, small, 1500, 7, true, 5)
		gen(10, 2, "curves", all, small, 25000, 7, false, 6)
		gen(10, 1, "curves", `{"L","A","Q"}`, small, 15000, 7, false, 7)
		gen(20, 2, "curves", all, "{1,2,3,4,5,6,7,8,9,10,11}", 10000, 6, false, 8)
		gen(40, 2, "rotmix", all, small, 1000, 6, true, 9)
		gen(40, 2, "rotmix", all, small, 25000, 6, false, 10)
		gen(40, 2, "rotmix", `{"L","A"}`, small, 10000, 6, false, 11)
		gen(30, 1, "curves", `{"L","A","C"}`, "{12}", 3000, 6, false, 12)
	} else {
		gen(3, 1, "quads", `{"Q"}`, "{1}", 0, 7, false, 0) // all 4 080 quadratics on 4x4
		gen(2, 1, "quads", `{"Q"}`, "{1}", 0, 7, true, 0)
		gen(4, 1, "arcs", `{"A"}`, allFam, 0, 7, false, 0)
		gen(4, 1, "arcs", `{"A"}`, "{2,4,5,9,13,16}", 0, 7, true, 0)
		gen(4, 1, "chords", `{"A"}`, "{1}", 0, 7, true, 0)
		gen(6, 1, "cubics", `{"C"}`, "{1}", 6000, 7, false, 1)
		gen(6, 1, "cubics", `{"C"}`, "{1}", 500, 7, true, 4)
		gen(10, 2, "curves", all, small, 200, 7, true, 5)
		gen(10, 2, "curves", all, small, 2500, 7, false, 6)
		gen(40, 2, "rotmix", all, small, 100, 6, true, 9)
		gen(40, 2, "rotmix", all, small, 1500, 6, false, 10)
		gen(20, 1, "curves", `{"L","A","Q"}`, "{6,7,8,9}", 500, 6, false, 8)
	}
	sem := make(chan struct{}, 5)
	var wg sync.WaitGroup
	for _, j := range jobs {
		wg.Add(1)
		sem <- struct{}{}
		go func(j job) {
			defer wg.Done()
			r.runGen(j.mode, j.o)
			<-sem
		}(j)
	}
	wg.Wait()
	c.Count(0, r.nontriv, 0)
	c.SetExtra("paths", r.paths)
	c.SetExtra("path_embedding_runs", r.runs)
	c.SetExtra("builder_normalised", r.skipped)
	keys := make([]string, 0, len(r.feat))
	for k := range r.feat {
		keys = append(keys, k)
	}
	sort.Strings(keys)
	fc := map[string]int64{}
	for _, k := range keys {
		fc[k] = r.feat[k]
	}
	c.SetExtra("paths_by_feature", fc)
	if r.paths == 0 {
		c.Broken("no scenarios were generated")
	}
	return nil
}
