// Package c03: Flatten, ReplaceArcs and XMonotone approximate every curve within the stated tolerance
// (spec/Curves.tla, spec/Trace_Curves.tla).
//
// spec -> code: TLC enumerates exact curves (lattice quads and cubics with every degenerate control polygon, circle and
// ellipse arcs between integer points of the radius-65 circle, the arc family of finding #21) with their feature
// predicates. The harness executes Path.Flatten at three tolerances, Path.ReplaceArcs and Path.XMonotone on each under
// similarity embeddings and logs the returned geometry, mapped back and quantised.
// code -> spec: Trace_Curves.tla judges every logged output against the way-points, gaps and radii the specification
// computes exactly: (S) structure, (W) way-points near the polyline in order, (V) vertices near the curve in order,
// annulus for circles/ellipses, x-monotonicity.
package c03

import (
	"bytes"
	"encoding/json"
	"fmt"
	"math"
	"os"
	"strings"
	"sync"
	"sync/atomic"
	"time"

	"github.com/tdewolff/canvas"

	"verif/harness/internal/core"
	"verif/harness/internal/latgeo"
	"verif/harness/internal/oracle"
	"verif/harness/internal/tlc"
)

type Driver struct{}

func (Driver) ID() string { return "C03" }

// Curve as printed by Curves!Scenario.
type Curve struct {
	Type  string   `json:"type"`
	Pts   [][2]int `json:"pts,omitempty"`
	CA    [][2]int `json:"ca,omitempty"` // chain: control points of curve A
	CB    [][2]int `json:"cb,omitempty"` // chain: control points of curve B (a straight line joins A's end to B's start)
	Shape string   `json:"shape,omitempty"`
	A     int      `json:"a"`
	N     int      `json:"n"`
	CCW   bool     `json:"ccw"`
}

type ArcGeom struct {
	S     [2]int `json:"s"`
	E     [2]int `json:"e"`
	Rx    int    `json:"rx"`
	Ry    int    `json:"ry"`
	Rot   int    `json:"rot"`
	Large bool   `json:"large"`
	Sweep bool   `json:"sweep"`
}

// Scenario is the replay unit: one curve, one call.
type Scenario struct {
	Cv     Curve           `json:"cv"`
	F      map[string]bool `json:"f"`
	G      *ArcGeom        `json:"g,omitempty"`
	Op     string          `json:"op"` // flatten | replacearcs | xmonotone
	Closed bool            `json:"closed"`
	Pre    bool            `json:"pre"`
	Post   bool            `json:"post"` // a closed triangle sub-path follows the sub-path of the curve
	// Via (degrees, circle arcs only): the path is first built as the 2:1 ellipse with that rotation of which the circle is the
	// image under an anisotropic scaling, then mapped onto the circle by Path.Transform; the call is made on the result
	Via int `json:"via,omitempty"`
	// Sc (Beziers): decimal exponents e of the small-scale embeddings x 10^-e listed by Curves!ScaleExps
	Sc  []int      `json:"sc,omitempty"`
	Tn  int        `json:"tn"`
	Td  int        `json:"td"`
	Emb latgeo.Emb `json:"emb"`
}

// Event is one line of trace_curves.ndjson.
type Event struct {
	Op     string     `json:"op"`
	Cv     Curve      `json:"cv"`
	Closed bool       `json:"closed"`
	Pre    bool       `json:"pre"`
	Post   bool       `json:"post"`
	Tn     int        `json:"tn"`
	Td     int        `json:"td"`
	Out    [][][2]int `json:"out"`
	Cls    []bool     `json:"cls"`
	Ok     bool       `json:"ok"`
	Xs     [][]int    `json:"xs"`
	Sq     []int      `json:"sq"` // ceil(length) of every segment of the last output sub-path (certificate, checked by the spec)
}

func (s *Scenario) q() int {
	if s.Cv.Type == "chain" || s.Cv.Type == "bigcubic" {
		return 16
	}
	if s.Cv.Type != "arc" {
		return 1024
	}
	if s.Cv.Shape == "circle" || s.Cv.Shape == "chordrx" {
		return 32
	}
	return 16
}

// postTri: the closed triangle that follows the curve's sub-path in the "post" variant (spec PostTri), lattice units.
func (s *Scenario) postTri() [3][2]int {
	T, u := 200, 10
	if s.Cv.Type == "quad" || s.Cv.Type == "cubic" {
		T, u = 5, 1
	}
	return [3][2]int{{T, 0}, {T + u, 0}, {T + u, u}}
}

func (s *Scenario) describe() string {
	var b strings.Builder
	if s.Pre {
		b.WriteString("M0 0L3 2")
	}
	switch s.Cv.Type {
	case "quad":
		p := s.Cv.Pts
		fmt.Fprintf(&b, "M%d %dQ%d %d %d %d", p[0][0], p[0][1], p[1][0], p[1][1], p[2][0], p[2][1])
	case "cubic", "bigcubic":
		p := s.Cv.Pts
		fmt.Fprintf(&b, "M%d %dC%d %d %d %d %d %d", p[0][0], p[0][1], p[1][0], p[1][1], p[2][0], p[2][1], p[3][0], p[3][1])
	case "chain":
		bez := func(c [][2]int) {
			if len(c) == 3 {
				fmt.Fprintf(&b, "Q%d %d %d %d", c[1][0], c[1][1], c[2][0], c[2][1])
			} else {
				fmt.Fprintf(&b, "C%d %d %d %d %d %d", c[1][0], c[1][1], c[2][0], c[2][1], c[3][0], c[3][1])
			}
		}
		fmt.Fprintf(&b, "M%d %d", s.Cv.CA[0][0], s.Cv.CA[0][1])
		bez(s.Cv.CA)
		fmt.Fprintf(&b, "L%d %d", s.Cv.CB[0][0], s.Cv.CB[0][1])
		bez(s.Cv.CB)
	case "arc":
		g := s.G
		l, w := 0, 0
		if g.Large {
			l = 1
		}
		if g.Sweep {
			w = 1
		}
		fmt.Fprintf(&b, "M%d %dA%d %d %d %d %d %d %d", g.S[0], g.S[1], g.Rx, g.Ry, g.Rot, l, w, g.E[0], g.E[1])
	}
	if s.Closed {
		b.WriteString("z")
	}
	if s.Post {
		t := s.postTri()
		fmt.Fprintf(&b, "M%d %dL%d %dL%d %dz", t[0][0], t[0][1], t[1][0], t[1][1], t[2][0], t[2][1])
	}
	if s.Via != 0 {
		return fmt.Sprintf("[built as the ellipse rx=2r, ry=r rotated by %d degrees and mapped onto this path by Transform] %s .%s(t=%d/%d)", s.Via, b.String(), s.Op, s.Tn, s.Td)
	}
	return fmt.Sprintf("%s .%s(t=%d/%d) emb=%s", b.String(), s.Op, s.Tn, s.Td, s.Emb.Name)
}

func (s *Scenario) build() *canvas.Path {
	e := s.Emb
	p := &canvas.Path{}
	m := func(v [2]int) (float64, float64) { return e.Map(float64(v[0]), float64(v[1])) }
	if s.Pre {
		p.MoveTo(m([2]int{0, 0}))
		p.LineTo(m([2]int{3, 2}))
	}
	scale := math.Sqrt(math.Abs(e.Det()))
	switch s.Cv.Type {
	case "quad":
		c := s.Cv.Pts
		p.MoveTo(m(c[0]))
		x1, y1 := m(c[1])
		x2, y2 := m(c[2])
		p.QuadTo(x1, y1, x2, y2)
	case "cubic", "bigcubic":
		c := s.Cv.Pts
		p.MoveTo(m(c[0]))
		x1, y1 := m(c[1])
		x2, y2 := m(c[2])
		x3, y3 := m(c[3])
		p.CubeTo(x1, y1, x2, y2, x3, y3)
	case "chain":
		bez := func(c [][2]int) {
			x1, y1 := m(c[1])
			x2, y2 := m(c[2])
			if len(c) == 3 {
				p.QuadTo(x1, y1, x2, y2)
			} else {
				x3, y3 := m(c[3])
				p.CubeTo(x1, y1, x2, y2, x3, y3)
			}
		}
		p.MoveTo(m(s.Cv.CA[0]))
		bez(s.Cv.CA)
		p.LineTo(m(s.Cv.CB[0]))
		bez(s.Cv.CB)
	case "arc":
		g := s.G
		p.MoveTo(m(g.S))
		x, y := m(g.E)
		sweep := g.Sweep
		if e.Det() < 0 {
			sweep = !sweep
		}
		ang := math.Atan2(e.C, e.A) * 180 / math.Pi
		rot := float64(g.Rot)
		if e.Det() < 0 {
			rot = -rot
		}
		p.ArcTo(float64(g.Rx)*scale, float64(g.Ry)*scale, rot+ang, g.Large, sweep, x, y)
	}
	if s.Closed {
		p.Close()
	}
	if s.Post {
		t := s.postTri()
		p.MoveTo(m(t[0]))
		p.LineTo(m(t[1]))
		p.LineTo(m(t[2]))
		p.Close()
	}
	return p
}

// buildVia: the circle-arc path obtained through a history of two calls: build the pre-image under the anisotropic map
// A = R(via) diag(2,1) R(-via) (an ellipse arc with rx = 2r, ry = r, rotation via), then Path.Transform(A^-1).
func (s *Scenario) buildVia() *canvas.Path {
	th := float64(s.Via) * math.Pi / 180
	sn, cs := math.Sincos(th)
	a := latgeo.Emb{Name: "via", A: 2*cs*cs + sn*sn, B: cs * sn, C: cs * sn, D: 2*sn*sn + cs*cs}
	m := func(v [2]int) (float64, float64) { return a.Map(float64(v[0]), float64(v[1])) }
	p := &canvas.Path{}
	if s.Pre {
		p.MoveTo(m([2]int{0, 0}))
		p.LineTo(m([2]int{3, 2}))
	}
	g := s.G
	p.MoveTo(m(g.S))
	x, y := m(g.E)
	p.ArcTo(2*float64(g.Rx), float64(g.Ry), float64(s.Via), g.Large, g.Sweep, x, y)
	if s.Closed {
		p.Close()
	}
	if s.Post {
		t := s.postTri()
		p.MoveTo(m(t[0]))
		p.LineTo(m(t[1]))
		p.LineTo(m(t[2]))
		p.Close()
	}
	return p.Transform(canvas.Matrix{{0.5*cs*cs + sn*sn, -0.5 * cs * sn, 0}, {-0.5 * cs * sn, 0.5*sn*sn + cs*cs, 0}})
}

// inverse embedding
func inv(e latgeo.Emb) func(x, y float64) (float64, float64) {
	d := e.Det()
	return func(x, y float64) (float64, float64) {
		x, y = x-e.E, y-e.F
		return (e.D*x - e.B*y) / d, (-e.C*x + e.A*y) / d
	}
}

// observe executes the call and logs the result. bad != "" : the result cannot even be logged (panic etc.).
func observe(s *Scenario, guard bool) (ev Event, kind string, msg any) {
	scale := math.Sqrt(math.Abs(s.Emb.Det()))
	var r *canvas.Path
	call := func() {
		p := s.build()
		if s.Via != 0 {
			p = s.buildVia()
		}
		switch s.Op {
		case "flatten":
			r = p.Flatten(float64(s.Tn) / float64(s.Td) * scale)
		case "replacearcs":
			r = p.ReplaceArcs()
		case "xmonotone":
			r = p.XMonotone()
		}
	}
	if guard {
		kind, msg = latgeo.Guard(20*time.Second, call)
	} else if ok, m := latgeo.Try(call); !ok {
		kind, msg = "panic", m
	}
	if kind != "" {
		return
	}
	ev = Event{Op: s.Op, Cv: s.Cv, Closed: s.Closed, Pre: s.Pre, Post: s.Post, Tn: s.Tn, Td: s.Td, Ok: true, Out: [][][2]int{}, Cls: []bool{}, Xs: [][]int{}}
	segs, err := oracle.Decode(r.Data())
	if err != nil {
		return ev, "undecodable", err.Error()
	}
	back := inv(s.Emb)
	q := float64(s.q())
	quant := func(p oracle.Pt) [2]int {
		x, y := back(p.X, p.Y)
		return [2]int{int(math.Round(x * q)), int(math.Round(y * q))}
	}
	for _, g := range segs {
		switch g.Cmd {
		case oracle.CmdMove:
			ev.Out = append(ev.Out, [][2]int{quant(g.End)})
			ev.Cls = append(ev.Cls, false)
			continue
		case oracle.CmdLine, oracle.CmdClose:
		case oracle.CmdArc:
			if s.Op != "xmonotone" {
				ev.Ok = false
			}
		default:
			if s.Op == "flatten" {
				ev.Ok = false
			}
		}
		if len(ev.Out) == 0 {
			ev.Ok = false
			ev.Out = append(ev.Out, [][2]int{quant(g.Start)})
			ev.Cls = append(ev.Cls, false)
		}
		k := len(ev.Out) - 1
		n := 1
		if g.Cmd != oracle.CmdLine && g.Cmd != oracle.CmdClose {
			n = 64
			if s.Op == "xmonotone" { // x along the segment, in the frame of the call (x-monotonicity is not rotation invariant)
				xs := make([]int, 0, 17)
				for i := 0; i <= 16; i++ {
					xs = append(xs, int(math.Round(g.At(float64(i)/16).X/scale*q)))
				}
				ev.Xs = append(ev.Xs, xs)
			}
		}
		pl := g.Polyline(n)
		for _, pt := range pl[1:] {
			ev.Out[k] = append(ev.Out[k], quant(pt))
		}
		if g.Cmd == oracle.CmdClose {
			ev.Cls[k] = true
			// Polyline of a Close ends on the start point: the closing point is logged
		}
	}
	// drop repeated points (zero-length pieces after quantisation) except the closing one
	for k := range ev.Out {
		pl := ev.Out[k][:1]
		for i := 1; i < len(ev.Out[k]); i++ {
			if ev.Out[k][i] != pl[len(pl)-1] || (ev.Cls[k] && i == len(ev.Out[k])-1) {
				pl = append(pl, ev.Out[k][i])
			}
		}
		ev.Out[k] = pl
	}
	ev.Sq = []int{}
	ci := 0 // index of the curve's sub-path
	if s.Pre {
		ci = 1
	}
	if ci < len(ev.Out) {
		pl := ev.Out[ci]
		for i := 0; i+1 < len(pl); i++ {
			dx, dy := float64(pl[i+1][0]-pl[i][0]), float64(pl[i+1][1]-pl[i][1])
			l2 := dx*dx + dy*dy
			q := int(math.Ceil(math.Sqrt(l2)))
			for float64(q)*float64(q) < l2 {
				q++
			}
			for q > 0 && float64(q-1)*float64(q-1) >= l2 {
				q--
			}
			ev.Sq = append(ev.Sq, q)
		}
	}
	return
}

type verdict struct {
	L     int      `json:"l"`
	Why   []string `json:"why"`
	Rw    int      `json:"rw"`
	Rv    int      `json:"rv"`
	Wfail int      `json:"wfail"`
}

func tcfg() string {
	return "SPECIFICATION TSpec\nCONSTANTS Fam = \"quad\"\n N = 3\n Num = 0\nCHECK_DEADLOCK FALSE\n"
}

// judge lets Trace_Curves.tla judge the events.
func judge(c *core.Ctx, evs []Event, workers int) ([]verdict, bool) {
	if len(evs) == 0 {
		return nil, true
	}
	var buf bytes.Buffer
	enc := json.NewEncoder(&buf)
	for i := range evs {
		if evs[i].Cv.Pts == nil {
			evs[i].Cv.Pts = [][2]int{}
		}
		if evs[i].Cv.Type == "chain" && len(evs[i].Cv.CA) == 0 {
			c.Broken("chain event without control points")
		}
		enc.Encode(evs[i])
	}
	res := c.TLC(tlc.Opts{Module: "Trace_Curves", Workers: workers, Files: map[string][]byte{"trace_curves.ndjson": buf.Bytes()}, Config: tcfg(), Timeout: 30 * time.Minute}, true)
	if !res.OK {
		return nil, false
	}
	if res.Distinct != 2*int64(len(evs)) {
		c.Broken(fmt.Sprintf("Trace_Curves judged %d states for %d events", res.Distinct, len(evs)))
		return nil, false
	}
	var vs []verdict
	for _, p := range res.Lines {
		var v verdict
		if err := json.Unmarshal(p, &v); err != nil {
			c.Broken("bad verdict line: " + err.Error())
			return nil, false
		}
		vs = append(vs, v)
	}
	return vs, true
}

// featureTag: curve type + the scenario feature the specification computed (exact predicates of Curves.tla).
func featureTag(s *Scenario) string {
	t := s.Cv.Type
	switch {
	case s.F["chordrx"]:
		t += "+chord-equals-rx"
	case s.F["fold"] && s.F["collinear"]:
		t += "+fold+collinear"
	case s.F["fold"]:
		t += "+fold"
	case s.F["collinear"]:
		t += "+collinear"
	}
	return t
}

func variantTag(s *Scenario) string {
	t := ""
	if s.F["startend"] {
		t += "+start=end"
	}
	if s.Closed {
		t += "+closed"
	}
	if s.Pre {
		t += "+second-subpath"
	}
	if s.Post {
		t += "+followed-by-closed-subpath"
	}
	return t
}

func mismatches(s *Scenario, v verdict, ev *Event) []core.Mismatch {
	var ms []core.Mismatch
	for _, w := range v.Why {
		det := fmt.Sprintf("%s: clause (%s) violated: way-point radius %d, vertex radius %d (1/%d units)", s.describe(), w, v.Rw, v.Rv, s.q())
		if w == "waypoint" {
			det += fmt.Sprintf("; first way-point that is not near the polyline in order: #%d", v.Wfail)
		}
		if ci := min(boolInt(s.Pre), len(ev.Out)-1); ci >= 0 {
			det += fmt.Sprintf("; output has %d sub-paths, sub-path %d has %d vertices: %v", len(ev.Out), ci+1, len(ev.Out[ci]), truncPts(ev.Out[ci]))
			if s.Post && len(ev.Out) > ci+1 {
				det += fmt.Sprintf("; following sub-path: %v", truncPts(ev.Out[len(ev.Out)-1]))
			}
		}
		sig := s.Op + "-" + w + ":" + featureTag(s)
		if w == "structure" && s.F["startend"] {
			sig += "+start=end"
		}
		if w == "mono" && s.Op == "xmonotone" && s.Emb.B == 0 && s.Emb.A > 0 && s.Emb.A < 5e-4 {
			// scale dimension (Curves!ScaleExps): a class of its own, so that the same clause at ordinary scales stays reported
			sig += "+small-scale"
		}
		ms = append(ms, core.Mismatch{Signature: sig, Detail: det})
	}
	return ms
}

func boolInt(b bool) int {
	if b {
		return 1
	}
	return 0
}

func truncPts(p [][2]int) string {
	s := fmt.Sprint(p)
	if len(s) > 260 {
		return s[:260] + "..."
	}
	return s
}

func panicMismatch(s *Scenario, kind string, msg any) core.Mismatch {
	cls := latgeo.PanicClass(msg)
	if strings.Contains(cls, "index_out_of_range") {
		cls = "index-out-of-range"
	}
	return core.Mismatch{Signature: kind + "-" + s.Op + ":" + cls + variantTag(s), Detail: fmt.Sprintf("%s: %v", s.describe(), msg)}
}

func (Driver) Replay(c *core.Ctx, raw json.RawMessage) []core.Mismatch {
	var s Scenario
	if err := json.Unmarshal(raw, &s); err != nil {
		return []core.Mismatch{{Signature: "machinery", Detail: err.Error()}}
	}
	ev, kind, msg := observe(&s, true)
	if kind != "" {
		return []core.Mismatch{panicMismatch(&s, kind, msg)}
	}
	vs, ok := judge(c, []Event{ev}, 1)
	if !ok {
		return []core.Mismatch{{Signature: "machinery", Detail: "Trace_Curves could not judge the call"}}
	}
	var ms []core.Mismatch
	for _, v := range vs {
		ms = append(ms, mismatches(&s, v, &ev)...)
	}
	return ms
}

func cfg(fam string, n, num int) string {
	return fmt.Sprintf("SPECIFICATION Spec\nCONSTANTS Fam = \"%s\"\n N = %d\n Num = %d\nINVARIANT CurveLaws\nCHECK_DEADLOCK FALSE\n", fam, n, num)
}

var rotEmbs = []latgeo.Emb{latgeo.Symmetries[1], latgeo.Translate, latgeo.Huge, latgeo.Pyth, latgeo.Rot17, latgeo.Symmetries[4], {Name: "scale0.25", A: 0.25, D: 0.25}}
var tinyEmb = latgeo.Emb{Name: "scale1e-3", A: 1e-3, D: 1e-3}
var xEmbs = []latgeo.Emb{latgeo.Translate, latgeo.Huge, {Name: "scale0.25", A: 0.25, D: 0.25}}

func hash(s string) uint32 {
	h := uint32(2166136261)
	for i := 0; i < len(s); i++ {
		h = (h ^ uint32(s[i])) * 16777619
	}
	return h >> 1
}

type item struct {
	s  *Scenario
	ev Event
}

func (d Driver) Run(c *core.Ctx) error {
	c.Rule = "scenario = exact curve printed by spec/Curves.tla (every quadratic Bezier with control points on the 4x4 lattice, RandomSubset of cubics, arcs of the radius-65 circle / 2:1 ellipse (rotation 0, 90) between integer points with both sweep directions, the chord-equals-rx arcs, the 30 chains [near-straight curve A][line][curve B] in one sub-path) x variant (open / closed by z, preceded by a straight sub-path or not, followed by a closed triangle sub-path or not) x call (Flatten at t0, t0/4, t0/16; ReplaceArcs; XMonotone) x similarity embedding; every logged output is judged by spec/Trace_Curves.tla (structure, way-points within 6t of the polyline in order, vertices within 1.5t + gap of the curve in order, annulus for arcs, x-monotone pieces); evaluations = real calls; non-trivial = distinct (curve, variant, call) whose output has at least 3 vertices"
	c.Assumptions = []string{
		"t0 = 1/10 lattice unit for Beziers (lattice 0..3), 13/10 for arcs of radius 65; outputs are mapped back through the embedding and quantised at Q = 1024 (Beziers), 32 (circle), 16 (ellipse) per unit; every radius carries +2 quantisation slack",
		"c = 4 for way-points and 1.5 for vertices are the calibrated constants of DESIGN section 5 C03",
		"between way-points the curve is only bracketed (gap = exact bound of curve-to-chord distance): deviations below gap + slack are not seen",
		"XMonotone is executed only under embeddings that keep the x direction (translation, scaling)"}
	var mu sync.Mutex
	var items []item
	var nScen, nCalls int64
	collect := func(fam string, o tlc.Opts) {
		ch := make(chan []byte, 4096)
		o.OnLine = func(p []byte) { ch <- append([]byte(nil), p...) }
		done := make(chan struct{})
		go func() {
			core.Parallel(8, ch, func(p []byte) {
				var base Scenario
				if err := json.Unmarshal(p, &base); err != nil {
					c.Broken("bad scenario line: " + err.Error())
					return
				}
				k := atomic.AddInt64(&nScen, 1)
				h := hash(string(p))
				if k%700 == 1 {
					c.Sample(json.RawMessage(p))
				}
				t0n, tds := 1, []int{10, 40, 160}
				if base.Cv.Type == "arc" {
					t0n = 13
				} else if base.Cv.Type == "chain" {
					t0n, tds = 5, []int{2, 8, 32} // t0 = 5/2 on the 0..150 lattice
				} else if base.Cv.Type == "bigcubic" {
					t0n, tds = 1, []int{2, 5, 10} // coarse tolerances on the 0..100 lattice
				}
				// variant: open / closed / preceded by a line sub-path
				// plus "post" (bit 2): a closed triangle sub-path follows
				variants := []uint32{h % 8}
				if base.Cv.Type == "chain" {
					variants = []uint32{0 + 4*(h%2), 1 + 4*((h/2)%2), 2 + 4*((h/4)%2), 3 + 4*((h/8)%2)} // open, closed, second sub-path, both
				}
				var local []item
				for _, vr := range variants {
					closed, pre, post := vr%4 == 1 || vr%4 == 3, vr%4 >= 2, vr >= 4
					emit := func(op string, tn, td int, e latgeo.Emb) {
						s := base
						s.Op, s.Tn, s.Td, s.Emb, s.Closed, s.Pre, s.Post = op, tn, td, e, closed, pre, post
						atomic.AddInt64(&nCalls, 1)
						ev, kind, msg := observe(&s, false)
						if kind != "" {
							c.Report(&s, []core.Mismatch{panicMismatch(&s, kind, msg)})
							return
						}
						local = append(local, item{&s, ev})
					}
					e1 := rotEmbs[int(h/3)%len(rotEmbs)]
					for _, td := range tds {
						emit("flatten", t0n, td, latgeo.Identity)
					}
					emit("flatten", t0n, tds[int(h/5)%3], e1)
					if c.Thorough() || base.Cv.Type == "chain" {
						emit("flatten", t0n, tds[0], rotEmbs[int(h/11)%len(rotEmbs)])
					}
					if base.Cv.Type == "arc" && (base.Cv.Shape == "ellipse" || base.Cv.Shape == "ellipse90") {
						// tolerances below the package default canvas.Tolerance = 0.01: rx = 0.13, t = 1.3e-3 .. 8e-5
						for _, td := range tds {
							emit("flatten", t0n, td, tinyEmb)
						}
					}
					if len(base.Sc) > 0 {
						// scale dimension (Curves!ScaleExps): clause (T) and XMonotone under x 10^-e; the exponent by hash, so
						// every exponent meets every curve type, feature and variant over the run
						x := base.Sc[int(h/7)%len(base.Sc)]
						se := latgeo.Emb{Name: fmt.Sprintf("scale1e-%d", x), A: math.Pow(10, -float64(x)), D: math.Pow(10, -float64(x))}
						for _, td := range tds {
							emit("flatten", t0n, td, se)
						}
						emit("xmonotone", 0, 1, se)
					}
					if base.Cv.Type == "arc" && base.Cv.Shape == "circle" && h%3 == 0 {
						via := []int{7, 28, 29, 31}[int(h/17)%4]
						emitVia := func(op string, tn, td int) {
							s := base
							s.Op, s.Tn, s.Td, s.Emb, s.Closed, s.Pre, s.Post, s.Via = op, tn, td, latgeo.Identity, closed, pre, post, via
							atomic.AddInt64(&nCalls, 1)
							ev, kind, msg := observe(&s, false)
							if kind != "" {
								c.Report(&s, []core.Mismatch{panicMismatch(&s, kind, msg)})
								return
							}
							local = append(local, item{&s, ev})
						}
						for _, td := range tds {
							emitVia("flatten", t0n, td)
						}
						emitVia("replacearcs", 0, 1)
						emitVia("xmonotone", 0, 1)
					}
					if base.Cv.Type == "arc" {
						emit("replacearcs", 0, 1, latgeo.Identity)
						emit("replacearcs", 0, 1, e1)
					}
					emit("xmonotone", 0, 1, latgeo.Identity)
					emit("xmonotone", 0, 1, xEmbs[int(h/13)%len(xEmbs)])
				}
				mu.Lock()
				items = append(items, local...)
				mu.Unlock()
			})
			close(done)
		}()
		c.TLC(o, true)
		close(ch)
		<-done
	}
	var wg sync.WaitGroup
	stage := func(f func()) {
		wg.Add(1)
		go func() { defer wg.Done(); f() }()
	}
	stage(func() {
		collect("quad", tlc.Opts{Module: "Curves", Config: cfg("quad", 3, c.Pick(350, 2500)), Seed: c.Seed, Workers: 2})
	})
	stage(func() {
		collect("cubic", tlc.Opts{Module: "Curves", Config: cfg("cubic", 3, c.Pick(400, 2000)), Seed: c.Seed + 1, Workers: 2})
	})
	stage(func() { collect("cubic1i", tlc.Opts{Module: "Curves", Config: cfg("cubic1i", 3, 0), Workers: 2}) })
	stage(func() { collect("chain", tlc.Opts{Module: "Curves", Config: cfg("chain", 3, 0), Workers: 2}) })
	stage(func() {
		collect("arc", tlc.Opts{Module: "Curves", Config: cfg("arc", 3, c.Pick(150, 1000)), Seed: c.Seed + 2, Workers: 2})
	})
	wg.Wait()
	c.Count(nCalls, 0, 0)
	c.SetExtra("tlc_scenarios", nScen)

	var dump *os.File // development aid: C03_DUMP=<file> lists every rejected call instead of reporting it
	if f := os.Getenv("C03_DUMP"); f != "" {
		dump, _ = os.Create(f)
		defer dump.Close()
	}
	// judge in chunks (memory of the deserialised trace), each chunk with parallel workers
	chunk := 20000
	var nontriv int64
	seen := map[string]bool{}
	for lo := 0; lo < len(items); lo += chunk {
		hi := min(lo+chunk, len(items))
		evs := make([]Event, hi-lo)
		for i := lo; i < hi; i++ {
			evs[i-lo] = items[i].ev
		}
		vs, ok := judge(c, evs, 10)
		if !ok {
			return nil
		}
		wrong := map[int]bool{}
		for _, v := range vs {
			it := items[lo+v.L-1]
			wrong[v.L] = true
			if dump != nil {
				b, _ := json.Marshal(map[string]any{"s": it.s, "why": v.Why})
				fmt.Fprintln(dump, string(b))
				continue
			}
			c.Report(it.s, mismatches(it.s, v, &it.ev))
		}
		for i := lo; i < hi; i++ {
			if wrong[i-lo+1] {
				continue
			}
			c.Count(0, 0, 1)
			it := items[i]
			if len(it.ev.Out) > 0 && len(it.ev.Out[len(it.ev.Out)-1]) >= 3 {
				key := fmt.Sprintf("%v|%v|%v|%v|%s|%d|%d", it.s.Cv, it.s.Closed, it.s.Pre, it.s.Post, it.s.Op, it.s.Td, it.s.Via)
				if !seen[key] {
					seen[key] = true
					nontriv++
				}
			}
		}
	}
	c.Count(0, nontriv, 0)
	c.SetExtra("events_judged", len(items))
	return nil
}
