// Package c07: Path.Transform maps every point of a path; canvas.Matrix obeys its documented algebra
// (spec/Transform.tla, spec/Trace_Transform.tla).
//
// spec -> code (a): lattice curve paths x exact rational matrices (integer matrices with det != 0, Pythagorean
// rotations): the spec prints the image of every control point, the images of every arc's integer way-points in
// travelling order, and sample points with the winding number the transformed path must have there.
// spec -> code (b): all call histories of the Matrix register machine up to a length with the exact register value
// after every call, det, Dot images, transpose, inverse and the SVG-convention images for ToSVG(h).
// code -> spec: long random matrix-op sequences recorded from the real code, validated by Trace_Transform.tla.
package c07

import (
	"bytes"
	"encoding/json"
	"fmt"
	"math"
	"math/rand"
	"os"
	"regexp"
	"strconv"
	"strings"
	"sync"
	"sync/atomic"
	"time"

	"github.com/tdewolff/canvas"

	"verif/harness/internal/core"
	"verif/harness/internal/latcurve"
	"verif/harness/internal/latgeo"
	"verif/harness/internal/oracle"
	"verif/harness/internal/tlc"
)

type Driver struct{}

func (Driver) ID() string { return "C07" }

// ---- path scenarios ---------------------------------------------------------------------------------------------

type ImgSeg struct {
	K  string   `json:"k"`
	P  [2]int   `json:"p"`
	C1 [2]int   `json:"c1"`
	C2 [2]int   `json:"c2"`
	Wp [][2]int `json:"wp"`
}
type ImgCtr struct {
	S    [2]int   `json:"s"`
	Segs []ImgSeg `json:"segs"`
	Cl   bool     `json:"cl"`
}

// PathScenario is one line of Transform.tla (What = "path") and the replay unit.
type PathScenario struct {
	Kind    string        `json:"kind"` // "path"
	Path    latcurve.Path `json:"path"`
	Mat     [6]int        `json:"mat"`
	Den     int           `json:"den"`
	DetSign int           `json:"detsign"`
	Img     []ImgCtr      `json:"img"`
	Smp     [][3]int      `json:"smp"`  // numX, numY over sden, expected winding number
	Sden    int           `json:"sden"` // denominator of the sample coordinates
	// Scale (0 = 1) is a harness-side embedding: the path and the translation of the matrix are multiplied by it,
	// so that every image of the spec is multiplied by it as well (radii in the hundreds / thousands).
	Scale int `json:"scale,omitempty"`
}

func (s *PathScenario) scale() float64 {
	if s.Scale > 1 {
		return float64(s.Scale)
	}
	return 1
}

func (s *PathScenario) matrix() canvas.Matrix {
	d := float64(s.Den)
	k := s.scale()
	return canvas.Matrix{{float64(s.Mat[0]) / d, float64(s.Mat[1]) / d, k * float64(s.Mat[2]) / d}, {float64(s.Mat[3]) / d, float64(s.Mat[4]) / d, k * float64(s.Mat[5]) / d}}
}

// largeRadii: exact scenario feature of the known finding transform:arc-radius-not-finite+large-radii. Transform
// builds Q = T^-T diag(1/rx^2, 1/ry^2) T^-1 with T = m.Rotate(phi); det Q = 1 / (rx ry det m)^2, and Eigen /
// solveQuadraticFormula take a determinant below the absolute Epsilon = 1e-10 for zero unless Q is diagonal.
// Feature: some arc has (embedded rx) (embedded ry) |det m| > 1e5 and T is not axis-parallel for it.
func (s *PathScenario) largeRadii() bool {
	k := int64(1)
	if s.Scale > 1 {
		k = int64(s.Scale)
	}
	det := int64(s.Mat[0])*int64(s.Mat[4]) - int64(s.Mat[1])*int64(s.Mat[3])
	if det < 0 {
		det = -det
	}
	den2 := int64(s.Den) * int64(s.Den)
	for _, c := range s.Path {
		for _, g := range c.Segs {
			if g.K != "A" {
				continue
			}
			axisParallel := g.Rot == 0 && s.Mat[1] == 0 && s.Mat[3] == 0
			if !axisParallel && int64(g.C2[0])*int64(g.C2[1])*k*k*det > 100000*den2 {
				return true
			}
		}
	}
	return false
}

// matClass is an exact classification of the matrix (integers): used in signatures.
func (s *PathScenario) matClass() string {
	a, b, c, d := s.Mat[0], s.Mat[1], s.Mat[3], s.Mat[4]
	sim := a*b+c*d == 0 && a*a+c*c == b*b+d*d // columns orthogonal and of equal length
	cl := "affine"
	switch {
	case sim && (b == 0 || a == 0):
		cl = "lattice-similarity"
	case sim:
		cl = "rotation"
	case b == 0 && c == 0:
		cl = "aniso-scale"
	}
	if s.DetSign < 0 {
		cl += "+reflect"
	}
	return cl
}

type expSeg struct {
	cmd       float64
	p, c1, c2 oracle.Pt
	wp        []oracle.Pt
	abstract  string
}

func near(a, b oracle.Pt, tol float64) bool {
	return math.Abs(a.X-b.X) <= tol && math.Abs(a.Y-b.Y) <= tol
}

// execPath runs Transform on the real path and compares with the spec's images.
func execPath(s *PathScenario) (ms []core.Mismatch, skipped bool) {
	k := s.scale()
	emb := latgeo.Emb{Name: "scale", A: k, B: 0, C: 0, D: k, E: 0, F: 0}
	p := latcurve.Build(s.Path, emb, 1)
	if ok, _ := latcurve.Faithful(s.Path, p, emb, 1); !ok {
		return nil, true
	}
	m := s.matrix()
	tag := s.matClass() + "/" + s.Path.Kinds()
	desc := fmt.Sprintf("path %s scaled by %g, matrix %v/%d (translation scaled alike)", s.Path.SVG(), k, s.Mat, s.Den)
	var q *canvas.Path
	if ok, pm := latgeo.Try(func() { q = p.Copy().Transform(m) }); !ok {
		return []core.Mismatch{{Signature: "transform:panic(" + latgeo.PanicClass(pm) + ")+" + tag, Detail: fmt.Sprintf("Transform panics: %v; %s", pm, desc)}}, false
	}
	segs, err := oracle.Decode(q.Data())
	if err != nil {
		return []core.Mismatch{{Signature: "transform:undecodable+" + tag, Detail: err.Error() + "; " + desc}}, false
	}
	seen := map[string]bool{}
	add := func(sig, detail string) {
		if !seen[sig] {
			seen[sig] = true
			ms = append(ms, core.Mismatch{Signature: sig, Detail: detail + "; " + desc + "; result " + q.String()})
		}
	}
	for i, r := range segs {
		if r.Cmd == oracle.CmdArc && (math.IsInf(r.Rx, 0) || math.IsInf(r.Ry, 0) || math.IsNaN(r.Rx) || math.IsNaN(r.Ry) || math.IsNaN(r.Phi)) {
			feat := tag
			if s.largeRadii() {
				feat = "large-radii"
			}
			add("transform:arc-radius-not-finite+"+feat, fmt.Sprintf("transformed arc segment %d has radii (%g, %g) and rotation %g", i, r.Rx, r.Ry, r.Phi))
			return ms, false // the geometric checks below are meaningless for this result
		}
	}
	den := float64(s.Den) / k
	pt := func(v [2]int) oracle.Pt { return oracle.Pt{X: float64(v[0]) / den, Y: float64(v[1]) / den} }
	size := 1.0
	grow := func(v [2]int) { size = math.Max(size, math.Max(math.Abs(pt(v).X), math.Abs(pt(v).Y))) }
	for _, c := range s.Img {
		grow(c.S) // start points and way-points count as well (a contour may end near the origin)
		for _, g := range c.Segs {
			grow(g.P)
			for _, w := range g.Wp {
				grow(w)
			}
		}
	}
	tol := 1e-9 * size
	// expected command list (zero-length lines dropped, LineTo back to the start merged into Close as the builder does)
	var exp []expSeg
	for j, c := range s.Img {
		exp = append(exp, expSeg{cmd: oracle.CmdMove, p: pt(c.S)})
		cur := s.Path[j].S
		n0 := len(exp)
		for i, g := range c.Segs {
			ag := s.Path[j].Segs[i]
			if g.K == "L" && ag.P == cur {
				continue
			}
			cur = ag.P
			e := expSeg{p: pt(g.P), c1: pt(g.C1), c2: pt(g.C2), abstract: g.K}
			switch g.K {
			case "L":
				e.cmd = oracle.CmdLine
			case "Q":
				e.cmd = oracle.CmdQuad
			case "C":
				e.cmd = oracle.CmdCube
			case "A":
				e.cmd = oracle.CmdArc
				for _, w := range g.Wp {
					e.wp = append(e.wp, pt(w))
				}
			}
			exp = append(exp, e)
		}
		if c.Cl {
			if len(exp) > n0 && exp[len(exp)-1].cmd == oracle.CmdLine && cur == s.Path[j].S {
				exp[len(exp)-1].cmd = oracle.CmdClose
			} else {
				exp = append(exp, expSeg{cmd: oracle.CmdClose, p: pt(c.S)})
			}
		}
	}
	// 1. segment by segment, in the same direction: control points are the images of the control points
	oneToOne := len(exp) == len(segs)
	if oneToOne {
		for i := range exp {
			if exp[i].cmd != segs[i].Cmd {
				oneToOne = false // the builder merged collinear lines: only the geometric checks below apply
			}
		}
	}
	if oneToOne {
		for i, e := range exp {
			r := segs[i]
			if !near(r.End, e.p, tol) {
				add("transform:endpoint+"+tag, fmt.Sprintf("segment %d (%s) ends at (%g,%g), image of its end point is (%g,%g)", i, e.abstract, r.End.X, r.End.Y, e.p.X, e.p.Y))
			}
			if (e.cmd == oracle.CmdQuad || e.cmd == oracle.CmdCube) && !near(r.C1, e.c1, tol) {
				add("transform:control-point+"+tag, fmt.Sprintf("segment %d control point (%g,%g), image is (%g,%g)", i, r.C1.X, r.C1.Y, e.c1.X, e.c1.Y))
			}
			if e.cmd == oracle.CmdCube && !near(r.C2, e.c2, tol) {
				add("transform:control-point+"+tag, fmt.Sprintf("segment %d second control point (%g,%g), image is (%g,%g)", i, r.C2.X, r.C2.Y, e.c2.X, e.c2.Y))
			}
			if e.cmd == oracle.CmdArc {
				// 2. the arc passes through the images of its integer way-points, in order
				last := 0.0
				for k, w := range e.wp {
					t, dist := oracle.ArcParamOf(r, w)
					// calibrated: the eigen-decomposition of near-singular images (aspect 100:1 under (7 5; 4 3)) is
					// accurate to 2e-7 of the size on this tree; the band is 3e-6 (a wrong ellipse misses by >1e-2)
					if dist > 3e-6*size || math.IsNaN(dist) {
						add("transform:arc-waypoint+"+tag, fmt.Sprintf("arc segment %d (rx=%g ry=%g phi=%g large=%v sweep=%v) misses the image (%g,%g) of way-point %d by %.3g", i, r.Rx, r.Ry, r.Phi*180/math.Pi, r.Large, r.Sweep, w.X, w.Y, k, dist))
						break
					}
					if !(t > last+1e-9 && t < 1-1e-9) {
						add("transform:arc-order+"+tag, fmt.Sprintf("arc segment %d passes the image of way-point %d at parameter %.6f after %.6f: wrong order or direction", i, k, t, last))
						break
					}
					last = t
				}
			}
		}
	}
	// 3. the winding function transforms by w o m^-1 with sign sgn det (independent oracle on a fine flattening)
	cs := oracle.Flatten(segs, 2048)
	sd := float64(s.Sden) / k
	bad := 0
	for _, sm := range s.Smp {
		x, y := float64(sm[0])/sd, float64(sm[1])/sd
		if w := oracle.Winding(cs, oracle.Pt{X: x, Y: y}); w != sm[2] {
			bad++
			if bad == 1 {
				add("transform:winding+"+tag, fmt.Sprintf("winding number of the transformed path at the image (%g,%g) of a sample point is %d, expected %d", x, y, w, sm[2]))
			}
		}
	}
	return ms, false
}

// ---- matrix algebra scenarios -----------------------------------------------------------------------------------

type Call struct {
	Op string `json:"op"`
	A  []int  `json:"a"`
}
type RMat struct {
	N [6]int `json:"n"`
	D int    `json:"d"`
}

// AlgScenario is one line of Transform.tla (What = "algebra") and the replay unit.
type AlgScenario struct {
	Kind   string   `json:"kind"` // "algebra"
	Hist   []Call   `json:"hist"`
	Regs   []RMat   `json:"regs"`
	DetNum int      `json:"detnum"`
	Den    int      `json:"den"`
	Dot    [][2]int `json:"dot"`
	Svg    [][2]int `json:"svg"`
	H      int      `json:"h"`
	Inv    RMat     `json:"inv"`
	Tr     [6]int   `json:"tr"`
}

var probePts = [][2]float64{{1, 0}, {0, 1}, {3, -2}}

var pythDeg = []float64{0, math.Atan2(3, 4) * 180 / math.Pi, math.Atan2(4, 3) * 180 / math.Pi, -math.Atan2(3, 4) * 180 / math.Pi, math.Atan2(4, -3) * 180 / math.Pi}

func applyCall(m canvas.Matrix, c Call) (canvas.Matrix, error) {
	f := func(i int) float64 { return float64(c.A[i]) }
	switch c.Op {
	case "Translate":
		return m.Translate(f(0), f(1)), nil
	case "Rotate":
		return m.Rotate(90 * f(0)), nil
	case "RotateP":
		return m.Rotate(pythDeg[c.A[0]]), nil
	case "Scale":
		return m.Scale(f(0), f(1)), nil
	case "Shear":
		return m.Shear(f(0), f(1)), nil
	case "ReflectX":
		return m.ReflectX(), nil
	case "ReflectY":
		return m.ReflectY(), nil
	case "RotateAbout":
		return m.RotateAbout(90*f(0), f(1), f(2)), nil
	case "RotatePAbout":
		return m.RotateAbout(pythDeg[c.A[0]], f(1), f(2)), nil
	case "ScaleAbout":
		return m.ScaleAbout(f(0), f(1), f(2), f(3)), nil
	case "ShearAbout":
		return m.ShearAbout(f(0), f(1), f(2), f(3)), nil
	case "ReflectXAbout":
		return m.ReflectXAbout(f(0)), nil
	case "ReflectYAbout":
		return m.ReflectYAbout(f(0)), nil
	case "Mul":
		return m.Mul(canvas.Matrix{{f(0), f(1), f(2)}, {f(3), f(4), f(5)}}), nil
	case "T":
		return m.T(), nil
	case "Inv":
		return m.Inv(), nil
	}
	return m, fmt.Errorf("unknown op %q", c.Op)
}

func flat(m canvas.Matrix) [6]float64 {
	return [6]float64{m[0][0], m[0][1], m[0][2], m[1][0], m[1][1], m[1][2]}
}

func rmatClose(m canvas.Matrix, r RMat, rel float64) (bool, float64) {
	f := flat(m)
	worst := 0.0
	ok := true
	for i := 0; i < 6; i++ {
		e := float64(r.N[i]) / float64(r.D)
		d := math.Abs(f[i] - e)
		if d > rel*(1+math.Abs(e)) || math.IsNaN(f[i]) {
			ok = false
		}
		worst = math.Max(worst, d)
	}
	return ok, worst
}

var reTr = regexp.MustCompile(`(translate|rotate|scale|matrix)\(([^)]*)\)`)

// svgApply applies an SVG transform list (standard SVG semantics, left-most transform outermost) to a point.
func svgApply(list string, x, y float64) (float64, float64, error) {
	ms := reTr.FindAllStringSubmatch(list, -1)
	rest := reTr.ReplaceAllString(list, "")
	if strings.TrimSpace(rest) != "" {
		return 0, 0, fmt.Errorf("unparsable transform list %q", list)
	}
	for i := len(ms) - 1; i >= 0; i-- {
		var v []float64
		for _, t := range strings.FieldsFunc(ms[i][2], func(r rune) bool { return r == ',' || r == ' ' }) {
			f, err := strconv.ParseFloat(t, 64)
			if err != nil {
				return 0, 0, fmt.Errorf("bad number %q in %q", t, list)
			}
			v = append(v, f)
		}
		switch ms[i][1] {
		case "translate":
			if len(v) == 1 {
				v = append(v, 0)
			}
			x, y = x+v[0], y+v[1]
		case "rotate":
			sin, cos := math.Sincos(v[0] * math.Pi / 180)
			x, y = cos*x-sin*y, sin*x+cos*y
		case "scale":
			if len(v) == 1 {
				v = append(v, v[0])
			}
			x, y = v[0]*x, v[1]*y
		case "matrix":
			if len(v) != 6 {
				return 0, 0, fmt.Errorf("matrix() with %d numbers", len(v))
			}
			x, y = v[0]*x+v[2]*y+v[4], v[1]*x+v[3]*y+v[5]
		}
	}
	return x, y, nil
}

func (s *AlgScenario) histString() string {
	var b strings.Builder
	b.WriteString("Identity")
	for _, c := range s.Hist {
		fmt.Fprintf(&b, ".%s(%s)", c.Op, strings.Trim(strings.Join(strings.Fields(fmt.Sprint(c.A)), ","), "[]"))
	}
	return b.String()
}

func execAlg(s *AlgScenario) (ms []core.Mismatch) {
	seen := map[string]bool{}
	add := func(sig, detail string) {
		if !seen[sig] {
			seen[sig] = true
			ms = append(ms, core.Mismatch{Signature: sig, Detail: detail + "; " + s.histString()})
		}
	}
	defer func() {
		if r := recover(); r != nil {
			add("matrix:panic("+latgeo.PanicClass(r)+")", fmt.Sprintf("panic: %v", r))
		}
	}()
	m := canvas.Identity
	for i, c := range s.Hist {
		var err error
		m, err = applyCall(m, c)
		if err != nil {
			return []core.Mismatch{{Signature: "machinery", Detail: err.Error()}}
		}
		if ok, worst := rmatClose(m, s.Regs[i], 1e-9); !ok {
			add("matrix:"+c.Op, fmt.Sprintf("after call %d (%s%v) the matrix is %v, expected %v/%d (off by %.3g)", i+1, c.Op, c.A, m, s.Regs[i].N, s.Regs[i].D, worst))
			return
		}
	}
	last := s.Regs[len(s.Regs)-1]
	d := float64(last.D)
	scale := 1.0
	for _, v := range last.N {
		scale = math.Max(scale, math.Abs(float64(v))/d)
	}
	// Det
	// Tolerances follow the floating-point conditioning of the operation, not an absolute bound: Det is a difference of
	// products of the order scale^2 (cancellation error ~ 1e-16 scale^2), Inv divides by it, and m.Mul(m.Inv()) is exact
	// only up to the relative error of the computed determinant (every entry of Inv carries the factor 1/det) times the
	// magnitude of the entries it multiplies. 1e-15 scale^2 is about ten times the observed cancellation error.
	if e := float64(s.DetNum) / (d * d); math.Abs(m.Det()-e) > 1e-9*(1+math.Abs(e))+1e-15*scale*scale {
		add("matrix:Det", fmt.Sprintf("Det = %v, expected %v", m.Det(), e))
	}
	// Dot
	for i, p := range probePts {
		got := m.Dot(canvas.Point{X: p[0], Y: p[1]})
		ex, ey := float64(s.Dot[i][0])/d, float64(s.Dot[i][1])/d
		if math.Abs(got.X-ex) > 1e-9*(1+math.Abs(ex)) || math.Abs(got.Y-ey) > 1e-9*(1+math.Abs(ey)) {
			add("matrix:Dot", fmt.Sprintf("Dot(%v) = %v, expected (%v,%v)", p, got, ex, ey))
		}
	}
	// T
	if ok, _ := rmatClose(m.T(), RMat{N: s.Tr, D: last.D}, 1e-9); !ok {
		add("matrix:T", fmt.Sprintf("T() = %v, expected %v/%d", m.T(), s.Tr, last.D))
	}
	// Inv
	if s.Inv.D != 0 {
		inv := m.Inv()
		e := math.Abs(float64(s.DetNum) / (d * d))
		invScale := 1.0
		for _, v := range s.Inv.N {
			invScale = math.Max(invScale, math.Abs(float64(v))/float64(s.Inv.D))
		}
		relDet := 1e-15 * scale * scale / e // relative error of the computed determinant
		if ok, worst := rmatClose(inv, s.Inv, 1e-8+relDet); !ok {
			add("matrix:Inv", fmt.Sprintf("Inv() = %v, expected %v/%d (off by %.3g)", inv, s.Inv.N, s.Inv.D, worst))
		}
		if ok, _ := rmatClose(m.Mul(inv), RMat{N: [6]int{1, 0, 0, 0, 1, 0}, D: 1}, 1e-7+relDet*(1+scale)+1e-15*scale*invScale); !ok {
			add("matrix:Inv-product", fmt.Sprintf("m.Mul(m.Inv()) = %v", m.Mul(inv)))
		}
	}
	// Decompose: Translate(tx,ty).Rotate(r1).Scale(sx,sy).Rotate(r2) applied to the probe points with own arithmetic
	tx, ty, r1, sx, sy, r2 := m.Decompose()
	for i, p := range probePts {
		s2, c2 := math.Sincos(r2 * math.Pi / 180)
		x, y := c2*p[0]-s2*p[1], s2*p[0]+c2*p[1]
		x, y = sx*x, sy*y
		s1, c1 := math.Sincos(r1 * math.Pi / 180)
		x, y = c1*x-s1*y+tx, s1*x+c1*y+ty
		ex, ey := float64(s.Dot[i][0])/d, float64(s.Dot[i][1])/d
		if math.Abs(x-ex) > 1e-7*(1+scale*4) || math.Abs(y-ey) > 1e-7*(1+scale*4) || math.IsNaN(x+y) {
			add("matrix:Decompose", fmt.Sprintf("Decompose = (t=(%g,%g) rot=%g scale=(%g,%g) rot=%g) maps %v to (%g,%g), the matrix maps it to (%g,%g)", tx, ty, r1, sx, sy, r2, p, x, y, ex, ey))
			break
		}
	}
	// ToSVG(h): the emitted transform list maps (X,-Y) to (X', h-Y')
	str := m.ToSVG(float64(s.H))
	for i, p := range probePts {
		x, y, err := svgApply(str, p[0], -p[1])
		if err != nil {
			add("matrix:ToSVG-syntax", err.Error())
			break
		}
		ex, ey := float64(s.Svg[i][0])/d, float64(s.Svg[i][1])/d
		tol := 1e-5 * (1 + scale*4)
		if math.Abs(x-ex) > tol || math.Abs(y-ey) > tol {
			feat := ""
			if last.N[2] == 0 && last.N[5] == 0 {
				feat = "+zero-translation"
			}
			add("matrix:ToSVG"+feat, fmt.Sprintf("ToSVG(%d) = %q maps (%g,%g) to (%g,%g), expected (%g,%g) = (X', h-Y')", s.H, str, p[0], -p[1], x, y, ex, ey))
			break
		}
	}
	return
}

// ---- replay ---------------------------------------------------------------------------------------------------------

func (Driver) Replay(c *core.Ctx, raw json.RawMessage) []core.Mismatch {
	var k struct {
		Kind string `json:"kind"`
	}
	if err := json.Unmarshal(raw, &k); err != nil {
		return []core.Mismatch{{Signature: "machinery", Detail: err.Error()}}
	}
	var ms []core.Mismatch
	kind, msg := latgeo.Guard(60*time.Second, func() {
		switch k.Kind {
		case "path":
			var s PathScenario
			if err := json.Unmarshal(raw, &s); err != nil {
				ms = []core.Mismatch{{Signature: "machinery", Detail: err.Error()}}
				return
			}
			ms, _ = execPath(&s)
		case "algebra":
			var s AlgScenario
			if err := json.Unmarshal(raw, &s); err != nil {
				ms = []core.Mismatch{{Signature: "machinery", Detail: err.Error()}}
				return
			}
			ms = execAlg(&s)
		case "trace":
			ms = replayTrace(raw)
		default:
			ms = []core.Mismatch{{Signature: "machinery", Detail: "unknown scenario kind " + k.Kind}}
		}
	})
	if kind != "" {
		return []core.Mismatch{{Signature: kind + "-transform", Detail: fmt.Sprint(msg)}}
	}
	return ms
}

func cfg(what string, n int, kinds string, num, nc int, matMode string, maxLen int, profile string, mc bool) string {
	s := fmt.Sprintf("SPECIFICATION Spec\nCONSTANTS What = \"%s\"\n N = %d\n Kinds = %s\n Num = %d\n NC = %d\n MatMode = \"%s\"\n MaxLen = %d\n Profile = \"%s\"\nCHECK_DEADLOCK FALSE\n", what, n, kinds, num, nc, matMode, maxLen, profile)
	switch {
	case mc && what == "path":
		s += "INVARIANTS WindingCovariant WayPtsOK\n"
	case mc:
		s += "INVARIANTS InvLaw TLaw\nPROPERTIES DetMul RightToLeft\n"
	case what == "algebra":
		s += "INVARIANTS EmitInv\n"
	}
	return s
}

type runner struct {
	c                       *core.Ctx
	paths, algs, skipped    int64
	scaled                  int64
	nontrivPath, nontrivAlg int64
	seen                    sync.Map
	classMu                 sync.Mutex
	classes                 map[string]int64
	sampledPath, sampledAlg int32
}

func (r *runner) run(o tlc.Opts, what string) {
	c := r.c
	ch := make(chan []byte, 2048)
	o.OnLine = func(p []byte) { ch <- append([]byte(nil), p...) }
	done := make(chan struct{})
	go func() {
		core.Parallel(6, ch, func(p []byte) {
			if what == "path" {
				var s PathScenario
				if err := json.Unmarshal(p, &s); err != nil {
					c.Broken("bad path scenario: " + err.Error())
					return
				}
				s.Kind = "path"
				k := atomic.AddInt64(&r.paths, 1)
				ms, skipped := execPath(&s)
				if skipped {
					atomic.AddInt64(&r.skipped, 1)
					return
				}
				c.Count(1, 0, 1)
				// every third scenario with arcs also under the scale-256 embedding (radii 256 .. 2560)
				if k%3 == 0 && strings.ContainsAny(s.Path.Kinds(), "AE") {
					s2 := s
					s2.Scale = 256
					ms2, _ := execPath(&s2)
					c.Count(1, 0, 1)
					atomic.AddInt64(&r.scaled, 1)
					for i := range ms2 {
						c.Report(&s2, ms2[i:i+1])
					}
				}
				// non-trivial: the path has a curved segment or >= 3 vertices, the matrix is not a pure translation, and at
				// least one sample has non-zero expected winding
				nz := false
				for _, sm := range s.Smp {
					if sm[2] != 0 {
						nz = true
					}
				}
				if nz && !(s.Mat[0] == s.Den && s.Mat[4] == s.Den && s.Mat[1] == 0 && s.Mat[3] == 0) {
					key := fmt.Sprint(s.Path.SVG(), s.Mat, s.Den)
					if _, dup := r.seen.LoadOrStore(key, true); !dup {
						atomic.AddInt64(&r.nontrivPath, 1)
					}
				}
				r.classMu.Lock()
				r.classes[s.matClass()]++
				r.classMu.Unlock()
				if k%900 == 5 && atomic.AddInt32(&r.sampledPath, 1) <= 3 {
					c.Sample(map[string]any{"path": s.Path.SVG(), "matrix": s.Mat, "den": s.Den, "images": s.Img, "samples": len(s.Smp)})
				}
				for i := range ms {
					c.Report(&s, ms[i:i+1])
				}
			} else {
				var s AlgScenario
				if err := json.Unmarshal(p, &s); err != nil {
					c.Broken("bad algebra scenario: " + err.Error())
					return
				}
				s.Kind = "algebra"
				k := atomic.AddInt64(&r.algs, 1)
				ms := execAlg(&s)
				c.Count(int64(len(s.Hist))+8, 0, 1)
				if len(s.Hist) >= 2 {
					if _, dup := r.seen.LoadOrStore(s.histString(), true); !dup {
						atomic.AddInt64(&r.nontrivAlg, 1)
					}
				}
				if k%1500 == 7 && atomic.AddInt32(&r.sampledAlg, 1) <= 3 {
					c.Sample(map[string]any{"history": s.histString(), "expected_register": s.Regs[len(s.Regs)-1]})
				}
				for i := range ms {
					c.Report(&s, ms[i:i+1])
				}
			}
		})
		close(done)
	}()
	c.TLC(o, true)
	close(ch)
	<-done
}

func (d Driver) Run(c *core.Ctx) error {
	c.Rule = "path scenarios: lattice curve path (lines, integer-ellipse arcs incl. rotated ones, quadratic/cubic Béziers; CurveGen) x exact rational matrix (52 curated: rotations by 90k, anisotropic scales, shears, reflections, unimodular near-singular, Pythagorean rotations and their products, uniform magnifications by 512, 500 and 1/512, 1/1024 combined with a rotation or shear; or random integer matrices with entries -3..3, det != 0), with the images of all control points / arc way-points and ~90 winding samples computed by spec/Transform.tla; non-trivial = distinct (path, matrix) with a non-translation matrix and a sample of non-zero winding. algebra scenarios: every call history of the Matrix register machine up to the tier's length (17-letter alphabet quick, 37 thorough) with the exact register after every call; non-trivial = distinct histories of length >= 2. evaluations = Transform calls + matrix method calls"
	c.Assumptions = []string{
		"paths are built through the public builder; control points are compared segment by segment only when the builder kept the command list (no collinear merge), the way-point and winding checks always apply",
		"real matrices are compared with the exact rational register within 1e-9 relative (Pythagorean rotations are entered in degrees: atan2(3,4)*180/pi)",
		"winding numbers of the transformed real path are evaluated by the independent oracle on a flattening with 2048 chords per curved segment at sample points that the spec proved to be off the boundary",
		"ToSVG(h) is read with standard SVG transform-list semantics and the convention of the library's own matrix(...) form: (X,-Y) -> (X', h-Y'); tolerance 1e-5 relative (8 decimals are printed)",
	}
	r := &runner{c: c, classes: map[string]int64{}}
	all := `{"L","A","Q","C"}`
	type job struct {
		o    tlc.Opts
		what string
		mc   bool
	}
	var jobs []job
	add := func(o tlc.Opts, what string, mc bool) {
		o.Module = "Transform"
		if o.Workers == 0 {
			o.Workers = 4
		}
		o.HeapGB = c.Pick(3, 6)
		o.Timeout = 30 * time.Minute
		jobs = append(jobs, job{o, what, mc})
	}
	// model level
	add(tlc.Opts{Config: cfg("path", 10, `{"L","A","Q"}`, c.Pick(10, 40), 1, "one", 0, "small", true), Seed: c.Seed}, "path", true) // (-coverage slows the recursive operators >50x; the path module has a single action)
	add(tlc.Opts{Config: cfg("algebra", 4, `{"L"}`, 1, 1, "one", c.Pick(2, 3), "small", true), Coverage: c.Thorough()}, "algebra", true)
	// spec -> code
	if c.Thorough() {
		add(tlc.Opts{Config: cfg("path", 10, all, 90, 1, "fixed", 0, "small", false), Seed: c.Seed}, "path", false)
		add(tlc.Opts{Config: cfg("path", 10, `{"L","A"}`, 60, 1, "fixed", 0, "small", false), Seed: c.Seed + 1}, "path", false)
		add(tlc.Opts{Config: cfg("path", 10, all, 40, 2, "fixed", 0, "small", false), Seed: c.Seed + 2}, "path", false)
		add(tlc.Opts{Config: cfg("path", 10, `{"L","A"}`, 60, 1, "random", 0, "small", false), Seed: c.Seed + 3}, "path", false)
		add(tlc.Opts{Config: cfg("path", 20, `{"L","A"}`, 12, 1, "fixed", 0, "small", false), Seed: c.Seed + 4}, "path", false)
		add(tlc.Opts{Config: cfg("path", 20, `{"L","A"}`, 1, 3, "fixed", 0, "small", false)}, "path", false) // 48 "propeller" paths x 52 matrices
		add(tlc.Opts{Config: cfg("algebra", 4, `{"L"}`, 1, 1, "one", 4, "small", false)}, "algebra", false)  // 17^4 histories
		add(tlc.Opts{Config: cfg("algebra", 4, `{"L"}`, 1, 1, "one", 3, "full", false)}, "algebra", false)   // 37^3
		add(tlc.Opts{Config: cfg("algebra", 4, `{"L"}`, 1, 1, "one", 6, "full", false), Simulate: "num=3000", Depth: 7, Seed: c.Seed, Workers: 4}, "algebra", false)
	} else {
		add(tlc.Opts{Config: cfg("path", 10, all, 9, 1, "fixed", 0, "small", false), Seed: c.Seed}, "path", false)
		add(tlc.Opts{Config: cfg("path", 10, `{"L","A"}`, 8, 1, "fixed", 0, "small", false), Seed: c.Seed + 1}, "path", false)
		add(tlc.Opts{Config: cfg("path", 10, all, 4, 2, "random", 0, "small", false), Seed: c.Seed + 2}, "path", false)
		add(tlc.Opts{Config: cfg("path", 20, `{"L","A"}`, 1, 3, "few", 0, "small", false)}, "path", false)  // 48 "propeller" paths (same radii, different rotation) x 11 matrices
		add(tlc.Opts{Config: cfg("algebra", 4, `{"L"}`, 1, 1, "one", 3, "small", false)}, "algebra", false) // all histories of length <= 3
		add(tlc.Opts{Config: cfg("algebra", 4, `{"L"}`, 1, 1, "one", 5, "full", false), Simulate: "num=200", Depth: 6, Seed: c.Seed, Workers: 4}, "algebra", false)
	}
	sem := make(chan struct{}, 3)
	var wg sync.WaitGroup
	for _, j := range jobs {
		wg.Add(1)
		sem <- struct{}{}
		go func(j job) {
			defer wg.Done()
			defer func() { <-sem }()
			if j.mc {
				c.TLC(j.o, true)
			} else {
				r.run(j.o, j.what)
			}
		}(j)
	}
	wg.Wait()
	// code -> spec
	d.traces(c)

	c.Count(0, r.nontrivPath+r.nontrivAlg, 0)
	c.SetExtra("path_scenarios", r.paths)
	c.SetExtra("algebra_histories", r.algs)
	c.SetExtra("builder_normalised", r.skipped)
	c.SetExtra("path_scenarios_also_at_scale_256", r.scaled)
	c.SetExtra("nontrivial_path_scenarios", r.nontrivPath)
	c.SetExtra("nontrivial_histories", r.nontrivAlg)
	c.SetExtra("path_scenarios_by_matrix_class", r.classes)
	if r.paths == 0 || r.algs == 0 {
		c.Broken("no scenarios were generated")
	}
	return nil
}

// ---- code -> spec: recorded traces of long random matrix-op sequences ---------------------------------------------------

type traceEv struct {
	Op  string   `json:"op"`
	A   []int    `json:"a"`
	Obs [6]int   `json:"obs"` // matrix entries times 10^5 (all registers of the driver are 2^a 5^b-adic)
	Det int      `json:"det"` // determinant times 10^6, or 0 with Big set
	Big bool     `json:"big"`
	Pts [][2]int `json:"pts"` // Dot images of the probe points times 10^6
}

const traceQ = 100000

func quant(v float64) (int, bool) {
	x := v * traceQ
	r := math.Round(x)
	return int(r), math.Abs(x-r) < 1e-4 && math.Abs(r) < 2e9
}

// traceScenario is the replay unit of a rejected trace: the calls of one trace segment (from RESET on) up to the
// rejected event, with the spec's expected register there.
type traceScenario struct {
	Kind  string `json:"kind"`
	Calls []Call `json:"calls"`
	Exp   RMat   `json:"exp"`
}

func replayTrace(raw json.RawMessage) []core.Mismatch {
	var s traceScenario
	if err := json.Unmarshal(raw, &s); err != nil {
		return []core.Mismatch{{Signature: "machinery", Detail: err.Error()}}
	}
	m := canvas.Identity
	for _, c := range s.Calls {
		var err error
		if m, err = applyCall(m, c); err != nil {
			return []core.Mismatch{{Signature: "machinery", Detail: err.Error()}}
		}
	}
	if ok, worst := rmatClose(m, s.Exp, 1e-9); !ok {
		last := s.Calls[len(s.Calls)-1]
		return []core.Mismatch{{Signature: "matrix-trace:" + last.Op, Detail: fmt.Sprintf("after %d recorded calls (last %s%v) the matrix is %v, the specification requires %v/%d (off by %.3g)", len(s.Calls), last.Op, last.A, m, s.Exp.N, s.Exp.D, worst)}}
	}
	return nil
}

func randTraceCall(r *rand.Rand, pyth, twos *int) Call {
	ri := func(lo, hi int) int { return lo + r.Intn(hi-lo+1) }
	for {
		switch r.Intn(16) {
		case 0:
			return Call{"Translate", []int{ri(-4, 4), ri(-4, 4)}}
		case 1:
			return Call{"Rotate", []int{ri(1, 3)}}
		case 2:
			if *pyth < 3 {
				*pyth++
				return Call{"RotateP", []int{ri(1, 4)}}
			}
		case 3:
			if *twos < 3 {
				*twos++
				return Call{"Scale", []int{[]int{2, 1, -2, 1}[r.Intn(4)], []int{1, 2, 1, -2}[r.Intn(4)]}}
			}
		case 4:
			return Call{"Scale", []int{[]int{-1, 1}[r.Intn(2)], []int{-1, 1}[r.Intn(2)]}}
		case 5:
			if r.Intn(2) == 0 {
				return Call{"Shear", []int{ri(-2, 2), 0}}
			}
			return Call{"Shear", []int{0, ri(-2, 2)}}
		case 6:
			return Call{"ReflectX", []int{}}
		case 7:
			return Call{"ReflectY", []int{}}
		case 8:
			return Call{"RotateAbout", []int{ri(1, 3), ri(-3, 3), ri(-3, 3)}}
		case 9:
			return Call{"ReflectXAbout", []int{ri(-3, 3)}}
		case 10:
			return Call{"ReflectYAbout", []int{ri(-3, 3)}}
		case 11:
			return Call{"ShearAbout", []int{ri(-1, 1), 0, ri(-2, 2), ri(-2, 2)}}
		case 12:
			return Call{"Mul", [][]int{{2, 1, 1, 1, 1, -2}, {7, 5, 0, 4, 3, 1}, {0, -1, 2, 1, 0, 0}, {1, 1, 0, 0, 1, 3}}[r.Intn(4)]}
		case 13:
			return Call{"T", []int{}}
		case 14, 15:
			return Call{"Inv", []int{}}
		}
	}
}

func (d Driver) traces(c *core.Ctx) {
	nTraces := c.Pick(120, 1500)
	length := c.Pick(25, 40)
	rnd := rand.New(rand.NewSource(c.Seed*104729 + 7))
	var buf bytes.Buffer
	enc := json.NewEncoder(&buf)
	type segRec struct{ calls []Call }
	var lines [][]Call // for every emitted line, the calls since the last RESET (to build witnesses)
	events := 0
	for t := 0; t < nTraces; t++ {
		m := canvas.Identity
		var calls []Call
		pyth, twos := 0, 0
		enc.Encode(traceEv{Op: "RESET", A: []int{}, Pts: [][2]int{}})
		lines = append(lines, nil)
		events++
		for i := 0; i < length; i++ {
			cl := randTraceCall(rnd, &pyth, &twos)
			var m2 canvas.Matrix
			ok, pm := latgeo.Try(func() { m2, _ = applyCall(m, cl) })
			if !ok {
				c.Report(&traceScenario{Kind: "trace", Calls: append(append([]Call{}, calls...), cl)}, []core.Mismatch{{Signature: "matrix:panic(" + latgeo.PanicClass(pm) + ")", Detail: fmt.Sprint(pm)}})
				break
			}
			ev := traceEv{Op: cl.Op, A: cl.A}
			big := false
			f := flat(m2)
			for k := 0; k < 6; k++ {
				q, ok := quant(f[k])
				if !ok || math.Abs(f[k]) > 20 {
					big = true // keeps every numerator below 2^15 so that the trace spec's products stay inside TLC's 32-bit integers
				}
				ev.Obs[k] = q
			}
			if big {
				break // entries left the range that can be logged exactly: start a new trace
			}
			dq, okd := quant(m2.Det())
			ev.Det, ev.Big = dq, !okd
			if !okd {
				ev.Det = 0
			}
			for _, p := range probePts {
				im := m2.Dot(canvas.Point{X: p[0], Y: p[1]})
				qx, _ := quant(im.X)
				qy, _ := quant(im.Y)
				ev.Pts = append(ev.Pts, [2]int{qx, qy})
			}
			m = m2
			calls = append(calls, cl)
			enc.Encode(ev)
			lines = append(lines, append([]Call{}, calls...))
			events++
		}
	}
	tcfg := func(check string) string {
		return "SPECIFICATION TSpec\nCONSTANTS What = \"algebra\"\n N = 4\n Kinds = {\"L\"}\n Num = 1\n NC = 1\n MatMode = \"one\"\n MaxLen = 0\n Profile = \"small\"\n CheckObs = " + check + "\nPOSTCONDITION TraceAccepted\nCHECK_DEADLOCK FALSE\n"
	}
	files := map[string][]byte{"trace_transform.ndjson": buf.Bytes()}
	res := c.TLC(tlc.Opts{Module: "Trace_Transform", Workers: 1, Files: files, Config: tcfg("TRUE"), Timeout: 20 * time.Minute}, false)
	c.SetExtra("trace_events", events)
	if res.OK {
		c.Count(int64(events), 0, int64(nTraces))
		c.Sample(map[string]any{"recorded_trace_head": string(buf.Bytes()[:min(buf.Len(), 500)])})
		return
	}
	// Rejected after res.Depth-1 accepted events: let the spec print the register it requires at every event
	// (observations ignored) and replay the recorded calls up to the first event whose observation differs.
	exp := c.TLC(tlc.Opts{Module: "Trace_Transform", Workers: 1, Files: files, Config: tcfg("FALSE"), Timeout: 20 * time.Minute}, true)
	found := false
	for _, p := range exp.Lines {
		var e struct {
			L   int  `json:"l"`
			Exp RMat `json:"exp"`
		}
		if err := json.Unmarshal(p, &e); err != nil || e.L < 1 || e.L > len(lines) || lines[e.L-1] == nil {
			continue
		}
		s := &traceScenario{Kind: "trace", Calls: lines[e.L-1], Exp: e.Exp}
		raw, _ := json.Marshal(s)
		if ms := replayTrace(raw); len(ms) > 0 {
			found = true
			c.Report(s, ms)
			break
		}
	}
	if !found {
		os.MkdirAll(core.OutDir()+"/replays", 0o755)
		os.WriteFile(core.OutDir()+"/replays/C07-rejected-trace.ndjson", buf.Bytes(), 0o644)
		c.Broken(fmt.Sprintf("Trace_Transform rejected the recorded trace after %d of %d events but no call-level witness reproduces: %s", res.Depth-1, events, trunc(res.ErrText, 1200)))
	}
}

func trunc(s string, n int) string {
	if len(s) > n {
		return s[:n]
	}
	return s
}
