// Package core is the shared skeleton of every property check: tier/seed handling,
// TLC invocation with accounting, verdict rules (violation only when reproduced on the
// real code), known-finding matching, replay files and the evidence file.
package core

import (
	"crypto/sha1"
	"encoding/json"
	"fmt"
	"os"
	"path/filepath"
	"regexp"
	"runtime/metrics"
	"sort"
	"strconv"
	"strings"
	"sync"
	"time"

	"verif/harness/internal/tlc"
)

const VerifDir = "/verif"

// OutDir is where evidence and replay files are written: /verif, or $VERIF_OUT for scratch (mutation) runs.
func OutDir() string {
	if d := os.Getenv("VERIF_OUT"); d != "" {
		return d
	}
	return VerifDir
}

// Mismatch is one observed contradiction between the real code and the specification's
// expectation on a concrete scenario.
type Mismatch struct {
	Signature string // class of the deviation: feature predicate(s) of the scenario + deviation pattern
	Detail    string // human readable: expected vs observed
	Key       string // optional: identifies the specific failing input (for known findings recorded per input)
}

// Driver is implemented by every property check.
type Driver interface {
	ID() string
	// Run executes the whole pipeline (model check, scenario generation, replay, trace validation).
	Run(c *Ctx) error
	// Replay deterministically re-executes one scenario (as stored in a replay file) against the
	// real code and returns the mismatches it shows.
	Replay(c *Ctx, scenario json.RawMessage) []Mismatch
}

type KnownFinding struct {
	Property    string   `json:"property"`
	Signature   string   `json:"signature"`
	Status      string   `json:"status"` // "known" or "fixed"
	Commit      string   `json:"commit,omitempty"`
	Description string   `json:"description"`
	Exemplars   []string `json:"exemplars,omitempty"`
	// Inputs / InputsFile (one key per line, path relative to /verif): when present the finding covers exactly
	// these failing inputs (Mismatch.Key) of a deterministic scenario space; any other input failing with the
	// same signature is still a violation.
	Inputs     []string `json:"inputs,omitempty"`
	InputsFile string   `json:"inputs_file,omitempty"`
	inputSet   map[string]bool
	// Regex: Signature is a regular expression (anchored by the author) covering a family of class signatures.
	Regex bool   `json:"regex,omitempty"`
	Name  string `json:"name,omitempty"` // short name printed in the KNOWN-FINDING line (default: the signature)
	// MaxRate / MinAllow: the recorded extent of a class-level finding on the reference tree. When a run hits the class
	// more than max(MinAllow, MaxRate x scenarios replayed) times, inputs other than the ones behind the finding are
	// failing: that is reported as a violation (with one member of the class as replay file). 0 = no bound.
	MaxRate  float64 `json:"max_rate,omitempty"`
	MinAllow int64   `json:"min_allow,omitempty"`
	re    *regexp.Regexp
}

type Ctx struct {
	ID      string
	Tier    string // quick | thorough
	Seed    int64
	Workers int
	Start   time.Time
	drv     Driver

	peakMem     uint64 // sampled by memWatch
	// AbortInfo, when set by a driver, describes the work in flight (for the message of an early end of the run)
	AbortInfo func() string
	mu          sync.Mutex
	known       map[string]KnownFinding
	knownRE     []KnownFinding
	knownHits   map[string]int64
	knownEx     map[string]string
	knownDesc   map[string]string
	knownKF     map[string]KnownFinding
	knownFile   map[string]string // one member scenario per known-finding name, written on first hit
	violations  int
	violSeen    map[string]int
	broken      []string // machinery failures
	States      int64
	Transitions int64
	Traces      int64 // scenarios replayed into the real code + traces accepted by trace specs
	Evals       int64
	Nontrivial  int64
	Rule        string
	Samples     []any
	Extra       map[string]any
	Assumptions []string
	TLCRuns     []map[string]any
	Level       string
}

func NewCtx(d Driver, tier string) *Ctx {
	seed := int64(1)
	if s := os.Getenv("VERIF_SEED"); s != "" {
		if v, err := strconv.ParseInt(s, 10, 64); err == nil {
			seed = v
		}
	}
	c := &Ctx{ID: d.ID(), Tier: tier, Seed: seed, Workers: 12, Start: time.Now(), drv: d,
		known: map[string]KnownFinding{}, knownHits: map[string]int64{}, knownEx: map[string]string{}, knownDesc: map[string]string{}, knownKF: map[string]KnownFinding{}, knownFile: map[string]string{},
		violSeen: map[string]int{}, Extra: map[string]any{}, Level: "model_checking"}
	go c.memWatch()
	// known findings: /verif/known_findings.json plus /verif/known_findings.d/*.json (committed, never written at run time)
	files := []string{filepath.Join(VerifDir, "known_findings.json")}
	more, _ := filepath.Glob(filepath.Join(VerifDir, "known_findings.d", "*.json"))
	sort.Strings(more)
	files = append(files, more...)
	for _, f := range files {
		b, err := os.ReadFile(f)
		if err != nil {
			continue
		}
		var kf struct {
			Findings []KnownFinding `json:"findings"`
		}
		if err := json.Unmarshal(b, &kf); err != nil {
			c.Broken(f + ": " + err.Error())
			continue
		}
		for _, k := range kf.Findings {
			if k.Property == c.ID && k.Status == "known" && k.Regex {
				re, err := regexp.Compile(k.Signature)
				if err != nil {
					c.Broken(f + ": bad signature regex: " + err.Error())
					continue
				}
				k.re = re
				c.knownRE = append(c.knownRE, k)
				continue
			}
			if k.Property == c.ID && k.Status == "known" {
				if len(k.Inputs) > 0 || k.InputsFile != "" {
					k.inputSet = map[string]bool{}
					for _, in := range k.Inputs {
						k.inputSet[in] = true
					}
					if k.InputsFile != "" {
						b, err := os.ReadFile(filepath.Join(VerifDir, k.InputsFile))
						if err != nil {
							c.Broken("known finding inputs file: " + err.Error())
						}
						for _, ln := range strings.Split(string(b), "\n") {
							if ln = strings.TrimSpace(ln); ln != "" {
								k.inputSet[ln] = true
							}
						}
					}
				}
				if old, ok := c.known[k.Signature]; ok && old.inputSet != nil && k.inputSet != nil {
					for in := range old.inputSet {
						k.inputSet[in] = true
					}
				}
				c.known[k.Signature] = k
			}
		}
	}
	return c
}

// lookupKnown returns the known finding covering the mismatch (exact signature, optionally per input; or a regex family).
// The returned name is the key under which hits are counted.
func (c *Ctx) lookupKnown(m Mismatch) (KnownFinding, string, bool) {
	if kf, ok := c.known[m.Signature]; ok && (kf.inputSet == nil || kf.inputSet[m.Key]) {
		return kf, m.Signature, true
	}
	for _, kf := range c.knownRE {
		if kf.re.MatchString(m.Signature) {
			if kf.Name != "" {
				return kf, kf.Name, true
			}
			return kf, kf.Signature, true
		}
	}
	return KnownFinding{}, "", false
}

func (c *Ctx) Thorough() bool { return c.Tier == "thorough" }

// Pick returns q in the quick tier and t in the thorough tier.
func (c *Ctx) Pick(q, t int) int {
	if c.Thorough() {
		return t
	}
	return q
}

func (c *Ctx) SpecDir() string { return filepath.Join(VerifDir, "spec") }

// Broken records a failure of the machinery itself (exit 2, never a violation).
func (c *Ctx) Broken(msg string) {
	c.mu.Lock()
	defer c.mu.Unlock()
	c.broken = append(c.broken, msg)
	fmt.Fprintln(os.Stderr, "MACHINERY:", msg)
}

// TLC runs TLC with accounting. mustOK: a run that does not end with "no error" is a
// machinery failure unless the caller handles res.Violated itself.
func (c *Ctx) TLC(o tlc.Opts, mustOK bool) *tlc.Result {
	if o.SpecDir == "" {
		o.SpecDir = c.SpecDir()
	}
	if o.Workers == 0 {
		o.Workers = c.Workers
	}
	res, err := tlc.Run(o)
	if err != nil {
		c.Broken(fmt.Sprintf("tlc %s: %v", o.Module, err))
		if res == nil {
			return &tlc.Result{}
		}
		return res
	}
	c.mu.Lock()
	c.States += res.Distinct
	c.Transitions += res.Generated
	run := map[string]any{"module": o.Module, "generated": res.Generated, "distinct": res.Distinct, "depth": res.Depth,
		"lines": res.NLines, "wall_s": res.Wall.Seconds(), "ok": res.OK}
	if o.Simulate != "" {
		run["simulate"] = o.Simulate
	}
	if o.Coverage {
		run["action_hits"] = res.ActionHits
		zero := []string{}
		for a, n := range res.ActionHits {
			if n == 0 {
				zero = append(zero, a)
			}
		}
		sort.Strings(zero)
		run["actions_never_taken"] = zero
	}
	c.TLCRuns = append(c.TLCRuns, run)
	c.mu.Unlock()
	if mustOK && !res.OK {
		c.Broken(fmt.Sprintf("tlc %s did not finish cleanly (exit %d, violated=%q):\n%s\n--- tail ---\n%s", o.Module, res.ExitCode, res.Violated, res.ErrText, lastLines(res.Tail, 25)))
	}
	return res
}

func lastLines(s string, n int) string {
	l := strings.Split(s, "\n")
	if len(l) > n {
		l = l[len(l)-n:]
	}
	return strings.Join(l, "\n")
}

// Count adds to the evidence counters.
func (c *Ctx) Count(evals, nontrivial, replayed int64) {
	c.mu.Lock()
	c.Evals += evals
	c.Nontrivial += nontrivial
	c.Traces += replayed
	c.mu.Unlock()
}

func (c *Ctx) Sample(s any) {
	c.mu.Lock()
	if len(c.Samples) < 6 {
		c.Samples = append(c.Samples, s)
	}
	c.mu.Unlock()
}

func (c *Ctx) SetExtra(k string, v any) {
	c.mu.Lock()
	c.Extra[k] = v
	c.mu.Unlock()
}

func (c *Ctx) AddExtra(k string, n int64) {
	c.mu.Lock()
	v, _ := c.Extra[k].(int64)
	c.Extra[k] = v + n
	c.mu.Unlock()
}

// Report handles the mismatches a scenario produced. Known findings are counted; everything else is
// re-executed once through Driver.Replay and, if it reproduces, written to a replay file and printed
// as a VIOLATION line. Returns true if the scenario was clean.
func (c *Ctx) Report(scenario any, ms []Mismatch) bool {
	if len(ms) == 0 {
		return true
	}
	raw, err := json.Marshal(scenario)
	if err != nil {
		c.Broken("cannot marshal scenario: " + err.Error())
		return false
	}
	if f := os.Getenv("VERIF_DUMP_KEYS"); f != "" { // calibration aid: list every mismatch (never read back at run time)
		c.mu.Lock()
		if fh, err := os.OpenFile(f, os.O_APPEND|os.O_CREATE|os.O_WRONLY, 0o644); err == nil {
			for _, m := range ms {
				fmt.Fprintf(fh, "%s\t%s\n", m.Signature, m.Key)
			}
			fh.Close()
		}
		c.mu.Unlock()
	}
	for _, m := range ms {
		if m.Signature == "machinery" { // a driver-internal failure is never a verdict
			c.Broken(m.Detail)
			continue
		}
		c.mu.Lock()
		if kf, name, ok := c.lookupKnown(m); ok {
			c.knownHits[name]++
			c.knownDesc[name] = kf.Description
			c.knownKF[name] = kf
			if _, have := c.knownFile[name]; !have && kf.MaxRate > 0 {
				h := sha1.Sum(append(raw, []byte(name)...))
				path := filepath.Join(OutDir(), "replays", fmt.Sprintf("%s-known-%x.json", c.ID, h[:6]))
				rec := map[string]any{"property": c.ID, "signature": m.Signature, "known_finding": name, "detail": m.Detail, "scenario": json.RawMessage(raw)}
				b, _ := json.MarshalIndent(rec, "", " ")
				os.MkdirAll(filepath.Dir(path), 0o755)
				os.WriteFile(path, b, 0o644)
				c.knownFile[name] = path
			}
			if _, have := c.knownEx[name]; !have {
				c.knownEx[name] = m.Detail
			}
			c.mu.Unlock()
			continue
		}
		n := c.violSeen[m.Signature]
		c.violSeen[m.Signature] = n + 1
		c.mu.Unlock()
		if n >= 3 { // at most three replay files per signature
			continue
		}
		// reproduce
		again := c.drv.Replay(c, raw)
		repro := false
		for _, a := range again {
			if a.Signature == m.Signature {
				repro = true
			}
		}
		if !repro {
			c.Broken(fmt.Sprintf("unreproducible mismatch %s: %s scenario=%s", m.Signature, m.Detail, trunc(string(raw), 400)))
			continue
		}
		h := sha1.Sum(append(raw, []byte(m.Signature)...))
		path := filepath.Join(OutDir(), "replays", fmt.Sprintf("%s-%x.json", c.ID, h[:6]))
		rec := map[string]any{"property": c.ID, "signature": m.Signature, "detail": m.Detail, "scenario": json.RawMessage(raw)}
		b, _ := json.MarshalIndent(rec, "", " ")
		os.MkdirAll(filepath.Dir(path), 0o755)
		os.WriteFile(path, b, 0o644)
		c.mu.Lock()
		c.violations++
		c.mu.Unlock()
		fmt.Printf("VIOLATION property=%s replay=%s\n", c.ID, path)
		fmt.Printf("  signature=%s %s\n", m.Signature, trunc(m.Detail, 600))
	}
	return false
}

func trunc(s string, n int) string {
	if len(s) > n {
		return s[:n] + "…"
	}
	return s
}

// Finish writes the evidence file and returns the exit code.
// memWatch ends the run when the process' memory exceeds VERIF_MEM_GB (default 16): a call into the library under
// test that was abandoned by its watchdog cannot be stopped in Go and may keep allocating until the kernel kills the
// process (observed: 61 GB). The run then ends with the verdict reached so far: exit 1 if violations were already
// reproduced and reported, exit 2 (machinery) otherwise.
func (c *Ctx) memWatch() {
	limit := uint64(16) << 30
	if s := os.Getenv("VERIF_MEM_GB"); s != "" {
		if v, err := strconv.ParseUint(s, 10, 64); err == nil && v > 0 {
			limit = v << 30
		}
	}
	sample := []metrics.Sample{{Name: "/memory/classes/total:bytes"}, {Name: "/memory/classes/heap/released:bytes"}}
	for {
		time.Sleep(200 * time.Millisecond)
		metrics.Read(sample)
		use := sample[0].Value.Uint64() - sample[1].Value.Uint64()
		if use > c.peakMem {
			c.peakMem = use
		}
		if use > limit {
			info := ""
			if c.AbortInfo != nil {
				info = "; in flight: " + c.AbortInfo()
			}
			c.Broken(fmt.Sprintf("process memory %d MB exceeds the limit of %d MB (a library call abandoned by its watchdog keeps allocating); run ended early%s", use>>20, limit>>20, info))
			os.Exit(c.Finish())
		}
	}
}

func (c *Ctx) Finish() int {
	c.mu.Lock()
	defer c.mu.Unlock()
	sigs := make([]string, 0, len(c.knownHits))
	for s := range c.knownHits {
		sigs = append(sigs, s)
	}
	sort.Strings(sigs)
	masked := map[string]any{}
	for _, s := range sigs {
		if kf := c.knownKF[s]; kf.MaxRate > 0 {
			allow := int64(kf.MaxRate * float64(c.Traces))
			if allow < kf.MinAllow {
				allow = kf.MinAllow
			}
			if c.knownHits[s] > allow {
				c.violations++
				fmt.Printf("VIOLATION property=%s replay=%s\n", c.ID, c.knownFile[s])
				fmt.Printf("  signature=extent-exceeded:%s the known-finding class was hit by %d of %d scenarios; its recorded extent on the reference tree allows %d (max_rate %g): other inputs than those behind the finding are failing\n", s, c.knownHits[s], c.Traces, allow, kf.MaxRate)
			}
		}
		fmt.Printf("KNOWN-FINDING: property=%s %s: %s (%d scenarios; e.g. %s)\n", c.ID, s, c.knownDesc[s], c.knownHits[s], trunc(c.knownEx[s], 300))
		masked[s] = c.knownHits[s]
	}
	if len(c.violSeen) > 0 {
		vs := make([]string, 0, len(c.violSeen))
		for s := range c.violSeen {
			vs = append(vs, s)
		}
		sort.Strings(vs)
		for _, s := range vs {
			fmt.Printf("violation-class %s: %d scenarios\n", s, c.violSeen[s])
		}
	}
	cov := map[string]any{
		"states": c.States, "transitions": c.Transitions, "traces_validated_against_impl": c.Traces,
		"evaluations": c.Evals, "distinct_nontrivial": c.Nontrivial, "rule": c.Rule, "samples": c.Samples,
		"tlc_runs": c.TLCRuns, "known_finding_hits": masked,
	}
	if len(c.Samples) == 0 {
		cov["samples"] = []any{"(no sample recorded)"}
	}
	for k, v := range c.Extra {
		cov[k] = v
	}
	cov["peak_process_memory_mb"] = c.peakMem >> 20
	ev := map[string]any{
		"property_id": c.ID, "tier": c.Tier, "seed": c.Seed, "level": c.Level, "coverage": cov,
		"assumptions": c.Assumptions, "wall_s": time.Since(c.Start).Seconds(), "violations": c.violations,
	}
	if len(c.broken) > 0 {
		ev["machinery_failures"] = c.broken
	}
	b, _ := json.MarshalIndent(ev, "", " ")
	evdir := "evidence"
	if strings.HasPrefix(c.ID, "X") {
		evdir = "evidence_ext" // extension checks beyond the listed properties keep their evidence apart
	}
	os.MkdirAll(filepath.Join(OutDir(), evdir), 0o755)
	if err := os.WriteFile(filepath.Join(OutDir(), evdir, c.ID+".json"), b, 0o644); err != nil {
		fmt.Fprintln(os.Stderr, "cannot write evidence:", err)
		return 2
	}
	fmt.Printf("%s tier=%s seed=%d states=%d transitions=%d replayed/validated=%d evaluations=%d nontrivial=%d violations=%d known=%d wall=%.1fs\n",
		c.ID, c.Tier, c.Seed, c.States, c.Transitions, c.Traces, c.Evals, c.Nontrivial, c.violations, len(sigs), time.Since(c.Start).Seconds())
	if c.violations > 0 {
		return 1
	}
	if len(c.broken) > 0 {
		return 2
	}
	return 0
}

// RunReplay re-executes a replay file; exit 1 if it still shows the violation.
func RunReplay(d Driver, path string) int {
	b, err := os.ReadFile(path)
	if err != nil {
		fmt.Fprintln(os.Stderr, err)
		return 2
	}
	var rec struct {
		Signature string          `json:"signature"`
		Scenario  json.RawMessage `json:"scenario"`
	}
	if err := json.Unmarshal(b, &rec); err != nil {
		fmt.Fprintln(os.Stderr, err)
		return 2
	}
	c := NewCtx(d, "quick")
	ms := d.Replay(c, rec.Scenario)
	for _, m := range ms {
		fmt.Printf("mismatch signature=%s %s\n", m.Signature, m.Detail)
	}
	for _, m := range ms {
		if _, _, ok := c.lookupKnown(m); !ok {
			fmt.Printf("VIOLATION property=%s replay=%s\n", d.ID(), path)
			return 1
		}
	}
	fmt.Println("replay: no (unlisted) mismatch")
	return 0
}

// ParallelLines feeds payloads to n workers.
func Parallel[T any](n int, items <-chan T, f func(T)) {
	var wg sync.WaitGroup
	for i := 0; i < n; i++ {
		wg.Add(1)
		go func() {
			defer wg.Done()
			for it := range items {
				f(it)
			}
		}()
	}
	wg.Wait()
}
