// Package latgeo turns the abstract lattice scenarios printed by the TLA+ geometry modules into real
// canvas paths (under an affine embedding) and projects real results back onto the sample cells.
package latgeo

import (
	"fmt"
	"math"
	"regexp"
	"strings"
	"time"

	"github.com/tdewolff/canvas"

	"verif/harness/internal/oracle"
)

// Emb is an affine embedding x' = A x + B y + E, y' = C x + D y + F of lattice coordinates.
type Emb struct {
	Name             string
	A, B, C, D, E, F float64
}

func (e Emb) Map(x, y float64) (float64, float64) {
	return e.A*x + e.B*y + e.E, e.C*x + e.D*y + e.F
}
func (e Emb) Det() float64 { return e.A*e.D - e.B*e.C }

// Standard embeddings. Region membership is invariant under all of them.
var (
	Identity = Emb{"id", 1, 0, 0, 1, 0, 0}
	// the 8 symmetries of the square lattice (about the origin; translation irrelevant)
	Symmetries = []Emb{
		{"id", 1, 0, 0, 1, 0, 0}, {"rot90", 0, -1, 1, 0, 0, 0}, {"rot180", -1, 0, 0, -1, 0, 0}, {"rot270", 0, 1, -1, 0, 0, 0},
		{"flipx", -1, 0, 0, 1, 0, 0}, {"flipy", 1, 0, 0, -1, 0, 0}, {"transpose", 0, 1, 1, 0, 0, 0}, {"antitranspose", 0, -1, -1, 0, 0, 0},
	}
	Translate = Emb{"translate", 1, 0, 0, 1, 1000.5, -333.25}
	Tiny      = Emb{"scale1e-3", 1e-3, 0, 0, 1e-3, 0, 0}
	Huge      = Emb{"scale1e4", 1e4, 0, 0, 1e4, 0, 0}
	Pyth      = Emb{"rot-3-4-5", 0.8, -0.6, 0.6, 0.8, 0, 0}
	Rot17     = Emb{"rot17", math.Cos(17 * math.Pi / 180), -math.Sin(17 * math.Pi / 180), math.Sin(17 * math.Pi / 180), math.Cos(17 * math.Pi / 180), 3.25, 1.125}
	Shear     = Emb{"shear", 1, 0.5, 0, 1, 0, 0}
	Aniso     = Emb{"aniso", 3, 0, 0, 0.5, 0, 0}
	// Jitter: the identity plus a deterministic offset of -4..4 x 1e-9 per coordinate and vertex OCCURRENCE (see BuildSalt):
	// points that coincide in the lattice scenario become near-coincident, closer than the library's 1e-8 snap grid
	Jitter  = Emb{"jitter", 1, 0, 0, 1, 0, 0}
	Jitter2 = Emb{"jitter2", 1, 0, 0, 1, 0, 0} // another family of offsets
)

// Contour / Path in lattice units.
type LContour [][2]int
type LPath []LContour

// Build constructs the real path: every contour is MoveTo, LineTo..., Close.
func Build(p LPath, e Emb) *canvas.Path { return BuildSalt(p, e, 0) }

// BuildSalt is Build; under the Jitter embedding the sub-grid offsets depend on (salt, contour, vertex index), so the
// same lattice point gets different offsets in different operands / contours / positions.
func BuildSalt(p LPath, e Emb, salt int) *canvas.Path {
	out := &canvas.Path{}
	jitter := strings.HasPrefix(e.Name, "jitter")
	for ci, c := range p {
		for i, v := range c {
			x, y := e.Map(float64(v[0]), float64(v[1]))
			if jitter {
				h := uint32(2166136261)
				for _, k := range []int{salt + 31*len(e.Name), ci, i, v[0], v[1]} {
					h = (h ^ uint32(k+7)) * 16777619
				}
				h >>= 3
				x += float64(int(h%9)-4) * 1e-9
				y += float64(int(h/9%9)-4) * 1e-9
			}
			if i == 0 {
				out.MoveTo(x, y)
			} else {
				out.LineTo(x, y)
			}
		}
		out.Close()
	}
	return out
}

// SVG renders the lattice path as SVG path data (for messages).
func (p LPath) SVG() string {
	var b strings.Builder
	for _, c := range p {
		for i, v := range c {
			if i == 0 {
				fmt.Fprintf(&b, "M%d %d", v[0], v[1])
			} else {
				fmt.Fprintf(&b, "L%d %d", v[0], v[1])
			}
		}
		b.WriteString("z")
	}
	return b.String()
}

// Samples are given by the spec in scaled coordinates (scale S); SamplePts maps them into the embedding.
func SamplePts(samples [][2]int, S int, e Emb) []oracle.Pt {
	out := make([]oracle.Pt, len(samples))
	for i, s := range samples {
		x, y := e.Map(float64(s[0])/float64(S), float64(s[1])/float64(S))
		out[i] = oracle.Pt{X: x, Y: y}
	}
	return out
}

// Windings evaluates the winding number of the real path (raw data) at the points with the independent oracle.
func Windings(p *canvas.Path, pts []oracle.Pt, curveSteps int) ([]int, error) {
	cs, err := oracle.FlattenData(p.Data(), curveSteps)
	if err != nil {
		return nil, err
	}
	out := make([]int, len(pts))
	for i, pt := range pts {
		out[i] = oracle.Winding(cs, pt)
	}
	return out, nil
}

// Area of the real path's contours (signed, as traced).
func Area(p *canvas.Path) float64 {
	cs, err := oracle.FlattenData(p.Data(), 64)
	if err != nil {
		return math.NaN()
	}
	return oracle.Area2(cs) / 2
}

var reNum = regexp.MustCompile(`-?\d+(\.\d+)?(e[-+]?\d+)?`)

// PanicClass normalises a panic message into a class (numbers removed).
func PanicClass(r any) string {
	s := fmt.Sprint(r)
	s = reNum.ReplaceAllString(s, "#")
	if len(s) > 80 {
		s = s[:80]
	}
	return strings.ReplaceAll(s, " ", "_")
}

// Guard runs f under recover and a watchdog. It returns ("", nil) on success, ("panic", msg) or ("timeout", ..).
func Guard(d time.Duration, f func()) (kind string, msg any) {
	done := make(chan struct{})
	go func() {
		defer func() {
			if r := recover(); r != nil {
				kind, msg = "panic", r
			}
			close(done)
		}()
		f()
	}()
	select {
	case <-done:
		return
	case <-time.After(d):
		return "timeout", fmt.Sprintf("no result after %v", d)
	}
}

// Try runs f under recover only (cheap, for bulk runs); ok=false and the panic value otherwise.
func Try(f func()) (ok bool, msg any) {
	defer func() {
		if r := recover(); r != nil {
			ok, msg = false, r
		}
	}()
	f()
	return true, nil
}

// ---- curved lattice paths (spec/CurvedOps.tla) ------------------------------------------------------------------

// CSeg is one cubic segment of a curved contour: it starts at P, has control points C1, C2 and ends at the P of the
// next segment of the (closed) contour.
type CSeg struct {
	P  [2]int `json:"p"`
	C1 [2]int `json:"c1"`
	C2 [2]int `json:"c2"`
}
type CContour []CSeg
type CPath []CContour

// BuildCurved constructs the real path: MoveTo, CubeTo..., Close per contour.
func BuildCurved(p CPath, e Emb) *canvas.Path {
	out := &canvas.Path{}
	for _, c := range p {
		for i, s := range c {
			x, y := e.Map(float64(s.P[0]), float64(s.P[1]))
			if i == 0 {
				out.MoveTo(x, y)
			}
			n := c[(i+1)%len(c)].P
			x1, y1 := e.Map(float64(s.C1[0]), float64(s.C1[1]))
			x2, y2 := e.Map(float64(s.C2[0]), float64(s.C2[1]))
			x3, y3 := e.Map(float64(n[0]), float64(n[1]))
			_ = x
			_ = y
			out.CubeTo(x1, y1, x2, y2, x3, y3)
		}
		out.Close()
	}
	return out
}

func (p CPath) SVG() string {
	var b strings.Builder
	for _, c := range p {
		for i, s := range c {
			if i == 0 {
				fmt.Fprintf(&b, "M%d %d", s.P[0], s.P[1])
			}
			n := c[(i+1)%len(c)].P
			fmt.Fprintf(&b, "C%d %d %d %d %d %d", s.C1[0], s.C1[1], s.C2[0], s.C2[1], n[0], n[1])
		}
		b.WriteString("z")
	}
	return b.String()
}

// CurvedEmbeddings: the library flattens curves with an absolute tolerance (0.01), so curved scenarios are embedded at
// large scales only, where that tolerance is far below the distance of any decided sample from a piece hull.
var CurvedEmbeddings = []Emb{
	{"scale1e4", 1e4, 0, 0, 1e4, 0, 0},
	{"scale1e4-rot90", 0, -1e4, 1e4, 0, 0, 0},
	{"scale1e4-flipx", -1e4, 0, 0, 1e4, 0, 0},
	{"scale1e4-transpose", 0, 1e4, 1e4, 0, 0, 0},
	{"scale5e3-rot-3-4-5", 4e3, -3e3, 3e3, 4e3, 250.5, -100.25},
}

// NaturalEmbeddings: unit-scale embeddings for curved scenarios; the expectation then carries the flattening margin.
var NaturalEmbeddings = []Emb{
	{"id", 1, 0, 0, 1, 0, 0}, {"rot90", 0, -1, 1, 0, 0, 0}, {"flipx", -1, 0, 0, 1, 0, 0}, {"transpose", 0, 1, 1, 0, 0, 0},
	{"rot-3-4-5", 0.8, -0.6, 0.6, 0.8, 0, 0}, {"translate", 1, 0, 0, 1, 1000.5, -333.25}, {"scale3", 3, 0, 0, 3, 0, 0},
}
