package oracle

// Projections used by the X01 (regions) check: the vertices of polygonal results as they are stored in the raw command
// stream, and point-in-triangle classification. Nothing here calls canvas geometry code.

import (
	"fmt"
	"math"
)

// SubPath is one sub-path of a polygonal path: the vertices as traced (the point a Close returns to is not repeated)
// and whether it ends with a Close command.
type SubPath struct {
	Pts    []Pt
	Closed bool
	// BadClose: the sub-path ends with a Close command whose coordinates are not the sub-path's start (ill-formed);
	// the coordinates are then kept as one more vertex and Closed stays false.
	BadClose bool
}

// PolySubPaths decodes a command stream that may only hold MoveTo, LineTo and Close.
func PolySubPaths(d []float64) ([]SubPath, error) {
	segs, err := Decode(d)
	if err != nil {
		return nil, err
	}
	var out []SubPath
	for _, s := range segs {
		switch s.Cmd {
		case CmdMove:
			out = append(out, SubPath{Pts: []Pt{s.End}})
		case CmdLine:
			if len(out) == 0 {
				return nil, fmt.Errorf("LineTo before any MoveTo")
			}
			out[len(out)-1].Pts = append(out[len(out)-1].Pts, s.End)
		case CmdClose:
			if len(out) == 0 {
				return nil, fmt.Errorf("Close before any MoveTo")
			}
			sp := &out[len(out)-1]
			if s.End != sp.Pts[0] {
				sp.Pts = append(sp.Pts, s.End)
				sp.BadClose = true
			} else {
				sp.Closed = true
			}
		default:
			return nil, fmt.Errorf("offset %d: command %v in a polygonal result", s.Index, s.Cmd)
		}
	}
	return out, nil
}

// TriArea2 is twice the signed area of the triangle abc.
func TriArea2(a, b, c Pt) float64 { return b.Sub(a).Cross(c.Sub(a)) }

// InTriangle classifies p against the triangle abc: +1 strictly inside, -1 strictly outside, 0 closer to an edge's
// line than tol (relative to the edge length) while not clearly outside.
func InTriangle(a, b, c, p Pt, tol float64) int {
	if TriArea2(a, b, c) < 0 {
		b, c = c, b
	}
	res := 1
	for _, e := range [3][2]Pt{{a, b}, {b, c}, {c, a}} {
		l := e[1].Sub(e[0]).Len()
		if l == 0 {
			return -1 // degenerate triangle: contains nothing
		}
		d := e[1].Sub(e[0]).Cross(p.Sub(e[0])) / l // signed distance from the edge's line
		if d < -tol {
			return -1
		}
		if math.Abs(d) <= tol {
			res = 0
		}
	}
	return res
}
