// gslex.go: lexers for the three output languages checked by C12 (PDF content streams, PostScript, SVG).
// They only split bytes into operators / elements with their operands (syntax); the meaning of the operators
// lives in spec/GState.tla. Independent of pdfread.go on purpose (C12 must not depend on the C13 reader).
// Standard library only; nothing here calls canvas.
package oracle

import (
	"bytes"
	"compress/zlib"
	"encoding/xml"
	"fmt"
	"io"
	"math"
	"regexp"
	"strconv"
	"strings"
)

// GSOp is one operator with its operands, in source order.
type GSOp struct {
	Op   string
	Nums []float64 // numeric operands outside arrays
	Arr  []float64 // numeric content of the (last) array operand
	Has  bool      // an array operand was present
	Name string    // last name operand (without the slash)
	Dict map[string][]float64 // PostScript dictionary operand: numeric values / arrays by key
}

// ---------------------------------------------------------------------------------------------
// PDF: page content stream + ExtGState dictionary
// ---------------------------------------------------------------------------------------------

// GSPDFPage is what C12 needs from a one-page PDF file.
type GSPDFPage struct {
	Content  []byte
	ExtG     map[string][2]float64 // name -> {CA, ca}
	MediaBox [4]float64
}

var gsReObj = regexp.MustCompile(`(?m)^(\d+) 0 obj\n`)

// GSReadPDFPage finds the (single) page of a PDF written by the back-end, its content stream (inflated when
// /Filter/FlateDecode) and its ExtGState resources. It scans objects by their "N 0 obj" headers.
func GSReadPDFPage(b []byte) (*GSPDFPage, error) {
	objs := map[int][]byte{}
	locs := gsReObj.FindAllSubmatchIndex(b, -1)
	for i, m := range locs {
		n, _ := strconv.Atoi(string(b[m[2]:m[3]]))
		end := len(b)
		if i+1 < len(locs) {
			end = locs[i+1][0]
		}
		objs[n] = b[m[1]:end]
	}
	var page []byte
	for _, o := range objs {
		if bytes.HasPrefix(o, []byte("<<")) && bytes.Contains(o, []byte("/Type/Page/")) || bytes.Contains(o, []byte("/Type/Page>>")) {
			if !bytes.Contains(o, []byte("/Type/Pages")) {
				page = o
			}
		}
	}
	if page == nil {
		for _, o := range objs {
			if bytes.Contains(o, []byte("/Contents")) && bytes.Contains(o, []byte("/MediaBox")) {
				page = o
			}
		}
	}
	if page == nil {
		return nil, fmt.Errorf("no page object found")
	}
	out := &GSPDFPage{ExtG: map[string][2]float64{}}
	m := regexp.MustCompile(`/Contents (\d+) 0 R`).FindSubmatch(page)
	if m == nil {
		return nil, fmt.Errorf("page has no /Contents reference")
	}
	cn, _ := strconv.Atoi(string(m[1]))
	co, ok := objs[cn]
	if !ok {
		return nil, fmt.Errorf("content object %d missing", cn)
	}
	si := bytes.Index(co, []byte("stream\n"))
	ei := bytes.LastIndex(co, []byte("\nendstream"))
	if si < 0 || ei < si {
		return nil, fmt.Errorf("content object %d has no stream", cn)
	}
	dict, data := co[:si], co[si+7:ei]
	if bytes.Contains(dict, []byte("/FlateDecode")) {
		zr, err := zlib.NewReader(bytes.NewReader(data))
		if err != nil {
			return nil, fmt.Errorf("content stream: %v", err)
		}
		d, err := io.ReadAll(zr)
		if err != nil {
			return nil, fmt.Errorf("content stream: %v", err)
		}
		data = d
	}
	out.Content = data
	if mb := regexp.MustCompile(`/MediaBox\[([^\]]*)\]`).FindSubmatch(page); mb != nil {
		f := strings.Fields(string(mb[1]))
		for i := 0; i < 4 && i < len(f); i++ {
			out.MediaBox[i], _ = strconv.ParseFloat(f[i], 64)
		}
	}
	if i := bytes.Index(page, []byte("/ExtGState<<")); i >= 0 {
		// entries /Name<</CA x/ca y>> (keys in any order)
		rest := page[i+len("/ExtGState<<"):]
		re := regexp.MustCompile(`^/([A-Za-z0-9]+)<<([^<>]*)>>`)
		for {
			mm := re.FindSubmatch(rest)
			if mm == nil {
				break
			}
			var v [2]float64
			v[0], v[1] = 1, 1
			f := strings.Fields(strings.ReplaceAll(string(mm[2]), "/", " /"))
			for j := 0; j+1 < len(f); j += 2 {
				x, _ := strconv.ParseFloat(f[j+1], 64)
				switch f[j] {
				case "/CA":
					v[0] = x
				case "/ca":
					v[1] = x
				}
			}
			out.ExtG[string(mm[1])] = v
			rest = rest[len(mm[0]):]
		}
	}
	return out, nil
}

func gsIsWS(c byte) bool { return c == ' ' || c == '\n' || c == '\r' || c == '\t' || c == '\f' || c == 0 }
func gsIsDelim(c byte) bool {
	return c == '(' || c == ')' || c == '<' || c == '>' || c == '[' || c == ']' || c == '{' || c == '}' || c == '/' || c == '%'
}

// GSLexPDFContent splits a content stream into operators. Strings and inline images are not expected in the
// streams C12 produces; strings are skipped, anything else that is not a number, name or array is an operator.
func GSLexPDFContent(b []byte) ([]GSOp, error) {
	var ops []GSOp
	cur := GSOp{}
	inArr := false
	i := 0
	for i < len(b) {
		c := b[i]
		switch {
		case gsIsWS(c):
			i++
		case c == '%':
			for i < len(b) && b[i] != '\n' {
				i++
			}
		case c == '[':
			inArr, cur.Has, cur.Arr = true, true, nil
			i++
		case c == ']':
			inArr = false
			i++
		case c == '(':
			depth := 0
			for i < len(b) {
				if b[i] == '\\' {
					i += 2
					continue
				}
				if b[i] == '(' {
					depth++
				} else if b[i] == ')' {
					depth--
					if depth == 0 {
						i++
						break
					}
				}
				i++
			}
		case c == '/':
			j := i + 1
			for j < len(b) && !gsIsWS(b[j]) && !gsIsDelim(b[j]) {
				j++
			}
			cur.Name = string(b[i+1 : j])
			i = j
		case c == '<' || c == '>':
			return ops, fmt.Errorf("offset %d: unexpected %q in content stream", i, c)
		default:
			j := i
			for j < len(b) && !gsIsWS(b[j]) && !gsIsDelim(b[j]) {
				j++
			}
			tok := string(b[i:j])
			if j == i {
				return ops, fmt.Errorf("offset %d: unexpected %q", i, c)
			}
			i = j
			if v, err := strconv.ParseFloat(tok, 64); err == nil && !strings.ContainsAny(tok, "xXpPn") {
				if inArr {
					cur.Arr = append(cur.Arr, v)
				} else {
					cur.Nums = append(cur.Nums, v)
				}
				continue
			}
			cur.Op = tok
			ops = append(ops, cur)
			cur = GSOp{}
		}
	}
	if len(cur.Nums) > 0 || cur.Has || cur.Name != "" {
		return ops, fmt.Errorf("operands without operator at the end of the stream")
	}
	return ops, nil
}

// ---------------------------------------------------------------------------------------------
// PostScript
// ---------------------------------------------------------------------------------------------

// GSLexPS splits a PostScript program of the shape the ps back-end writes into operators. DSC comments
// "%%Key: values" become operators named "%%Key" with the numeric values; "/name {..} def" becomes operator
// "def" with Name = name (the body is skipped); the data following "image" is skipped up to "~>".
func GSLexPS(b []byte) ([]GSOp, error) {
	var ops []GSOp
	cur := GSOp{}
	inArr := false
	var dictKey string
	inDict := false
	hadProc := false
	i := 0
	for i < len(b) {
		c := b[i]
		switch {
		case gsIsWS(c):
			i++
		case c == '%':
			j := i
			for j < len(b) && b[j] != '\n' {
				j++
			}
			line := string(b[i:j])
			i = j
			if strings.HasPrefix(line, "%%") {
				key, val, _ := strings.Cut(line, ":")
				op := GSOp{Op: key}
				for _, f := range strings.Fields(val) {
					if v, err := strconv.ParseFloat(f, 64); err == nil {
						op.Nums = append(op.Nums, v)
					}
				}
				if key == "%%BoundingBox" || key == "%%EOF" {
					ops = append(ops, op)
				}
			}
		case c == '[':
			inArr, cur.Has, cur.Arr = true, true, nil
			i++
		case c == ']':
			inArr = false
			if inDict && dictKey != "" {
				cur.Dict[dictKey] = cur.Arr
				dictKey = ""
			}
			i++
		case c == '{':
			depth := 0
			for i < len(b) {
				if b[i] == '{' {
					depth++
				} else if b[i] == '}' {
					depth--
					if depth == 0 {
						i++
						break
					}
				}
				i++
			}
			hadProc = true
		case c == '<' && i+1 < len(b) && b[i+1] == '<':
			inDict = true
			cur.Dict = map[string][]float64{}
			i += 2
		case c == '>' && i+1 < len(b) && b[i+1] == '>':
			inDict = false
			i += 2
		case c == '/':
			j := i + 1
			for j < len(b) && !gsIsWS(b[j]) && !gsIsDelim(b[j]) {
				j++
			}
			name := string(b[i+1 : j])
			i = j
			if inDict && dictKey == "" {
				dictKey = name
			} else {
				if inDict {
					dictKey = "" // name value
				} else {
					cur.Name = name
				}
			}
		case c == '(' || c == ')' || c == '<' || c == '>' || c == '}':
			return ops, fmt.Errorf("offset %d: unexpected %q in PostScript", i, c)
		default:
			j := i
			for j < len(b) && !gsIsWS(b[j]) && !gsIsDelim(b[j]) {
				j++
			}
			tok := string(b[i:j])
			i = j
			if v, err := strconv.ParseFloat(tok, 64); err == nil && !strings.ContainsAny(tok, "xXpPn") {
				switch {
				case inArr:
					cur.Arr = append(cur.Arr, v)
				case inDict:
					if dictKey != "" {
						cur.Dict[dictKey] = []float64{v}
						dictKey = ""
					}
				default:
					cur.Nums = append(cur.Nums, v)
				}
				continue
			}
			if inDict { // keyword value inside a dictionary (true, currentfile, filter ...)
				dictKey = ""
				continue
			}
			if tok == "def" && !hadProc {
				// "/name value def": not used by the back-end; keep as operator
			}
			cur.Op = tok
			hadProc = false
			ops = append(ops, cur)
			cur = GSOp{}
			if tok == "image" {
				k := bytes.Index(b[i:], []byte("~>"))
				if k < 0 {
					return ops, fmt.Errorf("image data without end marker")
				}
				i += k + 2
			}
		}
	}
	return ops, nil
}

// ---------------------------------------------------------------------------------------------
// SVG
// ---------------------------------------------------------------------------------------------

// GSProp is one declared presentation property of an element.
type GSProp struct {
	N   string    `json:"n"`
	Src string    `json:"src"` // attr | style
	T   string    `json:"t"`   // none | color | num | nums | kw
	V   []int     `json:"v"`
	S   string    `json:"s"`
	G   int       `json:"g"`
	F   []float64 `json:"-"` // raw numbers
}

// GSCmd is one path data command (implicit repetitions already split).
type GSCmd struct {
	C string    `json:"c"`
	A []int     `json:"a"`
	G int       `json:"g"`
	F []float64 `json:"-"`
}

// GSTf is one transform function.
type GSTf struct {
	F   string    `json:"f"`
	A   []int     `json:"a"`
	G   int       `json:"g"`
	Raw []float64 `json:"-"`
}

// GSElem is one SVG element in document order.
type GSElem struct {
	Tag    string
	Props  []GSProp
	D      []GSCmd
	Tf     []GSTf
	HasTf  bool
	Attr   map[string]string
}

var gsPresentation = map[string]bool{"fill": true, "stroke": true, "stroke-width": true, "stroke-linecap": true, "stroke-linejoin": true,
	"stroke-miterlimit": true, "stroke-dasharray": true, "stroke-dashoffset": true, "fill-rule": true, "opacity": true, "fill-opacity": true, "stroke-opacity": true}

// GSSnap rounds to the integer lattice; ok reports |x - round(x)| <= tol.
func GSSnap(x, tol float64) (int, bool) {
	r := math.Round(x)
	if math.IsNaN(x) || math.Abs(r) > 1e6 {
		return 0, false
	}
	return int(r), math.Abs(x-r) <= tol
}

func gsSnapAll(f []float64, tol float64) ([]int, int) {
	out := make([]int, len(f))
	g := 1
	for i, x := range f {
		v, ok := GSSnap(x, tol)
		if !ok {
			g = 0
		}
		out[i] = v
	}
	return out, g
}

var gsNamed = map[string][3]int{"black": {0, 0, 0}, "white": {255, 255, 255}, "red": {255, 0, 0}, "green": {0, 128, 0}, "blue": {0, 0, 255}, "lime": {0, 255, 0},
	"gray": {128, 128, 128}, "grey": {128, 128, 128}, "maroon": {128, 0, 0}, "navy": {0, 0, 128}, "yellow": {255, 255, 0}}

// gsParseColor understands #rgb, #rrggbb, rgb(), rgba() and a few names. Result r,g,b,a in 0..255.
func gsParseColor(s string) ([]int, bool) {
	s = strings.TrimSpace(strings.ToLower(s))
	hex := func(h string) (int, bool) {
		v, err := strconv.ParseUint(h, 16, 16)
		return int(v), err == nil
	}
	if strings.HasPrefix(s, "#") {
		h := s[1:]
		if len(h) == 3 {
			h = string([]byte{h[0], h[0], h[1], h[1], h[2], h[2]})
		}
		if len(h) != 6 {
			return nil, false
		}
		r, ok1 := hex(h[0:2])
		g, ok2 := hex(h[2:4])
		b, ok3 := hex(h[4:6])
		return []int{r, g, b, 255}, ok1 && ok2 && ok3
	}
	if strings.HasPrefix(s, "rgb") {
		i, j := strings.IndexByte(s, '('), strings.LastIndexByte(s, ')')
		if i < 0 || j < i {
			return nil, false
		}
		parts := strings.Split(s[i+1:j], ",")
		if len(parts) != 3 && len(parts) != 4 {
			return nil, false
		}
		out := []int{0, 0, 0, 255}
		for k := 0; k < 3; k++ {
			v, err := strconv.ParseFloat(strings.TrimSpace(parts[k]), 64)
			if err != nil || v != math.Round(v) || v < 0 || v > 255 {
				return nil, false
			}
			out[k] = int(v)
		}
		if len(parts) == 4 {
			a, err := strconv.ParseFloat(strings.TrimSpace(parts[3]), 64)
			if err != nil {
				return nil, false
			}
			v, ok := GSSnap(a*255, 2e-3)
			if !ok {
				return nil, false
			}
			out[3] = v
		}
		return out, true
	}
	if c, ok := gsNamed[s]; ok {
		return []int{c[0], c[1], c[2], 255}, true
	}
	return nil, false
}

func gsNumbers(s string) ([]float64, bool) {
	var out []float64
	i := 0
	for i < len(s) {
		c := s[i]
		if c == ' ' || c == ',' || c == '\t' || c == '\n' || c == '\r' {
			i++
			continue
		}
		j := i
		if j < len(s) && (s[j] == '-' || s[j] == '+') {
			j++
		}
		dot := false
		for j < len(s) && (s[j] >= '0' && s[j] <= '9' || s[j] == '.' && !dot) {
			if s[j] == '.' {
				dot = true
			}
			j++
		}
		if j < len(s) && (s[j] == 'e' || s[j] == 'E') {
			k := j + 1
			if k < len(s) && (s[k] == '-' || s[k] == '+') {
				k++
			}
			if k < len(s) && s[k] >= '0' && s[k] <= '9' {
				for k < len(s) && s[k] >= '0' && s[k] <= '9' {
					k++
				}
				j = k
			}
		}
		v, err := strconv.ParseFloat(s[i:j], 64)
		if err != nil {
			return out, false
		}
		out = append(out, v)
		i = j
	}
	return out, true
}

func gsProp(name, src, val string) GSProp {
	p := GSProp{N: name, Src: src, V: []int{}, G: 1}
	val = strings.TrimSpace(val)
	switch name {
	case "fill", "stroke":
		if val == "none" {
			p.T = "none"
		} else if c, ok := gsParseColor(val); ok {
			p.T, p.V = "color", c
		} else {
			p.T, p.S, p.G = "kw", val, 0 // url(#..), currentColor: outside the model
		}
	case "stroke-linecap", "stroke-linejoin", "fill-rule":
		p.T, p.S = "kw", val
	case "stroke-dasharray":
		if val == "none" {
			p.T = "none"
		} else if f, ok := gsNumbers(val); ok && len(f) > 0 {
			p.T, p.F = "nums", f
			p.V, p.G = gsSnapAll(f, 1e-6)
		} else {
			p.T, p.S, p.G = "kw", val, 0
		}
	case "opacity", "fill-opacity", "stroke-opacity":
		if f, ok := gsNumbers(val); ok && len(f) == 1 {
			v, on := GSSnap(f[0]*255, 2e-3)
			p.T, p.V, p.F = "num", []int{v}, f
			if !on {
				p.G = 0
			}
		} else {
			p.T, p.S, p.G = "kw", val, 0
		}
	default: // numbers
		if f, ok := gsNumbers(val); ok && len(f) == 1 {
			p.T, p.F = "num", f
			p.V, p.G = gsSnapAll(f, 1e-6)
		} else {
			p.T, p.S, p.G = "kw", val, 0
		}
	}
	return p
}

var gsPathArity = map[byte]int{'M': 2, 'L': 2, 'H': 1, 'V': 1, 'C': 6, 'S': 4, 'Q': 4, 'T': 2, 'A': 7, 'Z': 0}

// GSParsePathData tokenises SVG path data; implicit repetitions are expanded (M x y x y = M x y L x y).
func GSParsePathData(s string) ([]GSCmd, error) {
	var out []GSCmd
	i := 0
	for i < len(s) {
		c := s[i]
		if c == ' ' || c == ',' || c == '\n' || c == '\t' || c == '\r' {
			i++
			continue
		}
		up := c &^ 0x20
		n, ok := gsPathArity[up]
		if !ok || !(c >= 'A' && c <= 'Z' || c >= 'a' && c <= 'z') {
			return out, fmt.Errorf("path data offset %d: unexpected %q", i, c)
		}
		i++
		if n == 0 {
			out = append(out, GSCmd{C: string(c), A: []int{}, G: 1})
			continue
		}
		// numbers up to the next command letter; arc flags may be glued ("0 01 5 5")
		j := i
		for j < len(s) && !(s[j] >= 'A' && s[j] <= 'Z' && s[j] != 'E' || s[j] >= 'a' && s[j] <= 'z' && s[j] != 'e') {
			j++
		}
		seg := s[i:j]
		var nums []float64
		if up == 'A' {
			nums, ok = gsArcNumbers(seg)
		} else {
			nums, ok = gsNumbers(seg)
		}
		if !ok || len(nums) == 0 || len(nums)%n != 0 {
			return out, fmt.Errorf("path data: command %q has %d operands", c, len(nums))
		}
		i = j
		for k := 0; k < len(nums); k += n {
			cc := c
			if k > 0 && up == 'M' {
				if c == 'M' {
					cc = 'L'
				} else {
					cc = 'l'
				}
			}
			f := nums[k : k+n]
			a, g := gsSnapAll(f, 1e-6)
			out = append(out, GSCmd{C: string(cc), A: a, G: g, F: f})
		}
	}
	return out, nil
}

// arcs: rx ry rot large sweep x y with the two flags possibly written without separators
func gsArcNumbers(s string) ([]float64, bool) {
	var out []float64
	i := 0
	for i < len(s) {
		if s[i] == ' ' || s[i] == ',' {
			i++
			continue
		}
		pos := len(out) % 7
		if pos == 3 || pos == 4 {
			if s[i] != '0' && s[i] != '1' {
				return out, false
			}
			out = append(out, float64(s[i]-'0'))
			i++
			continue
		}
		j := i
		if s[j] == '-' || s[j] == '+' {
			j++
		}
		dot := false
		for j < len(s) && (s[j] >= '0' && s[j] <= '9' || s[j] == '.' && !dot) {
			if s[j] == '.' {
				dot = true
			}
			j++
		}
		v, err := strconv.ParseFloat(s[i:j], 64)
		if err != nil {
			return out, false
		}
		out = append(out, v)
		i = j
	}
	return out, true
}

var gsReTf = regexp.MustCompile(`([a-zA-Z]+)\s*\(([^)]*)\)`)

// GSParseTransform splits a transform attribute into its functions.
func GSParseTransform(s string) ([]GSTf, error) {
	var out []GSTf
	for _, m := range gsReTf.FindAllStringSubmatch(s, -1) {
		f, ok := gsNumbers(m[2])
		if !ok {
			return out, fmt.Errorf("transform %q: bad numbers", m[0])
		}
		a, g := gsSnapAll(f, 1e-6)
		out = append(out, GSTf{F: m[1], A: a, G: g, Raw: f})
	}
	return out, nil
}

// GSTfMatrix composes a transform list numerically: returns a b c d e f (SVG order) of T1*T2*...
func GSTfMatrix(tf []GSTf) ([6]float64, bool) {
	m := [6]float64{1, 0, 0, 1, 0, 0}
	mul := func(p, q [6]float64) [6]float64 { // p*q, column vectors, SVG order a b c d e f
		return [6]float64{p[0]*q[0] + p[2]*q[1], p[1]*q[0] + p[3]*q[1], p[0]*q[2] + p[2]*q[3], p[1]*q[2] + p[3]*q[3],
			p[0]*q[4] + p[2]*q[5] + p[4], p[1]*q[4] + p[3]*q[5] + p[5]}
	}
	for _, t := range tf {
		r := t.Raw
		var q [6]float64
		switch t.F {
		case "matrix":
			if len(r) != 6 {
				return m, false
			}
			copy(q[:], r)
		case "translate":
			if len(r) == 1 {
				r = append(r, 0)
			}
			if len(r) != 2 {
				return m, false
			}
			q = [6]float64{1, 0, 0, 1, r[0], r[1]}
		case "scale":
			if len(r) == 1 {
				r = append(r, r[0])
			}
			if len(r) != 2 {
				return m, false
			}
			q = [6]float64{r[0], 0, 0, r[1], 0, 0}
		case "rotate":
			if len(r) != 1 {
				return m, false // rotate(a,cx,cy) is not written by the back-end
			}
			s, c := math.Sincos(r[0] * math.Pi / 180)
			q = [6]float64{c, s, -s, c, 0, 0}
		case "skewX":
			q = [6]float64{1, 0, math.Tan(r[0] * math.Pi / 180), 1, 0, 0}
		case "skewY":
			q = [6]float64{1, math.Tan(r[0] * math.Pi / 180), 0, 1, 0, 0}
		default:
			return m, false
		}
		m = mul(m, q)
	}
	return m, true
}

// GSReadSVG returns the elements of the document in order (svg, path, image, defs, style, ...). Children of defs,
// style, mask, clipPath are not reported.
func GSReadSVG(b []byte) ([]GSElem, error) {
	dec := xml.NewDecoder(bytes.NewReader(b))
	var out []GSElem
	skip := 0
	for {
		tok, err := dec.Token()
		if err == io.EOF {
			break
		}
		if err != nil {
			return out, err
		}
		switch t := tok.(type) {
		case xml.StartElement:
			if skip > 0 {
				skip++
				continue
			}
			e := GSElem{Tag: t.Name.Local, Attr: map[string]string{}}
			for _, a := range t.Attr {
				e.Attr[a.Name.Local] = a.Value
			}
			for _, a := range t.Attr { // presentation attributes in document order
				if gsPresentation[a.Name.Local] {
					e.Props = append(e.Props, gsProp(a.Name.Local, "attr", a.Value))
				}
			}
			if st, ok := e.Attr["style"]; ok {
				for _, decl := range strings.Split(st, ";") {
					k, v, ok := strings.Cut(decl, ":")
					k = strings.TrimSpace(k)
					if ok && gsPresentation[k] {
						e.Props = append(e.Props, gsProp(k, "style", v))
					}
				}
			}
			if d, ok := e.Attr["d"]; ok {
				cmds, err := GSParsePathData(d)
				if err != nil {
					return out, err
				}
				e.D = cmds
			}
			if tr, ok := e.Attr["transform"]; ok {
				tf, err := GSParseTransform(tr)
				if err != nil {
					return out, err
				}
				e.Tf, e.HasTf = tf, true
			}
			out = append(out, e)
			switch e.Tag {
			case "defs", "style", "mask", "clipPath", "pattern", "linearGradient", "radialGradient":
				skip = 1
			}
		case xml.EndElement:
			if skip > 0 {
				skip--
			}
		}
	}
	return out, nil
}

// ---------------------------------------------------------------------------------------------
// float geometry of constructed paths (only used to sample the region an outline fill paints)
// ---------------------------------------------------------------------------------------------

// GSGeo accumulates the current path of a PDF / PS / SVG interpreter run as fine polylines in canvas space.
type GSGeo struct {
	CTM   [6]float64 // x' = a x + c y + e ; y' = b x + d y + f   (a b c d e f)
	Subs  []Contour
	cur   Pt // current point in user space
	start Pt
}

func GSNewGeo() *GSGeo { return &GSGeo{CTM: [6]float64{1, 0, 0, 1, 0, 0}} }

func (g *GSGeo) dev(p Pt) Pt {
	return Pt{g.CTM[0]*p.X + g.CTM[2]*p.Y + g.CTM[4], g.CTM[1]*p.X + g.CTM[3]*p.Y + g.CTM[5]}
}

// Concat applies m before the current CTM (PDF cm, PS concat).
func (g *GSGeo) Concat(m [6]float64) {
	p := g.CTM
	g.CTM = [6]float64{p[0]*m[0] + p[2]*m[1], p[1]*m[0] + p[3]*m[1], p[0]*m[2] + p[2]*m[3], p[1]*m[2] + p[3]*m[3],
		p[0]*m[4] + p[2]*m[5] + p[4], p[1]*m[4] + p[3]*m[5] + p[5]}
}
func (g *GSGeo) Reset() { g.Subs = nil }
func (g *GSGeo) MoveTo(p Pt) {
	g.Subs = append(g.Subs, Contour{Pts: []Pt{g.dev(p)}})
	g.cur, g.start = p, p
}
func (g *GSGeo) LineTo(p Pt) {
	if len(g.Subs) == 0 || g.Subs[len(g.Subs)-1].Closed {
		g.Subs = append(g.Subs, Contour{Pts: []Pt{g.dev(g.cur)}})
	}
	s := &g.Subs[len(g.Subs)-1]
	s.Pts = append(s.Pts, g.dev(p))
	g.cur = p
}
func (g *GSGeo) CubeTo(c1, c2, p Pt) {
	a := g.cur
	const n = 24
	for i := 1; i <= n; i++ {
		t := float64(i) / n
		u := 1 - t
		q := a.Mul(u * u * u).Add(c1.Mul(3 * u * u * t)).Add(c2.Mul(3 * u * t * t)).Add(p.Mul(t * t * t))
		g.LineTo(q)
	}
	g.cur = p
}
func (g *GSGeo) QuadTo(c, p Pt) {
	a := g.cur
	g.CubeTo(a.Add(c.Sub(a).Mul(2.0/3)), p.Add(c.Sub(p).Mul(2.0/3)), p)
}
func (g *GSGeo) Close() {
	if len(g.Subs) > 0 {
		g.Subs[len(g.Subs)-1].Closed = true
		g.cur = g.start
	}
}

// EllipseArc is the prolog procedure of the ps back-end: x y rx ry a0 a1 rot ellipse(n): an arc of the ellipse from
// angle a0 to a1 (degrees, counter-clockwise; clockwise for ellipsen), preceded by a line from the current point.
func (g *GSGeo) EllipseArc(x, y, rx, ry, a0, a1, rot float64, cw bool) {
	if !cw {
		for a1 < a0 {
			a1 += 360
		}
	} else {
		for a1 > a0 {
			a1 -= 360
		}
	}
	sr, cr := math.Sincos(rot * math.Pi / 180)
	at := func(a float64) Pt {
		s, c := math.Sincos(a * math.Pi / 180)
		ex, ey := rx*c, ry*s
		return Pt{x + cr*ex - sr*ey, y + sr*ex + cr*ey}
	}
	n := int(math.Abs(a1-a0)/3) + 2
	for i := 0; i <= n; i++ {
		p := at(a0 + (a1-a0)*float64(i)/float64(n))
		if i == 0 && len(g.Subs) == 0 {
			g.MoveTo(p)
		} else {
			g.LineTo(p)
		}
	}
}

// SvgArcTo: endpoint arc in user space (y-down SVG coordinates are handled by the CTM).
func (g *GSGeo) SvgArcTo(rx, ry, rotDeg float64, large, sweep bool, p Pt) {
	s := Seg{Cmd: CmdArc, Start: g.cur, End: p, Rx: rx, Ry: ry, Phi: rotDeg * math.Pi / 180, Large: large, Sweep: sweep}
	const n = 48
	for i := 1; i <= n; i++ {
		g.LineTo(s.At(float64(i) / n))
	}
	g.cur = p
}
