package oracle

import "math"

// Independent reference values for C09 (Length): arc length of an ellipse in its own parametrisation and a
// numeric length of decoded segments that converges under refinement. Standard library only.

// EllipseArcLen returns the length of the ellipse (rx cos t, ry sin t) for t from t0 to t1 (t1 >= t0), by composite
// Simpson integration of the speed sqrt(rx^2 sin^2 t + ry^2 cos^2 t) with n sub-intervals per radian (the integrand
// is analytic; with 20000 steps per radian the error is far below 1e-12 relative).
func EllipseArcLen(rx, ry, t0, t1 float64) float64 {
	if t1 < t0 {
		t0, t1 = t1, t0
	}
	n := int(math.Ceil((t1-t0)*20000)) + 2
	h := (t1 - t0) / float64(n)
	f := func(t float64) float64 {
		s, c := math.Sincos(t)
		return math.Hypot(rx*s, ry*c)
	}
	sum := 0.0
	for i := 0; i < n; i++ {
		a := t0 + float64(i)*h
		sum += f(a) + 4*f(a+h/2) + f(a+h)
	}
	return sum * h / 6
}

// RefinedLength returns the length of the decoded path measured on a flattening with n chords per curved segment,
// Richardson-extrapolated from n and 2n (chord sums converge like 1/n^2), as drawn (Close edges included, no
// implicit closing).
func RefinedLength(segs []Seg, n int) float64 {
	l1 := Length(Flatten(segs, n))
	l2 := Length(Flatten(segs, 2*n))
	return l2 + (l2-l1)/3
}
