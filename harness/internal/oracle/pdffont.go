// pdffont.go: syntax readers for the font-related structures of a PDF (trusted base of C18), on top of
// pdfread.go: the W array of a CIDFont, a ToUnicode CMap (bfchar / bfrange), a CIDToGIDMap stream and the operand
// of TJ / Tj. They only turn syntax into integers; what the integers must satisfy is stated in spec/FontEmbed.tla.
package oracle

import (
	"fmt"
)

// WEntry is one element group of a W array: "c [w1 .. wn]" (List) or "cfirst clast w" (Range).
type WEntry struct {
	T  string `json:"t"` // "list" | "range"
	C  int    `json:"c"`
	C2 int    `json:"c2"`
	Wd int    `json:"wd"`
	Ws []int  `json:"ws"`
}

func pdfInt(v PDFValue) (int, bool) {
	n, ok := v.(PDFNum)
	if !ok {
		return 0, false
	}
	if n.IsInt {
		return int(n.I), true
	}
	if n.F == float64(int(n.F)) {
		return int(n.F), true
	}
	return 0, false
}

// ParseWArray reads a W array. Non-integer widths are reported as an error (the writer under test writes integers).
func ParseWArray(v PDFValue) ([]WEntry, error) {
	out := []WEntry{}
	if v == nil {
		return out, nil
	}
	arr, ok := v.(PDFArray)
	if !ok {
		return nil, fmt.Errorf("W is not an array")
	}
	for i := 0; i < len(arr); {
		c, ok := pdfInt(arr[i])
		if !ok {
			return nil, fmt.Errorf("W[%d]: expected a code", i)
		}
		if i+1 >= len(arr) {
			return nil, fmt.Errorf("W[%d]: dangling code", i)
		}
		if lst, isArr := arr[i+1].(PDFArray); isArr {
			e := WEntry{T: "list", C: c, Ws: []int{}}
			for _, x := range lst {
				w, ok := pdfInt(x)
				if !ok {
					return nil, fmt.Errorf("W: width is not an integer")
				}
				e.Ws = append(e.Ws, w)
			}
			out = append(out, e)
			i += 2
			continue
		}
		if i+2 >= len(arr) {
			return nil, fmt.Errorf("W[%d]: truncated range", i)
		}
		c2, ok2 := pdfInt(arr[i+1])
		w, ok3 := pdfInt(arr[i+2])
		if !ok2 || !ok3 {
			return nil, fmt.Errorf("W[%d]: bad range", i)
		}
		out = append(out, WEntry{T: "range", C: c, C2: c2, Wd: w, Ws: []int{}})
		i += 3
	}
	return out, nil
}

type TUChar struct {
	C int   `json:"c"`
	U []int `json:"u"` // UTF-16 code units
}
type TURange struct {
	Lo int   `json:"lo"`
	Hi int   `json:"hi"`
	U  []int `json:"u"`
}

func beInt(b []byte) int {
	v := 0
	for _, x := range b {
		v = v<<8 | int(x)
	}
	return v
}

func utf16Units(b []byte) []int {
	out := []int{}
	for i := 0; i+1 < len(b); i += 2 {
		out = append(out, int(b[i])<<8|int(b[i+1]))
	}
	if len(b)%2 == 1 {
		out = append(out, -1)
	}
	return out
}

// ParseToUnicode reads the bfchar and bfrange sections of a ToUnicode CMap. A bfrange whose destination is an array
// is expanded into bfchar entries.
func ParseToUnicode(b []byte) (chars []TUChar, ranges []TURange, err error) {
	chars, ranges = []TUChar{}, []TURange{}
	l := &pdfLexer{b: b}
	mode := ""
	var pend []PDFValue
	for {
		tk, e := l.next()
		if e == errPDFEOF {
			break
		}
		if e != nil {
			return chars, ranges, e
		}
		if k, ok := tk.(pdfKeyword); ok {
			switch k {
			case "beginbfchar":
				mode, pend = "char", nil
			case "beginbfrange":
				mode, pend = "range", nil
			case "endbfchar", "endbfrange":
				if len(pend) != 0 {
					return chars, ranges, fmt.Errorf("incomplete %s entry", mode)
				}
				mode = ""
			case "[":
				if mode == "range" && len(pend) == 2 {
					v, e := l.value(tk)
					if e != nil {
						return chars, ranges, e
					}
					lo, hi := beInt(pend[0].(PDFString).B), beInt(pend[1].(PDFString).B)
					arr := v.(PDFArray)
					for i := 0; lo+i <= hi && i < len(arr); i++ {
						if s, ok := arr[i].(PDFString); ok {
							chars = append(chars, TUChar{lo + i, utf16Units(s.B)})
						}
					}
					pend = nil
				}
			}
			continue
		}
		s, ok := tk.(PDFString)
		if !ok || mode == "" {
			continue
		}
		pend = append(pend, s)
		if mode == "char" && len(pend) == 2 {
			chars = append(chars, TUChar{beInt(pend[0].(PDFString).B), utf16Units(pend[1].(PDFString).B)})
			pend = nil
		}
		if mode == "range" && len(pend) == 3 {
			ranges = append(ranges, TURange{beInt(pend[0].(PDFString).B), beInt(pend[1].(PDFString).B), utf16Units(pend[2].(PDFString).B)})
			pend = nil
		}
	}
	return chars, ranges, nil
}

// ParseCIDToGIDMap decodes the stream form (two bytes per CID, big endian).
func ParseCIDToGIDMap(b []byte) []int {
	out := make([]int, 0, len(b)/2)
	for i := 0; i+1 < len(b); i += 2 {
		out = append(out, int(b[i])<<8|int(b[i+1]))
	}
	return out
}

// Shown is one character code shown by a TJ / Tj operator of a font with two-byte codes, with the sum of the TJ numbers
// that follow it (before the next code).
type Shown struct {
	Code int
	Adj  int
	Frac bool // an adjustment was not an integer
}

// DecodeTJ splits the operand of TJ (an array) or Tj (a string) into two-byte codes. lead is the sum of the numbers
// before the first code; odd is true if a string had an odd number of bytes.
func DecodeTJ(arg PDFValue) (shown []Shown, lead int, odd bool) {
	var items PDFArray
	switch t := arg.(type) {
	case PDFArray:
		items = t
	case PDFString:
		items = PDFArray{t}
	default:
		return nil, 0, true
	}
	for _, it := range items {
		switch t := it.(type) {
		case PDFString:
			if len(t.B)%2 == 1 {
				odd = true
			}
			for i := 0; i+1 < len(t.B); i += 2 {
				shown = append(shown, Shown{Code: int(t.B[i])<<8 | int(t.B[i+1])})
			}
		case PDFNum:
			v, ok := pdfInt(t)
			if len(shown) == 0 {
				lead += v
			} else {
				shown[len(shown)-1].Adj += v
				if !ok {
					shown[len(shown)-1].Frac = true
				}
			}
		}
	}
	return shown, lead, odd
}

// CFFCharStringsIndexOK looks into an OpenType font program with a 'CFF ' table and reports whether the CharStrings
// offset of the Top DICT (operator 17) points at a well-formed INDEX header (count, offSize in 1..4, first offset 1,
// data inside the table): 1 yes, 0 no, -1 not applicable / not decidable. A small, independent structural reader
// (Adobe TN 5176): header, Name INDEX, Top DICT INDEX, operand encoding of DICT data.
func CFFCharStringsIndexOK(sfnt []byte) (res int) {
	defer func() {
		if recover() != nil {
			res = -1
		}
	}()
	if len(sfnt) < 12 || string(sfnt[0:4]) != "OTTO" {
		return -1
	}
	n := int(sfnt[4])<<8 | int(sfnt[5])
	var cff []byte
	for i := 0; i < n; i++ {
		e := sfnt[12+16*i:]
		if string(e[0:4]) == "CFF " {
			off := int(e[8])<<24 | int(e[9])<<16 | int(e[10])<<8 | int(e[11])
			ln := int(e[12])<<24 | int(e[13])<<16 | int(e[14])<<8 | int(e[15])
			cff = sfnt[off : off+ln]
		}
	}
	if cff == nil {
		return -1
	}
	// INDEX at p: returns count, offSize, offset of the object data (relative base), end of the INDEX
	index := func(p int) (count, offSize, base, end int, ok bool) {
		count = int(cff[p])<<8 | int(cff[p+1])
		if count == 0 {
			return 0, 0, p + 2, p + 2, true
		}
		offSize = int(cff[p+2])
		if offSize < 1 || offSize > 4 {
			return count, offSize, 0, 0, false
		}
		rd := func(i int) int {
			v := 0
			for k := 0; k < offSize; k++ {
				v = v<<8 | int(cff[p+3+i*offSize+k])
			}
			return v
		}
		base = p + 3 + (count+1)*offSize - 1
		if rd(0) != 1 || base+rd(count) > len(cff) {
			return count, offSize, base, 0, false
		}
		return count, offSize, base, base + rd(count), true
	}
	_, _, _, e1, ok := index(int(cff[2])) // Name INDEX
	if !ok {
		return -1
	}
	c2, _, b2, e2, ok := index(e1) // Top DICT INDEX
	if !ok || c2 < 1 {
		return -1
	}
	td := cff[b2+1 : e2]
	var stack []int
	cs := -1
	for k := 0; k < len(td); {
		b0 := int(td[k])
		switch {
		case b0 <= 21:
			if b0 == 12 {
				k++
			} else if b0 == 17 && len(stack) > 0 {
				cs = stack[len(stack)-1]
			}
			stack = nil
			k++
		case b0 == 28:
			stack = append(stack, int(int16(int(td[k+1])<<8|int(td[k+2]))))
			k += 3
		case b0 == 29:
			stack = append(stack, int(int32(int(td[k+1])<<24|int(td[k+2])<<16|int(td[k+3])<<8|int(td[k+4]))))
			k += 5
		case b0 == 30:
			k++
			for td[k]&0x0f != 0x0f && td[k]>>4 != 0x0f {
				k++
			}
			k++
			stack = append(stack, 0)
		case b0 >= 32 && b0 <= 246:
			stack = append(stack, b0-139)
			k++
		case b0 >= 247 && b0 <= 250:
			stack = append(stack, (b0-247)*256+int(td[k+1])+108)
			k += 2
		case b0 >= 251 && b0 <= 254:
			stack = append(stack, -(b0-251)*256-int(td[k+1])-108)
			k += 2
		default:
			k++
		}
	}
	if cs <= 0 || cs+3 > len(cff) {
		return 0
	}
	if _, _, _, _, ok := index(cs); !ok {
		return 0
	}
	return 1
}
