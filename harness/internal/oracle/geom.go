// Package oracle holds the independent evaluators every driver shares (trusted base): decoding of the raw
// canvas.Path command stream, evaluation of segments, fine flattening, crossing-number winding, distances,
// areas. Nothing here calls canvas geometry code; the only input is Path.Data().
package oracle

import (
	"fmt"
	"math"
)

type Pt struct{ X, Y float64 }

func (p Pt) Sub(q Pt) Pt        { return Pt{p.X - q.X, p.Y - q.Y} }
func (p Pt) Add(q Pt) Pt        { return Pt{p.X + q.X, p.Y + q.Y} }
func (p Pt) Mul(f float64) Pt   { return Pt{p.X * f, p.Y * f} }
func (p Pt) Dot(q Pt) float64   { return p.X*q.X + p.Y*q.Y }
func (p Pt) Cross(q Pt) float64 { return p.X*q.Y - p.Y*q.X }
func (p Pt) Len() float64       { return math.Hypot(p.X, p.Y) }

// Command words of canvas.Path.Data().
const (
	CmdMove  = 1.0
	CmdLine  = 2.0
	CmdQuad  = 4.0
	CmdCube  = 8.0
	CmdArc   = 16.0
	CmdClose = 32.0
)

// Seg is one decoded command with its start point.
type Seg struct {
	Cmd        float64
	Start, End Pt
	C1, C2     Pt      // control points (Quad: C1; Cube: C1, C2)
	Rx, Ry     float64 // Arc
	Phi        float64 // Arc rotation, radians
	Large      bool
	Sweep      bool
	Sub        int // index of the sub-path
	Index      int // offset in Data()
}

func cmdLen(c float64) int {
	switch c {
	case CmdMove, CmdLine, CmdClose:
		return 4
	case CmdQuad:
		return 6
	case CmdCube, CmdArc:
		return 8
	}
	return 0
}

// Decode decodes the command stream forwards and verifies that it is decodable backwards with matching
// command words. It returns all commands (including Move and Close) with their start points.
func Decode(d []float64) ([]Seg, error) {
	var segs []Seg
	var cur, start Pt
	sub := -1
	for i := 0; i < len(d); {
		c := d[i]
		n := cmdLen(c)
		if n == 0 {
			return segs, fmt.Errorf("offset %d: unknown command word %v", i, c)
		}
		if i+n > len(d) {
			return segs, fmt.Errorf("offset %d: truncated command %v", i, c)
		}
		if d[i+n-1] != c {
			return segs, fmt.Errorf("offset %d: trailing command word %v does not match leading %v (not decodable backwards)", i, d[i+n-1], c)
		}
		end := Pt{d[i+n-3], d[i+n-2]}
		s := Seg{Cmd: c, Start: cur, End: end, Index: i}
		switch c {
		case CmdMove:
			sub++
			start = end
		case CmdQuad:
			s.C1 = Pt{d[i+1], d[i+2]}
		case CmdCube:
			s.C1 = Pt{d[i+1], d[i+2]}
			s.C2 = Pt{d[i+3], d[i+4]}
		case CmdArc:
			s.Rx, s.Ry, s.Phi = d[i+1], d[i+2], d[i+3]
			f := d[i+4]
			s.Large = f == 1 || f == 3
			s.Sweep = f == 2 || f == 3
		}
		if sub < 0 {
			sub = 0 // stream not starting with Move: reported by WellFormed, decoded leniently
		}
		s.Sub = sub
		segs = append(segs, s)
		cur = end
		if c == CmdClose {
			cur = start
		}
		i += n
	}
	return segs, nil
}

// ArcCenter converts the end-point parametrisation to centre form (W3C SVG implementation notes F.6.5),
// y-up coordinates: sweep = counter-clockwise. Returns centre, effective radii, theta0 and delta (radians).
func ArcCenter(s Seg) (c Pt, rx, ry, theta, delta float64) {
	rx, ry = math.Abs(s.Rx), math.Abs(s.Ry)
	sin, cos := math.Sincos(s.Phi)
	dx, dy := (s.Start.X-s.End.X)/2, (s.Start.Y-s.End.Y)/2
	x1p := cos*dx + sin*dy
	y1p := -sin*dx + cos*dy
	lam := x1p*x1p/(rx*rx) + y1p*y1p/(ry*ry)
	if lam > 1 {
		f := math.Sqrt(lam)
		rx *= f
		ry *= f
	}
	num := rx*rx*ry*ry - rx*rx*y1p*y1p - ry*ry*x1p*x1p
	den := rx*rx*y1p*y1p + ry*ry*x1p*x1p
	co := 0.0
	if den != 0 && num > 0 {
		co = math.Sqrt(num / den)
	}
	if s.Large == s.Sweep {
		co = -co
	}
	cxp := co * rx * y1p / ry
	cyp := -co * ry * x1p / rx
	c = Pt{cos*cxp - sin*cyp + (s.Start.X+s.End.X)/2, sin*cxp + cos*cyp + (s.Start.Y+s.End.Y)/2}
	ang := func(ux, uy, vx, vy float64) float64 {
		return math.Atan2(ux*vy-uy*vx, ux*vx+uy*vy)
	}
	ux, uy := (x1p-cxp)/rx, (y1p-cyp)/ry
	vx, vy := (-x1p-cxp)/rx, (-y1p-cyp)/ry
	theta = ang(1, 0, ux, uy)
	delta = ang(ux, uy, vx, vy)
	if !s.Sweep && delta > 0 {
		delta -= 2 * math.Pi
	} else if s.Sweep && delta < 0 {
		delta += 2 * math.Pi
	}
	return
}

// At evaluates the segment at parameter t in [0,1].
func (s Seg) At(t float64) Pt {
	switch s.Cmd {
	case CmdLine, CmdClose:
		return s.Start.Add(s.End.Sub(s.Start).Mul(t))
	case CmdQuad:
		u := 1 - t
		return s.Start.Mul(u * u).Add(s.C1.Mul(2 * u * t)).Add(s.End.Mul(t * t))
	case CmdCube:
		u := 1 - t
		return s.Start.Mul(u * u * u).Add(s.C1.Mul(3 * u * u * t)).Add(s.C2.Mul(3 * u * t * t)).Add(s.End.Mul(t * t * t))
	case CmdArc:
		if t == 0 {
			return s.Start
		} else if t == 1 {
			return s.End
		}
		c, rx, ry, th, de := ArcCenter(s)
		sin, cos := math.Sincos(s.Phi)
		a := th + t*de
		x, y := rx*math.Cos(a), ry*math.Sin(a)
		return Pt{c.X + cos*x - sin*y, c.Y + sin*x + cos*y}
	}
	return s.End
}

// IsDraw reports whether the command traces geometry (everything except Move).
func (s Seg) IsDraw() bool { return s.Cmd != CmdMove }

// Polyline approximates the segment by n chords (n>=1); lines use a single chord.
func (s Seg) Polyline(n int) []Pt {
	if s.Cmd == CmdLine || s.Cmd == CmdClose {
		return []Pt{s.Start, s.End}
	}
	out := make([]Pt, 0, n+1)
	for i := 0; i <= n; i++ {
		out = append(out, s.At(float64(i)/float64(n)))
	}
	return out
}

// Contour is a polyline of one sub-path; Closed tells whether the sub-path ended with Close.
type Contour struct {
	Pts    []Pt
	Closed bool
}

// Flatten turns decoded commands into one fine polyline per sub-path (n chords per curved segment).
func Flatten(segs []Seg, n int) []Contour {
	var out []Contour
	var cur *Contour
	for _, s := range segs {
		if s.Cmd == CmdMove {
			out = append(out, Contour{Pts: []Pt{s.End}})
			cur = &out[len(out)-1]
			continue
		}
		if cur == nil {
			out = append(out, Contour{Pts: []Pt{s.Start}})
			cur = &out[len(out)-1]
		}
		pl := s.Polyline(n)
		cur.Pts = append(cur.Pts, pl[1:]...)
		if s.Cmd == CmdClose {
			cur.Closed = true
			cur = nil
		}
	}
	return out
}

// FlattenData = Decode + Flatten.
func FlattenData(d []float64, n int) ([]Contour, error) {
	segs, err := Decode(d)
	if err != nil {
		return nil, err
	}
	return Flatten(segs, n), nil
}

// Winding returns the winding number of the implicitly closed contours around p (half-open crossing rule).
// The caller guarantees p is not on (or numerically near) the boundary.
func Winding(cs []Contour, p Pt) int {
	w := 0
	for _, c := range cs {
		n := len(c.Pts)
		if n < 2 {
			continue
		}
		for i := 0; i < n; i++ {
			a, b := c.Pts[i], c.Pts[(i+1)%n]
			if a.Y <= p.Y {
				if b.Y > p.Y && b.Sub(a).Cross(p.Sub(a)) > 0 {
					w++
				}
			} else if b.Y <= p.Y && b.Sub(a).Cross(p.Sub(a)) < 0 {
				w--
			}
		}
	}
	return w
}

// DistSeg returns the distance from p to the segment ab.
func DistSeg(p, a, b Pt) float64 {
	ab := b.Sub(a)
	l2 := ab.Dot(ab)
	if l2 == 0 {
		return p.Sub(a).Len()
	}
	t := p.Sub(a).Dot(ab) / l2
	if t < 0 {
		t = 0
	} else if t > 1 {
		t = 1
	}
	return p.Sub(a.Add(ab.Mul(t))).Len()
}

// Dist returns the distance from p to the contours (closed contours include the closing edge; with
// implicit=true open contours are treated as closed as well).
func Dist(cs []Contour, p Pt, implicit bool) float64 {
	best := math.Inf(1)
	for _, c := range cs {
		n := len(c.Pts)
		if n == 1 {
			best = math.Min(best, p.Sub(c.Pts[0]).Len())
		}
		m := n - 1
		if c.Closed || implicit {
			m = n
		}
		for i := 0; i < m; i++ {
			best = math.Min(best, DistSeg(p, c.Pts[i], c.Pts[(i+1)%n]))
		}
	}
	return best
}

// Area2 returns twice the signed area of the implicitly closed contours.
func Area2(cs []Contour) float64 {
	a := 0.0
	for _, c := range cs {
		n := len(c.Pts)
		for i := 0; i < n; i++ {
			a += c.Pts[i].Cross(c.Pts[(i+1)%n])
		}
	}
	return a
}

// Length returns the total length of the contours as drawn (no implicit closing).
func Length(cs []Contour) float64 {
	l := 0.0
	for _, c := range cs {
		for i := 0; i+1 < len(c.Pts); i++ {
			l += c.Pts[i+1].Sub(c.Pts[i]).Len()
		}
	}
	return l
}
