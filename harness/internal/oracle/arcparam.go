package oracle

import "math"

// ArcParamOf projects the point p onto the elliptical arc s through the ellipse's own angular parametrisation
// (centre form derived independently by ArcCenter): it returns the parameter t in [0,1] of the arc point whose
// eccentric angle equals that of p (clamped to the arc) and the distance from p to that arc point. For a point
// ON the ellipse the projection is exact, which is the only use: "does the arc pass through p, and where".
func ArcParamOf(s Seg, p Pt) (t, dist float64) {
	c, rx, ry, th, de := ArcCenter(s)
	sin, cos := math.Sincos(s.Phi)
	d := p.Sub(c)
	u := (cos*d.X + sin*d.Y) / rx
	v := (-sin*d.X + cos*d.Y) / ry
	a := math.Atan2(v, u)
	// offset from the start angle in the travelling direction, in [0, 2pi)
	off := a - th
	if de < 0 {
		off = -off
	}
	off = math.Mod(off, 2*math.Pi)
	if off < 0 {
		off += 2 * math.Pi
	}
	span := math.Abs(de)
	if off > span {
		// outside the arc: clamp to the nearer end
		if off-span < 2*math.Pi-off {
			off = span
		} else {
			off = 0
		}
	}
	if span == 0 {
		return 0, p.Sub(s.Start).Len()
	}
	t = off / span
	return t, p.Sub(s.At(t)).Len()
}
