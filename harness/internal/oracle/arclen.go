package oracle

import "math"

// Arc-length parametrised polylines: locating points and whole pieces on an input path by arc length.
// Used to project the pieces returned by Dash / SplitAt onto (sub-path, s0, s1). Independent of canvas.

// Curve is a polyline with its cumulative arc length. For closed curves the last point equals the first.
type Curve struct {
	Pts    []Pt
	Cum    []float64
	Closed bool
}

// NewCurve builds the arc-length table of a contour; a closed contour gets its closing edge.
func NewCurve(c Contour) *Curve {
	pts := append([]Pt(nil), c.Pts...)
	if c.Closed && len(pts) > 0 {
		pts = append(pts, pts[0])
	}
	cum := make([]float64, len(pts))
	for i := 1; i < len(pts); i++ {
		cum[i] = cum[i-1] + pts[i].Sub(pts[i-1]).Len()
	}
	return &Curve{Pts: pts, Cum: cum, Closed: c.Closed}
}

func (c *Curve) Length() float64 {
	if len(c.Cum) == 0 {
		return 0
	}
	return c.Cum[len(c.Cum)-1]
}

// At returns the point at arc length s (clamped for open curves, modulo the length for closed ones).
func (c *Curve) At(s float64) Pt {
	L := c.Length()
	if len(c.Pts) == 1 || L == 0 {
		return c.Pts[0]
	}
	if c.Closed {
		s = math.Mod(s, L)
		if s < 0 {
			s += L
		}
	}
	if s <= 0 {
		return c.Pts[0]
	}
	if s >= L {
		return c.Pts[len(c.Pts)-1]
	}
	lo, hi := 0, len(c.Cum)-1
	for hi-lo > 1 {
		m := (lo + hi) / 2
		if c.Cum[m] <= s {
			lo = m
		} else {
			hi = m
		}
	}
	d := c.Cum[hi] - c.Cum[lo]
	if d == 0 {
		return c.Pts[lo]
	}
	t := (s - c.Cum[lo]) / d
	return c.Pts[lo].Add(c.Pts[hi].Sub(c.Pts[lo]).Mul(t))
}

// Locate returns every arc length at which the curve passes within tol of p: one value per passage (a maximal run
// of consecutive edges within tol), namely the nearest point of that passage. On closed curves a passage through the
// start point is reported once; arc lengths within merge of the total length are reported as 0.
func (c *Curve) Locate(p Pt, tol, merge float64) []float64 {
	type cand struct {
		s, d  float64
		first bool // run contains the first edge
		last  bool // run contains the last edge
	}
	var runs []cand
	L := c.Length()
	open := false
	n := len(c.Pts) - 1
	for i := 0; i < n; i++ {
		a, b := c.Pts[i], c.Pts[i+1]
		ab := b.Sub(a)
		l2 := ab.Dot(ab)
		t := 0.0
		if l2 > 0 {
			t = p.Sub(a).Dot(ab) / l2
			if t < 0 {
				t = 0
			} else if t > 1 {
				t = 1
			}
		}
		d := p.Sub(a.Add(ab.Mul(t))).Len()
		if d > tol {
			open = false
			continue
		}
		s := c.Cum[i] + t*(c.Cum[i+1]-c.Cum[i])
		if !open {
			runs = append(runs, cand{s: s, d: d, first: i == 0})
			open = true
		} else if d < runs[len(runs)-1].d {
			runs[len(runs)-1].s, runs[len(runs)-1].d = s, d
		}
		if i == n-1 {
			runs[len(runs)-1].last = true
		}
	}
	if len(c.Pts) == 1 && p.Sub(c.Pts[0]).Len() <= tol {
		runs = append(runs, cand{})
	}
	// closed: the run at the end continues in the run at the start
	if c.Closed && len(runs) >= 2 && runs[0].first && runs[len(runs)-1].last {
		if runs[len(runs)-1].d < runs[0].d {
			runs[0].s, runs[0].d = runs[len(runs)-1].s, runs[len(runs)-1].d
		}
		runs = runs[:len(runs)-1]
	}
	r := make([]float64, 0, len(runs))
	for _, x := range runs {
		s := x.s
		if c.Closed && L-s <= merge {
			s = 0
		}
		r = append(r, s)
	}
	for i := 1; i < len(r); i++ {
		for j := i; j > 0 && r[j] < r[j-1]; j-- {
			r[j], r[j-1] = r[j-1], r[j]
		}
	}
	return r
}

// Fits reports whether the piece (a polyline with its own arc length), laid along the curve from arc length s0,
// stays within tol of the curve point at the same travelled distance at every vertex and edge midpoint.
// Open curves: the piece must not run past the end (slack = allowed overshoot in length).
func (c *Curve) Fits(piece *Curve, s0, tol, slack float64) bool {
	L := c.Length()
	if !c.Closed && s0+piece.Length() > L+slack {
		return false
	}
	if c.Closed && piece.Length() > L+slack {
		return false
	}
	for j := range piece.Pts {
		if c.At(s0+piece.Cum[j]).Sub(piece.Pts[j]).Len() > tol {
			return false
		}
		if j > 0 {
			mid := piece.Pts[j-1].Add(piece.Pts[j]).Mul(0.5)
			if c.At(s0+(piece.Cum[j-1]+piece.Cum[j])/2).Sub(mid).Len() > tol {
				return false
			}
		}
	}
	return true
}
