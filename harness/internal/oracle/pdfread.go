// pdfread.go: an independent, minimal PDF reader (trusted base of C13 / C18).
//
// It shares no code with github.com/tdewolff/canvas/renderers/pdf. It reads what ISO 32000-1 calls the
// classic file structure: header, a body of indirect objects, one cross-reference table, trailer, startxref.
//
//   - The body is scanned *sequentially* from the header, so every object is found with the byte offset at
//     which "n g obj" really starts, independently of what the xref table claims.
//   - The xref table is parsed separately from the offset given after "startxref" (20-byte entries).
//   - Streams: the declared /Length (direct or indirect) and the actual byte count up to the end-of-line that
//     precedes "endstream" are both reported; filters FlateDecode, ASCII85Decode, ASCIIHexDecode are decoded,
//     DCTDecode is verified with image/jpeg; any other filter is reported as "unsupported" (never as a failure).
//   - Literal strings are decoded per 7.3.4.2 (escapes, octal codes, line continuation, and the rule that an
//     unescaped end-of-line marker CR, LF or CR LF inside a literal string reads as a single LF).
//   - Content streams are lexed into (operator, operands) pairs; inline images are skipped.
//
// Nothing here judges validity: the reader only reports what is in the file. The judgement is made by the
// TLA+ predicates of spec/PDFDoc.tla on the record the drivers build from this.
package oracle

import (
	"bytes"
	"compress/zlib"
	"encoding/ascii85"
	"fmt"
	"image/jpeg"
	"io"
	"strconv"
)

type PDFName string
type PDFRef struct{ Num, Gen int }
type PDFString struct {
	B   []byte // decoded bytes
	Hex bool
	Raw []byte // bytes as written between the delimiters
}
type PDFNum struct {
	F     float64
	I     int64
	IsInt bool
}
type PDFNull struct{}
type PDFArray []PDFValue
type PDFDict struct {
	Keys []string
	M    map[string]PDFValue
	Dup  []string // keys that occur more than once
}
type PDFValue interface{}

func (d *PDFDict) Get(k string) PDFValue {
	if d == nil {
		return nil
	}
	return d.M[k]
}

type PDFObject struct {
	Num, Gen  int
	Offset    int // byte offset of the first digit of "Num Gen obj"
	Value     PDFValue
	Dict      *PDFDict // Value as dictionary (also the stream dictionary), or nil
	IsStream  bool
	DataStart int
	DeclLen   int  // declared /Length after resolving an indirect reference; -1 if absent or unresolvable
	LenRef    bool // /Length was an indirect reference
	ActualLen int  // bytes between the EOL after "stream" and the EOL before "endstream"
	Raw       []byte
	Filters   []string
	Decoded   []byte
	Decode    string // "ok" | "fail" | "unsupported" | "" (not a stream)
	DecodeErr string
	EndObjOK  bool
	StreamEOL bool // keyword stream followed by LF or CR LF
}

type PDFXrefEntry struct {
	Num, Off, Gen int
	InUse         bool
}

type PDFFile struct {
	Data        []byte
	HeaderOK    bool
	Version     string
	EOFOK       bool // file ends with %%EOF (+ optional EOL)
	StartXref   int  // number after the last "startxref"; -1 if none
	XrefAt      int  // offset where the keyword "xref" of the table that precedes the trailer really is; -1 if none
	XrefOK      bool // table at StartXref parsed completely
	XrefErr     string
	XrefFirst   []int // first object number of each subsection
	XrefCount   []int
	Xref        []PDFXrefEntry
	Trailer     *PDFDict
	Objects     []*PDFObject // in file order
	BodyErrors  []string     // things in the body that are not objects
	Unsupported []string
}

// ---- lexer ---------------------------------------------------------------------------------------

func pdfIsWS(c byte) bool { return c == 0 || c == 9 || c == 10 || c == 12 || c == 13 || c == 32 }
func pdfIsDelim(c byte) bool {
	switch c {
	case '(', ')', '<', '>', '[', ']', '{', '}', '/', '%':
		return true
	}
	return false
}
func pdfIsRegular(c byte) bool { return !pdfIsWS(c) && !pdfIsDelim(c) }

type pdfLexer struct {
	b   []byte
	pos int
}

func (l *pdfLexer) skipWS() {
	for l.pos < len(l.b) {
		c := l.b[l.pos]
		if pdfIsWS(c) {
			l.pos++
		} else if c == '%' {
			for l.pos < len(l.b) && l.b[l.pos] != '\n' && l.b[l.pos] != '\r' {
				l.pos++
			}
		} else {
			return
		}
	}
}

// keyword reads a run of regular characters without consuming it when peek is set.
func (l *pdfLexer) regularRun() string {
	i := l.pos
	for i < len(l.b) && pdfIsRegular(l.b[i]) {
		i++
	}
	return string(l.b[l.pos:i])
}

type pdfKeyword string

var errPDFEOF = fmt.Errorf("unexpected end of data")

// next returns the next token: PDFName, PDFString, PDFNum, pdfKeyword, or one of the delimiter keywords
// "[", "]", "<<", ">>", "{", "}".
func (l *pdfLexer) next() (PDFValue, error) {
	l.skipWS()
	if l.pos >= len(l.b) {
		return nil, errPDFEOF
	}
	c := l.b[l.pos]
	switch {
	case c == '/':
		l.pos++
		var out []byte
		for l.pos < len(l.b) && pdfIsRegular(l.b[l.pos]) {
			ch := l.b[l.pos]
			if ch == '#' && l.pos+2 < len(l.b) {
				if v, err := strconv.ParseUint(string(l.b[l.pos+1:l.pos+3]), 16, 8); err == nil {
					out = append(out, byte(v))
					l.pos += 3
					continue
				}
			}
			out = append(out, ch)
			l.pos++
		}
		return PDFName(out), nil
	case c == '(':
		return l.literalString()
	case c == '<':
		if l.pos+1 < len(l.b) && l.b[l.pos+1] == '<' {
			l.pos += 2
			return pdfKeyword("<<"), nil
		}
		return l.hexString()
	case c == '>':
		if l.pos+1 < len(l.b) && l.b[l.pos+1] == '>' {
			l.pos += 2
			return pdfKeyword(">>"), nil
		}
		l.pos++
		return nil, fmt.Errorf("stray '>' at %d", l.pos-1)
	case c == '[' || c == ']' || c == '{' || c == '}':
		l.pos++
		return pdfKeyword(string(c)), nil
	case c == ')':
		l.pos++
		return nil, fmt.Errorf("stray ')' at %d", l.pos-1)
	}
	run := l.regularRun()
	l.pos += len(run)
	if n, ok := pdfParseNumber(run); ok {
		return n, nil
	}
	return pdfKeyword(run), nil
}

func pdfParseNumber(s string) (PDFNum, bool) {
	if s == "" {
		return PDFNum{}, false
	}
	digits, dots := 0, 0
	for i := 0; i < len(s); i++ {
		c := s[i]
		switch {
		case c >= '0' && c <= '9':
			digits++
		case c == '.':
			dots++
		case (c == '+' || c == '-') && i == 0:
		default:
			return PDFNum{}, false
		}
	}
	if digits == 0 || dots > 1 {
		return PDFNum{}, false
	}
	if dots == 0 {
		v, err := strconv.ParseInt(s, 10, 64)
		if err != nil {
			return PDFNum{}, false
		}
		return PDFNum{F: float64(v), I: v, IsInt: true}, true
	}
	t := s
	if t[len(t)-1] == '.' {
		t += "0"
	}
	f, err := strconv.ParseFloat(t, 64)
	if err != nil {
		return PDFNum{}, false
	}
	return PDFNum{F: f}, true
}

func (l *pdfLexer) literalString() (PDFValue, error) {
	start := l.pos
	l.pos++ // (
	depth := 1
	var out []byte
	for l.pos < len(l.b) {
		c := l.b[l.pos]
		switch c {
		case '\\':
			l.pos++
			if l.pos >= len(l.b) {
				return nil, errPDFEOF
			}
			e := l.b[l.pos]
			switch e {
			case 'n':
				out = append(out, '\n')
				l.pos++
			case 'r':
				out = append(out, '\r')
				l.pos++
			case 't':
				out = append(out, '\t')
				l.pos++
			case 'b':
				out = append(out, '\b')
				l.pos++
			case 'f':
				out = append(out, '\f')
				l.pos++
			case '(', ')', '\\':
				out = append(out, e)
				l.pos++
			case '\r': // line continuation
				l.pos++
				if l.pos < len(l.b) && l.b[l.pos] == '\n' {
					l.pos++
				}
			case '\n':
				l.pos++
			default:
				if e >= '0' && e <= '7' {
					v := 0
					n := 0
					for n < 3 && l.pos < len(l.b) && l.b[l.pos] >= '0' && l.b[l.pos] <= '7' {
						v = v*8 + int(l.b[l.pos]-'0')
						l.pos++
						n++
					}
					out = append(out, byte(v&0xff))
				} else {
					// the reverse solidus is ignored
					out = append(out, e)
					l.pos++
				}
			}
		case '(':
			depth++
			out = append(out, c)
			l.pos++
		case ')':
			depth--
			l.pos++
			if depth == 0 {
				return PDFString{B: out, Raw: l.b[start+1 : l.pos-1]}, nil
			}
			out = append(out, c)
		case '\r': // an unescaped end-of-line marker reads as LF
			out = append(out, '\n')
			l.pos++
			if l.pos < len(l.b) && l.b[l.pos] == '\n' {
				l.pos++
			}
		default:
			out = append(out, c)
			l.pos++
		}
	}
	return nil, fmt.Errorf("unterminated literal string at %d", start)
}

func (l *pdfLexer) hexString() (PDFValue, error) {
	start := l.pos
	l.pos++
	var nib []byte
	for l.pos < len(l.b) {
		c := l.b[l.pos]
		l.pos++
		switch {
		case c == '>':
			if len(nib)%2 == 1 {
				nib = append(nib, 0)
			}
			out := make([]byte, len(nib)/2)
			for i := range out {
				out[i] = nib[2*i]<<4 | nib[2*i+1]
			}
			return PDFString{B: out, Hex: true, Raw: l.b[start+1 : l.pos-1]}, nil
		case pdfIsWS(c):
		case c >= '0' && c <= '9':
			nib = append(nib, c-'0')
		case c >= 'a' && c <= 'f':
			nib = append(nib, c-'a'+10)
		case c >= 'A' && c <= 'F':
			nib = append(nib, c-'A'+10)
		default:
			return nil, fmt.Errorf("bad character %q in hex string at %d", c, l.pos-1)
		}
	}
	return nil, fmt.Errorf("unterminated hex string at %d", start)
}

// value parses one object value (with "n g R" look-ahead). tok is an already read first token or nil.
func (l *pdfLexer) value(tok PDFValue) (PDFValue, error) {
	var err error
	if tok == nil {
		tok, err = l.next()
		if err != nil {
			return nil, err
		}
	}
	switch t := tok.(type) {
	case PDFNum:
		if t.IsInt && t.I >= 0 {
			save := l.pos
			t2, err2 := l.next()
			if n2, ok := t2.(PDFNum); err2 == nil && ok && n2.IsInt && n2.I >= 0 {
				t3, err3 := l.next()
				if k, ok := t3.(pdfKeyword); err3 == nil && ok && k == "R" {
					return PDFRef{int(t.I), int(n2.I)}, nil
				}
			}
			l.pos = save
		}
		return t, nil
	case pdfKeyword:
		switch t {
		case "[":
			arr := PDFArray{}
			for {
				tk, err := l.next()
				if err != nil {
					return nil, err
				}
				if k, ok := tk.(pdfKeyword); ok && k == "]" {
					return arr, nil
				}
				v, err := l.value(tk)
				if err != nil {
					return nil, err
				}
				arr = append(arr, v)
			}
		case "<<":
			d := &PDFDict{M: map[string]PDFValue{}}
			for {
				tk, err := l.next()
				if err != nil {
					return nil, err
				}
				if k, ok := tk.(pdfKeyword); ok && k == ">>" {
					return d, nil
				}
				name, ok := tk.(PDFName)
				if !ok {
					return nil, fmt.Errorf("dictionary key is not a name near %d (%v)", l.pos, tk)
				}
				v, err := l.value(nil)
				if err != nil {
					return nil, err
				}
				if _, dup := d.M[string(name)]; dup {
					d.Dup = append(d.Dup, string(name))
				} else {
					d.Keys = append(d.Keys, string(name))
				}
				d.M[string(name)] = v
			}
		case "true":
			return true, nil
		case "false":
			return false, nil
		case "null":
			return PDFNull{}, nil
		}
		return nil, fmt.Errorf("unexpected keyword %q near %d", string(t), l.pos)
	default:
		return tok, nil
	}
}

// ---- file structure -------------------------------------------------------------------------------

func pdfHasPrefixAt(b []byte, pos int, s string) bool {
	return pos >= 0 && pos+len(s) <= len(b) && string(b[pos:pos+len(s)]) == s
}

// ParsePDF reads a complete file.
func ParsePDF(data []byte) *PDFFile {
	f := &PDFFile{Data: data, StartXref: -1, XrefAt: -1}
	// header
	if len(data) >= 8 && string(data[:5]) == "%PDF-" && data[5] >= '1' && data[5] <= '2' && data[6] == '.' && data[7] >= '0' && data[7] <= '9' {
		f.HeaderOK = true
		f.Version = string(data[5:8])
	}
	// end of file
	t := bytes.TrimRight(data, "\r\n")
	f.EOFOK = bytes.HasSuffix(t, []byte("%%EOF")) && len(data)-len(t) <= 2
	if i := bytes.LastIndex(data, []byte("startxref")); i >= 0 {
		l := &pdfLexer{b: data, pos: i + len("startxref")}
		if tk, err := l.next(); err == nil {
			if n, ok := tk.(PDFNum); ok && n.IsInt {
				f.StartXref = int(n.I)
			}
		}
	}

	// body: sequential scan
	l := &pdfLexer{b: data}
	for {
		l.skipWS()
		if l.pos >= len(data) {
			break
		}
		at := l.pos
		run := l.regularRun()
		if run == "xref" {
			f.XrefAt = at
			break
		}
		if run == "trailer" || run == "startxref" {
			break
		}
		obj, err := f.parseObject(l)
		if err != nil {
			f.BodyErrors = append(f.BodyErrors, fmt.Sprintf("at %d: %v", at, err))
			// resynchronise after the next endobj
			j := bytes.Index(data[at:], []byte("endobj"))
			if j < 0 {
				break
			}
			l.pos = at + j + len("endobj")
			continue
		}
		f.Objects = append(f.Objects, obj)
	}

	// xref table at the offset startxref points to
	f.parseXref()

	// second pass: indirect lengths, decoding
	byNum := f.ByNum()
	for _, o := range f.Objects {
		if !o.IsStream {
			continue
		}
		if r, ok := o.Dict.Get("Length").(PDFRef); ok {
			o.LenRef = true
			o.DeclLen = -1
			if ts := byNum[r.Num]; len(ts) == 1 {
				if n, ok := ts[0].Value.(PDFNum); ok && n.IsInt {
					o.DeclLen = int(n.I)
				}
			}
		}
		f.decode(o)
	}
	return f
}

func (f *PDFFile) ByNum() map[int][]*PDFObject {
	m := map[int][]*PDFObject{}
	for _, o := range f.Objects {
		m[o.Num] = append(m[o.Num], o)
	}
	return m
}

func (f *PDFFile) parseObject(l *pdfLexer) (*PDFObject, error) {
	data := f.Data
	at := l.pos
	t1, err := l.next()
	if err != nil {
		return nil, err
	}
	n1, ok := t1.(PDFNum)
	if !ok || !n1.IsInt {
		return nil, fmt.Errorf("expected object number, found %v", t1)
	}
	t2, err := l.next()
	if err != nil {
		return nil, err
	}
	n2, ok := t2.(PDFNum)
	if !ok || !n2.IsInt {
		return nil, fmt.Errorf("expected generation number, found %v", t2)
	}
	t3, err := l.next()
	if k, ok := t3.(pdfKeyword); err != nil || !ok || k != "obj" {
		return nil, fmt.Errorf("expected 'obj', found %v", t3)
	}
	o := &PDFObject{Num: int(n1.I), Gen: int(n2.I), Offset: at, DeclLen: -1}
	v, err := l.value(nil)
	if err != nil {
		return nil, fmt.Errorf("object %d: %v", o.Num, err)
	}
	o.Value = v
	if d, ok := v.(*PDFDict); ok {
		o.Dict = d
	}
	l.skipWS()
	if o.Dict != nil && l.regularRun() == "stream" {
		l.pos += len("stream")
		// the keyword must be followed by CR LF or LF
		if pdfHasPrefixAt(data, l.pos, "\r\n") {
			l.pos += 2
			o.StreamEOL = true
		} else if pdfHasPrefixAt(data, l.pos, "\n") {
			l.pos++
			o.StreamEOL = true
		}
		o.IsStream = true
		o.DataStart = l.pos
		declared := -1
		if n, ok := o.Dict.Get("Length").(PDFNum); ok && n.IsInt {
			declared = int(n.I)
			o.DeclLen = declared
		}
		end := -1 // offset of the keyword endstream
		if declared >= 0 && l.pos+declared <= len(data) {
			p := l.pos + declared
			switch {
			case pdfHasPrefixAt(data, p, "\r\nendstream"):
				end = p + 2
			case pdfHasPrefixAt(data, p, "\nendstream"), pdfHasPrefixAt(data, p, "\rendstream"):
				end = p + 1
			case pdfHasPrefixAt(data, p, "endstream"):
				end = p
			}
			if end >= 0 {
				o.ActualLen = declared
			}
		}
		if end < 0 {
			// the declared length is absent, indirect or inconsistent: find "endstream" followed by "endobj"
			p := l.pos
			for {
				j := bytes.Index(data[p:], []byte("endstream"))
				if j < 0 {
					return nil, fmt.Errorf("object %d: no endstream", o.Num)
				}
				k := p + j + len("endstream")
				for k < len(data) && pdfIsWS(data[k]) {
					k++
				}
				if pdfHasPrefixAt(data, k, "endobj") {
					end = p + j
					break
				}
				p = p + j + 1
			}
			a := end
			if a-2 >= l.pos && data[a-2] == '\r' && data[a-1] == '\n' {
				a -= 2
			} else if a-1 >= l.pos && (data[a-1] == '\n' || data[a-1] == '\r') {
				a--
			}
			o.ActualLen = a - l.pos
		}
		o.Raw = data[o.DataStart : o.DataStart+o.ActualLen]
		l.pos = end + len("endstream")
		l.skipWS()
	}
	if l.regularRun() == "endobj" {
		l.pos += len("endobj")
		o.EndObjOK = true
	} else {
		return nil, fmt.Errorf("object %d: expected endobj at %d", o.Num, l.pos)
	}
	return o, nil
}

func (f *PDFFile) parseXref() {
	data := f.Data
	p := f.StartXref
	if p < 0 || p >= len(data) {
		f.XrefErr = "startxref does not point into the file"
		return
	}
	if !pdfHasPrefixAt(data, p, "xref") {
		f.XrefErr = fmt.Sprintf("no 'xref' keyword at offset %d", p)
		if o := f.objectAt(p); o != nil && o.IsStream {
			f.Unsupported = append(f.Unsupported, "cross-reference stream")
		}
		return
	}
	p += 4
	skipEOL := func() {
		for p < len(data) && (data[p] == ' ' || data[p] == '\r' || data[p] == '\n') {
			p++
		}
	}
	skipEOL()
	for {
		if pdfHasPrefixAt(data, p, "trailer") {
			break
		}
		// subsection header: first count
		l := &pdfLexer{b: data, pos: p}
		a, err1 := l.next()
		b, err2 := l.next()
		na, ok1 := a.(PDFNum)
		nb, ok2 := b.(PDFNum)
		if err1 != nil || err2 != nil || !ok1 || !ok2 || !na.IsInt || !nb.IsInt {
			f.XrefErr = fmt.Sprintf("bad subsection header at %d", p)
			return
		}
		p = l.pos
		skipEOL()
		f.XrefFirst = append(f.XrefFirst, int(na.I))
		f.XrefCount = append(f.XrefCount, int(nb.I))
		for i := 0; i < int(nb.I); i++ {
			if p+20 > len(data) {
				f.XrefErr = "xref table truncated"
				return
			}
			e := data[p : p+20]
			okFmt := e[10] == ' ' && e[16] == ' ' && (e[17] == 'n' || e[17] == 'f') &&
				((e[18] == ' ' && (e[19] == '\n' || e[19] == '\r')) || (e[18] == '\r' && e[19] == '\n'))
			off, err1 := strconv.Atoi(string(e[0:10]))
			gen, err2 := strconv.Atoi(string(e[11:16]))
			if !okFmt || err1 != nil || err2 != nil {
				f.XrefErr = fmt.Sprintf("xref entry %d at %d is not a well-formed 20-byte entry: %q", int(na.I)+i, p, e)
				return
			}
			f.Xref = append(f.Xref, PDFXrefEntry{Num: int(na.I) + i, Off: off, Gen: gen, InUse: e[17] == 'n'})
			p += 20
		}
	}
	p += len("trailer")
	l := &pdfLexer{b: data, pos: p}
	v, err := l.value(nil)
	if err != nil {
		f.XrefErr = "trailer: " + err.Error()
		return
	}
	d, ok := v.(*PDFDict)
	if !ok {
		f.XrefErr = "trailer is not a dictionary"
		return
	}
	f.Trailer = d
	if d.Get("Prev") != nil {
		f.Unsupported = append(f.Unsupported, "incremental update (/Prev)")
	}
	tk, err := l.next()
	if k, ok := tk.(pdfKeyword); err != nil || !ok || k != "startxref" {
		f.XrefErr = "no startxref after the trailer dictionary"
		return
	}
	f.XrefOK = true
}

func (f *PDFFile) objectAt(off int) *PDFObject {
	for _, o := range f.Objects {
		if o.Offset == off {
			return o
		}
	}
	return nil
}

func (f *PDFFile) decode(o *PDFObject) {
	switch fl := o.Dict.Get("Filter").(type) {
	case nil:
	case PDFName:
		o.Filters = []string{string(fl)}
	case PDFArray:
		for _, x := range fl {
			if n, ok := x.(PDFName); ok {
				o.Filters = append(o.Filters, string(n))
			} else {
				o.Filters = append(o.Filters, "?")
			}
		}
	default:
		o.Filters = []string{"?"}
	}
	b := o.Raw
	o.Decode = "ok"
	if o.Dict.Get("DecodeParms") != nil && len(o.Filters) > 0 {
		o.Decode, o.DecodeErr = "unsupported", "DecodeParms"
		return
	}
	for _, fl := range o.Filters {
		switch fl {
		case "FlateDecode":
			r, err := zlib.NewReader(bytes.NewReader(b))
			if err != nil {
				o.Decode, o.DecodeErr = "fail", "FlateDecode: "+err.Error()
				return
			}
			out, err := io.ReadAll(r)
			if err != nil {
				o.Decode, o.DecodeErr = "fail", "FlateDecode: "+err.Error()
				return
			}
			b = out
		case "ASCII85Decode":
			s := bytes.TrimSpace(b)
			if !bytes.HasSuffix(s, []byte("~>")) {
				o.Decode, o.DecodeErr = "fail", "ASCII85Decode: no ~> end marker"
				return
			}
			s = bytes.TrimPrefix(s[:len(s)-2], []byte("<~"))
			out, err := io.ReadAll(ascii85.NewDecoder(bytes.NewReader(s)))
			if err != nil {
				o.Decode, o.DecodeErr = "fail", "ASCII85Decode: "+err.Error()
				return
			}
			b = out
		case "ASCIIHexDecode":
			l := &pdfLexer{b: append([]byte("<"), b...)}
			v, err := l.hexString()
			if err != nil {
				o.Decode, o.DecodeErr = "fail", "ASCIIHexDecode: "+err.Error()
				return
			}
			b = v.(PDFString).B
		case "DCTDecode":
			if _, err := jpeg.Decode(bytes.NewReader(b)); err != nil {
				o.Decode, o.DecodeErr = "fail", "DCTDecode: "+err.Error()
				return
			}
			// image data stays encoded
		default:
			o.Decode, o.DecodeErr = "unsupported", fl
			return
		}
	}
	o.Decoded = b
}

// Refs returns every indirect reference inside v (depth first, in order of appearance).
func PDFRefs(v PDFValue) []PDFRef {
	var out []PDFRef
	var walk func(PDFValue)
	walk = func(v PDFValue) {
		switch t := v.(type) {
		case PDFRef:
			out = append(out, t)
		case PDFArray:
			for _, x := range t {
				walk(x)
			}
		case *PDFDict:
			for _, k := range t.Keys {
				walk(t.M[k])
			}
		}
	}
	walk(v)
	return out
}

// Resolve follows an indirect reference (one level); ok is false if it does not resolve to exactly one object.
func (f *PDFFile) Resolve(v PDFValue) (PDFValue, *PDFObject, bool) {
	r, isRef := v.(PDFRef)
	if !isRef {
		return v, nil, true
	}
	var hit *PDFObject
	n := 0
	for _, o := range f.Objects {
		if o.Num == r.Num && o.Gen == r.Gen {
			hit = o
			n++
		}
	}
	if n != 1 {
		return nil, nil, false
	}
	return hit.Value, hit, true
}

// ResolveDict resolves v to a dictionary (direct or indirect), or nil.
func (f *PDFFile) ResolveDict(v PDFValue) *PDFDict {
	x, _, ok := f.Resolve(v)
	if !ok {
		return nil
	}
	d, _ := x.(*PDFDict)
	return d
}

// ---- content streams ------------------------------------------------------------------------------

type PDFOp struct {
	Op   string
	Args []PDFValue
}

// ParseContent lexes a (decoded) content stream. Bad tokens are returned as operators named "?<text>".
func ParseContent(b []byte) []PDFOp {
	l := &pdfLexer{b: b}
	var ops []PDFOp
	var args []PDFValue
	for {
		tk, err := l.next()
		if err == errPDFEOF {
			break
		}
		if err != nil {
			ops = append(ops, PDFOp{Op: "?" + err.Error(), Args: args})
			args = nil
			continue
		}
		if k, ok := tk.(pdfKeyword); ok {
			switch k {
			case "[", "<<":
				v, err := l.value(tk)
				if err != nil {
					ops = append(ops, PDFOp{Op: "?" + err.Error(), Args: args})
					args = nil
					if err == errPDFEOF {
						return ops
					}
					continue
				}
				args = append(args, v)
			case "true":
				args = append(args, true)
			case "false":
				args = append(args, false)
			case "null":
				args = append(args, PDFNull{})
			case "ID":
				// inline image data: skip to white-space EI white-space
				p := l.pos
				for {
					j := bytes.Index(b[p:], []byte("EI"))
					if j < 0 {
						l.pos = len(b)
						break
					}
					e := p + j
					if e > 0 && pdfIsWS(b[e-1]) && (e+2 >= len(b) || pdfIsWS(b[e+2])) {
						l.pos = e + 2
						break
					}
					p = e + 2
				}
				ops = append(ops, PDFOp{Op: "ID", Args: args}, PDFOp{Op: "EI"})
				args = nil
			default:
				ops = append(ops, PDFOp{Op: string(k), Args: args})
				args = nil
			}
			continue
		}
		args = append(args, tk)
	}
	if len(args) > 0 {
		ops = append(ops, PDFOp{Op: "?dangling-operands", Args: args})
	}
	return ops
}
