package oracle

import "math"

// StrokeStyle is the abstract pen of a stroke: half width, cap (butt | round | square), join (miter | bevel | round)
// and the miter limit (ratio of miter length to stroke width, SVG 11.4 / PDF 8.4.3.5 definition).
type StrokeStyle struct {
	HW    float64
	Cap   string
	Join  string
	Limit float64
}

// cleanContour removes repeated points (and the repeated start point of a closed contour).
func cleanContour(c Contour) []Pt {
	var out []Pt
	for _, p := range c.Pts {
		if len(out) > 0 && out[len(out)-1] == p {
			continue
		}
		out = append(out, p)
	}
	if c.Closed && len(out) > 1 && out[0] == out[len(out)-1] {
		out = out[:len(out)-1]
	}
	return out
}

// cleanMarked is cleanContour carrying the junction marks along (a dropped duplicate passes its mark to the kept point).
func cleanMarked(c Contour, junction [][]bool, ci int) ([]Pt, []bool) {
	var out []Pt
	var marks []bool
	for j, p := range c.Pts {
		m := junction == nil || ci >= len(junction) || j >= len(junction[ci]) || junction[ci][j]
		if len(out) > 0 && out[len(out)-1] == p {
			marks[len(marks)-1] = marks[len(marks)-1] || m
			continue
		}
		out = append(out, p)
		marks = append(marks, m)
	}
	if c.Closed && len(out) > 1 && out[0] == out[len(out)-1] {
		marks[0] = marks[0] || marks[len(marks)-1]
		out, marks = out[:len(out)-1], marks[:len(marks)-1]
	}
	return out, marks
}

func inTriangle(p, a, b, c Pt) bool {
	// a (numerically) degenerate triangle has no interior: its cross products are rounding noise
	if area := b.Sub(a).Cross(c.Sub(a)); math.Abs(area) <= 1e-9*(b.Sub(a).Len()+c.Sub(a).Len()+1e-300)*(b.Sub(a).Len()+c.Sub(a).Len()+1e-300) {
		return false
	}
	d1 := b.Sub(a).Cross(p.Sub(a))
	d2 := c.Sub(b).Cross(p.Sub(b))
	d3 := a.Sub(c).Cross(p.Sub(c))
	return (d1 >= 0 && d2 >= 0 && d3 >= 0) || (d1 <= 0 && d2 <= 0 && d3 <= 0)
}

// inJoin: p in the join region at vertex v between the edges a->v and v->b.
func inJoin(p, a, v, b Pt, st StrokeStyle) bool {
	if st.Join == "round" {
		return p.Sub(v).Len() <= st.HW
	}
	u, w := v.Sub(a), b.Sub(v)
	lu, lw := u.Len(), w.Len()
	if lu == 0 || lw == 0 {
		return false
	}
	turn := u.Cross(w)
	if turn == 0 {
		return false // straight on (nothing to join) or a full reversal (miter length infinite: bevel of zero area)
	}
	// outer unit normals (pointing away from the inside of the bend): right normals for a left turn, left normals otherwise
	var n1, n2 Pt
	if turn > 0 {
		n1 = Pt{u.Y / lu, -u.X / lu}
		n2 = Pt{w.Y / lw, -w.X / lw}
	} else {
		n1 = Pt{-u.Y / lu, u.X / lu}
		n2 = Pt{-w.Y / lw, w.X / lw}
	}
	c1, c2 := v.Add(n1.Mul(st.HW)), v.Add(n2.Mul(st.HW))
	if inTriangle(p, v, c1, c2) {
		return true // bevel part
	}
	if st.Join != "miter" {
		return false
	}
	// interior angle theta between -u and w: cos(theta) = -(u.w)/(|u||w|); miter ratio 1/sin(theta/2)
	cosT := -u.Dot(w) / (lu * lw)
	sin2 := (1 - cosT) / 2
	if sin2 <= 0 || 1/math.Sqrt(sin2) > st.Limit {
		return false
	}
	// tip: v + (n1+n2) * hw / (1 + n1.n2)
	d := 1 + n1.Dot(n2)
	if d <= 0 {
		return false
	}
	tip := v.Add(n1.Add(n2).Mul(st.HW / d))
	return inTriangle(p, c1, tip, c2)
}

// FlattenJunctions is Flatten plus, per contour, which points are junctions between two path commands (true) and which are
// interior points of a flattened curve (false). A join style applies at junctions only; inside a curve the stroke is the
// offset of a smooth curve, which the polyline model renders with round joins.
func FlattenJunctions(segs []Seg, n int) ([]Contour, [][]bool) {
	var out []Contour
	var marks [][]bool
	cur := -1
	for _, s := range segs {
		if s.Cmd == CmdMove {
			out = append(out, Contour{Pts: []Pt{s.End}})
			marks = append(marks, []bool{true})
			cur = len(out) - 1
			continue
		}
		if cur < 0 {
			out = append(out, Contour{Pts: []Pt{s.Start}})
			marks = append(marks, []bool{true})
			cur = len(out) - 1
		}
		pl := s.Polyline(n)
		for i := 1; i < len(pl); i++ {
			out[cur].Pts = append(out[cur].Pts, pl[i])
			marks[cur] = append(marks[cur], i == len(pl)-1)
		}
		if s.Cmd == CmdClose {
			out[cur].Closed = true
			cur = -1
		}
	}
	return out, marks
}

// InStroke reports whether p lies in the region the stroke of the polylines paints (the union of the segment
// rectangles, the joins at interior vertices and the caps at open ends). Contours come from Flatten.
func InStroke(cs []Contour, st StrokeStyle, p Pt) bool {
	return InStrokeJunctions(cs, nil, st, p)
}

// InStrokeJunctions: as InStroke; junction[i][j] = false makes vertex j of contour i a round join (nil: every vertex is a junction).
func InStrokeJunctions(cs []Contour, junction [][]bool, st StrokeStyle, p Pt) bool {
	round := st
	round.Join = "round"
	for ci, c := range cs {
		pts, isJ := cleanMarked(c, junction, ci)
		n := len(pts)
		if n < 2 {
			continue
		}
		nseg := n - 1
		if c.Closed {
			nseg = n
		}
		for i := 0; i < nseg; i++ {
			a, b := pts[i], pts[(i+1)%n]
			ab := b.Sub(a)
			l2 := ab.Dot(ab)
			t := p.Sub(a).Dot(ab)
			if t >= 0 && t <= l2 && math.Abs(ab.Cross(p.Sub(a))) <= st.HW*math.Sqrt(l2) {
				return true
			}
		}
		if c.Closed {
			for i := 0; i < n; i++ {
				js := st
				if !isJ[i] {
					js = round
				}
				if inJoin(p, pts[(i+n-1)%n], pts[i], pts[(i+1)%n], js) {
					return true
				}
			}
		} else {
			for i := 1; i+1 < n; i++ {
				js := st
				if !isJ[i] {
					js = round
				}
				if inJoin(p, pts[i-1], pts[i], pts[i+1], js) {
					return true
				}
			}
			for _, e := range [][2]Pt{{pts[0], pts[1]}, {pts[n-1], pts[n-2]}} {
				end, nb := e[0], e[1]
				switch st.Cap {
				case "round":
					if p.Sub(end).Len() <= st.HW {
						return true
					}
				case "square":
					d := end.Sub(nb)
					l := d.Len()
					t := p.Sub(end).Dot(d) / l
					if t >= 0 && t <= st.HW && math.Abs(d.Cross(p.Sub(end)))/l <= st.HW {
						return true
					}
				}
			}
		}
	}
	return false
}
