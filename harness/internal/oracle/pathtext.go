package oracle

// Independent mini-interpreters for the textual path formats canvas prints (trusted base of C11/C12):
//   - SVG path data (full grammar: absolute/relative commands, H/V/S/T shorthands, implicit repetition,
//     implicit LineTo after MoveTo, numbers without separators, packed arc flags)
//   - PDF path construction operators  m l c v y h re
//   - PostScript path operators  moveto lineto curveto closepath  and the two procedures of the canvas
//     prolog  ellipse / ellipsen  (x y rx ry a0 a1 rot; arc / arcn in the scaled, rotated frame)
// Nothing here calls canvas. The result is a list of traced pieces that can be evaluated at a parameter.

import (
	"fmt"
	"math"
	"strconv"
	"strings"
)

// TPiece is one traced piece of a textual path.
type TPiece struct {
	Kind     byte // 'M' move, 'L' line, 'Q' quad, 'C' cube, 'A' end-point arc, 'E' centre-form arc, 'Z' close (line to start)
	P0, P3   Pt   // start, end
	P1, P2   Pt   // control points (Q: P1; C: P1, P2)
	Rx, Ry   float64
	Phi      float64 // radians
	Large    bool
	Sweep    bool
	Cx, Cy   float64 // 'E'
	Th0, Th1 float64 // 'E': parametric angles, radians; Th1 > Th0 = counter-clockwise
	Sub      int
}

// At evaluates the piece at t in [0,1].
func (p TPiece) At(t float64) Pt {
	switch p.Kind {
	case 'M':
		return p.P3
	case 'L', 'Z':
		return p.P0.Add(p.P3.Sub(p.P0).Mul(t))
	case 'Q':
		u := 1 - t
		return p.P0.Mul(u * u).Add(p.P1.Mul(2 * u * t)).Add(p.P3.Mul(t * t))
	case 'C':
		u := 1 - t
		return p.P0.Mul(u * u * u).Add(p.P1.Mul(3 * u * u * t)).Add(p.P2.Mul(3 * u * t * t)).Add(p.P3.Mul(t * t * t))
	case 'A':
		s := Seg{Cmd: CmdArc, Start: p.P0, End: p.P3, Rx: p.Rx, Ry: p.Ry, Phi: p.Phi, Large: p.Large, Sweep: p.Sweep}
		return s.At(t)
	case 'E':
		a := p.Th0 + t*(p.Th1-p.Th0)
		sin, cos := math.Sincos(p.Phi)
		x, y := p.Rx*math.Cos(a), p.Ry*math.Sin(a)
		return Pt{p.Cx + cos*x - sin*y, p.Cy + sin*x + cos*y}
	}
	return p.P3
}

// PiecesOfSegs converts a decoded Data() stream into pieces.
func PiecesOfSegs(segs []Seg) []TPiece {
	out := make([]TPiece, 0, len(segs))
	for _, s := range segs {
		p := TPiece{P0: s.Start, P3: s.End, Sub: s.Sub}
		switch s.Cmd {
		case CmdMove:
			p.Kind = 'M'
		case CmdLine:
			p.Kind = 'L'
		case CmdClose:
			p.Kind = 'Z'
		case CmdQuad:
			p.Kind, p.P1 = 'Q', s.C1
		case CmdCube:
			p.Kind, p.P1, p.P2 = 'C', s.C1, s.C2
		case CmdArc:
			p.Kind, p.Rx, p.Ry, p.Phi, p.Large, p.Sweep = 'A', s.Rx, s.Ry, s.Phi, s.Large, s.Sweep
		}
		out = append(out, p)
	}
	return out
}

// ---- SVG path data ---------------------------------------------------------------------------------

type svgLexer struct {
	s string
	i int
}

func (l *svgLexer) skipWsp() {
	for l.i < len(l.s) {
		switch l.s[l.i] {
		case ' ', '\t', '\n', '\r', '\f':
			l.i++
		default:
			return
		}
	}
}

func (l *svgLexer) skipCommaWsp() {
	l.skipWsp()
	if l.i < len(l.s) && l.s[l.i] == ',' {
		l.i++
		l.skipWsp()
	}
}

// number per the SVG grammar: sign? (digits [. digits?] | . digits) (e sign? digits)?
func (l *svgLexer) number() (float64, bool) {
	j := l.i
	if j < len(l.s) && (l.s[j] == '+' || l.s[j] == '-') {
		j++
	}
	d0 := j
	for j < len(l.s) && l.s[j] >= '0' && l.s[j] <= '9' {
		j++
	}
	nInt := j - d0
	nFrac := 0
	if j < len(l.s) && l.s[j] == '.' {
		k := j + 1
		for k < len(l.s) && l.s[k] >= '0' && l.s[k] <= '9' {
			k++
		}
		nFrac = k - j - 1
		if nInt > 0 || nFrac > 0 {
			j = k
		}
	}
	if nInt == 0 && nFrac == 0 {
		return 0, false
	}
	if j < len(l.s) && (l.s[j] == 'e' || l.s[j] == 'E') {
		k := j + 1
		if k < len(l.s) && (l.s[k] == '+' || l.s[k] == '-') {
			k++
		}
		e0 := k
		for k < len(l.s) && l.s[k] >= '0' && l.s[k] <= '9' {
			k++
		}
		if k > e0 {
			j = k
		}
	}
	v, err := strconv.ParseFloat(l.s[l.i:j], 64)
	if err != nil && !strings.Contains(err.Error(), "range") {
		return 0, false
	}
	l.i = j
	return v, true
}

func (l *svgLexer) flag() (bool, bool) {
	if l.i < len(l.s) && (l.s[l.i] == '0' || l.s[l.i] == '1') {
		l.i++
		return l.s[l.i-1] == '1', true
	}
	return false, false
}

// InterpretSVGPath traces SVG path data. The error return means the string is not grammatical.
func InterpretSVGPath(s string) ([]TPiece, error) {
	l := &svgLexer{s: s}
	var out []TPiece
	var cur, start, lastC, lastQ Pt
	sub := -1
	var prev byte
	nargs := map[byte]int{'M': 2, 'Z': 0, 'L': 2, 'H': 1, 'V': 1, 'C': 6, 'S': 4, 'Q': 4, 'T': 2, 'A': 7}
	l.skipWsp()
	first := true
	for l.i < len(l.s) {
		c := l.s[l.i]
		up := c
		if c >= 'a' && c <= 'z' {
			up = c - 'a' + 'A'
		}
		n, ok := nargs[up]
		if !ok {
			return out, fmt.Errorf("position %d: unexpected %q", l.i, c)
		}
		if first && up != 'M' {
			return out, fmt.Errorf("path data must start with a moveto")
		}
		first = false
		l.i++
		rel := c != up
		l.skipWsp()
		if n == 0 {
			out = append(out, TPiece{Kind: 'Z', P0: cur, P3: start, Sub: sub})
			cur = start
			prev = 'Z'
			l.skipWsp()
			continue
		}
		cmd := up
		if prev == 'Z' && cmd != 'M' { // a segment after closepath starts a new sub-path at the same initial point
			sub++
			out = append(out, TPiece{Kind: 'M', P0: cur, P3: cur, Sub: sub})
		}
		for rep := 0; ; rep++ {
			var a [7]float64
			for k := 0; k < n; k++ {
				if k > 0 {
					l.skipCommaWsp()
				}
				if cmd == 'A' && (k == 3 || k == 4) {
					f, ok := l.flag()
					if !ok {
						return out, fmt.Errorf("position %d: arc flag expected", l.i)
					}
					if f {
						a[k] = 1
					}
					continue
				}
				v, ok := l.number()
				if !ok {
					return out, fmt.Errorf("position %d: number expected", l.i)
				}
				a[k] = v
			}
			off := Pt{}
			if rel {
				off = cur
			}
			switch cmd {
			case 'M':
				p := Pt{a[0], a[1]}.Add(off)
				sub++
				out = append(out, TPiece{Kind: 'M', P0: cur, P3: p, Sub: sub})
				cur, start = p, p
				cmd = 'L' // further pairs are implicit linetos
				prev = 'M'
			case 'L':
				p := Pt{a[0], a[1]}.Add(off)
				out = append(out, TPiece{Kind: 'L', P0: cur, P3: p, Sub: sub})
				cur = p
				prev = 'L'
			case 'H':
				p := Pt{a[0] + off.X, cur.Y}
				out = append(out, TPiece{Kind: 'L', P0: cur, P3: p, Sub: sub})
				cur = p
				prev = 'H'
			case 'V':
				p := Pt{cur.X, a[0] + off.Y}
				out = append(out, TPiece{Kind: 'L', P0: cur, P3: p, Sub: sub})
				cur = p
				prev = 'V'
			case 'C':
				c1, c2, p := Pt{a[0], a[1]}.Add(off), Pt{a[2], a[3]}.Add(off), Pt{a[4], a[5]}.Add(off)
				out = append(out, TPiece{Kind: 'C', P0: cur, P1: c1, P2: c2, P3: p, Sub: sub})
				cur, lastC = p, c2
				prev = 'C'
			case 'S':
				c1 := cur
				if prev == 'C' || prev == 'S' {
					c1 = cur.Mul(2).Sub(lastC)
				}
				c2, p := Pt{a[0], a[1]}.Add(off), Pt{a[2], a[3]}.Add(off)
				out = append(out, TPiece{Kind: 'C', P0: cur, P1: c1, P2: c2, P3: p, Sub: sub})
				cur, lastC = p, c2
				prev = 'S'
			case 'Q':
				c1, p := Pt{a[0], a[1]}.Add(off), Pt{a[2], a[3]}.Add(off)
				out = append(out, TPiece{Kind: 'Q', P0: cur, P1: c1, P3: p, Sub: sub})
				cur, lastQ = p, c1
				prev = 'Q'
			case 'T':
				c1 := cur
				if prev == 'Q' || prev == 'T' {
					c1 = cur.Mul(2).Sub(lastQ)
				}
				p := Pt{a[0], a[1]}.Add(off)
				out = append(out, TPiece{Kind: 'Q', P0: cur, P1: c1, P3: p, Sub: sub})
				cur, lastQ = p, c1
				prev = 'T'
			case 'A':
				p := Pt{a[5], a[6]}.Add(off)
				pc := TPiece{Kind: 'A', P0: cur, P3: p, Rx: math.Abs(a[0]), Ry: math.Abs(a[1]), Phi: a[2] * math.Pi / 180, Large: a[3] == 1, Sweep: a[4] == 1, Sub: sub}
				if a[0] == 0 || a[1] == 0 {
					pc = TPiece{Kind: 'L', P0: cur, P3: p, Sub: sub} // SVG: zero radius = straight line
				}
				out = append(out, pc)
				cur = p
				prev = 'A'
			}
			if sub < 0 {
				sub = 0
			}
			// another argument set?
			save := l.i
			l.skipCommaWsp()
			if l.i >= len(l.s) {
				break
			}
			ch := l.s[l.i]
			if ch == '+' || ch == '-' || ch == '.' || (ch >= '0' && ch <= '9') {
				continue
			}
			if l.s[save:l.i] != "" && strings.Contains(l.s[save:l.i], ",") {
				return out, fmt.Errorf("position %d: comma before a command", l.i)
			}
			break
		}
	}
	return out, nil
}

// ---- PDF / PostScript operator strings ------------------------------------------------------------

func fields(s string) []string { return strings.Fields(s) }

func popN(st *[]float64, n int, op string) ([]float64, error) {
	if len(*st) < n {
		return nil, fmt.Errorf("operator %s: %d operands on the stack, %d needed", op, len(*st), n)
	}
	a := append([]float64(nil), (*st)[len(*st)-n:]...)
	*st = (*st)[:len(*st)-n]
	return a, nil
}

// InterpretPDFPath traces a PDF path-construction operator string.
func InterpretPDFPath(s string) ([]TPiece, error) {
	var out []TPiece
	var st []float64
	var cur, start Pt
	sub := -1
	have, closed := false, false
	for _, f := range fields(s) {
		if v, err := strconv.ParseFloat(f, 64); err == nil {
			st = append(st, v)
			continue
		}
		need := map[string]int{"m": 2, "l": 2, "c": 6, "v": 4, "y": 4, "h": 0, "re": 4}
		n, ok := need[f]
		if !ok {
			return out, fmt.Errorf("unknown operator %q", f)
		}
		a, err := popN(&st, n, f)
		if err != nil {
			return out, err
		}
		if f != "m" && f != "re" && !have {
			return out, fmt.Errorf("operator %s without current point", f)
		}
		if closed && f != "m" && f != "re" && f != "h" {
			sub++
			out = append(out, TPiece{Kind: 'M', P0: cur, P3: cur, Sub: sub})
		}
		closed = f == "h"
		switch f {
		case "m":
			sub++
			p := Pt{a[0], a[1]}
			out = append(out, TPiece{Kind: 'M', P0: cur, P3: p, Sub: sub})
			cur, start, have = p, p, true
		case "l":
			p := Pt{a[0], a[1]}
			out = append(out, TPiece{Kind: 'L', P0: cur, P3: p, Sub: sub})
			cur = p
		case "c":
			p := Pt{a[4], a[5]}
			out = append(out, TPiece{Kind: 'C', P0: cur, P1: Pt{a[0], a[1]}, P2: Pt{a[2], a[3]}, P3: p, Sub: sub})
			cur = p
		case "v":
			p := Pt{a[2], a[3]}
			out = append(out, TPiece{Kind: 'C', P0: cur, P1: cur, P2: Pt{a[0], a[1]}, P3: p, Sub: sub})
			cur = p
		case "y":
			p := Pt{a[2], a[3]}
			out = append(out, TPiece{Kind: 'C', P0: cur, P1: Pt{a[0], a[1]}, P2: p, P3: p, Sub: sub})
			cur = p
		case "h":
			out = append(out, TPiece{Kind: 'Z', P0: cur, P3: start, Sub: sub})
			cur = start
		case "re":
			sub++
			x, y, w, h := a[0], a[1], a[2], a[3]
			out = append(out, TPiece{Kind: 'M', P0: cur, P3: Pt{x, y}, Sub: sub},
				TPiece{Kind: 'L', P0: Pt{x, y}, P3: Pt{x + w, y}, Sub: sub}, TPiece{Kind: 'L', P0: Pt{x + w, y}, P3: Pt{x + w, y + h}, Sub: sub},
				TPiece{Kind: 'L', P0: Pt{x + w, y + h}, P3: Pt{x, y + h}, Sub: sub}, TPiece{Kind: 'Z', P0: Pt{x, y + h}, P3: Pt{x, y}, Sub: sub})
			cur, start, have = Pt{x, y}, Pt{x, y}, true
		}
	}
	if len(st) != 0 {
		return out, fmt.Errorf("%d operands left on the stack", len(st))
	}
	return out, nil
}

// InterpretPSPath traces a PostScript path string as printed by canvas (moveto lineto curveto closepath and the
// prolog procedures ellipse / ellipsen = arc / arcn in the frame translated, rotated by rot and scaled by rx ry).
func InterpretPSPath(s string) ([]TPiece, error) {
	var out []TPiece
	var st []float64
	var cur, start Pt
	sub := -1
	have, closed := false, false
	for _, f := range fields(s) {
		if v, err := strconv.ParseFloat(f, 64); err == nil {
			st = append(st, v)
			continue
		}
		need := map[string]int{"moveto": 2, "lineto": 2, "curveto": 6, "closepath": 0, "ellipse": 7, "ellipsen": 7}
		n, ok := need[f]
		if !ok {
			return out, fmt.Errorf("unknown operator %q", f)
		}
		a, err := popN(&st, n, f)
		if err != nil {
			return out, err
		}
		if closed && have && f != "moveto" && f != "closepath" {
			sub++
			out = append(out, TPiece{Kind: 'M', P0: cur, P3: cur, Sub: sub})
		}
		closed = f == "closepath"
		switch f {
		case "moveto":
			sub++
			p := Pt{a[0], a[1]}
			out = append(out, TPiece{Kind: 'M', P0: cur, P3: p, Sub: sub})
			cur, start, have = p, p, true
		case "lineto":
			if !have {
				return out, fmt.Errorf("lineto: nocurrentpoint")
			}
			p := Pt{a[0], a[1]}
			out = append(out, TPiece{Kind: 'L', P0: cur, P3: p, Sub: sub})
			cur = p
		case "curveto":
			if !have {
				return out, fmt.Errorf("curveto: nocurrentpoint")
			}
			p := Pt{a[4], a[5]}
			out = append(out, TPiece{Kind: 'C', P0: cur, P1: Pt{a[0], a[1]}, P2: Pt{a[2], a[3]}, P3: p, Sub: sub})
			cur = p
		case "closepath":
			if have {
				out = append(out, TPiece{Kind: 'Z', P0: cur, P3: start, Sub: sub})
				cur = start
			}
		case "ellipse", "ellipsen":
			e := TPiece{Kind: 'E', Cx: a[0], Cy: a[1], Rx: a[2], Ry: a[3], Phi: a[6] * math.Pi / 180, Sub: sub}
			a0, a1 := a[4], a[5]
			if f == "ellipse" { // arc: counter-clockwise; angle2 is increased by 360 until it is not less than angle1
				for a1 < a0 {
					a1 += 360
				}
			} else { // arcn: clockwise; angle2 is decreased by 360 until it is not greater than angle1
				for a1 > a0 {
					a1 -= 360
				}
			}
			e.Th0, e.Th1 = a0*math.Pi/180, a1*math.Pi/180
			e.P0, e.P3 = e.At(0), e.At(1)
			if have { // arc prepends a straight line from the current point to the start of the arc
				out = append(out, TPiece{Kind: 'L', P0: cur, P3: e.P0, Sub: sub})
			} else {
				sub++
				e.Sub = sub
				start, have = e.P0, true
			}
			out = append(out, e)
			cur = e.P3
		}
	}
	if len(st) != 0 {
		return out, fmt.Errorf("%d operands left on the stack", len(st))
	}
	return out, nil
}

// ---- comparison -------------------------------------------------------------------------------------

func distPolyline(p Pt, pl []Pt) float64 {
	best := math.Inf(1)
	for i := 0; i+1 < len(pl); i++ {
		best = math.Min(best, DistSeg(p, pl[i], pl[i+1]))
	}
	if len(pl) == 1 {
		best = p.Sub(pl[0]).Len()
	}
	return best
}

func sample(p TPiece, n int) []Pt {
	out := make([]Pt, n+1)
	for i := 0; i <= n; i++ {
		out[i] = p.At(float64(i) / float64(n))
	}
	return out
}

// TraceTol gives the tolerances of CompareTraces.
type TraceTol struct {
	Point  float64 // end points, control-point driven samples
	Arc    float64 // interior samples of arcs (ill-conditioned centre)
	ArcCub float64 // arcs replaced by cubic Beziers: fraction of the larger radius added to Point
	Merge  bool    // compare modulo merging of consecutive lines that continue straight (text parsed by the builder)
}

// MergeCollinear joins consecutive lines that continue in the same direction (the builder does this when a printed
// path is parsed again); angTol is the sine of the largest angle regarded as straight.
func MergeCollinear(ps []TPiece, angTol float64) []TPiece {
	out := ps[:0:0]
	for _, p := range ps {
		if n := len(out); n > 0 && p.Kind == 'L' && out[n-1].Kind == 'L' {
			a, b := out[n-1].P3.Sub(out[n-1].P0), p.P3.Sub(p.P0)
			if la, lb := a.Len(), b.Len(); la > 0 && lb > 0 && math.Abs(a.Cross(b)) <= angTol*la*lb && a.Dot(b) > 0 {
				out[n-1].P3 = p.P3
				continue
			}
		}
		out = append(out, p)
	}
	return out
}

// CompareTraces checks that got traces the same geometry as ref (the decoded path): same sub-paths, and piece by
// piece the same points at t = 0, 1/4, 1/2, 3/4, 1. Pieces shorter than tol.Point are ignored on both sides (printers
// drop zero-length lines; PostScript arc prepends a null line). A ref arc may be matched by a run of cubic Beziers.
func CompareTraces(ref, got []TPiece, tol TraceTol) error {
	// null lines (shorter than 10 tolerances: far below any real segment) and empty sub-paths (a move directly
	// followed by another move, or ending the path) are not geometry
	keep := func(ps []TPiece) []TPiece {
		out := ps[:0:0]
		for _, p := range ps {
			if p.Kind == 'Z' { // a close = the line back to the start (if any) + the closing mark
				if p.P0.Sub(p.P3).Len() > 10*tol.Point {
					l := p
					l.Kind = 'L'
					out = append(out, l)
				}
				p.P0 = p.P3
			}
			if p.Kind == 'L' && p.P0.Sub(p.P3).Len() <= 10*tol.Point {
				continue
			}
			if p.Kind == 'M' && len(out) > 0 && out[len(out)-1].Kind == 'M' {
				out[len(out)-1] = p
				continue
			}
			out = append(out, p)
		}
		if len(out) > 0 && out[len(out)-1].Kind == 'M' {
			out = out[:len(out)-1]
		}
		return out
	}
	ref, got = keep(ref), keep(got)
	if tol.Merge {
		ref, got = MergeCollinear(ref, 1e-9), MergeCollinear(got, 1e-9)
	}
	j := 0
	for i, r := range ref {
		if j >= len(got) {
			return fmt.Errorf("piece %d (%c to %v): the text ends early (%d pieces)", i, r.Kind, r.P3, len(got))
		}
		g := got[j]
		if (r.Kind == 'M') != (g.Kind == 'M') || (r.Kind == 'Z') != (g.Kind == 'Z') {
			return fmt.Errorf("piece %d: path has %c to %v, text has %c to %v", i, r.Kind, r.P3, g.Kind, g.P3)
		}
		if r.Kind == 'M' {
			if d := r.P3.Sub(g.P3).Len(); !(d <= tol.Point) {
				return fmt.Errorf("piece %d: MoveTo %v, text moves to %v (off by %.3g, tolerance %.3g)", i, r.P3, g.P3, d, tol.Point)
			}
			j++
			continue
		}
		if r.Kind == 'A' && g.Kind == 'C' {
			// run of cubics up to the arc's end point
			k := j
			for k < len(got) && got[k].Kind == 'C' && k-j < 16 {
				if got[k].P3.Sub(r.P3).Len() <= tol.Point {
					break
				}
				k++
			}
			if k >= len(got) || got[k].Kind != 'C' || k-j >= 16 {
				return fmt.Errorf("piece %d: arc to %v: no run of cubic Beziers ends there", i, r.P3)
			}
			t := tol.Point + tol.ArcCub*math.Max(r.Rx, r.Ry)
			if d := got[j].P0.Sub(r.P0).Len(); !(d <= tol.Point) {
				return fmt.Errorf("piece %d: arc starts at %v, text at %v", i, r.P0, got[j].P0)
			}
			var gl []Pt
			for q := j; q <= k; q++ {
				gl = append(gl, sample(got[q], 64)...)
			}
			rl := sample(r, 512)
			for _, p := range sample(r, 32) {
				if d := distPolyline(p, gl); !(d <= t) {
					return fmt.Errorf("piece %d: point %v of the arc to %v is %.3g from the Beziers of the text (tolerance %.3g)", i, p, r.P3, d, t)
				}
			}
			for q := j; q <= k; q++ {
				for _, p := range sample(got[q], 8) {
					if d := distPolyline(p, rl); !(d <= t) {
						return fmt.Errorf("piece %d: point %v of a Bezier of the text is %.3g from the arc to %v (tolerance %.3g)", i, p, d, r.P3, t)
					}
				}
			}
			j = k + 1
			continue
		}
		for _, t := range []float64{0, 0.25, 0.5, 0.75, 1} {
			tl := tol.Point
			if (r.Kind == 'A' || g.Kind == 'A' || g.Kind == 'E') && t != 0 && t != 1 {
				tl = math.Max(tl, tol.Arc)
			}
			a, b := r.At(t), g.At(t)
			if d := a.Sub(b).Len(); !(d <= tl) {
				return fmt.Errorf("piece %d (%c to %v) at t=%v: path %v, text (%c) %v: off by %.3g (tolerance %.3g)", i, r.Kind, r.P3, t, a, g.Kind, b, d, tl)
			}
		}
		j++
	}
	if j != len(got) {
		return fmt.Errorf("the text has %d further pieces (%c to %v ...)", len(got)-j, got[j].Kind, got[j].P3)
	}
	return nil
}
