// Package latcurve turns the abstract lattice curve paths of spec/LatCurves.tla (contours of line, quadratic,
// cubic and elliptical-arc segments with integer control data) into real canvas paths under an affine
// embedding. It is used by the drivers of C06-C09. It contains no geometry of its own beyond applying the
// embedding to control points (and, for arcs, to the ellipse's axis direction, similarities only).
package latcurve

import (
	"fmt"
	"math"
	"strings"

	"github.com/tdewolff/canvas"

	"verif/harness/internal/latgeo"
	"verif/harness/internal/oracle"
)

// Seg mirrors the uniform segment record of LatCurves.tla.
type Seg struct {
	K   string `json:"k"`   // L | Q | C | A
	P   [2]int `json:"p"`   // end point
	C1  [2]int `json:"c1"`  // Q: control; C: first control; A: centre
	C2  [2]int `json:"c2"`  // C: second control; A: radii (along the ellipse's own axes)
	Rot int    `json:"rot"` // A: 0 = axis-parallel, 1 = own x axis along (4/5, 3/5)
	Lg  int    `json:"lg"`
	Sw  int    `json:"sw"`
}

type Contour struct {
	S    [2]int `json:"s"`
	Segs []Seg  `json:"segs"`
	Cl   bool   `json:"cl"`
}

type Path []Contour

// Den is an optional common denominator of all coordinates (the spec works on scaled integers).
type Emb = latgeo.Emb

// IsSimilarity reports whether the linear part of e is a similarity (rotation/reflection times uniform scale).
func IsSimilarity(e Emb) bool {
	s := math.Abs(e.Det())
	return math.Abs(e.A*e.A+e.C*e.C-s) < 1e-12*s+1e-300 && math.Abs(e.B*e.B+e.D*e.D-s) < 1e-12*s+1e-300 && math.Abs(e.A*e.B+e.C*e.D) < 1e-12*s+1e-300
}

// RotAxis returns the direction of the own x axis of an arc's ellipse in lattice coordinates.
func RotAxis(rot int) (float64, float64) {
	if rot == 1 {
		return 0.8, 0.6
	}
	return 1, 0
}

// ArcParams maps the arc's ellipse through the embedding (which must be a similarity): radii, rotation in
// degrees, flags.
func ArcParams(g Seg, e Emb, den float64) (rx, ry, rotDeg float64, large, sweep bool) {
	sc := math.Sqrt(math.Abs(e.Det()))
	ux, uy := RotAxis(g.Rot)
	ix, iy := e.A*ux+e.B*uy, e.C*ux+e.D*uy
	rotDeg = math.Atan2(iy, ix) * 180 / math.Pi
	if g.Rot == 0 && e.B == 0 && e.C == 0 {
		rotDeg = 0
		if e.A < 0 {
			rotDeg = 180
		}
	}
	rx, ry = float64(g.C2[0])*sc/den, float64(g.C2[1])*sc/den
	large, sweep = g.Lg == 1, g.Sw == 1
	if e.Det() < 0 {
		sweep = !sweep
	}
	return
}

// Build constructs the real path through the public builder API. den divides all lattice coordinates.
func Build(p Path, e Emb, den float64) *canvas.Path {
	out := &canvas.Path{}
	pt := func(v [2]int) (float64, float64) { return e.Map(float64(v[0])/den, float64(v[1])/den) }
	for _, c := range p {
		x, y := pt(c.S)
		out.MoveTo(x, y)
		for _, g := range c.Segs {
			x, y := pt(g.P)
			switch g.K {
			case "L":
				out.LineTo(x, y)
			case "Q":
				cx, cy := pt(g.C1)
				out.QuadTo(cx, cy, x, y)
			case "C":
				c1x, c1y := pt(g.C1)
				c2x, c2y := pt(g.C2)
				out.CubeTo(c1x, c1y, c2x, c2y, x, y)
			case "A":
				rx, ry, rot, large, sweep := ArcParams(g, e, den)
				out.ArcTo(rx, ry, rot, large, sweep, x, y)
			}
		}
		if c.Cl {
			out.Close()
		}
	}
	return out
}

// SVG renders the abstract path (lattice units) for messages.
func (p Path) SVG() string {
	var b strings.Builder
	for _, c := range p {
		fmt.Fprintf(&b, "M%d %d", c.S[0], c.S[1])
		for _, g := range c.Segs {
			switch g.K {
			case "L":
				fmt.Fprintf(&b, "L%d %d", g.P[0], g.P[1])
			case "Q":
				fmt.Fprintf(&b, "Q%d %d %d %d", g.C1[0], g.C1[1], g.P[0], g.P[1])
			case "C":
				fmt.Fprintf(&b, "C%d %d %d %d %d %d", g.C1[0], g.C1[1], g.C2[0], g.C2[1], g.P[0], g.P[1])
			case "A":
				rot := "0"
				if g.Rot == 1 {
					rot = "36.87"
				}
				fmt.Fprintf(&b, "A%d %d %s %d %d %d %d", g.C2[0], g.C2[1], rot, g.Lg, g.Sw, g.P[0], g.P[1])
			}
		}
		if c.Cl {
			b.WriteString("z")
		}
	}
	return b.String()
}

// Kinds returns the sorted set of segment kinds of the path, e.g. "L", "AL", "ACLQ"; E = arc of a non-circular
// ellipse (A = circular arc).
func (p Path) Kinds() string {
	has := map[string]bool{}
	for _, c := range p {
		for _, g := range c.Segs {
			if g.K == "A" && g.C2[0] != g.C2[1] {
				has["E"] = true
			} else {
				has[g.K] = true
			}
		}
	}
	s := ""
	for _, k := range []string{"A", "C", "E", "L", "Q"} {
		if has[k] {
			s += k
		}
	}
	if s == "" {
		s = "L"
	}
	return s
}

// LineLength is the total length (lattice units / den) of the straight segments the abstract path draws,
// Close edges included.
func (p Path) LineLength(den float64) float64 {
	l := 0.0
	d := func(a, b [2]int) float64 { return math.Hypot(float64(a[0]-b[0]), float64(a[1]-b[1])) / den }
	for _, c := range p {
		cur := c.S
		for _, g := range c.Segs {
			if g.K == "L" {
				l += d(cur, g.P)
			}
			cur = g.P
		}
		if c.Cl {
			l += d(cur, c.S)
		}
	}
	return l
}

// Faithful reports whether the builder kept the geometry of the abstract path: same number of sub-paths, same
// number of curved segments and the same total length of straight segments (the builder merges collinear
// LineTo's; a merged *reversal* or a dropped degenerate contour changes the trace - that is the subject of
// C10, not of the geometric queries).
func Faithful(p Path, real *canvas.Path, e Emb, den float64) (bool, string) {
	segs, err := oracle.Decode(real.Data())
	if err != nil {
		return false, err.Error()
	}
	subs, curves, lines := 0, 0, 0.0
	for _, s := range segs {
		switch s.Cmd {
		case oracle.CmdMove:
			subs++
		case oracle.CmdLine, oracle.CmdClose:
			lines += s.End.Sub(s.Start).Len()
		default:
			curves++
		}
	}
	wantCurves := 0
	for _, c := range p {
		for _, g := range c.Segs {
			if g.K != "L" {
				wantCurves++
			}
		}
	}
	sc := math.Sqrt(math.Abs(e.Det()))
	want := p.LineLength(den) * sc
	if subs != len(p) {
		return false, fmt.Sprintf("%d sub-paths built from %d contours", subs, len(p))
	}
	if curves != wantCurves {
		return false, fmt.Sprintf("%d curved segments built from %d", curves, wantCurves)
	}
	if IsSimilarity(e) && math.Abs(lines-want) > 1e-9*(1+want) {
		return false, fmt.Sprintf("straight length %.12g built from %.12g", lines, want)
	}
	return true, ""
}
