// Package rec provides a recording canvas.Renderer used to observe what a Canvas/Context
// hands to its back-end.
package rec

import (
	"image"
	"math"

	"github.com/tdewolff/canvas"
)

type Event struct {
	Kind  string // path | text | image
	M     canvas.Matrix
	Style canvas.Style
	Path  *canvas.Path
	Data  []float64 // copy of the path's command stream at record time
	Text  *canvas.Text
	Img   image.Image
}

type Renderer struct {
	W, H   float64
	Events []Event
}

func New(w, h float64) *Renderer { return &Renderer{W: w, H: h} }

func (r *Renderer) Size() (float64, float64) { return r.W, r.H }
func (r *Renderer) RenderPath(p *canvas.Path, s canvas.Style, m canvas.Matrix) {
	d := append([]float64(nil), p.Data()...)
	s.Dashes = append([]float64(nil), s.Dashes...)
	r.Events = append(r.Events, Event{Kind: "path", M: m, Style: s, Path: p, Data: d})
}
func (r *Renderer) RenderText(t *canvas.Text, m canvas.Matrix) {
	r.Events = append(r.Events, Event{Kind: "text", M: m, Text: t})
}
func (r *Renderer) RenderImage(img image.Image, m canvas.Matrix) {
	r.Events = append(r.Events, Event{Kind: "image", M: m, Img: img})
}

// IntMatrix rounds a matrix to integers; ok is false if an entry is farther than 1e-7 from an integer.
func IntMatrix(m canvas.Matrix) (out [6]int, ok bool) {
	ok = true
	k := 0
	for i := 0; i < 2; i++ {
		for j := 0; j < 3; j++ {
			v := m[i][j]
			r := math.Round(v)
			if math.Abs(v-r) > 1e-7 || math.IsNaN(v) || math.Abs(r) > 1e9 {
				ok = false
			}
			out[k] = int(r)
			k++
		}
	}
	return
}
