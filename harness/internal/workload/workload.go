// Package workload defines deterministic jobs on independent inputs (geometry operations, text layout with a
// shared font, font loading, rasterization) with a canonical string result, used by the C20 checks both in the
// normal and in the -race build.
package workload

import (
	"bytes"
	"fmt"
	"hash/fnv"
	"image"
	"math/rand"
	"os"
	"regexp"
	"strings"
	"sync"

	"github.com/tdewolff/canvas"
	"github.com/tdewolff/canvas/renderers/pdf"
	"github.com/tdewolff/canvas/renderers/ps"
	"github.com/tdewolff/canvas/renderers/rasterizer"
	"github.com/tdewolff/canvas/renderers/svg"
)

var reDate = regexp.MustCompile(`D:\d{14}[+\-Z0-9']*|%%CreationDate: [^\n]*`)

// SharedDashes are dash patterns passed (as the variadic slice itself) by many jobs at once.
var dashBacking = []float64{2, 1, 3, 7, 7, 7}
var SharedDashes = [][]float64{{0, 2, 3, 4}, {1, 2, 0}, dashBacking[:3], {0.5, 1.5, 0.5, 1.5, 0.5, 1.5}, {3, 0, 2, 1}}
var sharedDashesWant = fmt.Sprint(SharedDashes, dashBacking)

// SharedIntact reports (non-empty) when a shared input was modified by the library.
func SharedIntact() string {
	if got := fmt.Sprint(SharedDashes, dashBacking); got != sharedDashesWant {
		return "shared dash patterns were modified: " + got + " want " + sharedDashesWant
	}
	return ""
}

// Job is one call on its own inputs; Run returns a canonical description of the result.
type Job struct {
	Name string
	Run  func() string
}

func randPoly(r *rand.Rand, n, k int) *canvas.Path {
	p := &canvas.Path{}
	for i := 0; i < k; i++ {
		x, y := float64(r.Intn(n+1)), float64(r.Intn(n+1))
		if i == 0 {
			p.MoveTo(x, y)
		} else {
			p.LineTo(x, y)
		}
	}
	p.Close()
	return p
}

func randCurvy(r *rand.Rand) *canvas.Path {
	p := &canvas.Path{}
	p.MoveTo(float64(r.Intn(5)), float64(r.Intn(5)))
	for i := 0; i < 3; i++ {
		switch r.Intn(3) {
		case 0:
			p.LineTo(float64(r.Intn(9)), float64(r.Intn(9)))
		case 1:
			p.QuadTo(float64(r.Intn(9)), float64(r.Intn(9)), float64(r.Intn(9)), float64(r.Intn(9)))
		default:
			p.CubeTo(float64(r.Intn(9)), float64(r.Intn(9)), float64(r.Intn(9)), float64(r.Intn(9)), float64(r.Intn(9)), float64(r.Intn(9)))
		}
	}
	return p
}

func hashImage(img *image.RGBA) string {
	h := fnv.New64a()
	h.Write(img.Pix)
	return fmt.Sprintf("%dx%d:%x", img.Rect.Dx(), img.Rect.Dy(), h.Sum64())
}

var (
	fontOnce sync.Once
	family   *canvas.FontFamily
	fontData []byte
	nameless []byte
	FontErr  error

	sharedFace *canvas.FontFace
	cffFamily  *canvas.FontFamily // a font with CFF outlines (.otf), shared by every PDF text job
)

// Fonts loads the shared font family once (the property allows sharing a loaded font between goroutines).
func Fonts() {
	fontOnce.Do(func() {
		family = canvas.NewFontFamily("dejavu")
		FontErr = family.LoadFontFile("/repo/resources/DejaVuSerif.ttf", canvas.FontRegular)
		if FontErr != nil {
			return
		}
		sharedFace = family.Face(10.0, canvas.Black)
		cffFamily = canvas.NewFontFamily("garamond")
		if err := cffFamily.LoadFontFile("/repo/resources/EBGaramond12-Regular.otf", canvas.FontRegular); err != nil {
			cffFamily = nil
		}
		fontData, FontErr = os.ReadFile("/repo/resources/DejaVuSerif.ttf")
		if FontErr == nil {
			nameless = stripNames(fontData)
		}
	})
}

// stripNames returns a copy of an SFNT font whose `name` table declares zero records, so that canvas.LoadFont
// has to invent a name (the f<counter> path).
func stripNames(b []byte) []byte {
	out := append([]byte(nil), b...)
	if len(out) < 12 {
		return nil
	}
	n := int(out[4])<<8 | int(out[5])
	for i := 0; i < n; i++ {
		rec := 12 + 16*i
		if rec+16 > len(out) {
			return nil
		}
		if string(out[rec:rec+4]) == "name" {
			off := int(out[rec+8])<<24 | int(out[rec+9])<<16 | int(out[rec+10])<<8 | int(out[rec+11])
			if off+6 > len(out) {
				return nil
			}
			out[off+2], out[off+3] = 0, 0 // count = 0
			out[off+4], out[off+5] = 0, 6 // storageOffset directly after the header
			return out
		}
	}
	return nil
}

// Jobs returns n deterministic jobs derived from seed. kinds selects the families: g geometry, t text, f font
// loading, r rasterization.
func Jobs(seed int64, n int, kinds string) []Job {
	Fonts()
	var jobs []Job
	for i := 0; i < n; i++ {
		s := seed*1000003 + int64(i)
		r := rand.New(rand.NewSource(s))
		var fam []func() Job
		if strings.Contains(kinds, "g") {
			fam = append(fam,
				func() Job {
					p, q := randPoly(r, 4, 5), randPoly(r, 4, 5)
					op := r.Intn(4)
					return Job{fmt.Sprintf("bool%d/%d", op, s), func() string {
						switch op {
						case 0:
							return p.And(q).String()
						case 1:
							return p.Or(q).String()
						case 2:
							return p.Xor(q).String()
						}
						return p.Not(q).String()
					}}
				},
				func() Job {
					p := randPoly(r, 5, 6)
					rule := canvas.FillRule(r.Intn(4))
					return Job{fmt.Sprintf("settle/%d", s), func() string { return p.Settle(rule).String() }}
				},
				func() Job {
					p := randCurvy(r)
					w := 0.5 + float64(r.Intn(3))
					return Job{fmt.Sprintf("stroke/%d", s), func() string { return p.Stroke(w, canvas.RoundCap, canvas.RoundJoin, 0.01).String() }}
				},
				func() Job {
					p := randPoly(r, 6, 4)
					return Job{fmt.Sprintf("offset/%d", s), func() string { return p.Offset(0.5, 0.01).String() }}
				},
				func() Job {
					p := randCurvy(r)
					return Job{fmt.Sprintf("flatten/%d", s), func() string { return p.Flatten(0.01).String() }}
				},
				func() Job {
					p := randCurvy(r)
					off := float64(r.Intn(5))
					return Job{fmt.Sprintf("dash/%d", s), func() string { return p.Dash(off, 1, 2, 0.5).String() }}
				},
				func() Job {
					// the pattern is one of a few slices shared by every job (arguments are inputs: the library may read them
					// concurrently but never write them); leading / trailing zeros and an odd-length sub-slice with spare capacity
					p := randCurvy(r)
					off, k := float64(r.Intn(5)), r.Intn(len(SharedDashes))
					return Job{fmt.Sprintf("dashshared%d/%d", k, s), func() string { return p.Dash(off, SharedDashes[k]...).String() }}
				},
				func() Job {
					// Offset with a tolerance other than the package default, next to jobs that flatten curves with the default
					p := randCurvy(r).Flatten(0.01)
					q := randCurvy(r)
					tol := []float64{0.5, 0.1, 0.001}[r.Intn(3)]
					return Job{fmt.Sprintf("offsettol/%d", s), func() string {
						return p.Offset(0.5, tol).String() + "|" + q.Settle(canvas.NonZero).String()
					}}
				},
				func() Job {
					// system font lookup (first use builds the process-wide font list lazily)
					name := []string{"DejaVu Serif", "serif", "no such font"}[r.Intn(3)]
					return Job{fmt.Sprintf("sysfont/%d", s), func() string {
						f, ok := canvas.FindSystemFont(name, canvas.FontRegular)
						return fmt.Sprint(f, ok)
					}}
				})
		}
		if strings.Contains(kinds, "t") {
			spans := func(t *canvas.Text) string {
				var out strings.Builder
				t.WalkSpans(func(x, y float64, span canvas.TextSpan) {
					fmt.Fprintf(&out, "%.6f,%.6f,%q,%.6f;", x, y, span.Text, span.Width)
				})
				return out.String()
			}
			words := []string{"lorem", "ipsum", "dolor", "sit", "amet", "AV", "fi", "Wide"}
			mkText := func() string {
				var sb strings.Builder
				for k := 0; k < 6+r.Intn(10); k++ {
					sb.WriteString(words[r.Intn(len(words))])
					sb.WriteByte(' ')
				}
				return sb.String()
			}
			// styles that are not loaded in the shared family (only Regular is): the closest font is used with faux bold/italic
			styles := []canvas.FontStyle{canvas.FontRegular, canvas.FontBold, canvas.FontItalic, canvas.FontBold | canvas.FontItalic}
			variants := []canvas.FontVariant{canvas.FontNormal, canvas.FontSubscript, canvas.FontSuperscript}
			fam = append(fam, func() Job {
				txt, width, al := mkText(), 20+float64(r.Intn(30)), canvas.TextAlign(r.Intn(4))
				style, variant := styles[r.Intn(len(styles))], variants[r.Intn(len(variants))]
				return Job{fmt.Sprintf("text/%d", s), func() string {
					face := family.Face(10.0, canvas.Black, style, variant)
					t := canvas.NewTextBox(face, txt, width, 0, al, canvas.Top, 0, 0)
					return fmt.Sprintf("faux=%v,%v;", face.FauxBold, face.FauxItalic) + spans(t)
				}}
			}, func() Job {
				// rich text: several runs with face / size switches inside one paragraph, same loaded font
				n := 2 + r.Intn(4)
				texts := make([]string, n)
				sizes := make([]float64, n)
				sts := make([]canvas.FontStyle, n)
				for k := range texts {
					texts[k] = words[r.Intn(len(words))] + " " + words[r.Intn(len(words))] + " "
					sizes[k] = []float64{8, 10, 12}[r.Intn(3)]
					sts[k] = styles[r.Intn(len(styles))]
				}
				width, al := 25+float64(r.Intn(30)), canvas.TextAlign(r.Intn(4))
				return Job{fmt.Sprintf("richtext/%d", s), func() string {
					rt := canvas.NewRichText(family.Face(10.0, canvas.Black))
					for k := range texts {
						rt.WriteFace(family.Face(sizes[k], canvas.Black, sts[k]), texts[k])
					}
					return spans(rt.ToText(width, 0, al, canvas.Top, 0, 0))
				}}
			})
		}
		if strings.Contains(kinds, "t") {
			// single lines through NewTextLine on the shared face, in both directions (the Hebrew letters have no glyph in the
			// font; direction resolution and glyph order do not depend on that)
			fam = append(fam, func() Job {
				texts := []string{"abc def", "\u05d0\u05d1\u05d2 \u05d3\u05d4", "AV fi", "\u05e9\u05dc\u05d5\u05dd"}
				txt := texts[r.Intn(len(texts))]
				return Job{fmt.Sprintf("textline/%d", s), func() string {
					t := canvas.NewTextLine(sharedFace, txt, canvas.Left) // one face object shared by all jobs
					var out strings.Builder
					t.WalkSpans(func(x, y float64, span canvas.TextSpan) {
						fmt.Fprintf(&out, "%.6f,%.6f,%q,%.6f,", x, y, span.Text, span.Width)
						for _, g := range span.Glyphs {
							fmt.Fprintf(&out, "%d:%d ", g.ID, g.Cluster)
						}
					})
					return out.String()
				}}
			})
		}
		if strings.Contains(kinds, "s") {
			// distinct canvases written by the vector back-ends with default (nil) options; some jobs use the renderers' setters
			fam = append(fam, func() Job {
				p := randPoly(r, 8, 5)
				backend, lossy := r.Intn(3), r.Intn(2) == 0
				return Job{fmt.Sprintf("backend%d/%d", backend, s), func() string {
					c := canvas.New(12, 12)
					ctx := canvas.NewContext(c)
					ctx.SetFillColor(canvas.Red)
					ctx.DrawPath(1, 1, p)
					img := image.NewRGBA(image.Rect(0, 0, 3, 2))
					for i := range img.Pix {
						img.Pix[i] = uint8(37*i + 11)
					}
					ctx.DrawImage(2, 2, img, canvas.DPMM(1.0))
					var buf bytes.Buffer
					switch backend {
					case 0:
						w := svg.New(&buf, 12, 12, nil)
						if lossy {
							w.SetImageEncoding(canvas.Lossy)
						}
						c.RenderTo(w)
						w.Close()
					case 1:
						w := pdf.New(&buf, 12, 12, nil)
						if lossy {
							w.SetImageEncoding(canvas.Lossy)
						}
						c.RenderTo(w)
						w.Close()
					default:
						w := ps.New(&buf, 12, 12, nil)
						c.RenderTo(w)
						w.Close()
					}
					out := reDate.ReplaceAll(buf.Bytes(), []byte("DATE")) // the creation time stamp is the only legitimate difference
					h := fnv.New64a()
					h.Write(out)
					return fmt.Sprintf("%d:%x", len(out), h.Sum64())
				}}
			})
		}
		if strings.Contains(kinds, "s") && cffFamily != nil {
			// text in a shared loaded CFF font written as PDF with font subsetting (the writer must not touch the shared font)
			words := []string{"Quartz", "glyph", "job", "vex", "nymph", "waltz"}
			fam = append(fam, func() Job {
				txt := words[r.Intn(len(words))] + " " + words[r.Intn(len(words))]
				return Job{fmt.Sprintf("pdftext/%d", s), func() string {
					c := canvas.New(60, 20)
					ctx := canvas.NewContext(c)
					ctx.DrawText(2, 10, canvas.NewTextLine(cffFamily.Face(12.0, canvas.Black), txt, canvas.Left))
					var buf bytes.Buffer
					w := pdf.New(&buf, 60, 20, nil)
					c.RenderTo(w)
					w.Close()
					// the embedded font program carries a modification time stamp inside a compressed stream, so the bytes are
					// not comparable between calls; what must not change is that the font can still be subsetted (a document
					// with the whole font embedded is two orders of magnitude larger) and converted to paths
					size := "subsetted"
					if buf.Len() > 40000 {
						size = fmt.Sprintf("not-subsetted(%d bytes)", buf.Len())
					}
					_, width, err := cffFamily.Face(12.0, canvas.Black).ToPath(txt)
					return fmt.Sprintf("%s:%v:%.6f", size, err, width)
				}}
			})
		}
		if strings.Contains(kinds, "f") {
			fam = append(fam, func() Job {
				return Job{fmt.Sprintf("loadfont/%d", s), func() string {
					f, err := canvas.LoadFont(fontData, 0, canvas.FontRegular)
					if err != nil {
						return "err:" + err.Error()
					}
					return f.Name()
				}}
			})
		}
		if strings.Contains(kinds, "r") {
			fam = append(fam, func() Job {
				p := randPoly(r, 8, 5)
				return Job{fmt.Sprintf("raster/%d", s), func() string {
					c := canvas.New(10, 10)
					ctx := canvas.NewContext(c)
					ctx.SetFillColor(canvas.Red)
					ctx.DrawPath(1, 1, p)
					img := rasterizer.Draw(c, canvas.DPMM(4), canvas.LinearColorSpace{})
					return hashImage(img)
				}}
			})
		}
		jobs = append(jobs, fam[r.Intn(len(fam))]())
	}
	return jobs
}

// NamelessFont returns font bytes without name records (nil if the surgery failed).
func NamelessFont() []byte { Fonts(); return nameless }

// Safe runs a job under recover.
func Safe(j Job) (res string) {
	defer func() {
		if r := recover(); r != nil {
			res = fmt.Sprint("panic:", r)
		}
	}()
	return j.Run()
}
