-------------------------- MODULE Trace_Transform --------------------------
(* Trace validation for the Matrix register machine of Transform.tla: the events recorded from the    *)
(* real canvas.Matrix (harness/internal/props/c07: long random sequences of Translate / Rotate /      *)
(* Scale / Shear / Reflect* / *About / Mul / T / Inv calls) are consumed one by one by the spec's own *)
(* Apply.  All registers of the recording driver are 2^a 5^b-adic with a, b <= 5, so every entry      *)
(* times 10^5 is an integer: the logged observation must equal the exact register, entry by entry,    *)
(* and the logged Dot images of the probe points must equal RDot.                                     *)
(* With CheckObs = FALSE the observations are ignored and the required register is printed at every   *)
(* event: used to turn a rejection into a call-level replay file.                                     *)
EXTENDS Transform
CONSTANT CheckObs
Trace == ndJsonDeserialize("trace_transform.ndjson")
VARIABLE l
tvars == <<vars, l>>
Ev == Trace[l]
TQ == 100000
Is(ops) == l <= Len(Trace) /\ Ev.op \in ops /\ l' = l + 1
ObsOK(r) == CheckObs => /\ TQ % r.d = 0
                        /\ \A i \in 1..6 : Ev.obs[i] = r.n[i] * (TQ \div r.d)
                        /\ \A i \in 1..3 : LET q == RDot(r, ProbePts[i]) IN Ev.pts[i] = <<q[1] * (TQ \div r.d), q[2] * (TQ \div r.d)>>
Ops == {"Translate", "Rotate", "RotateP", "Scale", "Shear", "ReflectX", "ReflectY", "RotateAbout", "RotatePAbout", "ScaleAbout",
        "ShearAbout", "ReflectXAbout", "ReflectYAbout", "Mul", "T", "Inv"}
TStep == /\ Is(Ops)
         /\ LET c == Call(Ev.op, Ev.a) IN
            /\ Enabled(reg, c)
            /\ LET r == Apply(reg, c) IN
               /\ reg' = r /\ ObsOK(r)
               /\ (~CheckObs) => PrintT("@@" \o ToJson([l |-> l, exp |-> [n |-> r.n, d |-> r.d]]))
         /\ UNCHANGED <<path, mat, hist, regs, done>>
TReset == Is({"RESET"}) /\ reg' = RId /\ UNCHANGED <<path, mat, hist, regs, done>>
TInit == Init /\ l = 1
TNext == TStep \/ TReset
TSpec == TInit /\ [][TNext]_tvars
TraceAccepted == TLCGet("stats").diameter - 1 = Len(Trace)
=============================================================================
