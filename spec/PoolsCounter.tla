---------------------------- MODULE PoolsCounter ----------------------------
(* The name counter of canvas.LoadFont for fonts without a name record:                               *)
(*     name = "f" + nonameFonts ; nonameFonts++                                                       *)
(* as a read / write pair per goroutine (Atomic = FALSE, the code as written) or as one atomic step   *)
(* (Atomic = TRUE, after the fix).  UniqueNames: no two loads obtain the same name.                   *)
EXTENDS Integers, FiniteSets
CONSTANTS G, Atomic
VARIABLES counter, pc, tmp, name
vars == <<counter, pc, tmp, name>>
Init == counter = 0 /\ pc = [g \in G |-> "read"] /\ tmp = [g \in G |-> -1] /\ name = [g \in G |-> -1]
Read(g)  == /\ pc[g] = "read" /\ ~Atomic /\ tmp' = [tmp EXCEPT ![g] = counter] /\ name' = [name EXCEPT ![g] = counter]
            /\ pc' = [pc EXCEPT ![g] = "write"] /\ UNCHANGED counter
Write(g) == /\ pc[g] = "write" /\ counter' = tmp[g] + 1 /\ pc' = [pc EXCEPT ![g] = "done"] /\ UNCHANGED <<tmp, name>>
Add(g)   == /\ pc[g] = "read" /\ Atomic /\ name' = [name EXCEPT ![g] = counter] /\ counter' = counter + 1
            /\ pc' = [pc EXCEPT ![g] = "done"] /\ UNCHANGED tmp
Next == \E g \in G : Read(g) \/ Write(g) \/ Add(g)
Spec == Init /\ [][Next]_vars
UniqueNames == \A a, b \in G : (a # b /\ pc[a] = "done" /\ pc[b] = "done") => name[a] # name[b]
=============================================================================
