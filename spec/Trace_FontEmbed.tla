--------------------------- MODULE Trace_FontEmbed ---------------------------
(* Trace validation for C18.  The driver (harness/internal/props/c18) lays out texts, renders them to   *)
(* PDF with the real writer and decodes the result with the independent reader.  Per document:          *)
(*   DOC  : the decoded font objects (W, ToUnicode, CIDToGIDMap, Encoding, embedded program size), the   *)
(*          scenario features and the span widths                                                       *)
(*   GET  : one event per shown character code, in content stream order, paired with the laid-out glyph  *)
(*          (glyph id, advances, cluster characters, source advance, outline signatures)                *)
(*   END  : document-level predicates, incl. PDF pen advance x Tf size = span width (variable pen)       *)
(*   PATH : a FontFace.ToPath / TextWidth observation (independent of the PDF)                          *)
(* GET events drive the subsetter machine of FontEmbed (action Get): the code in the content stream must *)
(* be the code the machine returns; the per-glyph predicates are evaluated in the same step.  Deviations  *)
(* are printed (the actions never block), the driver turns them into verdicts.                           *)
EXTENDS FontEmbed
Trace == ndJsonDeserialize("trace_fontembed.ndjson")
VARIABLES l,
          pen    \* per span of the current document: sum of the pen advances of its shown codes, in 1/1000 em
tvars == <<vars, l, pen>>
Ev == Trace[l]
Is(ops) == l <= Len(Trace) /\ Ev.op \in ops /\ l' = l + 1
Note(f, id, k) == f # {} => PrintT("@@" \o ToJson([id |-> id, k |-> k, fails |-> f]))

TDoc == Is({"DOC"}) /\ ids' = NewSubsetter /\ hist' = <<>> /\ doc' = Ev.d /\ pen' = [i \in 1..Len(Ev.d.spans) |-> 0]
TGet == /\ Is({"GET"}) /\ Get(Ev.e.g)
        /\ Note(GlyphDiag(doc, doc.fonts[Ev.e.f], Ev.e, ids), Ev.id, Len(hist) + 1)
        /\ pen' = [pen EXCEPT ![Ev.e.span] = @ + PenOf(doc.fonts[Ev.e.f], Ev.e)]
TEnd == Is({"END"}) /\ Note(DocDiag(doc) \cup SpanAgreeDiag(doc, pen) \cup SpanPlacedDiag(doc) \cup PathPlacedDiag(doc), Ev.id, 0) /\ UNCHANGED <<vars, pen>>
TPath == Is({"PATH"}) /\ Note(PathDiag(Ev.p), Ev.id, 0) /\ UNCHANGED <<vars, pen>>

TInit == l = 1 /\ ids = NewSubsetter /\ hist = <<>> /\ doc = NoDoc /\ pen = <<>>
TNext == TDoc \/ TGet \/ TEnd \/ TPath
TSpec == TInit /\ [][TNext]_tvars
TraceAccepted == TLCGet("stats").diameter - 1 = Len(Trace)
=============================================================================
