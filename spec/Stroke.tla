------------------------------- MODULE Stroke -------------------------------
(* C04: Stroke and Offset realise distance offsets of the path.                                       *)
(*                                                                                                     *)
(* A scenario is a lattice polyline (open or closed) and a half width hw.  Lattice coordinates are    *)
(* scaled by S = 12, so that hw (3, 6, 12, 18 = widths 1/2, 1, 2, 3 lattice units), the tolerance      *)
(* Tol = 1 (1/12 lattice unit) and the sample grid (step 4) are integers.  For every sample point the   *)
(* specification computes, with exact integer comparisons of squared distances (Lattice!DistSegLt/Gt),  *)
(* the FACTS the statement of C04 speaks about (section 1), and from them the three-valued class       *)
(* in / out / free for each capper and joiner (section 2):                                             *)
(*   in   <= the sample is in the slab of a segment (foot of the perpendicular strictly inside the      *)
(*           segment, distance < hw - Tol): the part of the hw-neighbourhood every cap and join style   *)
(*           covers ("except beyond the cut of a butt cap", applied to every segment end);              *)
(*           or round join and within hw - Tol of an interior vertex; or round cap and within hw - Tol  *)
(*           of an open end; or square cap and inside the hw-square beyond an open end (shrunk by Tol). *)
(*   out  <= farther than hw + Tol from the path, and not within the join allowance of an interior      *)
(*           vertex (none for bevel/round, limit*hw for miter/arcs, (limit+1)*hw for the clip variants  *)
(*           whose clipped corners lie beyond the clip line; limit = 4), and not within hw*sqrt(2) of   *)
(*           an open end with a square cap.                                                            *)
(*   free    otherwise.  With round cap and round join there is no allowance: the region must be the    *)
(*           hw-neighbourhood up to Tol.                                                               *)
(* Offset(d) of a closed simple contour (section 3): grown for sign(d) * orientation > 0, else shrunk.  *)
(* The module is a scenario generator (Init chooses, Emit prints the facts; the header line carries the *)
(* class table computed by section 2) and, with Check = TRUE, a model whose invariants state the        *)
(* relations between the classes (section 4).                                                           *)
EXTENDS Lattice, TLC, Json, Randomization

CONSTANTS N,        \* lattice 0..N
          K,        \* maximal number of vertices
          Num,      \* number of random polylines per length (0 = all)
          What,     \* "stroke" | "offset"
          HWs,      \* set of half widths (scaled)
          Check     \* evaluate the model-level invariants

S == 12
Tol == 1
Step == 4
Limit == 4          \* canvas.MiterJoin / ArcsJoin limit
Pt == {<<S * x, S * y>> : x \in 0..N, y \in 0..N}     \* the state holds the scaled points (cheap to look up)

VARIABLES pts, closed, hw, done
vars == <<pts, closed, hw, done>>

P == pts
NV == Len(pts)
NSeg == IF closed THEN NV ELSE NV - 1
SegA(i) == P[i]
SegB(i) == P[(i % NV) + 1]
Interior == IF closed THEN 1..NV ELSE 2..(NV - 1)
\* open ends: <<end point, its neighbour>>
Ends == IF closed THEN {} ELSE {<<P[1], P[2]>>, <<P[NV], P[NV - 1]>>}

\* ---- 1. facts about a sample point s -------------------------------------------------------------------
Sq(x) == x * x
InSlab(a, b, s, r) == LET t == DotP(a, b, s) l == Len2(a, b) IN 0 < t /\ t < l /\ Sq(Cross(a, b, s)) < Sq(r) * l
SlabIn(s)      == \E i \in 1..NSeg : InSlab(SegA(i), SegB(i), s, hw - Tol)
\* a round join is the sector of the disc between the two normals on the outer side of the bend: the points beyond the
\* end of the incoming edge and before the start of the outgoing one (the rest of the disc belongs to the slabs, which
\* cover it only as far as the edges reach); a round cap is the half disc beyond the end
RoundJoinIn(s) == \E i \in Interior : LET a == (IF i = 1 THEN P[NV] ELSE P[i - 1]) v == P[i] b == P[(i % NV) + 1] IN
                      Len2(v, s) < Sq(hw - Tol) /\ DotP(a, v, s) >= Len2(a, v) /\ DotP(v, b, s) <= 0
RoundCapIn(s)  == \E e \in Ends : Len2(e[1], s) < Sq(hw - Tol) /\ DotP(e[2], e[1], s) >= Len2(e[2], e[1])
\* inside the square of half side hw beyond the end e[1] (direction from the neighbour e[2] to e[1]), shrunk by Tol
SquareCapIn(s) == \E e \in Ends : LET l == Len2(e[2], e[1]) t == DotP(e[2], e[1], s) - l IN
                      0 <= t /\ Sq(t) < Sq(hw - Tol) * l /\ Sq(Cross(e[2], e[1], s)) < Sq(hw - Tol) * l
Far(s)         == \A i \in 1..NSeg : DistSegGt(SegA(i), SegB(i), s, Sq(hw + Tol))
NearJoin(s, r) == \E i \in Interior : Len2(P[i], s) <= Sq(r)
NearEndSq(s)   == \E e \in Ends : Len2(e[1], s) <= 2 * Sq(hw + Tol)
\* the facts as one number (bit set)
B(x, v) == IF x THEN v ELSE 0
Facts(s) == B(SlabIn(s), 1) + B(RoundJoinIn(s), 2) + B(RoundCapIn(s), 4) + B(SquareCapIn(s), 8) + B(Far(s), 16)
            + B(NearJoin(s, Limit * hw + Tol), 32) + B(NearJoin(s, (Limit + 1) * hw + Tol), 64) + B(NearEndSq(s), 128)

\* ---- 2. classes ---------------------------------------------------------------------------------------------
Caps  == <<"butt", "round", "square">>
Joins == <<"bevel", "round", "miter", "miterclip", "arcs", "arcsclip">>
Bit(f, v) == (f \div v) % 2 = 1
CIN == 1
COUT == 0
CFREE == 2
Class(f, cap, join) ==
    IF \/ Bit(f, 1)
       \/ (join = "round" /\ Bit(f, 2))
       \/ (cap = "round" /\ Bit(f, 4))
       \/ (cap = "square" /\ Bit(f, 8))
    THEN CIN
    ELSE IF /\ Bit(f, 16)
            /\ ~(join \in {"miter", "arcs"} /\ Bit(f, 32))
            /\ ~(join \in {"miterclip", "arcsclip"} /\ Bit(f, 64))
            /\ ~(cap = "square" /\ Bit(f, 128))
    THEN COUT ELSE CFREE
\* (sequences, so that ToJson prints arrays: entry f+1 belongs to the fact set f)
ClassTable == [c \in 1..3 |-> [j \in 1..6 |-> [f \in 1..256 |-> Class(f - 1, Caps[c], Joins[j])]]]

\* ---- 3. Offset of a closed simple contour -----------------------------------------------------------------------
\* facts: 1 inside (winding # 0), 2 on the contour, 4 nearer than hw - Tol, 8 farther than hw + Tol
Near(s)  == \E i \in 1..NSeg : DistSegLt(SegA(i), SegB(i), s, Sq(hw - Tol))
OffFacts(s) == B(WindContour(P, s) # 0, 1) + B(OnContour(P, s), 2) + B(Near(s), 4) + B(Far(s), 8)
\* grow = TRUE: the boundary moves outwards (sign(d) * orientation > 0)
OffClass(f, grow) ==
    IF grow THEN (IF Bit(f, 4) \/ (Bit(f, 1) /\ ~Bit(f, 2)) THEN CIN ELSE IF Bit(f, 8) /\ ~Bit(f, 1) /\ ~Bit(f, 2) THEN COUT ELSE CFREE)
    ELSE (IF Bit(f, 8) /\ Bit(f, 1) /\ ~Bit(f, 2) THEN CIN ELSE IF Bit(f, 4) \/ Bit(f, 2) \/ ~Bit(f, 1) THEN COUT ELSE CFREE)
OffTable == [g \in BOOLEAN |-> [f \in 1..16 |-> OffClass(f - 1, g)]]

\* ---- scenario features -----------------------------------------------------------------------------------------
Adjacent(i, j) == j = i + 1 \/ (closed /\ i = 1 /\ j = NSeg)
\* two edges of the polyline have more in common than a shared end point of consecutive edges
EdgesClash(i, j) ==
    IF Adjacent(i, j)
    THEN LET a == IF j = i + 1 THEN SegA(i) ELSE SegB(i)    \* far end of edge i, shared vertex v, far end of edge j
             v == IF j = i + 1 THEN SegB(i) ELSE SegA(i)
             c == IF j = i + 1 THEN SegB(j) ELSE SegA(j)
         IN (Cross(a, v, c) = 0 /\ DotP(v, a, c) > 0)        \* 180 degree turn: the edges overlap
            \/ (NSeg = 2 /\ closed)
    ELSE SegsMeet(SegA(i), SegB(i), SegA(j), SegB(j))
SelfIntersecting == \E i \in 1..NSeg, j \in 1..NSeg : i < j /\ EdgesClash(i, j)
ClosedSelfIntersecting == closed /\ SelfIntersecting
Reversal == \E i \in 1..NSeg, j \in 1..NSeg : i < j /\ Adjacent(i, j) /\ EdgesClash(i, j)
\* two edges are collinear and share more than a point (the path retraces itself)
EdgesOverlap(i, j) == LET a == SegA(i) b == SegB(i) c == SegA(j) e == SegB(j)
                          k == IF a[1] # b[1] THEN 1 ELSE 2 IN
                      /\ Cross(a, b, c) = 0 /\ Cross(a, b, e) = 0
                      /\ MaxI(MinI(a[k], b[k]), MinI(c[k], e[k])) < MinI(MaxI(a[k], b[k]), MaxI(c[k], e[k]))
Retrace == \E i \in 1..NSeg, j \in 1..NSeg : i < j /\ EdgesOverlap(i, j)
ZeroArea == closed /\ Area2(P) = 0
\* inner bend with a short leg: at interior vertex i the path turns (not straight, not back) and an adjacent edge is
\* shorter than hw * tan(turn/2) (the two inner offset edges do not intersect) or shorter than hw * sin(turn) (the
\* corner of the other edge's rectangle sticks out beyond this edge's rectangle). With u, v the edge vectors,
\* c = |u x v|, d = u.v : leg u is long enough iff |u| * (|u||v| + d) >= hw * c and |u|^2 * |v| >= hw * c.
\* Square roots are bounded from below (ISqrtLo), so the predicate covers every vertex where a leg is short (and a
\* few borderline ones).
PrevV(i) == IF i = 1 THEN P[NV] ELSE P[i - 1]
NextV(i) == P[(i % NV) + 1]
LegOK(lu, lv, d, c) == lu * (lu * lv + d) >= hw * c /\ lu * lu * lv >= hw * c
ShortBend(i) == LET a == PrevV(i) v == P[i] b == NextV(i)
                    c == Abs(Cross(a, v, b))
                    d == (v[1] - a[1]) * (b[1] - v[1]) + (v[2] - a[2]) * (b[2] - v[2])
                    lu == ISqrtLo(Len2(a, v)) lv == ISqrtLo(Len2(v, b))
                IN c # 0 /\ ~(LegOK(lu, lv, d, c) /\ LegOK(lv, lu, d, c))
ShortBends == {i \in Interior : ShortBend(i)}
Features == [csi |-> ClosedSelfIntersecting, selfint |-> SelfIntersecting, rev |-> Reversal, zeroarea |-> ZeroArea,
             ccw |-> (closed /\ Area2(P) > 0), shortbend |-> (ShortBends # {}), retrace |-> Retrace]

\* ---- sample grid ---------------------------------------------------------------------------------------------------
XS == {P[i][1] : i \in 1..NV}
YS == {P[i][2] : i \in 1..NV}
Margin == hw + 2 * Step
\* grid points congruent to 1 (x) and 2 (y) modulo Step: never on a lattice line, symmetric situations still occur
GX0 == ((SetMin(XS) - Margin) \div Step) * Step + 1
GY0 == ((SetMin(YS) - Margin) \div Step) * Step + 2
GNX == (SetMax(XS) + Margin - GX0) \div Step + 1
GNY == (SetMax(YS) + Margin - GY0) \div Step + 1
SampleAt(k) == << GX0 + Step * ((k - 1) % GNX), GY0 + Step * ((k - 1) \div GNX) >>
NSamples == GNX * GNY

\* ---- generation ---------------------------------------------------------------------------------------------------------
Distinct(f) == /\ \A i \in 1..(Len(f) - 1) : f[i] # f[i + 1]
Polys(n) == IF Num = 0 THEN {f \in [1..n -> Pt] : Distinct(f)} ELSE {f \in RandomSubset(Num, [1..n -> Pt]) : Distinct(f)}
Choice == UNION {Polys(n) : n \in 2..K}
OkClosed(f, c) == c => (Len(f) >= 3 /\ f[1] # f[Len(f)])
\* Offset: closed simple contours with non-zero area only
OkOffset(f, c) == What = "offset" => c

Init == /\ pts \in Choice /\ closed \in BOOLEAN /\ hw \in HWs /\ done = FALSE
        /\ OkClosed(pts, closed) /\ OkOffset(pts, closed)

\* (the grid parameters are bound once by LET: TLC caches LET definitions, but re-evaluates operator definitions)
Scenario == LET gx == GX0 gy == GY0 nx == GNX ny == GNY
                at(k) == << gx + Step * ((k - 1) % nx), gy + Step * ((k - 1) \div nx) >> IN
            [pts |-> [i \in 1..NV |-> <<pts[i][1] \div S, pts[i][2] \div S>>], closed |-> closed, hw |-> hw, f |-> Features, short |-> ShortBends,
             gx |-> gx, gy |-> gy, nx |-> nx, ny |-> ny,
             facts |-> [k \in 1..(nx * ny) |-> IF What = "stroke" THEN Facts(at(k)) ELSE OffFacts(at(k))]]
Emit == /\ ~done /\ done' = TRUE /\ UNCHANGED <<pts, closed, hw>>
        /\ (What = "offset" => ~SelfIntersecting /\ Area2(P) # 0)
        /\ (~Check) => PrintT("@@" \o ToJson(Scenario))
Next == Emit
Spec == Init /\ [][Next]_vars

Header == [hdr |-> TRUE, S |-> S, tol |-> Tol, step |-> Step, limit |-> Limit, caps |-> Caps, joins |-> Joins,
           table |-> ClassTable, offtable |-> <<OffTable[FALSE], OffTable[TRUE]>>]
ASSUME Check \/ PrintT("@@" \o ToJson(Header))

\* ---- 4. model-level properties (Check = TRUE) ---------------------------------------------------------------------------
\* evaluated on the samples of the chosen scenario
ClassLaws == (Check /\ done /\ What = "stroke") => \A k \in 1..NSamples : LET s == SampleAt(k) f == Facts(s) IN
    /\ ~(Bit(f, 16) /\ (Bit(f, 1) \/ Bit(f, 2) \/ Bit(f, 4)))                   \* far excludes the near facts
    /\ (Bit(f, 8) => Bit(f, 128))                                               \* the square cap lies within hw*sqrt(2) of its end
    /\ (Bit(f, 32) => Bit(f, 64))
    /\ \A c \in 1..3, j \in 1..6 :
         LET x == Class(f, Caps[c], Joins[j]) IN
         /\ ((x = CIN /\ Caps[c] # "square") => Class(f, "round", "round") # COUT)  \* what must be covered lies inside the hw-neighbourhood (square caps excepted) ...
         /\ (Class(f, "butt", "bevel") = CIN => x = CIN)                          \* ... and contains the slabs
         /\ (Class(f, Caps[c], "miterclip") = COUT => Class(f, Caps[c], "miter") = COUT)
         /\ (Class(f, Caps[c], "miter") = COUT => Class(f, Caps[c], "bevel") = COUT)
    /\ (Class(f, "round", "round") = CFREE =>                                    \* round/round: free only in the Tol band around distance hw
           ~Far(s) /\ ~(\E i \in 1..NSeg : DistSegLt(SegA(i), SegB(i), s, Sq(hw - Tol))))
OffLaws == (Check /\ done /\ What = "offset") => \A k \in 1..NSamples : LET f == OffFacts(SampleAt(k)) IN
    /\ ~(Bit(f, 4) /\ Bit(f, 8))
    /\ (OffClass(f, FALSE) = CIN => OffClass(f, TRUE) = CIN)                      \* shrunk region inside grown region
    /\ (OffClass(f, TRUE) = COUT => OffClass(f, FALSE) = COUT)
=============================================================================
