--------------------------- MODULE Trace_Regions ---------------------------
(* X01, code -> spec: results of the real Clip / FastClip / SimplifyVisvalingamWhyatt on larger random lattice   *)
(* polygons (more vertices than the generated scenarios), recorded by the harness as lattice-quantised events in *)
(* trace_regions.ndjson, are judged here with the operators of Regions (ClipSeg, PiecesC, MeetsInterior, Wind,   *)
(* VWStrict): exact integer verdicts, no float oracle.  Every event is an initial state (events are independent, *)
(* TLC judges them in parallel).  A rejected event is printed as a complete scenario (the same line Regions      *)
(* prints, plus the event number) which the harness replays against the library; only a reproduced mismatch is a *)
(* verdict.                                                                                                      *)
(*   clip event: [p, a |-> [rect, open], clip |-> sub-paths [pts (x S), closed], fast |-> sub-paths [pts, closed]] *)
(*   vw event  : [p, a |-> [open, k], obs |-> vertices of the result (lattice), closed |-> BOOLEAN]               *)
EXTENDS Regions

Trace == ndJsonDeserialize("trace_regions.ndjson")
VARIABLE ev
tvars == <<p, a, done, ev>>

RotEq(x, y) == /\ Len(x) = Len(y)
               /\ (Len(x) = 0 \/ \E r \in 0..(Len(x) - 1) : \A j \in 1..Len(x) : x[j] = y[((j - 1 + r) % Len(x)) + 1])
PairsOf(pts, closed) == {<<pts[j], pts[j + 1]>> : j \in 1..(Len(pts) - 1)} \cup (IF closed /\ Len(pts) > 1 THEN {<<pts[Len(pts)], pts[1]>>} ELSE {})
ObsSegs(subs) == {e \in UNION {PairsOf(subs[j].pts, subs[j].closed) : j \in 1..Len(subs)} : e[1] # e[2]}

\* ---- Clip: the observed segments are exactly the clipped edges; in generic position the sections are the expected pieces
ClipObsOK(e) ==
    LET R == RectS(a.rect)
        sg == [k \in 1..Len(p) |-> Segs(R, SP[k], OpenOf(k))]
        allowed == UNION {{<<sg[k][j].u, sg[k][j].v>> : j \in {x \in 1..Len(sg[k]) : sg[k][x].st # 0 /\ sg[k][x].u # sg[k][x].v}} : k \in 1..Len(p)}
        must == UNION {{<<sg[k][j].u, sg[k][j].v>> : j \in {x \in 1..Len(sg[k]) : sg[k][x].st = 1}} : k \in 1..Len(p)}
        obs == ObsSegs(e.clip)
        want == UNION {{PiecesC(R, SP[k], OpenOf(k))[j] : j \in 1..Len(PiecesC(R, SP[k], OpenOf(k)))} : k \in 1..Len(p)}
        got == {e.clip[j] : j \in {x \in 1..Len(e.clip) : Len(e.clip[x].pts) >= 2}}
        same(x, y) == x.closed = y.closed /\ (IF x.closed THEN RotEq(x.pts, y.pts) ELSE x.pts = y.pts)
    IN /\ obs \subseteq allowed /\ must \subseteq obs
       /\ ((\A k \in 1..Len(p) : GenericC(R, SP[k], OpenOf(k))) =>
              /\ \A x \in want : \E y \in got : same(x, y)
              /\ \A y \in got : \E x \in want : same(x, y))

\* ---- FastClip: vertices of P only; every segment is an edge of P or stays out of the interior of the rectangle; every
\* ---- edge that meets the interior is kept; winding numbers inside the rectangle keep their fill (NonZero and EvenOdd)
EdgesOfP == UNION {{<<p[k][j], Nxt(p[k], j)>> : j \in 1..NE(p[k], OpenOf(k))} : k \in 1..Len(p)}
FastObsOK(e) ==
    LET R == RectS(a.rect)
        obs == ObsSegs(e.fast)
        op == [j \in 1..Len(e.fast) |-> ScaleC(S, e.fast[j].pts)]
        sc(q) == <<S * q[1], S * q[2]>>
    IN /\ \A j \in 1..Len(e.fast) : \A i \in 1..Len(e.fast[j].pts) : \E k \in 1..Len(p) : \E v \in 1..Len(p[k]) : p[k][v] = e.fast[j].pts[i]
       /\ \A s \in obs : s \in EdgesOfP \/ ~MeetsInterior(R, sc(s[1]), sc(s[2]))
       /\ \A s \in EdgesOfP : MeetsInterior(R, sc(s[1]), sc(s[2])) => s \in obs
       /\ (~a.open => \A k \in 1..NS : LET s == Sample(k) IN
              (InO(R, s) /\ ~OnPath(SP, s) /\ ~OnPath(op, s)) =>
                  /\ (Wind(SP, s) # 0) = (Wind(op, s) # 0)
                  /\ (Wind(SP, s) % 2 # 0) = (Wind(op, s) % 2 # 0))

\* ---- Visvalingam-Whyatt: the result is one of the results of the least-area-first machine
VWObsOK(e) == \E r \in VWStrict(p[1], a.open, a.k) :
                 IF r = <<>> THEN e.obs = <<>>
                 ELSE e.closed = ~a.open /\ (IF a.open THEN e.obs = r ELSE RotEq(e.obs, r))

ObsOK(e) == CASE What = "clip" -> ClipObsOK(e) /\ FastObsOK(e)
              [] What = "vw" -> VWObsOK(e)

TInit == /\ ev \in 1..Len(Trace) /\ p = Trace[ev].p /\ a = Trace[ev].a /\ done = FALSE
TEmit == /\ ~done /\ done' = TRUE /\ UNCHANGED <<p, a, ev>>
         /\ (ObsOK(Trace[ev]) \/ PrintT("@@" \o ToJson(Scenario @@ [ev |-> ev])))
TSpec == TInit /\ [][TEmit]_tvars
=============================================================================
