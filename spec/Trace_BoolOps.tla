--------------------------- MODULE Trace_BoolOps ---------------------------
(* code -> spec for C01: a seeded Go driver builds larger random lattice scenes (1-4 contours per operand,  *)
(* 3-7 vertices, lattice 0..N), runs the five real boolean operations and logs, per operation, the fill     *)
(* (winding # 0) it observes at every sample point of this module.  The recorded events are independent,    *)
(* so every event is an initial state (judged by TLC's parallel workers): the Judge step compares the       *)
(* observation with the cells the operators of BoolOps assign to the logged operands; every sample whose    *)
(* expected cell is decided (not on a boundary) must have the observed value.  An event that disagrees is   *)
(* printed with its full expectation and features, which the driver replays as an ordinary scenario.        *)
(* All events judged  <=>  the run ends with 2 * Len(Trace) distinct states.                                *)
EXTENDS BoolOps
Trace == ndJsonDeserialize("trace_boolops.ndjson")
VARIABLES l, judged
tvars == <<vars, l, judged>>
Ev == Trace[l]
TInit == /\ l \in 1..Len(Trace) /\ judged = FALSE /\ done = FALSE
         /\ p = Trace[l].p /\ q = Trace[l].q
Agree(exp, obs) == \A k \in 1..NS : exp[k] # 2 => obs[k] = exp[k]
TJudge == /\ ~judged /\ judged' = TRUE /\ UNCHANGED <<p, q, done, l>>
          /\ LET wp == WVec(P) wq == WVec(Q)
                 ok == /\ Agree(CellsW("and", wp, wq), Ev.obs.and) /\ Agree(CellsW("or", wp, wq), Ev.obs.or)
                       /\ Agree(CellsW("xor", wp, wq), Ev.obs.xor) /\ Agree(CellsW("not", wp, wq), Ev.obs.not)
                       /\ Agree(CellsW("div", wp, wq), Ev.obs.div)
             IN ok \/ PrintT("@@" \o ToJson(Scenario @@ [l |-> l]))
TSpec == TInit /\ [][TJudge]_tvars
=============================================================================
