------------------------------ MODULE Measure ------------------------------
(* C09: Length, SplitAt and Reverse are consistent views of the same curve.                            *)
(*                                                                                                      *)
(* The model is a register machine with ONE register holding an abstract lattice curve path            *)
(* (LatCurves) and the action Reverse; Length and SplitAt are observations of the register.            *)
(* Everything the harness compares the real library with is computed here, in integers:                *)
(*   br     a bracket <<lo, hi>> (units of 1/LD lattice units) of the true arc length: exact for        *)
(*          Pythagorean edges, ISqrtLo/Hi for other lattice edges, a verified table of elliptic-arc     *)
(*          lengths between the lattice points of the integer ellipses (GapTab), pi between 333/106 and *)
(*          355/113 for circular arcs given by their end points, chord sum / control-polygon sum of    *)
(*          the 16 dyadic de Casteljau pieces for Beziers                                               *)
(*   way    per contour the ordered way-points (rationals <<x, y, den>>) the trace passes through       *)
(*   pieces (Mode "pyth") the pieces SplitAt must return for cut positions given in HALF units of      *)
(*          length on polylines whose edges are Pythagorean: rational cut points, vertices between     *)
(*   rev    RevPath(path): the abstract path Reverse must produce, its way-points, and the winding      *)
(*          numbers of path and of RevPath(path) around the centres of the lattice cells               *)
(*   feat   exact feature predicates used in known-finding signatures                                   *)
EXTENDS CurveGen, Json, Randomization

CONSTANTS N,        \* control lattice 0..N (curves, chord); start box of Pythagorean polylines
          NC,       \* contours per path: 1..3, or 0 = 1..3 chosen by the scenario vector
          Mode,     \* "curves" (CurveGen templates) | "pyth" (Pythagorean polylines + exact SplitAt) | "chord" (end-point circle arcs)
                    \* | "overshoot" (collinear quadratics whose control point lies outside the chord)
          Kinds,    \* curves: subset of {"L","Q","C","A"}
          FamSet,   \* curves: usable ellipse families (indices into CurveGen!Fams)
          Num       \* scenarios per run (RandomSubset)

LD == 8192                                   \* length unit: 1/8192 lattice unit
BAdd(x, y) == <<x[1] + y[1], x[2] + y[2]>>
RECURSIVE BSum_(_, _)
BSum_(s, i) == IF i = 0 THEN <<0, 0>> ELSE BAdd(s[i], BSum_(s, i - 1))
BSum(s) == BSum_(s, Len(s))
Guard(n, k2) == IF n > 2147483647 \div k2 THEN Assert(FALSE, <<"32-bit overflow in a square root", n, k2>>) ELSE TRUE
SqLo(n, k2) == IF Guard(n, k2) THEN ISqrtLo(k2 * n) ELSE 0
SqHi(n, k2) == IF Guard(n, k2) THEN ISqrtHi(k2 * n) ELSE 0
IsSq(n) == LET r == ISqrtLo(n) IN r * r = n

\* ---- straight edges --------------------------------------------------------------------------------------------
LineBr(a, b) == LET n == Len2(a, b) r == ISqrtLo(n) IN
                IF r * r = n THEN <<LD * r, LD * r>> ELSE <<8 * SqLo(n, 1048576), 8 * SqHi(n, 1048576)>>

\* ---- arcs of the integer ellipses of CurveGen ---------------------------------------------------------------------
\* Ring[f]: the lattice points of family f (offsets from the centre) in counter-clockwise order starting at angle 0
AngLess(p, q) == LET up(s) == s[2] > 0 \/ (s[2] = 0 /\ s[1] > 0) IN
                 IF up(p) # up(q) THEN up(p) ELSE p[1] * q[2] - p[2] * q[1] > 0
Ring == [f \in 1..Len(Fams) |-> SetToSortSeq(ToSet(FamSeq[f]), AngLess)]
\* GapTab[f][i] = <<floor, ceil>> of LD * (length of the ellipse arc from Ring[f][i] counter-clockwise to its successor).
\* Source: composite Simpson integration of sqrt(rx^2 sin^2 t + ry^2 cos^2 t) (oracle.EllipseArcLen); the harness
\* re-verifies every entry numerically at the start of each run (header line) and GapTabOK below checks the table
\* against exact bounds (chord <= gap <= |du| + |dv|; circles against 333/106 < pi < 355/113).
GapTab == <<
    << <<12867, 12868>>, <<12867, 12868>>, <<12867, 12868>>, <<12867, 12868>> >>,
    << <<25735, 25736>>, <<25735, 25736>>, <<25735, 25736>>, <<25735, 25736>> >>,
    << <<26357, 26358>>, <<11624, 11625>>, <<26357, 26358>>, <<26357, 26358>>, <<11624, 11625>>, <<26357, 26358>>, <<26357, 26358>>, <<11624, 11625>>, <<26357, 26358>>, <<26357, 26358>>, <<11624, 11625>>, <<26357, 26358>> >>,
    << <<19841, 19842>>, <<19841, 19842>>, <<19841, 19842>>, <<19841, 19842>> >>,
    << <<19841, 19842>>, <<19841, 19842>>, <<19841, 19842>>, <<19841, 19842>> >>,
    << <<30764, 30765>>, <<18357, 18358>>, <<50088, 50089>>, <<50088, 50089>>, <<18357, 18358>>, <<30764, 30765>>, <<30764, 30765>>, <<18357, 18358>>, <<50088, 50089>>, <<50088, 50089>>, <<18357, 18358>>, <<30764, 30765>> >>,
    << <<50088, 50089>>, <<18357, 18358>>, <<30764, 30765>>, <<30764, 30765>>, <<18357, 18358>>, <<50088, 50089>>, <<50088, 50089>>, <<18357, 18358>>, <<30764, 30765>>, <<30764, 30765>>, <<18357, 18358>>, <<50088, 50089>> >>,
    << <<99209, 99210>>, <<99209, 99210>>, <<99209, 99210>>, <<99209, 99210>> >>,
    << <<99209, 99210>>, <<99209, 99210>>, <<99209, 99210>>, <<99209, 99210>> >>,
    << <<35137, 35138>>, <<35137, 35138>>, <<35137, 35138>>, <<35137, 35138>> >>,
    << <<43028, 43029>>, <<43028, 43029>>, <<43028, 43029>>, <<43028, 43029>> >>,
    << <<136856, 136857>>, <<136856, 136857>>, <<136856, 136857>>, <<136856, 136857>> >> >>

FamOf(g) == CHOOSE f \in 1..Len(Fams) : Fams[f].rad = g.c2 /\ Fams[f].rot = g.rot
RIdx(f, s) == CHOOSE i \in 1..Len(Ring[f]) : Ring[f][i] = s
\* ring indices passed when travelling the arc from a to g.p (first = a, last = g.p)
ArcIdx(a, g) == LET f == FamOf(g) n == Len(Ring[f]) i == RIdx(f, PSub(a, g.c1)) j == RIdx(f, PSub(g.p, g.c1))
                    st == IF g.sw = 1 THEN (j - i + n) % n ELSE (i - j + n) % n
                IN [k \in 1..(st + 1) |-> IF g.sw = 1 THEN ((i - 1 + (k - 1)) % n) + 1 ELSE ((i - 1 - (k - 1) + 2 * n) % n) + 1]
ArcBr(a, g) == LET f == FamOf(g) idx == ArcIdx(a, g) IN
               BSum([k \in 1..(Len(idx) - 1) |-> GapTab[f][IF g.sw = 1 THEN idx[k] ELSE idx[k + 1]]])
\* circular arc of radius r given by its end points, spanning ak * 30 degrees (ak in {2, 3, 6, 9, 10}); centre irrational
ChordArcBr(r, ak) == <<(LD * r * ak * 333) \div 636, ((LD * r * ak * 355) \div 678) + 1>>

\* ---- Beziers: 16 dyadic de Casteljau pieces (quadratics scaled by 4^4, cubics by 8^4) ----------------------------------
QuadL(q) == LET ab == Mid(q[1], q[2]) bc == Mid(q[2], q[3]) IN <<q[1], ab, Mid(ab, bc)>>
QuadR(q) == LET ab == Mid(q[1], q[2]) bc == Mid(q[2], q[3]) IN <<Mid(ab, bc), bc, q[3]>>
RECURSIVE QuadPieces(_, _)
QuadPieces(q, k) == IF k = 0 THEN <<q>> ELSE QuadPieces(QuadL(q), k - 1) \o QuadPieces(QuadR(q), k - 1)
QuadBr(a, g) == LET ps == QuadPieces(<<PMul(256, a), PMul(256, g.c1), PMul(256, g.p)>>, 4) IN
                BSum([i \in 1..Len(ps) |-> <<SqLo(Len2(ps[i][1], ps[i][3]), 1024),
                                             SqHi(Len2(ps[i][1], ps[i][2]), 1024) + SqHi(Len2(ps[i][2], ps[i][3]), 1024)>>])
CubBr(a, g) == LET ps == CubPieces(<<PMul(4096, a), PMul(4096, g.c1), PMul(4096, g.c2), PMul(4096, g.p)>>, 4) IN
               BSum([i \in 1..Len(ps) |-> <<SqLo(Len2(ps[i][1], ps[i][4]), 4),
                                            SqHi(Len2(ps[i][1], ps[i][2]), 4) + SqHi(Len2(ps[i][2], ps[i][3]), 4) + SqHi(Len2(ps[i][3], ps[i][4]), 4)>>])

\* ak > 0: the arcs of the contour are end-point circle arcs of ak * 30 degrees (Mode "chord")
SegBr(a, g, ak) == CASE g.k = "L" -> LineBr(a, g.p)
                     [] g.k = "A" -> IF ak > 0 THEN ChordArcBr(g.c2[1], ak) ELSE ArcBr(a, g)
                     [] g.k = "Q" -> QuadBr(a, g)
                     [] g.k = "C" -> CubBr(a, g)
ClosingEdge(c) == c.cl /\ EndPt(c) # c.s
CtrBr(c, ak) == BAdd(BSum([i \in 1..Len(c.segs) |-> SegBr(SegStart(c, i), c.segs[i], ak)]),
                     IF ClosingEdge(c) THEN LineBr(EndPt(c), c.s) ELSE <<0, 0>>)
PathBr(p, ak) == BSum([j \in 1..Len(p) |-> CtrBr(p[j], ak)])

\* ---- features (exact predicates; part of known-finding signatures) -------------------------------------------------
\* 1 EccLargeArc: arc of an ellipse with axis ratio >= 2 sweeping 180 degrees or more (DESIGN #27)
\* 2 ChordEqRxH:  the library's arc-centre shortcut fires when the x axis keeps its direction: horizontal chord of length
\*                equal to the major radius, major axis along x (the builder swaps radii so that rx >= ry) (DESIGN #21)
\* 4 ChordEqRxV:  the same after a quarter turn: vertical chord equal to the major radius, major axis along y
\* 8 ChordEqRxP:  the same after the rotation by atan(3/4) that maps (4,-3) to (5,0): circular arc whose chord is parallel
\*                to (4,-3) and as long as the radius
\* 16 TurnsBack:  Bezier whose control polygon turns back: two of its legs enclose more than 90 degrees (or a leg is
\*                zero); for a quadratic: the angle at the control point is acute
SegFeat(a, g, ak) ==
    IF g.k = "L" THEN 0
    ELSE IF g.k = "Q" THEN (IF DotP(g.c1, a, g.p) > 0 THEN 16 ELSE 0)
    ELSE IF g.k = "C" THEN
        LET u == PSub(g.c1, a) v == PSub(g.c2, g.c1) w == PSub(g.p, g.c2)
            dot(x, y) == x[1] * y[1] + x[2] * y[2]
        IN IF u = Z2 \/ v = Z2 \/ w = Z2 \/ dot(u, v) < 0 \/ dot(v, w) < 0 \/ dot(u, w) < 0 THEN 16 ELSE 0
    ELSE
    LET rx == g.c2[1] ry == g.c2[2]
        ecc == MaxI(rx, ry) >= 2 * MinI(rx, ry) /\ (g.lg = 1 \/ ArcTurn(a, g) = 0)
        h == g.rot = 0 /\ rx >= ry /\ a[2] = g.p[2] /\ Abs(a[1] - g.p[1]) = rx
        v == g.rot = 0 /\ ry >= rx /\ a[1] = g.p[1] /\ Abs(a[2] - g.p[2]) = ry
        pp == rx = ry /\ Cross(Z2, <<4, -3>>, PSub(g.p, a)) = 0 /\ Len2(a, g.p) = rx * rx
    IN (IF ecc THEN 1 ELSE 0) + (IF h THEN 2 ELSE 0) + (IF v THEN 4 ELSE 0) + (IF pp THEN 8 ELSE 0)
\* LineReversal: two consecutive straight edges of a contour (the closing edge included) are collinear and point in
\* opposite directions (a spike); the builder's LineTo mishandles some of them (DESIGN #6)
Tips(c) == LET d == [i \in 1..Len(c.segs) |-> <<SegStart(c, i), c.segs[i]>>] \o (IF ClosingEdge(c) THEN <<<<EndPt(c), Ln(c.s)>>>> ELSE <<>>)
           IN {d[i][2].p : i \in {m \in 1..(Len(d) - 1) : /\ d[m][2].k = "L" /\ d[m + 1][2].k = "L"
                                                           /\ Cross(d[m][1], d[m][2].p, d[m + 1][2].p) = 0
                                                           /\ DotP(d[m][2].p, d[m][1], d[m + 1][2].p) > 0}}
PathTips(p) == SetToSeq(UNION {Tips(p[j]) : j \in 1..Len(p)})       \* the tips of the spikes
\* per contour, per segment: <<lo, hi, feature bits>>
SegTab(p, ak) == [j \in 1..Len(p) |-> [i \in 1..Len(p[j].segs) |->
                    LET a == SegStart(p[j], i) g == p[j].segs[i] b == SegBr(a, g, ak) IN <<b[1], b[2], SegFeat(a, g, ak)>>]]

\* ---- way-points ------------------------------------------------------------------------------------------------
WP(p) == <<p[1], p[2], 1>>
ArcWay(a, g) == LET idx == ArcIdx(a, g) f == FamOf(g) IN [k \in 1..(Len(idx) - 1) |-> WP(PAdd(g.c1, Ring[f][idx[k + 1]]))]
QuadWay(a, g) == LET ps == QuadPieces(<<PMul(16, a), PMul(16, g.c1), PMul(16, g.p)>>, 2) IN [k \in 1..4 |-> IF k = 4 THEN WP(g.p) ELSE <<ps[k][3][1], ps[k][3][2], 16>>]
CubWay(a, g) == LET ps == CubPieces(<<PMul(64, a), PMul(64, g.c1), PMul(64, g.c2), PMul(64, g.p)>>, 2) IN [k \in 1..4 |-> IF k = 4 THEN WP(g.p) ELSE <<ps[k][4][1], ps[k][4][2], 64>>]
SegWay(a, g, ak) == CASE g.k = "L" -> <<WP(g.p)>>
                      [] g.k = "A" -> IF ak > 0 THEN <<WP(g.p)>> ELSE ArcWay(a, g)
                      [] g.k = "Q" -> QuadWay(a, g)
                      [] g.k = "C" -> CubWay(a, g)
CtrWay(c, ak) == <<WP(c.s)>> \o FlattenSeq([i \in 1..Len(c.segs) |-> SegWay(SegStart(c, i), c.segs[i], ak)])
                 \o (IF ClosingEdge(c) THEN <<WP(c.s)>> ELSE <<>>)
PathWay(p, ak) == [j \in 1..Len(p) |-> CtrWay(p[j], ak)]

\* ---- Reverse ------------------------------------------------------------------------------------------------------
\* the segment from a to g.p traversed backwards (ends at a): cubic control points swap, arcs flip the sweep flag
RevSeg(a, g) == CASE g.k = "L" -> Ln(a)
                  [] g.k = "Q" -> Qd(g.c1, a)
                  [] g.k = "C" -> Cb(g.c2, g.c1, a)
                  [] g.k = "A" -> Ar(g.c1, g.c2, g.rot, g.lg, 1 - g.sw, a)
\* normal form: the final straight edge of a closed contour that returns to the start IS the closing edge
NF(c) == LET n == Len(c.segs) IN
         IF c.cl /\ n > 1 /\ c.segs[n].k = "L" /\ c.segs[n].p = c.s THEN [c EXCEPT !.segs = SubSeq(c.segs, 1, n - 1)] ELSE c
RevCtr(c) == LET n == Len(c.segs)
                 rs == [i \in 1..n |-> RevSeg(SegStart(c, n + 1 - i), c.segs[n + 1 - i])]
             IN IF c.cl THEN NF(Ctr(c.s, IF EndPt(c) # c.s THEN <<Ln(EndPt(c))>> \o rs ELSE rs, TRUE))
                ELSE Ctr(EndPt(c), rs, FALSE)
RevPath(p) == [j \in 1..Len(p) |-> RevCtr(p[Len(p) + 1 - j])]
RevSeq(s) == [i \in 1..Len(s) |-> s[Len(s) + 1 - i]]

\* ---- winding samples: the centres of the lattice cells (scale 2: odd coordinates), thinned on large lattices ----------
SStep == IF N <= 5 THEN 1 ELSE IF N <= 12 THEN 2 ELSE IF N <= 22 THEN 3 ELSE 5
SCnt == ((N + 2) \div SStep) + 1
SPt(i) == <<2 * SStep * ((i - 1) % SCnt) - 1, 2 * SStep * ((i - 1) \div SCnt) - 1>>
NS == SCnt * SCnt
\* rows <<x, y, w, wr>> for the samples at which the winding of p and of its reverse are both decided (flag 0)
WindRows(p, r) == LET pp == ScalePath(2, p) rr == ScalePath(2, r)
                      row(s) == LET a == PathWB(pp, s) b == PathWB(rr, s) IN <<s[1], s[2], a[1], b[1], a[2], b[2]>>
                      all == [i \in 1..NS |-> row(SPt(i))]
                  IN SelectSeq(all, LAMBDA x : x[5] = 0 /\ x[6] = 0)

\* ---- scenario generation ------------------------------------------------------------------------------------------
\* TLC's RandomSubset over the huge function set [1..GenLen -> 0..GenMax] is a stratified sample whose leading entries
\* are all equal (measured), so scenarios are drawn as integer seeds and expanded here: stream k of seed s is the sum
\* of two linear congruential sequences modulo the primes 9973 and 9967 (103, 101 primitive roots; products < 2^31)
RECURSIVE Vec_(_, _, _, _, _)
Vec_(x, y, k, n, acc) == IF n = 0 THEN acc
                         ELSE LET x2 == (103 * x + 1 + 2 * k) % 9973 y2 == (101 * y + 7 + k) % 9967
                              IN Vec_(x2, y2, k, n - 1, Append(acc, (x2 + y2) % 9973))
Vec(s, k) == Vec_((s + 17 * k) % 9973, (s \div 9973) % 9967, k, GenLen, <<>>)
Seeds == 1..2000000000

\* remove zero-length straight edges
RECURSIVE Clean_(_, _, _)
Clean_(c, i, acc) == IF i > Len(c.segs) THEN acc
                     ELSE LET cur == IF Len(acc) = 0 THEN c.s ELSE acc[Len(acc)].p g == c.segs[i]
                          IN Clean_(c, i + 1, IF g.k = "L" /\ g.p = cur THEN acc ELSE Append(acc, g))
Clean(c) == NF([c EXCEPT !.segs = Clean_(c, 1, <<>>)])

\* Pythagorean edge vectors
PBase == << <<3, 4>>, <<4, 3>>, <<5, 12>>, <<12, 5>>, <<6, 8>>, <<8, 6>>, <<8, 15>>, <<15, 8>>, <<9, 12>>, <<12, 9>>,
            <<1, 0>>, <<2, 0>>, <<3, 0>>, <<5, 0>>, <<8, 0>>, <<0, 1>>, <<0, 2>>, <<0, 4>>, <<0, 7>>, <<0, 10>> >>
PVec(r) == LET b == PBase[(r % Len(PBase)) + 1] q == r \div Len(PBase)
           IN <<(IF q % 2 = 0 THEN 1 ELSE -1) * b[1], (IF (q \div 2) % 2 = 0 THEN 1 ELSE -1) * b[2]>>
\* templates: 0 open chain; 1 chain, closed when the closing vector is Pythagorean; 2 right triangle; 3 rectangle; 4 parallelogram
PythCtr(rv) ==
    LET t == rv[1] % 5
        s == <<rv[2] % (N + 1), rv[3] % (N + 1)>>
        k == 1 + (rv[4] % 4)
        e(i) == PVec(rv[4 + i])
        RECURSIVE acc(_)
        acc(i) == IF i = 0 THEN s ELSE PAdd(acc(i - 1), e(i))
        chain == [i \in 1..k |-> Ln(acc(i))]
        d == PBase[(rv[5] % 10) + 1]
        x == (IF rv[6] % 2 = 0 THEN 1 ELSE -1) * d[1]  y == (IF rv[7] % 2 = 0 THEN 1 ELSE -1) * d[2]
        w == (IF rv[6] % 2 = 0 THEN 1 ELSE -1) * (1 + (rv[8] % 8))  h == (IF rv[7] % 2 = 0 THEN 1 ELSE -1) * (1 + (rv[9] % 8))
    IN CASE t = 0 -> Ctr(s, chain, FALSE)
         [] t = 1 -> Ctr(s, chain, IsSq(Len2(acc(k), s)) /\ acc(k) # s /\ rv[10] % 4 # 0)
         [] t = 2 -> IF rv[10] % 2 = 0 THEN Ctr(s, <<Ln(PAdd(s, <<x, 0>>)), Ln(PAdd(s, <<x, y>>))>>, TRUE)
                     ELSE Ctr(s, <<Ln(PAdd(s, <<0, y>>)), Ln(PAdd(s, <<x, y>>))>>, TRUE)
         [] t = 3 -> Ctr(s, <<Ln(PAdd(s, <<w, 0>>)), Ln(PAdd(s, <<w, h>>)), Ln(PAdd(s, <<0, h>>))>>, TRUE)
         [] t = 4 -> Ctr(s, <<Ln(PAdd(s, e(1))), Ln(PAdd(PAdd(s, e(1)), e(2))), Ln(PAdd(s, e(2)))>>, TRUE)

\* circular arc given by its end points: chord = r (60 / 300 degrees), chord^2 = 2 r^2 (90 / 270), chord = 2 r (180)
ChordTab == << [r |-> 5, v |-> <<5, 0>>, ak |-> 2], [r |-> 5, v |-> <<3, 4>>, ak |-> 2], [r |-> 5, v |-> <<0, 5>>, ak |-> 2],
               [r |-> 1, v |-> <<1, 0>>, ak |-> 2], [r |-> 10, v |-> <<6, 8>>, ak |-> 2], [r |-> 13, v |-> <<5, 12>>, ak |-> 2],
               [r |-> 2, v |-> <<2, 0>>, ak |-> 2], [r |-> 10, v |-> <<10, 0>>, ak |-> 2],
               [r |-> 5, v |-> <<5, 5>>, ak |-> 3], [r |-> 5, v |-> <<7, 1>>, ak |-> 3], [r |-> 1, v |-> <<1, 1>>, ak |-> 3], [r |-> 13, v |-> <<17, 7>>, ak |-> 3],
               [r |-> 5, v |-> <<10, 0>>, ak |-> 6], [r |-> 5, v |-> <<6, 8>>, ak |-> 6], [r |-> 1, v |-> <<0, 2>>, ak |-> 6] >>
\* <<contour, ak>>; the large flag turns 60 into 300 and 90 into 270 degrees
ChordCtr(rv) ==
    LET e == ChordTab[(rv[1] % Len(ChordTab)) + 1]
        q == rv[2] % 8
        v == <<(IF q % 2 = 0 THEN 1 ELSE -1) * (IF q >= 4 THEN e.v[2] ELSE e.v[1]), (IF (q \div 2) % 2 = 0 THEN 1 ELSE -1) * (IF q >= 4 THEN e.v[1] ELSE e.v[2])>>
        a == <<rv[3] % (N + 1), rv[4] % (N + 1)>>
        lg == rv[5] % 2
        ak == IF e.ak = 6 THEN 6 ELSE IF lg = 1 THEN 12 - e.ak ELSE e.ak
        arc == Ar(Z2, <<e.r, e.r>>, 0, lg, rv[6] % 2, PAdd(a, v))
        pre == <<rv[8] % (N + 1), rv[9] % (N + 1)>>
        segs == IF rv[7] % 3 = 0 /\ pre # PAdd(a, v) THEN <<arc, Ln(pre)>> ELSE <<arc>>
    IN <<Ctr(a, segs, rv[10] % 3 = 0), ak>>

\* Mode "overshoot": a quadratic Bezier whose control point is collinear with its end points but OUTSIDE the chord (beyond
\* the end point or before the start point), in an axis or diagonal direction: the curve runs out and back along the line.
\* The builder keeps such a quadratic (it is not a line); its length is bracketed like every quadratic (QuadBr).
OvCtr(rv) ==
    LET dirs == << <<1, 0>>, <<0, 1>>, <<-1, 0>>, <<0, -1>>, <<1, 1>>, <<-1, 1>>, <<1, -1>>, <<-1, -1>> >>
        d == dirs[(rv[1] % 8) + 1]
        s == <<6, 6>>
        m == 1 + (rv[2] % 3)
        k == IF rv[3] % 2 = 0 THEN m + 1 + (rv[4] % 3) ELSE -(1 + (rv[4] % 3))
        p1 == PAdd(s, PMul(k, d)) p2 == PAdd(s, PMul(m, d))
        v == <<rv[5] % 13, rv[6] % 13>>
        segs == IF rv[7] % 2 = 0 /\ v # p2 THEN <<Qd(p1, p2), Ln(v)>> ELSE <<Qd(p1, p2)>>
    IN Ctr(s, segs, rv[8] % 3 = 0)

NCof(rv) == IF NC = 0 THEN 1 + (rv[23] % 3) ELSE NC
OneCtr(rv, first) == CASE Mode = "pyth" -> PythCtr(rv)
                       [] Mode = "curves" -> Clean(DecodeCtr(rv, N, IF first THEN Kinds ELSE Kinds \cup {"L"}, FamSet))
                       [] Mode = "chord" -> ChordCtr(rv)[1]
                       [] Mode = "overshoot" -> OvCtr(rv)
MkPath(a, b, c) == LET n == IF Mode \in {"chord", "overshoot"} THEN 1 ELSE NCof(a) IN
                   [j \in 1..n |-> OneCtr(IF j = 1 THEN a ELSE IF j = 2 THEN b ELSE c, j = 1)]

\* ---- SplitAt on Pythagorean polylines: cut positions in half units -------------------------------------------------------
CtrPts(c) == <<c.s>> \o [i \in 1..Len(c.segs) |-> c.segs[i].p] \o (IF ClosingEdge(c) THEN <<c.s>> ELSE <<>>)
Cum(pts) == LET RECURSIVE f(_)
                f(i) == IF i = 1 THEN 0 ELSE f(i - 1) + ISqrtLo(Len2(pts[i - 1], pts[i]))
            IN [i \in 1..Len(pts) |-> f(i)]
\* point at x half units along the polyline pts (cum = its cumulative integer lengths)
PtAt(pts, cum, x) == LET i == CHOOSE m \in 1..(Len(pts) - 1) : x <= 2 * cum[m + 1] /\ \A q \in 1..(m - 1) : x > 2 * cum[q + 1]
                         a == pts[i] b == pts[i + 1] l == cum[i + 1] - cum[i] k == x - 2 * cum[i]
                     IN <<2 * l * a[1] + (b[1] - a[1]) * k, 2 * l * a[2] + (b[2] - a[2]) * k, 2 * l>>
Frag(pts, cum, x, y) == LET mid == SelectSeq([i \in 1..Len(pts) |-> i], LAMBDA i : x < 2 * cum[i] /\ 2 * cum[i] < y)
                        IN <<PtAt(pts, cum, x)>> \o [m \in 1..Len(mid) |-> WP(pts[mid[m]])] \o <<PtAt(pts, cum, y)>>
\* geometry of a path of polylines: per contour the traced points, cumulative lengths and the offset of its start
PolyData(p) == LET pts == [j \in 1..Len(p) |-> CtrPts(p[j])]
                   cum == [j \in 1..Len(p) |-> Cum(pts[j])]
                   RECURSIVE off(_)
                   off(j) == IF j = 1 THEN 0 ELSE off(j - 1) + cum[j - 1][Len(cum[j - 1])]
               IN [pts |-> pts, cum |-> cum, off |-> [j \in 1..(Len(p) + 1) |-> off(j)]]
\* the piece between path positions lo < hi (half units): one fragment [j |-> contour, pts |-> points] per contour it overlaps
Piece(pd, lo, hi) == LET n == Len(pd.pts)
                         fr(j) == LET cs == 2 * pd.off[j] ce == 2 * pd.off[j + 1] x == MaxI(lo, cs) y == MinI(hi, ce)
                                  IN IF x < y THEN <<[j |-> j, pts |-> Frag(pd.pts[j], pd.cum[j], x - cs, y - cs)]>> ELSE <<>>
                     IN FlattenSeq([j \in 1..n |-> fr(j)])
SplitExp(pd, cuts) == LET U == 2 * pd.off[Len(pd.off)]
                          inner == SetToSortSeq({u \in cuts : 0 < u /\ u < U}, LAMBDA x, y : x < y)
                          bnd == <<0>> \o inner \o <<U>>
                      IN [k \in 1..(Len(bnd) - 1) |-> Piece(pd, bnd[k], bnd[k + 1])]
\* cut positions decoded from a vector: up to 3; a vertex position (1 in 6), an end of the path (1 in 6) or anywhere
VertexPos(pd) == UNION {{2 * (pd.off[j] + pd.cum[j][i]) : i \in 1..Len(pd.cum[j])} : j \in 1..Len(pd.pts)}
CutSeq(pd, rw) == LET U == 2 * pd.off[Len(pd.off)]
                      vp == SetToSortSeq(VertexPos(pd), LAMBDA x, y : x < y)
                      one(i) == LET r == rw[2 * i] sel == rw[2 * i + 1] % 6 IN
                                IF sel = 0 THEN vp[(r % Len(vp)) + 1] ELSE IF sel = 1 THEN (IF r % 2 = 0 THEN 0 ELSE U) ELSE r % (U + 1)
                      m == 1 + (rw[1] % 3)
                      raw == [i \in 1..m |-> one(i)]
                  IN SelectSeq([i \in 1..m |-> IF \E q \in 1..(i - 1) : raw[q] = raw[i] THEN -1 ELSE raw[i]], LAMBDA u : u >= 0)
\* curves: cut positions as distinct sixteenths of the real Length()
FracSeq(rw) == LET m == 1 + (rw[1] % 3)
                   raw == [i \in 1..m |-> 1 + (rw[1 + i] % 15)]
               IN SelectSeq([i \in 1..m |-> IF \E q \in 1..(i - 1) : raw[q] = raw[i] THEN -1 ELSE raw[i]], LAMBDA u : u >= 0)

\* ---- the machine -------------------------------------------------------------------------------------------------------
VARIABLES scn,      \* the scenario: [seed, path, ak, rw]
          reg,      \* the register
          nrev,     \* number of Reverse actions applied (-1: the scenario is not loaded yet)
          done
vars == <<scn, reg, nrev, done>>

AkOf(a) == IF Mode = "chord" THEN ChordCtr(a)[2] ELSE 0
MkScn(s) == [seed |-> s, path |-> MkPath(Vec(s, 0), Vec(s, 1), Vec(s, 2)), ak |-> AkOf(Vec(s, 0)), rw |-> Vec(s, 3)]
ScnOK(s) == IF Mode = "overshoot" THEN TRUE ELSE IF Mode = "chord" THEN \A j \in 1..Len(s.path) : Len(s.path[j].segs) > 0 ELSE PathOK(s.path)

Scenario ==
    LET p == scn.path ak == scn.ak r == RevPath(p)
        poly == Mode = "pyth"
        pd == IF poly THEN PolyData(p) ELSE [pts |-> <<>>, cum |-> <<>>, off |-> <<0>>]
        cuts == IF poly THEN CutSeq(pd, scn.rw) ELSE <<>>
    IN [mode |-> Mode, seed |-> scn.seed, path |-> p, ak |-> ak, ld |-> LD, br |-> PathBr(p, ak), segs |-> SegTab(p, ak),
        tips |-> PathTips(p),
        way |-> PathWay(p, ak), rev |-> r, revway |-> PathWay(r, ak),
        rows |-> IF Mode = "curves" THEN WindRows(p, r) ELSE <<>>,
        cuts |-> cuts, total2 |-> 2 * pd.off[Len(pd.off)],
        pieces |-> IF poly THEN SplitExp(pd, ToSet(cuts)) ELSE <<>>,
        fr |-> IF poly THEN <<>> ELSE FracSeq(scn.rw)]

\* the scenario is expanded from its seed by the first action (so that TLC's workers share that work)
Init == scn \in {[seed |-> s, path |-> <<>>, ak |-> 0, rw |-> <<>>] : s \in RandomSubset(Num, Seeds)} /\ reg = <<>> /\ nrev = -1 /\ done = FALSE
Load == nrev = -1 /\ scn' = MkScn(scn.seed) /\ reg' = scn'.path /\ nrev' = 0 /\ UNCHANGED done
Emit == ~done /\ nrev = 0 /\ done' = TRUE /\ UNCHANGED <<scn, reg, nrev>> /\ ScnOK(scn) /\ PrintT("@@" \o ToJson(Scenario))
Rev  == 0 <= nrev /\ nrev < 2 /\ ScnOK(scn) /\ reg' = RevPath(reg) /\ nrev' = nrev + 1 /\ UNCHANGED <<scn, done>>
GenSpec == Init /\ [][Load \/ Emit]_vars
Spec == Init /\ [][Load \/ Emit \/ Rev]_vars

Header == [hdr |-> TRUE, ld |-> LD, fams |-> Fams, ring |-> Ring, gaps |-> GapTab]
ASSUME PrintT("@@" \o ToJson(Header))

\* ---- model-level properties (MC config) ---------------------------------------------------------------------------------
\* (0) the gap table against exact bounds: every gap is at least its chord and at most |du| + |dv| (the arc between two
\*     neighbouring lattice points of an ellipse is monotone in the ellipse's own frame only within a quadrant, which
\*     holds for all families: the four axis points are lattice points); circles against 333/106 < pi < 355/113
GapOK(f, i) == LET n == Len(Ring[f]) a == Ring[f][i] b == Ring[f][(i % n) + 1] g == GapTab[f][i]
                   pr == Proto(f) du == Abs(EU(pr, a) - EU(pr, b)) dv == Abs(EV(pr, a) - EV(pr, b)) den == IF Fams[f].rot = 0 THEN 1 ELSE 5
               IN /\ g[1] <= g[2] /\ g[2] - g[1] <= 1
                  /\ LineBr(a, b)[1] <= g[2]
                  /\ g[1] * den <= LD * (du + dv)
CircleOK(f) == Fams[f].rad[1] # Fams[f].rad[2] \/
               LET s == BSum(GapTab[f]) r == Fams[f].rad[1] IN s[1] * 113 <= 2 * r * LD * 355 /\ s[2] * 106 >= 2 * r * LD * 333
GapTabOK == /\ Len(GapTab) = Len(Fams)
            /\ \A f \in 1..Len(Fams) : Len(GapTab[f]) = Len(Ring[f]) /\ CircleOK(f) /\ \A i \in 1..Len(Ring[f]) : GapOK(f, i)
ASSUME GapTabOK

\* (1) the length bracket is a bracket and it is tight (well inside the 1.5 % acceptance band)
BracketOK == LET b == PathBr(scn.path, scn.ak) IN (nrev >= 0 /\ ScnOK(scn)) => (0 < b[1] /\ b[1] <= b[2] /\ (b[2] - b[1]) * 200 <= b[2] + 200 * 64)
\* (2) Reverse: involution on the abstract command list (normal form), closedness kept, contour order reversed,
\*     way-points reversed, length bracket unchanged, winding number negated at every decided sample point
Involution == (nrev = 2 /\ ScnOK(scn)) => reg = [j \in 1..Len(scn.path) |-> NF(scn.path[j])]
RevClosed == (nrev = 1) => \A j \in 1..Len(reg) : reg[j].cl = scn.path[Len(reg) + 1 - j].cl
RevWay == (nrev = 1) => \A j \in 1..Len(reg) : CtrWay(reg[j], scn.ak) = RevSeq(CtrWay(scn.path[Len(reg) + 1 - j], scn.ak))
RevLength == (nrev = 1) => PathBr(reg, scn.ak) = PathBr(scn.path, scn.ak)
RevWinding == (nrev = 1 /\ Mode = "curves") =>
                 LET pp == ScalePath(2, scn.path) rr == ScalePath(2, reg) IN
                 \A i \in 1..NS : LET a == PathWB(pp, SPt(i)) b == PathWB(rr, SPt(i)) IN a[2] = b[2] /\ (a[2] = 0 => b[1] = -a[1])
\* (3) SplitAt on polylines: piece count; edge count conserved (one more edge per cut inside an edge); the fragments of
\*     a contour are consecutive, begin at its start and end at its end; every fragment has at least two points
RatEq(u, v) == u[1] * v[3] = v[1] * u[3] /\ u[2] * v[3] = v[2] * u[3]
RECURSIVE EdgeCnt_(_, _)
EdgeCnt_(s, i) == IF i = 0 THEN 0 ELSE (Len(s[i]) - 1) + EdgeCnt_(s, i - 1)
SplitOK == (done /\ Mode = "pyth") =>
    LET p == scn.path pd == PolyData(p) cuts == ToSet(CutSeq(pd, scn.rw)) ps == SplitExp(pd, cuts)
        U == 2 * pd.off[Len(pd.off)]
        frags == FlattenSeq(ps)                                      \* all fragments in path order
        inner == {u \in cuts : 0 < u /\ u < U}
        of(j) == SelectSeq(frags, LAMBDA f : f.j = j)
    IN /\ Len(ps) = Cardinality(inner) + 1
       /\ \A k \in 1..Len(frags) : Len(frags[k].pts) >= 2
       /\ EdgeCnt_([k \in 1..Len(frags) |-> frags[k].pts], Len(frags)) = EdgeCnt_(pd.pts, Len(p)) + Cardinality(inner \ VertexPos(pd))
       /\ \A j \in 1..Len(p) : LET fj == of(j) n == Len(fj) IN
             /\ n >= 1
             /\ fj[1].pts[1] = WP(pd.pts[j][1]) \/ RatEq(fj[1].pts[1], WP(pd.pts[j][1]))
             /\ RatEq(fj[n].pts[Len(fj[n].pts)], WP(pd.pts[j][Len(pd.pts[j])]))
             /\ \A k \in 1..(n - 1) : RatEq(fj[k].pts[Len(fj[k].pts)], fj[k + 1].pts[1])
=============================================================================
